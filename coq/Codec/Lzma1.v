(* Codec/Lzma1.v — model of src/lzma_reader.rs (LZMAReader: .lzma header, construct1/2, read_decode).
   Definitions only. *)
From LzVerif Require Export Codec.LzmaDec.

Definition DICT_SIZE_MAX : Z := 4294967280.       (* u32::MAX & !15 *)
Definition U64_MAX : Z := 18446744073709551615.
Definition U64_HALF : Z := 9223372036854775807.   (* u64::MAX / 2 *)

(* fn get_dict_size(dict_size: u32) -> Result<u32> *)
Definition lzma1_get_dict_size (dict_size : Z) : outcome Z :=
  if DICT_SIZE_MAX <? dict_size then Err E_INVALID_INPUT else
  let d := Z.max dict_size 4096 in
  Ok ((d + 15) / 16 * 16).

Record lzma1 := mkLzma1 {
  l_coder : coder;
  l_win : lzwin;
  l_rc : rdec;
  l_probs : probs;
  l_end_reached : bool;
  l_remaining : Z     (* u64; U64_MAX = unknown, an end marker is expected *)
}.

(* construct2(reader, uncomp_size, lc, lp, pb, dict_size, preset_dict); [input] = the bytes the
   underlying reader will deliver.  Errors are reported in the order the Rust code detects them. *)
Definition lzma1_construct2 (input : list Z) (uncomp_size lc lp pb dict_size : Z) (preset : option (list Z))
  : outcome lzma1 :=
  if (8 <? lc) || (4 <? lp) || (4 <? pb) then Err E_INVALID_INPUT else
  do ds <- lzma1_get_dict_size dict_size;
  (* the buffer shrinks to a small declared size - but not when a preset dictionary has to fit
     as well (fix in /repo; before it the shrunk buffer dropped the older part of the preset) *)
  do ds1 <- (if (match preset with None => true | Some _ => false end) &&
                (uncomp_size <=? U64_HALF) && (uncomp_size <? ds)
             then lzma1_get_dict_size (wrap32 uncomp_size) else Ok ds);
  do rc <- rdec_init input;
  do ds2 <- lzma1_get_dict_size ds1;
  Ok (mkLzma1 (coder_new lc lp pb) (lzwin_new ds2 preset) rc PLeaf false uncomp_size).

(* construct1: properties byte *)
Definition lzma1_construct1 (input : list Z) (uncomp_size props dict_size : Z) (preset : option (list Z))
  : outcome lzma1 :=
  if 224 <? props then Err E_INVALID_INPUT else
  let pb := props / 45 in
  let r := props - pb * 45 in
  let lp := r / 9 in
  let lc := r - lp * 9 in
  if DICT_SIZE_MAX <? dict_size then Err E_INVALID_INPUT else
  lzma1_construct2 input uncomp_size lc lp pb dict_size preset.

(* get_memory_usage(dict_size, lc, lp) in KiB; the u32 sum is checked *)
Definition lzma1_memory_usage (dict_size lc lp : Z) : outcome Z :=
  if (8 <? lc) || (4 <? lp) then Err E_INVALID_INPUT else
  do ds <- lzma1_get_dict_size dict_size;
  let lit := Z.shiftl 1536 (lc + lp) in
  if P2_32 <=? lit then Panic 40 else
  let m := 10 + ds / 1024 + lit / 1024 in
  if P2_32 <=? m then Panic 41 else Ok m.

Definition lzma1_memory_usage_by_props (dict_size props : Z) : outcome Z :=
  if DICT_SIZE_MAX <? dict_size then Err E_INVALID_INPUT else
  if 224 <? props then Err E_INVALID_INPUT else
  let p := props mod 45 in
  let lp := p / 9 in
  let lc := p - lp * 9 in
  lzma1_memory_usage dict_size lc lp.

(* new_mem_limit(reader, mem_limit_kb, preset): 13-byte header via read_exact *)
Definition lzma1_new_mem_limit (input : list Z) (mem_limit_kb : Z) (preset : option (list Z)) : outcome lzma1 :=
  match input with
  | props :: d0 :: d1 :: d2 :: d3 :: s0 :: s1 :: s2 :: s3 :: s4 :: s5 :: s6 :: s7 :: rest =>
      let dict_size := le_value [d0; d1; d2; d3] in
      let uncomp := le_value [s0; s1; s2; s3; s4; s5; s6; s7] in
      do need <- lzma1_memory_usage_by_props dict_size props;
      if mem_limit_kb <? need then Err E_OUT_OF_MEMORY else
      lzma1_construct1 rest uncomp props dict_size preset
  | _ => Err E_UNEXPECTED_EOF
  end.

(* one iteration of the while loop of read_decode, [len] > 0 bytes still wanted: returns the
   bytes flushed, the new state (whose l_end_reached says whether the call ends here) *)
Definition lzma1_iter (s : lzma1) (len : Z) : outcome (list Z * lzma1) :=
  let copy_size_max :=
    if (l_remaining s <=? U64_HALF) && (l_remaining s <? len) then l_remaining s else len in
  let w := lzwin_set_limit (l_win s) copy_size_max in
  do r <- lzma_decode (l_coder s) w (l_rc s) (l_probs s);
  let '(c1, w1, status, d1, t1) := r in
  (* rc.take_error(): a byte fetched past the end of the source (read_exact -> UnexpectedEof)
     fails the call whatever was decoded (fix edbc5fd; before it the zeros were decoded) *)
  if 0 <? rd_over d1 then Err E_UNEXPECTED_EOF else
  (* Err from decode: fatal unless it is the end marker of a stream of unknown size *)
  let after :=
    match status with
    | Ok _ => Ok (l_end_reached s, d1)
    | Err e =>
        if negb (l_remaining s =? U64_MAX) || negb (c_rep0 c1 =? 4294967295) then Err e
        else if 0 <? rd_over (rdec_normalize d1) then Err E_UNEXPECTED_EOF
        else Ok (true, rdec_normalize d1)
    | Panic e => Panic e
    | Fuel => Fuel
    end in
  do ed <- after;
  let '(end1, d2) := ed in
  let '(out, w2) := lzwin_flush w1 in
  let copied := zlen out in
  let remaining := if l_remaining s <=? U64_HALF then l_remaining s - copied else l_remaining s in
  let end2 := end1 || ((l_remaining s <=? U64_HALF) && (remaining =? 0)) in
  if end2 && lzwin_has_pending w2 then Err E_INVALID_DATA else
  Ok (out, mkLzma1 c1 w2 d2 t1 end2 remaining).

(* the while loop of read_decode; [len] bytes still wanted, [acc] = bytes produced, newest first *)
Fixpoint lzma1_read_loop (fuel : nat) (s : lzma1) (len : Z) (acc : list Z) : outcome (list Z * lzma1) :=
  if len <=? 0 then Ok (frev acc, s) else
  match fuel with
  | O => Fuel
  | S f =>
      do r <- lzma1_iter s len;
      let '(out, s1) := r in
      let acc1 := rev_append out acc in
      if l_end_reached s1 then Ok (frev acc1, s1)
      else lzma1_read_loop f s1 (len - zlen out) acc1
  end.

(* read(buf) with buf.len() = buflen *)
Definition lzma1_read (s : lzma1) (buflen : Z) : outcome (list Z * lzma1) :=
  if buflen <=? 0 then Ok ([], s) else
  if l_end_reached s then Ok ([], s) else
  lzma1_read_loop (Z.to_nat (buflen + 2)) s buflen [].

(* a whole read history: destination sizes [sizes] cycled until a non-empty buffer gets Ok(0);
   [fuel] bounds the number of calls.  Result: all bytes and the final state
   ([acc] is kept newest first). *)
Fixpoint lzma1_read_all (fuel : nat) (s : lzma1) (sizes : list Z) (all : list Z) (acc : list Z)
  : outcome (list Z * lzma1) :=
  match fuel with
  | O => Fuel
  | S f =>
      let '(sz, rest) := match sizes with [] => (4096, all) | x :: r => (x, r) end in
      do r <- lzma1_read s sz;
      let '(out, s1) := r in
      if (0 <? sz) && (zlen out =? 0) then Ok (frev acc, s1)
      else lzma1_read_all f s1 (match rest with [] => all | _ => rest end) all (rev_append out acc)
  end.

(* bytes of the source not consumed after the reader returned end of stream *)
Definition lzma1_unconsumed (s : lzma1) : list Z := rd_in (l_rc s).
