(* Codec/TruncLzma2Proofs.v — C05 for the LZMA2Reader model (Codec/Lzma2Dec.v) under TRUNCATION of
   its source.
   (A) For ANY reader state and any bytes [tl] appended to its source: every step of the reader
       (chunk header, one loop iteration, read(), a whole read history) over the shorter source
       either reports UnexpectedEof or is exactly the step over the longer source (with [tl] left
       unread).  LZMA2Reader takes its input only through read_u8 / read_exact of announced sizes,
       so no assumption on the state is needed.
   (B) For every stream the writer model produces and every proper prefix of it: the reader,
       driven with any history of positive destination sizes, returns a prefix of the data and
       then reports UnexpectedEof (which is sticky).  Never end of stream, never a panic.
   Proofs only. *)
From LzVerif Require Import Base.Bytes Codec.Store Codec.Range Codec.ProbProofs Codec.LzWindow Codec.LzmaDec
  Codec.LzmaEnc Codec.LzmaAbs Codec.LzWindowProofs Codec.ProgProofs Codec.LzmaAbsProofs
  Codec.RangeEncProofs Codec.RangeDecProofs Codec.RangeProofs Codec.LzmaSymProofs Codec.LzmaRoundtrip
  Codec.LzmaWriters Codec.LzmaChunkProofs Codec.LzmaReadProofs Codec.Lzma2Dec Codec.Lzma2FrameProofs
  Codec.Lzma2SpecProofs Codec.Lzma2FrameSyncProofs Codec.Lzma2ReadProofs Codec.TruncProofs.
Ltac Zify.zify_post_hook ::= Z.div_mod_to_equations.

Notation EOF := (Err E_UNEXPECTED_EOF).

(* the step over the truncated source [rt] and the step over the complete source [rf] *)
Definition tr2 {A} (f : A -> A) (rt rf : outcome A) : Prop := rt = EOF \/ rf = omap f rt.

Lemma tr2_bind {A B} (f : A -> A) (g : B -> B) x xf (k kf : A -> outcome B) :
  tr2 f x xf -> (forall a, tr2 g (k a) (kf (f a))) -> tr2 g (obind x k) (obind xf kf).
Proof.
  intros [->| ->] Hk; [left; reflexivity|].
  destruct x as [a|e|e|]; cbn [obind omap]; [apply Hk | right; reflexivity..].
Qed.

Lemma tr2_same {A} (f : A -> A) r : tr2 f r (omap f r).
Proof. right; reflexivity. Qed.

Definition rest_app {A} (tl : list Z) (r : A * list Z) : A * list Z := (fst r, snd r ++ tl).

Definition m_app (s : lzma2) (tl : list Z) : lzma2 := with_in s (m_in s ++ tl).

Section Mono.
Variable tl : list Z.

Lemma read_u8_tr input : tr2 (rest_app tl) (read_u8 input) (read_u8 (input ++ tl)).
Proof. destruct input as [|b r]; [left; reflexivity | right; reflexivity]. Qed.

Lemma read_u16_tr input : tr2 (rest_app tl) (read_u16_be input) (read_u16_be (input ++ tl)).
Proof. destruct input as [|a [|b r]]; [left; reflexivity | left; reflexivity | right; reflexivity]. Qed.

Lemma decode_props_tr input : tr2 (rest_app tl) (lzma2_decode_props input) (lzma2_decode_props (input ++ tl)).
Proof.
  unfold lzma2_decode_props. apply tr2_bind with (f := rest_app tl); [apply read_u8_tr|].
  intros [props rest]. unfold rest_app; cbn [fst snd].
  destruct (224 <? props); [right; reflexivity|]. cbv zeta.
  destruct (4 <? _); right; reflexivity.
Qed.

Lemma firstn_app_le {A} n (a b : list A) : (n <= length a)%nat -> firstn n (a ++ b) = firstn n a.
Proof. intros H. rewrite firstn_app. replace (n - length a)%nat with 0%nat by lia. rewrite firstn_O, app_nil_r. reflexivity. Qed.

Lemma skipn_app_le {A} n (a b : list A) : (n <= length a)%nat -> skipn n (a ++ b) = skipn n a ++ b.
Proof. intros H. rewrite skipn_app. replace (n - length a)%nat with 0%nat by lia. reflexivity. Qed.

Lemma rdec_prepare_tr input len : tr2 (rest_app tl) (rdec_prepare input len) (rdec_prepare (input ++ tl) len).
Proof.
  unfold rdec_prepare. destruct (len <? 5); [right; reflexivity|].
  destruct input as [|b0 rest0]; [left; reflexivity|]. cbn [app].
  destruct (negb (b0 =? 0)); [right; reflexivity|].
  destruct rest0 as [|b1 [|b2 [|b3 [|b4 rest]]]]; try (left; reflexivity). cbn [app].
  destruct (Nat.ltb_spec (length rest) (Z.to_nat (len - 5))) as [Hlt|Hge]; [left; reflexivity|].
  right. rewrite app_length. destruct (Nat.ltb_spec (length rest + length tl) (Z.to_nat (len - 5))); [lia|].
  rewrite firstn_app_le, skipn_app_le by lia. reflexivity.
Qed.

Lemma copy_uncompressed_tr w input len :
  tr2 (rest_app tl) (lzwin_copy_uncompressed w input len) (lzwin_copy_uncompressed w (input ++ tl) len).
Proof.
  unfold lzwin_copy_uncompressed. cbv zeta. destruct (_ <? 0); [right; reflexivity|].
  set (n := Z.to_nat _).
  destruct (Nat.ltb_spec (length input) n) as [Hlt|Hge]; [left; reflexivity|].
  right. rewrite app_length. destruct (Nat.ltb_spec (length input + length tl) n); [lia|].
  rewrite firstn_app_le, skipn_app_le by lia. reflexivity.
Qed.

Ltac msimpl :=
  cbn [m_app with_in m_in m_win m_rc m_probs m_coder m_uncompressed_size m_is_lzma_chunk m_need_dict_reset m_need_props
       m_end_reached m_error].

Lemma chunk_header_tr s : tr2 (fun s' => m_app s' tl) (lzma2_chunk_header s) (lzma2_chunk_header (m_app s tl)).
Proof.
  destruct s as [inp w rc pr co us isl ndr np er err]. unfold lzma2_chunk_header. msimpl.
  apply tr2_bind with (f := rest_app tl); [apply read_u8_tr|].
  intros [control in1]. unfold rest_app; cbn [fst snd].
  destruct (control =? 0); [right; reflexivity|].
  destruct (if (224 <=? control) || (control =? 1) then _ else _) as [[[w1 np1] ndr1]|e|e|]; cbn [obind];
    try (right; reflexivity).
  destruct (128 <=? control).
  - apply tr2_bind with (f := rest_app tl); [apply read_u16_tr|].
    intros [ulow in2]. unfold rest_app; cbn [fst snd]. cbv zeta.
    apply tr2_bind with (f := rest_app tl); [apply read_u16_tr|].
    intros [clow in3]. unfold rest_app; cbn [fst snd]. cbv zeta.
    apply tr2_bind with (f := fun r : option coder * probs * bool * list Z => (fst r, snd r ++ tl)).
    + destruct (192 <=? control).
      * apply tr2_bind with (f := rest_app tl); [apply decode_props_tr|].
        intros [c in4]. right; reflexivity.
      * destruct np1; [right; reflexivity|]. destruct (160 <=? control); right; reflexivity.
    + intros [[[coder1 probs1] np2] in4]. cbn [fst snd].
      apply tr2_bind with (f := rest_app tl); [apply rdec_prepare_tr|].
      intros [rc1 in5]. right; reflexivity.
  - destruct (2 <? control); [right; reflexivity|].
    apply tr2_bind with (f := rest_app tl); [apply read_u16_tr|].
    intros [ulow in2]. right; reflexivity.
Qed.

Definition l2_res_app (r : list Z * lzma2) : list Z * lzma2 := (fst r, m_app (snd r) tl).

Lemma iter_tr s len : tr2 l2_res_app (lzma2_iter s len) (lzma2_iter (m_app s tl) len).
Proof.
  unfold lzma2_iter.
  apply tr2_bind with (f := fun s' => m_app s' tl).
  { change (m_uncompressed_size (m_app s tl)) with (m_uncompressed_size s).
    destruct (m_uncompressed_size s =? 0); [apply chunk_header_tr | right; reflexivity]. }
  intros [inp w rc pr co us isl ndr np er err]. msimpl.
  destruct er; [right; reflexivity|]. cbv zeta.
  apply tr2_bind with (f := fun s' => m_app s' tl).
  - destruct (negb isl).
    + apply tr2_bind with (f := rest_app tl); [apply copy_uncompressed_tr|].
      intros [w' input]. right; reflexivity.
    + destruct co as [c|]; [|right; reflexivity].
      destruct (lzma_decode c _ rc pr) as [[[[[c1 w1] st] d1] t1]|e|e|]; cbn [obind]; try (right; reflexivity).
      destruct st; right; reflexivity.
  - intros [inp2 w2 rc2 pr2 co2 us2 isl2 ndr2 np2 er2 err2]. msimpl.
    destruct (lzwin_flush w2) as [out w3]. cbv zeta.
    destruct (_ <? 0); [right; reflexivity|]. msimpl.
    destruct (_ && _); right; reflexivity.
Qed.

Lemma loop_tr fuel : forall s len acc,
  tr2 l2_res_app (lzma2_read_loop fuel s len acc) (lzma2_read_loop fuel (m_app s tl) len acc).
Proof.
  induction fuel as [|f IH]; intros s len acc; cbn [lzma2_read_loop].
  - destruct (len <=? 0); right; reflexivity.
  - destruct (len <=? 0); [right; reflexivity|].
    apply tr2_bind with (f := l2_res_app); [apply iter_tr|].
    intros [out s1]. unfold l2_res_app at 2; cbn [fst snd].
    change (m_end_reached (m_app s1 tl)) with (m_end_reached s1).
    destruct (m_end_reached s1); [right; reflexivity | apply IH].
Qed.

(* read(buf) *)
Theorem lzma2_read_tr s buflen : tr2 l2_res_app (lzma2_read s buflen) (lzma2_read (m_app s tl) buflen).
Proof.
  unfold lzma2_read. destruct (buflen <=? 0); [right; reflexivity|].
  change (m_error (m_app s tl)) with (m_error s). change (m_end_reached (m_app s tl)) with (m_end_reached s).
  destruct (m_error s); [right; reflexivity|].
  destruct (m_end_reached s); [right; reflexivity | apply loop_tr].
Qed.

(* what a read history returns extends what it had collected *)
Lemma read_all_acc fuel : forall s sizes all acc out e s', lzma2_read_all fuel s sizes all acc = Ok (out, e, s') ->
  exists rest, out = rev acc ++ rest.
Proof.
  induction fuel as [|f IH]; intros s sizes all acc out e s' H; cbn [lzma2_read_all] in H; [discriminate|].
  destruct (match sizes with [] => (4096, all) | x :: r => (x, r) end) as [sz rest].
  destruct (lzma2_read s sz) as [[o s1]|x|x|]; try discriminate.
  - destruct ((0 <? sz) && (zlen o =? 0)).
    + apply Ok_inj in H. apply pair_inj in H as [H _]. apply pair_inj in H as [<- _].
      exists []. rewrite frev_rev, app_nil_r. reflexivity.
    + destruct (IH _ _ _ _ _ _ _ H) as (r & ->). rewrite rev_append_rev, rev_app_distr, rev_involutive, <- app_assoc.
      eexists; reflexivity.
  - apply Ok_inj in H. apply pair_inj in H as [H _]. apply pair_inj in H as [<- _].
    exists []. rewrite frev_rev, app_nil_r. reflexivity.
Qed.

Definition l2_all_app (r : list Z * Z * lzma2) : list Z * Z * lzma2 := (fst r, m_app (snd r) tl).

(* a whole read history: it stops with UnexpectedEof after bytes that the history over the complete
   source returns as well, or it is the history over the complete source *)
Theorem lzma2_read_all_tr fuel : forall s sizes all acc,
  (exists out st, lzma2_read_all fuel s sizes all acc = Ok (out, E_UNEXPECTED_EOF, st) /\
     forall outf ef sf, lzma2_read_all fuel (m_app s tl) sizes all acc = Ok (outf, ef, sf) -> exists rest, outf = out ++ rest) \/
  lzma2_read_all fuel (m_app s tl) sizes all acc = omap l2_all_app (lzma2_read_all fuel s sizes all acc).
Proof.
  induction fuel as [|f IH]; intros s sizes all acc; [right; reflexivity|].
  cbn [lzma2_read_all].
  destruct (match sizes with [] => (4096, all) | x :: r => (x, r) end) as [sz rest] eqn:Esz.
  destruct (lzma2_read_tr s sz) as [He|Hf].
  - left. rewrite He. eexists. eexists. split; [reflexivity|].
    intros outf ef sf H.
    assert (H' : lzma2_read_all (S f) (m_app s tl) sizes all acc = Ok (outf, ef, sf)).
    { cbn [lzma2_read_all]. rewrite Esz. exact H. }
    destruct (read_all_acc _ _ _ _ _ _ _ _ H') as (r & ->). rewrite frev_rev. eexists; reflexivity.
  - rewrite Hf. destruct (lzma2_read s sz) as [[o s1]|x|x|]; cbn [omap l2_res_app fst snd].
    + destruct ((0 <? sz) && (zlen o =? 0)); [right; reflexivity | apply IH].
    + right; reflexivity.
    + right; reflexivity.
    + right; reflexivity.
Qed.

Lemma lzma2_new_app input dict preset s0 : lzma2_new input dict preset = Ok s0 ->
  lzma2_new (input ++ tl) dict preset = Ok (m_app s0 tl).
Proof.
  unfold lzma2_new, lzma2_get_dict_size. cbn [obind]. intros H. apply Ok_inj in H. subst s0. reflexivity.
Qed.

(* success over a source is success over every extension of it *)
Corollary lzma2_read_all_mono fuel s sizes all acc out st :
  lzma2_read_all fuel s sizes all acc = Ok (out, 0, st) ->
  lzma2_read_all fuel (m_app s tl) sizes all acc = Ok (out, 0, m_app st tl).
Proof.
  intros H. destruct (lzma2_read_all_tr fuel s sizes all acc) as [(o & st' & He & _)|Hf].
  - rewrite H in He. apply Ok_inj in He. apply pair_inj in He as [He _]. apply pair_inj in He as [_ He].
    unfold E_UNEXPECTED_EOF in He. discriminate.
  - rewrite Hf, H. reflexivity.
Qed.

End Mono.

(* ---------------------------------------------------------------------------------------------
   (B) truncated streams of the writer model *)
Lemma skipn_nonnil {A} k (l : list A) : (k < length l)%nat -> skipn k l <> [].
Proof. intros Hk Hnil. pose proof (skipn_length k l) as Hl. rewrite Hnil in Hl. cbn [length] in Hl. lia. Qed.

(* the shared argument: the reader over the complete stream ends with nothing left in the source *)
Lemma truncated_from_roundtrip dict popt stream data sizes k :
  (exists s0, lzma2_new (stream ++ []) dict popt = Ok s0 /\
     forall fuel, (length data + 2 <= fuel)%nat ->
     exists s_end, lzma2_read_all fuel s0 sizes sizes [] = Ok (data, 0, s_end) /\ m_in s_end = []) ->
  (k < length stream)%nat ->
  exists s0, lzma2_new (firstn k stream) dict popt = Ok s0 /\
    forall fuel, (length data + 2 <= fuel)%nat ->
    exists out st, lzma2_read_all fuel s0 sizes sizes [] = Ok (out, E_UNEXPECTED_EOF, st) /\
                   exists rest, data = out ++ rest.
Proof.
  intros (sf & Hnew & Hread) Hk. rewrite app_nil_r in Hnew.
  set (p := firstn k stream). set (tl := skipn k stream).
  assert (Htl : tl <> []) by (apply skipn_nonnil; exact Hk).
  assert (Hs : stream = p ++ tl) by (symmetry; apply firstn_skipn).
  assert (Hnp : exists s0, lzma2_new p dict popt = Ok s0).
  { unfold lzma2_new, lzma2_get_dict_size. cbn [obind]. eexists; reflexivity. }
  destruct Hnp as (s0 & Hs0). exists s0. split; [exact Hs0|].
  pose proof (lzma2_new_app tl p dict popt s0 Hs0) as Hfull. rewrite <- Hs, Hnew in Hfull.
  apply Ok_inj in Hfull. subst sf.
  intros fuel Hfuel. destruct (Hread fuel Hfuel) as (s_end & Hra & Hin).
  destruct (lzma2_read_all_tr tl fuel s0 sizes sizes []) as [(out & st & He & Hpre)|Hf].
  - exists out, st. split; [exact He|]. exact (Hpre _ _ _ Hra).
  - exfalso. rewrite Hra in Hf.
    destruct (lzma2_read_all fuel s0 sizes sizes []) as [[[o e] st]|x|x|]; cbn [omap] in Hf; try discriminate.
    apply Ok_inj in Hf. unfold l2_all_app in Hf; cbn [fst snd] in Hf.
    apply pair_inj in Hf as [_ Hst]. subst s_end. cbn [m_app with_in m_in] in Hin.
    apply app_eq_nil in Hin as [_ Hin]. exact (Htl Hin).
Qed.

Theorem lzma2_truncated : forall lc lp pb dict data evs stream sizes k,
  0 <= lc -> 0 <= lp -> lc + lp <= 4 -> 0 <= pb <= 4 -> dict <= 2147483648 ->
  bytes_ok data = true ->
  l2_no_end evs ->
  lzma2_write lc lp pb dict None data evs = Ok stream ->
  Forall (fun z => 0 < z) sizes ->
  (k < length stream)%nat ->
  exists s0, lzma2_new (firstn k stream) dict None = Ok s0 /\
    forall fuel, (length data + 2 <= fuel)%nat ->
    exists out st, lzma2_read_all fuel s0 sizes sizes [] = Ok (out, E_UNEXPECTED_EOF, st) /\
                   exists rest, data = out ++ rest.
Proof.
  intros lc lp pb dict data evs stream sizes k Hlc Hlp Hs Hpb Hdict Hbytes Hne Hw Hsizes Hk.
  apply truncated_from_roundtrip; [|exact Hk].
  exact (lzma2_roundtrip lc lp pb dict data evs stream [] sizes Hlc Hlp Hs Hpb Hdict Hbytes Hne Hw Hsizes).
Qed.

Theorem lzma2_truncated_preset : forall lc lp pb dict p data evs stream sizes k,
  0 <= lc -> 0 <= lp -> lc + lp <= 4 -> 0 <= pb <= 4 -> dict <= 2147483648 ->
  p <> [] -> (zlen p <= dict \/ l2_window_size dict = dict) ->
  bytes_ok p = true -> bytes_ok data = true ->
  l2_no_end evs ->
  lzma2_write lc lp pb dict (Some p) data evs = Ok stream ->
  Forall (fun z => 0 < z) sizes ->
  (k < length stream)%nat ->
  exists s0, lzma2_new (firstn k stream) dict (Some p) = Ok s0 /\
    forall fuel, (length data + 2 <= fuel)%nat ->
    exists out st, lzma2_read_all fuel s0 sizes sizes [] = Ok (out, E_UNEXPECTED_EOF, st) /\
                   exists rest, data = out ++ rest.
Proof.
  intros lc lp pb dict p data evs stream sizes k Hlc Hlp Hs Hpb Hdict Hpne Hplen Hbp Hbytes Hne Hw Hsizes Hk.
  apply truncated_from_roundtrip; [|exact Hk].
  exact (lzma2_roundtrip_preset lc lp pb dict p data evs stream [] sizes Hlc Hlp Hs Hpb Hdict Hpne Hplen Hbp Hbytes Hne Hw Hsizes).
Qed.

(* the error is sticky: every later read() with a non-empty buffer reports it again *)
Lemma lzma2_error_sticky s e buflen : 0 < buflen -> lzma2_read (lzma2_set_error s e) buflen = Err e.
Proof.
  intros H. unfold lzma2_read. destruct (Z.leb_spec buflen 0); [lia|]. reflexivity.
Qed.

(* ---------------------------------------------------------------------------------------------
   non-vacuity: the stream of Lzma2ExamplesProofs.v (LZMA chunk, stored chunk, restart, LZMA chunk)
   satisfies the hypotheses; every one of its cut points evaluated, two read histories *)
From LzVerif Require Import Codec.Lzma2ExamplesProofs.

Fixpoint is_prefix2 (a b : list Z) : bool :=
  match a, b with
  | [], _ => true
  | x :: a', y :: b' => (x =? y) && is_prefix2 a' b'
  | _ :: _, [] => false
  end.

Definition l2_cut (sizes : list Z) (k : nat) : bool :=
  match lzma2_new (firstn k ex_stream) 4096 None with
  | Ok s0 => match lzma2_read_all 40 s0 sizes sizes [] with
             | Ok (out, e, _) => (e =? E_UNEXPECTED_EOF) && is_prefix2 out ex_data
             | _ => false
             end
  | _ => false
  end.

Example lzma2_truncated_all_cuts :
  length ex_stream = 33%nat /\ forallb (l2_cut [3; 1]) (seq 0 (length ex_stream)) = true /\ forallb (l2_cut [4096]) (seq 0 (length ex_stream)) = true.
Proof. vm_compute. repeat split; reflexivity. Qed.

Example lzma2_truncated_instance : forall sizes k, Forall (fun z => 0 < z) sizes -> (k < 33)%nat ->
  exists s0, lzma2_new (firstn k ex_stream) 4096 None = Ok s0 /\
    forall fuel, (12 <= fuel)%nat ->
    exists out st, lzma2_read_all fuel s0 sizes sizes [] = Ok (out, E_UNEXPECTED_EOF, st) /\ exists rest, ex_data = out ++ rest.
Proof.
  intros sizes k Hs Hk. destruct lzma2_roundtrip_hyps as (Hb & Hne & Hw).
  exact (lzma2_truncated 3 0 2 4096 ex_data ex_evs ex_stream sizes k ltac:(lia) ltac:(lia) ltac:(lia)
           ltac:(lia) ltac:(lia) Hb Hne Hw Hs Hk).
Qed.

Print Assumptions lzma2_read_all_tr.
Print Assumptions lzma2_truncated.
Print Assumptions lzma2_truncated_preset.
