(* Codec/LzmaDec.v — model of src/decoder.rs (LZMADecoder::decode and its sub-decoders),
   src/state.rs and the table layout of src/lib.rs (LZMACoder, LiteralCoder, LengthCoder).
   Definitions only.

   The decoder of one symbol is written as a *decision program*: a tree asking for context-coded
   bits ([Bit key]) and direct bits ([Direct n]).  The same program is executed (a) against the
   range decoder ([run_rc]) and (b) against a recorded list of decisions ([run_trace]); the
   encoder model (LzmaEnc.v) produces exactly such lists. *)
From LzVerif Require Export Base.Bytes Codec.Store Codec.Range Codec.LzWindow.

(* ---------------------------------------------------------------------------------------------
   Decision programs *)
Inductive prog (A : Type) : Type :=
| Ret (a : A)
| Fail (e : outcome unit)            (* Err c / Panic c raised by the decoder logic *)
| Bit (key : Z) (k : Z -> prog A)    (* context-coded bit; k is applied to 0 or 1 *)
| Direct (n : nat) (k : Z -> prog A) (* n direct bits, most significant first *).
Arguments Ret {A} a.
Arguments Fail {A} e.
Arguments Bit {A} key k.
Arguments Direct {A} n k.

Fixpoint pbind {A B} (p : prog A) (f : A -> prog B) : prog B :=
  match p with
  | Ret a => f a
  | Fail e => Fail e
  | Bit key k => Bit key (fun b => pbind (k b) f)
  | Direct n k => Direct n (fun v => pbind (k v) f)
  end.
Notation "'bind' x <- e ; f" := (pbind e (fun x => f))
  (at level 200, x pattern, e at level 100, f at level 200, right associativity).

Definition lift {A} (o : outcome A) : prog A :=
  match o with
  | Ok a => Ret a
  | Err c => Fail (Err c)
  | Panic c => Fail (Panic c)
  | Fuel => Fail Fuel
  end.

(* execution against the range decoder *)
Fixpoint run_rc {A} (p : prog A) (d : rdec) (t : probs) : outcome (A * rdec * probs) :=
  match p with
  | Ret a => Ok (a, d, t)
  | Fail (Ok _) => Panic 99
  | Fail (Err c) => Err c
  | Fail (Panic c) => Panic c
  | Fail Fuel => Fuel
  | Bit key k =>
      match decode_bit d t key with
      | None => Panic 10
      | Some (b, d1, t1) => run_rc (k b) d1 t1
      end
  | Direct n k =>
      let '(v, d1) := decode_direct_bits d n 0 in run_rc (k v) d1 t
  end.

(* recorded decisions *)
Inductive event : Type :=
| EBit (key : Z) (bit : Z)
| EDirect (n : nat) (value : Z).

(* execution against a recorded list: every request must match the next event *)
Fixpoint run_trace {A} (p : prog A) (evs : list event) : option (outcome A * list event) :=
  match p with
  | Ret a => Some (Ok a, evs)
  | Fail (Ok _) => Some (Panic 99, evs)
  | Fail (Err c) => Some (Err c, evs)
  | Fail (Panic c) => Some (Panic c, evs)
  | Fail Fuel => Some (Fuel, evs)
  | Bit key k =>
      match evs with
      | EBit key' b :: rest => if (key =? key') && ((b =? 0) || (b =? 1)) then run_trace (k b) rest else None
      | _ => None
      end
  | Direct n k =>
      match evs with
      | EDirect n' v :: rest => if Nat.eqb n n' then run_trace (k v) rest else None
      | _ => None
      end
  end.

(* ---------------------------------------------------------------------------------------------
   Table layout: one flat key space (see lib.rs LZMACoder / LengthCoder / LiteralSubCoder).
   Every 2-dimensional Rust array index is range-checked here, as the slice index is there. *)
Definition K_IS_MATCH : Z := 0.        (* [12][16] *)
Definition K_IS_REP : Z := 192.        (* [12] *)
Definition K_IS_REP0 : Z := 204.
Definition K_IS_REP1 : Z := 216.
Definition K_IS_REP2 : Z := 228.
Definition K_IS_REP0_LONG : Z := 240.  (* [12][16] *)
Definition K_DIST_SLOTS : Z := 432.    (* [4][64] *)
Definition K_DIST_SPECIAL : Z := 688.  (* [124] *)
Definition K_DIST_ALIGN : Z := 812.    (* [16] *)
Definition K_MATCH_LEN : Z := 828.     (* choice[2] low[16][8] mid[16][8] high[256] = 514 *)
Definition K_REP_LEN : Z := 1342.
Definition K_LITERAL : Z := 1856.      (* [1 << (lc+lp)][0x300] *)

Definition key2 (base rows cols i j : Z) : outcome Z :=
  if (i <? 0) || (rows <=? i) || (j <? 0) || (cols <=? j) then Panic 20 else Ok (base + i * cols + j).
Definition key1 (base len i : Z) : outcome Z :=
  if (i <? 0) || (len <=? i) then Panic 21 else Ok (base + i).

Definition bit_at {A} (ko : outcome Z) (k : Z -> prog A) : prog A :=
  match ko with
  | Ok key => Bit key k
  | Err c => Fail (Err c)
  | Panic c => Fail (Panic c)
  | Fuel => Fail Fuel
  end.

(* decode_bit_tree(probs): probs.len() = 2^levels; returns symbol - len *)
Fixpoint bittree (base : Z) (levels : nat) (sym : Z) : prog Z :=
  match levels with
  | O => Ret sym
  | S l => Bit (base + sym) (fun b => bittree base l (2 * sym + b))
  end.
Definition decode_bit_tree (base : Z) (levels : nat) : prog Z :=
  bind s <- bittree base levels 1; Ret (s - Z.shiftl 1 (Z.of_nat levels)).

(* decode_reverse_bit_tree(probs) *)
Fixpoint rev_bittree (base : Z) (levels : nat) (sym : Z) (i : Z) (result : Z) : prog Z :=
  match levels with
  | O => Ret result
  | S l => Bit (base + sym) (fun b => rev_bittree base l (2 * sym + b) (i + 1) (Z.lor result (Z.shiftl b i)))
  end.
Definition decode_reverse_bit_tree (base : Z) (levels : nat) : prog Z := rev_bittree base levels 1 0 0.

(* ---------------------------------------------------------------------------------------------
   Coder state: State (0..11), reps as u32 bit patterns of the Rust i32 values, lc/lp/pb *)
Record coder := mkCoder {
  c_state : Z;
  c_rep0 : Z; c_rep1 : Z; c_rep2 : Z; c_rep3 : Z;
  c_lc : Z; c_lp : Z; c_pb : Z
}.

Definition coder_new (lc lp pb : Z) : coder := mkCoder 0 0 0 0 0 lc lp pb.
Definition set_state (c : coder) (s : Z) : coder :=
  mkCoder s (c_rep0 c) (c_rep1 c) (c_rep2 c) (c_rep3 c) (c_lc c) (c_lp c) (c_pb c).
Definition set_reps (c : coder) (r0 r1 r2 r3 : Z) : coder :=
  mkCoder (c_state c) r0 r1 r2 r3 (c_lc c) (c_lp c) (c_pb c).
(* LZMACoder::reset / LZMADecoder::reset keep lc/lp/pb *)
Definition coder_reset (c : coder) : coder := coder_new (c_lc c) (c_lp c) (c_pb c).

Definition LIT_STATES : Z := 7.
Definition state_update_literal (s : Z) : Z := if s <=? 3 then 0 else if s <=? 9 then s - 3 else s - 6.
Definition state_update_match (s : Z) : Z := if s <? LIT_STATES then 7 else 10.
Definition state_update_long_rep (s : Z) : Z := if s <? LIT_STATES then 8 else 11.
Definition state_update_short_rep (s : Z) : Z := if s <? LIT_STATES then 9 else 11.
Definition state_is_literal (s : Z) : bool := s <? LIT_STATES.

(* pos_mask = (1 << pb) - 1 (u32) *)
Definition pos_state_of (c : coder) (pos : Z) : Z := Z.land (wrap32 pos) (wrap32 (Z.shiftl 1 (c_pb c) - 1)).

(* LengthCoder::decode; [base] = K_MATCH_LEN or K_REP_LEN (layout: choice[2], low[16][8],
   mid[16][8], high[256]); the result is the match length 2..273 *)
Definition decode_len (base : Z) (pos_state : Z) : prog Z :=
  Bit (base + 0) (fun c0 =>
    if c0 =? 0 then
      bind low <- lift (key2 (base + 2) 16 8 pos_state 0);
      bind s <- decode_bit_tree low 3; Ret (s + 2)
    else
      Bit (base + 1) (fun c1 =>
        if c1 =? 0 then
          bind mid <- lift (key2 (base + 130) 16 8 pos_state 0);
          bind s <- decode_bit_tree mid 3; Ret (s + 2 + 8)
        else
          bind s <- decode_bit_tree (base + 258) 8; Ret (s + 2 + 8 + 8))).

(* reps[0] as usize: the i32 is sign-extended *)
Definition rep_as_usize (r : Z) : Z := if r <? P2_31 then r else r + (P2_64 - P2_32).

Definition lnot32 (x : Z) : Z := 4294967295 - x.

(* LiteralSubDecoder::decode, matched variant: 8 iterations *)
Fixpoint lit_matched (lbase : Z) (n : nat) (match_byte offset symbol : Z) : prog Z :=
  match n with
  | O => Ret symbol
  | S k =>
      let match_byte := wrap32 (match_byte * 2) in
      let match_bit := Z.land match_byte offset in
      Bit (lbase + (offset + match_bit + symbol)) (fun bit =>
        let symbol := Z.lor (2 * symbol) bit in
        let offset := Z.land offset (Z.lxor (wrap32 (0 - bit)) (lnot32 match_bit)) in
        lit_matched lbase k match_byte offset symbol)
  end.

(* LiteralSubDecoder::decode without the window: [mb] = None in a literal state, Some match_byte
   otherwise; returns the 9-bit symbol (0x100 | byte) *)
Definition lit_prog (lbase : Z) (mb : option Z) : prog Z :=
  match mb with
  | None => bittree lbase 8 1
  | Some m => lit_matched lbase 8 m 256 1
  end.

(* get_sub_coder_index(prev_byte, pos) and the sub_decoders[i] index check; result = table base *)
Definition lit_base (c : coder) (prev pos : Z) : outcome Z :=
  if 8 <? c_lc c then Panic 30 else           (* 8 - lc underflows *)
  let low := Z.shiftr prev (8 - c_lc c) in
  let high := wrap32 (Z.shiftl (Z.land (wrap32 pos) (wrap32 (Z.shiftl 1 (c_lp c) - 1))) (c_lc c)) in
  let i := wrap32 (low + high) in
  do _ <- key1 0 (Z.shiftl 1 (c_lc c + c_lp c)) i;   (* sub_decoders[i] *)
  Ok (K_LITERAL + i * 768).

(* LiteralDecoder::decode + LiteralSubDecoder::decode *)
Definition decode_literal (c : coder) (w : lzwin) : prog (coder * lzwin) :=
  bind prev <- lift (lzwin_get_byte w 0);
  bind lbase <- lift (lit_base c prev (w_pos w));
  bind mb <-
    (if state_is_literal (c_state c) then Ret None
     else bind m <- lift (lzwin_get_byte w (rep_as_usize (c_rep0 c))); Ret (Some m));
  bind symbol <- lit_prog lbase mb;
  bind w1 <- lift (lzwin_put_byte w (wrap8 symbol));
  Ret (set_state c (state_update_literal (c_state c)), w1).

(* coder_get_dict_size(len) *)
Definition dist_state_of_len (len : Z) : Z := if len <? 6 then len - 2 else 3.

Definition DIST_SPECIAL_INDEX (i : Z) : Z :=
  if i =? 0 then 0 else if i =? 1 then 2 else if i =? 2 then 4 else if i =? 3 then 8 else
  if i =? 4 then 12 else if i =? 5 then 20 else if i =? 6 then 28 else if i =? 7 then 44 else
  if i =? 8 then 60 else 92.

(* decode_match: returns the new coder (reps shifted, rep0 = decoded distance) and the length *)
Definition decode_match (c : coder) (pos_state : Z) : prog (coder * Z) :=
  let st := state_update_match (c_state c) in
  bind len <- decode_len K_MATCH_LEN pos_state;
  bind dsk <- lift (key2 K_DIST_SLOTS 4 64 (dist_state_of_len len) 0);
  bind dist_slot <- decode_bit_tree dsk 6;
  bind rep0 <-
    (if dist_slot <? 4 then Ret dist_slot
     else
       let limit := Z.shiftr dist_slot 1 - 1 in
       let r := wrap32 (Z.shiftl (Z.lor 2 (Z.land dist_slot 1)) limit) in
       if dist_slot <? 14 then
         bind x <- decode_reverse_bit_tree (K_DIST_SPECIAL + DIST_SPECIAL_INDEX (dist_slot - 4)) (Z.to_nat limit);
         Ret (Z.lor r x)
       else
         Direct (Z.to_nat (limit - 4)) (fun v =>
           let r0 := wrap32 (Z.shiftl v 4) in
           bind x <- decode_reverse_bit_tree K_DIST_ALIGN 4;
           Ret (Z.lor (Z.lor r r0) x)));
  Ret (mkCoder st rep0 (c_rep0 c) (c_rep1 c) (c_rep2 c) (c_lc c) (c_lp c) (c_pb c), len).

(* decode_rep_match *)
Definition decode_rep_match (c : coder) (pos_state : Z) : prog (coder * Z) :=
  let s := c_state c in
  bind k0 <- lift (key1 K_IS_REP0 12 s);
  Bit k0 (fun b0 =>
    if b0 =? 0 then
      bind k0l <- lift (key2 K_IS_REP0_LONG 12 16 s pos_state);
      Bit k0l (fun bl =>
        if bl =? 0 then Ret (set_state c (state_update_short_rep s), 1)
        else
          bind len <- decode_len K_REP_LEN pos_state;
          Ret (set_state c (state_update_long_rep s), len))
    else
      bind k1 <- lift (key1 K_IS_REP1 12 s);
      Bit k1 (fun b1 =>
        bind c1 <-
          (if b1 =? 0 then Ret (set_reps c (c_rep1 c) (c_rep0 c) (c_rep2 c) (c_rep3 c))
           else
             bind k2 <- lift (key1 K_IS_REP2 12 s);
             Bit k2 (fun b2 =>
               if b2 =? 0 then Ret (set_reps c (c_rep2 c) (c_rep0 c) (c_rep1 c) (c_rep3 c))
               else Ret (set_reps c (c_rep3 c) (c_rep0 c) (c_rep1 c) (c_rep2 c))));
        bind len <- decode_len K_REP_LEN pos_state;
        Ret (set_state c1 (state_update_long_rep s), len))).

(* One iteration of the while loop of LZMADecoder::decode.  When lz.repeat fails the caller still
   observes the coder (end_marker_detected) and the untouched window (flush), so a symbol returns
   (coder, window, status); status <> Ok stops the loop. *)
Definition decode_symbol (c : coder) (w : lzwin) : prog (coder * lzwin * outcome unit) :=
  let pos_state := pos_state_of c (w_pos w) in
  bind km <- lift (key2 K_IS_MATCH 12 16 (c_state c) pos_state);
  Bit km (fun bm =>
    if bm =? 0 then bind cw <- decode_literal c w; Ret (fst cw, snd cw, Ok tt)
    else
      bind kr <- lift (key1 K_IS_REP 12 (c_state c));
      Bit kr (fun br =>
        bind cl <- (if br =? 0 then decode_match c pos_state else decode_rep_match c pos_state);
        match lzwin_repeat w (rep_as_usize (c_rep0 (fst cl))) (snd cl) with
        | Ok w1 => Ret (fst cl, w1, Ok tt)
        | Err e => Ret (fst cl, w, Err e)
        | Panic e => Fail (Panic e)
        | Fuel => Fail Fuel
        end)).

(* while lz.has_space() { ... } ; every iteration advances pos, so limit - pos iterations suffice *)
Fixpoint decode_loop (fuel : nat) (c : coder) (w : lzwin) : prog (coder * lzwin * outcome unit) :=
  if lzwin_has_space w then
    match fuel with
    | O => Fail Fuel
    | S f =>
        bind r <- decode_symbol c w;
        match snd r with
        | Ok _ => decode_loop f (fst (fst r)) (snd (fst r))
        | _ => Ret r
        end
    end
  else Ret (c, w, Ok tt).

(* LZMADecoder::decode(lz, rc): repeat_pending, the loop, then the trailing rc.normalize() (only
   when no error was raised). *)
Definition lzma_decode (c : coder) (w : lzwin) (d : rdec) (t : probs)
  : outcome (coder * lzwin * outcome unit * rdec * probs) :=
  match lzwin_repeat_pending w with
  | Ok w0 =>
      match run_rc (decode_loop (Z.to_nat (w_limit w0 - w_pos w0)) c w0) d t with
      | Ok (r, d1, t1) =>
          match snd r with
          | Ok _ => Ok (r, rdec_normalize d1, t1)
          | _ => Ok (r, d1, t1)
          end
      | Err e => Err e
      | Panic e => Panic e
      | Fuel => Fuel
      end
  | Err e => Ok (c, w, Err e, d, t)
  | Panic e => Panic e
  | Fuel => Fuel
  end.
