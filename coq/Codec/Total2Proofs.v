(* Codec/Total2Proofs.v — C06 for the LZMA2Reader model (Codec/Lzma2Dec.v): TOTAL on arbitrary input.
   For every byte string as source, every dict_size (any integer: the repaired code clamps it),
   every preset dictionary and every history of destination sizes: construction succeeds, every
   read() returns Ok or Err within the iteration budget the model gives it (2 * buflen + 4), a
   whole read history ends within a number of calls that is a stated function of the source length
   and the sizes, and the bytes returned are at most 2^21 / 3 per source byte (a chunk header of at
   least 3 bytes announces at most 2 MiB).
   Covered: chunk headers with any control byte (end marker, stored chunks with or without
   dictionary reset, LZMA chunks with every reset level, the reserved values 3..127), the size
   fields, the properties byte (invalid ones are errors), need_props / need_dict_reset, a window
   that starts full (preset dictionary), the end-of-chunk checks.  Proofs only. *)
From LzVerif Require Import Base.Bytes Codec.Store Codec.Range Codec.ProbProofs Codec.RangeArithProofs
  Codec.LzWindow Codec.LzmaDec Codec.LzmaAbs Codec.LzWindowProofs Codec.ProgProofs Codec.LzmaAbsProofs
  Codec.RangeNoWrapProofs Codec.LzmaSymProofs Codec.LzmaReadProofs Codec.LzmaChunkProofs Codec.LzmaTotalProofs Codec.TruncProofs
  Codec.Lzma2WindowProofs Codec.Lzma1 Codec.Lzma1ReadProofs Codec.TruncLzma1Proofs Codec.Lzma2Dec
  Codec.TotalCoreProofs Codec.Total1Proofs.
Ltac Zify.zify_post_hook ::= Z.div_mod_to_equations.

Ltac msimpl :=
  cbn [with_in m_in m_win m_rc m_probs m_coder m_uncompressed_size m_is_lzma_chunk m_need_dict_reset m_need_props
       m_end_reached m_error].

(* ---- byte lists -------------------------------------------------------------------------------- *)
Lemma b_skipn n : forall l, bytes_ok l = true -> bytes_ok (skipn n l) = true.
Proof.
  induction n as [|k IH]; intros l H; [exact H|]. destruct l as [|x t]; [exact H|].
  apply bytes_ok_cons in H as (_ & H). apply IH. exact H.
Qed.

Lemma b_firstn n : forall l, bytes_ok l = true -> bytes_ok (firstn n l) = true.
Proof.
  induction n as [|k IH]; intros l H; [reflexivity|]. destruct l as [|x t]; [reflexivity|].
  apply bytes_ok_cons in H as (Hx & H). cbn [firstn]. apply bytes_ok_cons. split; [exact Hx | apply IH; exact H].
Qed.

Lemma hist_bytes_rev_app l : forall hist, bytes_ok l = true -> hist_bytes hist -> hist_bytes (rev l ++ hist).
Proof.
  induction l as [|x t IH]; intros hist Hb Hh; [exact Hh|].
  apply bytes_ok_cons in Hb as (Hx & Hb). cbn [rev]. rewrite <- app_assoc. cbn [app].
  apply IH; [exact Hb|]. apply hist_bytes_cons; assumption.
Qed.

(* ---- the reader-state invariant ---------------------------------------------------------------- *)
Definition inv2 (s : lzma2) : Prop :=
  exists hist, Rel (m_win s) hist /\ hist_bytes hist /\
    probs_ok (m_probs s) /\ rdec_wf (m_rc s) /\
    w_start (m_win s) = w_pos (m_win s) /\
    bytes_ok (m_in s) = true /\
    0 <= m_uncompressed_size s /\
    (m_uncompressed_size s = 0 -> w_pending_len (m_win s) = 0) /\
    (0 < w_pending_len (m_win s) -> 0 <= w_pending_dist (m_win s) < w_full (m_win s)) /\
    (m_need_props s = false -> exists c, m_coder s = Some c /\ coder_ok c (w_full (m_win s))) /\
    (0 < m_uncompressed_size s -> m_is_lzma_chunk s = true -> m_need_props s = false).

Definition rinv2 (s : lzma2) : Prop :=
  m_error s = None /\ bytes_ok (m_in s) = true /\ (m_end_reached s = true \/ inv2 s).

Lemma inv2_bytes s : inv2 s -> bytes_ok (m_in s) = true.
Proof. intros (hist & _ & _ & _ & _ & _ & Hb & _). exact Hb. Qed.

(* three times the bytes the reader can still return: 2 MiB per three source bytes left, plus the
   rest of the current chunk *)
Definition P2 (s : lzma2) : Z := 2097152 * zlen (m_in s) + 3 * m_uncompressed_size s.
Definition pot2 (s : lzma2) : Z := if m_end_reached s then 0 else P2 s / 3.

Lemma P2_nonneg s : inv2 s -> 0 <= P2 s.
Proof. intros (hist & _ & _ & _ & _ & _ & _ & Hu & _). unfold P2. pose proof (zlen_nonneg (m_in s)). lia. Qed.

Lemma pot2_nonneg s : rinv2 s -> 0 <= pot2 s.
Proof.
  intros (_ & _ & [He|Hi]); unfold pot2.
  - rewrite He. lia.
  - destruct (m_end_reached s); [lia|]. pose proof (P2_nonneg s Hi). lia.
Qed.

(* ---- the fields of a chunk header --------------------------------------------------------------- *)
Lemma read_u16_spec input : bytes_ok input = true ->
  match read_u16_be input with
  | Ok (v, r) => 0 <= v < 65536 /\ bytes_ok r = true /\ zlen input = zlen r + 2
  | Err _ => True
  | _ => False
  end.
Proof.
  intros Hb. destruct input as [|a [|b r]]; cbn [read_u16_be]; try exact I.
  apply bytes_ok_cons in Hb as (Ha & Hb). apply bytes_ok_cons in Hb as (Hb1 & Hb).
  rewrite !zlen_cons. split; [lia|]. split; [exact Hb | lia].
Qed.

Lemma decode_props_spec input : bytes_ok input = true ->
  match lzma2_decode_props input with
  | Ok (c, r) => (forall full, coder_ok c full) /\ bytes_ok r = true /\ zlen input = zlen r + 1
  | Err _ => True
  | _ => False
  end.
Proof.
  intros Hb. unfold lzma2_decode_props. destruct input as [|props rest]; cbn [read_u8 obind]; [exact I|].
  apply bytes_ok_cons in Hb as (Hp & Hb).
  destruct (Z.ltb_spec 224 props); [exact I|]. cbv zeta.
  set (pb := props / 45). set (r := props - pb * 45). set (lp := r / 9). set (lc := r - lp * 9).
  destruct (Z.ltb_spec 4 (lc + lp)); [exact I|].
  split; [|split; [exact Hb | rewrite zlen_cons; lia]].
  intros full. apply coder_new_ok; unfold lc, lp, r, pb in *; lia.
Qed.

Lemma rdec_prepare_spec input len : bytes_ok input = true ->
  match rdec_prepare input len with
  | Ok (rc, r) => rdec_wf rc /\ bytes_ok r = true /\ zlen r + 5 <= zlen input
  | Err _ => True
  | _ => False
  end.
Proof.
  intros Hb. unfold rdec_prepare. destruct (len <? 5); [exact I|].
  destruct input as [|b0 rest0]; [exact I|]. destruct (negb (b0 =? 0)); [exact I|].
  destruct rest0 as [|b1 [|b2 [|b3 [|b4 rest]]]]; try exact I.
  destruct (Nat.ltb_spec (length rest) (Z.to_nat (len - 5))); [exact I|].
  split; [unfold rdec_wf; cbn [rd_range]; lia|].
  do 5 (apply bytes_ok_cons in Hb as (_ & Hb)).
  split; [apply b_skipn; exact Hb|]. rewrite !zlen_cons. unfold zlen. rewrite skipn_length. lia.
Qed.

(* the dictionary-reset part of the header *)
Lemma header_win s control : inv2 s -> m_uncompressed_size s = 0 ->
  match (if (224 <=? control) || (control =? 1) then do w <- lzwin_reset (m_win s); Ok (w, true, false)
         else if m_need_dict_reset s then Err E_INVALID_INPUT
         else Ok (m_win s, m_need_props s, m_need_dict_reset s)) with
  | Ok (w1, np1, ndr1) =>
      exists hist1, Rel w1 hist1 /\ hist_bytes hist1 /\ w_start w1 = w_pos w1 /\ w_pending_len w1 = 0 /\
        w_size w1 = w_size (m_win s) /\ (w_pos w1 = w_size w1 -> w_pos (m_win s) = w_size (m_win s)) /\
        (np1 = false -> exists c, m_coder s = Some c /\ coder_ok c (w_full w1))
  | Err _ => True
  | _ => False
  end.
Proof.
  intros (hist & R & Hhb & Hpr & Hwf & Hsp & Hbi & Hu & Hpz & Hpd & Hco & Hlz) Hz.
  pose proof R as [[Hs0 Hs16] _ _ _ _ _ _ Hpe].
  destruct ((224 <=? control) || (control =? 1)).
  - destruct (reset_rel (m_win s) Hs0 Hs16 Hpe) as (w' & Hr & R' & Hsz & Hst & Hpo & Hfu & Hpl & Hpdd).
    rewrite Hr. cbn [obind]. exists []. split; [exact R'|]. split; [apply hist_bytes_in; intros x []|].
    split; [lia|]. split; [rewrite Hpl; apply Hpz; exact Hz|]. split; [exact Hsz|].
    split; [intros Hx; lia | intros Hx; discriminate].
  - destruct (m_need_dict_reset s); [exact I|].
    exists hist. split; [exact R|]. split; [exact Hhb|]. split; [exact Hsp|]. split; [apply Hpz; exact Hz|].
    split; [reflexivity|]. split; [intros Hx; exact Hx | exact Hco].
Qed.

(* decode_chunk_header() on any input *)
Lemma header2_total s : inv2 s -> m_uncompressed_size s = 0 ->
  (exists e, lzma2_chunk_header s = Err e) \/
  exists s1, lzma2_chunk_header s = Ok s1 /\ m_error s1 = m_error s /\
    (length (m_in s1) <= length (m_in s))%nat /\
    ((m_end_reached s1 = true /\ P2 s1 <= P2 s /\ 0 <= P2 s1 /\ bytes_ok (m_in s1) = true) \/
     (m_end_reached s1 = false /\ inv2 s1 /\ 0 < m_uncompressed_size s1 /\ P2 s1 <= P2 s /\
      w_size (m_win s1) = w_size (m_win s) /\
      (w_pos (m_win s1) = w_size (m_win s1) -> w_pos (m_win s) = w_size (m_win s)))).
Proof.
  intros Hi Hz. pose proof Hi as (hist & R & Hhb & Hpr & Hwf & Hsp & Hbi & Hu & Hpz & Hpd & Hco & Hlz).
  unfold lzma2_chunk_header.
  destruct (m_in s) as [|control in1] eqn:Ein; cbn [read_u8 obind]; [left; eexists; reflexivity|].
  apply bytes_ok_cons in Hbi as (Hc & Hb1).
  destruct (Z.eqb_spec control 0) as [Hc0|Hc0].
  { right. eexists. split; [reflexivity|]. msimpl. split; [reflexivity|]. split; [try rewrite Ein; cbn [length]; lia|].
    left. split; [reflexivity|]. unfold P2. msimpl. rewrite Ein, zlen_cons. pose proof (zlen_nonneg in1). split; [lia|]. split; [lia | exact Hb1]. }
  pose proof (header_win s control Hi Hz) as HW.
  match goal with |- context [obind ?st1 _] => destruct st1 as [[[w1 np1] ndr1]|e|e|] eqn:Est1 end;
    cbn [obind]; try contradiction; [|left; eexists; reflexivity].
  destruct HW as (hist1 & R1 & Hhb1 & Hsp1 & Hpl1 & Hsz1 & Hfull1 & Hco1).
  destruct (Z.leb_spec 128 control) as [Hlz8|Hst8].
  - (* an LZMA chunk *)
    pose proof (read_u16_spec in1 Hb1) as H1.
    destruct (read_u16_be in1) as [[ulow in2]|e|e|]; cbn [obind]; try contradiction; [|left; eexists; reflexivity].
    destruct H1 as (Hul & Hb2 & Hl2). cbv zeta.
    pose proof (read_u16_spec in2 Hb2) as H2.
    destruct (read_u16_be in2) as [[clow in3]|e|e|]; cbn [obind]; try contradiction; [|left; eexists; reflexivity].
    destruct H2 as (Hcl & Hb3 & Hl3). cbv zeta.
    set (usize := Z.shiftl (Z.land control 31) 16 + ulow + 1).
    assert (Husz : 1 <= usize <= 2097152).
    { unfold usize. change 31 with (Z.ones 5). rewrite Z.land_ones by lia. rewrite Z.shiftl_mul_pow2 by lia.
      change (2 ^ 5) with 32. change (2 ^ 16) with 65536. lia. }
    (* properties / state reset *)
    assert (HPC : match (if 192 <=? control then
                           do cp <- lzma2_decode_props in3; let '(c, in4) := cp in Ok (Some c, PLeaf, false, in4)
                         else if np1 then Err E_INVALID_INPUT
                         else if 160 <=? control then
                           Ok (match m_coder s with Some c => Some (coder_reset c) | None => None end,
                               match m_coder s with Some _ => PLeaf | None => m_probs s end, np1, in3)
                         else Ok (m_coder s, m_probs s, np1, in3)) with
                  | Ok (coder1, probs1, np2, in4) =>
                      np2 = false /\ (exists c, coder1 = Some c /\ coder_ok c (w_full w1)) /\ probs_ok probs1 /\
                      bytes_ok in4 = true /\ zlen in4 <= zlen in3
                  | Err _ => True
                  | _ => False
                  end).
    { destruct (192 <=? control).
      - pose proof (decode_props_spec in3 Hb3) as HD.
        destruct (lzma2_decode_props in3) as [[c in4]|e|e|]; cbn [obind]; try contradiction; [|exact I].
        destruct HD as (Hcok & Hb4 & Hl4). split; [reflexivity|]. split; [exists c; split; [reflexivity | apply Hcok]|].
        split; [apply probs_ok_empty|]. split; [exact Hb4 | lia].
      - destruct np1 eqn:Enp; [exact I|]. destruct (Hco1 eq_refl) as (c & Hsc & Hcok).
        destruct (160 <=? control).
        + rewrite Hsc. split; [reflexivity|]. split.
          * exists (coder_reset c). split; [reflexivity|]. unfold coder_reset.
            destruct Hcok as ((A1 & A2 & A3) & _). apply coder_new_ok; assumption.
          * split; [apply probs_ok_empty|]. split; [exact Hb3 | lia].
        + split; [reflexivity|]. split; [exists c; split; assumption|]. split; [exact Hpr|]. split; [exact Hb3 | lia]. }
    match goal with |- context [obind ?pc _] => destruct pc as [[[[coder1 probs1] np2] in4]|e|e|] end;
      cbn [obind]; try contradiction; [|left; eexists; reflexivity].
    destruct HPC as (-> & (c1 & -> & Hc1ok) & Hpr1 & Hb4 & Hl4).
    pose proof (rdec_prepare_spec in4 (clow + 1) Hb4) as HR.
    destruct (rdec_prepare in4 (clow + 1)) as [[rc1 in5]|e|e|]; cbn [obind]; try contradiction; [|left; eexists; reflexivity].
    destruct HR as (Hwf1 & Hb5 & Hl5).
    right. eexists. split; [reflexivity|]. msimpl. split; [reflexivity|].
    unfold zlen in Hl2, Hl3, Hl4, Hl5 |- *.
    split; [cbn [length]; lia|]. right. split; [reflexivity|].
    split.
    { exists hist1. msimpl. split; [exact R1|]. split; [exact Hhb1|]. split; [exact Hpr1|]. split; [exact Hwf1|].
      split; [exact Hsp1|]. split; [exact Hb5|]. split; [lia|]. split; [intros Hx; lia|].
      split; [rewrite Hpl1; lia|]. split; [intros _; exists c1; split; [reflexivity | exact Hc1ok]|]. intros _ _. reflexivity. }
    split; [lia|]. split; [unfold P2; msimpl; rewrite Ein; unfold zlen; cbn [length]; lia|].
    split; [exact Hsz1 | exact Hfull1].
  - destruct (Z.ltb_spec 2 control); [left; eexists; reflexivity|].
    (* a stored chunk *)
    pose proof (read_u16_spec in1 Hb1) as H1.
    destruct (read_u16_be in1) as [[ulow in2]|e|e|]; cbn [obind]; try contradiction; [|left; eexists; reflexivity].
    destruct H1 as (Hul & Hb2 & Hl2).
    right. eexists. split; [reflexivity|]. msimpl. split; [reflexivity|].
    unfold zlen in Hl2. split; [try rewrite Ein; cbn [length]; lia|]. right. split; [reflexivity|].
    split.
    { exists hist1. msimpl. split; [exact R1|]. split; [exact Hhb1|]. split; [exact Hpr|]. split; [exact Hwf|].
      split; [exact Hsp1|]. split; [exact Hb2|]. split; [lia|]. split; [intros Hx; lia|].
      split; [rewrite Hpl1; lia|]. split; [exact Hco1|]. intros _ Hx. discriminate. }
    split; [lia|]. split; [unfold P2; msimpl; rewrite Ein; unfold zlen; cbn [length]; lia|].
    split; [exact Hsz1 | exact Hfull1].
Qed.

Lemma iter_after_header s s1 len : m_uncompressed_size s = 0 -> lzma2_chunk_header s = Ok s1 ->
  0 < m_uncompressed_size s1 -> lzma2_iter s len = lzma2_iter s1 len.
Proof.
  intros Hz Hh Hp. unfold lzma2_iter. rewrite Hz, Hh. change (0 =? 0) with true. cbv iota. cbn [obind].
  destruct (Z.eqb_spec (m_uncompressed_size s1) 0); [lia|]. cbn [obind]. reflexivity.
Qed.

Lemma rel_full_mono w hist w' hist' : Rel w hist -> Rel w' hist' -> w_size w' = w_size w -> zlen hist <= zlen hist' ->
  w_full w <= w_full w'.
Proof. intros [_ _ [F _] _ _ _ _ _] [_ _ [F' _] _ _ _ _ _] Hs Hl. lia. Qed.

(* ---- one copy / decode step inside a chunk ------------------------------------------------------ *)
Definition iter2_post (s : lzma2) (len : Z) (out : list Z) (s1 : lzma2) : Prop :=
  m_error s1 = m_error s /\
  ((m_end_reached s1 = true /\ out = []) \/ (m_end_reached s1 = false /\ inv2 s1)) /\
  zlen out <= len /\ 3 * zlen out + P2 s1 <= P2 s /\ 0 <= P2 s1 /\ bytes_ok (m_in s1) = true /\
  (length (m_in s1) <= length (m_in s))%nat /\
  (m_end_reached s1 = false ->
     w_pos (m_win s1) < w_size (m_win s1) /\ w_size (m_win s1) = w_size (m_win s) /\
     (1 <= zlen out \/ w_pos (m_win s) = w_size (m_win s))).

Lemma body2_total s len : inv2 s -> 0 < m_uncompressed_size s -> m_end_reached s = false -> 0 < len ->
  (exists e, lzma2_iter s len = Err e) \/
  exists out s1, lzma2_iter s len = Ok (out, s1) /\ iter2_post s len out s1.
Proof.
  intros (hist & R & Hhb & Hpr & Hwf & Hsp & Hbi & Hu & Hpz & Hpd & Hco & Hlz) Hup Hne Hlen.
  pose proof R as [[Hs0 Hs16] [[Hp0 Hp1] Hp2] _ _ _ _ _ Hpe].
  unfold lzma2_iter. destruct (Z.eqb_spec (m_uncompressed_size s) 0); [lia|]. cbn [obind]. rewrite Hne.
  cbv zeta.
  set (m := Z.min (m_uncompressed_size s) len). assert (Hm : 1 <= m <= len) by (unfold m; lia).
  destruct (m_is_lzma_chunk s) eqn:Elz; cbn [negb].
  - (* LZMA chunk *)
    destruct (Hco (Hlz Hup eq_refl)) as (c & Hsc & Hcok). rewrite Hsc.
    destruct (set_limit_rel (m_win s) hist m R ltac:(lia)) as (R' & Hpl').
    destruct (lzma_decode_post c (lzwin_set_limit (m_win s) m) hist (m_rc s) (m_probs s) R' Hhb Hcok Hpl' Hpd Hpr Hwf)
      as (c1 & w1 & st & d1 & t1 & hist1 & Hdec & R1 & Hhb1 & Hpr1 & Hwf1 & Esz & Eli & Est & Epos & Hpd1 & Hst & Hlen1 & Hov & _).
    cbn [lzwin_set_limit w_size w_limit w_start w_pos w_pending_len] in Esz, Eli, Est, Epos.
    rewrite Hdec. cbn [obind].
    destruct Hst as [(-> & Hco1 & Hlim)|(e & ->)]; [|left; eexists; reflexivity].
    cbn [lzwin_set_limit w_limit w_pos w_size] in Hlim. cbn [obind]. msimpl.
    pose proof (flush_rel w1 hist1 R1) as HF. pose proof (flush_facts w1) as (Ffull & Fpos & Flen).
    pose proof R1 as [[Hs1 _] [[Hq0 Hq1] Hq2] _ _ _ _ _ Hpe1].
    destruct (lzwin_flush w1) as [out w3]. cbn [fst snd] in *.
    destruct HF as (_ & R3 & Fst & Fsz & Fli & Fpl & Fpd).
    assert (Hzm : zlen out = Z.min m (w_size (m_win s) - w_pos (m_win s))) by lia.
    destruct (Z.ltb_spec (m_uncompressed_size s - zlen out) 0); [lia|]. msimpl.
    match goal with |- context [if ?c then Err _ else _] => destruct c eqn:Echk end; [left; eexists; reflexivity|].
    right. eexists. eexists. split; [reflexivity|]. unfold iter2_post. msimpl.
    split; [reflexivity|]. split.
    { right. split; [reflexivity|]. exists hist1. msimpl.
      split; [exact R3|]. split; [exact Hhb1|]. split; [exact Hpr1|]. split; [exact Hwf1|]. split; [exact Fst|].
      split; [exact Hbi|]. split; [lia|]. split.
      { intros Hx. rewrite Hx in Echk. change (0 =? 0) with true in Echk. cbn [andb] in Echk.
        apply orb_false_iff in Echk as (_ & Hnp). unfold lzwin_has_pending in Hnp. apply Z.ltb_ge in Hnp.
        destruct R3. lia. }
      split; [rewrite Fpl, Fpd, Ffull; exact Hpd1|].
      split; [intros _; exists c1; split; [reflexivity | rewrite Ffull; exact Hco1]|].
      intros _ _. apply Hlz; [exact Hup | reflexivity]. }
    split; [lia|]. split; [unfold P2; msimpl; lia|]. split; [unfold P2; msimpl; pose proof (zlen_nonneg (m_in s)); lia|]. split; [exact Hbi|]. split; [lia|].
    intros _. split; [rewrite Fsz; apply Fpos; lia|]. split; [lia|].
    destruct (Z.eq_dec (w_pos (m_win s)) (w_size (m_win s))); [right; assumption | left; lia].
  - (* stored chunk *)
    unfold lzwin_copy_uncompressed.
    set (cn := Z.min (w_size (m_win s) - w_pos (m_win s)) m).
    assert (Hn : 0 <= cn <= m) by (unfold cn; lia).
    destruct (Z.ltb_spec cn 0); [lia|].
    destruct (Nat.ltb_spec (length (m_in s)) (Z.to_nat cn)) as [Hshort|Hok]; [left; eexists; reflexivity|].
    destruct (copy_uncompressed_rel (m_win s) hist (m_in s) m R ltac:(lia) Hok)
      as (w' & Hcp & R1 & Esz & Est & Epos & Epl & Epd).
    fold cn in Hcp, R1, Epos.
    unfold lzwin_copy_uncompressed in Hcp. fold cn in Hcp.
    destruct (Z.ltb_spec cn 0); [lia|]. destruct (Nat.ltb_spec (length (m_in s)) (Z.to_nat cn)); [lia|].
    apply Ok_inj in Hcp. apply pair_inj in Hcp as (Hw' & _). rewrite Hw'. cbn [obind]. msimpl.
    set (hist1 := rev (firstn (Z.to_nat cn) (m_in s)) ++ hist) in *.
    assert (Hhb1 : hist_bytes hist1) by (apply hist_bytes_rev_app; [apply b_firstn; exact Hbi | exact Hhb]).
    pose proof (flush_rel w' hist1 R1) as HF. pose proof (flush_facts w') as (Ffull & Fpos & Flen).
    pose proof R1 as [[Hs1 _] [[Hq0 Hq1] Hq2] _ _ _ _ _ Hpe1].
    destruct (lzwin_flush w') as [out w3]. cbn [fst snd] in *.
    destruct HF as (_ & R3 & Fst & Fsz & Fli & Fpl & Fpd).
    assert (Hzm : zlen out = cn) by lia.
    destruct (Z.ltb_spec (m_uncompressed_size s - zlen out) 0); [lia|]. msimpl.
    match goal with |- context [if ?c then Err _ else _] => destruct c eqn:Echk end; [left; eexists; reflexivity|].
    assert (Hfm : w_full (m_win s) <= w_full w').
    { apply (rel_full_mono _ hist _ hist1 R R1 Esz). unfold hist1. rewrite zlen_app. pose proof (zlen_nonneg (rev (firstn (Z.to_nat cn) (m_in s)))). lia. }
    right. eexists. eexists. split; [reflexivity|]. unfold iter2_post. msimpl.
    split; [reflexivity|]. split.
    { right. split; [reflexivity|]. exists hist1. msimpl.
      split; [exact R3|]. split; [exact Hhb1|]. split; [exact Hpr|]. split; [exact Hwf|]. split; [exact Fst|].
      split; [apply b_skipn; exact Hbi|]. split; [lia|]. split.
      { intros Hx. rewrite Hx in Echk. change (0 =? 0) with true in Echk. cbn [andb] in Echk.
        apply orb_false_iff in Echk as (_ & Hnp). unfold lzwin_has_pending in Hnp. apply Z.ltb_ge in Hnp.
        destruct R3. lia. }
      split; [rewrite Fpl, Fpd, Ffull, Epl, Epd; intros Hx; specialize (Hpd Hx); lia|].
      split.
      { intros Hx. destruct (Hco Hx) as (c & Hsc & Hcok). exists c. split; [exact Hsc|].
        rewrite Ffull. eapply coder_ok_mono; [exact Hcok | exact Hfm]. }
      intros _ Hx. congruence. }
    split; [lia|]. split; [unfold P2; msimpl; pose proof (skipn_length (Z.to_nat cn) (m_in s)); unfold zlen in *; lia|].
    split; [unfold P2; msimpl; pose proof (zlen_nonneg (skipn (Z.to_nat cn) (m_in s))); lia|].
    split; [apply b_skipn; exact Hbi|].
    split; [rewrite skipn_length; lia|].
    intros _. split; [rewrite Fsz; apply Fpos; lia|]. split; [lia|].
    destruct (Z.eq_dec (w_pos (m_win s)) (w_size (m_win s))); [right; assumption | left; unfold cn in *; lia].
Qed.

(* ---- one iteration of the loop of read_decode ---------------------------------------------------- *)
Lemma iter2_total s len : inv2 s -> m_end_reached s = false -> 0 < len ->
  (exists e, lzma2_iter s len = Err e) \/
  exists out s1, lzma2_iter s len = Ok (out, s1) /\ iter2_post s len out s1.
Proof.
  intros Hi Hne Hlen. pose proof Hi as (hist & _ & _ & _ & _ & _ & _ & Hu & _).
  destruct (Z.eq_dec (m_uncompressed_size s) 0) as [Hz|Hnz].
  - destruct (header2_total s Hi Hz) as [(e & He)|(s1 & Hh & Herr & Hlen1 & Hcase)].
    + left. exists e. unfold lzma2_iter. rewrite Hz, He. reflexivity.
    + destruct Hcase as [(Hend & HP & HPn & Hbe)|(Hend & Hi1 & Hup & HP & Hsz & Hfull)].
      * right. exists [], s1. split.
        { unfold lzma2_iter. rewrite Hz, Hh. change (0 =? 0) with true. cbv iota. cbn [obind]. rewrite Hend. reflexivity. }
        unfold iter2_post. split; [exact Herr|]. split; [left; split; [exact Hend | reflexivity]|].
        change (zlen (@nil Z)) with 0. split; [lia|]. split; [lia|]. split; [exact HPn|]. split; [exact Hbe|]. split; [exact Hlen1|]. intros Hx. congruence.
      * rewrite (iter_after_header s s1 len Hz Hh Hup).
        destruct (body2_total s1 len Hi1 Hup Hend Hlen) as [He|(out & s2 & Hit & Herr2 & Hst2 & Hol & HP2 & HPn2 & Hb2 & Hl2 & Hprog)];
          [left; exact He|].
        right. exists out, s2. split; [exact Hit|]. unfold iter2_post.
        split; [congruence|]. split; [exact Hst2|]. split; [exact Hol|]. split; [lia|]. split; [exact HPn2|]. split; [exact Hb2|]. split; [lia|].
        intros Hx. destruct (Hprog Hx) as (A & B & C). split; [exact A|]. split; [congruence|].
        destruct C as [C|C]; [left; exact C | right; apply Hfull; exact C].
  - apply body2_total; [exact Hi | lia | exact Hne | exact Hlen].
Qed.

(* ---- the while loop of read_decode --------------------------------------------------------------- *)
Lemma loop2_total fuel : forall s len acc, inv2 s -> m_end_reached s = false -> 0 <= len ->
  len + 1 + (if w_pos (m_win s) =? w_size (m_win s) then 1 else 0) <= Z.of_nat fuel ->
  (exists e, lzma2_read_loop fuel s len acc = Err e) \/
  exists new s1, lzma2_read_loop fuel s len acc = Ok (rev acc ++ new, s1) /\ m_error s1 = m_error s /\
    (m_end_reached s1 = true \/ inv2 s1) /\
    zlen new <= len /\ 3 * zlen new + P2 s1 <= P2 s /\ 0 <= P2 s1 /\ bytes_ok (m_in s1) = true /\
    (length (m_in s1) <= length (m_in s))%nat /\
    (m_end_reached s1 = false -> zlen new = len).
Proof.
  induction fuel as [|f IH]; intros s len acc Hi Hne Hlen Hf.
  - exfalso. destruct (w_pos (m_win s) =? w_size (m_win s)); lia.
  - cbn [lzma2_read_loop]. destruct (Z.leb_spec len 0) as [Hz|Hpos].
    + right. exists [], s. rewrite frev_rev, app_nil_r. split; [reflexivity|]. split; [reflexivity|]. split; [right; exact Hi|].
      change (zlen (@nil Z)) with 0. split; [lia|]. split; [lia|]. split; [apply P2_nonneg; exact Hi|]. split; [apply inv2_bytes; exact Hi|]. split; [lia|]. intros _. lia.
    + destruct (iter2_total s len Hi Hne Hpos) as [(e & He)|(out & s2 & Hit & Herr & Hst & Hol & HP & HPn & Hbo & Hl & Hprog)].
      * left. rewrite He. cbn [obind]. eexists; reflexivity.
      * rewrite Hit. cbn [obind]. pose proof (zlen_nonneg out) as Ho0.
        destruct Hst as [(Hend & Hout)|(Hend & Hi2)]; rewrite Hend.
        -- right. exists [], s2. rewrite frev_rev, app_nil_r. subst out. change (zlen (@nil Z)) with 0 in *.
           split; [reflexivity|]. split; [exact Herr|]. split; [left; exact Hend|].
           split; [lia|]. split; [lia|]. split; [exact HPn|]. split; [exact Hbo|]. split; [exact Hl|]. intros Hx. congruence.
        -- destruct (Hprog Hend) as (Hroom & Hsz & Hadv).
           assert (Hf2 : len - zlen out + 1 + (if w_pos (m_win s2) =? w_size (m_win s2) then 1 else 0) <= Z.of_nat f).
           { destruct (Z.eqb_spec (w_pos (m_win s2)) (w_size (m_win s2))); [lia|].
             destruct (Z.eqb_spec (w_pos (m_win s)) (w_size (m_win s))); destruct Hadv as [Hadv|Hadv]; lia. }
           destruct (IH s2 (len - zlen out) (rev_append out acc) Hi2 Hend ltac:(lia) Hf2)
             as [(e & He)|(new & s1 & Hlp & Herr1 & Hi1 & Hnl & HP1 & HPn1 & Hb1 & Hl1 & Hfull)].
           ++ left. rewrite He. eexists; reflexivity.
           ++ right. exists (out ++ new), s1.
              rewrite Hlp, rev_append_rev, rev_app_distr, rev_involutive, <- app_assoc.
              split; [reflexivity|]. split; [congruence|]. split; [exact Hi1|]. rewrite zlen_app.
              split; [lia|]. split; [lia|]. split; [exact HPn1|]. split; [exact Hb1|]. split; [lia|]. intros Hx. specialize (Hfull Hx). lia.
Qed.

(* ---- read(buf) ------------------------------------------------------------------------------------ *)
Theorem read2_total s n : rinv2 s ->
  (exists e, lzma2_read s n = Err e) \/
  exists out s1, lzma2_read s n = Ok (out, s1) /\ rinv2 s1 /\
    zlen out <= Z.max 0 n /\ zlen out + pot2 s1 <= pot2 s /\
    (length (m_in s1) <= length (m_in s))%nat /\
    (m_end_reached s1 = false -> 0 < n -> zlen out = n).
Proof.
  intros (Herr & Hbs & Hi). unfold lzma2_read.
  destruct (Z.leb_spec n 0) as [Hz|Hpos].
  { right. exists [], s. split; [reflexivity|]. split; [split; [assumption | split; assumption]|]. change (zlen (@nil Z)) with 0.
    split; [lia|]. split; [lia|]. split; [lia|]. intros _ Hx. lia. }
  rewrite Herr.
  destruct (m_end_reached s) eqn:Eend.
  { right. exists [], s. split; [reflexivity|]. split; [split; [exact Herr | split; [exact Hbs | left; exact Eend]]|]. change (zlen (@nil Z)) with 0.
    split; [lia|]. split; [lia|]. split; [lia|]. intros Hx _. congruence. }
  assert (Hi' : inv2 s) by (destruct Hi as [Hx|Hx]; [congruence | exact Hx]).
  destruct (loop2_total (Z.to_nat (2 * n + 4)) s n [] Hi' Eend ltac:(lia)
              ltac:(destruct (w_pos (m_win s) =? w_size (m_win s)); lia))
    as [(e & He)|(new & s1 & Hl & Herr1 & Hi1 & Hnl & HP & HPn & Hbn & Hin & Hfull)].
  - left. exists e. exact He.
  - right. exists new, s1. cbn [rev app] in Hl. split; [exact Hl|]. split; [split; [congruence | split; [exact Hbn | exact Hi1]]|].
    split; [lia|]. split.
    { unfold pot2. rewrite Eend. pose proof (zlen_nonneg new).
      destruct (m_end_reached s1) eqn:E1.
      - pose proof (P2_nonneg s Hi'). lia.
      - lia. }
    split; [exact Hin|]. intros Hx _. exact (Hfull Hx).
Qed.

(* ---- a whole read history ------------------------------------------------------------------------- *)
Lemma read_all2_g fuel : forall s cur all acc,
  lzma2_read_all fuel s cur all acc =
  match g_obs lzma2 lzma2_read fuel s cur all acc with
  | (out, s1, GEnd) => Ok (out, 0, s1)
  | (out, s1, GErr e) => Ok (out, e, lzma2_set_error s1 e)
  | (_, _, GPanic e) => Panic e
  | (_, _, GFuel) => Fuel
  end.
Proof.
  induction fuel as [|f IH]; intros s cur all acc; cbn [lzma2_read_all g_obs]; [reflexivity|].
  destruct (match cur with [] => (4096, all) | x :: r => (x, r) end) as [sz rest].
  destruct (lzma2_read s sz) as [[out s1]|e|e|]; try reflexivity.
  destruct ((0 <? sz) && (zlen out =? 0)); [reflexivity | apply IH].
Qed.

Theorem lzma2_read_all_inv : forall s0 sizes all fuel, rinv2 s0 -> sizes_ok all ->
  (ra_fuel sizes all (pot2 s0) <= fuel)%nat ->
  exists out st s1, lzma2_read_all fuel s0 sizes all [] = Ok (out, st, s1) /\ zlen out <= pot2 s0.
Proof.
  intros s0 sizes all fuel Hi Hall Hfuel.
  assert (Hstep : forall s n, rinv2 s -> 0 < n ->
            (exists e, lzma2_read s n = Err e) \/
            exists out s1, lzma2_read s n = Ok (out, s1) /\ rinv2 s1 /\ zlen out + pot2 s1 <= pot2 s).
  { intros s n Hs _. destruct (read2_total s n Hs) as [He|(out & s1 & Hr & Hi1 & _ & Hp & _)]; [left; exact He|].
    right. exists out, s1. auto. }
  destruct (g_obs_total lzma2 lzma2_read rinv2 pot2 pot2_nonneg lzma2_read_zero Hstep fuel s0 sizes all []
              Hi (sizes_ok_lead0 all Hall) Hfuel) as (new & s' & E1 & E2 & Hi' & Hpot & Hend).
  rewrite read_all2_g.
  destruct (g_obs lzma2 lzma2_read fuel s0 sizes all []) as [[out s1] en]. cbn [fst snd rev app] in *. subst out s1.
  pose proof (pot2_nonneg s' Hi').
  destruct Hend as [->|(e & ->)]; eexists; eexists; eexists; (split; [reflexivity | lia]).
Qed.

(* ---- construction: any dict_size --------------------------------------------------------------------- *)
Theorem lzma2_new_inv input dict preset : bytes_ok input = true -> preset_bytes preset ->
  exists s0, lzma2_new input dict preset = Ok s0 /\ rinv2 s0 /\ inv2 s0 /\ m_end_reached s0 = false /\
             m_in s0 = input /\ P2 s0 = 2097152 * zlen input.
Proof.
  intros Hb Hpre. unfold lzma2_new, lzma2_get_dict_size. cbn [obind].
  set (ds := (Z.min (Z.max dict 4096) 4294967280 + 15) / 16 * 16).
  assert (Hds : 0 < ds /\ ds mod 16 = 0) by (unfold ds; lia).
  destruct (lzwin_new_inv ds preset (proj1 Hds) (proj2 Hds) Hpre) as (hist & R & Hhb & Hst & Hpl).
  eexists. split; [reflexivity|].
  assert (Hi : inv2 (mkLzma2 input (lzwin_new ds preset) (mkRdec 0 0 [] 0) PLeaf None 0 false
                             (negb match preset with Some (_ :: _) => true | _ => false end) true false None)).
  { exists hist. msimpl. split; [exact R|]. split; [exact Hhb|]. split; [apply probs_ok_empty|].
    split; [unfold rdec_wf; cbn [rd_range]; lia|]. split; [exact Hst|]. split; [exact Hb|]. split; [lia|].
    split; [intros _; exact Hpl|]. split; [rewrite Hpl; lia|]. split; [intros Hx; discriminate | intros Hx; lia]. }
  split; [split; [reflexivity | split; [exact Hb | right; exact Hi]]|]. split; [exact Hi|]. split; [reflexivity|]. split; [reflexivity|].
  unfold P2. msimpl. lia.
Qed.

(* ---- LZMA2Reader: total on arbitrary input ------------------------------------------------------------ *)
Theorem lzma2_total : forall input dict preset sizes all fuel,
  bytes_ok input = true -> preset_bytes preset -> sizes_ok all ->
  (ra_fuel sizes all (699051 * zlen input) <= fuel)%nat ->
  exists s0, lzma2_new input dict preset = Ok s0 /\
    exists out st s1, lzma2_read_all fuel s0 sizes all [] = Ok (out, st, s1) /\ zlen out <= 699051 * zlen input.
Proof.
  intros input dict preset sizes all fuel Hb Hpre Hall Hfuel.
  destruct (lzma2_new_inv input dict preset Hb Hpre) as (s0 & Hnew & Hri & Hi & He & Hin & HP).
  exists s0. split; [exact Hnew|].
  assert (Hpot : 0 <= pot2 s0 <= 699051 * zlen input).
  { unfold pot2. rewrite He, HP. pose proof (zlen_nonneg input). lia. }
  destruct (lzma2_read_all_inv s0 sizes all fuel Hri Hall
              ltac:(pose proof (ra_fuel_mono sizes all (pot2 s0) (699051 * zlen input) Hpot); lia))
    as (out & st & s1 & Hr & Hz).
  exists out, st, s1. split; [exact Hr | lia].
Qed.

Print Assumptions read2_total.
Print Assumptions lzma2_total.
