(* Codec/RangeEncProofs.v — the range encoder of Codec/Range.v refines an exact interval
   [V, V + range) of d-digit base-256 numerals (DESIGN.md 4.1, steps 1, 2, 4, 5):
   shift_low multiplies the value by 256 without ever touching bytes already written, a coded
   bit narrows the interval, renc_finish writes the numeral of the lower end, and therefore the
   final output lies in the interval of every intermediate state.  Also: none of the u32/u64
   wrap-arounds written out in the model actually wraps.  Proofs only. *)
From LzVerif Require Import Base.Bytes Codec.Store Codec.Range Codec.ProbProofs Codec.RangeArith.
Ltac Zify.zify_post_hook ::= Z.div_mod_to_equations.

(* ---------------------------------------------------------------------------------------------
   abstract value of a concrete encoder state *)
Definition enc_O (e : renc) : Z := le_value (re_out e).
Definition Vof (O cache P low : Z) : Z := ((O * 256 + cache) * P + (P - 1)) * 4294967296 + low.
Definition enc_V (e : renc) : Z := Vof (enc_O e) (re_cache e) (256 ^ (re_cache_size e - 1)) (re_low e).
Definition enc_cap (e : renc) : Z := (enc_O e + 1) * (256 * 256 ^ (re_cache_size e - 1)) * 4294967296.
Definition enc_digits (e : renc) : Z := zlen (re_out e) + re_cache_size e + 4.

(* invariant relative to an interval width R (R is re_range e except inside renc_finish) *)
Record InvR (e : renc) (R : Z) : Prop := mkInvR {
  ir_low : 0 <= re_low e;
  ir_R : 0 < R;
  ir_sum : re_low e + R <= 8589934592;
  ir_cache : 0 <= re_cache e < 256;
  ir_size : 1 <= re_cache_size e;
  ir_out : bytes_ok (re_out e) = true;
  ir_cap : enc_V e + R <= enc_cap e
}.

Lemma InvR_weaken e R R' : InvR e R -> 0 < R' <= R -> InvR e R'.
Proof. intros [H1 H2 H3 H4 H5 H6 H7] HR. constructor; try assumption; lia. Qed.

(* ---------------------------------------------------------------------------------------------
   emit_ff: the run of pending 0xFF bytes (or 0x00 bytes after a carry) *)
Lemma emit_ff_len n c out : zlen (emit_ff n c out) = zlen out + Z.of_nat n.
Proof.
  revert out; induction n as [|k IH]; intros out; cbn [emit_ff]; [lia|].
  rewrite IH, zlen_cons. lia.
Qed.

Lemma emit_ff_ok n c out : bytes_ok out = true -> bytes_ok (emit_ff n c out) = true.
Proof.
  revert out; induction n as [|k IH]; intros out Hout; cbn [emit_ff]; [exact Hout|].
  apply IH. apply bytes_ok_cons. split; [|exact Hout]. unfold wrap8. lia.
Qed.

Lemma emit_ff_val0 n out : le_value (emit_ff n 0 out) = (le_value out + 1) * 256 ^ Z.of_nat n - 1.
Proof.
  revert out; induction n as [|k IH]; intros out; cbn [emit_ff].
  - change (Z.of_nat 0) with 0. lia.
  - rewrite IH. cbn [le_value]. change (wrap8 (255 + 0)) with 255.
    rewrite Nat2Z.inj_succ, Z.pow_succ_r by lia. lia.
Qed.

Lemma emit_ff_val1 n out : le_value (emit_ff n 1 out) = le_value out * 256 ^ Z.of_nat n.
Proof.
  revert out; induction n as [|k IH]; intros out; cbn [emit_ff].
  - change (Z.of_nat 0) with 0. lia.
  - rewrite IH. cbn [le_value]. change (wrap8 (255 + 1)) with 0.
    rewrite Nat2Z.inj_succ, Z.pow_succ_r by lia. lia.
Qed.

(* ---------------------------------------------------------------------------------------------
   shift_low, structurally: three cases on the byte q = low / 2^24 (9 bits) *)
Lemma shift_low_cases low range cache s out :
  0 <= low < 8589934592 -> 0 <= cache < 256 -> 1 <= s -> s + 1 < 4294967296 ->
  shift_low (mkRenc low range cache s out) =
    let q := low / 16777216 in
    let r := low mod 16777216 in
    if q <? 255 then mkRenc (r * 256) range q 1 (emit_ff (Z.to_nat (s - 1)) 0 (cache :: out))
    else if q =? 255 then mkRenc (r * 256) range cache (s + 1) out
    else mkRenc (r * 256) range (q - 256) 1 (emit_ff (Z.to_nat (s - 1)) 1 ((cache + 1) mod 256 :: out)).
Proof.
  intros Hlow Hcache Hs1 Hs2.
  unfold shift_low. cbn [re_low re_range re_cache re_cache_size re_out].
  rewrite !shiftr_div by lia. change (2 ^ 32) with 4294967296. change (2 ^ 24) with 16777216.
  unfold wrap32, wrap64, wrap8, P2_24. cbv zeta.
  destruct (Z.ltb_spec (low / 16777216) 255) as [Hq|Hq].
  - replace (low / 4294967296 mod 4294967296) with 0 by lia.
    replace (low <? 4278190080) with true by (symmetry; apply Z.ltb_lt; lia).
    cbn [Z.eqb negb orb]. f_equal; try lia. f_equal. f_equal. lia.
  - destruct (Z.eqb_spec (low / 16777216) 255) as [Hq2|Hq2].
    + replace (low / 4294967296 mod 4294967296) with 0 by lia.
      replace (low <? 4278190080) with false by (symmetry; apply Z.ltb_ge; lia).
      cbn [Z.eqb negb orb]. f_equal; lia.
    + replace (low / 4294967296 mod 4294967296) with 1 by lia.
      cbn [Z.eqb negb orb]. f_equal; lia.
Qed.

(* no wrap-around happens in shift_low: it equals the same function over unbounded integers *)
Definition shift_low_exact (e : renc) : renc :=
  let low := re_low e in
  let low_hi := Z.shiftr low 32 in
  if negb (low_hi =? 0) || (low <? 4278190080) then
    let out1 := wrap8 (re_cache e + low_hi) :: re_out e in
    let out2 := emit_ff (Z.to_nat (re_cache_size e - 1)) low_hi out1 in
    mkRenc ((low mod P2_24) * 256) (re_range e) (wrap8 (Z.shiftr low 24)) 1 out2
  else
    mkRenc ((low mod P2_24) * 256) (re_range e) (re_cache e) (re_cache_size e + 1) (re_out e).

Lemma shift_low_nowrap e :
  0 <= re_low e < 8589934592 -> re_cache_size e + 1 < 4294967296 -> 0 <= re_cache_size e ->
  shift_low e = shift_low_exact e.
Proof.
  intros Hlow Hs Hs0. unfold shift_low, shift_low_exact.
  rewrite !shiftr_div by lia. change (2 ^ 32) with 4294967296. change (2 ^ 24) with 16777216.
  unfold wrap32, wrap64, P2_24. cbv zeta.
  rewrite (Z.mod_small (re_low e / 4294967296)) by lia.
  rewrite (Z.mod_small (re_low e mod 16777216 * 256)) by lia.
  rewrite (Z.mod_small (re_cache_size e + 1)) by lia.
  reflexivity.
Qed.

(* ---------------------------------------------------------------------------------------------
   shift_low at value level: V is multiplied by 256, one more digit, invariant kept *)

Lemma shift_arith_emit0 O cache P low R R' q r :
  0 < P -> 0 <= cache < 256 -> low = 16777216 * q + r -> 0 <= r < 16777216 -> 0 <= q < 255 ->
  0 < R <= 16777216 -> 0 < R' <= 256 * R ->
  Vof O cache P low + R <= (O + 1) * (256 * P) * 4294967296 ->
  let O' := (cache + 256 * O + 1) * P - 1 in
  Vof O' q 1 (r * 256) = 256 * Vof O cache P low /\
  Vof O' q 1 (r * 256) + R' <= (O' + 1) * (256 * 1) * 4294967296.
Proof.
  intros HP Hc Hlow Hr Hq HR HR' Hcap O'. subst O' low. unfold Vof in *. split; lia.
Qed.

Lemma shift_arith_pend O cache P low R R' r :
  0 < P -> 0 <= cache < 256 -> low = 16777216 * 255 + r -> 0 <= r < 16777216 ->
  0 < R -> 0 < R' <= 256 * R ->
  Vof O cache P low + R <= (O + 1) * (256 * P) * 4294967296 ->
  Vof O cache (256 * P) (r * 256) = 256 * Vof O cache P low /\
  Vof O cache (256 * P) (r * 256) + R' <= (O + 1) * (256 * (256 * P)) * 4294967296.
Proof.
  intros HP Hc Hlow Hr HR HR' Hcap. subst low. unfold Vof in *. split; lia.
Qed.

Lemma shift_arith_carry O cache P low R R' q r :
  0 < P -> 0 <= cache < 256 -> 0 <= O -> low = 16777216 * q + r -> 0 <= r < 16777216 -> 256 <= q ->
  0 < R -> 0 < R' <= 256 * R -> low + R <= 8589934592 ->
  Vof O cache P low + R <= (O + 1) * (256 * P) * 4294967296 ->
  cache + 1 < 256 /\
  let O' := (cache + 1 + 256 * O) * P in
  Vof O' (q - 256) 1 (r * 256) = 256 * Vof O cache P low /\
  Vof O' (q - 256) 1 (r * 256) + R' <= (O' + 1) * (256 * 1) * 4294967296.
Proof.
  intros HP Hc HO Hlow Hr Hq HR HR' Hsum Hcap. subst low. unfold Vof in *.
  assert (Hc1 : cache + 1 < 256) by nia.
  split; [exact Hc1|]. cbv zeta. split; lia.
Qed.

Lemma pow256_pos n : 0 < 256 ^ n \/ n < 0.
Proof. destruct (Z.ltb_spec n 0); [right; assumption | left; apply Z.pow_pos_nonneg; lia]. Qed.

Lemma shift_low_ok e R R' :
  InvR e R -> R <= 16777216 -> re_cache_size e + 1 < 4294967296 -> 0 < R' <= 256 * R ->
  InvR (shift_low e) R' /\
  enc_V (shift_low e) = 256 * enc_V e /\
  enc_digits (shift_low e) = enc_digits e + 1 /\
  re_range (shift_low e) = re_range e /\
  re_low (shift_low e) = re_low e mod 16777216 * 256 /\
  1 <= re_cache_size (shift_low e) <= re_cache_size e + 1.
Proof.
  intros [Hlow HR Hsum Hcache Hsize Hout Hcap] HR24 Hs HR'.
  destruct e as [low range cache s out].
  unfold enc_V, enc_cap, enc_O, enc_digits in *.
  cbn [re_low re_range re_cache re_cache_size re_out] in *.
  rewrite shift_low_cases by lia. cbv zeta.
  pose proof (Z.div_mod low 16777216 ltac:(lia)) as Hdm.
  pose proof (Z.mod_pos_bound low 16777216 ltac:(lia)) as Hr.
  assert (Hq : 0 <= low / 16777216 < 512) by lia.
  set (q := low / 16777216) in *. set (r := low mod 16777216) in *.
  assert (HP : 0 < 256 ^ (s - 1)) by (apply Z.pow_pos_nonneg; lia).
  pose proof (le_value_bound out Hout) as [HO _].
  assert (Hn : Z.of_nat (Z.to_nat (s - 1)) = s - 1) by (apply Z2Nat.id; lia).
  destruct (Z.ltb_spec q 255) as [Hq1|Hq1]; [|destruct (Z.eqb_spec q 255) as [Hq2|Hq2]];
    cbn [re_low re_range re_cache re_cache_size re_out].
  - (* plain: write cache and the pending 0xFF bytes *)
    rewrite emit_ff_val0, emit_ff_len, zlen_cons, Hn. cbn [le_value].
    change (256 ^ (1 - 1)) with 1.
    destruct (shift_arith_emit0 (le_value out) cache (256 ^ (s - 1)) low R R' q r) as [HV Hc]; try lia.
    cbv zeta in HV, Hc.
    split; [|repeat split; try lia; exact HV].
    constructor; unfold enc_V, enc_cap, enc_O; cbn [re_low re_range re_cache re_cache_size re_out]; try lia.
    + apply emit_ff_ok. apply bytes_ok_cons. split; [lia | exact Hout].
    + rewrite emit_ff_val0, Hn. cbn [le_value]. change (256 ^ (1 - 1)) with 1. exact Hc.
  - (* a pending 0xFF *)
    replace (s + 1 - 1) with (Z.succ (s - 1)) by lia. rewrite Z.pow_succ_r by lia.
    destruct (shift_arith_pend (le_value out) cache (256 ^ (s - 1)) low R R' r) as [HV Hc]; try lia.
    split; [|repeat split; try lia; exact HV].
    constructor; unfold enc_V, enc_cap, enc_O; cbn [re_low re_range re_cache re_cache_size re_out]; try lia.
    + exact Hout.
    + replace (s + 1 - 1) with (Z.succ (s - 1)) by lia. rewrite Z.pow_succ_r by lia. exact Hc.
  - (* carry *)
    rewrite emit_ff_val1, emit_ff_len, zlen_cons, Hn. cbn [le_value].
    change (256 ^ (1 - 1)) with 1.
    destruct (shift_arith_carry (le_value out) cache (256 ^ (s - 1)) low R R' q r) as [Hc1 [HV Hc]]; try lia.
    cbv zeta in HV, Hc.
    rewrite (Z.mod_small (cache + 1)) by lia.
    split; [|repeat split; try lia; exact HV].
    constructor; unfold enc_V, enc_cap, enc_O; cbn [re_low re_range re_cache re_cache_size re_out]; try lia.
    + apply emit_ff_ok. apply bytes_ok_cons. split; [lia | exact Hout].
    + rewrite emit_ff_val1, Hn. cbn [le_value]. change (256 ^ (1 - 1)) with 1. exact Hc.
Qed.
