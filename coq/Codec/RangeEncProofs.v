(* Codec/RangeEncProofs.v — the range encoder of Codec/Range.v refines an exact interval
   [V, V + range) of d-digit base-256 numerals (DESIGN.md 4.1, steps 1, 2, 4, 5):
   shift_low multiplies the value by 256 without ever touching bytes already written, a coded
   bit narrows the interval, renc_finish writes the numeral of the lower end, and therefore the
   final output lies in the interval of every intermediate state.  Also: none of the u32/u64
   wrap-arounds written out in the model actually wraps.  Proofs only. *)
From LzVerif Require Import Base.Bytes Codec.Store Codec.Range Codec.ProbProofs Codec.RangeArithProofs.
From LzVerif Require Import Codec.LzmaDec Codec.LzmaEnc.
Ltac Zify.zify_post_hook ::= Z.div_mod_to_equations.

(* ---------------------------------------------------------------------------------------------
   abstract value of a concrete encoder state *)
Definition enc_O (e : renc) : Z := le_value (re_out e).
Definition Vof (O cache P low : Z) : Z := ((O * 256 + cache) * P + (P - 1)) * 4294967296 + low.
Definition enc_V (e : renc) : Z := Vof (enc_O e) (re_cache e) (256 ^ (re_cache_size e - 1)) (re_low e).
Definition enc_cap (e : renc) : Z := (enc_O e + 1) * (256 * 256 ^ (re_cache_size e - 1)) * 4294967296.
Definition enc_digits (e : renc) : Z := zlen (re_out e) + re_cache_size e + 4.

(* invariant relative to an interval width R (R is re_range e except inside renc_finish) *)
Record renc_invR (e : renc) (R : Z) : Prop := mk_renc_invR {
  ir_low : 0 <= re_low e;
  ir_R : 0 < R;
  ir_sum : re_low e + R <= 8589934592;
  ir_cache : 0 <= re_cache e < 256;
  ir_size : 1 <= re_cache_size e;
  ir_out : bytes_ok (re_out e) = true;
  ir_cap : enc_V e + R <= enc_cap e
}.

Lemma renc_invR_weaken e R R' : renc_invR e R -> 0 < R' <= R -> renc_invR e R'.
Proof. intros [H1 H2 H3 H4 H5 H6 H7] HR. constructor; try assumption; lia. Qed.

(* ---------------------------------------------------------------------------------------------
   emit_ff: the run of pending 0xFF bytes (or 0x00 bytes after a carry) *)
Lemma emit_ff_len n c out : zlen (emit_ff n c out) = zlen out + Z.of_nat n.
Proof.
  revert out; induction n as [|k IH]; intros out; cbn [emit_ff]; [lia|].
  rewrite IH, zlen_cons. lia.
Qed.

Lemma emit_ff_ok n c out : bytes_ok out = true -> bytes_ok (emit_ff n c out) = true.
Proof.
  revert out; induction n as [|k IH]; intros out Hout; cbn [emit_ff]; [exact Hout|].
  apply IH. apply bytes_ok_cons. split; [|exact Hout]. unfold wrap8. lia.
Qed.

Lemma emit_ff_val0 n out : le_value (emit_ff n 0 out) = (le_value out + 1) * 256 ^ Z.of_nat n - 1.
Proof.
  revert out; induction n as [|k IH]; intros out; cbn [emit_ff].
  - change (Z.of_nat 0) with 0. lia.
  - rewrite IH. cbn [le_value]. change (wrap8 (255 + 0)) with 255.
    rewrite Nat2Z.inj_succ, Z.pow_succ_r by lia. lia.
Qed.

Lemma emit_ff_val1 n out : le_value (emit_ff n 1 out) = le_value out * 256 ^ Z.of_nat n.
Proof.
  revert out; induction n as [|k IH]; intros out; cbn [emit_ff].
  - change (Z.of_nat 0) with 0. lia.
  - rewrite IH. cbn [le_value]. change (wrap8 (255 + 1)) with 0.
    rewrite Nat2Z.inj_succ, Z.pow_succ_r by lia. lia.
Qed.

(* ---------------------------------------------------------------------------------------------
   shift_low, structurally: three cases on the byte q = low / 2^24 (9 bits) *)
Lemma shift_low_cases low range cache s out :
  0 <= low < 8589934592 -> 0 <= cache < 256 -> 1 <= s -> s + 1 < 4294967296 ->
  shift_low (mkRenc low range cache s out) =
    let q := low / 16777216 in
    let r := low mod 16777216 in
    if q <? 255 then mkRenc (r * 256) range q 1 (emit_ff (Z.to_nat (s - 1)) 0 (cache :: out))
    else if q =? 255 then mkRenc (r * 256) range cache (s + 1) out
    else mkRenc (r * 256) range (q - 256) 1 (emit_ff (Z.to_nat (s - 1)) 1 ((cache + 1) mod 256 :: out)).
Proof.
  intros Hlow Hcache Hs1 Hs2.
  unfold shift_low. cbn [re_low re_range re_cache re_cache_size re_out].
  rewrite !shiftr_div by lia. change (2 ^ 32) with 4294967296. change (2 ^ 24) with 16777216.
  unfold wrap32, wrap64, wrap8, P2_24. cbv zeta.
  destruct (Z.ltb_spec (low / 16777216) 255) as [Hq|Hq].
  - replace (low / 4294967296 mod 4294967296) with 0 by lia.
    replace (low <? 4278190080) with true by (symmetry; apply Z.ltb_lt; lia).
    cbn [Z.eqb negb orb]. f_equal; try lia. f_equal. f_equal. lia.
  - destruct (Z.eqb_spec (low / 16777216) 255) as [Hq2|Hq2].
    + replace (low / 4294967296 mod 4294967296) with 0 by lia.
      replace (low <? 4278190080) with false by (symmetry; apply Z.ltb_ge; lia).
      cbn [Z.eqb negb orb]. f_equal; lia.
    + replace (low / 4294967296 mod 4294967296) with 1 by lia.
      cbn [Z.eqb negb orb]. f_equal; lia.
Qed.

(* no wrap-around happens in shift_low: it equals the same function over unbounded integers *)
Definition shift_low_exact (e : renc) : renc :=
  let low := re_low e in
  let low_hi := Z.shiftr low 32 in
  if negb (low_hi =? 0) || (low <? 4278190080) then
    let out1 := wrap8 (re_cache e + low_hi) :: re_out e in
    let out2 := emit_ff (Z.to_nat (re_cache_size e - 1)) low_hi out1 in
    mkRenc ((low mod P2_24) * 256) (re_range e) (wrap8 (Z.shiftr low 24)) 1 out2
  else
    mkRenc ((low mod P2_24) * 256) (re_range e) (re_cache e) (re_cache_size e + 1) (re_out e).

Lemma shift_low_nowrap e :
  0 <= re_low e < 8589934592 -> re_cache_size e + 1 < 4294967296 -> 0 <= re_cache_size e ->
  shift_low e = shift_low_exact e.
Proof.
  intros Hlow Hs Hs0. unfold shift_low, shift_low_exact.
  rewrite !shiftr_div by lia. change (2 ^ 32) with 4294967296. change (2 ^ 24) with 16777216.
  unfold wrap32, wrap64, P2_24. cbv zeta.
  rewrite (Z.mod_small (re_low e / 4294967296)) by lia.
  rewrite (Z.mod_small (re_low e mod 16777216 * 256)) by lia.
  rewrite (Z.mod_small (re_cache_size e + 1)) by lia.
  reflexivity.
Qed.

(* ---------------------------------------------------------------------------------------------
   shift_low at value level: V is multiplied by 256, one more digit, invariant kept *)

Lemma shift_arith_emit0 O cache P low R R' q r :
  0 < P -> 0 <= cache < 256 -> low = 16777216 * q + r -> 0 <= r < 16777216 -> 0 <= q < 255 ->
  0 < R <= 16777216 -> 0 < R' <= 256 * R ->
  Vof O cache P low + R <= (O + 1) * (256 * P) * 4294967296 ->
  let O' := (cache + 256 * O + 1) * P - 1 in
  Vof O' q 1 (r * 256) = 256 * Vof O cache P low /\
  Vof O' q 1 (r * 256) + R' <= (O' + 1) * (256 * 1) * 4294967296.
Proof.
  intros HP Hc Hlow Hr Hq HR HR' Hcap O'. subst O' low. unfold Vof in *. split; lia.
Qed.

Lemma shift_arith_pend O cache P low R R' r :
  0 < P -> 0 <= cache < 256 -> low = 16777216 * 255 + r -> 0 <= r < 16777216 ->
  0 < R -> 0 < R' <= 256 * R ->
  Vof O cache P low + R <= (O + 1) * (256 * P) * 4294967296 ->
  Vof O cache (256 * P) (r * 256) = 256 * Vof O cache P low /\
  Vof O cache (256 * P) (r * 256) + R' <= (O + 1) * (256 * (256 * P)) * 4294967296.
Proof.
  intros HP Hc Hlow Hr HR HR' Hcap. subst low. unfold Vof in *. split; lia.
Qed.

Lemma shift_arith_carry O cache P low R R' q r :
  0 < P -> 0 <= cache < 256 -> 0 <= O -> low = 16777216 * q + r -> 0 <= r < 16777216 -> 256 <= q ->
  0 < R -> 0 < R' <= 256 * R -> low + R <= 8589934592 ->
  Vof O cache P low + R <= (O + 1) * (256 * P) * 4294967296 ->
  cache + 1 < 256 /\
  let O' := (cache + 1 + 256 * O) * P in
  Vof O' (q - 256) 1 (r * 256) = 256 * Vof O cache P low /\
  Vof O' (q - 256) 1 (r * 256) + R' <= (O' + 1) * (256 * 1) * 4294967296.
Proof.
  intros HP Hc HO Hlow Hr Hq HR HR' Hsum Hcap. subst low. unfold Vof in *.
  assert (Hc1 : cache + 1 < 256) by nia.
  split; [exact Hc1|]. cbv zeta. split; lia.
Qed.

Lemma pow256_pos n : 0 < 256 ^ n \/ n < 0.
Proof. destruct (Z.ltb_spec n 0); [right; assumption | left; apply Z.pow_pos_nonneg; lia]. Qed.

Lemma shift_low_ok e R R' :
  renc_invR e R -> R <= 16777216 -> re_cache_size e + 1 < 4294967296 -> 0 < R' <= 256 * R ->
  renc_invR (shift_low e) R' /\
  enc_V (shift_low e) = 256 * enc_V e /\
  enc_digits (shift_low e) = enc_digits e + 1 /\
  re_range (shift_low e) = re_range e /\
  re_low (shift_low e) = re_low e mod 16777216 * 256 /\
  1 <= re_cache_size (shift_low e) <= re_cache_size e + 1.
Proof.
  intros [Hlow HR Hsum Hcache Hsize Hout Hcap] HR24 Hs HR'.
  destruct e as [low range cache s out].
  unfold enc_V, enc_cap, enc_O, enc_digits in *.
  cbn [re_low re_range re_cache re_cache_size re_out] in *.
  rewrite shift_low_cases by lia. cbv zeta.
  pose proof (Z.div_mod low 16777216 ltac:(lia)) as Hdm.
  pose proof (Z.mod_pos_bound low 16777216 ltac:(lia)) as Hr.
  assert (Hq : 0 <= low / 16777216 < 512) by lia.
  set (q := low / 16777216) in *. set (r := low mod 16777216) in *.
  assert (HP : 0 < 256 ^ (s - 1)) by (apply Z.pow_pos_nonneg; lia).
  pose proof (le_value_bound out Hout) as [HO _].
  assert (Hn : Z.of_nat (Z.to_nat (s - 1)) = s - 1) by (apply Z2Nat.id; lia).
  destruct (Z.ltb_spec q 255) as [Hq1|Hq1]; [|destruct (Z.eqb_spec q 255) as [Hq2|Hq2]];
    cbn [re_low re_range re_cache re_cache_size re_out].
  - (* plain: write cache and the pending 0xFF bytes *)
    rewrite emit_ff_val0, emit_ff_len, zlen_cons, Hn. cbn [le_value].
    change (256 ^ (1 - 1)) with 1.
    destruct (shift_arith_emit0 (le_value out) cache (256 ^ (s - 1)) low R R' q r) as [HV Hc]; try lia.
    cbv zeta in HV, Hc.
    split; [|repeat split; try lia; exact HV].
    constructor; unfold enc_V, enc_cap, enc_O; cbn [re_low re_range re_cache re_cache_size re_out]; try lia.
    + apply emit_ff_ok. apply bytes_ok_cons. split; [lia | exact Hout].
    + rewrite emit_ff_val0, Hn. cbn [le_value]. change (256 ^ (1 - 1)) with 1. exact Hc.
  - (* a pending 0xFF *)
    replace (s + 1 - 1) with (Z.succ (s - 1)) by lia. rewrite Z.pow_succ_r by lia.
    destruct (shift_arith_pend (le_value out) cache (256 ^ (s - 1)) low R R' r) as [HV Hc]; try lia.
    split; [|repeat split; try lia; exact HV].
    constructor; unfold enc_V, enc_cap, enc_O; cbn [re_low re_range re_cache re_cache_size re_out]; try lia.
    + exact Hout.
    + replace (s + 1 - 1) with (Z.succ (s - 1)) by lia. rewrite Z.pow_succ_r by lia. exact Hc.
  - (* carry *)
    rewrite emit_ff_val1, emit_ff_len, zlen_cons, Hn. cbn [le_value].
    change (256 ^ (1 - 1)) with 1.
    destruct (shift_arith_carry (le_value out) cache (256 ^ (s - 1)) low R R' q r) as [Hc1 [HV Hc]]; try lia.
    cbv zeta in HV, Hc.
    rewrite (Z.mod_small (cache + 1)) by lia.
    split; [|repeat split; try lia; exact HV].
    constructor; unfold enc_V, enc_cap, enc_O; cbn [re_low re_range re_cache re_cache_size re_out]; try lia.
    + apply emit_ff_ok. apply bytes_ok_cons. split; [lia | exact Hout].
    + rewrite emit_ff_val1, Hn. cbn [le_value]. change (256 ^ (1 - 1)) with 1. exact Hc.
Qed.

(* ---------------------------------------------------------------------------------------------
   invariants of encoder states: [renc_inv] between coding steps (range >= 2^24), [renc_inv1] after the
   interval has been narrowed and before renc_normalize *)
Definition renc_inv1 (e : renc) : Prop := renc_invR e (re_range e) /\ 65536 <= re_range e < 4294967296.
Definition renc_inv (e : renc) : Prop := renc_invR e (re_range e) /\ 16777216 <= re_range e < 4294967296.

Lemma renc_inv_inv1 e : renc_inv e -> renc_inv1 e.
Proof. intros [H1 H2]. split; [exact H1 | lia]. Qed.

Lemma renc_inv_init : renc_inv renc_init.
Proof.
  split; [|cbn; lia]. constructor; unfold enc_V, enc_cap, enc_O, Vof; cbn; try lia; try reflexivity.
Qed.

Lemma enc_V_init : enc_V renc_init = 0.
Proof. reflexivity. Qed.

Lemma enc_digits_init : enc_digits renc_init = 5.
Proof. reflexivity. Qed.

Definition set_range (e : renc) (r : Z) : renc :=
  mkRenc (re_low e) r (re_cache e) (re_cache_size e) (re_out e).

Lemma renc_invR_set_range e r R : renc_invR e R -> renc_invR (set_range e r) R.
Proof. intros [H1 H2 H3 H4 H5 H6 H7]. constructor; assumption. Qed.

Lemma renc_normalize_small e :
  0 <= re_range e < 16777216 -> renc_normalize e = shift_low (set_range e (re_range e * 256)).
Proof.
  intros Hr. unfold renc_normalize. rewrite top_mask_zero by lia.
  replace (re_range e <? 16777216) with true by (symmetry; apply Z.ltb_lt; lia).
  unfold wrap32. rewrite Z.mod_small by lia. reflexivity.
Qed.

Lemma renc_normalize_big e :
  16777216 <= re_range e < 4294967296 -> renc_normalize e = e.
Proof.
  intros Hr. unfold renc_normalize. rewrite top_mask_zero by lia.
  replace (re_range e <? 16777216) with false by (symmetry; apply Z.ltb_ge; lia). reflexivity.
Qed.

Lemma renc_normalize_ok e :
  renc_inv1 e -> re_cache_size e + 1 < 4294967296 ->
  renc_inv (renc_normalize e) /\
  1 <= re_cache_size (renc_normalize e) <= re_cache_size e + 1 /\
  ((re_range e < 16777216 /\ enc_V (renc_normalize e) = 256 * enc_V e /\
    re_range (renc_normalize e) = 256 * re_range e /\
    enc_digits (renc_normalize e) = enc_digits e + 1)
   \/ (16777216 <= re_range e /\ renc_normalize e = e)).
Proof.
  intros [HI Hr] Hs.
  destruct (Z.ltb_spec (re_range e) 16777216) as [Hlt|Hge].
  - rewrite renc_normalize_small by lia.
    destruct (shift_low_ok (set_range e (re_range e * 256)) (re_range e) (re_range e * 256))
      as (H1 & H2 & H3 & H4 & H5 & H6); try lia.
    { apply renc_invR_set_range. exact HI. }
    { exact Hs. }
    cbn [set_range re_range re_cache_size] in H4, H6.
    split; [split; [rewrite H4; exact H1 | rewrite H4; lia]|].
    split; [exact H6|]. left. repeat split; try lia.
    + exact H2.
    + exact H3.
  - rewrite renc_normalize_big by lia.
    split; [split; [exact HI | lia]|]. pose proof (ir_size _ _ HI). split; [lia|]. right. split; [lia | reflexivity].
Qed.

(* one narrowing step: the lower end moves up by off, the width becomes R1 *)
Definition enc_step (e : renc) (off R1 : Z) : renc :=
  mkRenc (re_low e + off) R1 (re_cache e) (re_cache_size e) (re_out e).

Lemma enc_step_ok e off R1 :
  renc_invR e (re_range e) -> 0 <= off -> 0 < R1 -> off + R1 <= re_range e ->
  renc_invR (enc_step e off R1) R1 /\ enc_V (enc_step e off R1) = enc_V e + off /\
  enc_digits (enc_step e off R1) = enc_digits e /\
  re_cache_size (enc_step e off R1) = re_cache_size e.
Proof.
  intros [H1 H2 H3 H4 H5 H6 H7] Hoff HR1 Hsum.
  assert (HV : enc_V (enc_step e off R1) = enc_V e + off).
  { unfold enc_V, enc_step, enc_O, Vof. cbn [re_low re_range re_cache re_cache_size re_out]. lia. }
  split; [|repeat split; [exact HV]].
  constructor; try rewrite HV; unfold enc_cap, enc_O, enc_step in *;
    cbn [re_low re_range re_cache re_cache_size re_out] in *; try lia; assumption.
Qed.

(* encode_bit = narrow, then normalise; no u32/u64 overflow *)
Definition bit_off (r p bit : Z) : Z := if bit =? 0 then 0 else r / 2048 * p.
Definition bit_width (r p bit : Z) : Z := if bit =? 0 then r / 2048 * p else r - r / 2048 * p.

Lemma encode_bit_eq e t k bit :
  renc_inv e -> probs_ok t ->
  encode_bit e t k bit =
    (renc_normalize (enc_step e (bit_off (re_range e) (prob_get t k) bit) (bit_width (re_range e) (prob_get t k) bit)),
     prob_set t k (prob_update_enc (prob_get t k) bit)).
Proof.
  intros [HI Hr] Ht. pose proof (probs_ok_get t k Ht) as Hp. apply prob_ok_iff in Hp.
  pose proof (bound_facts (re_range e) (prob_get t k) Hr Hp) as Hb. cbv zeta in Hb.
  pose proof (ir_low _ _ HI) as Hlow. pose proof (ir_sum _ _ HI) as Hsum.
  unfold encode_bit, bit_off, bit_width, enc_step. rewrite shiftr_div by lia. change (2 ^ 11) with 2048.
  unfold wrap32, wrap64. rewrite (Z.mod_small (re_range e / 2048 * prob_get t k)) by lia.
  destruct (bit =? 0).
  - rewrite Z.add_0_r. reflexivity.
  - rewrite !Z.mod_small by lia. reflexivity.
Qed.

Lemma bit_step_bounds r p bit :
  16777216 <= r < 4294967296 -> 31 <= p <= 2017 ->
  0 <= bit_off r p bit /\ 65536 <= bit_width r p bit < 4294967296 /\ bit_off r p bit + bit_width r p bit <= r.
Proof.
  intros Hr Hp. pose proof (bound_facts r p Hr Hp) as Hb. cbv zeta in Hb.
  unfold bit_off, bit_width. destruct (bit =? 0); lia.
Qed.

(* encode_direct_bits: one bit *)
Definition dir_off (r b : Z) : Z := if b =? 1 then r / 2 else 0.

Lemma encode_direct_bits_S e v c :
  renc_inv e ->
  encode_direct_bits e v (S c) =
    encode_direct_bits
      (renc_normalize (enc_step e (dir_off (re_range e) (Z.land (Z.shiftr v (Z.of_nat c)) 1)) (re_range e / 2))) v c.
Proof.
  intros [HI Hr]. pose proof (ir_low _ _ HI) as Hlow. pose proof (ir_sum _ _ HI) as Hsum.
  cbn [encode_direct_bits]. rewrite (shiftr_div (re_range e) 1) by lia. change (2 ^ 1) with 2.
  unfold dir_off, enc_step, wrap64.
  destruct (Z.land (Z.shiftr v (Z.of_nat c)) 1 =? 1).
  - rewrite Z.mod_small by lia. reflexivity.
  - rewrite Z.add_0_r. reflexivity.
Qed.

Lemma dir_step_bounds r b :
  16777216 <= r < 4294967296 ->
  0 <= dir_off r b /\ 65536 <= r / 2 < 4294967296 /\ dir_off r b + r / 2 <= r.
Proof. intros Hr. unfold dir_off. destruct (b =? 1); lia. Qed.

(* ---------------------------------------------------------------------------------------------
   renc_finish writes the numeral of the lower end *)
Lemma low_chain l0 l1 l2 l3 l4 : 0 <= l0 ->
  l1 = l0 mod 16777216 * 256 -> l2 = l1 mod 16777216 * 256 -> l3 = l2 mod 16777216 * 256 ->
  l4 = l3 mod 16777216 * 256 -> l4 = 0.
Proof. intros H0 H1 H2 H3 H4. lia. Qed.

Lemma renc_finish_ok e R :
  renc_invR e R -> re_cache_size e + 5 < 4294967296 ->
  bytes_ok (renc_bytes (renc_finish e)) = true /\
  zlen (renc_bytes (renc_finish e)) = enc_digits e /\
  be_val (renc_bytes (renc_finish e)) = enc_V e /\
  re_low (renc_finish e) = 0 /\ re_cache (renc_finish e) = 0 /\ re_cache_size (renc_finish e) = 1.
Proof.
  intros HI Hs. apply (renc_invR_weaken e R 1) in HI; [|pose proof (ir_R _ _ HI); lia].
  unfold renc_finish.
  destruct (shift_low_ok e 1 1 HI) as (I1 & V1 & D1 & _ & L1 & S1); try lia.
  set (e1 := shift_low e) in *.
  destruct (shift_low_ok e1 1 1 I1) as (I2 & V2 & D2 & _ & L2 & S2); try lia.
  set (e2 := shift_low e1) in *.
  destruct (shift_low_ok e2 1 1 I2) as (I3 & V3 & D3 & _ & L3 & S3); try lia.
  set (e3 := shift_low e2) in *.
  destruct (shift_low_ok e3 1 1 I3) as (I4 & V4 & D4 & _ & L4 & S4); try lia.
  set (e4 := shift_low e3) in *.
  destruct (shift_low_ok e4 1 1 I4) as (I5 & V5 & D5 & _ & L5 & S5); try lia.
  assert (Hl4 : re_low e4 = 0).
  { exact (low_chain _ _ _ _ _ (ir_low _ _ HI) L1 L2 L3 L4). }
  assert (HVt : enc_V (shift_low e4) = 1099511627776 * enc_V e) by lia.
  assert (HDt : enc_digits (shift_low e4) = enc_digits e + 5) by lia.
  clear L1 L2 L3 L4 L5 V1 V2 V3 V4 V5 D1 D2 D3 D4 D5.
  destruct e4 as [low4 r4 c4 s4 o4]. cbn [re_low re_cache_size] in Hl4, S4, S5. subst low4.
  pose proof (ir_cache _ _ I4) as Hc4. cbn [re_cache] in Hc4.
  rewrite shift_low_cases in * by lia. change (0 / 16777216) with 0 in *. change (0 mod 16777216) with 0 in *.
  cbv zeta in *. change (0 <? 255) with true in *. cbv iota in *.
  cbn [re_low re_range re_cache re_cache_size re_out] in *.
  unfold enc_V at 1, enc_O, Vof in HVt. unfold enc_digits at 1 in HDt.
  cbn [re_low re_range re_cache re_cache_size re_out] in HVt, HDt.
  change (256 ^ (1 - 1)) with 1 in HVt.
  set (outf := emit_ff (Z.to_nat (s4 - 1)) 0 (c4 :: o4)) in *.
  unfold renc_bytes. cbn [re_out]. rewrite frev_rev.
  repeat split; try reflexivity.
  - rewrite bytes_ok_rev. exact (ir_out _ _ I5).
  - rewrite zlen_rev. lia.
  - unfold be_val. rewrite rev_involutive. lia.
Qed.

(* ---------------------------------------------------------------------------------------------
   future containment: the final output, read as a numeral, lies in the interval of the state *)
Definition renc_fut (out : list Z) (e : renc) : Prop :=
  enc_digits e <= zlen out /\
  enc_V e * 256 ^ (zlen out - enc_digits e) <= be_val out
    < (enc_V e + re_range e) * 256 ^ (zlen out - enc_digits e).

Lemma renc_fut_finish e :
  renc_invR e (re_range e) -> re_cache_size e + 5 < 4294967296 ->
  renc_fut (renc_bytes (renc_finish e)) e.
Proof.
  intros HI Hs. destruct (renc_finish_ok e _ HI Hs) as (_ & Hlen & Hval & _).
  pose proof (ir_R _ _ HI) as HR.
  unfold renc_fut. rewrite Hlen, Hval, Z.sub_diag. change (256 ^ 0) with 1. lia.
Qed.

Lemma renc_fut_step_back out e off R1 :
  renc_fut out (enc_step e off R1) -> renc_invR e (re_range e) ->
  0 <= off -> 0 < R1 -> off + R1 <= re_range e -> renc_fut out e.
Proof.
  intros [Hd Hc] HI Hoff HR1 Hsum.
  destruct (enc_step_ok e off R1 HI Hoff HR1 Hsum) as (_ & HV & HD & _).
  rewrite HV, HD in *. cbn [enc_step re_range] in Hc.
  split; [exact Hd|].
  assert (HM : 0 < 256 ^ (zlen out - enc_digits e)) by (apply Z.pow_pos_nonneg; lia).
  set (M := 256 ^ (zlen out - enc_digits e)) in *. nia.
Qed.

Lemma renc_fut_norm_back out e :
  renc_fut out (renc_normalize e) -> renc_inv1 e -> re_cache_size e + 1 < 4294967296 -> renc_fut out e.
Proof.
  intros [Hd Hc] HI Hs.
  destruct (renc_normalize_ok e HI Hs) as (_ & _ & [(Hlt & HV & HR & HD) | (Hge & Heq)]).
  - rewrite HV, HR, HD in *. split; [lia|].
    replace (zlen out - enc_digits e) with (Z.succ (zlen out - (enc_digits e + 1))) by lia.
    rewrite Z.pow_succ_r by lia.
    set (M := 256 ^ (zlen out - (enc_digits e + 1))) in *. lia.
  - rewrite Heq in *. split; assumption.
Qed.

(* ---------------------------------------------------------------------------------------------
   whole events *)
Definition ev_ok (ev : event) : bool :=
  match ev with
  | EBit k b => (b =? 0) || (b =? 1)
  | EDirect n v => (Nat.leb 1 n) && (Nat.leb n 32) && (0 <=? v) && (v <? Z.shiftl 1 (Z.of_nat n))
  end.

Definition ev_bits (ev : event) : Z :=
  match ev with EBit _ _ => 1 | EDirect n _ => Z.of_nat n end.
Fixpoint events_bits (evs : list event) : Z :=
  match evs with [] => 0 | ev :: r => ev_bits ev + events_bits r end.

Lemma ev_bits_nonneg ev : 0 <= ev_bits ev.
Proof. destruct ev; cbn [ev_bits]; lia. Qed.

Lemma events_bits_nonneg evs : 0 <= events_bits evs.
Proof. induction evs as [|ev r IH]; cbn [events_bits]; [lia | pose proof (ev_bits_nonneg ev); lia]. Qed.

Lemma events_bits_app a b : events_bits (a ++ b) = events_bits a + events_bits b.
Proof. induction a as [|ev r IH]; cbn [app events_bits]; lia. Qed.

Lemma renc_events_app a b e t :
  renc_events e t (a ++ b) = renc_events (fst (renc_events e t a)) (snd (renc_events e t a)) b.
Proof.
  revert e t; induction a as [|ev r IH]; intros e t; [reflexivity|].
  cbn [app renc_events]. destruct ev as [k bit | n v].
  - destruct (encode_bit e t k bit) as [e1 t1]. apply IH.
  - apply IH.
Qed.

Lemma encode_bit_ok e t k bit :
  renc_inv e -> probs_ok t -> bit = 0 \/ bit = 1 -> re_cache_size e + 1 < 4294967296 ->
  renc_inv (fst (encode_bit e t k bit)) /\ probs_ok (snd (encode_bit e t k bit)) /\
  re_cache_size (fst (encode_bit e t k bit)) <= re_cache_size e + 1 /\
  forall out, renc_fut out (fst (encode_bit e t k bit)) -> renc_fut out e.
Proof.
  intros HI Ht Hbit Hs. rewrite encode_bit_eq by assumption. cbn [fst snd].
  destruct HI as [HI Hr].
  pose proof (probs_ok_get t k Ht) as Hp.
  pose proof (bit_step_bounds (re_range e) (prob_get t k) bit Hr (proj1 (prob_ok_iff _) Hp)) as (Ho & Hw & Hsum).
  assert (Hw0 : 0 < bit_width (re_range e) (prob_get t k) bit) by lia.
  destruct (enc_step_ok e _ _ HI Ho Hw0 Hsum) as (I1 & _ & _ & S1).
  set (e1 := enc_step e (bit_off (re_range e) (prob_get t k) bit) (bit_width (re_range e) (prob_get t k) bit)) in *.
  assert (HI1 : renc_inv1 e1) by (split; [exact I1 | cbn [e1 enc_step re_range]; lia]).
  destruct (renc_normalize_ok e1 HI1 ltac:(lia)) as (I2 & S2 & _).
  split; [exact I2|]. split; [|split; [lia|]].
  - apply probs_ok_set; [exact Ht|]. apply prob_update_twins; assumption.
  - intros out Hf. apply (renc_fut_norm_back out e1) in Hf; [|exact HI1|lia].
    apply (renc_fut_step_back out e _ _ Hf HI Ho); lia.
Qed.

Lemma encode_direct_bits_ok n : forall e v,
  renc_inv e -> re_cache_size e + Z.of_nat n < 4294967296 ->
  renc_inv (encode_direct_bits e v n) /\
  re_cache_size (encode_direct_bits e v n) <= re_cache_size e + Z.of_nat n /\
  forall out, renc_fut out (encode_direct_bits e v n) -> renc_fut out e.
Proof.
  induction n as [|c IH]; intros e v HI Hs.
  - cbn [encode_direct_bits]. split; [exact HI|]. split; [lia|]. intros out Hf; exact Hf.
  - rewrite encode_direct_bits_S by exact HI.
    destruct HI as [HI Hr].
    set (b := Z.land (Z.shiftr v (Z.of_nat c)) 1).
    pose proof (dir_step_bounds (re_range e) b Hr) as (Ho & Hw & Hsum).
    assert (Hw0 : 0 < re_range e / 2) by lia.
    destruct (enc_step_ok e _ _ HI Ho Hw0 Hsum) as (I1 & _ & _ & S1).
    set (e1 := enc_step e (dir_off (re_range e) b) (re_range e / 2)) in *.
    assert (HI1 : renc_inv1 e1) by (split; [exact I1 | cbn [e1 enc_step re_range]; lia]).
    destruct (renc_normalize_ok e1 HI1 ltac:(lia)) as (I2 & S2 & _).
    destruct (IH (renc_normalize e1) v I2 ltac:(lia)) as (I3 & S3 & F3).
    split; [exact I3|]. split; [lia|].
    intros out Hf. apply F3 in Hf. apply (renc_fut_norm_back out e1) in Hf; [|exact HI1|lia].
    apply (renc_fut_step_back out e _ _ Hf HI Ho); lia.
Qed.

Lemma ev_ok_bit k b : ev_ok (EBit k b) = true -> b = 0 \/ b = 1.
Proof. cbn [ev_ok]. rewrite orb_true_iff, !Z.eqb_eq. tauto. Qed.

Lemma renc_events_ok evs : forall e t,
  renc_inv e -> probs_ok t -> forallb ev_ok evs = true ->
  re_cache_size e + events_bits evs < 4294967296 ->
  renc_inv (fst (renc_events e t evs)) /\ probs_ok (snd (renc_events e t evs)) /\
  re_cache_size (fst (renc_events e t evs)) <= re_cache_size e + events_bits evs /\
  forall out, renc_fut out (fst (renc_events e t evs)) -> renc_fut out e.
Proof.
  induction evs as [|ev r IH]; intros e t HI Ht Hok Hs.
  - cbn [renc_events fst snd events_bits].
    split; [exact HI|]. split; [exact Ht|]. split; [lia|]. intros out Hf; exact Hf.
  - cbn [forallb] in Hok. apply andb_true_iff in Hok as [Hev Hok].
    cbn [events_bits] in Hs. pose proof (events_bits_nonneg r) as Hnn.
    cbn [renc_events events_bits]. destruct ev as [k bit | n v].
    + cbn [ev_bits] in *.
      destruct (encode_bit_ok e t k bit HI Ht (ev_ok_bit _ _ Hev) ltac:(lia)) as (I1 & T1 & S1 & F1).
      destruct (encode_bit e t k bit) as [e1 t1]. cbn [fst snd] in *.
      destruct (IH e1 t1 I1 T1 Hok ltac:(lia)) as (I2 & T2 & S2 & F2).
      split; [exact I2|]. split; [exact T2|]. split; [lia|]. intros out Hf. apply F1, F2, Hf.
    + cbn [ev_bits] in *.
      destruct (encode_direct_bits_ok n e v HI ltac:(lia)) as (I1 & S1 & F1).
      destruct (IH (encode_direct_bits e v n) t I1 Ht Hok ltac:(lia)) as (I2 & T2 & S2 & F2).
      split; [exact I2|]. split; [exact T2|]. split; [lia|]. intros out Hf. apply F1, F2, Hf.
Qed.

(* the complete output of a run that starts in state e
(a notation, not a definition: a constant here makes the kernel unfold renc_bytes/shift_low first when
   it compares the folded with the unfolded form, which takes minutes) *)
Notation renc_output e t evs := (renc_bytes (renc_finish (fst (renc_events e t evs)))) (only parsing).

Lemma renc_output_fut e t evs :
  renc_inv e -> probs_ok t -> forallb ev_ok evs = true ->
  re_cache_size e + events_bits evs + 5 < 4294967296 ->
  renc_fut (renc_output e t evs) e.
Proof.
  intros HI Ht Hok Hs. pose proof (events_bits_nonneg evs) as Hnn.
  destruct (renc_events_ok evs e t HI Ht Hok ltac:(lia)) as (I1 & _ & S1 & F1).
  apply F1. apply renc_fut_finish; [exact (proj1 I1) | lia].
Qed.
