(* Codec/Lzma2ReadProofs.v — the LZMA2 reader model decodes every well-formed chunk sequence
   ([chunks_ok], Lzma2SpecProofs.v) into the data it describes, for every sequence of destination
   buffer sizes; together with Lzma2FrameSyncProofs.v (the writer model only writes such
   sequences) this is the LZMA2 round trip at the level of the writer and reader models. *)
From LzVerif Require Import Base.Bytes Codec.Store Codec.Range Codec.ProbProofs Codec.LzWindow Codec.LzmaDec
  Codec.LzmaEnc Codec.LzmaAbs Codec.LzWindowProofs Codec.ProgProofs Codec.LzmaAbsProofs
  Codec.RangeEncProofs Codec.RangeDecProofs Codec.RangeProofs Codec.LzmaSymProofs Codec.LzmaRoundtrip
  Codec.LzmaWriters Codec.LzmaChunkProofs Codec.LzmaReadProofs Codec.Lzma2Dec Codec.Lzma2FrameProofs
  Codec.Lzma2SpecProofs Codec.Lzma2WindowProofs Codec.Lzma2BitsProofs Codec.Lzma2ReadAuxProofs
  Codec.Lzma2LoopProofs Codec.Lzma2Loop0Proofs.
Ltac Zify.zify_post_hook ::= Z.div_mod_to_equations.

Ltac msimpl :=
  cbn [m_in m_win m_rc m_probs m_coder m_uncompressed_size m_is_lzma_chunk m_need_dict_reset m_need_props
       m_end_reached m_error].
Ltac msimpl_in H :=
  cbn [m_in m_win m_rc m_probs m_coder m_uncompressed_size m_is_lzma_chunk m_need_dict_reset m_need_props
       m_end_reached m_error] in H.

(* the part of lzma2_iter after the chunk header *)
Definition iter_body (s1 : lzma2) (len : Z) : outcome (list Z * lzma2) :=
  let copy_size_max := Z.min (m_uncompressed_size s1) len in
  do s2 <-
    (if negb (m_is_lzma_chunk s1) then
       do wi <- lzwin_copy_uncompressed (m_win s1) (m_in s1) copy_size_max;
       let '(w, input) := wi in
       Ok (mkLzma2 input w (m_rc s1) (m_probs s1) (m_coder s1) (m_uncompressed_size s1) (m_is_lzma_chunk s1)
                   (m_need_dict_reset s1) (m_need_props s1) (m_end_reached s1) (m_error s1))
     else
       let w := lzwin_set_limit (m_win s1) copy_size_max in
       match m_coder s1 with
       | None => Ok (mkLzma2 (m_in s1) w (m_rc s1) (m_probs s1) None (m_uncompressed_size s1) true
                             (m_need_dict_reset s1) (m_need_props s1) (m_end_reached s1) (m_error s1))
       | Some c =>
           do r <- lzma_decode c w (m_rc s1) (m_probs s1);
           let '(c1, w1, status, d1, t1) := r in
           match status with
           | Ok _ => Ok (mkLzma2 (m_in s1) w1 d1 t1 (Some c1) (m_uncompressed_size s1) true
                                 (m_need_dict_reset s1) (m_need_props s1) (m_end_reached s1) (m_error s1))
           | Err e => Err e
           | Panic e => Panic e
           | Fuel => Fuel
           end
       end);
  let '(out, w3) := lzwin_flush (m_win s2) in
  let copied := zlen out in
  let usize := m_uncompressed_size s2 - copied in
  if usize <? 0 then Panic 51 else
  let s3 := mkLzma2 (m_in s2) w3 (m_rc s2) (m_probs s2) (m_coder s2) usize (m_is_lzma_chunk s2)
                    (m_need_dict_reset s2) (m_need_props s2) (m_end_reached s2) (m_error s2) in
  if (usize =? 0) && (negb (rdec_is_finished (m_rc s3)) || lzwin_has_pending w3) then Err E_INVALID_INPUT
  else Ok (out, s3).

Lemma lzma2_iter_eq s len :
  lzma2_iter s len =
  do s1 <- (if m_uncompressed_size s =? 0 then lzma2_chunk_header s else Ok s);
  if m_end_reached s1 then Ok ([], s1) else iter_body s1 len.
Proof. reflexivity. Qed.

Lemma coder_ok_new lc lp pb full : 0 <= lc -> 0 <= lp -> lc + lp <= 4 -> 0 <= pb <= 4 ->
  coder_ok (coder_new lc lp pb) full.
Proof.
  intros Hlc Hlp Hs Hpb. unfold coder_ok, params_ok, reps_nonneg, coder_new.
  cbn [c_lc c_lp c_pb c_state c_rep0 c_rep1 c_rep2 c_rep3].
  repeat split; try lia. intros H. discriminate H.
Qed.

Section Reader.
  Variables lc lp pb dict : Z.
  Variable wsize : Z.        (* the reader's buffer size: the dictionary size rounded up to 16 *)
  Variable tail : list Z.
  Variable D0 : ptree.       (* the data as an array, and its length: fixed along the stream *)
  Variable T0 : Z.
  Hypothesis Hlc : 0 <= lc.
  Hypothesis Hlp : 0 <= lp.
  Hypothesis Hlclp : lc + lp <= 4.
  Hypothesis Hpb : 0 <= pb <= 4.
  Hypothesis Hdict : dict <= 2147483648.
  Hypothesis Hdictw : dict <= wsize.
  Hypothesis Hws : 0 < wsize.
  Hypothesis Hws16 : wsize mod 16 = 0.
  Hypothesis Hdata : forall i, 0 <= aget 0 D0 i < 256.

  Definition hfix (h : ehist) : Prop := h_data h = D0 /\ h_total h = T0 /\ h_dict h = dict.

  (* what the reader's coder / tables / flags must be for a chunk sequence at level r *)
  Definition sync_coder (r : rlevel) (co : option coder) (t : probs) (np nd : bool) (full : Z) : Prop :=
    match r with
    | RNone c t' => co = Some c /\ t = t' /\ coder_params c lc lp pb /\ probs_ok t' /\ coder_ok c full
    | RState => exists c, co = Some c /\ coder_params c lc lp pb
    | _ => True
    end /\ (np = true -> has_props r = true) /\ (nd = true -> r = RDict).

  (* a flushed window holding the history *)
  (* [st = true]: the write position is strictly inside the buffer (always, after a flush);
     [st = false] also allows the state LZDecoder::new leaves for a preset that fills the buffer *)
  Definition win_ok (st : bool) (w : lzwin) (hist : list Z) : Prop :=
    Rel w hist /\ w_size w = wsize /\ w_start w = w_pos w /\ (st = true -> w_pos w < w_size w).

  Definition sync_win (st : bool) (r : rlevel) (h : ehist) (w : lzwin) : Prop :=
    w_size w = wsize /\ w_pending_len w = 0 /\
    match r with
    | RDict => h_base h = h_pos h /\ 0 <= h_base h
    | _ => exists hist, win_ok st w hist /\ hist_rel h hist
    end.

  Definition at_boundary (st : bool) (r : rlevel) (h : ehist) (s : lzma2) : Prop :=
    m_uncompressed_size s = 0 /\ m_end_reached s = false /\ m_error s = None /\
    rdec_is_finished (m_rc s) = true /\
    sync_coder r (m_coder s) (m_probs s) (m_need_props s) (m_need_dict_reset s) (w_full (m_win s)) /\
    sync_win st r h (m_win s) /\ hfix h.

  (* inside a stored chunk: u bytes still to copy *)
  Definition in_unc (st : bool) (s : lzma2) (rem : list Z) : Prop :=
    exists r h u bytes hist,
      0 < u /\ h_pos h + u <= T0 /\ m_uncompressed_size s = u /\ m_is_lzma_chunk s = false /\
      m_end_reached s = false /\ m_error s = None /\ rdec_is_finished (m_rc s) = true /\
      (r = RState \/ r = RProps) /\
      sync_coder r (m_coder s) (m_probs s) (m_need_props s) (m_need_dict_reset s) 0 /\
      win_ok st (m_win s) hist /\ w_pending_len (m_win s) = 0 /\ hist_rel h hist /\ hfix h /\
      chunks_ok lc lp pb r (h_at h (h_pos h + u)) bytes /\
      m_in s = aget_list D0 (h_pos h) (Z.to_nat u) ++ bytes ++ tail /\ rem = data_from h.

  (* inside an LZMA chunk: u bytes still to decode from the decisions [rest] *)
  Definition in_lzma (st : bool) (s : lzma2) (rem : list Z) : Prop :=
    exists E t0 done rest c hist s_end h' bytes u,
      0 < u /\ m_uncompressed_size s = u /\ m_is_lzma_chunk s = true /\
      m_end_reached s = false /\ m_error s = None /\
      m_need_props s = false /\ m_need_dict_reset s = false /\
      m_coder s = Some c /\ win_ok st (m_win s) hist /\ coder_ok c (w_full (m_win s)) /\
      (0 < w_pending_len (m_win s) -> 0 <= w_pending_dist (m_win s) < w_full (m_win s)) /\
      E = done ++ rest /\ rc_sim E t0 [] done (m_rc s) (m_probs s) /\
      run_trace (aproduce (Z.to_nat u)
                   (mkAstate c hist wsize (w_pending_len (m_win s)) (w_pending_dist (m_win s)))) rest
        = Some (Ok (s_end, Ok tt), []) /\
      a_pend_len s_end = 0 /\ hist_rel h' (a_hist s_end) /\ hfix h' /\ coder_params (a_coder s_end) lc lp pb /\
      chunks_ok lc lp pb (RNone (a_coder s_end) (snd (renc_events renc_init t0 E))) h' bytes /\
      m_in s = bytes ++ tail /\
      rem = rev (firstn (Z.to_nat u) (a_hist s_end)) ++ data_from h'.

  Definition Inv (st : bool) (s : lzma2) (rem : list Z) : Prop :=
    (exists r h bytes, chunks_ok lc lp pb r h bytes /\ at_boundary st r h s /\ m_in s = bytes ++ tail /\
                       rem = data_from h) \/
    in_unc st s rem \/ in_lzma st s rem.

  Lemma Inv_live st s rem : Inv st s rem -> m_end_reached s = false /\ m_error s = None.
  Proof.
    intros [(r & h & bytes & _ & (_ & He & Hr & _) & _) | [H | H]].
    - split; assumption.
    - destruct H as (r & h & u & bytes & hist & _ & _ & _ & _ & He & Hr & _). split; assumption.
    - destruct H as (E & t0 & done & rest & c & hist & se & h' & bytes & u & _ & _ & _ & He & Hr & _).
      split; assumption.
  Qed.

  Lemma sync_coder_full r co t np nd f1 f2 : (r = RState \/ r = RProps) ->
    sync_coder r co t np nd f1 -> sync_coder r co t np nd f2.
  Proof. intros [-> | ->] H; exact H. Qed.

  (* ---- a stored chunk: one copy step ---------------------------------------------------------- *)
  Lemma body_unc st s rem len : in_unc st s rem -> 0 < len ->
    exists out s', iter_body s len = Ok (out, s') /\ (st = true -> out <> []) /\ zlen out <= len /\
      exists rem', rem = out ++ rem' /\ Inv true s' rem'.
  Proof.
    intros (r & h & u & bytes & hist & Hu & Hut & Hus & Hlz & Hend & Herr & Hfin & Hr & Hsc & Hw & Hpl & Hhr &
            Hfx & Hck & Hin & Hrem) Hlen.
    destruct Hw as (R & Hsz & Hst & Hps). destruct Hfx as (Hd & Ht & Hdi).
    pose proof R as [_ [_ Hp2] _ _ _ _ _ _].
    unfold iter_body. rewrite Hlz, Hus. cbn [negb].
    set (m := Z.min u len).
    set (n := Z.min (w_size (m_win s) - w_pos (m_win s)) m).
    assert (Hn : 0 <= n <= u) by (unfold n, m; lia).
    assert (Hn1 : st = true -> 1 <= n) by (intros X; specialize (Hps X); unfold n, m; lia).
    assert (Hlin : (Z.to_nat n <= length (m_in s))%nat).
    { rewrite Hin, app_length, aget_list_length. lia. }
    destruct (copy_uncompressed_rel (m_win s) hist (m_in s) m R ltac:(unfold m; lia) Hlin)
      as (w' & Hcp & R' & Hsz' & Hst' & Hps' & Hpl' & Hpd').
    fold n in Hcp, R', Hps'. rewrite Hcp. cbn [obind]. msimpl.
    (* what was copied *)
    assert (Hfirst : firstn (Z.to_nat n) (m_in s) = aget_list D0 (h_pos h) (Z.to_nat n)).
    { rewrite Hin, (aget_list_split D0 (h_pos h) u n) by lia. rewrite <- app_assoc.
      apply firstn_app_exact. rewrite aget_list_length. reflexivity. }
    assert (Hskip : skipn (Z.to_nat n) (m_in s) = aget_list D0 (h_pos h + n) (Z.to_nat (u - n)) ++ bytes ++ tail).
    { rewrite Hin, (aget_list_split D0 (h_pos h) u n) by lia. rewrite <- app_assoc.
      apply skipn_app_exact. rewrite aget_list_length. reflexivity. }
    rewrite Hfirst in R'. set (l := aget_list D0 (h_pos h) (Z.to_nat n)) in *.
    pose proof (flush_rel w' _ R') as HF. pose proof (flush_facts w') as (Hff & Hfp & _).
    destruct (lzwin_flush w') as [out w3]. cbn [fst snd] in Hff, Hfp.
    destruct HF as (Hout & R3 & Hst3 & Hsz3 & _ & Hpl3 & _).
    assert (Hout' : out = l).
    { rewrite Hout. replace (Z.to_nat (w_pos w' - w_start w')) with (length (rev l)).
      - rewrite firstn_app_exact by reflexivity. apply rev_involutive.
      - rewrite rev_length. unfold l. rewrite aget_list_length. lia. }
    assert (Hzo : zlen out = n) by (rewrite Hout'; unfold l; rewrite zlen_aget_list; lia).
    rewrite Hzo.
    destruct (Z.ltb_spec (u - n) 0) as [Hbad|_]; [lia|].
    msimpl. rewrite Hfin. cbn [negb orb].
    unfold lzwin_has_pending. rewrite Hpl3, Hpl', Hpl. change (0 <? 0) with false. rewrite andb_false_r.
    eexists out, _. split; [reflexivity|].
    split; [intros Y X; specialize (Hn1 Y); rewrite X in Hzo; unfold zlen in Hzo; cbn [length] in Hzo; lia|].
    split; [unfold n, m in Hzo |- *; lia|].
    exists (data_from (h_at h (h_pos h + n))).
    split.
    { rewrite Hrem, Hout'. unfold l. rewrite <- Hd. apply data_from_split. lia. }
    (* the new state *)
    assert (Hw3 : win_ok true w3 (rev l ++ hist)).
    { split; [exact R3|]. split; [lia|]. split; [exact Hst3|]. intros _. rewrite Hsz3. apply Hfp; lia. }
    assert (Hhr3 : hist_rel (h_at h (h_pos h + n)) (rev l ++ hist)).
    { unfold l. rewrite <- Hd. replace n with (Z.of_nat (Z.to_nat n)) at 1 by lia. apply hist_rel_stored. exact Hhr. }
    assert (Hfx3 : hfix (h_at h (h_pos h + n))) by (unfold hfix, h_at; cbn; auto).
    destruct (Z.eq_dec (u - n) 0) as [Hz|Hnz].
    - (* the chunk is complete: back at a boundary *)
      left. exists r, (h_at h (h_pos h + n)), bytes.
      replace (h_pos h + u) with (h_pos h + n) in Hck by lia.
      split; [exact Hck|]. split.
      + unfold at_boundary. msimpl.
        split; [exact Hz|]. split; [exact Hend|]. split; [exact Herr|]. split; [exact Hfin|].
        split; [eapply sync_coder_full; eassumption|].
        split; [|exact Hfx3].
        unfold sync_win. split; [lia|]. split; [lia|].
        destruct Hr as [-> | ->]; exists (rev l ++ hist); split; assumption.
      + split; [|reflexivity]. rewrite Hskip, Hz. reflexivity.
    - right. left. exists r, (h_at h (h_pos h + n)), (u - n), bytes, (rev l ++ hist). msimpl.
      cbn [h_at h_pos].
      split; [lia|]. split; [lia|]. split; [reflexivity|]. split; [reflexivity|]. split; [exact Hend|].
      split; [exact Herr|]. split; [exact Hfin|]. split; [exact Hr|]. split; [exact Hsc|].
      split; [exact Hw3|]. split; [lia|]. split; [exact Hhr3|]. split; [exact Hfx3|].
      split; [|split; [exact Hskip | reflexivity]].
      rewrite h_at_at. replace (h_pos h + n + (u - n)) with (h_pos h + u) by lia. exact Hck.
  Qed.

  (* ---- an LZMA chunk: one decode call with whatever budget the buffers allow ------------------- *)
  Lemma body_lzma st s rem len : in_lzma st s rem -> 0 < len ->
    exists out s', iter_body s len = Ok (out, s') /\ (st = true -> out <> []) /\ zlen out <= len /\
      exists rem', rem = out ++ rem' /\ Inv true s' rem'.
  Proof.
    intros (E & t0 & done & rest & c & hist & se & h' & bytes & u & Hu & Hus & Hlz & Hend & Herr & Hnp & Hnd &
            Hco & Hw & Hcok & Hpd & HE & Hsim & Hrun & Hpe & Hhr & Hfx & Hcp & Hck & Hin & Hrem) Hlen.
    destruct Hw as (R & Hsz & Hst & Hps). pose proof R as [_ [_ Hp2] _ _ _ _ _ _].
    unfold iter_body. rewrite Hlz, Hus, Hco. cbn [negb].
    set (m := Z.min u len).
    set (wl := lzwin_set_limit (m_win s) m).
    destruct (set_limit_rel (m_win s) hist m R ltac:(unfold m; lia)) as (Rl & Hpl).
    fold wl in Rl, Hpl.
    assert (Hwl : w_limit wl = Z.min (m + w_pos (m_win s)) (w_size (m_win s))) by reflexivity.
    assert (Hwl1 : w_size wl = w_size (m_win s)) by reflexivity.
    assert (Hwl2 : w_pos wl = w_pos (m_win s)) by reflexivity.
    assert (Hwl3 : w_full wl = w_full (m_win s)) by reflexivity.
    assert (Hwl4 : w_start wl = w_start (m_win s)) by reflexivity.
    assert (Hwl5 : w_pending_len wl = w_pending_len (m_win s)) by reflexivity.
    assert (Hwl6 : w_pending_dist wl = w_pending_dist (m_win s)) by reflexivity.
    set (b := w_limit wl - w_pos wl).
    assert (Hb : 0 <= b <= u) by (unfold b; rewrite Hwl, Hwl2; unfold m; lia).
    assert (Hb1 : st = true -> 1 <= b) by (intros X; specialize (Hps X); unfold b; rewrite Hwl, Hwl2; unfold m; lia).
    assert (Hblen : b <= len) by (unfold b; rewrite Hwl, Hwl2; unfold m; lia).
    assert (Hwf : Forall ev_wf rest).
    { destruct Hsim as (_ & Hok & _). apply forall_ev_wf in Hok. rewrite HE in Hok. eapply Forall_app_r; exact Hok. }
    replace (Z.to_nat u) with (Z.to_nat b + Z.to_nat (u - b))%nat in Hrun by lia.
    destruct (trace_prefix_ok _ _ _ _ _ _ Hwf Hrun) as (s1 & r1 & Hrun1 & Hrun2).
    assert (Hwf1 : Forall ev_wf r1) by (eapply run_trace_rest_wf; eassumption).
    destruct (decode_call_sim_norm E t0 [] done rest c wl hist (m_rc s) (m_probs s) (Z.to_nat b) s1 r1 Hsim HE Rl)
      as (w1 & d1 & t1 & evs1 & Hrest & Hdec & Hsim1 & Hnorm & Hloop).
    { rewrite Hwl3; exact Hcok. }
    { exact Hpl. }
    { unfold b in *; lia. }
    { rewrite Hwl5, Hwl6, Hwl3. exact Hpd. }
    { rewrite Hwl1, Hwl5, Hwl6, Hsz. exact Hrun1. }
    rewrite Hdec. cbn [obind]. msimpl.
    unfold loop_rel in Hloop.
    destruct Hloop as (_ & _ & R1 & Hd1 & Hsz1 & Hli1 & Hst1 & Hpos1 & Hzl1 & Hpl1 & Hok1 & Hpd1).
    destruct (Hok1 eq_refl) as (Hcok1 & _). clear Hok1.
    (* how the histories grow *)
    pose proof (run_trace_pall _ _ _ _ _ (aproduce_grows (Z.to_nat b) _) Hwf Hrun1) as (_ & Hg1 & _).
    cbn [fst snd a_hist] in Hg1. destruct (Hg1 eq_refl) as (new1 & Hh1 & Hl1). clear Hg1.
    pose proof (run_trace_pall _ _ _ _ _ (aproduce_grows (Z.to_nat (u - b)) _) Hwf1 Hrun2) as (_ & Hg2 & _).
    cbn [fst snd] in Hg2. destruct (Hg2 eq_refl) as (new2 & Hh2 & Hl2). clear Hg2.
    assert (Hadv : w_pos w1 - w_pos wl = b).
    { rewrite Hh1, zlen_app in Hzl1. unfold zlen in Hzl1 at 1. lia. }
    (* the flush *)
    pose proof (flush_rel w1 _ R1) as HF. pose proof (flush_facts w1) as (Hff & Hfp & _).
    destruct (lzwin_flush w1) as [out w3]. cbn [fst snd] in Hff, Hfp.
    destruct HF as (Hout & R3 & Hst3 & Hsz3 & _ & Hpl3 & Hpd3).
    assert (Hout' : out = rev new1).
    { rewrite Hout. f_equal. rewrite Hh1. apply firstn_app_exact. lia. }
    assert (Hzo : zlen out = b) by (rewrite Hout'; unfold zlen; rewrite rev_length; lia).
    rewrite Hzo.
    destruct (Z.ltb_spec (u - b) 0) as [Hbad|_]; [lia|].
    msimpl.
    assert (Hw3 : win_ok true w3 (a_hist s1)).
    { split; [exact R3|]. split; [lia|]. split; [exact Hst3|]. intros _. rewrite Hsz3. apply Hfp; [lia|].
      destruct R1 as [_ [_ X] _ _ _ _ _ _]. exact X. }
    assert (Hrem1 : rem = out ++ rev new2 ++ data_from h').
    { rewrite Hrem, Hout'. rewrite Hh2, Hh1, app_assoc.
      rewrite firstn_app_exact by (rewrite app_length; lia).
      rewrite rev_app_distr, <- app_assoc. reflexivity. }
    assert (Hne : st = true -> out <> []).
    { intros Y X; specialize (Hb1 Y); rewrite X in Hzo; unfold zlen in Hzo; cbn [length] in Hzo; lia. }
    destruct (Z.eqb_spec (u - b) 0) as [Hz|Hnz].
    - (* the chunk is complete *)
      rewrite Hz in Hrun2. cbn [Z.to_nat aproduce run_trace] in Hrun2.
      inversion Hrun2; subst se r1. clear Hrun2.
      rewrite app_nil_r in Hrest. subst rest.
      rewrite <- HE in Hsim1.
      destruct (rc_sim_end _ _ _ _ _ Hsim1) as (Ht1 & Hin1 & Hcode1 & Hover1). rewrite Hnorm in Hin1, Hcode1, Hover1.
      rewrite (rdec_is_finished_intro d1 Hin1 Hcode1 Hover1). cbn [negb orb].
      unfold lzwin_has_pending. rewrite Hpl3, Hpl1, Hpe. change (0 <? 0) with false. cbn [andb].
      eexists out, _. split; [reflexivity|]. split; [exact Hne|]. split; [lia|].
      exists (data_from h'). split.
      { rewrite Hrem1. destruct new2 as [|x t]; [reflexivity | cbn [length] in Hl2; lia]. }
      left. exists (RNone (a_coder s1) (snd (renc_events renc_init t0 E))), h', bytes.
      split; [exact Hck|]. split; [|split; [exact Hin | reflexivity]].
      unfold at_boundary. msimpl.
      split; [exact Hz|]. split; [exact Hend|]. split; [exact Herr|].
      split; [apply rdec_is_finished_intro; assumption|].
      split.
      + unfold sync_coder. rewrite Hnp, Hnd.
        split; [|split; intros X; discriminate X].
        split; [reflexivity|]. split; [exact Ht1|]. split; [exact Hcp|].
        split; [rewrite <- Ht1; eapply rc_sim_probs_ok; exact Hsim1|].
        rewrite Hff. exact Hcok1.
      + split; [|exact Hfx]. unfold sync_win. split; [lia|]. split; [lia|].
        exists (a_hist s1). split; assumption.
    - (* more of the chunk to come *)
      cbn [andb].
      eexists out, _. split; [reflexivity|]. split; [exact Hne|]. split; [lia|].
      exists (rev new2 ++ data_from h'). split; [exact Hrem1|].
      right. right.
      destruct s1 as [c1 hist1 dict1 pl1 pd1].
      cbn [a_coder a_hist a_dict a_pend_len a_pend_dist] in *. subst dict1.
      destruct (aproduce_pd_irrel (Z.to_nat (u - b)) c1 hist1 (w_size wl) pl1 pd1 (w_pending_dist w3) r1 se []
                  Hwf1) as (se' & Hrun3 & Q1 & Q2 & Q3 & Q4).
      { intros Hpos. rewrite Hpd3. symmetry. apply (Hpd1 Hpos). }
      { exact Hrun2. }
      exists E, t0, (done ++ evs1), r1, c1, hist1, se', h', bytes, (u - b). msimpl.
      split; [lia|]. split; [reflexivity|]. split; [reflexivity|]. split; [exact Hend|]. split; [exact Herr|].
      split; [exact Hnp|]. split; [exact Hnd|]. split; [reflexivity|]. split; [exact Hw3|].
      split; [rewrite Hff; exact Hcok1|].
      split.
      { rewrite Hpl3, Hpd3, Hff, Hpl1. intros Hpos. destruct (Hpd1 Hpos) as (X1 & X2). rewrite X1. exact X2. }
      split; [rewrite HE, Hrest, app_assoc; reflexivity|]. split; [exact Hsim1|].
      split; [rewrite Hpl3, Hpl1; rewrite Hwl1, Hsz in Hrun3; exact Hrun3|].
      split; [congruence|]. split; [rewrite Q2; exact Hhr|]. split; [exact Hfx|].
      split; [rewrite Q1; exact Hcp|]. split; [rewrite Q1; exact Hck|]. split; [exact Hin|].
      rewrite Q2, Hh2. rewrite firstn_app_exact by lia. reflexivity.
  Qed.

  (* ---- chunk headers ------------------------------------------------------------------------- *)
  Ltac zb1 :=
    match goal with
    | |- context [Z.eqb ?a ?b] =>
        first [ destruct (Z.eqb_spec a b) as [?Hz|?Hz]; [exfalso; lia|]
              | destruct (Z.eqb_spec a b) as [?Hz|?Hz]; [|exfalso; lia] ]
    | |- context [Z.leb ?a ?b] =>
        first [ destruct (Z.leb_spec a b) as [?Hz|?Hz]; [exfalso; lia|]
              | destruct (Z.leb_spec a b) as [?Hz|?Hz]; [|exfalso; lia] ]
    | |- context [Z.ltb ?a ?b] =>
        first [ destruct (Z.ltb_spec a b) as [?Hz|?Hz]; [exfalso; lia|]
              | destruct (Z.ltb_spec a b) as [?Hz|?Hz]; [|exfalso; lia] ]
    end.

  Lemma at_boundary_reset st r h s : at_boundary st r h s ->
    exists w1, lzwin_reset (m_win s) = Ok w1 /\ Rel w1 [] /\ w_size w1 = wsize /\ w_start w1 = 0 /\ w_pos w1 = 0 /\
               w_full w1 = 0 /\ w_pending_len w1 = 0.
  Proof.
    intros (_ & _ & _ & _ & _ & (Hsz & Hpl & _) & _).
    destruct (reset_rel (m_win s)) as (w1 & H1 & H2 & H3 & H4 & H5 & H6 & H7 & _); try lia.
    exists w1. split; [exact H1|]. split; [exact H2|]. repeat split; lia.
  Qed.

  Lemma header_unc st r h s n rest :
    at_boundary st r h s -> 1 <= n <= 65536 -> m_in s = unc_header r n ++ rest ->
    exists w1,
      lzma2_chunk_header s =
        Ok (mkLzma2 rest w1 (m_rc s) (m_probs s) (m_coder s) n false false
                    (match r with RDict => true | _ => m_need_props s end) false (m_error s)) /\
      match r with RDict => lzwin_reset (m_win s) = Ok w1 | _ => w1 = m_win s end.
  Proof.
    intros Hb Hn Hin. pose proof (at_boundary_reset _ _ _ _ Hb) as (wr & Hreset & _).
    destruct Hb as (_ & _ & _ & _ & (_ & _ & Hnd) & _).
    pose proof (u16_bytes (n - 1) ltac:(lia)) as H16.
    unfold lzma2_chunk_header. rewrite Hin. unfold unc_header. cbn [app read_u8 obind].
    destruct r as [c t| | |]; cbn [unc_ctl].
    1-3: change (2 =? 0) with false; change ((224 <=? 2) || (2 =? 1)) with false; cbv iota;
         destruct (m_need_dict_reset s); [specialize (Hnd eq_refl); discriminate Hnd|];
         cbn [obind]; change (128 <=? 2) with false; change (2 <? 2) with false; cbv iota;
         cbn [read_u16_be obind]; rewrite H16; replace (n - 1 + 1) with n by lia;
         exists (m_win s); split; reflexivity.
    change (1 =? 0) with false. change ((224 <=? 1) || (1 =? 1)) with true. cbv iota.
    rewrite Hreset. cbn [obind]. change (128 <=? 1) with false. change (2 <? 1) with false. cbv iota.
    cbn [read_u16_be obind]. rewrite H16. replace (n - 1 + 1) with n by lia.
    exists wr. split; reflexivity.
  Qed.

  Lemma header_lzma st r h s usize body bytes d0 :
    at_boundary st r h s -> 1 <= usize <= 2097152 -> 1 <= zlen body <= 65536 ->
    rdec_init body = Ok d0 ->
    m_in s = lzma_header lc lp pb r usize (zlen body) ++ body ++ bytes ++ tail ->
    exists w1,
      lzma2_chunk_header s =
        Ok (mkLzma2 (bytes ++ tail) w1 d0 (start_probs r) (Some (start_coder lc lp pb r)) usize true
                    false false false (m_error s)) /\
      match r with RDict => lzwin_reset (m_win s) = Ok w1 | _ => w1 = m_win s end.
  Proof.
    intros Hb Hu Hc Hd0 Hin. pose proof (at_boundary_reset _ _ _ _ Hb) as (wr & Hreset & _).
    destruct Hb as (_ & _ & _ & _ & (Hco & Hnp & Hnd) & _).
    pose proof (u16_bytes (zlen body - 1) ltac:(lia)) as H16.
    pose proof (rdec_prepare_of_init body (bytes ++ tail) d0 Hd0) as Hprep.
    assert (Hc0 : In (lzma_ctl0 r) [128; 160; 192; 224]) by (destruct r; cbn; tauto).
    destruct (lzma_ctl_decode (lzma_ctl0 r) usize Hc0 Hu) as (Hctl & Hx & Hus).
    unfold lzma2_chunk_header. rewrite Hin. unfold lzma_header. cbn [app read_u8 obind]. rewrite Hctl.
    set (x := (usize - 1) / 65536) in *.
    destruct r as [c t| | |]; cbn [lzma_ctl0 has_props start_probs start_coder app] in *.
    - (* 0x80 *)
      destruct Hco as (Hco & Hpr & _).
      zb1. replace ((224 <=? 128 + x) || (128 + x =? 1)) with false by (symmetry; apply orb_false_iff; split; lia).
      destruct (m_need_dict_reset s); [specialize (Hnd eq_refl); discriminate Hnd|].
      destruct (m_need_props s); [specialize (Hnp eq_refl); discriminate Hnp|].
      cbn [obind]. zb1. cbn [read_u16_be obind]. rewrite Hus, H16. replace (zlen body - 1 + 1) with (zlen body) by lia.
      zb1. zb1. cbn [obind]. rewrite Hprep. cbn [obind]. rewrite Hco, Hpr.
      exists (m_win s). split; reflexivity.
    - (* 0xA0 *)
      destruct Hco as (cr & Hco & Hp1 & Hp2 & Hp3).
      zb1. replace ((224 <=? 160 + x) || (160 + x =? 1)) with false by (symmetry; apply orb_false_iff; split; lia).
      destruct (m_need_dict_reset s); [specialize (Hnd eq_refl); discriminate Hnd|].
      destruct (m_need_props s); [specialize (Hnp eq_refl); discriminate Hnp|].
      cbn [obind]. zb1. cbn [read_u16_be obind]. rewrite Hus, H16. replace (zlen body - 1 + 1) with (zlen body) by lia.
      zb1. zb1. cbn [obind]. rewrite Hprep. cbn [obind]. rewrite Hco.
      unfold coder_reset. rewrite Hp1, Hp2, Hp3.
      exists (m_win s). split; reflexivity.
    - (* 0xC0 *)
      zb1. replace ((224 <=? 192 + x) || (192 + x =? 1)) with false by (symmetry; apply orb_false_iff; split; lia).
      destruct (m_need_dict_reset s); [specialize (Hnd eq_refl); discriminate Hnd|].
      cbn [obind]. zb1. cbn [read_u16_be obind]. rewrite Hus, H16. replace (zlen body - 1 + 1) with (zlen body) by lia.
      zb1. rewrite decode_props_ok by assumption. cbn [obind]. rewrite Hprep. cbn [obind].
      exists (m_win s). split; reflexivity.
    - (* 0xE0 *)
      zb1. replace ((224 <=? 224 + x) || (224 + x =? 1)) with true by (symmetry; apply orb_true_iff; left; lia).
      rewrite Hreset. cbn [obind]. zb1. cbn [read_u16_be obind]. rewrite Hus, H16.
      replace (zlen body - 1 + 1) with (zlen body) by lia.
      zb1. rewrite decode_props_ok by assumption. cbn [obind]. rewrite Hprep. cbn [obind].
      exists wr. split; reflexivity.
  Qed.

  (* ---- the state right after the header of an LZMA chunk --------------------------------------- *)
  Lemma lzma_chunk_start st c0 t0 h syms E c' h' usize bytes s1 hist :
    no_end syms -> enc_syms c0 h syms = Ok (E, c', h') ->
    coder_params c' lc lp pb ->
    usize = h_pos h' - h_pos h -> 1 <= usize ->
    chunks_ok lc lp pb (RNone c' (snd (renc_events renc_init t0 E))) h' bytes ->
    hfix h -> hist_rel h hist -> win_ok st (m_win s1) hist -> w_pending_len (m_win s1) = 0 ->
    coder_ok c0 (w_full (m_win s1)) ->
    rc_sim E t0 [] [] (m_rc s1) t0 ->
    m_probs s1 = t0 -> m_coder s1 = Some c0 ->
    m_uncompressed_size s1 = usize -> m_is_lzma_chunk s1 = true -> m_end_reached s1 = false ->
    m_error s1 = None -> m_need_props s1 = false -> m_need_dict_reset s1 = false -> m_in s1 = bytes ++ tail ->
    in_lzma st s1 (data_from h).
  Proof.
    intros Hne He Hcp Hus Hu1 Hck (Hd & Ht & Hdi) Hhr Hw Hpl Hcok Hsim Hpr Hco Hsz Hlz Hend Herr Hnp Hnd Hin.
    assert (Hdok : data_ok h) by (intros i; unfold hget; rewrite Hd; apply Hdata).
    pose proof Hcok as (_ & _ & Hreps & _).
    destruct (aproduce_syms syms c0 h hist wsize (w_pending_dist (m_win s1)) (Z.to_nat usize) E c' h' []
                Hne Hhr ltac:(lia) ltac:(left; lia) Hdok Hreps He ltac:(lia))
      as (hist' & pd' & Hrun & Hhr' & Hreps' & Hb & Hdd & Htt & Hda).
    rewrite app_nil_r in Hrun.
    pose proof (chunks_ok_pos _ _ _ _ _ _ Hck) as Hpos'.
    exists E, t0, [], E, c0, hist, (mkAstate c' hist' wsize 0 pd'), h', bytes, usize.
    cbn [a_coder a_hist a_pend_len].
    split; [lia|]. split; [exact Hsz|]. split; [exact Hlz|]. split; [exact Hend|]. split; [exact Herr|].
    split; [exact Hnp|]. split; [exact Hnd|]. split; [exact Hco|]. split; [exact Hw|].
    split; [exact Hcok|].
    split; [rewrite Hpl; intros X; lia|].
    split; [reflexivity|]. split; [rewrite Hpr; exact Hsim|].
    split; [rewrite Hpl; exact Hrun|].
    split; [reflexivity|]. split; [exact Hhr'|].
    split; [unfold hfix; repeat split; congruence|].
    split; [exact Hcp|]. split; [exact Hck|]. split; [exact Hin|].
    (* the data of the chunk *)
    destruct Hhr as (Hl & Hb0 & _). pose proof Hhr' as (Hl' & _ & _). pose proof (zlen_nonneg hist) as Hzn.
    rewrite (hist_rel_newest (Z.to_nat usize) h' hist' Hhr') by lia.
    rewrite (data_from_split h usize) by lia.
    rewrite Hda. replace (h_pos h' - Z.of_nat (Z.to_nat usize)) with (h_pos h) by lia.
    f_equal. unfold data_from, h_at. cbn [h_data h_total h_pos]. rewrite Hda, Htt.
    replace (h_pos h + usize) with (h_pos h') by lia. reflexivity.
  Qed.

  (* the window after the header: reset for a dictionary reset, untouched otherwise *)
  Lemma boundary_window st r h s w1 : at_boundary st r h s ->
    match r with RDict => lzwin_reset (m_win s) = Ok w1 | _ => w1 = m_win s end ->
    exists hist, win_ok st w1 hist /\ hist_rel h hist /\ w_pending_len w1 = 0 /\
                 match r with RNone c _ => coder_ok c (w_full w1) | _ => True end.
  Proof.
    intros Hb Hw1. pose proof (at_boundary_reset _ _ _ _ Hb) as (wr & Hreset & Rr & Hszr & Hstr & Hpor & Hfur & Hplr).
    destruct Hb as (_ & _ & _ & _ & (Hco & _) & (Hsz & Hpl & Hwin) & _).
    destruct r as [c t| | |].
    - subst w1. destruct Hwin as (hist & Hw & Hhr). exists hist.
      split; [exact Hw|]. split; [exact Hhr|]. split; [exact Hpl|].
      destruct Hco as (_ & _ & _ & _ & X). exact X.
    - subst w1. destruct Hwin as (hist & Hw & Hhr). exists hist.
      split; [exact Hw|]. split; [exact Hhr|]. split; [exact Hpl | exact I].
    - subst w1. destruct Hwin as (hist & Hw & Hhr). exists hist.
      split; [exact Hw|]. split; [exact Hhr|]. split; [exact Hpl | exact I].
    - rewrite Hreset in Hw1. apply Ok_inj in Hw1. subst w1. destruct Hwin as (Hbp & Hb0).
      exists []. split; [split; [exact Rr|]; split; [lia|]; split; [lia|]; intros _; lia|].
      split; [|split; [exact Hplr | exact I]].
      unfold hist_rel. change (zlen (@nil Z)) with 0. split; [lia|]. split; [exact Hb0|]. intros d Hd. lia.
  Qed.

  Lemma header_ok st r h bytes : chunks_ok lc lp pb r h bytes ->
    forall s, at_boundary st r h s -> m_in s = bytes ++ tail ->
    exists s1, lzma2_chunk_header s = Ok s1 /\
      ((m_end_reached s1 = true /\ m_error s1 = None /\ m_in s1 = tail /\ data_from h = []) \/
       (m_end_reached s1 = false /\ (in_unc st s1 (data_from h) \/ in_lzma st s1 (data_from h)))).
  Proof.
    induction 1 as [r h He | r h bytes _ IH | r h n bytes Hn Hle Hck _ | r h syms E c' h' usize csize bytes
                    Hne Hs Hp Hbits Hu Hur Hc Hcr Hck _]; intros s Hb Hin.
    - (* end of stream *)
      unfold lzma2_chunk_header. rewrite Hin. cbn [app read_u8 obind]. change (0 =? 0) with true. cbv iota.
      eexists. split; [reflexivity|]. left. msimpl.
      destruct Hb as (_ & _ & Herr & _).
      split; [reflexivity|]. split; [exact Herr|]. split; [reflexivity | apply data_from_end; exact He].
    - (* independent restart: nothing in the stream *)
      apply IH; [|exact Hin].
      destruct Hb as (H1 & H2 & H3 & H4 & (_ & Hnp & Hnd) & (Hsz & Hpl & Hwin) & Hfx).
      split; [exact H1|]. split; [exact H2|]. split; [exact H3|]. split; [exact H4|].
      split; [split; [exact I|]; split; intros _; reflexivity|].
      split; [|exact Hfx].
      split; [exact Hsz|]. split; [exact Hpl|]. cbn [h_rebase h_base h_pos]. split; [reflexivity|].
      destruct r as [c t| | |]; try (destruct Hwin as (hist & _ & (Hl & Hb0 & _)); pose proof (zlen_nonneg hist); lia).
      lia.
    - (* stored chunk *)
      rewrite <- !app_assoc in Hin.
      destruct (header_unc st r h s n _ Hb Hn Hin) as (w1 & Hhdr & Hw1).
      destruct (boundary_window st r h s w1 Hb Hw1) as (hist & Hwok & Hhr & Hpl1 & _).
      destruct Hb as (_ & Hend & Herr & Hfin & (Hco & Hnp & Hnd) & _ & Hfx).
      eexists. split; [exact Hhdr|]. right. msimpl. split; [reflexivity|]. left.
      pose proof Hfx as (Hd & Ht & _).
      exists (after_unc r), h, n, bytes, hist. msimpl.
      split; [lia|]. split; [lia|]. split; [reflexivity|]. split; [reflexivity|]. split; [reflexivity|].
      split; [exact Herr|]. split; [exact Hfin|].
      split; [destruct r; cbn [after_unc]; auto|].
      split.
      { unfold sync_coder. destruct r as [c t| | |]; cbn [after_unc has_props] in *.
        - destruct Hco as (Hc1 & _ & Hc3 & _). split; [exists c; split; assumption|].
          split; [exact Hnp | intros X; discriminate X].
        - split; [exact Hco|]. split; [exact Hnp | intros X; discriminate X].
        - split; [exact I|]. split; [intros _; reflexivity | intros X; discriminate X].
        - split; [exact I|]. split; [intros _; reflexivity | intros X; discriminate X]. }
      split; [exact Hwok|]. split; [exact Hpl1|]. split; [exact Hhr|]. split; [exact Hfx|].
      split; [exact Hck|]. split; [rewrite <- Hd; reflexivity | reflexivity].
    - (* LZMA chunk *)
      set (c0 := start_coder lc lp pb r) in *. set (t0 := start_probs r) in *.
      pose proof Hb as (_ & Hend & Herr & _ & (Hco & _) & _ & Hfx).
      pose proof Hfx as (Hd & Ht & Hdi).
      assert (Ht0 : probs_ok t0).
      { unfold t0. destruct r as [c t| | |]; cbn [start_probs]; try exact probs_ok_empty.
        destruct Hco as (_ & _ & _ & X & _). exact X. }
      assert (Hok : forallb RangeEncProofs.ev_ok E = true).
      { rewrite forallb_ev_ok_same. eapply enc_syms_events_ok; [|exact Hs]. lia. }
      destruct (rc_sim_init E t0 [] Ht0 Hok Hbits) as (d0 & Hinit & Hsim).
      rewrite app_nil_r in Hinit. fold (chunk_body t0 E) in Hinit.
      rewrite <- !app_assoc in Hin. rewrite Hc in Hin, Hcr.
      destruct (header_lzma st r h s usize (chunk_body t0 E) bytes d0 Hb Hur Hcr Hinit Hin) as (w1 & Hhdr & Hw1).
      destruct (boundary_window st r h s w1 Hb Hw1) as (hist & Hwok & Hhr & Hpl1 & Hcok).
      eexists. split; [exact Hhdr|]. right. msimpl. split; [reflexivity|]. right.
      eapply (lzma_chunk_start st c0 t0 h syms E c' h' usize bytes _ hist Hne Hs Hp Hu ltac:(lia) Hck Hfx Hhr);
        msimpl; try reflexivity; try assumption.
      unfold c0. destruct r as [c t| | |]; cbn [start_coder]; try (apply coder_ok_new; assumption). exact Hcok.
  Qed.

  (* ---- one iteration of the read loop ---------------------------------------------------------- *)
  Lemma iter_step_gen st s rem len : Inv st s rem -> 0 < len ->
    exists out s', lzma2_iter s len = Ok (out, s') /\
      ((rem = [] /\ out = [] /\ Ended tail s') \/
       ((st = true -> out <> []) /\ zlen out <= len /\ exists rem', rem = out ++ rem' /\ Inv true s' rem')).
  Proof.
    intros [(r & h & bytes & Hck & Hb & Hin & Hrem) | [H | H]] Hlen; rewrite lzma2_iter_eq.
    - pose proof Hb as (Hus & _). rewrite Hus. change (0 =? 0) with true. cbv iota.
      destruct (header_ok st r h bytes Hck s Hb Hin) as (s1 & Hhdr & [(He1 & Her1 & Hin1 & Hd1) | (He1 & Hbody)]);
        rewrite Hhdr; cbn [obind]; rewrite He1.
      + exists [], s1. split; [reflexivity|]. left. split; [congruence|]. split; [reflexivity|].
        split; [exact He1|]. split; assumption.
      + subst rem. destruct Hbody as [Hbody | Hbody].
        * destruct (body_unc st s1 _ len Hbody Hlen) as (out & s' & H1 & H2 & H3 & H4).
          exists out, s'. split; [exact H1|]. right. auto.
        * destruct (body_lzma st s1 _ len Hbody Hlen) as (out & s' & H1 & H2 & H3 & H4).
          exists out, s'. split; [exact H1|]. right. auto.
    - pose proof H as (r & h & u & bytes & hist & Hu & _ & Hus & _ & Hend & _).
      rewrite Hus. destruct (Z.eqb_spec u 0) as [X|_]; [lia|]. cbn [obind]. rewrite Hend.
      destruct (body_unc st s rem len H Hlen) as (out & s' & H1 & H2 & H3 & H4).
      exists out, s'. split; [exact H1|]. right. auto.
    - pose proof H as (E & t0 & done & rest & c & hist & se & h' & bytes & u & Hu & Hus & _ & Hend & _).
      rewrite Hus. destruct (Z.eqb_spec u 0) as [X|_]; [lia|]. cbn [obind]. rewrite Hend.
      destruct (body_lzma st s rem len H Hlen) as (out & s' & H1 & H2 & H3 & H4).
      exists out, s'. split; [exact H1|]. right. auto.
  Qed.

  Lemma iter_step s rem len : Inv true s rem -> 0 < len ->
    exists out s', lzma2_iter s len = Ok (out, s') /\
      ((rem = [] /\ out = [] /\ Ended tail s') \/
       (out <> [] /\ zlen out <= len /\ exists rem', rem = out ++ rem' /\ Inv true s' rem')).
  Proof.
    intros HI Hlen. destruct (iter_step_gen true s rem len HI Hlen) as (out & s' & H1 & [H2 | (H2 & H3)]).
    - exists out, s'. split; [exact H1|]. left. exact H2.
    - exists out, s'. split; [exact H1|]. right. split; [apply H2; reflexivity | exact H3].
  Qed.

  Lemma iter_step0 st s rem len : Inv st s rem -> 0 < len ->
    exists out s', lzma2_iter s len = Ok (out, s') /\
      ((rem = [] /\ out = [] /\ Ended tail s') \/
       (zlen out <= len /\ exists rem', rem = out ++ rem' /\ Inv true s' rem')).
  Proof.
    intros HI Hlen. destruct (iter_step_gen st s rem len HI Hlen) as (out & s' & H1 & [H2 | (_ & H3)]).
    - exists out, s'. split; [exact H1|]. left. exact H2.
    - exists out, s'. split; [exact H1|]. right. exact H3.
  Qed.

  (* ---- every read history of a well-formed chunk sequence -------------------------------------- *)
  Theorem read_chunks st r h bytes s sizes fuel :
    chunks_ok lc lp pb r h bytes -> at_boundary st r h s -> m_in s = bytes ++ tail ->
    Forall (fun z => 0 < z) sizes -> (length (data_from h) + 2 <= fuel)%nat ->
    exists s_end, lzma2_read_all fuel s sizes sizes [] = Ok (data_from h, 0, s_end) /\ m_in s_end = tail.
  Proof.
    intros Hck Hb Hin Hsz Hf.
    assert (HI : Inv st s (data_from h)) by (left; exists r, h, bytes; auto).
    destruct (read_all_ok0 (Inv true) (Inv st) tail (Inv_live true) iter_step (Inv_live st) (iter_step0 st)
                fuel s (data_from h) sizes sizes [] HI Hsz Hsz Hf) as (s_end & Hr & (_ & _ & Ht)).
    exists s_end. split; [exact Hr | exact Ht].
  Qed.

End Reader.

(* ---------------------------------------------------------------------------------------------
   The round trip: LZMA2 writer model, then LZMA2 reader model, any buffer sizes *)
From LzVerif Require Import Codec.Lzma2FrameSyncProofs.

Lemma aset_list_other l : forall t i j, 0 <= j < i -> aget 0 (aset_list t i l) j = aget 0 t j.
Proof.
  induction l as [|x r IH]; intros t i j Hj; cbn [aset_list]; [reflexivity|].
  rewrite IH by lia. apply agso; lia.
Qed.

Lemma aget_list_aset_list l : forall t i, 0 <= i -> aget_list (aset_list t i l) i (length l) = l.
Proof.
  induction l as [|x r IH]; intros t i Hi; cbn [aset_list aget_list length]; [reflexivity|].
  rewrite aset_list_other by lia. rewrite agss. f_equal. apply IH. lia.
Qed.

Lemma preset_kept_nil dict : preset_kept dict [] = [].
Proof. unfold preset_kept, lastn. apply skipn_nil. Qed.

Lemma data_from_new dict data : data_from (ehist_new dict [] data) = data.
Proof.
  unfold ehist_new. rewrite preset_kept_nil. cbn [app]. unfold data_from. cbn [h_data h_pos h_total].
  change (zlen (@nil Z)) with 0. replace (Z.to_nat (0 + zlen data - 0)) with (length data) by (unfold zlen; lia).
  unfold array_of_list. apply aget_list_aset_list. lia.
Qed.

(* LZMA2Reader::new: the window size the reader allocates *)
Definition l2_window_size (dict : Z) : Z := (Z.min (Z.max dict 4096) 4294967280 + 15) / 16 * 16.

Theorem lzma2_roundtrip : forall lc lp pb dict data evs stream tail sizes,
  0 <= lc -> 0 <= lp -> lc + lp <= 4 -> 0 <= pb <= 4 -> dict <= 2147483648 ->
  bytes_ok data = true ->
  l2_no_end evs ->
  lzma2_write lc lp pb dict None data evs = Ok stream ->
  Forall (fun z => 0 < z) sizes ->
  exists s0, lzma2_new (stream ++ tail) dict None = Ok s0 /\
    forall fuel, (length data + 2 <= fuel)%nat ->
    exists s_end, lzma2_read_all fuel s0 sizes sizes [] = Ok (data, 0, s_end) /\ m_in s_end = tail.
Proof.
  intros lc lp pb dict data evs stream tail sizes Hlc Hlp Hs Hpb Hdict Hbytes Hne Hw Hsizes.
  pose proof (lzma2_frame_sync lc lp pb dict None data evs stream Hdict Hne Hw) as Hck.
  cbn [start_level preset_list] in Hck.
  unfold lzma2_new, lzma2_get_dict_size. cbn [obind]. fold (l2_window_size dict).
  eexists. split; [reflexivity|]. intros fuel Hf.
  set (h0 := ehist_new dict [] data) in *.
  assert (Hws : 0 < l2_window_size dict /\ l2_window_size dict mod 16 = 0 /\ dict <= l2_window_size dict)
    by (unfold l2_window_size; lia).
  destruct Hws as (Hws1 & Hws2 & Hws3).
  assert (Hdata : forall i, 0 <= aget 0 (h_data h0) i < 256).
  { intros i. apply (data_ok_new dict [] data eq_refl Hbytes i). }
  match goal with |- exists s_end, lzma2_read_all _ ?s0 _ _ _ = _ /\ _ =>
    destruct (read_chunks lc lp pb dict (l2_window_size dict) tail (h_data h0) (h_total h0) Hlc Hlp Hs Hpb Hdict
                Hws3 Hws1 Hws2 Hdata true RDict h0 stream s0 sizes fuel Hck) as (s_end & Hr & Ht)
  end.
  - (* the initial reader state is at a chunk boundary needing a dictionary reset *)
    unfold at_boundary. msimpl.
    split; [reflexivity|]. split; [reflexivity|]. split; [reflexivity|]. split; [reflexivity|].
    split; [split; [exact I|]; split; intros _; reflexivity|].
    split; [|unfold hfix; repeat split; reflexivity].
    unfold sync_win, lzwin_new. cbn [w_size w_pending_len].
    split; [reflexivity|]. split; [reflexivity|].
    unfold h0, ehist_new. rewrite preset_kept_nil. cbn [h_base h_pos]. split; [reflexivity | lia].
  - reflexivity.
  - exact Hsizes.
  - unfold h0. rewrite (data_from_new dict data). exact Hf.
  - exists s_end. unfold h0 in Hr. rewrite (data_from_new dict data) in Hr. split; assumption.
Qed.

Print Assumptions lzma2_roundtrip.

(* ---------------------------------------------------------------------------------------------
   With a (non-empty) preset dictionary of any length; a preset that fills the window makes the
   first loop iteration of the reader return no bytes (the flush only wraps the write position):
   Lzma2Loop0Proofs.v.  Not proved: a preset LONGER than a dictionary size that the reader rounds
   up (dict < 4096 or not a multiple of 16): the reader then keeps more of the preset than the
   writer model's view has, the positions differ by a constant, and the two runs are isomorphic
   (position-dependent contexts are renamed consistently) but not equal.  The EMPTY preset
   is refuted in Lzma2ExamplesProofs.v (lzma2_empty_preset_refuted). *)
Lemma aset_list_app a : forall b t i, aset_list t i (a ++ b) = aset_list (aset_list t i a) (i + zlen a) b.
Proof.
  induction a as [|x r IH]; intros b t i; cbn [app aset_list].
  - change (zlen (@nil Z)) with 0. f_equal. lia.
  - rewrite IH, zlen_cons. f_equal. lia.
Qed.

Lemma aget_list_aset_list_prefix a : forall b t i, 0 <= i ->
  aget_list (aset_list t i (a ++ b)) i (length a) = a.
Proof.
  induction a as [|x r IH]; intros b t i Hi; cbn [app aset_list aget_list length]; [reflexivity|].
  rewrite aset_list_other by lia. rewrite agss. f_equal. apply IH. lia.
Qed.

Lemma Rel_same_cells w w' hist : Rel w hist ->
  w_buf w' = w_buf w -> w_size w' = w_size w -> w_pos w' = w_pos w -> w_full w' = w_full w ->
  w_limit w' = w_limit w -> w_pending_len w' = w_pending_len w -> 0 <= w_start w' <= w_pos w' ->
  Rel w' hist.
Proof.
  intros [A B C D E F G H] Hb Hs Hp Hf Hl Hpl Hst.
  constructor; unfold bget, widx in *; rewrite ?Hb, ?Hs, ?Hp, ?Hf, ?Hl, ?Hpl; auto.
  rewrite Hp in Hst. lia.
Qed.

Lemma zlen_lastn {A} (l : list A) n : 0 <= n <= zlen l -> zlen (lastn (Z.to_nat n) l) = n.
Proof. intros H. unfold lastn, zlen in *. rewrite skipn_length. lia. Qed.

Lemma lzwin_new_preset_rel ds p : 0 < ds -> ds mod 16 = 0 ->
  Rel (lzwin_new ds (Some p)) (rev (lastn (Z.to_nat (Z.min (zlen p) ds)) p)).
Proof.
  intros Hs H16. set (n := Z.min (zlen p) ds). set (kept := lastn (Z.to_nat n) p).
  pose proof (zlen_nonneg p) as Hp.
  assert (Hk : zlen kept = n) by (apply zlen_lastn; unfold n; lia).
  pose proof (put_list_rel kept (lzwin_new ds None) [] (lzwin_new_rel ds Hs H16)) as HR.
  cbn [lzwin_new w_buf w_size w_start w_pos w_full w_limit w_pending_len w_pending_dist] in HR.
  rewrite Hk, app_nil_r in HR. specialize (HR ltac:(unfold n; lia)).
  eapply Rel_same_cells; [exact HR|..]; unfold lzwin_new; fold n; fold kept;
    cbn [w_buf w_size w_start w_pos w_full w_limit w_pending_len]; try reflexivity; unfold n; lia.
Qed.

Lemma ehist_new_rel dict p data :
  hist_rel (ehist_new dict p data) (rev (preset_kept dict p)) /\ data_from (ehist_new dict p data) = data.
Proof.
  unfold ehist_new. set (kept := preset_kept dict p).
  set (h0 := mkEhist (array_of_list (kept ++ data)) (zlen kept + zlen data) 0 (zlen kept) dict).
  split.
  - assert (H0 : hist_rel (h_at h0 0) []).
    { unfold hist_rel, h_at, h0. cbn [h_pos h_base]. change (zlen (@nil Z)) with 0.
      split; [lia|]. split; [lia|]. intros d Hd. lia. }
    pose proof (hist_rel_stored (length kept) _ _ H0) as H1.
    rewrite h_at_at, app_nil_r in H1. cbn [h_at h_pos h_data] in H1.
    unfold h0 in H1 at 2. cbn [h_data] in H1. unfold array_of_list in H1.
    rewrite aget_list_aset_list_prefix in H1 by lia.
    replace (0 + Z.of_nat (length kept)) with (h_pos h0) in H1 by (unfold h0, zlen; cbn [h_pos]; lia).
    rewrite h_at_pos in H1. exact H1.
  - unfold data_from, h0. cbn [h_data h_pos h_total]. unfold array_of_list.
    rewrite aset_list_app. replace (Z.to_nat (zlen kept + zlen data - zlen kept)) with (length data) by (unfold zlen; lia).
    apply aget_list_aset_list. pose proof (zlen_nonneg kept). lia.
Qed.

Theorem lzma2_roundtrip_preset : forall lc lp pb dict p data evs stream tail sizes,
  0 <= lc -> 0 <= lp -> lc + lp <= 4 -> 0 <= pb <= 4 -> dict <= 2147483648 ->
  p <> [] -> (zlen p <= dict \/ l2_window_size dict = dict) ->
  bytes_ok p = true -> bytes_ok data = true ->
  l2_no_end evs ->
  lzma2_write lc lp pb dict (Some p) data evs = Ok stream ->
  Forall (fun z => 0 < z) sizes ->
  exists s0, lzma2_new (stream ++ tail) dict (Some p) = Ok s0 /\
    forall fuel, (length data + 2 <= fuel)%nat ->
    exists s_end, lzma2_read_all fuel s0 sizes sizes [] = Ok (data, 0, s_end) /\ m_in s_end = tail.
Proof.
  intros lc lp pb dict p data evs stream tail sizes Hlc Hlp Hs Hpb Hdict Hpne Hplen Hpb' Hbytes Hne Hw Hsizes.
  pose proof (lzma2_frame_sync lc lp pb dict (Some p) data evs stream Hdict Hne Hw) as Hck.
  cbn [start_level preset_list] in Hck.
  assert (Hlvl : match p with [] => RDict | _ :: _ => RProps end = RProps) by (destruct p; [congruence | reflexivity]).
  rewrite Hlvl in Hck. clear Hlvl.
  unfold lzma2_new, lzma2_get_dict_size. cbn [obind]. fold (l2_window_size dict).
  eexists. split; [reflexivity|]. intros fuel Hf.
  set (h0 := ehist_new dict p data) in *.
  destruct (ehist_new_rel dict p data) as (Hhr & Hdf). fold h0 in Hhr, Hdf.
  assert (Hws : 0 < l2_window_size dict /\ l2_window_size dict mod 16 = 0 /\ dict <= l2_window_size dict)
    by (unfold l2_window_size; lia).
  destruct Hws as (Hws1 & Hws2 & Hws3).
  assert (Hdata : forall i, 0 <= aget 0 (h_data h0) i < 256).
  { intros i. apply (data_ok_new dict p data Hpb' Hbytes i). }
  assert (Hhas : match p with _ :: _ => true | [] => false end = true) by (destruct p; [congruence | reflexivity]).
  pose proof (zlen_nonneg p) as Hpz.
  match goal with |- exists s_end, lzma2_read_all _ ?s0 _ _ _ = _ /\ _ =>
    destruct (read_chunks lc lp pb dict (l2_window_size dict) tail (h_data h0) (h_total h0) Hlc Hlp Hs Hpb Hdict
                Hws3 Hws1 Hws2 Hdata false RProps h0 stream s0 sizes fuel Hck) as (s_end & Hr & Ht)
  end.
  - unfold at_boundary. msimpl. rewrite Hhas. cbn [negb].
    split; [reflexivity|]. split; [reflexivity|]. split; [reflexivity|]. split; [reflexivity|].
    split; [split; [exact I|]; split; [intros _; reflexivity | intros X; discriminate X]|].
    split; [|unfold hfix; repeat split; reflexivity].
    unfold sync_win. split; [reflexivity|]. split; [reflexivity|].
    exists (rev (preset_kept dict p)). split; [|exact Hhr].
    unfold win_ok. split.
    + unfold preset_kept. replace (Z.min (zlen p) dict) with (Z.min (zlen p) (l2_window_size dict)) by lia.
      apply lzwin_new_preset_rel; assumption.
    + unfold lzwin_new. cbn [w_size w_start w_pos]. split; [reflexivity|]. split; [reflexivity|].
      intros X; discriminate X.
  - reflexivity.
  - exact Hsizes.
  - rewrite Hdf. exact Hf.
  - exists s_end. rewrite Hdf in Hr. split; assumption.
Qed.

Print Assumptions lzma2_roundtrip_preset.
