(* Codec/Lzma2ReadProofs.v — the LZMA2 reader model decodes every well-formed chunk sequence
   ([chunks_ok], Lzma2SpecProofs.v) into the data it describes, for every sequence of destination
   buffer sizes; together with Lzma2FrameSyncProofs.v (the writer model only writes such
   sequences) this is the LZMA2 round trip at the level of the writer and reader models. *)
From LzVerif Require Import Base.Bytes Codec.Store Codec.Range Codec.ProbProofs Codec.LzWindow Codec.LzmaDec
  Codec.LzmaEnc Codec.LzmaAbs Codec.LzWindowProofs Codec.ProgProofs Codec.LzmaAbsProofs
  Codec.RangeEncProofs Codec.RangeDecProofs Codec.RangeProofs Codec.LzmaSymProofs Codec.LzmaRoundtrip
  Codec.LzmaWriters Codec.LzmaChunkProofs Codec.LzmaReadProofs Codec.Lzma2Dec Codec.Lzma2FrameProofs
  Codec.Lzma2SpecProofs Codec.Lzma2WindowProofs Codec.Lzma2BitsProofs Codec.Lzma2ReadAuxProofs
  Codec.Lzma2LoopProofs.
Ltac Zify.zify_post_hook ::= Z.div_mod_to_equations.

Ltac msimpl :=
  cbn [m_in m_win m_rc m_probs m_coder m_uncompressed_size m_is_lzma_chunk m_need_dict_reset m_need_props
       m_end_reached m_error].
Ltac msimpl_in H :=
  cbn [m_in m_win m_rc m_probs m_coder m_uncompressed_size m_is_lzma_chunk m_need_dict_reset m_need_props
       m_end_reached m_error] in H.

(* the part of lzma2_iter after the chunk header *)
Definition iter_body (s1 : lzma2) (len : Z) : outcome (list Z * lzma2) :=
  let copy_size_max := Z.min (m_uncompressed_size s1) len in
  do s2 <-
    (if negb (m_is_lzma_chunk s1) then
       do wi <- lzwin_copy_uncompressed (m_win s1) (m_in s1) copy_size_max;
       let '(w, input) := wi in
       Ok (mkLzma2 input w (m_rc s1) (m_probs s1) (m_coder s1) (m_uncompressed_size s1) (m_is_lzma_chunk s1)
                   (m_need_dict_reset s1) (m_need_props s1) (m_end_reached s1) (m_error s1))
     else
       let w := lzwin_set_limit (m_win s1) copy_size_max in
       match m_coder s1 with
       | None => Ok (mkLzma2 (m_in s1) w (m_rc s1) (m_probs s1) None (m_uncompressed_size s1) true
                             (m_need_dict_reset s1) (m_need_props s1) (m_end_reached s1) (m_error s1))
       | Some c =>
           do r <- lzma_decode c w (m_rc s1) (m_probs s1);
           let '(c1, w1, status, d1, t1) := r in
           match status with
           | Ok _ => Ok (mkLzma2 (m_in s1) w1 d1 t1 (Some c1) (m_uncompressed_size s1) true
                                 (m_need_dict_reset s1) (m_need_props s1) (m_end_reached s1) (m_error s1))
           | Err e => Err e
           | Panic e => Panic e
           | Fuel => Fuel
           end
       end);
  let '(out, w3) := lzwin_flush (m_win s2) in
  let copied := zlen out in
  let usize := m_uncompressed_size s2 - copied in
  if usize <? 0 then Panic 51 else
  let s3 := mkLzma2 (m_in s2) w3 (m_rc s2) (m_probs s2) (m_coder s2) usize (m_is_lzma_chunk s2)
                    (m_need_dict_reset s2) (m_need_props s2) (m_end_reached s2) (m_error s2) in
  if (usize =? 0) && (negb (rdec_is_finished (m_rc s3)) || lzwin_has_pending w3) then Err E_INVALID_INPUT
  else Ok (out, s3).

Lemma lzma2_iter_eq s len :
  lzma2_iter s len =
  do s1 <- (if m_uncompressed_size s =? 0 then lzma2_chunk_header s else Ok s);
  if m_end_reached s1 then Ok ([], s1) else iter_body s1 len.
Proof. reflexivity. Qed.

Lemma coder_ok_new lc lp pb full : 0 <= lc -> 0 <= lp -> lc + lp <= 4 -> 0 <= pb <= 4 ->
  coder_ok (coder_new lc lp pb) full.
Proof.
  intros Hlc Hlp Hs Hpb. unfold coder_ok, params_ok, reps_nonneg, coder_new.
  cbn [c_lc c_lp c_pb c_state c_rep0 c_rep1 c_rep2 c_rep3].
  repeat split; try lia. intros H. discriminate H.
Qed.

Section Reader.
  Variables lc lp pb dict : Z.
  Variable tail : list Z.
  Variable D0 : ptree.       (* the data as an array, and its length: fixed along the stream *)
  Variable T0 : Z.
  Hypothesis Hlc : 0 <= lc.
  Hypothesis Hlp : 0 <= lp.
  Hypothesis Hlclp : lc + lp <= 4.
  Hypothesis Hpb : 0 <= pb <= 4.
  Hypothesis Hdict : 0 < dict <= 2147483648.
  Hypothesis Hdict16 : dict mod 16 = 0.
  Hypothesis Hdata : forall i, 0 <= aget 0 D0 i < 256.

  Definition hfix (h : ehist) : Prop := h_data h = D0 /\ h_total h = T0 /\ h_dict h = dict.

  (* what the reader's coder / tables / flags must be for a chunk sequence at level r *)
  Definition sync_coder (r : rlevel) (co : option coder) (t : probs) (np nd : bool) (full : Z) : Prop :=
    match r with
    | RNone c t' => co = Some c /\ t = t' /\ coder_params c lc lp pb /\ probs_ok t' /\ coder_ok c full
    | RState => exists c, co = Some c /\ coder_params c lc lp pb
    | _ => True
    end /\ (np = true -> has_props r = true) /\ (nd = true -> r = RDict).

  (* a flushed window holding the history *)
  Definition win_ok (w : lzwin) (hist : list Z) : Prop :=
    Rel w hist /\ w_size w = dict /\ w_start w = w_pos w /\ w_pos w < w_size w.

  Definition sync_win (r : rlevel) (h : ehist) (w : lzwin) : Prop :=
    w_size w = dict /\ w_pending_len w = 0 /\
    match r with
    | RDict => h_base h = h_pos h /\ 0 <= h_base h
    | _ => exists hist, win_ok w hist /\ hist_rel h hist
    end.

  Definition at_boundary (r : rlevel) (h : ehist) (s : lzma2) : Prop :=
    m_uncompressed_size s = 0 /\ m_end_reached s = false /\ m_error s = None /\
    rdec_is_finished (m_rc s) = true /\
    sync_coder r (m_coder s) (m_probs s) (m_need_props s) (m_need_dict_reset s) (w_full (m_win s)) /\
    sync_win r h (m_win s) /\ hfix h.

  (* inside a stored chunk: u bytes still to copy *)
  Definition in_unc (s : lzma2) (rem : list Z) : Prop :=
    exists r h u bytes hist,
      0 < u /\ h_pos h + u <= T0 /\ m_uncompressed_size s = u /\ m_is_lzma_chunk s = false /\
      m_end_reached s = false /\ m_error s = None /\ rdec_is_finished (m_rc s) = true /\
      (r = RState \/ r = RProps) /\
      sync_coder r (m_coder s) (m_probs s) (m_need_props s) (m_need_dict_reset s) 0 /\
      win_ok (m_win s) hist /\ w_pending_len (m_win s) = 0 /\ hist_rel h hist /\ hfix h /\
      chunks_ok lc lp pb r (h_at h (h_pos h + u)) bytes /\
      m_in s = aget_list D0 (h_pos h) (Z.to_nat u) ++ bytes ++ tail /\ rem = data_from h.

  (* inside an LZMA chunk: u bytes still to decode from the decisions [rest] *)
  Definition in_lzma (s : lzma2) (rem : list Z) : Prop :=
    exists E t0 done rest c hist s_end h' bytes u,
      0 < u /\ m_uncompressed_size s = u /\ m_is_lzma_chunk s = true /\
      m_end_reached s = false /\ m_error s = None /\
      m_need_props s = false /\ m_need_dict_reset s = false /\
      m_coder s = Some c /\ win_ok (m_win s) hist /\ coder_ok c (w_full (m_win s)) /\
      (0 < w_pending_len (m_win s) -> 0 <= w_pending_dist (m_win s) < w_full (m_win s)) /\
      E = done ++ rest /\ rc_sim E t0 [] done (m_rc s) (m_probs s) /\
      run_trace (aproduce (Z.to_nat u)
                   (mkAstate c hist dict (w_pending_len (m_win s)) (w_pending_dist (m_win s)))) rest
        = Some (Ok (s_end, Ok tt), []) /\
      a_pend_len s_end = 0 /\ hist_rel h' (a_hist s_end) /\ hfix h' /\ coder_params (a_coder s_end) lc lp pb /\
      chunks_ok lc lp pb (RNone (a_coder s_end) (snd (renc_events renc_init t0 E))) h' bytes /\
      m_in s = bytes ++ tail /\
      rem = rev (firstn (Z.to_nat u) (a_hist s_end)) ++ data_from h'.

  Definition Inv (s : lzma2) (rem : list Z) : Prop :=
    (exists r h bytes, chunks_ok lc lp pb r h bytes /\ at_boundary r h s /\ m_in s = bytes ++ tail /\
                       rem = data_from h) \/
    in_unc s rem \/ in_lzma s rem.

  Lemma Inv_live s rem : Inv s rem -> m_end_reached s = false /\ m_error s = None.
  Proof.
    intros [(r & h & bytes & _ & (_ & He & Hr & _) & _) | [H | H]].
    - split; assumption.
    - destruct H as (r & h & u & bytes & hist & _ & _ & _ & _ & He & Hr & _). split; assumption.
    - destruct H as (E & t0 & done & rest & c & hist & se & h' & bytes & u & _ & _ & _ & He & Hr & _).
      split; assumption.
  Qed.

  Lemma sync_coder_full r co t np nd f1 f2 : (r = RState \/ r = RProps) ->
    sync_coder r co t np nd f1 -> sync_coder r co t np nd f2.
  Proof. intros [-> | ->] H; exact H. Qed.

  (* ---- a stored chunk: one copy step ---------------------------------------------------------- *)
  Lemma body_unc s rem len : in_unc s rem -> 0 < len ->
    exists out s', iter_body s len = Ok (out, s') /\ out <> [] /\ zlen out <= len /\
      exists rem', rem = out ++ rem' /\ Inv s' rem'.
  Proof.
    intros (r & h & u & bytes & hist & Hu & Hut & Hus & Hlz & Hend & Herr & Hfin & Hr & Hsc & Hw & Hpl & Hhr &
            Hfx & Hck & Hin & Hrem) Hlen.
    destruct Hw as (R & Hsz & Hst & Hps). destruct Hfx as (Hd & Ht & Hdi).
    unfold iter_body. rewrite Hlz, Hus. cbn [negb].
    set (m := Z.min u len).
    set (n := Z.min (w_size (m_win s) - w_pos (m_win s)) m).
    assert (Hn : 1 <= n <= u) by (unfold n, m; lia).
    assert (Hlin : (Z.to_nat n <= length (m_in s))%nat).
    { rewrite Hin, app_length, aget_list_length. lia. }
    destruct (copy_uncompressed_rel (m_win s) hist (m_in s) m R ltac:(unfold m; lia) Hlin)
      as (w' & Hcp & R' & Hsz' & Hst' & Hps' & Hpl' & Hpd').
    fold n in Hcp, R', Hps'. rewrite Hcp. cbn [obind]. msimpl.
    (* what was copied *)
    assert (Hfirst : firstn (Z.to_nat n) (m_in s) = aget_list D0 (h_pos h) (Z.to_nat n)).
    { rewrite Hin, (aget_list_split D0 (h_pos h) u n) by lia. rewrite <- app_assoc.
      apply firstn_app_exact. rewrite aget_list_length. reflexivity. }
    assert (Hskip : skipn (Z.to_nat n) (m_in s) = aget_list D0 (h_pos h + n) (Z.to_nat (u - n)) ++ bytes ++ tail).
    { rewrite Hin, (aget_list_split D0 (h_pos h) u n) by lia. rewrite <- app_assoc.
      apply skipn_app_exact. rewrite aget_list_length. reflexivity. }
    rewrite Hfirst in R'. set (l := aget_list D0 (h_pos h) (Z.to_nat n)) in *.
    pose proof (flush_rel w' _ R') as HF. pose proof (flush_facts w') as (Hff & Hfp & _).
    destruct (lzwin_flush w') as [out w3]. cbn [fst snd] in Hff, Hfp.
    destruct HF as (Hout & R3 & Hst3 & Hsz3 & _ & Hpl3 & _).
    assert (Hout' : out = l).
    { rewrite Hout. replace (Z.to_nat (w_pos w' - w_start w')) with (length (rev l)).
      - rewrite firstn_app_exact by reflexivity. apply rev_involutive.
      - rewrite rev_length. unfold l. rewrite aget_list_length. lia. }
    assert (Hzo : zlen out = n) by (rewrite Hout'; unfold l; rewrite zlen_aget_list; lia).
    rewrite Hzo.
    destruct (Z.ltb_spec (u - n) 0) as [Hbad|_]; [lia|].
    msimpl. rewrite Hfin. cbn [negb orb].
    unfold lzwin_has_pending. rewrite Hpl3, Hpl', Hpl. change (0 <? 0) with false. rewrite andb_false_r.
    eexists out, _. split; [reflexivity|].
    split; [intros X; rewrite X in Hzo; unfold zlen in Hzo; cbn [length] in Hzo; lia|].
    split; [unfold n, m in Hzo |- *; lia|].
    exists (data_from (h_at h (h_pos h + n))).
    split.
    { rewrite Hrem, Hout'. unfold l. rewrite <- Hd. apply data_from_split. lia. }
    (* the new state *)
    assert (Hw3 : win_ok w3 (rev l ++ hist)).
    { split; [exact R3|]. split; [lia|]. split; [exact Hst3|]. rewrite Hsz3. apply Hfp; lia. }
    assert (Hhr3 : hist_rel (h_at h (h_pos h + n)) (rev l ++ hist)).
    { unfold l. rewrite <- Hd. replace n with (Z.of_nat (Z.to_nat n)) at 1 by lia. apply hist_rel_stored. exact Hhr. }
    assert (Hfx3 : hfix (h_at h (h_pos h + n))) by (unfold hfix, h_at; cbn; auto).
    destruct (Z.eq_dec (u - n) 0) as [Hz|Hnz].
    - (* the chunk is complete: back at a boundary *)
      left. exists r, (h_at h (h_pos h + n)), bytes.
      replace (h_pos h + u) with (h_pos h + n) in Hck by lia.
      split; [exact Hck|]. split.
      + unfold at_boundary. msimpl.
        split; [exact Hz|]. split; [exact Hend|]. split; [exact Herr|]. split; [exact Hfin|].
        split; [eapply sync_coder_full; eassumption|].
        split; [|exact Hfx3].
        unfold sync_win. split; [lia|]. split; [lia|].
        destruct Hr as [-> | ->]; exists (rev l ++ hist); split; assumption.
      + split; [|reflexivity]. rewrite Hskip, Hz. reflexivity.
    - right. left. exists r, (h_at h (h_pos h + n)), (u - n), bytes, (rev l ++ hist). msimpl.
      cbn [h_at h_pos].
      split; [lia|]. split; [lia|]. split; [reflexivity|]. split; [reflexivity|]. split; [exact Hend|].
      split; [exact Herr|]. split; [exact Hfin|]. split; [exact Hr|]. split; [exact Hsc|].
      split; [exact Hw3|]. split; [lia|]. split; [exact Hhr3|]. split; [exact Hfx3|].
      split; [|split; [exact Hskip | reflexivity]].
      rewrite h_at_at. replace (h_pos h + n + (u - n)) with (h_pos h + u) by lia. exact Hck.
  Qed.

  (* ---- an LZMA chunk: one decode call with whatever budget the buffers allow ------------------- *)
  Lemma body_lzma s rem len : in_lzma s rem -> 0 < len ->
    exists out s', iter_body s len = Ok (out, s') /\ out <> [] /\ zlen out <= len /\
      exists rem', rem = out ++ rem' /\ Inv s' rem'.
  Proof.
    intros (E & t0 & done & rest & c & hist & se & h' & bytes & u & Hu & Hus & Hlz & Hend & Herr & Hnp & Hnd &
            Hco & Hw & Hcok & Hpd & HE & Hsim & Hrun & Hpe & Hhr & Hfx & Hcp & Hck & Hin & Hrem) Hlen.
    destruct Hw as (R & Hsz & Hst & Hps).
    unfold iter_body. rewrite Hlz, Hus, Hco. cbn [negb].
    set (m := Z.min u len).
    set (wl := lzwin_set_limit (m_win s) m).
    destruct (set_limit_rel (m_win s) hist m R ltac:(unfold m; lia)) as (Rl & Hpl).
    fold wl in Rl, Hpl.
    assert (Hwl : w_limit wl = Z.min (m + w_pos (m_win s)) (w_size (m_win s))) by reflexivity.
    assert (Hwl1 : w_size wl = w_size (m_win s)) by reflexivity.
    assert (Hwl2 : w_pos wl = w_pos (m_win s)) by reflexivity.
    assert (Hwl3 : w_full wl = w_full (m_win s)) by reflexivity.
    assert (Hwl4 : w_start wl = w_start (m_win s)) by reflexivity.
    assert (Hwl5 : w_pending_len wl = w_pending_len (m_win s)) by reflexivity.
    assert (Hwl6 : w_pending_dist wl = w_pending_dist (m_win s)) by reflexivity.
    set (b := w_limit wl - w_pos wl).
    assert (Hb : 1 <= b <= u) by (unfold b; rewrite Hwl, Hwl2; unfold m; lia).
    assert (Hblen : b <= len) by (unfold b; rewrite Hwl, Hwl2; unfold m; lia).
    assert (Hwf : Forall ev_wf rest).
    { destruct Hsim as (_ & Hok & _). apply forall_ev_wf in Hok. rewrite HE in Hok. eapply Forall_app_r; exact Hok. }
    replace (Z.to_nat u) with (Z.to_nat b + Z.to_nat (u - b))%nat in Hrun by lia.
    destruct (trace_prefix_ok _ _ _ _ _ _ Hwf Hrun) as (s1 & r1 & Hrun1 & Hrun2).
    assert (Hwf1 : Forall ev_wf r1) by (eapply run_trace_rest_wf; eassumption).
    destruct (decode_call_sim_norm E t0 [] done rest c wl hist (m_rc s) (m_probs s) (Z.to_nat b) s1 r1 Hsim HE Rl)
      as (w1 & d1 & t1 & evs1 & Hrest & Hdec & Hsim1 & Hnorm & Hloop).
    { rewrite Hwl3; exact Hcok. }
    { exact Hpl. }
    { unfold b in *; lia. }
    { rewrite Hwl5, Hwl6, Hwl3. exact Hpd. }
    { rewrite Hwl1, Hwl5, Hwl6, Hsz. exact Hrun1. }
    rewrite Hdec. cbn [obind]. msimpl.
    unfold loop_rel in Hloop.
    destruct Hloop as (_ & _ & R1 & Hd1 & Hsz1 & Hli1 & Hst1 & Hpos1 & Hzl1 & Hpl1 & Hok1 & Hpd1).
    destruct (Hok1 eq_refl) as (Hcok1 & _). clear Hok1.
    (* how the histories grow *)
    pose proof (run_trace_pall _ _ _ _ _ (aproduce_grows (Z.to_nat b) _) Hwf Hrun1) as (_ & Hg1 & _).
    cbn [fst snd a_hist] in Hg1. destruct (Hg1 eq_refl) as (new1 & Hh1 & Hl1). clear Hg1.
    pose proof (run_trace_pall _ _ _ _ _ (aproduce_grows (Z.to_nat (u - b)) _) Hwf1 Hrun2) as (_ & Hg2 & _).
    cbn [fst snd] in Hg2. destruct (Hg2 eq_refl) as (new2 & Hh2 & Hl2). clear Hg2.
    assert (Hadv : w_pos w1 - w_pos wl = b).
    { rewrite Hh1, zlen_app in Hzl1. unfold zlen in Hzl1 at 1. lia. }
    (* the flush *)
    pose proof (flush_rel w1 _ R1) as HF. pose proof (flush_facts w1) as (Hff & Hfp & _).
    destruct (lzwin_flush w1) as [out w3]. cbn [fst snd] in Hff, Hfp.
    destruct HF as (Hout & R3 & Hst3 & Hsz3 & _ & Hpl3 & Hpd3).
    assert (Hout' : out = rev new1).
    { rewrite Hout. f_equal. rewrite Hh1. apply firstn_app_exact. lia. }
    assert (Hzo : zlen out = b) by (rewrite Hout'; unfold zlen; rewrite rev_length; lia).
    rewrite Hzo.
    destruct (Z.ltb_spec (u - b) 0) as [Hbad|_]; [lia|].
    msimpl.
    assert (Hw3 : win_ok w3 (a_hist s1)).
    { split; [exact R3|]. split; [lia|]. split; [exact Hst3|]. rewrite Hsz3. apply Hfp; [lia|].
      destruct R1 as [_ [_ X] _ _ _ _ _ _]. exact X. }
    assert (Hrem1 : rem = out ++ rev new2 ++ data_from h').
    { rewrite Hrem, Hout'. rewrite Hh2, Hh1, app_assoc.
      rewrite firstn_app_exact by (rewrite app_length; lia).
      rewrite rev_app_distr, <- app_assoc. reflexivity. }
    assert (Hne : out <> []).
    { intros X; rewrite X in Hzo; unfold zlen in Hzo; cbn [length] in Hzo; lia. }
    destruct (Z.eqb_spec (u - b) 0) as [Hz|Hnz].
    - (* the chunk is complete *)
      rewrite Hz in Hrun2. cbn [Z.to_nat aproduce run_trace] in Hrun2.
      inversion Hrun2; subst se r1. clear Hrun2.
      rewrite app_nil_r in Hrest. subst rest.
      rewrite <- HE in Hsim1.
      destruct (rc_sim_end _ _ _ _ _ Hsim1) as (Ht1 & Hin1 & Hcode1 & Hover1). rewrite Hnorm in Hin1, Hcode1, Hover1.
      rewrite (rdec_is_finished_intro d1 Hin1 Hcode1 Hover1). cbn [negb orb].
      unfold lzwin_has_pending. rewrite Hpl3, Hpl1, Hpe. change (0 <? 0) with false. cbn [andb].
      eexists out, _. split; [reflexivity|]. split; [exact Hne|]. split; [lia|].
      exists (data_from h'). split.
      { rewrite Hrem1. destruct new2 as [|x t]; [reflexivity | cbn [length] in Hl2; lia]. }
      left. exists (RNone (a_coder s1) (snd (renc_events renc_init t0 E))), h', bytes.
      split; [exact Hck|]. split; [|split; [exact Hin | reflexivity]].
      unfold at_boundary. msimpl.
      split; [exact Hz|]. split; [exact Hend|]. split; [exact Herr|].
      split; [apply rdec_is_finished_intro; assumption|].
      split.
      + unfold sync_coder. rewrite Hnp, Hnd.
        split; [|split; intros X; discriminate X].
        split; [reflexivity|]. split; [exact Ht1|]. split; [exact Hcp|].
        split; [rewrite <- Ht1; eapply rc_sim_probs_ok; exact Hsim1|].
        rewrite Hff. exact Hcok1.
      + split; [|exact Hfx]. unfold sync_win. split; [lia|]. split; [lia|].
        exists (a_hist s1). split; assumption.
    - (* more of the chunk to come *)
      cbn [andb].
      eexists out, _. split; [reflexivity|]. split; [exact Hne|]. split; [lia|].
      exists (rev new2 ++ data_from h'). split; [exact Hrem1|].
      right. right.
      destruct s1 as [c1 hist1 dict1 pl1 pd1].
      cbn [a_coder a_hist a_dict a_pend_len a_pend_dist] in *. subst dict1.
      destruct (aproduce_pd_irrel (Z.to_nat (u - b)) c1 hist1 (w_size wl) pl1 pd1 (w_pending_dist w3) r1 se []
                  Hwf1) as (se' & Hrun3 & Q1 & Q2 & Q3 & Q4).
      { intros Hpos. rewrite Hpd3. symmetry. apply (Hpd1 Hpos). }
      { exact Hrun2. }
      exists E, t0, (done ++ evs1), r1, c1, hist1, se', h', bytes, (u - b). msimpl.
      split; [lia|]. split; [reflexivity|]. split; [reflexivity|]. split; [exact Hend|]. split; [exact Herr|].
      split; [exact Hnp|]. split; [exact Hnd|]. split; [reflexivity|]. split; [exact Hw3|].
      split; [rewrite Hff; exact Hcok1|].
      split.
      { rewrite Hpl3, Hpd3, Hff, Hpl1. intros Hpos. destruct (Hpd1 Hpos) as (X1 & X2). rewrite X1. exact X2. }
      split; [rewrite HE, Hrest, app_assoc; reflexivity|]. split; [exact Hsim1|].
      split; [rewrite Hpl3, Hpl1; rewrite Hwl1, Hsz in Hrun3; exact Hrun3|].
      split; [congruence|]. split; [rewrite Q2; exact Hhr|]. split; [exact Hfx|].
      split; [rewrite Q1; exact Hcp|]. split; [rewrite Q1; exact Hck|]. split; [exact Hin|].
      rewrite Q2, Hh2. rewrite firstn_app_exact by lia. reflexivity.
  Qed.

  (* ---- chunk headers ------------------------------------------------------------------------- *)
  Ltac zb1 :=
    match goal with
    | |- context [Z.eqb ?a ?b] =>
        first [ destruct (Z.eqb_spec a b) as [?Hz|?Hz]; [exfalso; lia|]
              | destruct (Z.eqb_spec a b) as [?Hz|?Hz]; [|exfalso; lia] ]
    | |- context [Z.leb ?a ?b] =>
        first [ destruct (Z.leb_spec a b) as [?Hz|?Hz]; [exfalso; lia|]
              | destruct (Z.leb_spec a b) as [?Hz|?Hz]; [|exfalso; lia] ]
    | |- context [Z.ltb ?a ?b] =>
        first [ destruct (Z.ltb_spec a b) as [?Hz|?Hz]; [exfalso; lia|]
              | destruct (Z.ltb_spec a b) as [?Hz|?Hz]; [|exfalso; lia] ]
    end.

  Lemma at_boundary_reset r h s : at_boundary r h s ->
    exists w1, lzwin_reset (m_win s) = Ok w1 /\ Rel w1 [] /\ w_size w1 = dict /\ w_start w1 = 0 /\ w_pos w1 = 0 /\
               w_full w1 = 0 /\ w_pending_len w1 = 0.
  Proof.
    intros (_ & _ & _ & _ & _ & (Hsz & Hpl & _) & _).
    destruct (reset_rel (m_win s)) as (w1 & H1 & H2 & H3 & H4 & H5 & H6 & H7 & _); try lia.
    exists w1. split; [exact H1|]. split; [exact H2|]. repeat split; lia.
  Qed.

  Lemma header_unc r h s n rest :
    at_boundary r h s -> 1 <= n <= 65536 -> m_in s = unc_header r n ++ rest ->
    exists w1,
      lzma2_chunk_header s =
        Ok (mkLzma2 rest w1 (m_rc s) (m_probs s) (m_coder s) n false false
                    (match r with RDict => true | _ => m_need_props s end) false (m_error s)) /\
      match r with RDict => lzwin_reset (m_win s) = Ok w1 | _ => w1 = m_win s end.
  Proof.
    intros Hb Hn Hin. pose proof (at_boundary_reset _ _ _ Hb) as (wr & Hreset & _).
    destruct Hb as (_ & _ & _ & _ & (_ & _ & Hnd) & _).
    pose proof (u16_bytes (n - 1) ltac:(lia)) as H16.
    unfold lzma2_chunk_header. rewrite Hin. unfold unc_header. cbn [app read_u8 obind].
    destruct r as [c t| | |]; cbn [unc_ctl].
    1-3: change (2 =? 0) with false; change ((224 <=? 2) || (2 =? 1)) with false; cbv iota;
         destruct (m_need_dict_reset s); [specialize (Hnd eq_refl); discriminate Hnd|];
         cbn [obind]; change (128 <=? 2) with false; change (2 <? 2) with false; cbv iota;
         cbn [read_u16_be obind]; rewrite H16; replace (n - 1 + 1) with n by lia;
         exists (m_win s); split; reflexivity.
    change (1 =? 0) with false. change ((224 <=? 1) || (1 =? 1)) with true. cbv iota.
    rewrite Hreset. cbn [obind]. change (128 <=? 1) with false. change (2 <? 1) with false. cbv iota.
    cbn [read_u16_be obind]. rewrite H16. replace (n - 1 + 1) with n by lia.
    exists wr. split; reflexivity.
  Qed.

  Lemma header_lzma r h s usize body bytes d0 :
    at_boundary r h s -> 1 <= usize <= 2097152 -> 1 <= zlen body <= 65536 ->
    rdec_init body = Ok d0 ->
    m_in s = lzma_header lc lp pb r usize (zlen body) ++ body ++ bytes ++ tail ->
    exists w1,
      lzma2_chunk_header s =
        Ok (mkLzma2 (bytes ++ tail) w1 d0 (start_probs r) (Some (start_coder lc lp pb r)) usize true
                    false false false (m_error s)) /\
      match r with RDict => lzwin_reset (m_win s) = Ok w1 | _ => w1 = m_win s end.
  Proof.
    intros Hb Hu Hc Hd0 Hin. pose proof (at_boundary_reset _ _ _ Hb) as (wr & Hreset & _).
    destruct Hb as (_ & _ & _ & _ & (Hco & Hnp & Hnd) & _).
    pose proof (u16_bytes (zlen body - 1) ltac:(lia)) as H16.
    pose proof (rdec_prepare_of_init body (bytes ++ tail) d0 Hd0) as Hprep.
    assert (Hc0 : In (lzma_ctl0 r) [128; 160; 192; 224]) by (destruct r; cbn; tauto).
    destruct (lzma_ctl_decode (lzma_ctl0 r) usize Hc0 Hu) as (Hctl & Hx & Hus).
    unfold lzma2_chunk_header. rewrite Hin. unfold lzma_header. cbn [app read_u8 obind]. rewrite Hctl.
    set (x := (usize - 1) / 65536) in *.
    destruct r as [c t| | |]; cbn [lzma_ctl0 has_props start_probs start_coder app] in *.
    - (* 0x80 *)
      destruct Hco as (Hco & Hpr & _).
      zb1. replace ((224 <=? 128 + x) || (128 + x =? 1)) with false by (symmetry; apply orb_false_iff; split; lia).
      destruct (m_need_dict_reset s); [specialize (Hnd eq_refl); discriminate Hnd|].
      destruct (m_need_props s); [specialize (Hnp eq_refl); discriminate Hnp|].
      cbn [obind]. zb1. cbn [read_u16_be obind]. rewrite Hus, H16. replace (zlen body - 1 + 1) with (zlen body) by lia.
      zb1. zb1. cbn [obind]. rewrite Hprep. cbn [obind]. rewrite Hco, Hpr.
      exists (m_win s). split; reflexivity.
    - (* 0xA0 *)
      destruct Hco as (cr & Hco & Hp1 & Hp2 & Hp3).
      zb1. replace ((224 <=? 160 + x) || (160 + x =? 1)) with false by (symmetry; apply orb_false_iff; split; lia).
      destruct (m_need_dict_reset s); [specialize (Hnd eq_refl); discriminate Hnd|].
      destruct (m_need_props s); [specialize (Hnp eq_refl); discriminate Hnp|].
      cbn [obind]. zb1. cbn [read_u16_be obind]. rewrite Hus, H16. replace (zlen body - 1 + 1) with (zlen body) by lia.
      zb1. zb1. cbn [obind]. rewrite Hprep. cbn [obind]. rewrite Hco.
      unfold coder_reset. rewrite Hp1, Hp2, Hp3.
      exists (m_win s). split; reflexivity.
    - (* 0xC0 *)
      zb1. replace ((224 <=? 192 + x) || (192 + x =? 1)) with false by (symmetry; apply orb_false_iff; split; lia).
      destruct (m_need_dict_reset s); [specialize (Hnd eq_refl); discriminate Hnd|].
      cbn [obind]. zb1. cbn [read_u16_be obind]. rewrite Hus, H16. replace (zlen body - 1 + 1) with (zlen body) by lia.
      zb1. rewrite decode_props_ok by assumption. cbn [obind]. rewrite Hprep. cbn [obind].
      exists (m_win s). split; reflexivity.
    - (* 0xE0 *)
      zb1. replace ((224 <=? 224 + x) || (224 + x =? 1)) with true by (symmetry; apply orb_true_iff; left; lia).
      rewrite Hreset. cbn [obind]. zb1. cbn [read_u16_be obind]. rewrite Hus, H16.
      replace (zlen body - 1 + 1) with (zlen body) by lia.
      zb1. rewrite decode_props_ok by assumption. cbn [obind]. rewrite Hprep. cbn [obind].
      exists wr. split; reflexivity.
  Qed.

End Reader.
