(* Codec/EncWindow.v — POSITION ACCOUNTING of the LZMA encoder: src/lz/lz_encoder.rs (LZEncoderData:
   fill_window, move_window, process_pending_bytes, set_flushing, set_finishing, move_pos,
   has_enough_data, copy_uncompressed, get_avail, set_preset_dict), src/enc/encoder.rs
   (LZMAEncoder::new, encode_init, encode_symbol, encode_for_lzma1/2, reset, find_matches, skip:
   read_ahead and uncompressed_size), and the byte-COUNT level of src/enc/lzma_writer.rs
   (write, finish) and src/enc/lzma2_writer.rs (write, flush, finish, write_chunk,
   write_uncompressed, start_independent_chunk).  No data bytes are modelled.  Definitions only.

   Not modelled: the match finders (HC4/BT4) and the parsers (fast/normal).  They appear as an
   ARBITRARY strategy (type [strat]): a tree that can only (a) advance the match finder by one
   position (find_matches / one step of skip), observing what the Rust code observes of the
   returned [avail] — its minimum with MATCH_LEN_MAX (nice_len <= MATCH_LEN_MAX) —, (b) read
   get_avail() clamped by a constant, (c) emit a symbol length; the range coder appears as one bit
   per symbol ("pending size exceeds LZMA2_COMPRESSED_LIMIT") and the compressed size of a chunk.
   The strategy is told the LOGICAL stream position (ghost field [g_base] + read_pos - read_ahead);
   EncWindowProofs.v shows that buffer positions and logical positions agree modulo 64, which is
   all the Rust parsers use of [lz.get_pos()] (pos_mask, literal position mask <= 15). *)
From LzVerif Require Export Base.Bytes.

(* ---------------------------------------------------------------------------------------------
   fixed-width arithmetic *)
Definition I32_MIN : Z := -2147483648.
Definition I32_MAX : Z := 2147483647.
Definition U32_MAX : Z := 4294967295.
Definition U64_MAX : Z := 18446744073709551615.

Definition P_OVERFLOW : Z := 70.   (* checked arithmetic (debug / overflow-checks build) *)
Definition P_INDEX : Z := 71.      (* slice index / range out of bounds *)
Definition P_ASSERT : Z := 72.     (* debug_assert! *)
Definition V_BAD_PARSER : Z := 91. (* the strategy left the contract of the parsers (see run_strat) *)
Definition V_BAD_RC : Z := 92.     (* the range-coder oracle left its contract (see write_chunk) *)

Definition ck_i32 (x : Z) : outcome Z :=
  if (I32_MIN <=? x) && (x <=? I32_MAX) then Ok x else Panic P_OVERFLOW.
Definition ck_u32 (x : Z) : outcome Z :=
  if (0 <=? x) && (x <=? U32_MAX) then Ok x else Panic P_OVERFLOW.
Definition ck_u64 (x : Z) : outcome Z :=
  if (0 <=? x) && (x <=? U64_MAX) then Ok x else Panic P_OVERFLOW.
(* `x as i32` for x of a wider or unsigned type: two's complement wrap *)
Definition as_i32 (x : Z) : Z := (x + 2147483648) mod 4294967296 - 2147483648.
(* `x as u32` for an i32 x *)
Definition as_u32 (x : Z) : Z := x mod 4294967296.

(* ---------------------------------------------------------------------------------------------
   constants *)
Definition MATCH_LEN_MAX : Z := 273.
Definition MOVE_BLOCK_ALIGN : Z := 64.
Definition COMPRESSED_SIZE_MAX : Z := 65536.
Definition LZMA2_UNCOMPRESSED_LIMIT : Z := 2097152 - 273.
Definition LZMA2_COMPRESSED_LIMIT : Z := 65536 - 26.
Definition FAST_EXTRA_BEFORE : Z := 1.
Definition FAST_EXTRA_AFTER : Z := 272.
Definition NORMAL_EXTRA_BEFORE : Z := 4096.
Definition NORMAL_EXTRA_AFTER : Z := 4096.

(* ---------------------------------------------------------------------------------------------
   LZEncoderData: the fields fixed by the constructor, and the moving ones *)
Record lzp := mkLzp {
  keep_before : Z;      (* keep_size_before: u32 *)
  keep_after : Z;       (* keep_size_after: u32 *)
  match_len_max : Z;
  nice_len : Z;
  buf_size : Z;         (* usize; buf.len() *)
  req_flush : Z;        (* the match finder's required_for_flushing: 4 (HC4), nice_len (BT4);
                           required_for_finishing is 4 for both *)
  (* not fields of the Rust struct; constants of the configuration the contracts speak about: *)
  extra_after : Z;      (* the mode's EXTRA_SIZE_AFTER = keep_after - match_len_max: how far the
                           mode may read ahead inside one consultation *)
  mode_before : Z;      (* the mode's EXTRA_SIZE_BEFORE: read_ahead + 1 between two symbols is at most this *)
  dict_size : Z
}.

Record lzd := mkLzd {
  read_pos : Z;         (* i32 *)
  read_limit : Z;       (* i32 *)
  finishing : bool;
  write_pos : Z;        (* i32 *)
  pending_size : Z      (* u32 *)
}.

Definition REQ_FINISH : Z := 4.

(* get_buf_size: u32 arithmetic *)
Definition get_buf_size (dict eb ea mlm : Z) : outcome Z :=
  do kb <- ck_u32 (eb + dict);
  do ka <- ck_u32 (ea + mlm);
  let reserve := Z.min (dict / 2 + 262144) 536870912 in
  do s <- ck_u32 (kb + ka);
  ck_u32 (s + reserve).

(* LZEncoder::new *)
Definition lz_new (dict eb ea nice mlm rf mb : Z) : outcome (lzp * lzd) :=
  do bs <- get_buf_size dict eb ea mlm;
  if bs <? 2 then Panic P_ASSERT else            (* buf_size.checked_sub(2).unwrap() *)
  do kb <- ck_u32 (eb + dict);
  do ka <- ck_u32 (ea + mlm);
  if nice <? 1 then Panic P_OVERFLOW else        (* Matches::new(nice_len as usize - 1) *)
  Ok (mkLzp kb ka mlm nice bs rf ea mb dict, mkLzd (-1) (-1) false 0 0).

(* the events the model reports; the harness hook reports the same events of the real run *)
Inductive wev : Type :=
| EvPos (rp ret : Z)               (* move_pos: read_pos after the increment, returned avail *)
| EvMove (offset size : Z)         (* move_window *)
| EvFill (offered used : Z)        (* fill_window(input.len() = offered) returned used *)
| EvConsult (rp avail ra : Z)      (* encode_symbol asks the parser: read_pos, write_pos - read_pos, read_ahead *)
| EvSym (len ra : Z)               (* symbol chosen; read_ahead after the parser's moves (before -= len) *)
| EvChunk (u c ra : Z)             (* write_chunk: uncompressed_size, compressed_size, read_ahead *)
| EvLzma (u c : Z)                 (* write_lzma *)
| EvUnc (u : Z)                    (* write_uncompressed(u) *)
| EvCopy (start len : Z)           (* copy_uncompressed: buf[start .. start + len] *)
| EvAbsorb (n : Z)                 (* ghost (not reported by the hook): LZMAEncoder::reset() turned the
                                      n = read_ahead + 1 bytes the parser had read ahead into chunk content *)
| EvNew                            (* start_independent_chunk: fresh encoder *)
| EvEnd.                           (* finish completed *)

(* move_pos(required_for_flushing, required_for_finishing) -> avail *)
Definition move_pos (d : lzd) (rf rfin : Z) : outcome (lzd * Z) :=
  if rf <? rfin then Panic P_ASSERT else
  do rp <- ck_i32 (read_pos d + 1);
  do avail <- ck_i32 (write_pos d - rp);
  if (avail <? rf) && ((avail <? rfin) || negb (finishing d)) then
    do pn <- ck_u32 (pending_size d + 1);
    Ok (mkLzd rp (read_limit d) (finishing d) (write_pos d) pn, 0)
  else Ok (mkLzd rp (read_limit d) (finishing d) (write_pos d) (pending_size d), avail).

(* MatchFind::skip(len): len times move_pos (the hash updates are not modelled) *)
Fixpoint mf_skip (p : lzp) (n : nat) (d : lzd) (tr : list wev) : outcome (lzd * list wev) :=
  match n with
  | O => Ok (d, tr)
  | S k =>
      do r <- move_pos d (req_flush p) REQ_FINISH;
      mf_skip p k (fst r) (EvPos (read_pos (fst r)) (snd r) :: tr)
  end.

(* process_pending_bytes *)
Definition process_pending (p : lzp) (d : lzd) (tr : list wev) : outcome (lzd * list wev) :=
  if (0 <? pending_size d) && (read_pos d <? read_limit d) then
    do rp <- ck_i32 (read_pos d - as_i32 (pending_size d));
    do r <- mf_skip p (Z.to_nat (pending_size d))
                    (mkLzd rp (read_limit d) (finishing d) (write_pos d) 0) tr;
    (* debug_assert!(self.pending_size <= old_pending)  — repaired; the original `<` is
       [pending_assert_old], refuted by process_pending_strict_assert_refuted *)
    if pending_size d <? pending_size (fst r) then Panic P_ASSERT else Ok r
  else Ok (d, tr).

(* the assertion as it was: debug_assert!(self.pending_size < old_pending) *)
Definition pending_assert_old (old_pending new_pending : Z) : bool := new_pending <? old_pending.

(* set_preset_dict(dict_size, preset_dict) with preset_dict.len() = plen *)
Definition set_preset_dict (p : lzp) (dict plen : Z) (d : lzd) (tr : list wev) : outcome (lzd * list wev) :=
  if negb ((read_pos d =? -1) && (write_pos d =? 0)) then Panic P_ASSERT else
  let copy_size := Z.min plen dict in
  if buf_size p <? copy_size then Panic P_INDEX else     (* buf[0..copy_size] *)
  do wp <- ck_i32 (write_pos d + as_i32 copy_size);
  mf_skip p (Z.to_nat copy_size) (mkLzd (read_pos d) (read_limit d) (finishing d) wp (pending_size d)) tr.

(* move_window *)
Definition move_window (p : lzp) (d : lzd) (tr : list wev) : outcome (lzd * list wev) :=
  do a <- ck_i32 (read_pos d + 1);
  do b <- ck_i32 (a - as_i32 (keep_before p));
  let move_offset := Z.land b (-64) in           (* & !(MOVE_BLOCK_ALIGN - 1) on two's complement *)
  do move_size <- ck_i32 (write_pos d - move_offset);
  if (move_size <? 0) || (move_offset <? 0) then Panic P_ASSERT else
  if buf_size p <? move_offset + move_size then Panic P_INDEX else   (* buf.copy_within(offset..offset+size, 0) *)
  do rp <- ck_i32 (read_pos d - move_offset);
  do rl <- ck_i32 (read_limit d - move_offset);
  do wp <- ck_i32 (write_pos d - move_offset);
  Ok (mkLzd rp rl (finishing d) wp (pending_size d), EvMove move_offset move_size :: tr).

(* fill_window(input) with input.len() = n; returns the number of bytes copied *)
Definition fill_window (p : lzp) (d : lzd) (n : Z) (tr : list wev) : outcome (lzd * Z * list wev) :=
  if finishing d then Panic P_ASSERT else
  do lim <- ck_i32 (as_i32 (buf_size p) - as_i32 (keep_after p));
  do r <- (if lim <=? read_pos d then move_window p d tr else Ok (d, tr));
  let '(d1, tr1) := r in
  do room <- ck_i32 (as_i32 (buf_size p) - write_pos d1);
  (* input.len().min(room as usize)  (repaired; see fill_len_old) *)
  let len := Z.min n (room mod 18446744073709551616) in
  let d_start := write_pos d1 mod 18446744073709551616 in
  let d_end := d_start + len in
  if (buf_size p <? d_end) || (n <? len) then Panic P_INDEX else   (* buf[d_start..d_end], input[..len] *)
  do wp <- ck_i32 (write_pos d1 + as_i32 len);
  do rl <- (if as_i32 (keep_after p) <=? wp then ck_i32 (wp - as_i32 (keep_after p)) else Ok (read_limit d1));
  do r2 <- process_pending p (mkLzd (read_pos d1) rl (finishing d1) wp (pending_size d1)) (EvFill n len :: tr1);
  Ok (fst r2, len, snd r2).

(* the length computation of fill_window before the repair ("write() of a slice of 2 GiB or more
   panics in fill_window"): `if input.len() as i32 > room { room as usize } else { input.len() }` *)
Definition fill_len_old (room n : Z) : Z := if room <? as_i32 n then room mod 18446744073709551616 else n.

(* set_flushing / set_finishing *)
Definition set_flushing (p : lzp) (d : lzd) (tr : list wev) : outcome (lzd * list wev) :=
  do rl <- ck_i32 (write_pos d - 1);
  process_pending p (mkLzd (read_pos d) rl (finishing d) (write_pos d) (pending_size d)) tr.
Definition set_finishing (p : lzp) (d : lzd) (tr : list wev) : outcome (lzd * list wev) :=
  do rl <- ck_i32 (write_pos d - 1);
  process_pending p (mkLzd (read_pos d) rl true (write_pos d) (pending_size d)) tr.

(* has_enough_data(already_read_len) *)
Definition has_enough_data (d : lzd) (already : Z) : outcome bool :=
  do t <- ck_i32 (read_pos d - already);
  Ok (t <? read_limit d).

(* copy_uncompressed(backward, len): the slice of the buffer that is written out *)
Definition copy_uncompressed (p : lzp) (d : lzd) (backward len : Z) : outcome (Z * Z) :=
  do a <- ck_i32 (read_pos d + 1);
  do s <- ck_i32 (a - backward);
  if s <? 0 then Panic P_INDEX else               (* `as usize` of a negative value: start + len overflows / is out of range *)
  if buf_size p <? s + len then Panic P_INDEX else
  Ok (s, len).

Definition get_avail (d : lzd) : outcome Z := ck_i32 (write_pos d - read_pos d).
Definition is_started (d : lzd) : bool := negb (read_pos d =? -1).

(* ---------------------------------------------------------------------------------------------
   LZMAEncoder: window + read_ahead + uncompressed_size (+ the one bit of the range coder that the
   LZMA2 loop reads).  [g_base] is a GHOST: the sum of all move offsets; no modelled computation of
   the Rust code reads it, it only tells the strategy the logical position (and feeds one shadow
   assertion in encode_symbol). *)
Record encd := mkEncd {
  e_lz : lzd;
  read_ahead : Z;        (* i32 *)
  unc_size : Z;          (* uncompressed_size: u32 *)
  rc_full : bool;        (* rc.get_pending_size() > LZMA2_COMPRESSED_LIMIT *)
  g_base : Z             (* ghost *)
}.

Definition logical_pos (e : encd) : Z := g_base e + read_pos (e_lz e) - read_ahead e.

(* mode: false = Fast, true = Normal;  mf: false = HC4, true = BT4 *)
Definition mode_extra_before (normal : bool) : Z := if normal then NORMAL_EXTRA_BEFORE else FAST_EXTRA_BEFORE.
Definition mode_extra_after (normal : bool) : Z := if normal then NORMAL_EXTRA_AFTER else FAST_EXTRA_AFTER.

(* LZMAEncoder::new(.., dict_size, extra_size_before, nice_len): the caller's history requirement
   and the mode's read-ahead add up (repaired code; [enc_new_with] lets the theorems speak about
   the two earlier policies as well) *)
Definition enc_new_with (eb : Z) (normal bt4 : bool) (dict nice : Z) : outcome (lzp * encd) :=
  do r <- lz_new dict eb (mode_extra_after normal) nice MATCH_LEN_MAX (if bt4 then nice else 4) (mode_extra_before normal);
  (* reset(): uncompressed_size += read_ahead + 1 with read_ahead = -1 *)
  Ok (fst r, mkEncd (snd r) (-1) 0 false 0).

Definition extra_before_sum (caller : Z) (normal : bool) : outcome Z := ck_u32 (caller + mode_extra_before normal).
Definition extra_before_max (caller : Z) (normal : bool) : Z := Z.max caller (mode_extra_before normal).   (* fa095d0 *)
Definition extra_before_mode (caller : Z) (normal : bool) : Z := mode_extra_before normal.                 (* before fa095d0 *)

Definition enc_new (normal bt4 : bool) (dict caller_extra nice : Z) : outcome (lzp * encd) :=
  do eb <- extra_before_sum caller_extra normal;
  enc_new_with eb normal bt4 dict nice.

(* lzma2_writer.rs get_extra_size_before: COMPRESSED_SIZE_MAX.saturating_sub(dict_size) *)
Definition get_extra_size_before (dict : Z) : Z := Z.max 0 (COMPRESSED_SIZE_MAX - dict).

Definition with_lz (e : encd) (d : lzd) : encd := mkEncd d (read_ahead e) (unc_size e) (rc_full e) (g_base e).

(* ---------------------------------------------------------------------------------------------
   The parser / match finder as a strategy *)
Inductive strat (PS : Type) : Type :=
| SMove (k : Z -> strat PS)             (* find_matches() or one step of skip(): observes min(avail, MATCH_LEN_MAX) *)
| SAvail (c : Z) (k : Z -> strat PS)    (* get_avail().min(c) *)
| SEmit (len : Z) (full : bool) (ps : PS)  (* return len; [full]: the range coder's pending size after coding the symbol exceeds the limit *)
| SFail.
Arguments SMove {PS} k.
Arguments SAvail {PS} c k.
Arguments SEmit {PS} len full ps.
Arguments SFail {PS}.

Section WithOracle.
  Variable PS : Type.
  (* the strategy for one consultation: parser state, logical position, read_ahead *)
  Variable parse : PS -> Z -> Z -> strat PS.
  (* the compressed size of the chunk that is being finished: parser/coder state, uncompressed size *)
  Variable chunkc : PS -> Z -> Z * PS.

  (* one consultation.  Contract of the parsers (violations end the run with Err V_BAD_PARSER and
     are excluded by the theorems' hypotheses only in the sense that the result is then not Ok):
     - a move never leaves the data: the raw avail after the move is >= 1;
     - the read-ahead never exceeds the mode's EXTRA_SIZE_AFTER;
     - get_avail is clamped by a constant c with c + read_ahead <= keep_size_after, read_ahead >= 0;
     - the emitted length satisfies 1 <= len <= read_ahead + 1, and what stays read ahead after
       the symbol is less than the mode's EXTRA_SIZE_BEFORE (fast: the next position at most;
       normal: the rest of the optimum chain, < OPTS). *)
  Fixpoint run_strat (p : lzp) (s : strat PS) (e : encd) (tr : list wev)
    : outcome (encd * Z * bool * PS * list wev) :=
    match s with
    | SFail => Err V_BAD_PARSER
    | SMove k =>
        do ra <- ck_i32 (read_ahead e + 1);
        do r <- move_pos (e_lz e) (req_flush p) REQ_FINISH;
        let '(d1, ret) := r in
        if (write_pos d1 - read_pos d1 <? 1) || (extra_after p <? ra) then Err V_BAD_PARSER else
        run_strat p (k (Z.min ret (match_len_max p)))
                  (mkEncd d1 ra (unc_size e) (rc_full e) (g_base e))
                  (EvPos (read_pos d1) ret :: tr)
    | SAvail c k =>
        if (read_ahead e <? 0) || (c <? 0) || (keep_after p <? c + read_ahead e) then Err V_BAD_PARSER else
        do a <- get_avail (e_lz e);
        run_strat p (k (Z.min a c)) e tr
    | SEmit len full ps =>
        if (len <? 1) || (read_ahead e + 1 <? len) || (mode_before p <=? read_ahead e - len) then Err V_BAD_PARSER else
        Ok (e, len, full, ps, tr)
    end.

  (* encode_init *)
  Definition encode_init (p : lzp) (e : encd) (tr : list wev) : outcome (bool * encd * list wev) :=
    if negb (read_ahead e =? -1) then Panic P_ASSERT else
    do ok <- has_enough_data (e_lz e) 0;
    if negb ok then Ok (false, e, tr) else
    (* self.skip(1) *)
    do ra <- ck_i32 (read_ahead e + 1);
    do r <- mf_skip p 1 (e_lz e) tr;
    (* the literal coder reads buf[read_pos - read_ahead] *)
    if (read_pos (fst r) - ra <? 0) || (buf_size p <=? read_pos (fst r) - ra) then Panic P_INDEX else
    do ra1 <- ck_i32 (ra - 1);
    if negb (ra1 =? -1) then Panic P_ASSERT else
    do u <- ck_u32 (unc_size e + 1);
    if negb (u =? 1) then Panic P_ASSERT else
    Ok (true, mkEncd (fst r) ra1 u (rc_full e) (g_base e), EvSym 1 ra :: snd r).

  (* encode_symbol *)
  Definition encode_symbol (p : lzp) (ps : PS) (e : encd) (tr : list wev)
    : outcome (option (encd * PS * list wev)) :=
    do ar <- ck_i32 (read_ahead e + 1);
    do ok <- has_enough_data (e_lz e) ar;
    if negb ok then Ok None else
    let d := e_lz e in
    let tr0 := EvConsult (read_pos d) (write_pos d - read_pos d) (read_ahead e) :: tr in
    do r <- run_strat p (parse ps (logical_pos e) (read_ahead e)) e tr0;
    let '(e1, len, full, ps1, tr1) := r in
    if read_ahead e1 <? 0 then Panic P_ASSERT else
    (* the literal coder reads buf[read_pos - read_ahead] and buf[read_pos - read_ahead - 1] *)
    let cur := read_pos (e_lz e1) - read_ahead e1 in
    if (cur - 1 <? 0) || (buf_size p <=? cur) then Panic P_INDEX else
    (* shadow assertion over the ghost base (the only place where it is read): the farthest byte a
       symbol can refer to — distance min(dict_size, logical position) behind the byte being coded,
       for a match, a rep or the matched-literal byte — is still in the buffer *)
    if negb ((g_base e1 =? 0) || (dict_size p <=? cur)) then Panic P_INDEX else
    do ra2 <- ck_i32 (read_ahead e1 - as_i32 len);
    do u <- ck_u32 (unc_size e1 + len);
    Ok (Some (mkEncd (e_lz e1) ra2 u full (g_base e1), ps1, EvSym len (read_ahead e1) :: tr1)).

  (* while self.encode_symbol(rc, mode)? {} *)
  Fixpoint enc_loop1 (fuel : nat) (p : lzp) (ps : PS) (e : encd) (tr : list wev)
    : outcome (encd * PS * list wev) :=
    match fuel with
    | O => Fuel
    | S f =>
        do r <- encode_symbol p ps e tr;
        match r with
        | None => Ok (e, ps, tr)
        | Some (e1, ps1, tr1) => enc_loop1 f p ps1 e1 tr1
        end
    end.

  (* fuel that suffices for the symbol loops: one iteration per byte in the window, plus the last test *)
  Definition sym_fuel (e : encd) : nat := Z.to_nat (write_pos (e_lz e) + 2).

  Definition encode_for_lzma1 (p : lzp) (ps : PS) (e : encd) (tr : list wev)
    : outcome (encd * PS * list wev) :=
    if negb (is_started (e_lz e)) then
      do r <- encode_init p e tr;
      let '(ok, e1, tr1) := r in
      if negb ok then Ok (e1, ps, tr1) else enc_loop1 (sym_fuel e1) p ps e1 tr1
    else enc_loop1 (sym_fuel e) p ps e tr.

  (* the loop of encode_for_lzma2 *)
  Fixpoint enc_loop2 (fuel : nat) (p : lzp) (ps : PS) (e : encd) (tr : list wev)
    : outcome (bool * encd * PS * list wev) :=
    match fuel with
    | O => Fuel
    | S f =>
        if (unc_size e <=? LZMA2_UNCOMPRESSED_LIMIT) && negb (rc_full e) then
          do r <- encode_symbol p ps e tr;
          match r with
          | None => Ok (false, e, ps, tr)
          | Some (e1, ps1, tr1) => enc_loop2 f p ps1 e1 tr1
          end
        else Ok (true, e, ps, tr)
    end.

  Definition encode_for_lzma2 (p : lzp) (ps : PS) (e : encd) (tr : list wev)
    : outcome (bool * encd * PS * list wev) :=
    if negb (is_started (e_lz e)) then
      do r <- encode_init p e tr;
      let '(ok, e1, tr1) := r in
      if negb ok then Ok (false, e1, ps, tr1) else enc_loop2 (sym_fuel e1) p ps e1 tr1
    else enc_loop2 (sym_fuel e) p ps e tr.

  (* LZMAEncoder::reset: uncompressed_size += (read_ahead + 1) as u32; read_ahead = -1 *)
  Definition enc_reset (e : encd) : outcome encd :=
    do a <- ck_i32 (read_ahead e + 1);
    do u <- ck_u32 (unc_size e + as_u32 a);
    Ok (mkEncd (e_lz e) (-1) u (rc_full e) (g_base e)).

  (* -------------------------------------------------------------------------------------------
     LZMAWriter: write / finish at the level of byte counts *)
  Record l1st := mkL1 {
    l1_p : lzp;
    l1_e : encd;
    l1_cur : Z;                 (* current_uncompressed_size: u64 *)
    l1_exp : option Z;          (* expected_uncompressed_size *)
    l1_ps : PS;
    l1_tr : list wev
  }.

  (* while len > 0 { used = fill_window(&buf[off..]); off += used; len -= used; encode_for_lzma1 } *)
  Fixpoint l1_write_loop (fuel : nat) (p : lzp) (ps : PS) (e : encd) (len off : Z) (tr : list wev)
    : outcome (encd * PS * Z * list wev) :=
    match fuel with
    | O => Fuel
    | S f =>
        if len <=? 0 then Ok (e, ps, off, tr) else
        do r <- fill_window p (e_lz e) len tr;
        let '(d1, used, tr1) := r in
        (* a window move shifts the buffer: the ghost base follows *)
        let e1 := mkEncd d1 (read_ahead e) (unc_size e) (rc_full e)
                         (g_base e + (read_pos (e_lz e) - (read_pos d1))) in
        do r2 <- encode_for_lzma1 p ps e1 tr1;
        let '(e2, ps2, tr2) := r2 in
        l1_write_loop f p ps2 e2 (len - used) (off + used) tr2
    end.

  (* fuel that suffices for the write loops: every iteration but at most two accepts a byte or
     finds the window moved *)
  Definition write_fuel (n : Z) : nat := Z.to_nat (2 * n + 4).

  Inductive opres : Type := RWrote (n : Z) | RRej (code : Z) | RDone.

  (* LZMAWriter::write(buf), buf.len() = n *)
  Definition l1_write (s : l1st) (n : Z) : outcome (l1st * opres) :=
    match (match l1_exp s with
           | Some ex => do t <- ck_u64 (l1_cur s + n); Ok (ex <? t)
           | None => Ok false end) with
    | Ok true => Ok (s, RRej E_INVALID_INPUT)
    | Ok false =>
        do cur <- ck_u64 (l1_cur s + n);
        do r <- l1_write_loop (write_fuel n) (l1_p s) (l1_ps s) (l1_e s) n 0 (l1_tr s);
        let '(e, ps, off, tr) := r in
        Ok (mkL1 (l1_p s) e cur (l1_exp s) ps tr, RWrote off)
    | Err c => Err c | Panic c => Panic c | Fuel => Fuel
    end.

  (* LZMAWriter::finish *)
  Definition l1_finish (s : l1st) : outcome (l1st * opres) :=
    if (match l1_exp s with Some ex => negb (ex =? l1_cur s) | None => false end)
    then Ok (s, RRej E_INVALID_INPUT) else
    do r <- set_finishing (l1_p s) (e_lz (l1_e s)) (l1_tr s);
    do r2 <- encode_for_lzma1 (l1_p s) (l1_ps s) (with_lz (l1_e s) (fst r)) (snd r);
    let '(e, ps, tr) := r2 in
    Ok (mkL1 (l1_p s) e (l1_cur s) (l1_exp s) ps (EvEnd :: tr), RDone).

  (* LZMAWriter::new(.., options, .., expected): LZMAEncoder::new(.., dict, 0, nice) + optional preset dictionary *)
  Definition l1_new (normal bt4 : bool) (dict nice : Z) (preset : option Z) (expected : option Z) (ps0 : PS)
    : outcome l1st :=
    do r <- enc_new normal bt4 dict 0 nice;
    let '(p, e) := r in
    match preset with
    | None => Ok (mkL1 p e 0 expected ps0 [])
    | Some plen =>
        do r2 <- set_preset_dict p dict plen (e_lz e) [];
        Ok (mkL1 p (with_lz e (fst r2)) 0 expected ps0 (snd r2))
    end.

  (* a call history: writes (with the slice length) and the final finish *)
  Inductive wop : Type := WoWrite (n : Z) | WoFlush | WoFinish.

  Fixpoint l1_run (s : l1st) (ops : list wop) (res : list opres) : outcome (l1st * list opres) :=
    match ops with
    | [] => Ok (s, frev res)
    | WoWrite n :: r => do x <- l1_write s n; l1_run (fst x) r (snd x :: res)
    | WoFlush :: r => l1_run s r (RDone :: res)          (* LZMAWriter::flush does nothing *)
    | WoFinish :: _ => do x <- l1_finish s; Ok (fst x, frev (snd x :: res))   (* finish consumes the writer *)
    end.

  (* -------------------------------------------------------------------------------------------
     LZMA2Writer *)
  Record l2st := mkL2 {
    l2_p : lzp;
    l2_e : encd;
    l2_pending : Z;             (* pending_size: u32 — bytes in the window not yet written as a chunk *)
    l2_chunk : option Z;        (* chunk_size, already clamped to >= dict_size *)
    l2_unc : Z;                 (* uncompressed_size: u64, since the last independent start *)
    l2_new : outcome (lzp * encd);   (* what LZMAEncoder::new returns for the options (start_independent_chunk) *)
    l2_ps : PS;
    l2_tr : list wev
  }.

  (* write_uncompressed(u): 64 KiB pieces copied out of the window *)
  Fixpoint unc_copies (fuel : nat) (p : lzp) (d : lzd) (u : Z) (tr : list wev) : outcome (list wev) :=
    match fuel with
    | O => Fuel
    | S f =>
        if u <=? 0 then Ok tr else
        let chunk := Z.min u COMPRESSED_SIZE_MAX in
        do r <- copy_uncompressed p d (as_i32 u) chunk;
        unc_copies f p d (u - chunk) (EvCopy (fst r) (snd r) :: tr)
    end.

  (* write_chunk *)
  Definition write_chunk (s : l2st) : outcome l2st :=
    let e := l2_e s in
    let '(c, ps1) := chunkc (l2_ps s) (unc_size e) in
    (* contract of the range coder: the size is that of a non-empty buffer that, together with the
       two extra header bytes of an LZMA chunk, fits COMPRESSED_SIZE_MAX (one symbol grows the
       pending size by less than the 26 bytes of margin), and it is the quantity rc_full tests *)
    if (c <? 1) || (COMPRESSED_SIZE_MAX <? c + 2) || negb (Bool.eqb (rc_full e) (LZMA2_COMPRESSED_LIMIT <? c))
    then Err V_BAD_RC else
    if unc_size e <? 1 then Panic P_ASSERT else
    let tr0 := EvChunk (unc_size e) c (read_ahead e) :: l2_tr s in
    do r <- (if c + 2 <? unc_size e then Ok (e, unc_size e, EvLzma (unc_size e) c :: tr0)
             else
               do e1 <- enc_reset e;
               let u := unc_size e1 in
               do tr1 <- unc_copies (Z.to_nat (u / COMPRESSED_SIZE_MAX + 2)) (l2_p s) (e_lz e1) u
                                    (EvUnc u :: EvAbsorb (read_ahead e + 1) :: tr0);
               Ok (e1, u, tr1));
    let '(e2, u, tr2) := r in
    do pend <- ck_u32 (l2_pending s - u);
    do tot <- ck_u64 (l2_unc s + u);
    Ok (mkL2 (l2_p s) (mkEncd (e_lz e2) (read_ahead e2) 0 false (g_base e2)) pend (l2_chunk s) tot (l2_new s) ps1 tr2).

  (* while self.pending_size > 0 { encode_for_lzma2; write_chunk } *)
  Fixpoint l2_drain (fuel : nat) (s : l2st) : outcome l2st :=
    match fuel with
    | O => Fuel
    | S f =>
        if l2_pending s <=? 0 then Ok s else
        do r <- encode_for_lzma2 (l2_p s) (l2_ps s) (l2_e s) (l2_tr s);
        let '(_, e, ps, tr) := r in
        do s1 <- write_chunk (mkL2 (l2_p s) e (l2_pending s) (l2_chunk s) (l2_unc s) (l2_new s) ps tr);
        l2_drain f s1
    end.
  Definition drain_fuel (s : l2st) : nat := Z.to_nat (l2_pending s + 2).

  Definition l2_with_lz (s : l2st) (r : lzd * list wev) : l2st :=
    mkL2 (l2_p s) (with_lz (l2_e s) (fst r)) (l2_pending s) (l2_chunk s) (l2_unc s) (l2_new s) (l2_ps s) (snd r).

  (* start_independent_chunk *)
  Definition l2_start_independent (s : l2st) : outcome l2st :=
    do r <- set_flushing (l2_p s) (e_lz (l2_e s)) (l2_tr s);
    do s1 <- l2_drain (drain_fuel s) (l2_with_lz s r);
    do ne <- l2_new s1;
    Ok (mkL2 (fst ne) (snd ne) (l2_pending s1) (l2_chunk s1) 0 (l2_new s1) (l2_ps s1) (EvNew :: l2_tr s1)).

  Fixpoint l2_write_loop (fuel : nat) (s : l2st) (len off : Z) : outcome (l2st * Z) :=
    match fuel with
    | O => Fuel
    | S f =>
        if len <=? 0 then Ok (s, off) else
        do s0 <- (match l2_chunk s with
                  | Some cs => if cs <=? l2_unc s then l2_start_independent s else Ok s
                  | None => Ok s end);
        do r <- fill_window (l2_p s0) (e_lz (l2_e s0)) len (l2_tr s0);
        let '(d1, used, tr1) := r in
        let e0 := l2_e s0 in
        let e1 := mkEncd d1 (read_ahead e0) (unc_size e0) (rc_full e0)
                         (g_base e0 + (read_pos (e_lz e0) - read_pos d1)) in
        do pend <- ck_u32 (l2_pending s0 + as_u32 used);
        do r2 <- encode_for_lzma2 (l2_p s0) (l2_ps s0) e1 tr1;
        let '(full, e2, ps2, tr2) := r2 in
        let s2 := mkL2 (l2_p s0) e2 pend (l2_chunk s0) (l2_unc s0) (l2_new s0) ps2 tr2 in
        do s3 <- (if full then write_chunk s2 else Ok s2);
        l2_write_loop f s3 (len - used) (off + used)
    end.

  (* an iteration of the LZMA2 write loop that accepts nothing codes at least one symbol or is
     followed by a window move; the window holds fewer than buf_size bytes *)
  Definition write_fuel2 (s : l2st) (n : Z) : nat := Z.to_nat (3 * n + buf_size (l2_p s) + 8).

  Definition l2_write (s : l2st) (n : Z) : outcome (l2st * opres) :=
    do r <- l2_write_loop (write_fuel2 s n) s n 0;
    Ok (fst r, RWrote (snd r)).

  Definition l2_flush (s : l2st) : outcome (l2st * opres) :=
    do r <- set_flushing (l2_p s) (e_lz (l2_e s)) (l2_tr s);
    do s1 <- l2_drain (drain_fuel s) (l2_with_lz s r);
    Ok (s1, RDone).

  Definition l2_finish (s : l2st) : outcome (l2st * opres) :=
    do r <- set_finishing (l2_p s) (e_lz (l2_e s)) (l2_tr s);
    do s1 <- l2_drain (drain_fuel s) (l2_with_lz s r);
    Ok (mkL2 (l2_p s1) (l2_e s1) (l2_pending s1) (l2_chunk s1) (l2_unc s1) (l2_new s1) (l2_ps s1) (EvEnd :: l2_tr s1), RDone).

  (* LZMA2Writer::new.  [eb]: the extra_size_before handed to the window (see l2_new_repaired). *)
  Definition l2_new_with (newenc : outcome (lzp * encd)) (dict : Z) (preset : option Z) (chunk : option Z) (ps0 : PS)
    : outcome l2st :=
    do r <- newenc;
    let '(p, e) := r in
    let cs := match chunk with Some c => Some (Z.max c dict) | None => None end in
    match preset with
    | None => Ok (mkL2 p e 0 cs 0 newenc ps0 [])
    | Some plen =>
        do r2 <- set_preset_dict p dict plen (e_lz e) [];
        Ok (mkL2 p (with_lz e (fst r2)) 0 cs 0 newenc ps0 (snd r2))
    end.

  Definition l2_new_repaired (normal bt4 : bool) (dict nice : Z) (preset chunk : option Z) (ps0 : PS) : outcome l2st :=
    l2_new_with (enc_new normal bt4 dict (get_extra_size_before dict) nice) dict preset chunk ps0.

  Fixpoint l2_run (s : l2st) (ops : list wop) (res : list opres) : outcome (l2st * list opres) :=
    match ops with
    | [] => Ok (s, frev res)
    | WoWrite n :: r => do x <- l2_write s n; l2_run (fst x) r (snd x :: res)
    | WoFlush :: r => do x <- l2_flush s; l2_run (fst x) r (snd x :: res)
    | WoFinish :: _ => do x <- l2_finish s; Ok (fst x, frev (snd x :: res))
    end.
End WithOracle.

(* ---------------------------------------------------------------------------------------------
   The oracle that replays the decisions of a real run (the harness hook reports them):
   per consultation the number of match-finder moves, the length and the range-coder bit; per
   chunk the compressed size. *)
Inductive ditem : Type :=
| DSym (moves len : Z) (full : bool)
| DChunk (c : Z).

Fixpoint moves_then {PS} (n : nat) (s : strat PS) : strat PS :=
  match n with O => s | S k => SMove (fun _ => moves_then k s) end.

Definition replay_parse (l : list ditem) (_ _ : Z) : strat (list ditem) :=
  match l with
  | DSym m len full :: r => if m <? 0 then SFail else moves_then (Z.to_nat m) (SEmit len full r)
  | _ => SFail
  end.
Definition replay_chunkc (l : list ditem) (_ : Z) : Z * list ditem :=
  match l with
  | DChunk c :: r => (c, r)
  | _ => (0, l)             (* 0 violates the contract: Err V_BAD_RC *)
  end.

Definition l1_replay (normal bt4 : bool) (dict nice : Z) (preset expected : option Z) (ops : list wop) (ds : list ditem)
  : outcome (list wev * list opres * list ditem) :=
  do s <- l1_new (list ditem) normal bt4 dict nice preset expected ds;
  do r <- l1_run (list ditem) replay_parse s ops [];
  Ok (frev (l1_tr _ (fst r)), snd r, l1_ps _ (fst r)).

(* [policy]: 0 = repaired (caller's extra + mode's), 1 = fa095d0 (max), 2 = original (mode's only) *)
Definition l2_newenc (policy : Z) (normal bt4 : bool) (dict nice : Z) : outcome (lzp * encd) :=
  if policy =? 0 then enc_new normal bt4 dict (get_extra_size_before dict) nice
  else if policy =? 1 then enc_new_with (extra_before_max (get_extra_size_before dict) normal) normal bt4 dict nice
  else enc_new_with (extra_before_mode (get_extra_size_before dict) normal) normal bt4 dict nice.

Definition l2_replay (policy : Z) (normal bt4 : bool) (dict nice : Z) (preset chunk : option Z) (ops : list wop) (ds : list ditem)
  : outcome (list wev * list opres * list ditem) :=
  do s <- l2_new_with (list ditem) (l2_newenc policy normal bt4 dict nice) dict preset chunk ds;
  do r <- l2_run (list ditem) replay_parse replay_chunkc s ops [];
  Ok (frev (l2_tr _ (fst r)), snd r, l2_ps _ (fst r)).
