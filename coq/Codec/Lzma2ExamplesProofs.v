(* Codec/Lzma2ExamplesProofs.v — the hypotheses of lzma2_roundtrip are satisfiable (a stream with an
   LZMA chunk, a stored chunk, an independent restart and another LZMA chunk, evaluated), and the
   two side conditions that are really needed are witnessed:
     - an end marker among the LZMA2 symbols (the writer model does not reject it) is not decodable;
     - an EMPTY preset dictionary: the writer treats "Some []" as a preset (no dictionary reset in
       the first chunk), the reader treats it as none (insists on a dictionary reset). *)
From LzVerif Require Import Base.Bytes Codec.Store Codec.Range Codec.LzWindow Codec.LzmaDec Codec.LzmaEnc
  Codec.LzmaWriters Codec.Lzma2Dec Codec.Lzma2SpecProofs Codec.Lzma2FrameSyncProofs Codec.Lzma2ReadProofs.

Definition ex_data : list Z := [97; 98; 97; 98; 97; 98; 99; 100; 101; 102].
Definition ex_evs : list l2ev :=
  [L2Sym (SLit 97); L2Sym (SLit 98); L2Sym (SMatch 1 4); L2Lzma 6 8;
   L2Sym (SLit 99); L2Unc 2; L2New; L2Sym (SLit 101); L2Sym (SLit 102); L2Lzma 2 7].
Definition ex_stream : list Z :=
  [224; 0; 5; 0; 7; 93; 0; 48; 152; 158; 4; 0; 0; 0; 2; 0; 1; 99; 100;
   224; 0; 1; 0; 6; 93; 0; 50; 153; 124; 0; 0; 0; 0].

Example lzma2_roundtrip_hyps :
  bytes_ok ex_data = true /\ l2_no_end ex_evs /\ lzma2_write 3 0 2 4096 None ex_data ex_evs = Ok ex_stream.
Proof.
  split; [reflexivity|]. split; [|vm_compute; reflexivity].
  intros ev Hin. cbn [ex_evs In] in Hin.
  repeat (destruct Hin as [<- | Hin]; [discriminate|]). contradiction.
Qed.

(* the conclusion of the theorem on this instance, by the theorem *)
Example lzma2_roundtrip_instance : forall tail sizes, Forall (fun z => 0 < z) sizes ->
  exists s0, lzma2_new (ex_stream ++ tail) 4096 None = Ok s0 /\
    forall fuel, (12 <= fuel)%nat ->
    exists s_end, lzma2_read_all fuel s0 sizes sizes [] = Ok (ex_data, 0, s_end) /\ m_in s_end = tail.
Proof.
  intros tail sizes Hs. destruct lzma2_roundtrip_hyps as (Hb & Hne & Hw).
  exact (lzma2_roundtrip 3 0 2 4096 ex_data ex_evs ex_stream tail sizes ltac:(lia) ltac:(lia) ltac:(lia)
           ltac:(lia) ltac:(lia) Hb Hne Hw Hs).
Qed.

(* and by evaluation, reading 3 bytes, 1 byte, 3 bytes, ... *)
Example lzma2_roundtrip_eval :
  match lzma2_new (ex_stream ++ [7; 7]) 4096 None with
  | Ok s0 => match lzma2_read_all 40 s0 [3; 1] [3; 1] [] with
             | Ok (out, st, s) => out = ex_data /\ st = 0 /\ m_in s = [7; 7]
             | _ => False
             end
  | _ => False
  end.
Proof. vm_compute. repeat split; reflexivity. Qed.

(* what the reader returns for a write history *)
Definition l2_run (lc lp pb dict : Z) (preset : option (list Z)) (data : list Z) (evs : list l2ev) (sizes : list Z)
  : outcome (list Z * Z) :=
  do stream <- lzma2_write lc lp pb dict preset data evs;
  do s0 <- lzma2_new stream dict preset;
  do r <- lzma2_read_all 100 s0 sizes sizes [];
  Ok (fst (fst r), snd (fst r)).

(* an end marker inside an LZMA2 chunk: accepted by the writer model, InvalidInput in the reader *)
Theorem lzma2_end_marker_refuted :
  exists data evs, bytes_ok data = true /\ ~ l2_no_end evs /\
    l2_run 3 0 2 4096 None data evs [5] = Ok ([], E_INVALID_INPUT).
Proof.
  exists [97], [L2Sym (SLit 97); L2Sym SEnd; L2Lzma 1 11].
  split; [reflexivity|]. split; [|vm_compute; reflexivity].
  intros H. apply (H (L2Sym SEnd)); [cbn; tauto | reflexivity].
Qed.

(* an empty preset dictionary: before the /repo fix 14cc6e9 the writer treated Some [] as a preset
   (no dictionary reset in the first chunk) while the reader insisted on one, so the stream was
   rejected (witnesses found by this proof: [L2Sym (SLit 97); L2Lzma 1 6] and [L2Unc 1]).  The
   writer model follows the repaired code: an empty preset counts as none. *)
Example lzma2_empty_preset_fixed :
  l2_run 3 0 2 4096 (Some []) [97] [L2Sym (SLit 97); L2Lzma 1 6] [5] = Ok ([97], 0) /\
  l2_run 3 0 2 4096 (Some []) [97] [L2Unc 1] [5] = Ok ([97], 0).
Proof. split; vm_compute; reflexivity. Qed.

(* the preset variant is not vacuous either *)
Example lzma2_roundtrip_preset_hyps :
  let p := [1; 2; 3] in let data := [3; 97] in
  let evs := [L2Sym (SLit 3); L2Sym (SLit 97); L2Lzma 2 7] in
  p <> [] /\ (zlen p <= 4096 \/ l2_window_size 4096 = 4096) /\ bytes_ok p = true /\ bytes_ok data = true /\
  l2_no_end evs /\
  lzma2_write 3 0 2 4096 (Some p) data evs = Ok [192; 0; 1; 0; 6; 93; 0; 1; 153; 61; 240; 0; 0; 0] /\
  l2_run 3 0 2 4096 (Some p) data evs [1] = Ok (data, 0).
Proof.
  cbv zeta. split; [discriminate|]. split; [right; vm_compute; reflexivity|].
  split; [reflexivity|]. split; [reflexivity|]. split; [|split; vm_compute; reflexivity].
  intros ev Hin. cbn [In] in Hin. repeat (destruct Hin as [<- | Hin]; [discriminate|]). contradiction.
Qed.

(* a preset longer than the dictionary: the window starts full, the first loop iteration of the
   reader only wraps the write position; the first symbol copies the oldest bytes of the window *)
Definition ex_big_preset : list Z := map (fun i => i mod 251) (ProbProofs.zrange 0 4100).

Example lzma2_roundtrip_full_preset_eval :
  l2_run 3 0 2 4096 (Some ex_big_preset) [4; 5; 6; 7] [L2Sym (SMatch 4095 3); L2Sym (SLit 7); L2Lzma 4 8] [3; 1]
  = Ok ([4; 5; 6; 7], 0).
Proof. vm_compute. reflexivity. Qed.
