(* Codec/TruncLzma1Proofs.v — C05 for the LZMAReader model (Codec/Lzma1.v) under TRUNCATION of its
   source.
   (A) Input monotonicity of the reader, for ANY input (no assumption on where it came from): a
       construction / read() / read history that succeeds over an input succeeds identically over
       every extension of that input, and leaves the additional bytes unread.
   (B) For every stream the writer model produces and every proper prefix of it: the construction
       fails with UnexpectedEof, or the reader - driven with any history of positive destination
       sizes - returns a prefix of the data and then fails with UnexpectedEof.  It never panics,
       never runs out of the model's fuel and never reports the end of the stream.
   (B) rests on (A), on lzma_decode_total (LzmaTotalProofs.v: the decoder survives the zero bytes
   the range decoder substitutes past the end of its source) and on the invariant of the read
   loops over the complete stream (Lzma1LoopProofs.v).  Proofs only. *)
From LzVerif Require Import Base.Bytes Codec.Store Codec.Range Codec.ProbProofs Codec.RangeArithProofs
  Codec.LzWindow Codec.LzmaDec Codec.LzmaEnc Codec.LzmaAbs Codec.LzWindowProofs Codec.ProgProofs Codec.LzmaAbsProofs
  Codec.RangeEncProofs Codec.RangeDecProofs Codec.RangeProofs Codec.LzmaSymProofs Codec.LzmaRoundtrip
  Codec.LzmaChunkProofs Codec.LzmaReadProofs Codec.LzmaTotalProofs Codec.LzmaWriters Codec.Lzma1
  Codec.Lzma1LoopProofs Codec.Lzma1ReadProofs Codec.TruncProofs.
Ltac Zify.zify_post_hook ::= Z.div_mod_to_equations.

(* the reader with [tl] appended to what its source still holds *)
Definition l1_app (s : lzma1) (tl : list Z) : lzma1 :=
  mkLzma1 (l_coder s) (l_win s) (rd_app (l_rc s) tl) (l_probs s) (l_end_reached s) (l_remaining s).

Definition l1_res_app (tl : list Z) (r : list Z * lzma1) : list Z * lzma1 := (fst r, l1_app (snd r) tl).

(* a whole read history that also reports the bytes handed out before a failing call: the same
   calls as lzma1_read_all (Lzma1.v), result (bytes of the successful calls, how it ended) *)
Fixpoint lzma1_read_obs (fuel : nat) (s : lzma1) (sizes all : list Z) (acc : list Z) : list Z * outcome lzma1 :=
  match fuel with
  | O => (frev acc, Fuel)
  | S f =>
      let '(sz, rest) := match sizes with [] => (4096, all) | x :: r => (x, r) end in
      match lzma1_read s sz with
      | Ok (out, s1) =>
          if (0 <? sz) && (zlen out =? 0) then (frev acc, Ok s1)
          else lzma1_read_obs f s1 (match rest with [] => all | _ => rest end) all (rev_append out acc)
      | Err e => (frev acc, Err e)
      | Panic e => (frev acc, Panic e)
      | Fuel => (frev acc, Fuel)
      end
  end.

(* lzma1_read_obs refines lzma1_read_all *)
Lemma read_obs_all fuel : forall s sizes all acc,
  lzma1_read_all fuel s sizes all acc =
  match snd (lzma1_read_obs fuel s sizes all acc) with
  | Ok s1 => Ok (fst (lzma1_read_obs fuel s sizes all acc), s1)
  | Err e => Err e
  | Panic e => Panic e
  | Fuel => Fuel
  end.
Proof.
  induction fuel as [|f IH]; intros s sizes all acc; cbn [lzma1_read_all lzma1_read_obs]; [reflexivity|].
  destruct (match sizes with [] => (4096, all) | x :: r => (x, r) end) as [sz rest].
  destruct (lzma1_read s sz) as [[out s1]|e|e|]; cbn [obind fst snd]; try reflexivity.
  destruct ((0 <? sz) && (zlen out =? 0)); [reflexivity | apply IH].
Qed.

(* ---------------------------------------------------------------------------------------------
   (A) input monotonicity of the reader *)
Lemma rdec_init_trunc p tl d : rdec_init (p ++ tl) = Ok d ->
  rdec_init p = Err E_UNEXPECTED_EOF \/ exists dt, rdec_init p = Ok dt /\ d = rd_app dt tl /\ rd_over dt = 0.
Proof.
  destruct p as [|b0 [|b1 [|b2 [|b3 [|b4 r]]]]]; cbn [app rdec_init]; intros H.
  - left; reflexivity.
  - destruct (negb (b0 =? 0)); [discriminate | left; reflexivity].
  - destruct (negb (b0 =? 0)); [discriminate | left; reflexivity].
  - destruct (negb (b0 =? 0)); [discriminate | left; reflexivity].
  - destruct (negb (b0 =? 0)); [discriminate | left; reflexivity].
  - destruct (negb (b0 =? 0)); [discriminate|]. right. eexists. split; [reflexivity|].
    apply Ok_inj in H. subst d. split; reflexivity.
Qed.

Lemma rdec_init_mono p tl dt : rdec_init p = Ok dt -> rdec_init (p ++ tl) = Ok (rd_app dt tl) /\ rd_over dt = 0.
Proof.
  destruct p as [|b0 [|b1 [|b2 [|b3 [|b4 r]]]]]; cbn [app rdec_init]; intros H; try discriminate;
    try (destruct (negb (b0 =? 0)); discriminate).
  destruct (negb (b0 =? 0)); [discriminate|]. apply Ok_inj in H. subst dt. split; reflexivity.
Qed.

Lemma construct2_mono p tl u lc lp pb dict popt st :
  lzma1_construct2 p u lc lp pb dict popt = Ok st ->
  lzma1_construct2 (p ++ tl) u lc lp pb dict popt = Ok (l1_app st tl) /\ rd_over (l_rc st) = 0.
Proof.
  unfold lzma1_construct2. destruct ((8 <? lc) || (4 <? lp) || (4 <? pb)); [discriminate|].
  destruct (lzma1_get_dict_size dict) as [ds|e|e|]; cbn [obind]; try discriminate.
  match goal with |- context [if ?c then lzma1_get_dict_size (wrap32 u) else Ok ds] =>
    destruct (if c then lzma1_get_dict_size (wrap32 u) else Ok ds) as [ds1|e|e|] end; cbn [obind]; try discriminate.
  destruct (rdec_init p) as [dt|e|e|] eqn:Ei; cbn [obind]; try discriminate.
  destruct (rdec_init_mono p tl dt Ei) as (Hm & Ho). rewrite Hm. cbn [obind].
  destruct (lzma1_get_dict_size ds1) as [ds2|e|e|]; cbn [obind]; try discriminate.
  intros H. apply Ok_inj in H. subst st. split; [reflexivity | exact Ho].
Qed.

Lemma construct2_trunc p tl u lc lp pb dict popt sf :
  lzma1_construct2 (p ++ tl) u lc lp pb dict popt = Ok sf ->
  lzma1_construct2 p u lc lp pb dict popt = Err E_UNEXPECTED_EOF \/
  exists st, lzma1_construct2 p u lc lp pb dict popt = Ok st /\ sf = l1_app st tl /\ rd_over (l_rc st) = 0.
Proof.
  unfold lzma1_construct2. destruct ((8 <? lc) || (4 <? lp) || (4 <? pb)); [discriminate|].
  destruct (lzma1_get_dict_size dict) as [ds|e|e|]; cbn [obind]; try discriminate.
  match goal with |- context [if ?c then lzma1_get_dict_size (wrap32 u) else Ok ds] =>
    destruct (if c then lzma1_get_dict_size (wrap32 u) else Ok ds) as [ds1|e|e|] end; cbn [obind]; try discriminate.
  destruct (rdec_init (p ++ tl)) as [d|e|e|] eqn:Ei; cbn [obind]; try discriminate.
  destruct (rdec_init_trunc p tl d Ei) as [Ht|(dt & Ht & Hd & Ho)]; rewrite Ht; cbn [obind]; [left; reflexivity|].
  destruct (lzma1_get_dict_size ds1) as [ds2|e|e|]; cbn [obind]; try discriminate.
  intros H. apply Ok_inj in H. subst sf d. right. eexists. split; [reflexivity|]. split; [reflexivity | exact Ho].
Qed.

(* one iteration of read_decode *)
Lemma iter_mono s len tl out s1 : rd_over (l_rc s) = 0 -> lzma1_iter s len = Ok (out, s1) ->
  lzma1_iter (l1_app s tl) len = Ok (out, l1_app s1 tl) /\ rd_over (l_rc s1) = 0.
Proof.
  destruct s as [c w d t e r]. unfold l1_app, lzma1_iter; cbn [l_coder l_win l_rc l_probs l_end_reached l_remaining].
  intros Hd0 H.
  destruct (lzma_decode c _ d t) as [[[[[c1 w1] st] d1] t1]|x|x|] eqn:Ed; cbn [obind] in H; try discriminate.
  destruct (0 <? rd_over d1) eqn:Eo; [discriminate|]. apply Z.ltb_ge in Eo.
  pose proof (lzma_decode_over_mono _ _ _ _ _ _ _ _ _ Ed) as Hm.
  assert (Hd1 : rd_over d1 = 0) by lia.
  rewrite (lzma_decode_mono _ _ _ _ tl _ _ _ _ _ Ed ltac:(lia)). cbn [obind].
  rewrite rd_app_over. destruct (Z.ltb_spec 0 (rd_over d1)); [lia|].
  destruct st as [u|x|x|].
  - cbn [obind] in *. destruct (lzwin_flush w1) as [o w2].
    destruct (_ && lzwin_has_pending w2); [discriminate|].
    apply Ok_inj in H. apply pair_inj in H as [<- <-]. split; [reflexivity | exact Hd1].
  - destruct (negb (r =? U64_MAX) || negb (c_rep0 c1 =? 4294967295)); cbn [obind] in *; [discriminate|].
    destruct (0 <? rd_over (rdec_normalize d1)) eqn:En; cbn [obind] in *; [discriminate|]. apply Z.ltb_ge in En.
    pose proof (normalize_over_mono d1) as Hn.
    rewrite (normalize_app d1 tl ltac:(lia)). rewrite rd_app_over.
    destruct (Z.ltb_spec 0 (rd_over (rdec_normalize d1))); [lia|]. cbn [obind].
    destruct (lzwin_flush w1) as [o w2].
    destruct (_ && lzwin_has_pending w2); [discriminate|].
    apply Ok_inj in H. apply pair_inj in H as [<- <-]. split; [reflexivity | cbn [l_rc]; lia].
  - cbn [obind] in H. discriminate.
  - cbn [obind] in H. discriminate.
Qed.

Lemma l1_app_end s tl : l_end_reached (l1_app s tl) = l_end_reached s.
Proof. reflexivity. Qed.

Lemma loop_mono fuel tl : forall s len acc out s1, rd_over (l_rc s) = 0 ->
  lzma1_read_loop fuel s len acc = Ok (out, s1) ->
  lzma1_read_loop fuel (l1_app s tl) len acc = Ok (out, l1_app s1 tl) /\ rd_over (l_rc s1) = 0.
Proof.
  induction fuel as [|f IH]; intros s len acc out s1 Hd0 H; cbn [lzma1_read_loop] in *.
  - destruct (len <=? 0); [|discriminate]. apply Ok_inj in H. apply pair_inj in H as [<- <-]. split; [reflexivity | exact Hd0].
  - destruct (len <=? 0).
    + apply Ok_inj in H. apply pair_inj in H as [<- <-]. split; [reflexivity | exact Hd0].
    + destruct (lzma1_iter s len) as [[o s2]|x|x|] eqn:Ei; cbn [obind] in H; try discriminate.
      destruct (iter_mono s len tl o s2 Hd0 Ei) as (Hf & Ho). rewrite Hf. cbn [obind]. rewrite l1_app_end.
      destruct (l_end_reached s2).
      * apply Ok_inj in H. apply pair_inj in H as [<- <-]. split; [reflexivity | exact Ho].
      * apply IH; assumption.
Qed.

(* read(buf) *)
Theorem lzma1_read_mono s buflen tl out s1 : rd_over (l_rc s) = 0 -> lzma1_read s buflen = Ok (out, s1) ->
  lzma1_read (l1_app s tl) buflen = Ok (out, l1_app s1 tl) /\ rd_over (l_rc s1) = 0.
Proof.
  unfold lzma1_read. intros Hd0 H. rewrite l1_app_end.
  destruct (buflen <=? 0); [apply Ok_inj in H; apply pair_inj in H as [<- <-]; split; [reflexivity | exact Hd0]|].
  destruct (l_end_reached s); [apply Ok_inj in H; apply pair_inj in H as [<- <-]; split; [reflexivity | exact Hd0]|].
  apply loop_mono; assumption.
Qed.

(* a whole read history *)
Theorem lzma1_read_all_mono fuel tl : forall s sizes all acc out s1, rd_over (l_rc s) = 0 ->
  lzma1_read_all fuel s sizes all acc = Ok (out, s1) ->
  lzma1_read_all fuel (l1_app s tl) sizes all acc = Ok (out, l1_app s1 tl).
Proof.
  induction fuel as [|f IH]; intros s sizes all acc out s1 Hd0 H; cbn [lzma1_read_all] in *; [discriminate|].
  destruct (match sizes with [] => (4096, all) | x :: r => (x, r) end) as [sz rest].
  destruct (lzma1_read s sz) as [[o s2]|x|x|] eqn:Er; cbn [obind] in H; try discriminate.
  destruct (lzma1_read_mono s sz tl o s2 Hd0 Er) as (Hf & Ho). rewrite Hf. cbn [obind].
  destruct ((0 <? sz) && (zlen o =? 0)).
  - apply Ok_inj in H. apply pair_inj in H as [<- <-]. reflexivity.
  - apply IH; assumption.
Qed.

(* ---------------------------------------------------------------------------------------------
   (B) one iteration over a truncated source: the decoder survives, the iteration reports
   UnexpectedEof or does what the iteration over the complete source does *)
Definition rsafe (s : lzma1) : Prop :=
  exists hist, Rel (l_win s) hist /\ hist_bytes hist /\ coder_ok (l_coder s) (w_full (l_win s)) /\
    (0 < w_pending_len (l_win s) -> 0 <= w_pending_dist (l_win s) < w_full (l_win s)) /\
    probs_ok (l_probs s) /\ rdec_wf (l_rc s).

Lemma iter_trunc s len tl r : rsafe s -> rd_over (l_rc s) = 0 -> 0 <= csm s len ->
  lzma1_iter (l1_app s tl) len = Ok r ->
  lzma1_iter s len = Err E_UNEXPECTED_EOF \/ exists out s1, lzma1_iter s len = Ok (out, s1).
Proof.
  intros (hist & R & Hhb & Hco & Hpd & Hpr & Hwf) Hd0 Hcsm.
  destruct (set_limit_rel (l_win s) hist (csm s len) R Hcsm) as (R' & Hpl').
  destruct (lzma_decode_total (l_coder s) (lzwin_set_limit (l_win s) (csm s len)) hist (l_rc s) (l_probs s)
              R' Hhb Hco Hpl' Hpd Hpr Hwf) as (c1 & w1 & st & d1 & t1 & Hdec & Hst & _).
  pose proof (lzma_decode_over_mono _ _ _ _ _ _ _ _ _ Hdec) as Hm.
  unfold lzma1_iter. fold (csm s len). fold (csm (l1_app s tl) len).
  change (csm (l1_app s tl) len) with (csm s len).
  cbn [l1_app l_coder l_win l_rc l_probs l_end_reached l_remaining].
  rewrite Hdec. cbn [obind].
  destruct (Z.ltb_spec 0 (rd_over d1)) as [Hov|Hnov]; [intros _; left; reflexivity|].
  rewrite (lzma_decode_mono _ _ _ _ tl _ _ _ _ _ Hdec ltac:(lia)). cbn [obind]. rewrite rd_app_over.
  destruct (Z.ltb_spec 0 (rd_over d1)); [lia|].
  destruct Hst as [->|(e & ->)].
  - cbn [obind]. destruct (lzwin_flush w1) as [o w2].
    destruct (_ && lzwin_has_pending w2); [discriminate|]. intros _. right. eexists. eexists. reflexivity.
  - destruct (negb (l_remaining s =? U64_MAX) || negb (c_rep0 c1 =? 4294967295)); cbn [obind]; [discriminate|].
    destruct (Z.ltb_spec 0 (rd_over (rdec_normalize d1))) as [Hov2|Hnov2]; cbn [obind]; [intros _; left; reflexivity|].
    pose proof (normalize_over_mono d1) as Hn.
    rewrite (normalize_app d1 tl ltac:(lia)). rewrite rd_app_over.
    destruct (Z.ltb_spec 0 (rd_over (rdec_normalize d1))); [lia|]. cbn [obind].
    destruct (lzwin_flush w1) as [o w2].
    destruct (_ && lzwin_has_pending w2); [discriminate|]. intros _. right. eexists. eexists. reflexivity.
Qed.

(* bytes *)
Lemma hist_bytes_in l : (forall x, In x l -> 0 <= x < 256) -> hist_bytes l.
Proof.
  induction l as [|a l IH]; intros H.
  - intros d. unfold hnth, zth. destruct (d <? 0); [lia|]. destruct (Z.to_nat d); cbn [nth_opt]; lia.
  - apply hist_bytes_cons; [apply H; left; reflexivity | apply IH; intros x Hx; apply H; right; exact Hx].
Qed.

Lemma bytes_ok_in l x : bytes_ok l = true -> In x l -> 0 <= x < 256.
Proof.
  unfold bytes_ok. intros H Hx. rewrite forallb_forall in H. specialize (H x Hx).
  unfold is_byte in H. apply andb_true_iff in H as [H1 H2]. apply Z.leb_le in H1. apply Z.ltb_lt in H2. lia.
Qed.

Lemma hist_bytes_suffix new hist : hist_bytes (new ++ hist) -> hist_bytes hist.
Proof.
  intros H d. destruct (Z.lt_ge_cases d 0) as [Hneg|Hpos].
  - unfold hnth, zth. destruct (Z.ltb_spec d 0); lia.
  - specialize (H (zlen new + d)). pose proof (zlen_nonneg new).
    rewrite hnth_app_r in H by lia. replace (zlen new + d - zlen new) with d in H by lia. exact H.
Qed.

(* ---------------------------------------------------------------------------------------------
   the read loops over the truncated source, next to the loops over the complete stream *)
Section Trunc.
Variable E : list event.
Variable W : Z.
Variable data : list Z.
Variable hist0 : list Z.
Variable marker : bool.
Variable tl : list Z.           (* the part of the stream that was cut off *)
Hypothesis Hsmall : zlen data <= U64_HALF.
Hypothesis Hhb : hist_bytes (rev data ++ hist0).
Hypothesis Htl : tl <> [].
Notation N := (length data).
(* the complete stream is followed by nothing *)
Notation InvF := (InvG E [] W data hist0 marker).

Lemma InvG_rsafe strict k s : InvF strict k (l1_app s tl) -> rsafe s /\ forall len, 0 < len -> 0 <= csm s len.
Proof.
  intros (HkN & hist & done & rest & sN & restN & HE & Hsim & R & Hst & Hpos & Hsz & Hco & Hpd & Hrun & Hfin & Hend & Hrem).
  cbn [l1_app l_coder l_win l_rc l_probs l_end_reached l_remaining] in *.
  split.
  - exists hist. split; [exact R|].
    assert (HwfE : Forall ev_wf E) by (apply forall_ev_wf; destruct Hsim as (_ & H & _); exact H).
    assert (Hwfr : Forall ev_wf rest) by (rewrite HE in HwfE; eapply Forall_app_r; exact HwfE).
    split.
    { destruct (run_trace_grows _ _ _ _ _ _ Hwfr Hrun) as (_ & Hg & _).
      destruct (Hg eq_refl) as (new & Hh & _). cbn [a_hist fst] in Hh.
      destruct Hfin as (HH & _). apply (hist_bytes_suffix new). rewrite <- Hh, HH. exact Hhb. }
    split; [exact Hco|]. split; [exact Hpd|].
    destruct (rc_sim_state _ _ _ _ _ _ Hsim) as ((_ & Hrange) & Hpr & _).
    split; [exact Hpr|].
    destruct Hsim as (_ & _ & _ & rest' & _ & _ & (Hr & _)).
    unfold rdec_wf. unfold rdec_normalize in Hr. rewrite rd_app_range in Hr.
    destruct (Z.ltb_spec (rd_range (l_rc s)) P2_24) as [Hlt|Hge].
    + unfold P2_24 in Hlt. lia.
    + change (rd_range (rd_app (l_rc s) tl)) with (rd_range (l_rc s)) in Hr. lia.
  - intros len Hlen. unfold csm. rewrite Hrem. destruct marker.
    + change (U64_MAX <=? U64_HALF) with false. cbn [andb]. lia.
    + destruct ((Z.of_nat (N - k) <=? U64_HALF) && (Z.of_nat (N - k) <? len)); lia.
Qed.

Lemma iter_pair strict k s len : InvF strict k (l1_app s tl) -> rd_over (l_rc s) = 0 -> 0 < len ->
  lzma1_iter s len = Err E_UNEXPECTED_EOF \/
  exists out s1, lzma1_iter s len = Ok (out, s1) /\ lzma1_iter (l1_app s tl) len = Ok (out, l1_app s1 tl) /\
                 rd_over (l_rc s1) = 0.
Proof.
  intros HI Hd0 Hlen.
  destruct (InvG_rsafe _ _ _ HI) as (Hsafe & Hcsm).
  destruct (iter_step E [] W data hist0 marker Hsmall strict k (l1_app s tl) len HI Hlen) as (m & sf & Hit & _).
  destruct (iter_trunc s len tl _ Hsafe Hd0 (Hcsm len Hlen) Hit) as [He|(out & s1 & Hok)]; [left; exact He|].
  right. exists out, s1. split; [exact Hok|]. apply iter_mono; assumption.
Qed.

Notation EOF := (Err E_UNEXPECTED_EOF).

(* the while loop of read_decode (cf. loop_steps) *)
Lemma loop_pair fuel : forall k s len acc, InvF true k (l1_app s tl) -> rd_over (l_rc s) = 0 ->
  0 <= len <= Z.of_nat fuel ->
  lzma1_read_loop fuel s len acc = EOF \/
  exists out s1, lzma1_read_loop fuel s len acc = Ok (out, s1) /\
                 lzma1_read_loop fuel (l1_app s tl) len acc = Ok (out, l1_app s1 tl) /\ rd_over (l_rc s1) = 0.
Proof.
  induction fuel as [|f IH]; intros k s len acc HI Hd0 Hlen.
  - assert (len = 0) by lia. subst len. cbn [lzma1_read_loop]. change (0 <=? 0) with true. cbv iota.
    right. eexists. eexists. split; [reflexivity|]. split; [reflexivity | exact Hd0].
  - cbn [lzma1_read_loop]. destruct (Z.leb_spec len 0) as [Hz|Hpos].
    + right. eexists. eexists. split; [reflexivity|]. split; [reflexivity | exact Hd0].
    + destruct (iter_step E [] W data hist0 marker Hsmall true k (l1_app s tl) len HI Hpos) as (m1 & sf & Hit & Hm1 & Hk1 & Hcase).
      destruct (iter_pair true k s len HI Hd0 Hpos) as [He|(out & s1 & Hok & Hf & Ho)].
      * rewrite He. cbn [obind]. left; reflexivity.
      * rewrite Hok, Hf. cbn [obind]. rewrite l1_app_end.
        rewrite Hf in Hit. apply Ok_inj in Hit. apply pair_inj in Hit as [Hout Hsf]. subst sf.
        assert (Hzl : zlen out = Z.of_nat m1) by (rewrite Hout; unfold zlen; rewrite seg_length; lia).
        destruct Hcase as [((Hend & _) & _)|(HI1 & Hm1pos)].
        -- rewrite l1_app_end in Hend. rewrite Hend. right. eexists. eexists.
           split; [reflexivity|]. split; [reflexivity | exact Ho].
        -- specialize (Hm1pos eq_refl).
           pose proof (Inv_not_ended _ _ _ _ _ _ _ _ _ HI1) as Hne. rewrite l1_app_end in Hne. rewrite Hne.
           apply (IH (k + m1)%nat); [exact HI1 | exact Ho | lia].
Qed.

(* from a state whose window may be full (cf. loop_steps_weak) *)
Lemma loop_pair_weak fuel strict k s len acc : InvF strict k (l1_app s tl) -> rd_over (l_rc s) = 0 ->
  0 < len -> len + 1 <= Z.of_nat fuel ->
  lzma1_read_loop fuel s len acc = EOF \/
  exists out s1, lzma1_read_loop fuel s len acc = Ok (out, s1) /\
                 lzma1_read_loop fuel (l1_app s tl) len acc = Ok (out, l1_app s1 tl) /\ rd_over (l_rc s1) = 0.
Proof.
  intros HI Hd0 Hlen Hf. destruct fuel as [|f]; [lia|].
  cbn [lzma1_read_loop]. destruct (Z.leb_spec len 0) as [Hz|_]; [lia|].
  destruct (iter_step E [] W data hist0 marker Hsmall strict k (l1_app s tl) len HI Hlen) as (m1 & sf & Hit & Hm1 & Hk1 & Hcase).
  destruct (iter_pair strict k s len HI Hd0 Hlen) as [He|(out & s1 & Hok & Hfl & Ho)].
  - rewrite He. cbn [obind]. left; reflexivity.
  - rewrite Hok, Hfl. cbn [obind]. rewrite l1_app_end.
    rewrite Hfl in Hit. apply Ok_inj in Hit. apply pair_inj in Hit as [Hout Hsf]. subst sf.
    assert (Hzl : zlen out = Z.of_nat m1) by (rewrite Hout; unfold zlen; rewrite seg_length; lia).
    destruct Hcase as [((Hend & _) & _)|(HI1 & _)].
    + rewrite l1_app_end in Hend. rewrite Hend. right. eexists. eexists.
      split; [reflexivity|]. split; [reflexivity | exact Ho].
    + pose proof (Inv_not_ended _ _ _ _ _ _ _ _ _ HI1) as Hne. rewrite l1_app_end in Hne. rewrite Hne.
      apply (loop_pair f (k + m1)%nat); [exact HI1 | exact Ho | lia].
Qed.

(* read(buf) *)
Lemma read_pair strict k s buflen : InvF strict k (l1_app s tl) -> rd_over (l_rc s) = 0 -> 0 < buflen ->
  lzma1_read s buflen = EOF \/
  exists out s1, lzma1_read s buflen = Ok (out, s1) /\
                 lzma1_read (l1_app s tl) buflen = Ok (out, l1_app s1 tl) /\ rd_over (l_rc s1) = 0.
Proof.
  intros HI Hd0 Hb. unfold lzma1_read. destruct (Z.leb_spec buflen 0); [lia|].
  pose proof (Inv_not_ended _ _ _ _ _ _ _ _ _ HI) as Hne. rewrite l1_app_end in *. rewrite Hne.
  apply (loop_pair_weak _ strict k); [exact HI | exact Hd0 | exact Hb | lia].
Qed.

(* a whole read history: it ends with UnexpectedEof after a prefix of the data (cf. read_all_steps) *)
Lemma read_all_trunc fuel : forall strict k s cur all acc, InvF strict k (l1_app s tl) -> rd_over (l_rc s) = 0 ->
  Forall (fun z => 0 < z) cur -> Forall (fun z => 0 < z) all -> (N - k + 2 <= fuel)%nat ->
  exists m, lzma1_read_obs fuel s cur all acc = (rev acc ++ seg data k m, EOF) /\ (k + m <= N)%nat.
Proof.
  induction fuel as [|f IH]; intros strict k s cur all acc HI Hd0 Hc Ha Hf; [lia|].
  cbn [lzma1_read_obs].
  set (sz := fst (match cur with [] => (4096, all) | x :: r => (x, r) end)).
  set (rest := snd (match cur with [] => (4096, all) | x :: r => (x, r) end)).
  assert (Hsz : 0 < sz) by (unfold sz; destruct cur as [|x r]; cbn [fst]; [lia | inversion Hc; assumption]).
  assert (Hrest : Forall (fun z => 0 < z) rest)
    by (unfold rest; destruct cur as [|x r]; cbn [snd]; [assumption | inversion Hc; assumption]).
  replace (match cur with [] => (4096, all) | x :: r => (x, r) end) with (sz, rest)
    by (unfold sz, rest; destruct cur; reflexivity).
  assert (Hnext : Forall (fun z => 0 < z) (match rest with [] => all | _ => rest end))
    by (destruct rest; assumption).
  destruct (read_steps E [] W data hist0 marker Hsmall strict k (l1_app s tl) sz HI Hsz) as (m & sf & Hrd & Hk & Hcase).
  destruct (read_pair strict k s sz HI Hd0 Hsz) as [He|(out & s1 & Hok & Hfl & Ho)].
  - rewrite He. exists 0%nat. rewrite frev_rev, seg_nil, app_nil_r. split; [reflexivity|]. destruct HI; lia.
  - rewrite Hok. rewrite Hfl in Hrd. apply Ok_inj in Hrd. apply pair_inj in Hrd as [Hout Hsf]. subst sf.
    assert (Hzl : zlen out = Z.of_nat m) by (rewrite Hout; unfold zlen; rewrite seg_length; lia).
    destruct Hcase as [((_ & Hin) & _)|(HI1 & Hm)].
    + (* the complete stream ends here: but the cut-off bytes are still unread *)
      exfalso. cbn [l1_app l_rc rd_app rd_in] in Hin. apply app_eq_nil in Hin as [_ Hin]. exact (Htl Hin).
    + destruct (Z.ltb_spec 0 sz); [|lia]. cbn [andb]. rewrite Hzl.
      destruct (Z.eqb_spec (Z.of_nat m) 0) as [Hm0|Hm0]; [lia|].
      destruct (IH true (k + m)%nat s1 (match rest with [] => all | _ => rest end) all (rev_append out acc)
                  HI1 Ho Hnext Ha ltac:(lia)) as (m2 & Hobs & Hk2).
      exists (m + m2)%nat. rewrite Hobs, rev_rev_append, <- app_assoc, Hout, seg_app. split; [reflexivity | lia].
Qed.

End Trunc.

(* ---------------------------------------------------------------------------------------------
   from the writer model to the invariant (cf. reader_roundtrip and lzma1_roundtrip_body of
   Lzma1ReadProofs.v, whose set-up is repeated here with the invariant exported) *)
Lemma In_skipn {A} (x : A) n l : In x (skipn n l) -> In x l.
Proof. intros H. rewrite <- (firstn_skipn n l). apply in_or_app. right. exact H. Qed.

Lemma writer_hist_bytes dict preset data : bytes_ok preset = true -> bytes_ok data = true ->
  hist_bytes (rev data ++ rev (preset_kept dict preset)).
Proof.
  intros Hp Hd. apply hist_bytes_in. intros x Hx. apply in_app_or in Hx as [Hx|Hx]; apply in_rev in Hx.
  - exact (bytes_ok_in _ _ Hd Hx).
  - unfold preset_kept, lastn in Hx. apply In_skipn in Hx. exact (bytes_ok_in _ _ Hp Hx).
Qed.

Lemma lzma1_written_inv : forall lc lp pb dict popt data syms use_header use_end_marker expected stream,
  0 <= lc <= 8 -> 0 <= lp <= 4 -> 0 <= pb <= 4 -> 4096 <= dict <= 2147483648 ->
  let preset := preset_list popt in
  bytes_ok preset = true -> bytes_ok data = true -> no_end syms ->
  preset_hyps dict preset data use_end_marker ->
  lzma1_write lc lp pb dict preset data syms use_header use_end_marker expected = Ok stream ->
  (forall E c' h', enc_syms (coder_new lc lp pb) (ehist_new dict preset data) (syms ++ end_syms use_end_marker) = Ok (E, c', h') ->
     events_bits E <= RC_MAX_BITS) ->
  let uncomp := if use_end_marker then U64_MAX else zlen data in
  exists body s0 E W,
    stream = (if use_header then lzma1_header lc lp pb dict expected else []) ++ body /\
    lzma1_construct2 body uncomp lc lp pb dict popt = Ok s0 /\ zlen data <= U64_HALF /\
    InvG E [] W data (rev (preset_kept dict preset)) use_end_marker false 0 s0.
Proof.
  intros lc lp pb dict popt data syms use_header marker expected stream Hlc Hlp Hpb Hdict preset
         Hbp Hbd Hne (HP1 & HP2) Hw Hbits uncomp.
  destruct (lzma1_write_inv _ _ _ _ _ _ _ _ _ _ _ Hw) as (E1 & c1 & h1 & E2 & cE & hE & Hsyms & Hall & Hend & Hfull & ->).
  specialize (Hbits _ _ _ Hfull).
  assert (Hu : 0 <= uncomp) by (unfold uncomp, U64_MAX; destruct marker; [lia | apply zlen_nonneg]).
  assert (Hok : forallb RangeEncProofs.ev_ok (E1 ++ E2) = true).
  { rewrite forallb_ev_ok_same. eapply enc_syms_events_ok; [|exact Hfull]. cbn [ehist_new h_dict]. lia. }
  destruct (rc_sim_init (E1 ++ E2) PLeaf [] probs_ok_empty Hok Hbits) as (d0 & Hinit & Hsim).
  rewrite app_nil_r in Hinit.
  destruct (construct2_ok _ d0 uncomp lc lp pb dict popt Hlc Hlp Hpb Hdict Hinit Hu) as (W & Hc2 & HWr & HW16 & HWd).
  pose proof (zlen_nonneg preset) as Hp0. pose proof (zlen_nonneg data) as Hd0.
  assert (HuM : marker = true -> ~ uncomp <= U64_HALF) by (intros ->; unfold uncomp, U64_MAX, U64_HALF; lia).
  assert (HuD : marker = false -> uncomp = zlen data) by (intros ->; reflexivity).
  assert (Hmin : Z.min (zlen preset) W = Z.min (zlen preset) dict).
  { destruct HWd as [HWd|(Hh & HWd)].
    - destruct HP1 as [HP1|HP1]; lia.
    - destruct marker; [exfalso; apply HuM; [reflexivity | exact Hh]|]. rewrite (HuD eq_refl) in HWd.
      destruct HP2 as [HP2|[HP2|HP2]]; [discriminate | destruct HP1 as [HP1|HP1]; lia | lia]. }
  assert (HWfit : dict <= W \/ zlen (preset_kept dict preset) + zlen data <= W).
  { rewrite preset_kept_length by lia. destruct HWd as [HWd|(Hh & HWd)]; [left; exact HWd|].
    destruct marker; [exfalso; apply HuM; [reflexivity | exact Hh]|]. rewrite (HuD eq_refl) in HWd.
    destruct HP2 as [HP2|[HP2|HP2]]; [discriminate | left; lia | right; lia]. }
  destruct (lzwin_new_start W dict popt ltac:(lia) HW16 Hmin) as (R0 & Hst0 & Hsz0 & Hpl0 & Hpd0).
  fold preset in R0.
  destruct (stream_facts lc lp pb dict preset data syms marker W E1 c1 h1 E2 Hdict Hbp Hbd Hne HWfit ltac:(lia) Hsyms Hall Hend)
    as (sN & Hrun & Hfin & Hpos1).
  assert (Hsmall : zlen data <= U64_HALF).
  { pose proof (enc_syms_adv _ _ _ _ _ _ Hsyms) as Hadv. rewrite Hpos1 in Hadv. cbn [ehist_new h_pos] in Hadv.
    rewrite events_bits_app in Hbits. pose proof (events_bits_nonneg E2).
    pose proof (zlen_nonneg (preset_kept dict preset)).
    unfold RC_MAX_BITS in Hbits. unfold U64_HALF. lia. }
  eexists. eexists. exists (E1 ++ E2), W.
  split; [reflexivity|]. split; [exact Hc2|]. split; [exact Hsmall|].
  split; [lia|]. exists (rev (preset_kept dict preset)), [], (E1 ++ E2), sN, E2.
  cbn [l_coder l_win l_rc l_probs l_end_reached l_remaining].
  split; [reflexivity|]. split; [exact Hsim|]. split; [exact R0|]. split; [exact Hst0|].
  split; [intros; discriminate|].
  split; [exact Hsz0|]. split; [apply coder_new_ok; assumption|]. split; [intros; lia|].
  split; [rewrite Nat.sub_0_r, Hsz0, Hpl0, Hpd0; exact Hrun|]. split; [exact Hfin|]. split; [reflexivity|].
  unfold uncomp. destruct marker; [reflexivity|]. rewrite Nat.sub_0_r. reflexivity.
Qed.

(* ---------------------------------------------------------------------------------------------
   TRUNCATED STREAM, general form: optional header / preset dictionary, the part of the source
   behind the header is a proper prefix [p] of the coded stream [body] *)
Theorem lzma1_truncated_body : forall lc lp pb dict popt data syms use_header use_end_marker expected stream sizes,
  0 <= lc <= 8 -> 0 <= lp <= 4 -> 0 <= pb <= 4 -> 4096 <= dict <= 2147483648 ->
  let preset := preset_list popt in
  bytes_ok preset = true -> bytes_ok data = true -> no_end syms ->
  preset_hyps dict preset data use_end_marker ->
  lzma1_write lc lp pb dict preset data syms use_header use_end_marker expected = Ok stream ->
  (forall E c' h', enc_syms (coder_new lc lp pb) (ehist_new dict preset data) (syms ++ end_syms use_end_marker) = Ok (E, c', h') ->
     events_bits E <= RC_MAX_BITS) ->
  Forall (fun z => 0 < z) sizes ->
  let uncomp := if use_end_marker then U64_MAX else zlen data in
  exists body,
    stream = (if use_header then lzma1_header lc lp pb dict expected else []) ++ body /\
    forall p tl, body = p ++ tl -> tl <> [] ->
      lzma1_construct2 p uncomp lc lp pb dict popt = Err E_UNEXPECTED_EOF \/
      exists s0, lzma1_construct2 p uncomp lc lp pb dict popt = Ok s0 /\
        forall fuel, zlen data + 2 <= Z.of_nat fuel ->
        exists m, lzma1_read_obs fuel s0 sizes sizes [] = (firstn m data, Err E_UNEXPECTED_EOF).
Proof.
  intros lc lp pb dict popt data syms use_header marker expected stream sizes Hlc Hlp Hpb Hdict preset
         Hbp Hbd Hne HP Hw Hbits Hsizes uncomp.
  destruct (lzma1_written_inv lc lp pb dict popt data syms use_header marker expected stream Hlc Hlp Hpb Hdict
              Hbp Hbd Hne HP Hw Hbits) as (body & sf & E & W & Hst & Hc2 & Hsmall & HI).
  exists body. split; [exact Hst|]. intros p tl Hbody Htl. subst body.
  destruct (construct2_trunc p tl _ _ _ _ _ _ _ Hc2) as [He|(s0 & Hc & Hsf & Ho)]; [left; exact He|].
  right. exists s0. split; [exact Hc|]. intros fuel Hfuel. subst sf.
  destruct (read_all_trunc E W data (rev (preset_kept dict preset)) marker tl Hsmall
              (writer_hist_bytes dict preset data Hbp Hbd) Htl fuel false 0 s0 sizes sizes [] HI Ho Hsizes Hsizes)
    as (m & Hobs & _).
  { unfold zlen in Hfuel. lia. }
  exists m. rewrite Hobs. reflexivity.
Qed.

(* raw stream (no header, no preset dictionary): every proper prefix of what the writer produced *)
Theorem lzma1_truncated_raw : forall lc lp pb dict data syms use_end_marker stream sizes k,
  0 <= lc <= 8 -> 0 <= lp <= 4 -> 0 <= pb <= 4 -> 4096 <= dict <= 2147483648 ->
  bytes_ok data = true -> no_end syms ->
  lzma1_write lc lp pb dict [] data syms false use_end_marker None = Ok stream ->
  (forall E c' h', enc_syms (coder_new lc lp pb) (ehist_new dict [] data) (syms ++ end_syms use_end_marker) = Ok (E, c', h') ->
     events_bits E <= RC_MAX_BITS) ->
  Forall (fun z => 0 < z) sizes ->
  (k < length stream)%nat ->
  let uncomp := if use_end_marker then U64_MAX else zlen data in
  lzma1_construct2 (firstn k stream) uncomp lc lp pb dict None = Err E_UNEXPECTED_EOF \/
  exists s0, lzma1_construct2 (firstn k stream) uncomp lc lp pb dict None = Ok s0 /\
    forall fuel, zlen data + 2 <= Z.of_nat fuel ->
    exists m, lzma1_read_obs fuel s0 sizes sizes [] = (firstn m data, Err E_UNEXPECTED_EOF) /\
              lzma1_read_all fuel s0 sizes sizes [] = Err E_UNEXPECTED_EOF.
Proof.
  intros lc lp pb dict data syms marker stream sizes k Hlc Hlp Hpb Hdict Hbd Hne Hw Hbits Hsizes Hk uncomp.
  destruct (lzma1_truncated_body lc lp pb dict None data syms false marker None stream sizes Hlc Hlp Hpb Hdict
              eq_refl Hbd Hne (preset_hyps_none dict data marker ltac:(lia)) Hw Hbits Hsizes)
    as (body & Hst & Htr).
  cbn [app] in Hst. subst body.
  assert (Htl : skipn k stream <> []).
  { intros Hnil. pose proof (skipn_length k stream) as Hl. rewrite Hnil in Hl. cbn [length] in Hl. lia. }
  destruct (Htr (firstn k stream) (skipn k stream) (eq_sym (firstn_skipn k stream)) Htl) as [He|(s0 & Hc & Hread)];
    [left; exact He|].
  right. exists s0. split; [exact Hc|]. intros fuel Hfuel. destruct (Hread fuel Hfuel) as (m & Hobs).
  exists m. split; [exact Hobs|]. rewrite read_obs_all, Hobs. reflexivity.
Qed.

(* the .lzma file (13-byte header, optional preset dictionary): every proper prefix *)
Lemma new_mem_limit_short input mem popt : (length input < 13)%nat ->
  lzma1_new_mem_limit input mem popt = Err E_UNEXPECTED_EOF.
Proof.
  intros H. unfold lzma1_new_mem_limit.
  do 13 (destruct input as [|? input]; [reflexivity|]). cbn [length] in H. lia.
Qed.

Theorem lzma1_truncated_header : forall lc lp pb dict popt data syms use_end_marker stream sizes mem_limit_kb need k,
  0 <= lc <= 8 -> 0 <= lp <= 4 -> 0 <= pb <= 4 -> 4096 <= dict <= 2147483648 ->
  let preset := preset_list popt in
  bytes_ok preset = true -> bytes_ok data = true -> no_end syms ->
  preset_hyps dict preset data use_end_marker ->
  lzma1_write lc lp pb dict preset data syms true use_end_marker
              (if use_end_marker then None else Some (zlen data)) = Ok stream ->
  (forall E c' h', enc_syms (coder_new lc lp pb) (ehist_new dict preset data) (syms ++ end_syms use_end_marker) = Ok (E, c', h') ->
     events_bits E <= RC_MAX_BITS) ->
  Forall (fun z => 0 < z) sizes ->
  lzma1_memory_usage dict lc lp = Ok need -> need <= mem_limit_kb ->
  (k < length stream)%nat ->
  lzma1_new_mem_limit (firstn k stream) mem_limit_kb popt = Err E_UNEXPECTED_EOF \/
  exists s0, lzma1_new_mem_limit (firstn k stream) mem_limit_kb popt = Ok s0 /\
    forall fuel, zlen data + 2 <= Z.of_nat fuel ->
    exists m, lzma1_read_obs fuel s0 sizes sizes [] = (firstn m data, Err E_UNEXPECTED_EOF) /\
              lzma1_read_all fuel s0 sizes sizes [] = Err E_UNEXPECTED_EOF.
Proof.
  intros lc lp pb dict popt data syms marker stream sizes mem need k Hlc Hlp Hpb Hdict preset Hbp Hbd Hne HP Hw Hbits
         Hsizes Hmem Hneed Hk.
  destruct (lzma1_written_inv lc lp pb dict popt data syms true marker _ stream Hlc Hlp Hpb Hdict
              Hbp Hbd Hne HP Hw Hbits) as (body0 & sf & E & W & Hst0 & _ & Hsmall & _).
  destruct (lzma1_truncated_body lc lp pb dict popt data syms true marker _ stream sizes Hlc Hlp Hpb Hdict
              Hbp Hbd Hne HP Hw Hbits Hsizes) as (body & Hst & Htr).
  set (hdr := lzma1_header lc lp pb dict (if marker then None else Some (zlen data))) in *.
  assert (Hhl : length hdr = 13%nat) by reflexivity.
  destruct (le_lt_dec 13 k) as [Hge|Hlt].
  - (* the header is complete *)
    assert (Hp : firstn k stream = hdr ++ firstn (k - 13) body).
    { rewrite Hst, firstn_app, Hhl. rewrite firstn_all2 by lia. reflexivity. }
    assert (Htl : skipn (k - 13) body <> []).
    { intros Hnil. pose proof (skipn_length (k - 13) body) as Hl. rewrite Hnil in Hl. cbn [length] in Hl.
      rewrite Hst, app_length, Hhl in Hk. lia. }
    pose proof (zlen_nonneg data) as Hd0.
    rewrite Hp. unfold hdr.
    rewrite (header_parse lc lp pb dict _ (firstn (k - 13) body) mem popt need Hlc Hlp Hpb ltac:(lia));
      [| destruct marker; [lia | unfold U64_HALF in Hsmall; lia] | exact Hmem | exact Hneed].
    destruct (Htr (firstn (k - 13) body) (skipn (k - 13) body) (eq_sym (firstn_skipn _ body)) Htl) as [He|(s0 & Hc & Hread)].
    + left. rewrite <- He. destruct marker; reflexivity.
    + right. exists s0. split; [rewrite <- Hc; destruct marker; reflexivity|].
      intros fuel Hfuel. destruct (Hread fuel Hfuel) as (m & Hobs).
      exists m. split; [exact Hobs|]. rewrite read_obs_all, Hobs. reflexivity.
  - left. apply new_mem_limit_short. rewrite firstn_length. lia.
Qed.

(* ---------------------------------------------------------------------------------------------
   non-vacuity and the statement evaluated: every proper prefix of a written stream *)
Definition trunc_run (marker : bool) (k : nat) (sizes : list Z) : outcome (list Z * outcome lzma1) :=
  do stream <- lzma1_write 3 0 2 4096 [] ex_data ex_syms false marker None;
  match lzma1_construct2 (firstn k stream) (if marker then U64_MAX else zlen ex_data) 3 0 2 4096 None with
  | Ok s0 => Ok (lzma1_read_obs 20 s0 sizes sizes [])
  | Err e => Ok ([], Err e)
  | Panic e => Panic e
  | Fuel => Fuel
  end.

Fixpoint is_prefix (a b : list Z) : bool :=
  match a, b with
  | [], _ => true
  | x :: a', y :: b' => (x =? y) && is_prefix a' b'
  | _ :: _, [] => false
  end.

Definition is_eof_prefix (r : outcome (list Z * outcome lzma1)) : bool :=
  match r with
  | Ok (out, Err e) => (e =? E_UNEXPECTED_EOF) && is_prefix out ex_data
  | _ => false
  end.

Definition all_cuts (marker : bool) (sizes : list Z) : bool :=
  match lzma1_write 3 0 2 4096 [] ex_data ex_syms false marker None with
  | Ok stream => (5 <? length stream)%nat && forallb (fun k => is_eof_prefix (trunc_run marker k sizes)) (seq 0 (length stream))
  | _ => false
  end.

(* every cut point of the example stream (end marker / declared size), two read histories *)
Example lzma1_truncated_all_cuts :
  all_cuts true [1; 3] = true /\ all_cuts false [1; 3] = true /\ all_cuts true [4096] = true /\ all_cuts false [2] = true.
Proof. vm_compute. repeat split; reflexivity. Qed.

Print Assumptions run_rc_mono.
Print Assumptions lzma1_read_all_mono.
Print Assumptions lzma1_truncated_raw.
Print Assumptions lzma1_truncated_header.
