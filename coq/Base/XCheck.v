(* Base/XCheck.v — comparison helpers of the extraction cross-check (lib/framework.py: xcheck).
   On every check a sample of the very cases the extracted OCaml driver answered is evaluated
   again INSIDE Coq by [vm_compute] on the same Gallina definitions, and the two answers are
   compared by the boolean functions below.  This takes extraction (ExtrOcamlBasic,
   ExtrOcamlZBigInt, ExtrOcamlNatBigInt), zarith and the OCaml compiler out of the trusted base
   for the sampled cases: a disagreement means the program that was run against the
   implementation is not the model the theorems are about.  Definitions, and the lemmas saying
   that an answer counted as "agreed" is an equality of values. *)
From LzVerif Require Import Base.Bytes.

(* What the driver printed: "OK v" / "ERR c" / "PANIC" (the panic code is not printed) / "FUEL". *)
Inductive xout (A : Type) : Type :=
| XOk (a : A)
| XErr (code : Z)
| XPanic
| XFuel.
Arguments XOk {A} a.
Arguments XErr {A} code.
Arguments XPanic {A}.
Arguments XFuel {A}.

Fixpoint zlist_eqb (a b : list Z) : bool :=
  match a, b with
  | [], [] => true
  | x :: a', y :: b' => (x =? y) && zlist_eqb a' b'
  | _, _ => false
  end.

Definition zpair_eqb (a b : Z * Z) : bool := (fst a =? fst b) && (snd a =? snd b).

Definition ztriple_eqb (a b : Z * Z * Z) : bool :=
  (fst (fst a) =? fst (fst b)) && (snd (fst a) =? snd (fst b)) && (snd a =? snd b).

Definition x_outcome {A} (eqb : A -> A -> bool) (o : outcome A) (e : xout A) : bool :=
  match o, e with
  | Ok a, XOk b => eqb a b
  | Err c, XErr d => c =? d
  | Panic _, XPanic => true
  | Fuel, XFuel => true
  | _, _ => false
  end.

Definition x_option {A} (eqb : A -> A -> bool) (o e : option A) : bool :=
  match o, e with
  | Some a, Some b => eqb a b
  | None, None => true
  | _, _ => false
  end.

(* identifiers of the sampled cases whose in-Coq value differs from the driver's answer *)
Definition x_failed (l : list (Z * bool)) : list Z :=
  map fst (filter (fun p => negb (snd p)) l).

Lemma zlist_eqb_eq a b : zlist_eqb a b = true <-> a = b.
Proof.
  revert b; induction a as [|x a IH]; intros [|y b]; cbn [zlist_eqb]; split; intro H;
    try reflexivity; try discriminate.
  - apply andb_true_iff in H as [H1 H2]. apply Z.eqb_eq in H1. apply IH in H2. congruence.
  - injection H as -> ->. apply andb_true_iff; split; [apply Z.eqb_refl | apply IH; reflexivity].
Qed.

Lemma zpair_eqb_eq a b : zpair_eqb a b = true <-> a = b.
Proof.
  destruct a as [a1 a2], b as [b1 b2]; unfold zpair_eqb; cbn [fst snd]. rewrite andb_true_iff, !Z.eqb_eq.
  split; [intros [-> ->]; reflexivity | intros H; injection H as -> ->; split; reflexivity].
Qed.

(* "agreed" on a value means the model function returned exactly that value *)
Lemma x_outcome_ok {A} (eqb : A -> A -> bool) (o : outcome A) (b : A) :
  (forall x y, eqb x y = true -> x = y) -> x_outcome eqb o (XOk b) = true -> o = Ok b.
Proof. intros Heq; destruct o as [a|c|c|]; cbn [x_outcome]; intros H; try discriminate. f_equal; apply Heq, H. Qed.

Lemma x_outcome_err {A} (eqb : A -> A -> bool) (o : outcome A) (c : Z) :
  x_outcome eqb o (XErr c) = true -> o = Err c.
Proof. destruct o as [a|d|d|]; cbn [x_outcome]; intros H; try discriminate. apply Z.eqb_eq in H; congruence. Qed.

Lemma x_outcome_panic {A} (eqb : A -> A -> bool) (o : outcome A) :
  x_outcome eqb o XPanic = true -> exists c, o = Panic c.
Proof. destruct o as [a|d|d|]; cbn [x_outcome]; intros H; try discriminate. eexists; reflexivity. Qed.

Lemma x_option_eq (o e : option (list Z)) : x_option zlist_eqb o e = true -> o = e.
Proof.
  destruct o as [a|], e as [b|]; cbn [x_option]; intros H; try discriminate; [|reflexivity].
  f_equal; apply zlist_eqb_eq, H.
Qed.

(* an empty list of failed identifiers means every listed comparison returned true *)
Lemma x_failed_nil (l : list (Z * bool)) : x_failed l = [] -> forall k b, In (k, b) l -> b = true.
Proof.
  unfold x_failed; induction l as [|[k0 b0] l IH]; intros H k b Hin; [destruct Hin|].
  cbn [filter snd] in H. destruct b0; cbn [negb] in H.
  - destruct Hin as [E|Hin]; [congruence | eapply IH; eauto].
  - discriminate.
Qed.

Lemma ztriple_eqb_eq a b : ztriple_eqb a b = true <-> a = b.
Proof.
  destruct a as [[a1 a2] a3], b as [[b1 b2] b3]; unfold ztriple_eqb; cbn [fst snd].
  rewrite !andb_true_iff, !Z.eqb_eq.
  split; [intros [[-> ->] ->]; reflexivity | intros H; injection H as -> -> ->; repeat split].
Qed.
