(* Base/XCheck.v — comparison helpers of the extraction cross-check (lib/framework.py: xcheck).
   On every check a sample of the very cases the extracted OCaml driver answered is evaluated
   again INSIDE Coq by [vm_compute] on the same Gallina definitions, and the two answers are
   compared by the boolean functions below.  This takes extraction (ExtrOcamlBasic,
   ExtrOcamlZBigInt, ExtrOcamlNatBigInt), zarith and the OCaml compiler out of the trusted base
   for the sampled cases: a disagreement means the program that was run against the
   implementation is not the model the theorems are about.  Definitions only. *)
From LzVerif Require Import Base.Bytes.

(* What the driver printed: "OK v" / "ERR c" / "PANIC" (the panic code is not printed) / "FUEL". *)
Inductive xout (A : Type) : Type :=
| XOk (a : A)
| XErr (code : Z)
| XPanic
| XFuel.
Arguments XOk {A} a.
Arguments XErr {A} code.
Arguments XPanic {A}.
Arguments XFuel {A}.

Fixpoint zlist_eqb (a b : list Z) : bool :=
  match a, b with
  | [], [] => true
  | x :: a', y :: b' => (x =? y) && zlist_eqb a' b'
  | _, _ => false
  end.

Definition zpair_eqb (a b : Z * Z) : bool := (fst a =? fst b) && (snd a =? snd b).

Definition x_outcome {A} (eqb : A -> A -> bool) (o : outcome A) (e : xout A) : bool :=
  match o, e with
  | Ok a, XOk b => eqb a b
  | Err c, XErr d => c =? d
  | Panic _, XPanic => true
  | Fuel, XFuel => true
  | _, _ => false
  end.

Definition x_option {A} (eqb : A -> A -> bool) (o e : option A) : bool :=
  match o, e with
  | Some a, Some b => eqb a b
  | None, None => true
  | _, _ => false
  end.

(* identifiers of the sampled cases whose in-Coq value differs from the driver's answer *)
Definition x_failed (l : list (Z * bool)) : list Z :=
  map fst (filter (fun p => negb (snd p)) l).

Lemma zlist_eqb_eq a b : zlist_eqb a b = true <-> a = b.
Proof.
  revert b; induction a as [|x a IH]; intros [|y b]; cbn [zlist_eqb]; split; intro H;
    try reflexivity; try discriminate.
  - apply andb_true_iff in H as [H1 H2]. apply Z.eqb_eq in H1. apply IH in H2. congruence.
  - injection H as -> ->. apply andb_true_iff; split; [apply Z.eqb_refl | apply IH; reflexivity].
Qed.
