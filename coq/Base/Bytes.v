(* Base/Bytes.v — fixed-width arithmetic written out explicitly over Z, and small list helpers.
   Definitions only (plus the few characterising lemmas every other file needs). *)
From Coq Require Export ZArith List Lia Bool.
Export ListNotations.
Open Scope Z_scope.

(* A byte is a Z in [0,256).  Wrapping operations carry their [mod] explicitly. *)
Definition wrap8  (x : Z) : Z := x mod 256.
Definition wrap16 (x : Z) : Z := x mod 65536.
Definition wrap32 (x : Z) : Z := x mod 4294967296.
Definition wrap64 (x : Z) : Z := x mod 18446744073709551616.

Definition is_byte (x : Z) : bool := (0 <=? x) && (x <? 256).
Definition bytes_ok (l : list Z) : bool := forallb is_byte l.

(* Outcome of a model function: the result, an error returned to the caller (Err of the crate),
   or a Rust panic (checked arithmetic, index out of bounds, ...).  [Fuel] marks exhaustion of
   explicit recursion fuel and is always excluded by the theorems. *)
Inductive outcome (A : Type) : Type :=
| Ok (a : A)
| Err (code : Z)
| Panic (code : Z)
| Fuel.
Arguments Ok {A} a.
Arguments Err {A} code.
Arguments Panic {A} code.
Arguments Fuel {A}.

Definition obind {A B} (x : outcome A) (f : A -> outcome B) : outcome B :=
  match x with
  | Ok a => f a
  | Err c => Err c
  | Panic c => Panic c
  | Fuel => Fuel
  end.
Notation "'do' x <- e ; f" := (obind e (fun x => f))
  (at level 200, x pattern, e at level 100, f at level 200, right associativity).

(* Error kinds, as the small enum the correspondence compares. *)
Definition E_INVALID_DATA : Z := 1.
Definition E_INVALID_INPUT : Z := 2.
Definition E_UNEXPECTED_EOF : Z := 3.
Definition E_OUT_OF_MEMORY : Z := 4.
Definition E_UNSUPPORTED : Z := 5.
Definition E_OTHER : Z := 6.
Definition E_WRITE_ZERO : Z := 7.
Definition E_INTERRUPTED : Z := 8.

(* Total list access returning option; no defaults. *)
Fixpoint nth_opt {A} (l : list A) (n : nat) : option A :=
  match l, n with
  | [], _ => None
  | x :: _, O => Some x
  | _ :: t, S k => nth_opt t k
  end.
Definition zth {A} (l : list A) (i : Z) : option A :=
  if i <? 0 then None else nth_opt l (Z.to_nat i).

Fixpoint upd_nat {A} (l : list A) (n : nat) (v : A) : list A :=
  match l, n with
  | [], _ => []
  | _ :: t, O => v :: t
  | x :: t, S k => x :: upd_nat t k v
  end.
Definition zupd {A} (l : list A) (i : Z) (v : A) : list A :=
  if i <? 0 then l else upd_nat l (Z.to_nat i) v.

Definition zlen {A} (l : list A) : Z := Z.of_nat (length l).

Fixpoint repeatn {A} (x : A) (n : nat) : list A :=
  match n with O => [] | S k => x :: repeatn x k end.

(* little-endian encodings *)
Fixpoint le_bytes (n : nat) (v : Z) : list Z :=
  match n with
  | O => []
  | S k => (v mod 256) :: le_bytes k (v / 256)
  end.
Fixpoint le_value (l : list Z) : Z :=
  match l with
  | [] => 0
  | b :: t => b + 256 * le_value t
  end.

Lemma upd_nat_length {A} (l : list A) n v : length (upd_nat l n v) = length l.
Proof. revert n; induction l as [|x t IH]; intros [|k]; simpl; auto. Qed.

Lemma zupd_length {A} (l : list A) i v : length (zupd l i v) = length l.
Proof. unfold zupd; destruct (i <? 0); auto using upd_nat_length. Qed.

Lemma nth_opt_some {A} (l : list A) n : (n < length l)%nat -> exists x, nth_opt l n = Some x.
Proof.
  revert n; induction l as [|x t IH]; intros n Hn; simpl in *; [lia|].
  destruct n as [|k]; [eauto|]. apply IH; lia.
Qed.

Lemma zth_some {A} (l : list A) i : 0 <= i < zlen l -> exists x, zth l i = Some x.
Proof.
  unfold zth, zlen; intros [H0 H1].
  destruct (Z.ltb_spec i 0); [lia|]. apply nth_opt_some; lia.
Qed.

Lemma nth_opt_upd_same {A} (l : list A) n v : (n < length l)%nat -> nth_opt (upd_nat l n v) n = Some v.
Proof.
  revert n; induction l as [|x t IH]; intros [|k] H; simpl in *; try lia; auto. apply IH; lia.
Qed.

Lemma nth_opt_upd_other {A} (l : list A) n m v : n <> m -> nth_opt (upd_nat l n v) m = nth_opt l m.
Proof.
  revert n m; induction l as [|x t IH]; intros [|k] [|j] H; simpl; auto; try congruence.
Qed.

Lemma le_bytes_length n v : length (le_bytes n v) = n.
Proof. revert v; induction n; simpl; auto. Qed.

Lemma le_value_bytes n v : 0 <= v < 256 ^ Z.of_nat n -> le_value (le_bytes n v) = v.
Proof.
  revert v; induction n as [|k IH]; intros v Hv.
  - simpl in *. lia.
  - cbn [le_bytes le_value].
    rewrite IH.
    + pose proof (Z.div_mod v 256 ltac:(lia)). lia.
    + rewrite Nat2Z.inj_succ, Z.pow_succ_r in Hv by lia.
      split; [apply Z.div_pos; lia|]. apply Z.div_lt_upper_bound; lia.
Qed.

(* linear-time list reversal (List.rev is quadratic); equal to rev *)
Definition frev {A} (l : list A) : list A := rev_append l [].
Lemma frev_rev {A} (l : list A) : frev l = rev l.
Proof. unfold frev. rewrite rev_append_rev, app_nil_r. reflexivity. Qed.
