(* Mt/LiveInv2.v — the data invariants I3 of the repaired protocol (continuation of LiveInv.v). *)
From LzVerif Require Import Base.Bytes Mt.Protocol Mt.ProtocolLemmas Mt.ProtocolInv Mt.SafetyProofs Mt.CountProofs
  Mt.LiveInv.
Local Open Scope nat_scope.

Section P.
Context {R : Type}.
Variable f : nat -> R + Z.
Implicit Types (s : state R) (c : cfg).

Ltac pre :=
  rw_pc;
  repeat match goal with
         | H : lock_free _ = true |- _ => apply lock_free_none in H
         end;
  split_andb.

Ltac dfx Hfx := destruct Hfx as (Fc & Fw & Fe & Ff).

(* ---- the shutdown flag is only raised by an error or by Drop / finish ---- *)
Lemma step_i3_shut c s t s' : Fx c -> ctl_ok (k_kind c) (pc s) (ph s) = true -> I3 c s ->
  step f c s t = Some s' -> shut s' = true -> shut_pc (pc s') = true \/ errd s'.
Proof.
  intros Hfx OK H3 Hst Hs.
  destruct (shut s) eqn:Hsh.
  - destruct (i3_shut c s H3 Hsh) as [Hp|He].
    + left. clear Hs. dfx Hfx. step_split t Hst; pre; try assumption; try discriminate; try reflexivity.
      all: try solve [ destruct fin; reflexivity ].
      all: try solve [ rewrite Fc; reflexivity ].
    + right. eapply step_errd; eauto.
  - dfx Hfx. revert Hs. step_split t Hst; intros Hs; pre; try congruence.
    all: try solve [ right; right; reflexivity ].
    all: try solve [ right; left; unfold first_err; destruct (err s); discriminate ].
    all: try solve [ left; rewrite ?Fc; reflexivity ].
Qed.

(* ---- Draining / Finishing: last_sequence_id = number of dispatched units - 1, at least one unit ---- *)
Lemma src_eff_drain c s r h : fx_empty c = true ->
  e_ph (src_eff c s r) = Some h -> h = PDrain /\ e_last (src_eff c s r) = Some (Some (nd s - 1)) /\ 1 <= nd s.
Proof.
  intros Fe. unfold src_eff. rewrite Fe. destruct r; cbn; try discriminate.
  destruct (Nat.eqb_spec (nd s) 0); cbn; [discriminate|]. intros H; inversion H; subst. repeat split; auto; lia.
Qed.

Lemma src_eff_nodrain c s r : e_ph (src_eff c s r) = None -> e_last (src_eff c s r) = None.
Proof. unfold src_eff. destruct r; cbn; auto. destruct (_ && _); cbn; auto; discriminate. Qed.

Lemma finish_eff_drain s h :
  e_ph (finish_eff s) = Some h -> h = PDrain /\ e_last (finish_eff s) = Some (Some (nd s - 1)) /\ 1 <= nd s.
Proof.
  unfold finish_eff. destruct (Nat.eqb_spec (nd s) 0); cbn; [discriminate|].
  intros H; inversion H; subst. repeat split; auto; lia.
Qed.

Lemma finish_eff_nodrain s : e_ph (finish_eff s) = None -> e_last (finish_eff s) = None.
Proof. unfold finish_eff. destruct (Nat.eqb (nd s) 0); cbn; auto; discriminate. Qed.

Lemma step_i3_drain c s t s' : Fx c -> ctl_ok (k_kind c) (pc s) (ph s) = true -> I2 f s -> I3 c s ->
  step f c s t = Some s' ->
  (ph s' = PDrain \/ ph s' = PFin -> last s' = Some (nd s' - 1) /\ 1 <= nd s') /\
  (ph s' = PFin -> nd s' <= nr s').
Proof.
  intros Hfx OK H2 H3 Hst. dfx Hfx.
  pose proof (i3_drain c s H3) as DR. pose proof (i3_pfin c s H3) as PF. pose proof (i2_nr f s H2) as NR.
  pose proof (ctl_quiet _ _ _ OK) as Q.
  step_split t Hst; pre; try (split; assumption).
  (* steps that keep ph, last, nd (nr may grow) *)
  all: try solve [ split; [assumption|]; intros X; specialize (PF X); lia ].
  all: try solve [ split; intros X; try discriminate; destruct X; discriminate ].
  (* CTake: Draining -> Finished *)
  all: try solve [ split; intros X; [apply DR; auto|];
                   destruct (DR (or_introl eq_refl)) as [L1 L2]; rewrite L1 in *; split_andb; lia ].
  all: try solve [ split; intros X; [destruct X; congruence|congruence] ].
  all: try solve [ rw_goal; split; assumption ].
  (* the helper effects that enter Draining / Finishing *)
  all: try match goal with
       | |- context [e_ph (finish_eff ?x)] =>
           destruct (e_ph (finish_eff x)) eqn:E;
           [ destruct (finish_eff_drain _ _ E) as (-> & EL & GE); rewrite EL
           | rewrite (finish_eff_nodrain _ E) ]
       | |- context [e_ph (src_eff ?c ?x ?r)] =>
           destruct (e_ph (src_eff c x r)) eqn:E;
           [ destruct (src_eff_drain _ _ _ _ Fe E) as (-> & EL & GE); rewrite EL
           | rewrite (src_eff_nodrain _ _ _ E) ]
       end; msimpl.
  all: try solve [ split; [intros _; split; [reflexivity|assumption]|discriminate] ].
  all: try solve [ rw_goal; split; assumption ].
  (* end of a dispatch sequence: not in Draining / Finished *)
  all: destruct d; cbn [disp_eff]; rewrite ?flush_eff_ph, ?flush_eff_last; cbn [e_ph e_last goto];
       try match goal with
       | |- context [e_ph (finish_eff ?x)] =>
           destruct (e_ph (finish_eff x)) eqn:E;
           [ destruct (finish_eff_drain _ _ E) as (-> & EL & GE); rewrite EL
           | rewrite (finish_eff_nodrain _ E) ]
       | |- context [e_ph (src_eff ?c ?x ?r)] =>
           destruct (e_ph (src_eff c x r)) eqn:E;
           [ destruct (src_eff_drain _ _ _ _ Fe E) as (-> & EL & GE); rewrite EL
           | rewrite (src_eff_nodrain _ _ _ E) ]
       end; msimpl.
  all: try solve [ split; [intros _; split; [reflexivity|lia]|discriminate] ].
  all: try solve [ split; intros X; exfalso; [specialize (Q X)|specialize (Q (or_intror X))]; discriminate Q ].
Qed.

(* ---- a blocking recv() always waits for a unit that was dispatched and not yet returned ---- *)
Lemma queue_nonempty_lt c src p s :
  reachable f c src p s -> post_push (pc s) = false -> q_items s <> [] -> nr s < nd s.
Proof.
  intros Hr Hp Hq. destruct (q_items s) as [|x l] eqn:E; [congruence|].
  assert (Hx : In x (q_items s)) by (rewrite E; left; reflexivity).
  pose proof (items_ge f c src p s x Hr Hx).
  pose proof (i2_lt f s (inv_I2 f c src p s Hr) x) as L. unfold nde in L. rewrite Hp in L.
  specialize (L ltac:(apply in_app_iff; left; assumption)). lia.
Qed.

Ltac brute :=
  repeat match goal with
         | g : gk |- _ => destruct g
         | d : dk |- _ => destruct d
         | r : src_res |- _ => destruct r
         | b : bool |- _ => destruct b
         | |- context [if ?b then _ else _] => destruct b eqn:?
         | H : context [if ?b then _ else _] |- _ => destruct b eqn:?
         | |- context [match ?x with _ => _ end] =>
             lazymatch x with
             | ph _ => destruct x eqn:?
             | k_kind _ => destruct x eqn:?
             end
         | H : context [match ?x with _ => _ end] |- _ =>
             lazymatch x with
             | ph _ => destruct x eqn:?
             | k_kind _ => destruct x eqn:?
             end
         end.

Ltac unfold_effs :=
  unfold disp_eff in *;
  unfold ret_eff, src_eff, finish_eff, flush_eff, with_out, goto, creturn, freturn, dk_is_finish, blocking_of in *.

Lemma step_i3_back c src p s t s' : Fx c -> reachable f c src p s -> I3 c s -> step f c s t = Some s' ->
  ((exists d, gk_of (pc s') = Some (KBack d)) \/ gk_of (pc s') = Some KFlush -> nr s' < nd s') /\
  (pc s' = CRecv KRead true -> ph s' = PRun -> nr s' < nd s').
Proof.
  intros Hfx Hr H3 Hst. dfx Hfx.
  pose proof (inv_ctl f c src p s (conj Fc (conj Fw (conj Fe Ff))) Hr) as OK.
  pose proof (i3_back c s H3) as BK. pose proof (i3_rdrecv c s H3) as RR.
  pose proof (queue_nonempty_lt c src p s Hr) as QN.
  step_split t Hst; pre; try (split; assumption).
  all: cbn [post_push] in QN; try specialize (QN eq_refl).
  all: unfold_effs; rewrite ?Fc, ?Fw, ?Fe, ?Ff in *;
       unfold ctl_ok, quiet_pc, kind_ok, dk_chain, gk_of, is_run, is_perr, is_reader in OK;
       cbn [e_pc e_ph e_out e_res e_fin e_last andb gk_of nr nd set_nd set_prog set_reo set_ch set_script set_ws] in *.
  all: split; [intros [[d' X]|X]|intros X Y]; brute;
       cbn [e_pc e_ph e_out e_res e_fin e_last andb gk_of nr nd] in *; try discriminate; try congruence.
  all: split_andb; try lia.
  all: try solve [ apply BK; cbn; eauto ].
  all: try solve [ apply QN; intros E0; unfold qlen in *; rewrite E0 in *; simpl in *; lia ].
  all: try solve [ apply RR; auto; congruence ].
Qed.

(* ---- a stored error is always followed by a wake-up message ---- *)
Lemma In_upd_keep {A} (l : list A) i x y z :
  nth_opt l i = Some x -> In z l -> z <> x -> In z (upd_nat l i y).
Proof.
  intros Hi Hz Hn. destruct (In_nth_opt _ _ Hz) as [j Hj].
  destruct (Nat.eq_dec i j) as [->|Hne]; [congruence|]. eapply upd_nat_In_old; eauto.
Qed.

Lemma step_i3_wake1 c s t s' : Fx c -> I1 c s -> I3 c s -> step f c s t = Some s' ->
  err s' <> None -> unsafe_pc (pc s') = true -> In MWake (ch s') \/ In WWake (ws s').
Proof.
  intros Hfx H1 H3 Hst. dfx Hfx. pose proof (i3_wake c s H3) as WK. pose proof (i1_rx c s H1) as RX.
  step_split t Hst; pre; intros He Hu; try discriminate; pc_cases; try discriminate; try congruence.
  (* coordinator steps that stay inside the unsafe region *)
  all: try solve [ destruct (WK He eq_refl) as [X|X]; [rw_eqs; destruct X|right; assumption] ].
  all: try solve [ apply WK; auto ].
  (* worker steps *)
  all: cbn [unsafe_pc] in *.
  all: try solve [ destruct (WK He Hu) as [X|X]; [left; auto|right; eapply In_upd_keep; eauto; discriminate] ].
  all: try solve [ destruct (WK He Hu) as [X|X];
                   [left; apply in_app_iff; left; assumption|right; eapply In_upd_keep; eauto; discriminate] ].
  (* WSetErr: the worker is now about to send the wake-up *)
  all: try solve [ right; eapply upd_nat_In_new; eauto ].
  all: try congruence.
  (* WWake with a live receiver: the message is in the channel *)
  all: try solve [ left; apply in_app_iff; right; left; reflexivity ].
  (* WWake / WSend with a dead receiver: the coordinator is gone *)
  all: try solve [ exfalso; specialize (RX ltac:(first [assumption|reflexivity])); rewrite RX in Hu; discriminate ].
Qed.

Lemma step_i3_wake234 c s t s' : Fx c -> ctl_ok (k_kind c) (pc s) (ph s) = true -> I3 c s ->
  step f c s t = Some s' ->
  (rwake s' = true -> errd s') /\ (In MWake (ch s') -> errd s') /\ (In WWake (ws s') -> errd s').
Proof.
  intros Hfx OK H3 Hst. pose proof Hst as Hst0.
  pose proof (i3_rwake c s H3) as W2. pose proof (i3_chwake c s H3) as W3. pose proof (i3_wswake c s H3) as W4.
  assert (ST : errd s -> errd s') by (intros E; eapply step_errd; eauto).
  clear Hst0. dfx Hfx.
  step_split t Hst; pre; (split; [|split]); intros X; try solve [ apply ST; auto ].
  all: try solve [ apply ST; apply W3; rw_eqs; right; assumption ].
  all: try solve [ apply ST; apply W3; left; reflexivity ].
  all: try solve [ destruct X ].
  all: try solve [ rw_eqs; destruct X ].
  all: try solve [ apply wake_one_In in X; destruct X as [X|X]; [apply ST; auto|discriminate] ].
  all: try solve [ apply wake_all_In in X; destruct X as [X|X]; [apply ST; auto|discriminate] ].
  all: try solve [ apply in_app_iff in X; destruct X as [X|[X|[]]]; [apply ST; auto|discriminate] ].
  all: try solve [ apply upd_nat_In in X; destruct X as [X|X]; [discriminate|apply ST; auto] ].
  all: try solve [ apply ST; apply W4; eapply nth_opt_In; eauto ].
  (* WSetErr *)
  all: try solve [ left; unfold first_err; cbn; destruct (err s); discriminate ].
Qed.

End P.
