(* Mt/Lzma2UnitsAbsProofs.v — facts about the chunk decoder of Mt/Lzma2Units.v that do not involve
   the reader model:
     * a dictionary-reset chunk forgets the state before it ([astep_indep]: the hypothesis of
       Mt/UnitsProofs.v, Section Decode);
     * the range decoder may be normalised between two decode calls without changing anything
       that is observed later ([run_rc_norm]) - this is what makes the result of an LZMA chunk
       independent of how the caller's buffer sizes cut it into decode calls;
     * [alz] composes along such cuts; unfolding equations of [adecode]. *)
From LzVerif Require Import Base.Bytes Codec.Store Codec.Range Codec.ProbProofs Codec.RangeArithProofs
  Codec.LzWindow Codec.LzmaDec Codec.LzmaAbs Codec.LzWindowProofs Codec.ProgProofs Codec.LzmaAbsProofs
  Codec.RangeNoWrapProofs Codec.LzmaReadProofs Codec.LzmaTotalProofs Codec.Lzma2Dec Codec.Lzma2SpecProofs Codec.Lzma2ReadAuxProofs
  Mt.Units Mt.UnitsProofs Mt.Lzma2Units.
Ltac Zify.zify_post_hook ::= Z.div_mod_to_equations.
Local Open Scope Z_scope.

(* ---------------------------------------------------------------------------------------------
   a dictionary-reset chunk decodes the same from every state *)
Theorem astep_indep ds d0 : forall d k, chunk_independent k = true -> astep ds d k = astep ds d0 k.
Proof.
  intros d k Hk. unfold chunk_independent in Hk. unfold astep.
  destruct (c_bytes k) as [|c b]; [reflexivity|].
  destruct (Z.eqb_spec c (c_ctrl k)) as [->|Hne]; [|reflexivity]. cbn [negb].
  rewrite Hk. cbn [negb andb].
  destruct (128 <=? c_ctrl k) eqn:E128.
  - destruct b as [|u1 [|u2 [|c1 [|c2 b1]]]]; reflexivity.
  - reflexivity.
Qed.

(* ---------------------------------------------------------------------------------------------
   range decoder: one normalisation brings the range to at least 2^24 *)
Definition rng_ok (d : rdec) : Prop := 65536 <= rd_range d < 4294967296.

Lemma norm_range d : rng_ok d -> 16777216 <= rd_range (rdec_normalize d) < 4294967296.
Proof.
  intros H. unfold rng_ok in H. unfold rdec_normalize, P2_24.
  destruct (Z.ltb_spec (rd_range d) 16777216) as [Hlt|Hge]; [|lia].
  destruct (rdec_read d) as [b d1]. cbn [rd_range]. unfold wrap32.
  rewrite Z.mod_small by lia. lia.
Qed.

Lemma norm_rng d : rng_ok d -> rng_ok (rdec_normalize d).
Proof. intros H. pose proof (norm_range d H). unfold rng_ok. lia. Qed.

Lemma norm_idem d : rng_ok d -> rdec_normalize (rdec_normalize d) = rdec_normalize d.
Proof.
  intros H. pose proof (norm_range d H) as Hn.
  unfold rdec_normalize at 1. unfold P2_24.
  destruct (Z.ltb_spec (rd_range (rdec_normalize d)) 16777216) as [Hlt|Hge]; [lia | reflexivity].
Qed.

Lemma decode_bit_rng d t k b d' t' :
  probs_ok t -> rng_ok d -> decode_bit d t k = Some (b, d', t') -> rng_ok d' /\ probs_ok t'.
Proof.
  intros Ht Hd H.
  assert (Hwf : rdec_wf d) by (unfold rdec_wf, rng_ok in *; lia).
  destruct (decode_bit_wf d t k b d' t' Ht Hwf H) as (_ & Ht'). split; [|exact Ht'].
  pose proof (norm_range d Hd) as Hn.
  unfold decode_bit in H.
  destruct (P2_32 <=? Z.shiftr (rd_range (rdec_normalize d)) 11 * prob_get t k) eqn:E; [discriminate|].
  pose proof (probs_ok_get t k Ht) as Hp. apply prob_ok_iff in Hp.
  pose proof (bound_facts (rd_range (rdec_normalize d)) (prob_get t k) Hn Hp) as Hb. cbv zeta in Hb.
  rewrite shiftr_div in H by lia. change (2 ^ 11) with 2048 in H.
  destruct (rd_code (rdec_normalize d) <? _); inversion H; subst; clear H; unfold rng_ok; cbn [rd_range].
  - lia.
  - unfold wrap32. rewrite Z.mod_small by lia. lia.
Qed.

Lemma direct_bits_rng n : forall d acc v d', rng_ok d -> decode_direct_bits d n acc = (v, d') -> rng_ok d'.
Proof.
  induction n as [|m IH]; intros d acc v d' Hd H; cbn [decode_direct_bits] in H.
  - inversion H; subst. exact Hd.
  - eapply IH; [|exact H]. pose proof (norm_range d Hd) as Hn. unfold rng_ok. cbn [rd_range].
    rewrite shiftr_div by lia. change (2 ^ 1) with 2. lia.
Qed.

Lemma run_rc_rng {A} (p : prog A) : forall d t a d' t',
  probs_ok t -> rng_ok d -> run_rc p d t = Ok (a, d', t') -> rng_ok d' /\ probs_ok t'.
Proof.
  induction p as [a0|e|key f IH|n f IH]; intros d t a d' t' Ht Hd H; cbn [run_rc] in H.
  - inversion H; subst. split; assumption.
  - destruct e; discriminate.
  - destruct (decode_bit d t key) as [[[b d1] t1]|] eqn:E; [|discriminate].
    destruct (decode_bit_rng _ _ _ _ _ _ Ht Hd E) as (Hd1 & Ht1). eapply IH; eassumption.
  - destruct (decode_direct_bits d n 0) as [v d1] eqn:E.
    pose proof (direct_bits_rng _ _ _ _ _ Hd E) as Hd1. eapply IH; eassumption.
Qed.

(* what is observed of a run: the result, the tables, and the range decoder up to a normalisation *)
Definition rc_obs {A B} (R : A -> B -> Prop) (x : outcome (A * rdec * probs)) (y : outcome (B * rdec * probs)) : Prop :=
  match x, y with
  | Ok (a, d1, t1), Ok (b, d2, t2) => R a b /\ rdec_normalize d1 = rdec_normalize d2 /\ t1 = t2
  | Err e1, Err e2 => e1 = e2
  | Panic e1, Panic e2 => e1 = e2
  | Fuel, Fuel => True
  | _, _ => False
  end.

Lemma rc_obs_refl {A} (x : outcome (A * rdec * probs)) : rc_obs eq x x.
Proof. destruct x as [[[a d] t]|e|e|]; cbn; auto. Qed.

Lemma decode_bit_norm d t k : rng_ok d -> decode_bit (rdec_normalize d) t k = decode_bit d t k.
Proof. intros H. unfold decode_bit. rewrite (norm_idem d H). reflexivity. Qed.

Lemma direct_bits_norm n d acc : rng_ok d -> (0 < n)%nat ->
  decode_direct_bits (rdec_normalize d) n acc = decode_direct_bits d n acc.
Proof. intros H Hn. destruct n as [|m]; [lia|]. cbn [decode_direct_bits]. rewrite (norm_idem d H). reflexivity. Qed.

(* starting from the normalised decoder instead *)
Lemma run_rc_norm {A} (p : prog A) : forall d t, rng_ok d ->
  rc_obs eq (run_rc p (rdec_normalize d) t) (run_rc p d t).
Proof.
  induction p as [a0|e|key f IH|n f IH]; intros d t Hd; cbn [run_rc].
  - cbn. split; [reflexivity|]. split; [apply norm_idem; exact Hd | reflexivity].
  - destruct e; cbn; auto.
  - rewrite (decode_bit_norm d t key Hd). destruct (decode_bit d t key) as [[[b d1] t1]|]; [apply rc_obs_refl | cbn; reflexivity].
  - destruct n as [|m].
    + cbn [decode_direct_bits]. apply IH. exact Hd.
    + rewrite (direct_bits_norm (S m) d 0 Hd) by lia.
      destruct (decode_direct_bits d (S m) 0) as [v d1]. apply rc_obs_refl.
Qed.

(* two programs asking the same questions, one started from the normalised decoder *)
Lemma run_rc_peq_norm {A B} (R : A -> B -> Prop) p q d t : peq R p q -> rng_ok d ->
  rc_obs R (run_rc p (rdec_normalize d) t) (run_rc q d t).
Proof.
  intros Hpq Hd.
  pose proof (run_rc_norm p d t Hd) as H1. pose proof (run_rc_peq R p q Hpq d t) as H2.
  destruct (run_rc p (rdec_normalize d) t) as [[[a1 d1] t1]|e1|e1|];
    destruct (run_rc p d t) as [[[a2 d2] t2]|e2|e2|]; cbn in H1; try contradiction;
    destruct (run_rc q d t) as [[[a3 d3] t3]|e3|e3|]; cbn in H2 |- *; try contradiction; try congruence; auto.
  destruct H1 as (-> & Hn & ->). destruct H2 as (HR & -> & ->). auto.
Qed.

(* ---------------------------------------------------------------------------------------------
   alz: the end of an LZMA chunk *)

(* the final state matters only through coder, history and pending length *)
Lemma alz_fin_obs n x y :
  rc_obs (fun r r' => pd_eq (fst r) (fst r') /\ snd r = snd r') x y -> alz_fin n x = alz_fin n y.
Proof.
  destruct x as [[[[a1 s1] d1] t1]|e1|e1|]; destruct y as [[[[a2 s2] d2] t2]|e2|e2|]; cbn [rc_obs];
    try contradiction; try reflexivity.
  intros (((Hc & Hh & _ & Hl & _) & Hs) & Hn & ->). cbn [fst snd] in *. subst s2.
  unfold alz_fin. rewrite Hn, Hc, Hh, Hl. reflexivity.
Qed.

(* a pending distance that is not in use, and a normalisation of the range decoder, do not matter *)
Lemma alz_norm ds hist c rc t u pl pd pd' : rng_ok rc -> (0 < pl -> pd = pd') ->
  alz ds hist c (rdec_normalize rc) t u pl pd = alz ds hist c rc t u pl pd'.
Proof.
  intros Hrc Hpd. unfold alz. apply alz_fin_obs.
  apply run_rc_peq_norm; [|exact Hrc]. apply aproduce_pd_eq.
  unfold pd_eq; cbn [a_coder a_hist a_dict a_pend_len a_pend_dist]. repeat split; auto.
Qed.

Lemma alz_pd ds hist c rc t u pl pd pd' : (0 < pl -> pd = pd') ->
  alz ds hist c rc t u pl pd = alz ds hist c rc t u pl pd'.
Proof.
  intros Hpd. unfold alz. apply alz_fin_obs.
  pose proof (run_rc_peq _ _ _ (aproduce_pd_eq (Z.to_nat u) (mkAstate c hist ds pl pd) (mkAstate c hist ds pl pd')
     ltac:(unfold pd_eq; cbn [a_coder a_hist a_dict a_pend_len a_pend_dist]; repeat split; auto)) rc t) as H.
  destruct (run_rc (aproduce (Z.to_nat u) (mkAstate c hist ds pl pd)) rc t) as [[[a1 d1] t1]|e1|e1|];
    destruct (run_rc (aproduce (Z.to_nat u) (mkAstate c hist ds pl pd')) rc t) as [[[a2 d2] t2]|e2|e2|];
    cbn [rc_obs]; try contradiction; auto.
  destruct H as (H1 & -> & ->). auto.
Qed.

(* prepending the bytes an earlier decode call of the same chunk produced *)
Definition out_pre (pre : list Z) (r : option (dstate * list Z)) : option (dstate * list Z) :=
  match r with Some (d, o) => Some (d, pre ++ o) | None => None end.

(* after a decode call that produced [b] bytes (history [new1 ++ hist]) the rest of the chunk:
   [u] bytes from the state [s1] the call left *)
Lemma alz_fin_cont (b u : nat) s1 new1 hist0 d t :
  a_hist s1 = new1 ++ hist0 -> length new1 = b ->
  alz_fin (b + u) (run_rc (aproduce u s1) d t) = out_pre (rev new1) (alz_fin u (run_rc (aproduce u s1) d t)).
Proof.
  intros Hh Hl.
  destruct (run_rc (aproduce u s1) d t) as [[[[a2 st2] d2] t2]|e|e|] eqn:Hrun; try reflexivity.
  unfold alz_fin. destruct st2 as [[]|e|e|]; try reflexivity.
  destruct (rdec_is_finished (rdec_normalize d2) && (a_pend_len a2 <=? 0)); [|reflexivity].
  cbn [out_pre]. do 2 f_equal.
  pose proof (run_rc_pall _ _ (aproduce_grows u s1) _ _ _ _ _ Hrun) as (_ & Hg & _). cbn [fst snd] in Hg.
  destruct (Hg eq_refl) as (new2 & Hh2 & Hl2).
  assert (E1 : firstn (b + u) (a_hist a2) = new2 ++ new1).
  { rewrite Hh2, Hh, app_assoc. apply firstn_app_exact. rewrite app_length; lia. }
  assert (E2 : firstn u (a_hist a2) = new2).
  { rewrite Hh2. apply firstn_app_exact. lia. }
  rewrite E1, E2, rev_app_distr. reflexivity.
Qed.

(* ---------------------------------------------------------------------------------------------
   parsing a stream *)
Lemma take_n_some n l a b : take_n n l = Some (a, b) -> l = a ++ b /\ length a = n.
Proof.
  unfold take_n. destruct (Nat.leb_spec n (length l)) as [H|H]; [|discriminate].
  intros E. inversion E; subst. split; [symmetry; apply firstn_skipn | apply firstn_length_le; exact H].
Qed.

Lemma take_n_app n a b : length a = n -> take_n n (a ++ b) = Some (a, b).
Proof.
  intros H. unfold take_n. rewrite app_length.
  destruct (Nat.leb_spec n (length a + length b)) as [_|X]; [|lia].
  rewrite firstn_app_exact by (symmetry; exact H). rewrite skipn_app_exact by (symmetry; exact H). reflexivity.
Qed.

(* a parsed chunk is a prefix of the input, and parses the same in front of any other rest *)
Lemma parse_chunk_app input k rest :
  parse_chunk input = PChunk k rest ->
  input = c_bytes k ++ rest /\ (forall rest', parse_chunk (c_bytes k ++ rest') = PChunk k rest') /\
  (length rest < length input)%nat.
Proof.
  unfold parse_chunk. destruct input as [|c in1]; [discriminate|].
  destruct (c =? 0) eqn:E0; [discriminate|].
  destruct (128 <=? c) eqn:E128.
  - destruct (take_n (if 192 <=? c then 5%nat else 4%nat) in1) as [[hdr r1]|] eqn:Eh; [|discriminate].
    apply take_n_some in Eh as (-> & Hlh).
    destruct hdr as [|h0 [|h1 [|h2 [|h3 hr]]]]; try discriminate.
    destruct (take_n (Z.to_nat (be16 h2 h3 + 1)) r1) as [[pay r2]|] eqn:Ep; [|discriminate].
    apply take_n_some in Ep as (-> & Hlp).
    intros H. inversion H; subst k rest. clear H. cbn [c_bytes].
    split; [cbn [app]; rewrite <- !app_assoc; reflexivity|]. split.
    + intros rest'. cbn [app]. rewrite E0, E128. rewrite <- app_assoc.
      change (h0 :: h1 :: h2 :: h3 :: hr ++ pay ++ rest') with ((h0 :: h1 :: h2 :: h3 :: hr) ++ pay ++ rest').
      rewrite (take_n_app _ (h0 :: h1 :: h2 :: h3 :: hr) (pay ++ rest') Hlh).
      rewrite (take_n_app _ pay rest' Hlp). reflexivity.
    + cbn [length]. rewrite !app_length. cbn [length]. lia.
  - destruct ((c =? 1) || (c =? 2)) eqn:E12; [|discriminate].
    destruct in1 as [|s0 [|s1 r1]]; try discriminate.
    destruct (take_n (Z.to_nat (be16 s0 s1 + 1)) r1) as [[pay r2]|] eqn:Ep; [|discriminate].
    apply take_n_some in Ep as (-> & Hlp).
    intros H. inversion H; subst k rest. clear H. cbn [c_bytes].
    split; [reflexivity|]. split.
    + intros rest'. cbn [app]. rewrite E0, E128, E12. rewrite (take_n_app _ pay rest' Hlp). reflexivity.
    + cbn [length]. rewrite !app_length. lia.
Qed.

Lemma parse_all_fuel f1 : forall f2 bytes, (length bytes < f1)%nat -> (length bytes < f2)%nat ->
  parse_all f1 bytes = parse_all f2 bytes.
Proof.
  induction f1 as [|n IH]; intros f2 bytes H1 H2; [lia|].
  destruct f2 as [|m]; [lia|]. cbn [parse_all].
  destruct (parse_chunk bytes) as [|r|k r|e] eqn:E; try reflexivity.
  apply parse_chunk_app in E as (_ & _ & Hl).
  rewrite (IH m r) by lia. reflexivity.
Qed.

Lemma parse_all_S n bytes :
  parse_all (S n) bytes =
  match parse_chunk bytes with
  | PTerm rest => Some ([], rest)
  | PChunk k rest => match parse_all n rest with Some (ks, r) => Some (k :: ks, r) | None => None end
  | _ => None
  end.
Proof. reflexivity. Qed.

Definition oapp (out : list Z) (o : option (list Z * list Z)) : option (list Z * list Z) :=
  match o with Some (r, t) => Some (out ++ r, t) | None => None end.

Lemma oapp_nil o : oapp [] o = o.
Proof. destruct o as [[r t]|]; reflexivity. Qed.

Lemma oapp_app a b o : oapp (a ++ b) o = oapp a (oapp b o).
Proof. destruct o as [[r t]|]; cbn [oapp]; [rewrite app_assoc|]; reflexivity. Qed.

Lemma adecode_unfold ds d input :
  adecode ds d input =
  match parse_chunk input with
  | PTerm rest => Some ([], rest)
  | PChunk k rest =>
      match astep ds d k with
      | Some (d1, o1) => oapp o1 (adecode ds d1 rest)
      | None => None
      end
  | _ => None
  end.
Proof.
  unfold adecode at 1. unfold stream_chunks. rewrite parse_all_S.
  destruct (parse_chunk input) as [|r|k r|e] eqn:E; try reflexivity.
  pose proof (parse_chunk_app _ _ _ E) as (_ & _ & Hl).
  rewrite (parse_all_fuel (length input) (S (length r)) r) by lia.
  unfold adecode, stream_chunks.
  destruct (parse_all (S (length r)) r) as [[ks r']|].
  - unfold decode_chunks. cbn [run_chunks].
    destruct (astep ds d k) as [[d1 o1]|]; [|reflexivity].
    destruct (run_chunks dstate (astep ds) d1 ks) as [[d2 o2]|]; reflexivity.
  - destruct (astep ds d k) as [[d1 o1]|]; reflexivity.
Qed.

(* ---------------------------------------------------------------------------------------------
   The decoder logic never raises an io::Error by itself (index problems are panics): a decision
   program of the LZMA decoder run against the range decoder never returns Err.  The only error of
   LZMADecoder::decode is the status "distance outside the dictionary" (E_OTHER). *)
Inductive pne {A : Type} : prog A -> Prop :=
| pne_ret a : pne (Ret a)
| pne_fail e : (forall c, e <> Err c) -> pne (Fail e)
| pne_bit key k : (forall b, pne (k b)) -> pne (Bit key k)
| pne_direct n k : (forall v, pne (k v)) -> pne (Direct n k).

Lemma run_rc_pne {A} (p : prog A) : pne p -> forall d t e, run_rc p d t <> Err e.
Proof.
  induction 1 as [a|e0 He|key k Hk IH|n k Hk IH]; intros d t e; cbn [run_rc].
  - discriminate.
  - destruct e0 as [u|c|c|]; try discriminate. exfalso. exact (He c eq_refl).
  - destruct (decode_bit d t key) as [[[b d1] t1]|]; [apply IH | discriminate].
  - destruct (decode_direct_bits d n 0) as [v d1]. apply IH.
Qed.

Lemma pne_bind {A B} (p : prog A) (f : A -> prog B) : pne p -> (forall a, pne (f a)) -> pne (pbind p f).
Proof. intros H Hf; induction H; cbn [pbind]; try constructor; auto. Qed.

Lemma pne_lift {A} (o : outcome A) : (forall c, o <> Err c) -> pne (lift o).
Proof.
  intros H. destruct o as [a|c|c|]; cbn [lift]; constructor; try discriminate.
  exfalso. exact (H c eq_refl).
Qed.

Lemma key1_ne base len i c : key1 base len i <> Err c.
Proof. unfold key1. destruct ((i <? 0) || (len <=? i)); discriminate. Qed.
Lemma key2_ne base rows cols i j c : key2 base rows cols i j <> Err c.
Proof. unfold key2. destruct ((i <? 0) || (rows <=? i) || (j <? 0) || (cols <=? j)); discriminate. Qed.
Lemma lit_base_ne cd prev pos c : lit_base cd prev pos <> Err c.
Proof.
  unfold lit_base. destruct (8 <? c_lc cd); [discriminate|]. cbv zeta.
  destruct (key1 0 _ _) as [a|e|e|] eqn:E; cbn [obind]; try discriminate.
  exfalso. exact (key1_ne _ _ _ _ E).
Qed.

Lemma bittree_pne base levels : forall sym, pne (bittree base levels sym).
Proof. induction levels as [|l IH]; intros sym; cbn [bittree]; constructor; auto. Qed.
Lemma decode_bit_tree_pne base levels : pne (decode_bit_tree base levels).
Proof. unfold decode_bit_tree. apply pne_bind; [apply bittree_pne | intros; constructor]. Qed.
Lemma rev_bittree_pne base levels : forall sym i res, pne (rev_bittree base levels sym i res).
Proof. induction levels as [|l IH]; intros sym i res; cbn [rev_bittree]; constructor; auto. Qed.
Lemma lit_matched_pne lbase n : forall mb off sym, pne (lit_matched lbase n mb off sym).
Proof. induction n as [|k IH]; intros mb off sym; cbn [lit_matched]; constructor; auto. Qed.
Lemma lit_prog_pne lbase mb : pne (lit_prog lbase mb).
Proof. destruct mb; cbn [lit_prog]; [apply lit_matched_pne | apply bittree_pne]. Qed.

Lemma decode_len_pne base ps : pne (decode_len base ps).
Proof.
  unfold decode_len. constructor. intros c0. destruct (c0 =? 0).
  - apply pne_bind; [apply pne_lift; intros c; apply key2_ne|]. intros low.
    apply pne_bind; [apply decode_bit_tree_pne | intros; constructor].
  - constructor. intros c1. destruct (c1 =? 0).
    + apply pne_bind; [apply pne_lift; intros c; apply key2_ne|]. intros mid.
      apply pne_bind; [apply decode_bit_tree_pne | intros; constructor].
    + apply pne_bind; [apply decode_bit_tree_pne | intros; constructor].
Qed.

Lemma decode_match_pne c ps : pne (decode_match c ps).
Proof.
  unfold decode_match. cbv zeta.
  apply pne_bind; [apply decode_len_pne|]. intros len.
  apply pne_bind; [apply pne_lift; intros e; apply key2_ne|]. intros dsk.
  apply pne_bind; [apply decode_bit_tree_pne|]. intros slot.
  apply pne_bind; [|intros; constructor].
  destruct (slot <? 4); [constructor|]. destruct (slot <? 14).
  - apply pne_bind; [apply rev_bittree_pne | intros; constructor].
  - constructor. intros v. apply pne_bind; [apply rev_bittree_pne | intros; constructor].
Qed.

Lemma decode_rep_match_pne c ps : pne (decode_rep_match c ps).
Proof.
  unfold decode_rep_match. cbv zeta.
  apply pne_bind; [apply pne_lift; intros e; apply key1_ne|]. intros k0. constructor. intros b0.
  destruct (b0 =? 0).
  - apply pne_bind; [apply pne_lift; intros e; apply key2_ne|]. intros k0l. constructor. intros bl.
    destruct (bl =? 0); [constructor|]. apply pne_bind; [apply decode_len_pne | intros; constructor].
  - apply pne_bind; [apply pne_lift; intros e; apply key1_ne|]. intros k1. constructor. intros b1.
    apply pne_bind.
    + destruct (b1 =? 0); [constructor|].
      apply pne_bind; [apply pne_lift; intros e; apply key1_ne|]. intros k2. constructor. intros b2.
      destruct (b2 =? 0); constructor.
    + intros c1. apply pne_bind; [apply decode_len_pne | intros; constructor].
Qed.

Lemma asym_pne c hist : pne (asym c hist).
Proof.
  unfold asym. cbv zeta.
  apply pne_bind; [apply pne_lift; intros e; apply key2_ne|]. intros km. constructor. intros bm.
  destruct (bm =? 0).
  - apply pne_bind; [apply pne_lift; intros e; apply lit_base_ne|]. intros lbase.
    apply pne_bind; [apply lit_prog_pne | intros; constructor].
  - apply pne_bind; [apply pne_lift; intros e; apply key1_ne|]. intros kr. constructor. intros br.
    apply pne_bind; [destruct (br =? 0); [apply decode_match_pne | apply decode_rep_match_pne] | intros; constructor].
Qed.

Lemma aproduce_pne n : forall s, pne (aproduce n s).
Proof.
  induction n as [|k IH]; intros s; cbn [aproduce]; [constructor|].
  destruct (0 <? a_pend_len s); [apply IH|].
  apply pne_bind; [apply asym_pne|]. intros r. destruct (snd r) as [b|dist len]; [apply IH|].
  destruct (a_full s <=? dist); [constructor|]. destruct (len <=? 0); [constructor; discriminate | apply IH].
Qed.

(* the status of a specification run: Ok, or the distance error *)
Lemma aproduce_status6 n : forall s, pall (fun r => snd r = Ok tt \/ snd r = Err E_OTHER) (aproduce n s).
Proof.
  induction n as [|k IH]; intros s; cbn [aproduce]; [constructor; left; reflexivity|].
  destruct (0 <? a_pend_len s); [apply IH|].
  eapply pall_bind; [apply pall_true|]. intros r _. destruct (snd r) as [b|dist len]; [apply IH|].
  destruct (a_full s <=? dist); [constructor; right; reflexivity|].
  destruct (len <=? 0); [constructor | apply IH].
Qed.
