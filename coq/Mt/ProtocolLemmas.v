(* Mt/ProtocolLemmas.v — infrastructure for the proofs about Mt/Protocol.v: list lemmas, frame
   lemmas for the coordinator's helper functions, the induction principle over reachable states
   and the case-analysis tactics. *)
From LzVerif Require Import Base.Bytes Mt.Protocol.
Local Open Scope nat_scope.

(* ---------- lists ---------- *)
Lemma nth_opt_app_l {A} (l1 l2 : list A) i : i < length l1 -> nth_opt (l1 ++ l2) i = nth_opt l1 i.
Proof.
  revert i; induction l1 as [|x t IH]; intros i H; simpl in *; [lia|].
  destruct i; [reflexivity|]. apply IH; lia.
Qed.

Lemma nth_opt_app_r {A} (l1 l2 : list A) i : length l1 <= i -> nth_opt (l1 ++ l2) i = nth_opt l2 (i - length l1).
Proof.
  revert i; induction l1 as [|x t IH]; intros i H; simpl in *.
  - f_equal; lia.
  - destruct i; [lia|]. apply IH; lia.
Qed.

Lemma nth_opt_lt {A} (l : list A) i x : nth_opt l i = Some x -> i < length l.
Proof.
  revert i; induction l as [|y t IH]; intros i H; simpl in *; [discriminate|].
  destruct i; [lia|]. apply IH in H; lia.
Qed.

Lemma nth_opt_none {A} (l : list A) i : length l <= i -> nth_opt l i = None.
Proof.
  revert i; induction l as [|y t IH]; intros i H; simpl in *; [reflexivity|].
  destruct i; [lia|]. apply IH; lia.
Qed.

Lemma nth_opt_In {A} (l : list A) i x : nth_opt l i = Some x -> In x l.
Proof.
  revert i; induction l as [|y t IH]; intros i H; simpl in *; [discriminate|].
  destruct i; [inversion H; auto|]. right; eauto.
Qed.

Lemma In_nth_opt {A} (l : list A) x : In x l -> exists i, nth_opt l i = Some x.
Proof.
  induction l as [|y t IH]; intros H; simpl in *; [tauto|].
  destruct H as [->|H]; [exists 0; reflexivity|].
  destruct (IH H) as [i Hi]. exists (S i); assumption.
Qed.

Lemma nth_opt_upd {A} (l : list A) i j v :
  nth_opt (upd_nat l i v) j = if Nat.eqb i j then (if Nat.ltb j (length l) then Some v else None) else nth_opt l j.
Proof.
  revert i j; induction l as [|x t IH]; intros i j; simpl.
  - destruct (Nat.eqb i j); destruct i, j; reflexivity.
  - destruct i, j; simpl; try reflexivity.
    rewrite IH. destruct (Nat.eqb i j); [|reflexivity].
    destruct (Nat.ltb_spec j (length t)), (Nat.ltb_spec (S j) (S (length t))); try lia; reflexivity.
Qed.

Lemma nth_opt_upd_eq {A} (l : list A) i v w : nth_opt l i = Some w -> nth_opt (upd_nat l i v) i = Some v.
Proof.
  intros H. rewrite nth_opt_upd, Nat.eqb_refl.
  apply nth_opt_lt in H. destruct (Nat.ltb_spec i (length l)); [reflexivity|lia].
Qed.

Lemma nth_opt_upd_neq {A} (l : list A) i j v : i <> j -> nth_opt (upd_nat l i v) j = nth_opt l j.
Proof. intros H. rewrite nth_opt_upd. destruct (Nat.eqb_spec i j); [contradiction|reflexivity]. Qed.

Lemma upd_nat_In {A} (l : list A) i v x : In x (upd_nat l i v) -> x = v \/ In x l.
Proof.
  revert i; induction l as [|y t IH]; intros i H; simpl in *; [tauto|].
  destruct i; simpl in H.
  - destruct H; auto.
  - destruct H as [->|H]; auto. apply IH in H; tauto.
Qed.

Lemma nth_upd_cases {A} (l : list A) i j v w :
  nth_opt (upd_nat l i v) j = Some w -> (j = i /\ w = v) \/ (j <> i /\ nth_opt l j = Some w).
Proof.
  rewrite nth_opt_upd. destruct (Nat.eqb_spec i j).
  - destruct (Nat.ltb j (length l)); [|discriminate]. intros H; inversion H; subst; auto.
  - intros H; right; split; [congruence|assumption].
Qed.

Lemma nth_app_cases {A} (l : list A) x j w :
  nth_opt (l ++ [x]) j = Some w -> nth_opt l j = Some w \/ (j = length l /\ w = x).
Proof.
  intros H. destruct (Nat.lt_ge_cases j (length l)).
  - rewrite nth_opt_app_l in H by assumption. auto.
  - rewrite nth_opt_app_r in H by assumption. right.
    destruct (j - length l) eqn:E; simpl in H; [inversion H; subst; split; [lia|reflexivity]|].
    destruct n; discriminate.
Qed.

(* ---------- waking ---------- *)
Section Wake.
Context {R : Type}.
Implicit Types (l : list (wpc R)) (w : wpc R).

Lemma wake_all_length l : length (wake_all l) = length l.
Proof. unfold wake_all. apply map_length. Qed.

Lemma wake_first_length l : length (wake_first l) = length l.
Proof. induction l as [|w t IH]; simpl; [reflexivity|]. destruct (is_sleep w); simpl; auto. Qed.

Lemma wake_nth_length n l l' : wake_nth n l = Some l' -> length l' = length l.
Proof.
  revert n l'; induction l as [|w t IH]; intros n l' H; simpl in *; [discriminate|].
  destruct (is_sleep w).
  - destruct n.
    + inversion H; reflexivity.
    + destruct (wake_nth n t) eqn:E; [|discriminate]. inversion H; simpl. f_equal; eauto.
  - destruct (wake_nth n t) eqn:E; [|discriminate]. inversion H; simpl. f_equal; eauto.
Qed.

Lemma wake_one_length n l : length (wake_one n l) = length l.
Proof.
  unfold wake_one. destruct (wake_nth n l) eqn:E; [eapply wake_nth_length; eauto|apply wake_first_length].
Qed.

(* pointwise effect: every worker keeps its pc or goes WSleep -> WWoken *)
Lemma wake_all_nth l i : nth_opt (wake_all l) i =
  match nth_opt l i with Some w => Some (if is_sleep w then WWoken else w) | None => None end.
Proof.
  revert i; induction l as [|w t IH]; intros i; simpl; [reflexivity|].
  destruct i; [reflexivity|]. apply IH.
Qed.

Lemma wake_first_nth l i w : nth_opt (wake_first l) i = Some w ->
  nth_opt l i = Some w \/ (nth_opt l i = Some WSleep /\ w = WWoken).
Proof.
  revert i; induction l as [|x t IH]; intros i H; simpl in *; [discriminate|].
  destruct (is_sleep x) eqn:E.
  - destruct i; simpl in *.
    + inversion H; subst. right. destruct x; try discriminate. auto.
    + auto.
  - destruct i; simpl in *; auto.
Qed.

Lemma wake_nth_nth n l l' i w : wake_nth n l = Some l' -> nth_opt l' i = Some w ->
  nth_opt l i = Some w \/ (nth_opt l i = Some WSleep /\ w = WWoken).
Proof.
  revert n l' i; induction l as [|x t IH]; intros n l' i H Hn; simpl in *; [discriminate|].
  destruct (is_sleep x) eqn:E.
  - destruct n.
    + inversion H; subst. destruct i; simpl in *; auto.
      inversion Hn; subst. right. destruct x; try discriminate. auto.
    + destruct (wake_nth n t) eqn:E2; [|discriminate]. inversion H; subst.
      destruct i; simpl in *; eauto.
  - destruct (wake_nth n t) eqn:E2; [|discriminate]. inversion H; subst.
    destruct i; simpl in *; eauto.
Qed.

Lemma wake_one_nth n l i w : nth_opt (wake_one n l) i = Some w ->
  nth_opt l i = Some w \/ (nth_opt l i = Some WSleep /\ w = WWoken).
Proof.
  unfold wake_one. destruct (wake_nth n l) eqn:E; intros H.
  - eapply wake_nth_nth; eauto.
  - apply wake_first_nth; assumption.
Qed.

(* conversely, a worker that does not sleep is untouched *)
Lemma wake_first_keep l i w : nth_opt l i = Some w -> is_sleep w = false -> nth_opt (wake_first l) i = Some w.
Proof.
  revert i; induction l as [|x t IH]; intros i H Hs; simpl in *; [discriminate|].
  destruct i; simpl in *.
  - inversion H; subst. rewrite Hs. reflexivity.
  - destruct (is_sleep x); simpl; auto.
Qed.

Lemma wake_nth_keep n l l' i w : wake_nth n l = Some l' -> nth_opt l i = Some w -> is_sleep w = false ->
  nth_opt l' i = Some w.
Proof.
  revert n l' i; induction l as [|x t IH]; intros n l' i H Hn Hs; simpl in *; [discriminate|].
  destruct (is_sleep x) eqn:E.
  - destruct n.
    + inversion H; subst. destruct i; simpl in *; auto. inversion Hn; subst. congruence.
    + destruct (wake_nth n t) eqn:E2; [|discriminate]. inversion H; subst.
      destruct i; simpl in *; eauto.
  - destruct (wake_nth n t) eqn:E2; [|discriminate]. inversion H; subst.
    destruct i; simpl in *; eauto.
Qed.

Lemma wake_one_keep n l i w : nth_opt l i = Some w -> is_sleep w = false -> nth_opt (wake_one n l) i = Some w.
Proof.
  unfold wake_one. destruct (wake_nth n l) eqn:E; intros H Hs.
  - eapply wake_nth_keep; eauto.
  - apply wake_first_keep; assumption.
Qed.

(* a sleeping worker stays asleep or is woken *)
Lemma wake_one_sleep n l i : nth_opt l i = Some WSleep ->
  nth_opt (wake_one n l) i = Some WSleep \/ nth_opt (wake_one n l) i = Some WWoken.
Proof.
  intros H. assert (L : i < length (wake_one n l)) by (rewrite wake_one_length; eapply nth_opt_lt; eauto).
  destruct (nth_opt_some _ _ L) as [w Hw].
  destruct (wake_one_nth _ _ _ _ Hw) as [E|[_ E]]; [rewrite H in E; inversion E; subst; auto|subst; auto].
Qed.

(* if somebody sleeps, notify_one wakes somebody *)
Lemma wake_first_some l : (exists i, nth_opt l i = Some WSleep) -> exists j, nth_opt (wake_first l) j = Some WWoken.
Proof.
  induction l as [|x t IH]; intros [i H]; simpl in *; [discriminate|].
  destruct (is_sleep x) eqn:E.
  - exists 0; reflexivity.
  - destruct i; simpl in *; [inversion H; subst; discriminate|].
    destruct IH as [j Hj]; [eauto|]. exists (S j); assumption.
Qed.

Lemma wake_nth_some n l l' : wake_nth n l = Some l' -> exists j, nth_opt l' j = Some WWoken.
Proof.
  revert n l'; induction l as [|x t IH]; intros n l' H; simpl in *; [discriminate|].
  destruct (is_sleep x) eqn:E.
  - destruct n.
    + inversion H; subst. exists 0; reflexivity.
    + destruct (wake_nth n t) eqn:E2; [|discriminate]. inversion H; subst.
      destruct (IH _ _ E2) as [j Hj]. exists (S j); assumption.
  - destruct (wake_nth n t) eqn:E2; [|discriminate]. inversion H; subst.
    destruct (IH _ _ E2) as [j Hj]. exists (S j); assumption.
Qed.

Lemma wake_one_some n l : (exists i, nth_opt l i = Some WSleep) -> exists j, nth_opt (wake_one n l) j = Some WWoken.
Proof.
  unfold wake_one. destruct (wake_nth n l) eqn:E; intros H.
  - eapply wake_nth_some; eauto.
  - apply wake_first_some; assumption.
Qed.

Lemma wake_one_In n l w : In w (wake_one n l) -> In w l \/ w = WWoken.
Proof.
  intros H. destruct (In_nth_opt _ _ H) as [i Hi].
  destruct (wake_one_nth _ _ _ _ Hi) as [E|[_ E]]; [left; eapply nth_opt_In; eauto|auto].
Qed.

Lemma wake_all_In l w : In w (wake_all l) -> In w l \/ w = WWoken.
Proof.
  unfold wake_all. rewrite in_map_iff. intros [x [E Hx]]. destruct (is_sleep x); subst; auto.
Qed.

Lemma wake_all_nth_cases l i w : nth_opt (wake_all l) i = Some w ->
  nth_opt l i = Some w \/ (nth_opt l i = Some WSleep /\ w = WWoken).
Proof.
  rewrite wake_all_nth. destruct (nth_opt l i) as [x|]; [|discriminate].
  destruct x; simpl; intros H; inversion H; subst; auto.
Qed.

Lemma wake_all_keep l i w : nth_opt l i = Some w -> is_sleep w = false -> nth_opt (wake_all l) i = Some w.
Proof. intros H Hs. rewrite wake_all_nth, H, Hs. reflexivity. Qed.

Lemma wake_all_no_sleep l w : In w (wake_all l) -> is_sleep w = false.
Proof.
  unfold wake_all. rewrite in_map_iff. intros [x [E Hx]]. destruct (is_sleep x) eqn:Es; subst; auto.
Qed.

End Wake.

(* ---------- reorder map ---------- *)
Section Reo.
Context {R : Type}.
Implicit Types (l : list (nat * R)).

Lemma remove_key_length l k : length (remove_key k l) <= length l.
Proof. induction l as [|[k' r] t IH]; simpl; [lia|]. destruct (Nat.eqb k k'); simpl; lia. Qed.

Lemma remove_key_lookup_length l k r : lookup k l = Some r -> length (remove_key k l) < length l.
Proof.
  induction l as [|[k' r'] t IH]; simpl; [discriminate|].
  destruct (Nat.eqb k k'); intros H.
  - pose proof (remove_key_length t k). lia.
  - simpl. apply IH in H. lia.
Qed.

Lemma remove_key_In l k q r : In (q, r) (remove_key k l) -> In (q, r) l /\ q <> k.
Proof.
  induction l as [|[k' r'] t IH]; simpl; [tauto|].
  destruct (Nat.eqb_spec k k'); intros H.
  - apply IH in H. tauto.
  - destruct H as [H|H]; [inversion H; subst; split; auto|]. apply IH in H. tauto.
Qed.

Lemma lookup_In l k r : lookup k l = Some r -> In (k, r) l.
Proof.
  induction l as [|[k' r'] t IH]; simpl; [discriminate|].
  destruct (Nat.eqb_spec k k'); intros H; [inversion H; subst; auto|auto].
Qed.

Lemma In_lookup l k r : In (k, r) l -> exists r', lookup k l = Some r'.
Proof.
  induction l as [|[k' r'] t IH]; simpl; [tauto|].
  destruct (Nat.eqb_spec k k'); intros H; [eauto|].
  destruct H as [H|H]; [inversion H; subst; congruence|auto].
Qed.

Lemma lookup_remove_other l k q : q <> k -> lookup q (remove_key k l) = lookup q l.
Proof.
  intros Hn. induction l as [|[k' r'] t IH]; simpl; [reflexivity|].
  destruct (Nat.eqb_spec k k'); simpl.
  - subst. destruct (Nat.eqb_spec q k'); [contradiction|assumption].
  - destruct (Nat.eqb q k'); [reflexivity|assumption].
Qed.

Lemma lookup_insert_other l k q r : q <> k -> lookup q (insert k r l) = lookup q l.
Proof.
  intros Hn. unfold insert; simpl. destruct (Nat.eqb_spec q k); [contradiction|].
  apply lookup_remove_other; assumption.
Qed.

Lemma insert_In l k r q x : In (q, x) (insert k r l) -> (q = k /\ x = r) \/ In (q, x) l.
Proof.
  unfold insert; simpl. intros [H|H]; [inversion H; auto|]. apply remove_key_In in H; tauto.
Qed.
End Reo.

(* ---------- the effect descriptors of the coordinator's helper functions ---------- *)
Section Effects.
Context {R : Type}.
Implicit Types (s : state R) (g : gk) (v : cres R) (d : dk).

Ltac eff_cases :=
  repeat match goal with
         | |- context [match ?x with _ => _ end] => destruct x eqn:?
         | |- context [if ?b then _ else _] => destruct b eqn:?
         end; cbn; eauto 6.

Lemma ret_eff_ph s g v : e_ph (ret_eff s g v) = None.
Proof. unfold ret_eff, with_out, goto, creturn, freturn. eff_cases. Qed.
Lemma ret_eff_last s g v : e_last (ret_eff s g v) = None.
Proof. unfold ret_eff, with_out, goto, creturn, freturn. eff_cases. Qed.
Lemma flush_eff_ph s : e_ph (flush_eff s) = None.
Proof. unfold flush_eff, goto, creturn. eff_cases. Qed.
Lemma flush_eff_last s : e_last (flush_eff s) = None.
Proof. unfold flush_eff, goto, creturn. eff_cases. Qed.
Lemma flush_eff_fin s : e_fin (flush_eff s) = false.
Proof. unfold flush_eff, goto, creturn. eff_cases. Qed.
Lemma flush_eff_out s : e_out (flush_eff s) = [].
Proof. unfold flush_eff, goto, creturn. eff_cases. Qed.
Lemma src_eff_fin c s r : e_fin (src_eff c s r) = false.
Proof. unfold src_eff, goto. eff_cases. Qed.
Lemma src_eff_out c s r : e_out (src_eff c s r) = [].
Proof. unfold src_eff, goto. eff_cases. Qed.
Lemma src_eff_res c s r : e_res (src_eff c s r) = [].
Proof. unfold src_eff, goto. eff_cases. Qed.
Lemma finish_eff_fin s : e_fin (finish_eff s) = false.
Proof. unfold finish_eff, goto. eff_cases. Qed.
Lemma finish_eff_out s : e_out (finish_eff s) = [].
Proof. unfold finish_eff, goto. eff_cases. Qed.
Lemma finish_eff_res s : e_res (finish_eff s) = [].
Proof. unfold finish_eff, goto. eff_cases. Qed.
Lemma disp_eff_out c s d : e_out (disp_eff c s d) = [].
Proof. unfold disp_eff. destruct d; auto using src_eff_out, flush_eff_out, finish_eff_out. Qed.
Lemma disp_eff_fin c s d : e_fin (disp_eff c s d) = false.
Proof. unfold disp_eff. destruct d; auto using src_eff_fin, flush_eff_fin, finish_eff_fin. Qed.

(* where a return from get_next can lead *)
Lemma ret_eff_pc s g v :
  e_pc (ret_eff s g v) = CIdle \/ (exists d, g = KBack d /\ e_pc (ret_eff s g v) = CLenB d) \/
  e_pc (ret_eff s g v) = CTop g \/ (exists b, e_pc (ret_eff s g v) = CShut b).
Proof. unfold ret_eff, with_out, goto, creturn, freturn. eff_cases. Qed.

Lemma src_eff_pc c s r :
  e_pc (src_eff c s r) = CTop KRead \/ exists e, e_pc (src_eff c s r) = CSetErr e.
Proof. unfold src_eff, goto. eff_cases. Qed.

Lemma flush_eff_pc s : e_pc (flush_eff s) = CTop KFlush \/ e_pc (flush_eff s) = CIdle.
Proof. unfold flush_eff, goto, creturn. eff_cases. Qed.

Lemma finish_eff_pc s : e_pc (finish_eff s) = CTop KFinish \/ e_pc (finish_eff s) = CShut true.
Proof. unfold finish_eff, goto. eff_cases. Qed.

Lemma disp_eff_pc c s d :
  let p := e_pc (disp_eff c s d) in
  (exists g, p = CTop g) \/ (exists e, p = CSetErr e) \/ p = CIdle \/ p = CShut true.
Proof.
  unfold disp_eff. destruct d; cbv zeta.
  - destruct (src_eff_pc c s r) as [H|[e H]]; rewrite H; eauto.
  - cbn; eauto.
  - destruct (flush_eff_pc s) as [H|H]; rewrite H; eauto.
  - destruct (finish_eff_pc s) as [H|H]; rewrite H; eauto.
Qed.
End Effects.

(* ---------- induction over reachable states, case analysis of a step ---------- *)
Section Reach.
Context {R : Type}.
Variable f : nat -> R + Z.

Lemma reach_inv (P : state R -> Prop) c src p :
  P (init c src p) ->
  (forall s t s', reachable f c src p s -> P s -> step f c s t = Some s' -> P s') ->
  forall s, reachable f c src p s -> P s.
Proof. intros H0 Hs s Hr. induction Hr; eauto. Qed.

Lemma run_strict_reachable c src p sched s0 s :
  reachable f c src p s0 -> run_strict f c s0 sched = Some s -> reachable f c src p s.
Proof.
  revert s0; induction sched as [|t rest IH]; intros s0 H0 H; simpl in H.
  - inversion H; subst; assumption.
  - destruct (step f c s0 t) eqn:E; [|discriminate]. eapply IH; [|eassumption]. econstructor; eauto.
Qed.

Lemma run_reachable c src p sched s0 :
  reachable f c src p s0 -> reachable f c src p (run f c s0 sched).
Proof.
  revert s0; induction sched as [|t rest IH]; intros s0 H0; simpl; [assumption|].
  destruct (step f c s0 t) eqn:E; [|auto]. apply IH. econstructor; eauto.
Qed.
End Reach.

(* split a coordinator step into its cases; helper functions stay folded *)
Lemma Some_inj {A} (a b : A) : Some a = Some b -> a = b.
Proof. intros H; injection H; auto. Qed.

Ltac destr_matches H :=
  repeat (cbv beta iota in H;
          match type of H with
          | context [match ?x with _ => _ end] => destruct x eqn:?
          | context [if ?b then _ else _] => destruct b eqn:?
          end);
  cbv beta iota in H;
  try discriminate H; apply Some_inj in H; subst.

Ltac co_cases H :=
  unfold co_step in H;
  match type of H with context [match pc ?s with _ => _ end] => destruct (pc s) eqn:? end;
  destr_matches H.

Ltac wk_cases H :=
  unfold wk_step in H;
  match type of H with context [match nth_opt ?l ?i with _ => _ end] => destruct (nth_opt l i) as [[]|] eqn:? end;
  destr_matches H.

Ltac msimpl := cbn [q_items q_closed q_lock ch rx_alive err shut act ws pc ph nd nr last reo rwake
  script prog pend out results popped set_q set_items set_closed set_lock set_ch set_err set_act set_ws set_pc
  set_ph set_nd set_last set_reo set_script set_prog set_out set_popped set_w call_return finish_return
  apply_eff ret after_src finish_cont flush_loop after_dispatch goto creturn freturn with_out
  e_pc e_out e_res e_fin e_ph e_last];
  rewrite ?ret_eff_ph, ?ret_eff_last, ?flush_eff_ph, ?flush_eff_last, ?flush_eff_fin, ?flush_eff_out,
          ?src_eff_fin, ?src_eff_out, ?src_eff_res, ?finish_eff_fin, ?finish_eff_out, ?finish_eff_res,
          ?disp_eff_out, ?disp_eff_fin, ?app_nil_r.

Ltac msimpl_in H := cbn [q_items q_closed q_lock ch rx_alive err shut act ws pc ph nd nr last reo rwake
  script prog pend out results popped set_q set_items set_closed set_lock set_ch set_err set_act set_ws set_pc
  set_ph set_nd set_last set_reo set_script set_prog set_out set_popped set_w call_return finish_return
  apply_eff ret after_src finish_cont flush_loop after_dispatch goto creturn freturn with_out
  e_pc e_out e_res e_fin e_ph e_last] in H;
  rewrite ?ret_eff_ph, ?ret_eff_last, ?flush_eff_ph, ?flush_eff_last, ?flush_eff_fin, ?flush_eff_out,
          ?src_eff_fin, ?src_eff_out, ?src_eff_res, ?finish_eff_fin, ?finish_eff_out, ?finish_eff_res,
          ?disp_eff_out, ?disp_eff_fin, ?app_nil_r in H.

(* replace the program point an effect descriptor leads to by its possible values *)
Ltac pc_cases :=
  repeat match goal with
  | H : context [e_pc (ret_eff ?s ?g ?v)] |- _ =>
      let X := fresh "Hpc" in
      destruct (ret_eff_pc s g v) as [X|[[? [? X]]|[X|[? X]]]]; rewrite X in *; clear X
  | H : context [e_pc (src_eff ?c ?s ?r)] |- _ =>
      let X := fresh "Hpc" in
      destruct (src_eff_pc c s r) as [X|[? X]]; rewrite X in *; clear X
  | H : context [e_pc (disp_eff ?c ?s ?d)] |- _ =>
      let X := fresh "Hpc" in
      destruct (disp_eff_pc c s d) as [[? X]|[[? X]|[X|X]]]; rewrite X in *; clear X
  | H : context [e_pc (flush_eff ?s)] |- _ =>
      let X := fresh "Hpc" in
      destruct (flush_eff_pc s) as [X|X]; rewrite X in *; clear X
  | H : context [e_pc (finish_eff ?s)] |- _ =>
      let X := fresh "Hpc" in
      destruct (finish_eff_pc s) as [X|X]; rewrite X in *; clear X
  | |- context [e_pc (ret_eff ?s ?g ?v)] =>
      let X := fresh "Hpc" in
      destruct (ret_eff_pc s g v) as [X|[[? [? X]]|[X|[? X]]]]; rewrite X in *; clear X
  | |- context [e_pc (src_eff ?c ?s ?r)] =>
      let X := fresh "Hpc" in
      destruct (src_eff_pc c s r) as [X|[? X]]; rewrite X in *; clear X
  | |- context [e_pc (disp_eff ?c ?s ?d)] =>
      let X := fresh "Hpc" in
      destruct (disp_eff_pc c s d) as [[? X]|[[? X]|[X|X]]]; rewrite X in *; clear X
  | |- context [e_pc (flush_eff ?s)] =>
      let X := fresh "Hpc" in
      destruct (flush_eff_pc s) as [X|X]; rewrite X in *; clear X
  | |- context [e_pc (finish_eff ?s)] =>
      let X := fresh "Hpc" in
      destruct (finish_eff_pc s) as [X|X]; rewrite X in *; clear X
  end.

Ltac split_andb :=
  repeat match goal with
         | H : (_ && _) = true |- _ => apply andb_true_iff in H; destruct H
         | H : Nat.ltb _ _ = true |- _ => apply Nat.ltb_lt in H
         | H : Nat.leb _ _ = true |- _ => apply Nat.leb_le in H
         | H : Nat.eqb _ _ = true |- _ => apply Nat.eqb_eq in H
         | H : Nat.eqb _ _ = false |- _ => apply Nat.eqb_neq in H
         | H : Nat.ltb _ _ = false |- _ => apply Nat.ltb_ge in H
         | H : Nat.leb _ _ = false |- _ => apply Nat.leb_gt in H
         | H : negb _ = true |- _ => apply negb_true_iff in H
         | H : negb _ = false |- _ => apply negb_false_iff in H
         end.

(* use the equation [pc s = ..] of the pre-state everywhere *)
Ltac rw_pc :=
  try match goal with
      | H : pc ?s = _ |- _ =>
          is_var s; rewrite ?H;
          repeat match goal with
                 | H' : context [pc s] |- _ => lazymatch H' with H => fail | _ => rewrite H in H' end
                 end
      end.

(* use the equations [proj s = ..] produced by the case analysis in the other hypotheses *)
Ltac rw_eqs :=
  repeat match goal with
         | H : ?p ?s = _ |- _ => is_var s; progress (rewrite H in * |-)
         end.

Ltac rw_goal :=
  repeat match goal with
         | H : ?p ?s = _ |- _ => is_var s; rewrite H
         end.

(* case analysis of one step of any thread; the goal is simplified *)
Ltac step_split t Hst :=
  destruct t as [?pick|?i]; cbn [step] in Hst; [co_cases Hst | wk_cases Hst]; msimpl.
