(* Mt/Refuted.v — the PINNED code (orig_cfg: no fx_* flag) violates C09 and C10: concrete
   schedules, checked by vm_compute.  Each witness is a strict run (every scheduled thread is
   enabled), so the final state is reachable; the same schedules are replayed on the real code by
   the harness (corpus/mt.txt).  The unit function used: unit 0 fails with InvalidData, all other
   units succeed. *)
From LzVerif Require Import Base.Bytes Mt.Protocol Mt.ProtocolLemmas.
Local Open Scope nat_scope.

Definition f_ok (q : nat) : Z + Z := inl (Z.of_nat q).
Definition f_bad0 (q : nat) : Z + Z := match q with O => inr E_INVALID_DATA | _ => inl (Z.of_nat q) end.

Definition rd0 := orig_cfg Reader 1 true.     (* LZMA2ReaderMT, one worker *)
Definition wr0 := orig_cfg Writer 1 true.     (* LZMA2WriterMT / LZIPWriterMT, one worker *)

(* a maximal state in which a call of the caller has not returned *)
Definition deadlocked (f : nat -> Z + Z) (c : cfg) (s : state Z) : bool := stuck f c s && in_call s.
(* Drop has completed, nothing can move, and some worker has not exited *)
Definition leaked (f : nat -> Z + Z) (c : cfg) (s : state Z) : bool :=
  stuck f c s && dropped s && negb (all_exited s).

(* ---- F15 (C10): lost wake-up.  The worker sees closed == false (4 steps), Drop runs completely
   (shutdown.store, closed.store, notify_all: nobody waits yet), then the worker waits. ---- *)
Definition sched_lost_wakeup : list tid :=
  [Wk 0; Wk 0; Wk 0; Wk 0;  Co 0; Co 0; Co 0; Co 0;  Wk 0;  Co 0].

Theorem lost_wakeup_refuted :
  exists sched s, run_strict f_ok rd0 (init rd0 [] [OpDrop]) sched = Some s /\ leaked f_ok rd0 s = true.
Proof. exists sched_lost_wakeup. eexists. split; [vm_compute; reflexivity|vm_compute; reflexivity]. Qed.

(* the shortest form quoted in DESIGN: the five steps around the window *)
Theorem lost_wakeup_window :
  let s := run f_ok rd0 (init rd0 [] [OpDrop]) sched_lost_wakeup in
  ws s = [WSleep] /\ q_closed s = true /\ pc s = CDone.
Proof. vm_compute. auto. Qed.

(* ---- F14a (C09): a worker fails while the coordinator already waits in recv().
   One unit, terminator seen; coordinator: read call .. dispatch .. Draining .. recv() blocks;
   worker: pop, fetch_add, fails, fetch_sub, set_error, exit. ---- *)
Definition sched_worker_error : list tid :=
  [Co 0; Co 0; Co 0; Co 0; Co 0;            (* OpRead, CTop, CTake, try_recv: empty, len < 4: dispatch *)
   Co 0; Co 0; Co 0; Co 0; Co 0;            (* closed.load, push, notify_one, active.load, len -> Draining *)
   Co 0; Co 0;                               (* CTop, CTake -> recv() *)
   Wk 0; Wk 0; Wk 0; Wk 0; Wk 0; Wk 0].     (* shutdown.load, lock, pop, fetch_add (fails), fetch_sub, set_error *)

Theorem mt_deadlock_refuted :
  exists sched s, run_strict f_bad0 rd0 (init rd0 [(true, SEnd)] [OpRead]) sched = Some s /\
                  deadlocked f_bad0 rd0 s = true /\ err s = Some E_INVALID_DATA /\ results s = [].
Proof. exists sched_worker_error. eexists. split; [vm_compute; reflexivity|vm_compute; auto]. Qed.

(* ---- F14b (C09): zero-length input: last_sequence_id = Some(0) with nothing dispatched. ---- *)
Definition sched_empty_input : list tid := [Co 0; Co 0; Co 0; Co 0; Co 0; Co 0; Co 0].

Theorem mt_empty_input_refuted :
  exists sched s, run_strict f_ok rd0 (init rd0 [] [OpRead]) sched = Some s /\
                  deadlocked f_ok rd0 s = false /\ pc s = CRecv KRead true /\ last s = Some 0 /\ nd s = 0.
Proof. exists sched_empty_input. eexists. split; [vm_compute; reflexivity|vm_compute; auto]. Qed.

(* the worker is still able to go to sleep; after it did, nothing can move *)
Theorem mt_empty_input_deadlock :
  exists sched s, run_strict f_ok rd0 (init rd0 [] [OpRead]) sched = Some s /\ deadlocked f_ok rd0 s = true.
Proof.
  exists (sched_empty_input ++ [Wk 0; Wk 0; Wk 0; Wk 0; Wk 0]). eexists.
  split; [vm_compute; reflexivity|vm_compute; reflexivity].
Qed.

(* ---- F14c (C09): finish() after a worker error was returned by write().  One full unit fails;
   write() returns Err; finish() overwrites State::Error with Finishing and waits. ---- *)
Definition sched_finish_after_error : list tid :=
  [Co 0; Co 0; Co 0; Co 0; Co 0; Co 0; Co 0;      (* OpWrite: len, closed.load, push, notify, active, len, (no spawn) *)
   Wk 0; Wk 0; Wk 0; Wk 0; Wk 0; Wk 0;            (* the worker fails and exits *)
   Co 0; Co 0;                                     (* drain loop: CTop, CTake -> Err returned to write() *)
   Co 0; Co 0; Co 0].                              (* OpFinish: Finishing; CTop, CTake -> recv() *)

Theorem mt_finish_after_error_refuted :
  exists sched s, run_strict f_bad0 wr0 (init wr0 [] [OpWrite true; OpFinish]) sched = Some s /\
                  deadlocked f_bad0 wr0 s = true /\ results s = [RErr E_INVALID_DATA].
Proof. exists sched_finish_after_error. eexists. split; [vm_compute; reflexivity|vm_compute; auto]. Qed.

(* ---- the same scenarios on the repaired code end with the error returned and all workers exited ---- *)
Definition rd1 := fixed_cfg Reader 1 true.
Definition wr1 := fixed_cfg Writer 1 true.

Example repaired_worker_error :
  let '(s, maximal) := run_auto f_bad0 rd1 (init rd1 [(true, SEnd)] [OpRead; OpDrop]) true 200 in
  maximal = true /\ results s = [RErr E_INVALID_DATA] /\ all_exited s = true /\ dropped s = true.
Proof. vm_compute. auto. Qed.

Example repaired_empty_input :
  let '(s, maximal) := run_auto f_ok rd1 (init rd1 [] [OpRead; OpDrop]) true 200 in
  maximal = true /\ results s = [RErr E_UNEXPECTED_EOF] /\ all_exited s = true /\ dropped s = true.
Proof. vm_compute. auto. Qed.

Example repaired_finish_after_error :
  let '(s, maximal) := run_auto f_bad0 wr1 (init wr1 [] [OpWrite true; OpFinish]) false 200 in
  maximal = true /\ results s = [RErr E_INVALID_DATA; RErr E_OTHER] /\ all_exited s = true /\ dropped s = true.
Proof. vm_compute. auto. Qed.

(* the worker is inside the window (it saw closed == false and holds the mutex); the repaired
   close() waits for the mutex, so the worker is asleep when notify_all runs *)
Example repaired_lost_wakeup :
  let s0 := run f_ok rd1 (init rd1 [] [OpDrop]) [Wk 0; Wk 0; Wk 0; Wk 0] in
  let '(s, maximal) := run_auto f_ok rd1 s0 true 200 in
  ws s0 = [WWait] /\ maximal = true /\ all_exited s = true /\ dropped s = true.
Proof. vm_compute. auto. Qed.
