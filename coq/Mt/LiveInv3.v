(* Mt/LiveInv3.v — the condvar invariants of the repaired protocol ("a non-empty queue has a worker
   that is not asleep", "after close() nobody sleeps") and the assembly of I3. *)
From LzVerif Require Import Base.Bytes Mt.Protocol Mt.ProtocolLemmas Mt.ProtocolInv Mt.SafetyProofs Mt.CountProofs
  Mt.LiveInv Mt.LiveInv2.
Local Open Scope nat_scope.

Section P.
Context {R : Type}.
Variable f : nat -> R + Z.
Implicit Types (s : state R) (c : cfg).

Ltac pre :=
  rw_pc;
  repeat match goal with
         | H : lock_free _ = true |- _ => apply lock_free_none in H
         end;
  split_andb.

Ltac dfx Hfx := destruct Hfx as (Fc & Fw & Fe & Ff).

Lemma live_classify (w : wpc R) :
  exited_like w = false -> sees_empty w = false -> is_sleep w = false -> live w = true.
Proof. destruct w; simpl; congruence. Qed.

Lemma sleeper_dec (l : list (wpc R)) :
  (exists i, nth_opt l i = Some WSleep) \/ (forall w, In w l -> is_sleep w = false).
Proof.
  induction l as [|w t IH].
  - right. intros w [].
  - destruct (is_sleep w) eqn:E.
    + left. exists 0. destruct w; try discriminate. reflexivity.
    + destruct IH as [[i Hi]|H].
      * left. exists (S i). assumption.
      * right. intros x [<-|Hx]; auto.
Qed.

Lemma live_not_sleep (w : wpc R) : live w = true -> is_sleep w = false.
Proof. destruct w; simpl; congruence. Qed.

(* ---- a non-empty queue has a worker that will look at it ---- *)
Lemma step_i3_live c s t s' : Fx c -> I1 c s -> I3 c s -> step f c s t = Some s' ->
  q_items s' <> [] -> shut s' = false -> q_closed s' = false -> rx_alive s' = true ->
  (exists w, In w (ws s') /\ live w = true) \/ (exists d, pc s' = CNotify d) \/
  (ws s' = [] /\ spawn_chain (pc s') = true).
Proof.
  intros Hfx H1 H3 Hst. dfx Hfx.
  pose proof (i3_live c s H3) as LV. pose proof (i3_noexit c s H3) as NE.
  pose proof (i1_empty c s H1) as EM. pose proof (i3_act1 c s H3) as A1. pose proof (i1_stored c s H1) as ST.
  pose proof (maxw_pos c) as MW.
  step_split t Hst; pre; intros Hq Hs Hc Hr; try discriminate; try congruence.
  (* CPush *)
  all: try solve [ right; left; eauto ].
  (* the facts about the pre-state, when its flags are as good as those of the post-state *)
  all: try (specialize (LV ltac:(first [assumption|congruence]) ltac:(first [assumption|reflexivity|congruence])
                           ltac:(first [assumption|reflexivity|congruence]) ltac:(first [assumption|reflexivity|congruence]))).
  all: try (specialize (NE ltac:(first [assumption|reflexivity|congruence])
                           ltac:(first [assumption|reflexivity|congruence]) ltac:(first [assumption|reflexivity|congruence]))).
  (* coordinator steps that change neither the queue, the workers nor leave a special program point *)
  all: try solve [ destruct LV as [L|[[d' L]|[L1 L2]]]; [left; assumption|discriminate|discriminate] ].
  all: try solve [ destruct LV as [L|[[d' L]|[L1 L2]]];
                   [left; assumption|discriminate|right; right; split; [assumption|reflexivity]] ].
  (* close(): the flag is already set *)
  all: try solve [ exfalso; specialize (ST eq_refl); congruence ].
  (* CSpawn *)
  all: try solve [ left; exists WTop; split; [apply in_app_iff; right; left; reflexivity|reflexivity] ].
  (* workers *)
  all: try solve [ exfalso; specialize (NE _ (nth_opt_In _ _ _ Heqo)); discriminate ].
  all: try solve [
    destruct LV as [(w0 & Hw0 & Hl)|[[d' L]|[L1 L2]]];
    [ destruct (In_nth_opt _ _ Hw0) as [j Hj]; destruct (Nat.eq_dec j i) as [->|Hne];
      [ rewrite Heqo in Hj; inversion Hj; subst;
        first [ left; eexists; split; [eapply upd_nat_In_new; eauto|reflexivity] | discriminate Hl ]
      | left; exists w0; split; [eapply upd_nat_In_old; eauto|assumption] ]
    | right; left; eauto
    | exfalso; eapply nth_opt_nonnil; eauto ] ].
  - (* CNotify: notify_one wakes a sleeper, or nobody sleeps and every worker is busy *)
    destruct (sleeper_dec (ws s)) as [[j Hj]|Hns].
    + left. destruct (wake_one_some pick (ws s) (ex_intro _ j Hj)) as [k Hk].
      exists WWoken; split; [eapply nth_opt_In; eauto|reflexivity].
    + destruct (ws s) as [|w0 tl] eqn:Ew.
      * right; right; split; reflexivity.
      * left. exists w0. split.
        -- apply nth_opt_In with 0. apply wake_one_keep; [reflexivity|apply Hns; left; reflexivity].
        -- apply live_classify.
           ++ apply NE. left; reflexivity.
           ++ destruct (sees_empty w0) eqn:E; [|reflexivity]. exfalso. apply Hq. eapply EM; [left; reflexivity|assumption].
           ++ apply Hns. left; reflexivity.
  - (* CLenS without spawning: impossible when no worker exists *)
    destruct LV as [L|[[d' L]|[L1 L2]]]; [left; assumption|discriminate|].
    exfalso. specialize (A1 _ _ eq_refl L1). subst. rewrite L1 in Heqb0. simpl in Heqb0.
    assert (0 < qlen s) by (unfold qlen; destruct (q_items s); [congruence|simpl; lia]).
    destruct (Nat.ltb_spec 0 (qlen s)); [|lia]. destruct (Nat.ltb_spec 0 (maxw c)); [|lia]. discriminate.
Qed.

(* ---- after close() nobody is, or goes, to sleep ---- *)
Lemma step_i3_nosleep c s t s' : Fx c -> I1 c s -> I3 c s -> step f c s t = Some s' ->
  q_closed s' = true ->
  (exists fin, pc s' = CCloseNotify fin) \/ forall w, In w (ws s') -> asleep w = false.
Proof.
  intros Hfx H1 H3 Hst. dfx Hfx.
  pose proof (i3_nosleep c s H3) as NS. pose proof (i1_lock_w c s H1) as LW.
  pose proof (i1_lock_c' c s H1 Fc) as LC.
  step_split t Hst; pre; intros Hc; try discriminate; try congruence.
  all: try solve [ left; eauto ].
  all: try (specialize (NS ltac:(first [assumption|reflexivity|congruence]))).
  all: try solve [ destruct NS as [[fin' L]|L]; [discriminate|right; assumption] ].
  (* notify_one / spawn *)
  all: try solve [ destruct NS as [[fin' L]|L]; [discriminate|]; right; intros w Hw;
                   apply wake_one_In in Hw; destruct Hw as [Hw| ->]; [auto|reflexivity] ].
  all: try solve [ destruct NS as [[fin' L]|L]; [discriminate|]; right; intros w Hw;
                   apply in_app_iff in Hw; destruct Hw as [Hw|[<-|[]]]; [auto|reflexivity] ].
  (* notify_all under the mutex: every sleeper is woken, nobody is between the check and wait() *)
  all: try solve [
    right; intros w Hw; pose proof (wake_all_no_sleep _ _ Hw) as Hns;
    apply wake_all_In in Hw; destruct Hw as [Hw| ->]; [|reflexivity];
    destruct w; try reflexivity; try discriminate;
    exfalso; destruct (In_nth_opt _ _ Hw) as [j Hj]; specialize (LW _ _ Hj eq_refl);
    rewrite (LC eq_refl) in LW; discriminate ].
  (* workers *)
  all: try solve [
    destruct NS as [[fin' L]|L]; [left; eauto|]; right; intros w Hw;
    apply upd_nat_In in Hw; destruct Hw as [->|Hw]; [try reflexivity|auto];
    exfalso; specialize (L _ (nth_opt_In _ _ _ Heqo)); discriminate ].
Qed.

(* ---- assembly ---- *)
Theorem inv_I3 c src p s : Fx c -> reachable f c src p s -> I3 c s.
Proof.
  intros Hfx Hr. induction Hr as [|s t s' Hr IH Hst].
  - constructor; unfold init, errd; simpl; try discriminate; try tauto; try congruence.
    all: try solve [ intros; destruct (k_spawn_new c); simpl in *; intuition (try discriminate; subst; auto) ].
    all: try solve [ intros [[d X]|X]; discriminate ].
  - pose proof (inv_I1 f c src p s Hr) as H1. pose proof (inv_I2 f c src p s Hr) as H2.
    pose proof (inv_ctl f c src p s Hfx Hr) as OK.
    destruct (step_i3_act f c s t s' IH Hst) as [A0 A1].
    destruct (step_i3_drain f c s t s' Hfx OK H2 IH Hst) as [D1 D2].
    destruct (step_i3_back f c src p s t s' Hfx Hr IH Hst) as [B1 B2].
    destruct (step_i3_wake234 f c s t s' Hfx OK IH Hst) as (W2 & W3 & W4).
    constructor; auto.
    + eapply step_i3_noexit; eauto.
    + eapply step_i3_shut; eauto.
    + eapply step_i3_wake1; eauto.
    + eapply step_i3_live; eauto.
    + eapply step_i3_nosleep; eauto.
Qed.

End P.
