(* Mt/Protocol.v — ONE parametric small-step model of the coordinator / worker / work-queue /
   channel / error_store / shutdown-flag / active-worker-counter protocol shared by
     src/lzma2_reader_mt.rs   (kind Reader, first worker spawned in new())
     src/lzip/reader_mt.rs    (kind Reader, NO worker spawned in new())
     src/enc/lzma2_writer_mt.rs, src/lzip/writer_mt.rs   (kind Writer)
   and src/work_queue.rs, src/lib.rs::set_error.         Definitions only.

   Granularity: one step = one visible (shared-memory / synchronisation) operation of one thread
   followed by that thread's local code up to its next visible operation.
     * steal()  = lock | pop_front (Some: + unlock at return) | closed.load (true: + unlock)
                  | condvar.wait (unlock + sleep) | [notified] re-lock        — separate steps
     * close()  = closed.store | notify_all            WITHOUT the queue mutex   (fx_close = false)
                = lock | closed.store | notify_all | unlock                      (fx_close = true)
     * push()   = closed.load | lock+push_back+unlock | notify_one
     * len()    = lock+len+unlock (one step: a critical section with a single access)
     * set_error = error_store.lock + first-error-wins + shutdown.store + unlock (one step: the
                  critical section contains a single externally visible write)
     * error_store.lock().take() = one step
     * the coordinator owns a Sender for its whole life: recv()/try_recv() never see
       Disconnected while the object is alive — those arms of the code are unreachable and absent.
   The four fx_* flags select the code before (false) / after (true) the repairs delivered in
   repo-patches/ (F15 close under the mutex; F14 wake-up on the worker error path, empty input,
   finish() after an error).  The tree as repaired is [fixed_cfg]; [orig_cfg] is the pinned tree.

   Memory model: sequential consistency over these steps.  Spurious condvar wake-ups are not
   modelled.  A schedule is a list of thread ids; the coordinator's id carries the condvar's
   choice of the waiter a notify_one wakes (irrelevant for every other step). *)
From LzVerif Require Export Base.Bytes.
Local Open Scope nat_scope.

Inductive kind := Reader | Writer.

Record cfg := mkCfg {
  k_kind : kind;
  k_workers : nat;        (* num_workers as passed by the caller (u32) *)
  k_spawn_new : bool;     (* new() spawns the first worker (all but LZIPReaderMT) *)
  fx_close : bool;        (* F15 repaired: close() takes the queue mutex *)
  fx_wake : bool;         (* F14a repaired: worker error path also sends a wake-up message *)
  fx_empty : bool;        (* F14b repaired: LZMA2ReaderMT, end of input with nothing dispatched *)
  fx_finish : bool        (* F14c repaired: finish() on a writer that is in the Error state *)
}.

(* num_workers.clamp(1, 256) *)
Definition maxw (c : cfg) : nat := Nat.max 1 (Nat.min (k_workers c) 256).

(* Thread ids.  [Co pick]: the coordinator (= the caller's thread); [pick] selects which waiter a
   notify_one wakes.  [Wk i]: the i-th spawned worker. *)
Inductive tid := Co (pick : nat) | Wk (i : nat).

(* Outcome of one read_and_dispatch_chunk / dispatch_next_member call, seen from the protocol. *)
Inductive src_res := SCont | SEnd | SErr (e : Z).
(* A call may dispatch one unit (true) before producing its result. *)
Definition src_ev := (bool * src_res)%type.

(* What the caller does with the object. *)
Inductive op :=
| OpRead                 (* reader: one get_next_uncompressed_chunk *)
| OpWrite (full : bool)  (* writer: one iteration of write()'s loop; full = the unit reached its size *)
| OpFlush
| OpFinish
| OpDrop.

Inductive phase := PRun | PDrain | PFin | PErr.   (* Reading|Dispatching|Writing, Draining|Finishing, Finished, Error *)

(* who called the dispatch sequence (send_work_unit / dispatch_next_member) *)
Inductive dk := DRead (r : src_res) | DWrite | DFlush | DFinish.
(* who called get_next_*_chunk *)
Inductive gk := KRead | KBack (d : dk) | KDrain | KFlush | KFinish.

Inductive cpc :=
| CIdle
| CTop (g : gk)             (* loop top: out_of_order_chunks.remove(&next) — local *)
| CTake (g : gk)            (* error_store.lock().take() *)
| CTakeE (g : gk)           (* State::Error arm: error_store.lock().take() *)
| CRecv (g : gk) (blocking : bool)
| CLenR                     (* reader: work_queue.len() < 4 ? *)
| CLenB (d : dk)            (* writer: while work_queue.len() >= 4 *)
| CPushChk (d : dk)         (* push(): closed.load() *)
| CPush (d : dk)            (* push(): lock, push_back, unlock *)
| CNotify (d : dk)          (* push(): notify_one() *)
| CLoadAct (d : dk)         (* active_workers.load() *)
| CLenS (d : dk) (a : Z)    (* work_queue.len() for the spawn rule *)
| CSpawn (d : dk)           (* thread::spawn *)
| CSetErr (e : Z)           (* reader: set_error on a source error (or empty input, fx_empty) *)
| CShut (fin : bool)        (* shutdown_flag.store(true); fin: inside finish(), else inside Drop *)
| CCloseLock (fin : bool)   (* [fx_close] close(): queue.lock() *)
| CCloseStore (fin : bool)  (* close(): closed.store(true) *)
| CCloseNotify (fin : bool) (* close(): notify_all() *)
| CCloseUnlock (fin : bool) (* [fx_close] close(): guard dropped *)
| CDropRx                   (* fields dropped: Receiver (and the coordinator's Sender) *)
| CDone.

Section Model.
Variable R : Type.                 (* payload of a result unit *)
Variable f : nat -> R + Z.         (* the worker's unit function: result or error kind *)

Inductive msg := MRes (s : nat) (r : R) | MWake.

(* result of a public call: reader: Some(chunk) | None (clean end) | Err; writer: write/flush Ok = ROk,
   finish Ok(inner) = RNone (the stream is complete), Err *)
Inductive cres := RSome (r : R) | RNone | RErr (e : Z) | ROk.

Inductive wpc :=
| WTop                      (* while !shutdown_flag.load() *)
| WLock                     (* steal(): queue.lock() *)
| WPop                      (* holds the mutex: pop_front() *)
| WChk                      (* holds the mutex, saw no item: closed.load() *)
| WWait                     (* holds the mutex, saw closed == false: condvar.wait() *)
| WSleep                    (* blocked on the condvar (mutex released) *)
| WWoken                    (* notified: re-acquire the mutex inside wait() *)
| WInc (s : nat)            (* active_workers.fetch_add(1); then the unit function runs *)
| WSend (s : nat) (r : R)   (* result_tx.send((seq, result)) *)
| WDec                      (* fetch_sub(1), loop *)
| WDecX                     (* send failed: fetch_sub(1), return *)
| WDecE (e : Z)             (* unit failed: fetch_sub(1) *)
| WSetErr (e : Z)           (* set_error(error, ..) *)
| WWake                     (* [fx_wake] result_tx.send(wake-up) *)
| WExit.

Record state := mkSt {
  q_items : list nat;            (* VecDeque<WorkUnit>, by sequence number *)
  q_closed : bool;
  q_lock : option tid;           (* owner of the queue mutex (picks are irrelevant: Co 0) *)
  ch : list msg;                 (* mpsc channel contents *)
  rx_alive : bool;
  err : option Z;                (* error_store *)
  shut : bool;                   (* shutdown_flag *)
  act : Z;                       (* active_workers: AtomicU32 *)
  ws : list wpc;                 (* worker_handles, in spawn order *)
  pc : cpc;
  ph : phase;
  nd : nat;                      (* next_sequence_to_dispatch *)
  nr : nat;                      (* next_sequence_to_return / _to_write *)
  last : option nat;             (* last_sequence_id *)
  reo : list (nat * R);          (* out_of_order_chunks (newest binding first) *)
  rwake : bool;                  (* the wake-up sentinel (key u64::MAX) sits in out_of_order_chunks *)
  script : list src_ev;          (* reader: what the source will deliver *)
  prog : list op;                (* what the caller will do *)
  pend : bool;                   (* writer: current_work_unit is non-empty *)
  out : list R;                  (* payloads handed to the caller / written to the sink, in order *)
  results : list cres;           (* result of every completed call, oldest first *)
  popped : list nat              (* ghost: every sequence number a worker took from the queue *)
}.

(* ---- setters ---- *)
Definition set_q (s : state) qi qc ql :=
  mkSt qi qc ql (ch s) (rx_alive s) (err s) (shut s) (act s) (ws s) (pc s) (ph s) (nd s) (nr s) (last s)
       (reo s) (rwake s) (script s) (prog s) (pend s) (out s) (results s) (popped s).
Definition set_items s qi := set_q s qi (q_closed s) (q_lock s).
Definition set_closed s qc := set_q s (q_items s) qc (q_lock s).
Definition set_lock s ql := set_q s (q_items s) (q_closed s) ql.
Definition set_ch (s : state) c rx :=
  mkSt (q_items s) (q_closed s) (q_lock s) c rx (err s) (shut s) (act s) (ws s) (pc s) (ph s) (nd s) (nr s)
       (last s) (reo s) (rwake s) (script s) (prog s) (pend s) (out s) (results s) (popped s).
Definition set_err (s : state) e sh :=
  mkSt (q_items s) (q_closed s) (q_lock s) (ch s) (rx_alive s) e sh (act s) (ws s) (pc s) (ph s) (nd s) (nr s)
       (last s) (reo s) (rwake s) (script s) (prog s) (pend s) (out s) (results s) (popped s).
Definition set_act (s : state) a :=
  mkSt (q_items s) (q_closed s) (q_lock s) (ch s) (rx_alive s) (err s) (shut s) a (ws s) (pc s) (ph s) (nd s)
       (nr s) (last s) (reo s) (rwake s) (script s) (prog s) (pend s) (out s) (results s) (popped s).
Definition set_ws (s : state) w :=
  mkSt (q_items s) (q_closed s) (q_lock s) (ch s) (rx_alive s) (err s) (shut s) (act s) w (pc s) (ph s) (nd s)
       (nr s) (last s) (reo s) (rwake s) (script s) (prog s) (pend s) (out s) (results s) (popped s).
Definition set_pc (s : state) p :=
  mkSt (q_items s) (q_closed s) (q_lock s) (ch s) (rx_alive s) (err s) (shut s) (act s) (ws s) p (ph s) (nd s)
       (nr s) (last s) (reo s) (rwake s) (script s) (prog s) (pend s) (out s) (results s) (popped s).
Definition set_ph (s : state) p :=
  mkSt (q_items s) (q_closed s) (q_lock s) (ch s) (rx_alive s) (err s) (shut s) (act s) (ws s) (pc s) p (nd s)
       (nr s) (last s) (reo s) (rwake s) (script s) (prog s) (pend s) (out s) (results s) (popped s).
Definition set_nd (s : state) n pe :=
  mkSt (q_items s) (q_closed s) (q_lock s) (ch s) (rx_alive s) (err s) (shut s) (act s) (ws s) (pc s) (ph s) n
       (nr s) (last s) (reo s) (rwake s) (script s) (prog s) pe (out s) (results s) (popped s).
Definition set_last (s : state) l :=
  mkSt (q_items s) (q_closed s) (q_lock s) (ch s) (rx_alive s) (err s) (shut s) (act s) (ws s) (pc s) (ph s) (nd s)
       (nr s) l (reo s) (rwake s) (script s) (prog s) (pend s) (out s) (results s) (popped s).
Definition set_reo (s : state) n ro rw :=
  mkSt (q_items s) (q_closed s) (q_lock s) (ch s) (rx_alive s) (err s) (shut s) (act s) (ws s) (pc s) (ph s) (nd s)
       n (last s) ro rw (script s) (prog s) (pend s) (out s) (results s) (popped s).
Definition set_script (s : state) sc :=
  mkSt (q_items s) (q_closed s) (q_lock s) (ch s) (rx_alive s) (err s) (shut s) (act s) (ws s) (pc s) (ph s) (nd s)
       (nr s) (last s) (reo s) (rwake s) sc (prog s) (pend s) (out s) (results s) (popped s).
Definition set_prog (s : state) pr pe :=
  mkSt (q_items s) (q_closed s) (q_lock s) (ch s) (rx_alive s) (err s) (shut s) (act s) (ws s) (pc s) (ph s) (nd s)
       (nr s) (last s) (reo s) (rwake s) (script s) pr pe (out s) (results s) (popped s).
Definition set_out (s : state) o rs :=
  mkSt (q_items s) (q_closed s) (q_lock s) (ch s) (rx_alive s) (err s) (shut s) (act s) (ws s) (pc s) (ph s) (nd s)
       (nr s) (last s) (reo s) (rwake s) (script s) (prog s) (pend s) o rs (popped s).
Definition set_popped (s : state) p :=
  mkSt (q_items s) (q_closed s) (q_lock s) (ch s) (rx_alive s) (err s) (shut s) (act s) (ws s) (pc s) (ph s) (nd s)
       (nr s) (last s) (reo s) (rwake s) (script s) (prog s) (pend s) (out s) (results s) p.

(* ---- small helpers ---- *)
Definition u32 (x : Z) : Z := (x mod 4294967296)%Z.

Fixpoint lookup (k : nat) (l : list (nat * R)) : option R :=
  match l with
  | [] => None
  | (k', r) :: t => if Nat.eqb k k' then Some r else lookup k t
  end.
Fixpoint remove_key (k : nat) (l : list (nat * R)) : list (nat * R) :=
  match l with
  | [] => []
  | (k', r) :: t => if Nat.eqb k k' then remove_key k t else (k', r) :: remove_key k t
  end.
(* BTreeMap::insert replaces an existing binding *)
Definition insert (k : nat) (r : R) (l : list (nat * R)) := (k, r) :: remove_key k l.

Definition is_sleep (w : wpc) : bool := match w with WSleep => true | _ => false end.

(* notify_all: every waiter becomes runnable (it still has to re-acquire the mutex) *)
Definition wake_all (l : list wpc) : list wpc := map (fun w => if is_sleep w then WWoken else w) l.
(* wake the first waiter *)
Fixpoint wake_first (l : list wpc) : list wpc :=
  match l with
  | [] => []
  | w :: t => if is_sleep w then WWoken :: t else w :: wake_first t
  end.
(* wake the n-th waiter (0-based); None if there are not that many *)
Fixpoint wake_nth (n : nat) (l : list wpc) : option (list wpc) :=
  match l with
  | [] => None
  | w :: t =>
      if is_sleep w then
        match n with
        | O => Some (WWoken :: t)
        | S k => match wake_nth k t with Some t' => Some (w :: t') | None => None end
        end
      else match wake_nth n t with Some t' => Some (w :: t') | None => None end
  end.
(* notify_one: one waiter, chosen by [pick]; a pick beyond the number of waiters wakes the first;
   no waiter: the notification is lost *)
Definition wake_one (pick : nat) (l : list wpc) : list wpc :=
  match wake_nth pick l with Some l' => l' | None => wake_first l end.

Definition lock_free (s : state) : bool := match q_lock s with None => true | Some _ => false end.

Definition qlen (s : state) : nat := length (q_items s).

(* ---- coordinator: returning from calls ----
   The local code that follows a visible operation is described by an effect record (where control
   goes, what is handed to the caller, phase / last_sequence_id updates) applied by ONE function in
   setter normal form, so that every untouched field of the result is syntactically the old one. *)
Record ceff := mkEff {
  e_pc : cpc;                     (* next program point *)
  e_out : list R;                 (* payloads handed to the caller / written to the sink *)
  e_res : list cres;              (* [v]: a public call returns v *)
  e_fin : bool;                   (* finish(self) returned: nothing more can be called *)
  e_ph : option phase;            (* state := .. *)
  e_last : option (option nat)    (* last_sequence_id := .. *)
}.

Definition apply_eff (s : state) (e : ceff) : state :=
  mkSt (q_items s) (q_closed s) (q_lock s) (ch s) (rx_alive s) (err s) (shut s) (act s) (ws s)
       (e_pc e)
       (match e_ph e with Some p => p | None => ph s end)
       (nd s) (nr s)
       (match e_last e with Some l => l | None => last s end)
       (reo s) (rwake s) (script s)
       (if e_fin e then [] else prog s)
       (pend s) (out s ++ e_out e) (results s ++ e_res e) (popped s).

Definition goto (p : cpc) : ceff := mkEff p [] [] false None None.
(* a public call returns [v] to the caller *)
Definition creturn (v : cres) : ceff := mkEff CIdle [] [v] false None None.
(* finish(self) returns: the object is dropped right after (Drop::drop runs) *)
Definition freturn (v : cres) : ceff := mkEff (CShut false) [] [v] true None None.
Definition with_out (r : R) (e : ceff) : ceff :=
  mkEff (e_pc e) (r :: e_out e) (e_res e) (e_fin e) (e_ph e) (e_last e).

Definition call_return (s : state) (v : cres) : state := apply_eff s (creturn v).
Definition finish_return (s : state) (v : cres) : state := apply_eff s (freturn v).

Definition dk_is_finish (d : dk) : bool := match d with DFinish => true | _ => false end.

(* get_next_*_chunk returns [v] to its caller [g]; a chunk (RSome r) is handed out / written *)
Definition ret_eff (s : state) (g : gk) (v : cres) : ceff :=
  match g with
  | KRead =>
      match v with
      | RSome r => with_out r (creturn (RSome r))
      | _ => creturn v
      end
  | KBack d =>
      match v with
      | RSome r => with_out r (goto (CLenB d))
      | RErr e => if dk_is_finish d then freturn (RErr e) else creturn (RErr e)
      | _ =>
          match ph s with
          | PRun => goto (CLenB d)
          | _ => if dk_is_finish d then freturn (RErr E_OTHER) else creturn (RErr E_OTHER)
          end
      end
  | KDrain =>
      match v with
      | RSome r => with_out r (goto (CTop KDrain))
      | RErr e => creturn (RErr e)
      | _ => creturn ROk
      end
  | KFlush =>
      match v with
      | RSome r => with_out r (if Nat.ltb (nr s) (nd s) then goto (CTop KFlush) else creturn ROk)
      | RErr e => creturn (RErr e)
      | _ => creturn (RErr E_OTHER)
      end
  | KFinish =>
      match v with
      | RSome r => with_out r (goto (CTop KFinish))
      | RErr e => freturn (RErr e)
      | _ => goto (CShut true)      (* terminator written; shutdown + close + Ok(inner) *)
      end
  end.
Definition ret (s : state) (g : gk) (v : cres) : state := apply_eff s (ret_eff s g v).

(* reader: what follows the result [r] of read_and_dispatch_chunk / dispatch_next_member *)
Definition src_eff (c : cfg) (s : state) (r : src_res) : ceff :=
  match r with
  | SCont => goto (CTop KRead)
  | SEnd =>
      if fx_empty c && Nat.eqb (nd s) 0 then goto (CSetErr E_UNEXPECTED_EOF)
      else mkEff (CTop KRead) [] [] false (Some PDrain) (Some (Some (nd s - 1)))
  | SErr e => goto (CSetErr e)
  end.
Definition after_src (c : cfg) (s : state) (r : src_res) : state := apply_eff s (src_eff c s r).

(* writer: finish() after its send_work_unit()? *)
Definition finish_eff (s : state) : ceff :=
  if Nat.eqb (nd s) 0 then goto (CShut true)
  else mkEff (CTop KFinish) [] [] false (Some PDrain) (Some (Some (nd s - 1))).
Definition finish_cont (s : state) : state := apply_eff s (finish_eff s).

(* flush() after its send_work_unit()?: while next_sequence_to_write < sequence_to_wait *)
Definition flush_eff (s : state) : ceff :=
  if Nat.ltb (nr s) (nd s) then goto (CTop KFlush) else creturn ROk.
Definition flush_loop (s : state) : state := apply_eff s (flush_eff s).

(* end of the dispatch sequence: next_sequence_to_dispatch += 1, back to the caller *)
Definition disp_eff (c : cfg) (s1 : state) (d : dk) : ceff :=
  match d with
  | DRead r => src_eff c s1 r
  | DWrite => goto (CTop KDrain)
  | DFlush => flush_eff s1
  | DFinish => finish_eff s1
  end.
Definition after_dispatch (c : cfg) (s : state) (d : dk) : state :=
  let s1 := set_nd s (S (nd s)) false in apply_eff s1 (disp_eff c s1 d).

Definition blocking_of (g : gk) : bool := match g with KDrain => false | _ => true end.

Definition first_err (old : option Z) (e : Z) : option Z :=
  match old with None => Some e | Some x => Some x end.

(* ---- the coordinator's step ---- *)
Definition co_step (c : cfg) (s : state) (pick : nat) : option state :=
  match pc s with
  | CDone => None
  | CIdle =>
      match prog s with
      | [] => None
      | o :: rest =>
          let s0 := set_prog s rest (pend s) in
          match o, k_kind c with
          | OpDrop, _ => Some (set_pc (set_prog s [] (pend s)) (CShut false))
          | OpRead, Reader => Some (set_pc s0 (CTop KRead))
          | OpWrite full, Writer =>
              match ph s with
              | PRun =>
                  if full then Some (set_pc s0 (CLenB DWrite))
                  else Some (set_pc (set_prog s rest true) (CTop KDrain))
              | _ => Some (call_return s0 (RErr E_INVALID_INPUT))
              end
          | OpFlush, Writer =>
              if pend s then Some (set_pc s0 (CLenB DFlush)) else Some (flush_loop s0)
          | OpFinish, Writer =>
              match fx_finish c, ph s with
              | true, PErr => Some (finish_return s0 (RErr E_OTHER))
              | _, _ => if pend s then Some (set_pc s0 (CLenB DFinish)) else Some (finish_cont s0)
              end
          | _, _ => Some s0       (* an operation the object does not have: skipped *)
          end
      end
  | CTop g =>
      match lookup (nr s) (reo s) with
      | Some r => Some (ret (set_reo s (S (nr s)) (remove_key (nr s) (reo s)) (rwake s)) g (RSome r))
      | None => Some (set_pc s (CTake g))
      end
  | CTake g =>
      match err s with
      | Some e => Some (ret (set_ph (set_err s None (shut s)) PErr) g (RErr e))
      | None =>
          match ph s with
          | PRun =>
              match k_kind c with
              | Reader => Some (set_pc s (CRecv g false))
              | Writer => Some (set_pc s (CRecv g (blocking_of g)))
              end
          | PDrain =>
              let all_back := match last s with Some l => Nat.ltb l (nr s) | None => false end in
              let map_empty := match k_kind c with
                               | Reader => true
                               | Writer => match reo s with [] => negb (rwake s) | _ => false end
                               end in
              if all_back && map_empty then Some (set_pc (set_ph s PFin) (CTop g))
              else Some (set_pc s (CRecv g true))
          | PFin => Some (ret s g RNone)
          | PErr => Some (set_pc s (CTakeE g))
          end
      end
  | CTakeE g =>
      match err s with
      | Some e => Some (ret (set_err s None (shut s)) g (RErr e))
      | None => Some (ret s g (RErr E_OTHER))
      end
  | CRecv g blocking =>
      match ch s with
      | m :: rest =>
          let s0 := set_ch s rest (rx_alive s) in
          match m with
          | MRes q r =>
              if Nat.eqb q (nr s) then Some (ret (set_reo s0 (S (nr s)) (reo s) (rwake s)) g (RSome r))
              else Some (set_pc (set_reo s0 (nr s) (insert q r (reo s)) (rwake s)) (CTop g))
          | MWake => Some (set_pc (set_reo s0 (nr s) (reo s) true) (CTop g))
          end
      | [] =>
          if blocking then None
          else match k_kind c with
               | Reader => Some (set_pc s CLenR)
               | Writer => Some (ret s g RNone)
               end
      end
  | CLenR =>
      if lock_free s then
        if Nat.ltb (qlen s) 4 then
          match script s with
          | [] => Some (after_src c s SEnd)
          | (d, r) :: rest =>
              let s0 := set_script s rest in
              if d then Some (set_pc s0 (CPushChk (DRead r))) else Some (after_src c s0 r)
          end
        else Some (set_pc s (CRecv KRead true))
      else None
  | CLenB d =>
      if lock_free s then
        if Nat.leb 4 (qlen s) then Some (set_pc s (CTop (KBack d))) else Some (set_pc s (CPushChk d))
      else None
  | CPushChk d =>
      if q_closed s then
        (* push() returns false: unreachable while the object is alive (lemma push_never_fails);
           modelled coarsely as one step *)
        let s1 := set_ph (set_err s (first_err (err s) E_OTHER) true) PErr in
        match d with
        | DRead _ => Some (set_pc s1 (CLoadAct d))
        | DFinish => Some (finish_return (set_err s1 None true) (RErr E_OTHER))
        | _ => Some (call_return (set_err s1 None true) (RErr E_OTHER))
        end
      else Some (set_pc s (CPush d))
  | CPush d =>
      if lock_free s then Some (set_pc (set_items s (q_items s ++ [nd s])) (CNotify d)) else None
  | CNotify d => Some (set_pc (set_ws s (wake_one pick (ws s))) (CLoadAct d))
  | CLoadAct d => Some (set_pc s (CLenS d (act s)))
  | CLenS d a =>
      if lock_free s then
        let spawned := length (ws s) in
        if Nat.ltb 0 (qlen s) && Z.eqb a (Z.of_nat spawned) && Nat.ltb spawned (maxw c)
        then Some (set_pc s (CSpawn d))
        else Some (after_dispatch c s d)
      else None
  | CSpawn d => Some (after_dispatch c (set_ws s (ws s ++ [WTop])) d)
  | CSetErr e =>
      Some (set_pc (set_ph (set_err s (first_err (err s) e) true) PErr) (CTop KRead))
  | CShut fin =>
      Some (set_pc (set_err s (err s) true) (if fx_close c then CCloseLock fin else CCloseStore fin))
  | CCloseLock fin =>
      if lock_free s then Some (set_pc (set_lock s (Some (Co 0))) (CCloseStore fin)) else None
  | CCloseStore fin => Some (set_pc (set_closed s true) (CCloseNotify fin))
  | CCloseNotify fin =>
      let s1 := set_ws s (wake_all (ws s)) in
      if fx_close c then Some (set_pc s1 (CCloseUnlock fin))
      else if fin then Some (finish_return s1 RNone) else Some (set_pc s1 CDropRx)
  | CCloseUnlock fin =>
      let s1 := set_lock s None in
      if fin then Some (finish_return s1 RNone) else Some (set_pc s1 CDropRx)
  | CDropRx => Some (set_pc (set_ch s [] false) CDone)
  end.

(* ---- a worker's step ---- *)
Definition set_w (s : state) (i : nat) (w : wpc) : state := set_ws s (upd_nat (ws s) i w).

Definition wk_step (c : cfg) (s : state) (i : nat) : option state :=
  match nth_opt (ws s) i with
  | None => None
  | Some w =>
      match w with
      | WTop => Some (set_w s i (if shut s then WExit else WLock))
      | WLock | WWoken =>
          if lock_free s then Some (set_w (set_lock s (Some (Wk i))) i WPop) else None
      | WPop =>
          match q_items s with
          | q :: rest =>
              Some (set_w (set_popped (set_q s rest (q_closed s) None) (popped s ++ [q])) i (WInc q))
          | [] => Some (set_w s i WChk)
          end
      | WChk =>
          if q_closed s then Some (set_w (set_lock s None) i WExit) else Some (set_w s i WWait)
      | WWait => Some (set_w (set_lock s None) i WSleep)
      | WSleep => None
      | WInc q =>
          let s1 := set_act s (u32 (act s + 1)) in
          match f q with
          | inl r => Some (set_w s1 i (WSend q r))
          | inr e => Some (set_w s1 i (WDecE e))
          end
      | WSend q r =>
          if rx_alive s then Some (set_w (set_ch s (ch s ++ [MRes q r]) true) i WDec)
          else Some (set_w s i WDecX)
      | WDec => Some (set_w (set_act s (u32 (act s - 1))) i WTop)
      | WDecX => Some (set_w (set_act s (u32 (act s - 1))) i WExit)
      | WDecE e => Some (set_w (set_act s (u32 (act s - 1))) i (WSetErr e))
      | WSetErr e =>
          Some (set_w (set_err s (first_err (err s) e) true) i (if fx_wake c then WWake else WExit))
      | WWake =>
          if rx_alive s then Some (set_w (set_ch s (ch s ++ [MWake]) true) i WExit)
          else Some (set_w s i WExit)
      | WExit => None
      end
  end.

Definition step (c : cfg) (s : state) (t : tid) : option state :=
  match t with
  | Co pick => co_step c s pick
  | Wk i => wk_step c s i
  end.

Definition init (c : cfg) (src : list src_ev) (p : list op) : state :=
  mkSt [] false None [] true None false 0%Z
       (if k_spawn_new c then [WTop] else [])
       CIdle PRun 0 0 None [] false src p false [] [] [].

(* run a schedule; entries whose thread is not enabled are skipped (the scheduler only offers
   enabled threads).  [run_strict] fails on them instead. *)
Fixpoint run (c : cfg) (s : state) (sched : list tid) : state :=
  match sched with
  | [] => s
  | t :: rest => match step c s t with Some s' => run c s' rest | None => run c s rest end
  end.

Fixpoint run_strict (c : cfg) (s : state) (sched : list tid) : option state :=
  match sched with
  | [] => Some s
  | t :: rest => match step c s t with Some s' => run_strict c s' rest | None => None end
  end.

(* reachability = the states a strict run can visit *)
Inductive reachable (c : cfg) (src : list src_ev) (p : list op) : state -> Prop :=
| reach_init : reachable c src p (init c src p)
| reach_step : forall s t s', reachable c src p s -> step c s t = Some s' -> reachable c src p s'.

(* ---- observations used by the theorems and the driver ---- *)
Definition enabled (c : cfg) (s : state) (t : tid) : bool :=
  match step c s t with Some _ => true | None => false end.

Fixpoint any_worker_enabled (c : cfg) (s : state) (n : nat) : bool :=
  match n with
  | O => false
  | S k => enabled c s (Wk k) || any_worker_enabled c s k
  end.

(* no thread can move *)
Definition stuck (c : cfg) (s : state) : bool :=
  negb (enabled c s (Co 0)) && negb (any_worker_enabled c s (length (ws s))).

(* a public call (or Drop) of the caller is in progress *)
Definition in_call (s : state) : bool :=
  match pc s with CIdle | CDone => false | _ => true end.

Definition is_exit (w : wpc) : bool := match w with WExit => true | _ => false end.
Definition all_exited (s : state) : bool := forallb is_exit (ws s).

Definition dropped (s : state) : bool := match pc s with CDone => true | _ => false end.

(* deterministic schedulers for the driver: always the lowest-numbered enabled thread, the
   coordinator first ([co_first]) or last *)
Fixpoint first_enabled_worker (c : cfg) (s : state) (i n : nat) : option tid :=
  match n with
  | O => None
  | S k => if enabled c s (Wk i) then Some (Wk i) else first_enabled_worker c s (S i) k
  end.

Definition pick_thread (c : cfg) (s : state) (co_first : bool) : option tid :=
  if co_first then
    if enabled c s (Co 0) then Some (Co 0) else first_enabled_worker c s 0 (length (ws s))
  else
    match first_enabled_worker c s 0 (length (ws s)) with
    | Some t => Some t
    | None => if enabled c s (Co 0) then Some (Co 0) else None
    end.

Fixpoint run_auto (c : cfg) (s : state) (co_first : bool) (fuel : nat) : state * bool :=
  match fuel with
  | O => (s, false)
  | S k =>
      match pick_thread c s co_first with
      | None => (s, true)                       (* maximal: nothing is enabled *)
      | Some t => match step c s t with
                  | Some s' => run_auto c s' co_first k
                  | None => (s, true)
                  end
      end
  end.

End Model.

Arguments MRes {R}. Arguments MWake {R}.
Arguments RSome {R}. Arguments RNone {R}. Arguments RErr {R}. Arguments ROk {R}.
Arguments WTop {R}. Arguments WLock {R}. Arguments WPop {R}. Arguments WChk {R}. Arguments WWait {R}.
Arguments WSleep {R}. Arguments WWoken {R}. Arguments WInc {R}. Arguments WSend {R}. Arguments WDec {R}.
Arguments WDecX {R}. Arguments WDecE {R}. Arguments WSetErr {R}. Arguments WWake {R}. Arguments WExit {R}.

Arguments q_items {R}.
Arguments q_closed {R}.
Arguments q_lock {R}.
Arguments ch {R}.
Arguments rx_alive {R}.
Arguments err {R}.
Arguments shut {R}.
Arguments act {R}.
Arguments ws {R}.
Arguments pc {R}.
Arguments ph {R}.
Arguments nd {R}.
Arguments nr {R}.
Arguments last {R}.
Arguments reo {R}.
Arguments rwake {R}.
Arguments script {R}.
Arguments prog {R}.
Arguments pend {R}.
Arguments out {R}.
Arguments results {R}.
Arguments popped {R}.
Arguments set_q {R}.
Arguments set_items {R}.
Arguments set_closed {R}.
Arguments set_lock {R}.
Arguments set_ch {R}.
Arguments set_err {R}.
Arguments set_act {R}.
Arguments set_ws {R}.
Arguments set_pc {R}.
Arguments set_ph {R}.
Arguments set_nd {R}.
Arguments set_last {R}.
Arguments set_reo {R}.
Arguments set_script {R}.
Arguments set_prog {R}.
Arguments set_out {R}.
Arguments set_popped {R}.
Arguments lock_free {R}.
Arguments qlen {R}.
Arguments call_return {R}.
Arguments finish_return {R}.
Arguments ret {R}.
Arguments finish_cont {R}.
Arguments flush_loop {R}.
Arguments in_call {R}.
Arguments all_exited {R}.
Arguments dropped {R}.
Arguments set_w {R}.
Arguments apply_eff {R}.
Arguments goto {R}.
Arguments creturn {R}.
Arguments freturn {R}.
Arguments with_out {R}.
Arguments ret_eff {R}.
Arguments src_eff {R}.
Arguments finish_eff {R}.
Arguments flush_eff {R}.
Arguments disp_eff {R}.
Arguments e_pc {R}.
Arguments e_out {R}.
Arguments e_res {R}.
Arguments e_fin {R}.
Arguments e_ph {R}.
Arguments e_last {R}.
Arguments mkEff {R}.
Arguments lookup {R}.
Arguments remove_key {R}.
Arguments insert {R}.
Arguments is_sleep {R}.
Arguments wake_all {R}.
Arguments wake_first {R}.
Arguments wake_nth {R}.
Arguments wake_one {R}.
Arguments is_exit {R}.
Arguments mkSt {R}.
Arguments after_src {R}.
Arguments after_dispatch {R}.
Arguments co_step {R}.
Arguments init {R}.
Arguments wk_step {R} f.
Arguments step {R} f.
Arguments run {R} f.
Arguments run_strict {R} f.
Arguments reachable {R} f.
Arguments enabled {R} f.
Arguments any_worker_enabled {R} f.
Arguments stuck {R} f.
Arguments first_enabled_worker {R} f.
Arguments pick_thread {R} f.
Arguments run_auto {R} f.

(* the pinned tree / the tree with repo-patches 10..13 applied *)
Definition orig_cfg (k : kind) (workers : nat) (spawn_new : bool) : cfg :=
  mkCfg k workers spawn_new false false false false.
Definition fixed_cfg (k : kind) (workers : nat) (spawn_new : bool) : cfg :=
  mkCfg k workers spawn_new true true true true.
