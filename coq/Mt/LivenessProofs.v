(* Mt/LivenessProofs.v — C09 / C10 on the REPAIRED protocol model (all fx_* flags set):
     mt_no_deadlock   no reachable state with an unfinished call (or a pending operation) is stuck
     drop_nonblocking Drop is a fixed sequence of at most 6 coordinator steps; the only step that
                      can wait is the acquisition of the queue mutex, whose holder can always move
     drop_releases    once Drop has finished, a state in which nothing can move has all workers exited
     spawn_bound      at most clamp(num_workers, 1, 256) workers are ever spawned (any configuration)
     mt_error_reported / mt_complete   success is only reported with all units returned, all of
                      them successful, and a source that ended cleanly
   Termination (mt_measure) is in MeasureProofs.v; refutations for the pinned code in Refuted.v. *)
From LzVerif Require Import Base.Bytes Mt.Protocol Mt.ProtocolLemmas Mt.ProtocolInv Mt.SafetyProofs Mt.CountProofs
  Mt.LiveInv Mt.LiveInv2 Mt.LiveInv3.
Local Open Scope nat_scope.

Section P.
Context {R : Type}.
Variable f : nat -> R + Z.
Implicit Types (s : state R) (c : cfg).

(* ---- two more facts about a coordinator that is about to block ---- *)
Definition after_top (p : cpc) : bool := match p with CTake _ | CRecv _ _ | CLenR => true | _ => false end.

Record I5 s : Prop := {
  i5_notin : after_top (pc s) = true -> lookup (nr s) (reo s) = None;
  i5_drecv : forall g, pc s = CRecv g true -> ph s = PDrain -> nr s < nd s
}.

Lemma lookup_none_count (l : list (nat * R)) k : lookup k l = None -> sumf (reo1 k) l = 0.
Proof.
  induction l as [|[k' r] t IH]; simpl; [reflexivity|].
  unfold reo1 at 1, eq1; simpl. destruct (Nat.eqb_spec k k'); [discriminate|].
  intros H. rewrite (IH H). destruct (Nat.eqb_spec k' k); [congruence|reflexivity].
Qed.

Lemma reo_lt c src p s q r : reachable f c src p s -> post_push (pc s) = false -> In (q, r) (reo s) -> q < nd s.
Proof.
  intros Hr Hp Hi. pose proof (inv_I2 f c src p s Hr) as H2.
  pose proof (i2_lt f s H2 q) as L. unfold nde in L. rewrite Hp in L. apply L.
  apply in_app_iff. right. eapply i2_preo; eauto.
Qed.

Theorem inv_I5 c src p s : Fx c -> reachable f c src p s -> I5 s.
Proof.
  intros Hfx Hr. induction Hr as [|s t s' Hr IH Hst].
  - constructor; unfold init; simpl; intros; discriminate.
  - pose proof (inv_I3 f c src p s Hfx Hr) as H3. pose proof (inv_ctl f c src p s Hfx Hr) as OK.
    destruct IH as [NI DR].
    pose proof (fun q r => reo_ge f c src p s q r Hr) as RG. pose proof (fun q r => reo_lt c src p s q r Hr) as RL.
    pose proof (i3_drain c s H3) as D3. pose proof (i3_rwake c s H3) as RW. unfold errd in RW.
    constructor.
    + step_split t Hst; rw_pc; intros X; try discriminate; pc_cases; try discriminate; auto.
    + intros g0. step_split t Hst; rw_pc; intros X Y; try discriminate; pc_cases; try discriminate; try congruence; eauto.
      (* CTake in Draining / Finishing that goes on to recv() *)
      all: try solve [ exfalso; assert (ph s = PRun) by (eapply ctl_run; [exact OK|left; reflexivity]); congruence ].
      all: inversion X; subst; clear X.
      all: destruct (D3 (or_introl eq_refl)) as [L1 L2]; rewrite L1 in *.
      all: destruct (Nat.ltb_spec (nd s - 1) (nr s)); [|lia].
      all: cbn [andb] in *.
      all: destruct (k_kind c); try discriminate.
      all: destruct (reo s) as [|[q r] tl] eqn:Er.
      all: try solve [ destruct (rwake s); [destruct (RW eq_refl); congruence|discriminate] ].
      all: try solve [ exfalso; assert (nr s <= q) by (eapply RG; left; reflexivity);
                       assert (q < nd s) by (eapply RL; [reflexivity|left; reflexivity]); lia ].
Qed.

(* ---- what it means for a thread not to be enabled ---- *)
Definition needs_lock (p : cpc) : bool :=
  match p with CLenR | CLenB _ | CPush _ | CLenS _ _ | CCloseLock _ => true | _ => false end.

Lemma co_blocked c s pick : co_step c s pick = None ->
  pc s = CDone \/ (pc s = CIdle /\ prog s = []) \/ (exists g, pc s = CRecv g true /\ ch s = []) \/
  (needs_lock (pc s) = true /\ lock_free s = false).
Proof.
  unfold co_step. destruct (pc s) eqn:Hpc; intros H; auto.
  all: repeat match type of H with
              | context [match ?x with _ => _ end] => destruct x eqn:?
              | context [if ?b then _ else _] => destruct b eqn:?
              end; try discriminate; eauto 8.
Qed.

Lemma wk_blocked c s i : wk_step f c s i = None ->
  nth_opt (ws s) i = None \/ nth_opt (ws s) i = Some WSleep \/ nth_opt (ws s) i = Some WExit \/
  ((nth_opt (ws s) i = Some WLock \/ nth_opt (ws s) i = Some WWoken) /\ lock_free s = false).
Proof.
  unfold wk_step. destruct (nth_opt (ws s) i) as [w|] eqn:E; [|auto]. intros H.
  destruct w; try discriminate; auto;
    repeat match type of H with
           | context [match ?x with _ => _ end] => destruct x eqn:?
           | context [if ?b then _ else _] => destruct b eqn:?
           end; try discriminate; auto 8.
Qed.

Lemma holder_enabled c s i w : nth_opt (ws s) i = Some w -> holds_lock w = true -> wk_step f c s i <> None.
Proof.
  intros H Hh. unfold wk_step. rewrite H. destruct w; try discriminate;
    repeat match goal with
           | |- context [match ?x with _ => _ end] => destruct x
           | |- context [if ?b then _ else _] => destruct b
           end; discriminate.
Qed.

Lemma any_worker_enabled_false c s n :
  any_worker_enabled f c s n = false -> forall i, i < n -> wk_step f c s i = None.
Proof.
  induction n as [|k IH]; intros H i Hi; [lia|]. simpl in H. apply orb_false_iff in H. destruct H as [H1 H2].
  destruct (Nat.eq_dec i k) as [->|Hne].
  - unfold enabled in H1. simpl in H1. destruct (wk_step f c s k); [discriminate|reflexivity].
  - apply IH; [assumption|lia].
Qed.

Lemma any_worker_enabled_true c s n :
  any_worker_enabled f c s n = true -> exists i, wk_step f c s i <> None.
Proof.
  induction n as [|k IH]; intros H; [discriminate|]. simpl in H. apply orb_true_iff in H. destruct H as [H|H].
  - exists k. unfold enabled in H. simpl in H. destruct (wk_step f c s k); [discriminate|discriminate].
  - auto.
Qed.

(* if no worker can move, every worker sleeps on the condvar or has exited *)
Lemma all_workers_blocked c src p s :
  reachable f c src p s -> co_holds (pc s) = false ->
  (forall i, i < length (ws s) -> wk_step f c s i = None) ->
  forall w, In w (ws s) -> w = WSleep \/ w = WExit.
Proof.
  intros Hr Hc Hb w Hw. pose proof (inv_I1 f c src p s Hr) as H1.
  destruct (In_nth_opt _ _ Hw) as [i Hi]. pose proof (nth_opt_lt _ _ _ Hi) as Li.
  destruct (wk_blocked c s i (Hb i Li)) as [E|[E|[E|[E Hl]]]];
    [congruence|left; congruence|right; congruence|].
  exfalso. unfold lock_free in Hl. destruct (q_lock s) as [[k|j]|] eqn:Eq; try discriminate.
  - destruct (i1_lock_c c s H1 _ Eq) as (_ & _ & X). congruence.
  - destruct (i1_lock_o c s H1 _ Eq) as (w' & Hw' & Hh).
    apply (holder_enabled c s j w' Hw' Hh). apply Hb. eapply nth_opt_lt; eauto.
Qed.

(* ---- C09: no deadlock ---- *)
(* the caller has something in progress or still to do *)
Definition busy s : bool :=
  match pc s with
  | CDone => false
  | CIdle => match prog s with [] => false | _ => true end
  | _ => true
  end.

Theorem mt_no_deadlock c src p s :
  Fx c -> reachable f c src p s -> busy s = true -> stuck f c s = false.
Proof.
  intros Hfx Hr Hb.
  destruct (stuck f c s) eqn:St; [|reflexivity]. exfalso.
  unfold stuck in St. apply andb_true_iff in St. destruct St as [S1 S2].
  apply negb_true_iff in S1. apply negb_true_iff in S2.
  unfold enabled in S1. simpl in S1. destruct (co_step c s 0) eqn:Ec; [discriminate|]. clear S1.
  pose proof (any_worker_enabled_false c s _ S2) as Wb. clear S2.
  pose proof (inv_I1 f c src p s Hr) as H1. pose proof (inv_I3 f c src p s Hfx Hr) as H3.
  pose proof (inv_ctl f c src p s Hfx Hr) as OK. pose proof (inv_I5 c src p s Hfx Hr) as H5.
  destruct (co_blocked c s 0 Ec) as [E|[[E1 E2]|[[g [E1 E2]]|[E1 E2]]]].
  - unfold busy in Hb. rewrite E in Hb. discriminate.
  - unfold busy in Hb. rewrite E1, E2 in Hb. discriminate.
  - (* blocking recv() on an empty channel *)
    assert (Hch : co_holds (pc s) = false) by (rewrite E1; reflexivity).
    pose proof (all_workers_blocked c src p s Hr Hch Wb) as AW.
    assert (He : err s = None).
    { destruct (err s) eqn:Ee; [|reflexivity]. exfalso.
      destruct (i3_wake c s H3) as [X|X]; [congruence|rewrite E1; reflexivity| |].
      - rewrite E2 in X. destruct X.
      - destruct (AW _ X); discriminate. }
    rewrite E1 in OK. destruct (ctl_recv _ _ _ _ OK) as [Hph _].
    assert (Hsh : shut s = false).
    { destruct (shut s) eqn:Es; [|reflexivity]. exfalso.
      destruct (i3_shut c s H3 Es) as [X|[X|X]]; [rewrite E1 in X; discriminate|congruence|].
      destruct Hph; congruence. }
    assert (Hrx : rx_alive s = true).
    { destruct (rx_alive s) eqn:Er; [reflexivity|]. pose proof (i1_rx c s H1 Er). congruence. }
    assert (Hcl : q_closed s = false).
    { destruct (q_closed s) eqn:Eq; [|reflexivity]. pose proof (i1_closed c s H1 Eq) as X. rewrite E1 in X. discriminate. }
    assert (Hlt : nr s < nd s).
    { destruct Hph as [Hph|Hph].
      - rewrite Hph in OK. destruct g.
        + apply (i3_rdrecv c s H3); assumption.
        + apply (i3_back c s H3). left. exists d. rewrite E1. reflexivity.
        + pose proof (ctl_drain_nb _ _ OK). discriminate.
        + apply (i3_back c s H3). right. rewrite E1. reflexivity.
        + exfalso. eapply ctl_finish_norun; [|exact OK]. reflexivity.
      - apply (i5_drecv s H5 g); assumption. }
    (* the awaited unit is in exactly one place, and that place must be the queue *)
    pose proof (inv_I4 f c src p s Hr) as H4.
    assert (Hll : lossless s).
    { unfold lossless. repeat split; auto.
      clear - AW. induction (ws s) as [|w t IH]; [reflexivity|]. simpl.
      rewrite IH by (intros; apply AW; right; assumption).
      destruct (AW w (or_introl eq_refl)); subst; reflexivity. }
    pose proof (i4_one _ H4 Hll (nr s)) as One.
    assert (Hnde : nr s < nde s) by (unfold nde; destruct (post_push (pc s)); lia).
    specialize (One Hnde). unfold cnt in One.
    rewrite E2 in One. cbn [sumf] in One.
    rewrite (lookup_none_count _ _ (i5_notin s H5 ltac:(rewrite E1; reflexivity))) in One.
    assert (Hh : sumf (held1 (nr s)) (ws s) = 0).
    { clear - AW. induction (ws s) as [|w t IH]; [reflexivity|]. simpl.
      rewrite IH by (intros; apply AW; right; assumption).
      destruct (AW w (or_introl eq_refl)); subst; reflexivity. }
    rewrite Hh in One. rewrite Nat.ltb_irrefl in One.
    assert (Hq : q_items s <> []).
    { intros Eq. rewrite Eq in One. simpl in One. lia. }
    destruct (i3_live c s H3 Hq Hsh Hcl Hrx) as [(w & Hw & Hl)|[[d X]|[_ X]]].
    + destruct (AW _ Hw); subst; discriminate.
    + congruence.
    + rewrite E1 in X. discriminate.
  - (* waiting for the queue mutex: its holder can move *)
    unfold lock_free in E2. destruct (q_lock s) as [[k|j]|] eqn:Eq; try discriminate.
    + destruct (i1_lock_c c s H1 _ Eq) as (_ & _ & X). destruct (pc s); discriminate.
    + destruct (i1_lock_o c s H1 _ Eq) as (w' & Hw' & Hh).
      apply (holder_enabled c s j w' Hw' Hh). apply Wb. eapply nth_opt_lt; eauto.
Qed.

(* ---- C10: thread bound ---- *)
Theorem spawn_bound c src p s : reachable f c src p s -> length (ws s) <= Nat.max 1 (Nat.min (k_workers c) 256).
Proof. intros Hr. exact (i1_bound c s (inv_I1 f c src p s Hr)). Qed.

(* ---- C10: Drop never blocks ---- *)
Definition drop_rank (p : cpc) : nat :=
  match p with
  | CShut false => 6 | CCloseLock false => 5 | CCloseStore false => 4 | CCloseNotify false => 3
  | CCloseUnlock false => 2 | CDropRx => 1 | _ => 0
  end.
Definition drop_pc (p : cpc) : bool :=
  match p with
  | CShut false | CCloseLock false | CCloseStore false | CCloseNotify false | CCloseUnlock false | CDropRx => true
  | _ => false
  end.
Definition hold_rank (w : wpc R) : nat := match w with WPop => 3 | WChk => 2 | WWait => 1 | _ => 0 end.

(* Every step of Drop (for every configuration, pinned or repaired) is enabled and leads to the next
   program point of the fixed sequence  shutdown.store, [lock], closed.store, notify_all, [unlock],
   drop(rx)  — except the acquisition of the queue mutex in the repaired close(), which waits for a
   worker that is inside the critical section of steal(); that worker is enabled. *)
Theorem drop_nonblocking c src p s :
  reachable f c src p s -> drop_pc (pc s) = true ->
  (exists s', co_step c s 0 = Some s' /\ drop_rank (pc s') < drop_rank (pc s) /\
              (drop_pc (pc s') = true \/ pc s' = CDone)) \/
  (pc s = CCloseLock false /\
   exists i w, q_lock s = Some (Wk i) /\ nth_opt (ws s) i = Some w /\ holds_lock w = true /\
               wk_step f c s i <> None).
Proof.
  intros Hr Hd. pose proof (inv_I1 f c src p s Hr) as H1.
  destruct (pc s) eqn:Hpc; try discriminate; try (destruct fin; try discriminate).
  all: unfold co_step; rewrite Hpc.
  all: try solve [ left; eexists; split; [reflexivity|]; msimpl; destruct (fx_close c); cbn; auto ].
  all: try solve [ left; destruct (fx_close c); eexists; (split; [reflexivity|]); msimpl; cbn; auto ].
  - (* CCloseLock *)
    destruct (lock_free s) eqn:El.
    + left; eexists; split; [reflexivity|]; msimpl; cbn; auto.
    + right. split; [reflexivity|]. unfold lock_free in El.
      destruct (q_lock s) as [[k|j]|] eqn:Eq; try discriminate.
      * destruct (i1_lock_c c s H1 _ Eq) as (_ & _ & X). rewrite Hpc in X. discriminate.
      * destruct (i1_lock_o c s H1 _ Eq) as (w & Hw & Hh). exists j, w. repeat split; auto.
        eapply holder_enabled; eauto.
Qed.

(* the worker that holds the mutex releases it within three of its own steps *)
Theorem holder_releases c src p s i w s' :
  reachable f c src p s -> nth_opt (ws s) i = Some w -> holds_lock w = true ->
  wk_step f c s i = Some s' ->
  q_lock s' = None \/ exists w', nth_opt (ws s') i = Some w' /\ holds_lock w' = true /\ hold_rank w' < hold_rank w.
Proof.
  intros Hr Hw Hh Hst. unfold wk_step in Hst. rewrite Hw in Hst.
  destruct w; try discriminate Hh;
    repeat match type of Hst with
           | context [match ?x with _ => _ end] => destruct x eqn:?
           | context [if ?b then _ else _] => destruct b eqn:?
           end; try discriminate; apply Some_inj in Hst; subst; msimpl; auto.
  all: right; eexists; split; [eapply nth_opt_upd_eq; eauto|split; [reflexivity|cbn; lia]].
Qed.

(* a worker's step never moves the coordinator *)
Lemma wk_step_pc c s i s' : wk_step f c s i = Some s' -> pc s' = pc s.
Proof. intros Hst. wk_cases Hst; reflexivity. Qed.

(* ---- C10: after Drop every worker terminates ---- *)
Theorem drop_releases c src p s :
  Fx c -> reachable f c src p s -> pc s = CDone -> stuck f c s = true -> all_exited s = true.
Proof.
  intros Hfx Hr Hd St.
  unfold stuck in St. apply andb_true_iff in St. destruct St as [_ S2]. apply negb_true_iff in S2.
  pose proof (any_worker_enabled_false c s _ S2) as Wb.
  pose proof (inv_I1 f c src p s Hr) as H1. pose proof (inv_I3 f c src p s Hfx Hr) as H3.
  assert (Hch : co_holds (pc s) = false) by (rewrite Hd; reflexivity).
  pose proof (all_workers_blocked c src p s Hr Hch Wb) as AW.
  unfold all_exited. apply forallb_forall. intros w Hw.
  destruct (AW w Hw) as [->| ->]; [|reflexivity].
  exfalso. assert (Hc : q_closed s = true) by (apply (i1_stored c s H1); rewrite Hd; reflexivity).
  destruct (i3_nosleep c s H3 Hc) as [[fin X]|X]; [congruence|].
  specialize (X _ Hw). discriminate.
Qed.

(* ---- C09: success is only reported for complete data ---- *)
Definition fin_chain (p : cpc) : bool :=
  match p with CShut true | CCloseLock true | CCloseStore true | CCloseNotify true | CCloseUnlock true => true | _ => false end.

Lemma inv_fin_chain c src p s : Fx c -> reachable f c src p s -> fin_chain (pc s) = true -> nd s <= nr s.
Proof.
  intros Hfx Hr. induction Hr as [|s t s' Hr IH Hst]; [discriminate|].
  pose proof (inv_I3 f c src p s Hfx Hr) as H3. pose proof (i3_pfin c s H3) as PF.
  pose proof (inv_ctl f c src p s Hfx Hr) as OK.
  revert IH. step_split t Hst; rw_pc; intros IH X; try discriminate; auto.
  all: unfold ret_eff, disp_eff, src_eff, finish_eff, flush_eff, with_out, goto, creturn, freturn, dk_is_finish in *;
       cbn [e_pc] in *.
  all: repeat match goal with
              | g : gk |- _ => destruct g
              | d : dk |- _ => destruct d
              | r : src_res |- _ => destruct r
              | H : context [if ?b then _ else _] |- _ => destruct b eqn:?
              | H : context [match ph ?s with _ => _ end] |- _ => destruct (ph s) eqn:?
              end; cbn [e_pc fin_chain] in *; try discriminate; auto.
  all: split_andb; try lia.
  all: try solve [ msimpl_in Heqb1; lia ].
  all: try solve [ exfalso; destruct (ph s); cbn in OK; discriminate ].
  all: try solve [ msimpl_in Heqb0; lia ].
  all: try solve [ destruct fin; try discriminate; auto ].
  all: try solve [ destruct fin; destruct (fx_close c); try discriminate; auto ].
Qed.

Lemma map_inl_all (o : list R) a n :
  map inl o = map f (seq a n) -> forall q, a <= q < a + n -> exists r, f q = inl r.
Proof.
  revert o a. induction n as [|k IH]; intros o a H q Hq; [lia|].
  destruct o as [|r o]; [discriminate|]. simpl in H. inversion H.
  destruct (Nat.eq_dec q a) as [->|Hne]; [eauto|]. eapply IH; eauto. lia.
Qed.

(* Whenever a call returns the success-end value (reader: Ok(None) = clean end of data; writer:
   finish() = Ok(inner)), every dispatched unit has been handed out, in order, and all of them were
   successes of the unit function: success is never reported with part of the data missing, and
   never when a unit failed. *)
Theorem mt_complete c src p s t s' :
  Fx c -> reachable f c src p s -> step f c s t = Some s' -> results s' = results s ++ [RNone] ->
  nr s' = nd s' /\ map inl (out s') = map f (seq 0 (nd s')) /\
  forall q, q < nd s' -> exists r, f q = inl r.
Proof.
  intros Hfx Hr Hst Hres.
  assert (Hr' : reachable f c src p s') by (econstructor; eauto).
  destruct (mt_safety f c src p s' Hr') as [O NR].
  assert (Hge : nd s' <= nr s').
  { pose proof (inv_I3 f c src p s Hfx Hr) as H3. pose proof (i3_pfin c s H3) as PF.
    pose proof (inv_fin_chain c src p s Hfx Hr) as FC. pose proof (inv_ctl f c src p s Hfx Hr) as OK.
    clear O NR Hr'.
    revert Hres. step_split t Hst; rw_pc; intros Hres;
      try (apply (f_equal (@length _)) in Hres; rewrite ?app_length in Hres; simpl in Hres; lia).
    all: try solve [ apply FC; reflexivity ].
    all: apply app_inv_head in Hres;
         unfold ret_eff, disp_eff, src_eff, finish_eff, flush_eff, with_out, goto, creturn, freturn, dk_is_finish in Hres;
         repeat match type of Hres with
                | context [match ?x with _ => _ end] => destruct x eqn:?
                | context [if ?b then _ else _] => destruct b eqn:?
                end; cbn [e_res] in Hres; try discriminate; auto.
    all: try solve [ exfalso; rw_eqs; destruct (ph s); cbn in OK; discriminate ]. }
  assert (E : nr s' = nd s') by lia. split; [assumption|]. rewrite <- E. split; [assumption|].
  intros q Hq. eapply map_inl_all; [exact O|lia].
Qed.

(* ---- C09: State::Error is final ----
   Once the coordinator is in State::Error (a worker error or a source error was returned to the
   caller, or the source failed / the input was empty: the CSetErr step), it stays there, and the
   success-end value is never returned afterwards: every later call returns data that was already
   complete and in order (C08), or Err. *)
Theorem mt_error_sticky c src p s t s' :
  Fx c -> reachable f c src p s -> ph s = PErr -> step f c s t = Some s' ->
  ph s' = PErr /\ results s' <> results s ++ [RNone].
Proof.
  intros Hfx Hr Hp Hst.
  pose proof (inv_ctl f c src p s Hfx Hr) as OK. destruct Hfx as (Fc & Fw & Fe & Ff).
  assert (Hne : forall (l : list (cres R)) x, l <> l ++ [x]).
  { intros l x E. apply (f_equal (@length _)) in E. rewrite app_length in E. simpl in E. lia. }
  step_split t Hst; rw_pc; try (split; [assumption|apply Hne]); try (split; [reflexivity|apply Hne]).
  all: try rewrite Hp in *; try discriminate.
  all: unfold disp_eff in *;
       unfold ret_eff, src_eff, finish_eff, flush_eff, with_out, goto, creturn, freturn, dk_is_finish, blocking_of in *;
       rewrite ?Fc, ?Fw, ?Fe, ?Ff in *;
       unfold ctl_ok, quiet_pc, kind_ok, dk_chain, gk_of, is_run, is_perr, is_reader in OK;
       cbn [e_pc e_ph e_out e_res e_fin e_last andb] in *.
  all: repeat match goal with
              | g : gk |- _ => destruct g
              | d : dk |- _ => destruct d
              | r : src_res |- _ => destruct r
              | |- context [if ?b then _ else _] => destruct b eqn:?
              | H : context [match k_kind ?c with _ => _ end] |- _ => destruct (k_kind c) eqn:?
              end; cbn [e_pc e_ph e_out e_res e_fin e_last andb] in *; try discriminate.
  all: try (split; [try reflexivity; try assumption|]).
  all: try (rewrite ?app_nil_r; apply Hne).
  all: try (intros E; apply app_inv_head in E; discriminate).
Qed.

End P.
