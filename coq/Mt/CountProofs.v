(* Mt/CountProofs.v — every dispatched unit is in exactly one place.
   cnt s q = number of places where sequence number q currently is: work queue, a worker that
   holds it (between pop and send), the channel, the reorder map, "already handed out" (q < nr).
   For every configuration:   cnt s q <= 1,  and cnt s q = 0 for numbers not yet dispatched.
   While no unit was lost (no error, receiver alive):  cnt s q = 1 for every dispatched q.
   Consequences: the reorder map and the channel only contain numbers >= nr. *)
From LzVerif Require Import Base.Bytes Mt.Protocol Mt.ProtocolLemmas Mt.ProtocolInv Mt.SafetyProofs.
Local Open Scope nat_scope.

Fixpoint sumf {A} (g : A -> nat) (l : list A) : nat :=
  match l with [] => 0 | x :: t => g x + sumf g t end.

Lemma sumf_app {A} (g : A -> nat) l1 l2 : sumf g (l1 ++ l2) = sumf g l1 + sumf g l2.
Proof. induction l1 as [|x t IH]; simpl; [reflexivity|]. rewrite IH. lia. Qed.

Lemma sumf_upd {A} (g : A -> nat) l i x y :
  nth_opt l i = Some x -> sumf g (upd_nat l i y) + g x = sumf g l + g y.
Proof.
  revert i; induction l as [|z t IH]; intros i H; simpl in *; [discriminate|].
  destruct i; simpl.
  - inversion H; subst. lia.
  - specialize (IH _ H). lia.
Qed.

Lemma sumf_pos_In {A} (g : A -> nat) l : 0 < sumf g l -> exists x, In x l /\ 0 < g x.
Proof.
  induction l as [|z t IH]; simpl; [lia|]. intros H.
  destruct (g z) eqn:E.
  - destruct IH as [x [Hx Hg]]; [lia|]. exists x; auto.
  - exists z; split; [auto|lia].
Qed.

Lemma sumf_In_le {A} (g : A -> nat) l x : In x l -> g x <= sumf g l.
Proof.
  induction l as [|z t IH]; simpl; [tauto|]. intros [->|H]; [lia|]. specialize (IH H). lia.
Qed.

Definition eq1 (x q : nat) : nat := if Nat.eqb x q then 1 else 0.

Section P.
Context {R : Type}.
Variable f : nat -> R + Z.
Implicit Types (s : state R) (c : cfg).

Definition held1 (q : nat) (w : wpc R) : nat :=
  match w with WInc x => eq1 x q | WSend x _ => eq1 x q | _ => 0 end.
Definition msg1 (q : nat) (m : msg R) : nat :=
  match m with MRes x _ => eq1 x q | MWake => 0 end.
Definition reo1 (q : nat) (e : nat * R) : nat := eq1 (fst e) q.

Definition cnt s (q : nat) : nat :=
  sumf (fun x => eq1 x q) (q_items s) + sumf (held1 q) (ws s) + sumf (msg1 q) (ch s) +
  sumf (reo1 q) (reo s) + (if Nat.ltb q (nr s) then 1 else 0).

(* waking does not change any per-worker quantity that does not distinguish WSleep from WWoken *)
Section WakeSum.
Variable g : wpc R -> nat.
Hypothesis g_sleep : g WSleep = g WWoken.
Lemma sumf_wake_first l : sumf g (wake_first l) = sumf g l.
Proof. induction l as [|w t IH]; simpl; [reflexivity|]. destruct w; simpl; try rewrite IH; try rewrite g_sleep; reflexivity. Qed.
Lemma sumf_wake_nth n l l' : wake_nth n l = Some l' -> sumf g l' = sumf g l.
Proof.
  revert n l'; induction l as [|w t IH]; intros n l' H; simpl in *; [discriminate|].
  destruct (is_sleep w) eqn:E.
  - destruct n.
    + inversion H; subst. destruct w; try discriminate. simpl. rewrite g_sleep; reflexivity.
    + destruct (wake_nth n t) eqn:E2; [|discriminate]. inversion H; subst. simpl. erewrite IH; eauto.
  - destruct (wake_nth n t) eqn:E2; [|discriminate]. inversion H; subst. simpl. erewrite IH; eauto.
Qed.
Lemma sumf_wake_one n l : sumf g (wake_one n l) = sumf g l.
Proof.
  unfold wake_one. destruct (wake_nth n l) eqn:E; [eapply sumf_wake_nth; eauto|apply sumf_wake_first].
Qed.
Lemma sumf_wake_all l : sumf g (wake_all l) = sumf g l.
Proof.
  induction l as [|w t IH]; simpl; [reflexivity|]. rewrite IH. destruct w; simpl; try rewrite g_sleep; reflexivity.
Qed.
End WakeSum.

Definition fail1 (w : wpc R) : nat := match w with WDecE _ | WSetErr _ => 1 | _ => 0 end.

Lemma held_wake_one q n l : sumf (held1 q) (wake_one n l) = sumf (held1 q) l.
Proof. apply sumf_wake_one. reflexivity. Qed.
Lemma held_wake_all q l : sumf (held1 q) (wake_all l) = sumf (held1 q) l.
Proof. apply sumf_wake_all. reflexivity. Qed.
Lemma fail_wake_one n l : sumf fail1 (wake_one n l) = sumf fail1 l.
Proof. apply sumf_wake_one. reflexivity. Qed.
Lemma fail_wake_all l : sumf fail1 (wake_all l) = sumf fail1 l.
Proof. apply sumf_wake_all. reflexivity. Qed.

(* reorder map *)
Lemma reo_remove q k (l : list (nat * R)) :
  sumf (reo1 q) (remove_key k l) = if Nat.eqb k q then 0 else sumf (reo1 q) l.
Proof.
  induction l as [|[k' r] t IH]; simpl.
  - destruct (Nat.eqb k q); reflexivity.
  - destruct (Nat.eqb_spec k k'); simpl.
    + subst. rewrite IH. unfold reo1, eq1; simpl. destruct (Nat.eqb k' q); reflexivity.
    + rewrite IH. unfold reo1, eq1; simpl. destruct (Nat.eqb_spec k q); [|reflexivity].
      subst. destruct (Nat.eqb_spec k' q); [congruence|reflexivity].
Qed.

Lemma reo_lookup q (l : list (nat * R)) r : lookup q l = Some r -> 1 <= sumf (reo1 q) l.
Proof.
  induction l as [|[k' r'] t IH]; simpl; [discriminate|].
  unfold reo1 at 1, eq1; simpl. destruct (Nat.eqb_spec q k'); intros H.
  - subst. rewrite Nat.eqb_refl. lia.
  - specialize (IH H). lia.
Qed.

Lemma reo_In q (l : list (nat * R)) r : In (q, r) l -> 1 <= sumf (reo1 q) l.
Proof.
  intros H. pose proof (sumf_In_le (reo1 q) l (q, r) H) as L. unfold reo1 at 1, eq1 in L; simpl in L.
  rewrite Nat.eqb_refl in L. assumption.
Qed.

Lemma ch_In q (l : list (msg R)) r : In (MRes q r) l -> 1 <= sumf (msg1 q) l.
Proof.
  intros H. pose proof (sumf_In_le (msg1 q) l _ H) as L. unfold msg1 at 1, eq1 in L.
  rewrite Nat.eqb_refl in L. assumption.
Qed.

Lemma items_In q (l : list nat) : In q l -> 1 <= sumf (fun x => eq1 x q) l.
Proof.
  intros H. pose proof (sumf_In_le (fun x => eq1 x q) l _ H) as L. cbv beta in L. unfold eq1 in L.
  rewrite Nat.eqb_refl in L. assumption.
Qed.

Lemma items_pos_In q (l : list nat) : 0 < sumf (fun x => eq1 x q) l -> In q l.
Proof.
  intros H. apply sumf_pos_In in H. destruct H as [x [Hx Hg]]. unfold eq1 in Hg.
  destruct (Nat.eqb_spec x q); [subst; assumption|lia].
Qed.

Lemma held_pos_In q (l : list (wpc R)) : 0 < sumf (held1 q) l -> exists w, In w l /\ holds_unit w q.
Proof.
  intros H. apply sumf_pos_In in H. destruct H as [w [Hw Hg]]. exists w. split; [assumption|].
  unfold held1, eq1 in Hg. destruct w; try lia; destruct (Nat.eqb_spec s q); try lia; subst;
    unfold holds_unit; eauto.
Qed.

Lemma ch_pos_In q (l : list (msg R)) : 0 < sumf (msg1 q) l -> exists r, In (MRes q r) l.
Proof.
  intros H. apply sumf_pos_In in H. destruct H as [m [Hm Hg]].
  unfold msg1, eq1 in Hg. destruct m; try lia. destruct (Nat.eqb_spec s q); [subst; eauto|lia].
Qed.

Lemma reo_pos_In q (l : list (nat * R)) : 0 < sumf (reo1 q) l -> exists r, In (q, r) l.
Proof.
  intros H. apply sumf_pos_In in H. destruct H as [[k r] [Hm Hg]].
  unfold reo1, eq1 in Hg; simpl in Hg. destruct (Nat.eqb_spec k q); [subst; eauto|lia].
Qed.

(* ---- the counting invariant ---- *)
(* no unit has been lost so far: no error was ever stored (the shutdown flag is raised together
   with the first error and never lowered), the receiver is alive, no worker is on its error path *)
Definition lossless s : Prop :=
  shut s = false /\ rx_alive s = true /\ sumf fail1 (ws s) = 0.

Record I4 s : Prop := {
  i4_le : forall q, cnt s q <= 1;
  i4_zero : forall q, nde s <= q -> cnt s q = 0;
  i4_one : lossless s -> forall q, q < nde s -> cnt s q = 1
}.

Ltac eqs :=
  unfold eq1 in *;
  repeat match goal with
         | |- context [Nat.eqb ?a ?b] => destruct (Nat.eqb_spec a b); subst
         | H : context [Nat.eqb ?a ?b] |- _ => destruct (Nat.eqb_spec a b); subst
         | |- context [Nat.ltb ?a ?b] => destruct (Nat.ltb_spec a b)
         | H : context [Nat.ltb ?a ?b] |- _ => destruct (Nat.ltb_spec a b)
         end; try lia.

(* the effect of one step on cnt, as linear facts *)
Ltac upd_facts :=
  repeat match goal with
         | H : nth_opt (ws ?s) ?i = Some ?w |- _ =>
             match goal with
             | |- context [sumf ?g (upd_nat (ws s) i ?w')] =>
                 let E := fresh "E" in
                 pose proof (sumf_upd g (ws s) i w w' H) as E; cbn [held1 fail1] in E;
                 generalize dependent (sumf g (upd_nat (ws s) i w')); intros
             | H2 : context [sumf ?g (upd_nat (ws s) i ?w')] |- _ =>
                 let E := fresh "E" in
                 pose proof (sumf_upd g (ws s) i w w' H) as E; cbn [held1 fail1] in E;
                 generalize dependent (sumf g (upd_nat (ws s) i w')); intros
             end
         end.

Ltac cnt_facts :=
  unfold cnt, nde in *; msimpl; rw_pc; rw_eqs; rw_goal; cbn [post_push] in *;
  try match goal with H : lookup _ _ = Some _ |- _ => pose proof (reo_lookup _ _ _ H) end;
  rewrite ?sumf_app, ?held_wake_one, ?held_wake_all, ?fail_wake_one, ?fail_wake_all, ?reo_remove in *;
  cbn [sumf held1 fail1 msg1 reo1 fst insert] in *;
  rewrite ?reo_remove in *;
  unfold reo1 in *; cbn [sumf held1 fail1 msg1 fst] in *;
  upd_facts.

Lemma step_i4_le c s t s' : I1 c s -> I2 f s -> I4 s -> step f c s t = Some s' -> forall q, cnt s' q <= 1.
Proof.
  intros H1 H2 [LE ZE _] Hst q. pose proof (LE q) as L. pose proof (ZE (nd s)) as Z0.
  step_split t Hst; cnt_facts; split_andb; subst; eqs.
Qed.

Lemma step_i4_zero c s t s' : I1 c s -> I2 f s -> I4 s -> step f c s t = Some s' ->
  forall q, nde s' <= q -> cnt s' q = 0.
Proof.
  intros H1 H2 [LE ZE _] Hst q. pose proof (ZE q) as Z0. pose proof (i2_nr f s H2).
  step_split t Hst; intros Hq; unfold nde in Hq; msimpl_in Hq; pc_cases; cnt_facts; split_andb; subst; eqs.
Qed.

Lemma step_i4_one c s t s' : I1 c s -> I2 f s -> I4 s -> step f c s t = Some s' ->
  lossless s' -> forall q, q < nde s' -> cnt s' q = 1.
Proof.
  intros H1 H2 [LE ZE ONE] Hst (LS & LR & LF) q Hq.
  pose proof (ZE q) as Z0. pose proof (LE q) as L0. pose proof (i2_nr f s H2).
  assert (ONE' : shut s = false -> rx_alive s = true -> sumf fail1 (ws s) = 0 -> q < nde s -> cnt s q = 1)
    by (intros; apply ONE; [unfold lossless; auto|assumption]).
  clear ONE.
  step_split t Hst; msimpl_in LS; msimpl_in LR; msimpl_in LF; unfold nde in Hq; msimpl_in Hq;
    try discriminate; pc_cases; cnt_facts; split_andb; subst;
    try (specialize (ONE' ltac:(assumption) ltac:(assumption))); eqs.
Qed.

Theorem inv_I4 c src p s : reachable f c src p s -> I4 s.
Proof.
  intros Hr. induction Hr as [|s t s' Hr IH Hst].
  - constructor; unfold cnt, nde, init; simpl; intros; destruct (k_spawn_new c); simpl; try lia.
  - pose proof (inv_I1 f c src p s Hr) as H1. pose proof (inv_I2 f c src p s Hr) as H2.
    constructor; eauto using step_i4_le, step_i4_zero, step_i4_one.
Qed.

(* consequences: whatever is in the reorder map / channel / queue / a worker's hands has not
   been handed out yet *)
Lemma reo_ge c src p s q r : reachable f c src p s -> In (q, r) (reo s) -> nr s <= q.
Proof.
  intros Hr Hi. pose proof (i4_le _ (inv_I4 c src p s Hr) q) as L. unfold cnt in L.
  pose proof (reo_In _ _ _ Hi). destruct (Nat.ltb_spec q (nr s)); lia.
Qed.

Lemma ch_ge c src p s q r : reachable f c src p s -> In (MRes q r) (ch s) -> nr s <= q.
Proof.
  intros Hr Hi. pose proof (i4_le _ (inv_I4 c src p s Hr) q) as L. unfold cnt in L.
  pose proof (ch_In _ _ _ Hi). destruct (Nat.ltb_spec q (nr s)); lia.
Qed.

Lemma items_ge c src p s q : reachable f c src p s -> In q (q_items s) -> nr s <= q.
Proof.
  intros Hr Hi. pose proof (i4_le _ (inv_I4 c src p s Hr) q) as L. unfold cnt in L.
  pose proof (items_In _ _ Hi). destruct (Nat.ltb_spec q (nr s)); lia.
Qed.

End P.
