(* Mt/SafetyProofs.v — C08 (and the schedule-independence clause of C13) on the protocol model:
   whatever the schedule, worker count, unit list and caller program,
     * the payloads handed to the caller (reader) / written to the sink (writer) are exactly
       f 0, f 1, .., f (k-1) in this order (k = next_sequence_to_return), all of them successes;
     * every unit is taken from the queue at most once, and only units that were dispatched.
   Valid for every configuration (pinned and repaired code alike). *)
From LzVerif Require Import Base.Bytes Mt.Protocol Mt.ProtocolLemmas Mt.ProtocolInv.
Local Open Scope nat_scope.

(* the unit with number [nd] is already in the queue, the counter is incremented a few steps later *)
Definition post_push (p : cpc) : bool :=
  match p with CNotify _ | CLoadAct _ | CLenS _ _ | CSpawn _ => true | _ => false end.

Section P.
Context {R : Type}.
Variable f : nat -> R + Z.
Implicit Types (s : state R) (c : cfg).

Definition nde s : nat := if post_push (pc s) then S (nd s) else nd s.

Definition holds_unit (w : wpc R) (q : nat) : Prop :=
  w = WInc q \/ exists r, w = WSend q r.

Record I2 s : Prop := {
  i2_out : map inl (out s) = map f (seq 0 (nr s));
  i2_ch : forall q r, In (MRes q r) (ch s) -> f q = inl r;
  i2_reo : forall q r, In (q, r) (reo s) -> f q = inl r;
  i2_ws : forall q r, In (WSend q r) (ws s) -> f q = inl r;
  i2_nodup : NoDup (q_items s ++ popped s);
  i2_lt : forall x, In x (q_items s ++ popped s) -> x < nde s;
  i2_pch : forall q r, In (MRes q r) (ch s) -> In q (popped s);
  i2_preo : forall q r, In (q, r) (reo s) -> In q (popped s);
  i2_pws : forall w q, In w (ws s) -> holds_unit w q -> In q (popped s);
  i2_pret : forall q, q < nr s -> In q (popped s);
  i2_nr : nr s <= nd s
}.

Lemma ret_eff_out_some s g r : e_out (ret_eff s g (RSome r)) = [r].
Proof. unfold ret_eff, with_out, goto, creturn. destruct g; try reflexivity. destruct (Nat.ltb (nr s) (nd s)); reflexivity. Qed.

Lemma ret_eff_out_err s g e : e_out (ret_eff s g (RErr e)) = [].
Proof. unfold ret_eff, goto, creturn, freturn. destruct g; try reflexivity. destruct (dk_is_finish d); reflexivity. Qed.

Lemma ret_eff_out_none s g : e_out (ret_eff s g RNone) = [].
Proof.
  unfold ret_eff, goto, creturn, freturn. destruct g; try reflexivity.
  destruct (ph s); try reflexivity; destruct (dk_is_finish d); reflexivity.
Qed.

Ltac out_simpl := rewrite ?ret_eff_out_some, ?ret_eff_out_err, ?ret_eff_out_none, ?app_nil_r.

Lemma step_i2_out c s t s' : I2 s -> step f c s t = Some s' -> map inl (out s') = map f (seq 0 (nr s')).
Proof.
  intros [O CH RE WS _ _ _ _ _ _ _] Hst. step_split t Hst; out_simpl; auto.
  - (* CTop: the chunk comes from the reorder map *)
    rewrite map_app, seq_S, map_app, O. simpl. f_equal. f_equal. symmetry. apply RE. apply lookup_In; assumption.
  - (* CRecv: the chunk comes from the channel *)
    split_andb. subst. rewrite map_app, seq_S, map_app, O. simpl. f_equal. f_equal. symmetry.
    apply CH. left; reflexivity.
Qed.

Lemma step_i2_ch c s t s' : I2 s -> step f c s t = Some s' -> forall q r, In (MRes q r) (ch s') -> f q = inl r.
Proof.
  intros [_ CH _ WS _ _ _ _ _ _ _] Hst. step_split t Hst; intros q' r' Hi; rw_eqs; eauto.
  all: try solve [ apply CH; right; assumption ].
  all: try solve [ destruct Hi ].
  all: try solve [ apply in_app_iff in Hi; destruct Hi as [Hi|[Hi|[]]]; [eauto| inversion Hi; subst];
                   try discriminate; apply WS; eapply nth_opt_In; eauto ].
Qed.

Lemma step_i2_reo c s t s' : I2 s -> step f c s t = Some s' -> forall q r, In (q, r) (reo s') -> f q = inl r.
Proof.
  intros [_ CH RE _ _ _ _ _ _ _ _] Hst. step_split t Hst; intros q' r' Hi; eauto.
  - apply remove_key_In in Hi. destruct Hi; eauto.
  - apply insert_In in Hi. destruct Hi as [[-> ->]|Hi]; eauto. apply CH. left; reflexivity.
Qed.

Lemma step_i2_ws c s t s' : I2 s -> step f c s t = Some s' -> forall q r, In (WSend q r) (ws s') -> f q = inl r.
Proof.
  intros [_ _ _ WS _ _ _ _ _ _ _] Hst. step_split t Hst; intros q' r' Hi; eauto.
  all: try solve [ apply wake_one_In in Hi; destruct Hi as [Hi|Hi]; [eauto|discriminate] ].
  all: try solve [ apply wake_all_In in Hi; destruct Hi as [Hi|Hi]; [eauto|discriminate] ].
  all: try solve [ apply in_app_iff in Hi; destruct Hi as [Hi|[Hi|[]]]; [eauto|discriminate] ].
  all: try solve [ apply upd_nat_In in Hi; destruct Hi as [Hi|Hi]; [try discriminate|eauto];
                   inversion Hi; subst; assumption ].
Qed.

Lemma nde_upd_ws s w : nde (set_ws s w) = nde s. Proof. reflexivity. Qed.

Lemma NoDup_app_r {A} (l1 l2 : list A) : NoDup (l1 ++ l2) -> NoDup l2.
Proof. induction l1 as [|x t IH]; simpl; [auto|]. intros H; inversion H; auto. Qed.

Lemma NoDup_snoc {A} (l : list A) x : NoDup l -> ~ In x l -> NoDup (l ++ [x]).
Proof.
  induction l as [|y t IH]; intros Hn Hx; simpl.
  - constructor; [tauto|constructor].
  - inversion Hn; subst. constructor.
    + rewrite in_app_iff. simpl. intros [H|[H|[]]]; [tauto|]. subst. apply Hx. left; reflexivity.
    + apply IH; [assumption|]. intros H. apply Hx. right; assumption.
Qed.

Lemma NoDup_head_to_end {A} (x : A) l1 l2 : NoDup ((x :: l1) ++ l2) -> NoDup (l1 ++ l2 ++ [x]).
Proof.
  simpl. intros H. inversion H; subst. rewrite app_assoc. apply NoDup_snoc; assumption.
Qed.

Lemma NoDup_insert_mid {A} (x : A) l1 l2 : NoDup (l1 ++ l2) -> ~ In x (l1 ++ l2) -> NoDup ((l1 ++ [x]) ++ l2).
Proof.
  induction l1 as [|y t IH]; intros Hn Hx; simpl in *.
  - constructor; assumption.
  - inversion Hn; subst. constructor.
    + rewrite !in_app_iff in *. simpl. intros [[H|[H|[]]]|H]; try tauto. subst. tauto.
    + apply IH; [assumption|tauto].
Qed.

Lemma step_i2_nodup c s t s' : I1 c s -> I2 s -> step f c s t = Some s' ->
  NoDup (q_items s' ++ popped s') /\ forall x, In x (q_items s' ++ popped s') -> x < nde s'.
Proof.
  intros H1 [_ _ _ _ ND LT _ _ _ _ _] Hst. unfold nde in *.
  step_split t Hst; rw_pc; cbn [post_push] in *;
    try match goal with H : q_items _ = [] |- _ => rewrite ?H end; try (split; assumption);
    try (split; [assumption|]; intros x Hx; specialize (LT _ Hx); lia).
  all: try solve [ split; [assumption|]; intros x Hx; specialize (LT _ Hx); pc_cases; cbn [post_push]; lia ].
  - (* CPush *)
    split.
    + apply NoDup_insert_mid; [assumption|]. intros Hx. specialize (LT _ Hx). lia.
    + intros x Hx. rewrite !in_app_iff in Hx. simpl in Hx.
      assert (Hc : In x (q_items s ++ popped s) \/ x = nd s) by (rewrite in_app_iff; intuition).
      destruct Hc as [Hx'|Hx'].
      * specialize (LT _ Hx'). lia.
      * lia.
  - (* WPop *)
    split.
    + apply NoDup_head_to_end. assumption.
    + intros x Hx. apply LT. rewrite !in_app_iff in *. simpl in *. intuition.
Qed.

Lemma holds_unit_inv (w : wpc R) q : holds_unit w q -> (w = WInc q \/ exists r, w = WSend q r).
Proof. auto. Qed.

Lemma step_i2_prov c s t s' : I2 s -> step f c s t = Some s' ->
  (forall q r, In (MRes q r) (ch s') -> In q (popped s')) /\
  (forall q r, In (q, r) (reo s') -> In q (popped s')) /\
  (forall w q, In w (ws s') -> holds_unit w q -> In q (popped s')) /\
  (forall q, q < nr s' -> In q (popped s')).
Proof.
  intros [_ _ _ _ _ _ PC PR PW PN _] Hst.
  step_split t Hst; (split; [|split; [|split]]); eauto.
  (* channel *)
  all: try solve [ intros q' r' Hi; eapply PC; right; eassumption ].
  all: try solve [ intros q' r' [] ].
  (* reorder map *)
  all: try solve [ intros q' r' Hi; apply remove_key_In in Hi; destruct Hi; eauto ].
  all: try solve [ intros q' r' Hi; apply insert_In in Hi; destruct Hi as [[-> ->]|Hi]; eauto;
                   eapply PC; left; reflexivity ].
  (* returned *)
  all: try solve [ intros q' Hq; destruct (Nat.eq_dec q' (nr s)) as [->|];
                   [ eapply PR; apply lookup_In; eassumption | apply PN; lia ] ].
  all: try solve [ intros q' Hq; split_andb; subst; destruct (Nat.eq_dec q' (nr s)) as [->|];
                   [ eapply PC; left; reflexivity | apply PN; lia ] ].
  (* workers seen through wake / spawn *)
  all: try solve [ intros w q' Hi Hh; apply wake_one_In in Hi; destruct Hi as [Hi| ->]; [eauto|];
                   destruct Hh as [Hh|[? Hh]]; discriminate ].
  all: try solve [ intros w q' Hi Hh; apply wake_all_In in Hi; destruct Hi as [Hi| ->]; [eauto|];
                   destruct Hh as [Hh|[? Hh]]; discriminate ].
  all: try solve [ intros w q' Hi Hh; apply in_app_iff in Hi; destruct Hi as [Hi|[<-|[]]]; [eauto|];
                   destruct Hh as [Hh|[? Hh]]; discriminate ].
  (* a worker's own step *)
  all: try solve [ intros w q' Hi Hh; apply upd_nat_In in Hi; destruct Hi as [->|Hi]; [|eauto];
                   destruct Hh as [Hh|[? Hh]];
                   first [ discriminate
                         | inversion Hh; subst; eapply PW; [eapply nth_opt_In; eauto|]; unfold holds_unit; eauto ] ].
  (* WPop: the unit enters [popped] *)
  all: try solve [ intros; apply in_app_iff; left; eauto ].
  all: try solve [ intros w q' Hi Hh; apply upd_nat_In in Hi; destruct Hi as [->|Hi];
                   [ destruct Hh as [Hh|[? Hh]];
                     first [ discriminate | inversion Hh; subst; apply in_app_iff; right; left; reflexivity ]
                   | apply in_app_iff; left; eauto ] ].
  (* a send: the message inherits the provenance of the sender *)
  all: try solve [ intros q' r' Hi; apply in_app_iff in Hi; destruct Hi as [Hi|[Hi|[]]]; [eauto|];
                   first [ discriminate
                         | inversion Hi; subst;
                           eapply PW; [eapply nth_opt_In; eauto|]; unfold holds_unit; eauto ] ].
  all: try solve [ intros q' r' Hi; rw_eqs; destruct Hi ].
Qed.

Lemma step_i2_nr c s t s' : I2 s -> step f c s t = Some s' -> nr s' <= nd s'.
Proof.
  intros [_ _ _ _ _ LT PC PR _ _ NR] Hst. unfold nde in LT.
  step_split t Hst; rw_pc; cbn [post_push] in LT; try lia.
  - assert (nr s < nd s); [|lia]. apply LT. apply in_app_iff. right. eapply PR. apply lookup_In. eassumption.
  - split_andb. subst. assert (nr s < nd s); [|lia]. apply LT. apply in_app_iff. right. eapply PC.
    left; reflexivity.
Qed.

Theorem inv_I2 c src p s : reachable f c src p s -> I2 s.
Proof.
  intros Hr. induction Hr as [|s t s' Hr IH Hst].
  - constructor; unfold init, nde; simpl; try tauto; try (intros; lia).
    + intros q r Hw. destruct (k_spawn_new c); simpl in Hw; intuition discriminate.
    + constructor.
    + intros w q Hw [->|[r ->]]; destruct (k_spawn_new c); simpl in Hw; intuition discriminate.
  - pose proof (inv_I1 f c src p s Hr) as H1.
    destruct (step_i2_nodup c s t s' H1 IH Hst) as [ND LT].
    destruct (step_i2_prov c s t s' IH Hst) as (PC & PR & PW & PN).
    constructor; eauto using step_i2_out, step_i2_ch, step_i2_reo, step_i2_ws, step_i2_nr.
Qed.

(* ---------------- C08 ---------------- *)

(* In every reachable state the payloads handed out so far are the successful results of the first
   [nr] units, in input order — for all worker counts, unit functions, source scripts, caller
   programs and schedules. *)
Theorem mt_safety c src p s :
  reachable f c src p s -> map inl (out s) = map f (seq 0 (nr s)) /\ nr s <= nd s.
Proof.
  intros Hr. pose proof (inv_I2 c src p s Hr) as [O _ _ _ _ LT _ _ _ PN NR]. auto.
Qed.

(* every unit is taken from the queue at most once, and only dispatched units are taken *)
Theorem mt_once c src p s :
  reachable f c src p s -> NoDup (popped s) /\ forall q, In q (popped s) -> q < nd s + 1.
Proof.
  intros Hr. pose proof (inv_I2 c src p s Hr) as [_ _ _ _ ND LT _ _ _ _ _].
  split.
  - eapply NoDup_app_r; eassumption.
  - intros q Hq. assert (q < nde s) by (apply LT; apply in_app_iff; right; assumption).
    unfold nde in *. destruct (post_push (pc s)); lia.
Qed.

(* every payload that is in flight (channel, reorder map, a worker about to send) is the result of
   the unit whose number it carries *)
Theorem mt_tagged c src p s q r :
  reachable f c src p s ->
  In (MRes q r) (ch s) \/ In (q, r) (reo s) \/ In (WSend q r) (ws s) -> f q = inl r.
Proof.
  intros Hr. pose proof (inv_I2 c src p s Hr) as [_ CH RE WS _ _ _ _ _ _ _]. intuition eauto.
Qed.

(* C13, schedule clause: the payloads handed out are a function of how many were handed out *)
Lemma map_inl_inj (a b : list R) : map (@inl R Z) a = map inl b -> a = b.
Proof.
  revert b; induction a as [|x t IH]; intros [|y u] H; simpl in H; try discriminate; [reflexivity|].
  inversion H; subst. f_equal. auto.
Qed.

Theorem mt_output_schedule_free c1 c2 src1 src2 p1 p2 s1 s2 :
  reachable f c1 src1 p1 s1 -> reachable f c2 src2 p2 s2 -> nr s1 = nr s2 -> out s1 = out s2.
Proof.
  intros H1 H2 E. destruct (mt_safety c1 src1 p1 s1 H1) as [O1 _]. destruct (mt_safety c2 src2 p2 s2 H2) as [O2 _].
  apply map_inl_inj. rewrite O1, O2, E. reflexivity.
Qed.

End P.
