(* Mt/Lzma2UnitsProofs.v — closed statements about work units of LZMA2 streams, obtained by
   instantiating Mt/UnitsProofs.v (Section Decode) with the concrete chunk decoder of
   Mt/Lzma2Units.v and tying it to the reader model by Mt/Lzma2UnitsSimProofs.v:
     * [reader_sound] / [reader_complete]: LZMA2Reader (model) on a byte stream = [adecode];
     * [cut_lzma2_units]: the byte-level cutting of LZMA2ReaderMT = the chunk-level cutting;
     * [lzma2_mt_reader_data]: whatever the single-threaded reader decodes, the work units decode
       separately (fresh reader each, same preset dictionary, 0x00 appended) to pieces whose
       concatenation is the same data;
     * [lzma2_mt_writer_data]: the concatenation of streams written unit by unit decodes to the
       concatenation of the units' data. *)
From LzVerif Require Import Base.Bytes Codec.Store Codec.Range Codec.ProbProofs Codec.RangeArithProofs
  Codec.LzWindow Codec.LzmaDec Codec.LzmaEnc Codec.LzmaAbs Codec.LzWindowProofs Codec.RangeEncProofs Codec.RangeProofs
  Codec.LzmaSymProofs Codec.LzmaRoundtrip Codec.LzmaChunkProofs Codec.LzmaWriters
  Codec.Lzma2Dec Codec.Lzma2SpecProofs Codec.Lzma2FrameSyncProofs Codec.Lzma2LoopProofs Codec.Lzma2Loop0Proofs Codec.Lzma2ReadProofs Codec.Total2Proofs
  Codec.Lzma2ExamplesProofs Mt.Units Mt.UnitsProofs Mt.Lzma2Units Mt.Lzma2UnitsAbsProofs Mt.Lzma2UnitsSimProofs.
Ltac Zify.zify_post_hook ::= Z.div_mod_to_equations.
Local Open Scope Z_scope.

Notation pos_sizes := (Forall (fun z : Z => 0 < z)).

Lemma l2_wsize_ok dict : 0 < l2_wsize dict /\ l2_wsize dict mod 16 = 0.
Proof. unfold l2_wsize. lia. Qed.

(* ---- LZMA2Reader::new establishes the invariant ---------------------------------------------- *)
Lemma reader_init input dict preset : bytes_ok input = true ->
  exists s0, lzma2_new input dict preset = Ok s0 /\
    SInv (l2_wsize dict) false s0 (adecode (l2_wsize dict) (d_init (l2_wsize dict) preset) input).
Proof.
  intros Hb. destruct (l2_wsize_ok dict) as (Hds & Hds16).
  unfold lzma2_new, lzma2_get_dict_size. cbn [obind]. fold (l2_wsize dict).
  set (ds := l2_wsize dict) in *.
  eexists. split; [reflexivity|].
  split; [unfold live; cbn [m_end_reached m_error m_in]; auto|].
  left. exists (d_init ds preset). split; [|reflexivity].
  unfold at_boundary. cbn [m_uncompressed_size m_rc m_win m_need_dict_reset].
  split; [reflexivity|]. split; [reflexivity|].
  destruct preset as [[|x p]|].
  - (* an empty preset dictionary counts as none *)
    split.
    { split; [exact (lzwin_new_preset_rel ds [] Hds Hds16)|]. split; [reflexivity|]. split; [reflexivity|].
      intros X; discriminate X. }
    split; [reflexivity|]. split; [reflexivity|]. split; [reflexivity|]. intros X; discriminate X.
  - split.
    { split; [exact (lzwin_new_preset_rel ds (x :: p) Hds Hds16)|]. split; [reflexivity|]. split; [reflexivity|].
      intros X; discriminate X. }
    split; [reflexivity|]. split; [reflexivity|]. split; [reflexivity|]. intros X; discriminate X.
  - split.
    { split; [exact (lzwin_new_rel ds Hds Hds16)|]. split; [reflexivity|]. split; [reflexivity|].
      intros X; discriminate X. }
    split; [reflexivity|]. split; [reflexivity|]. split; [reflexivity|]. intros X; discriminate X.
Qed.

(* ---- the reader model = the chunk decoder ----------------------------------------------------- *)
Theorem reader_sound dict preset input data tail : bytes_ok input = true ->
  adecode (l2_wsize dict) (d_init (l2_wsize dict) preset) input = Some (data, tail) ->
  forall sizes fuel, pos_sizes sizes -> (length data + 2 <= fuel)%nat ->
  exists s0 s_end, lzma2_new input dict preset = Ok s0 /\
    lzma2_read_all fuel s0 sizes sizes [] = Ok (data, 0, s_end) /\
    m_end_reached s_end = true /\ m_error s_end = None /\ m_in s_end = tail.
Proof.
  intros Hb Ha sizes fuel Hs Hf. destruct (l2_wsize_ok dict) as (Hds & Hds16).
  destruct (reader_init input dict preset Hb) as (s0 & Hnew & HI). rewrite Ha in HI.
  destruct (read_all_sound (l2_wsize dict) Hds Hds16 tail false s0 data sizes fuel HI Hs Hf) as (s_end & Hr & (E1 & E2 & E3)).
  exists s0, s_end. auto.
Qed.

Theorem reader_complete dict preset input sizes fuel s0 data stt s_end : bytes_ok input = true ->
  lzma2_new input dict preset = Ok s0 -> pos_sizes sizes ->
  lzma2_read_all fuel s0 sizes sizes [] = Ok (data, stt, s_end) -> m_end_reached s_end = true ->
  adecode (l2_wsize dict) (d_init (l2_wsize dict) preset) input = Some (data, m_in s_end) /\ stt = 0.
Proof.
  intros Hb Hnew Hs Hr Hend. destruct (l2_wsize_ok dict) as (Hds & Hds16).
  destruct (reader_init input dict preset Hb) as (s0' & Hnew' & HI). rewrite Hnew in Hnew'. inversion Hnew'; subst s0'.
  destruct (read_all_comp (l2_wsize dict) Hds Hds16 fuel false s0 sizes sizes [] _ data stt s_end HI Hs Hs Hr Hend)
    as (data' & D1 & D2 & D3 & _).
  cbn [rev app] in D2. subst data'. split; assumption.
Qed.

(* status 0 suffices: every error of the reader model is a non-zero io::Error kind *)
Theorem reader_complete0 dict preset input sizes fuel s0 data s_end : bytes_ok input = true ->
  lzma2_new input dict preset = Ok s0 -> pos_sizes sizes ->
  lzma2_read_all fuel s0 sizes sizes [] = Ok (data, 0, s_end) ->
  adecode (l2_wsize dict) (d_init (l2_wsize dict) preset) input = Some (data, m_in s_end) /\
  m_end_reached s_end = true.
Proof.
  intros Hb Hnew Hs Hr. destruct (l2_wsize_ok dict) as (Hds & Hds16).
  destruct (reader_init input dict preset Hb) as (s0' & Hnew' & HI). rewrite Hnew in Hnew'. inversion Hnew'; subst s0'.
  pose proof (read_all_comp0 (l2_wsize dict) Hds Hds16 fuel false s0 sizes sizes [] _ data s_end HI Hs Hs Hr) as Hend.
  destruct (reader_complete dict preset input sizes fuel s0 data 0 s_end Hb Hnew Hs Hr Hend) as (Ha & _).
  split; assumption.
Qed.

Lemma l2_decodes_of_adecode dict preset input data tail : bytes_ok input = true ->
  adecode (l2_wsize dict) (d_init (l2_wsize dict) preset) input = Some (data, tail) ->
  l2_decodes input dict preset data.
Proof.
  intros Hb Ha sizes fuel Hs Hf.
  destruct (reader_sound dict preset input data tail Hb Ha sizes fuel Hs Hf) as (s0 & s_end & Hnew & Hr & He & _).
  unfold l2_done, l2_read_result. rewrite Hnew. cbn [obind]. exists s_end. split; assumption.
Qed.

(* ---- streams as chunk sequences ---------------------------------------------------------------- *)
(* a chunk whose bytes parse back to it in front of anything *)
Definition chunk_stable (k : chunk) : Prop :=
  c_bytes k <> [] /\ forall rest, parse_chunk (c_bytes k ++ rest) = PChunk k rest.

Lemma parse_chunk_stable input k rest : parse_chunk input = PChunk k rest ->
  input = c_bytes k ++ rest /\ chunk_stable k.
Proof.
  intros H. destruct (parse_chunk_app input k rest H) as (Hin & Hst & Hl).
  split; [exact Hin|]. split; [|exact Hst].
  intros X. rewrite X in Hin. cbn [app] in Hin. subst input. lia.
Qed.

Lemma parse_chunk_term input rest : parse_chunk input = PTerm rest -> input = 0 :: rest.
Proof.
  unfold parse_chunk. destruct input as [|c in1]; [discriminate|].
  destruct (Z.eqb_spec c 0) as [->|Hc]; [intros H; inversion H; reflexivity|].
  destruct (128 <=? c).
  - destruct (take_n _ in1) as [[hdr r1]|]; [|discriminate].
    destruct hdr as [|h0 [|h1 [|h2 [|h3 hr]]]]; try discriminate.
    destruct (take_n _ r1) as [[pay r2]|]; discriminate.
  - destruct ((c =? 1) || (c =? 2)); [|discriminate].
    destruct in1 as [|s0 [|s1 r1]]; try discriminate.
    destruct (take_n _ r1) as [[pay r2]|]; discriminate.
Qed.

Lemma flat_cons k ks : flat (k :: ks) = c_bytes k ++ flat ks.
Proof. reflexivity. Qed.

Lemma flat_app a b : flat (a ++ b) = flat a ++ flat b.
Proof. unfold flat. rewrite map_app, concat_app. reflexivity. Qed.

Lemma parse_all_inv fuel : forall bytes ks rest, parse_all fuel bytes = Some (ks, rest) ->
  bytes = flat ks ++ 0 :: rest /\ Forall chunk_stable ks.
Proof.
  induction fuel as [|n IH]; intros bytes ks rest H; [discriminate|].
  rewrite parse_all_S in H.
  destruct (parse_chunk bytes) as [|r|k r|e] eqn:E; try discriminate.
  - inversion H; subst ks rest. apply parse_chunk_term in E. split; [exact E | constructor].
  - destruct (parse_all n r) as [[ks' r']|] eqn:E2; [|discriminate]. inversion H; subst ks rest.
    destruct (IH r ks' r' E2) as (Hr & Hst). destruct (parse_chunk_stable _ _ _ E) as (Hb & Hk).
    split; [rewrite flat_cons, <- app_assoc, <- Hr; exact Hb | constructor; assumption].
Qed.

Lemma parse_all_flat ks rest : Forall chunk_stable ks -> forall fuel, (length ks < fuel)%nat ->
  parse_all fuel (flat ks ++ 0 :: rest) = Some (ks, rest).
Proof.
  induction 1 as [|k ks (Hne & Hk) _ IH]; intros fuel Hf; (destruct fuel as [|n]; [cbn [length] in Hf; lia|]).
  - reflexivity.
  - rewrite parse_all_S, flat_cons, <- app_assoc, Hk. rewrite IH by (cbn [length] in Hf; lia). reflexivity.
Qed.

Lemma stream_chunks_flat ks rest : Forall chunk_stable ks -> stream_chunks (flat ks ++ 0 :: rest) = Some (ks, rest).
Proof.
  intros H. unfold stream_chunks. apply parse_all_flat; [exact H|].
  assert (Hl : (length ks <= length (flat ks))%nat).
  { clear rest. induction H as [|k ks (Hne & _) _ IH]; [cbn; lia|]. rewrite flat_cons, app_length. cbn [length].
    destruct (c_bytes k); [congruence | cbn [length]; lia]. }
  rewrite app_length. cbn [length]. lia.
Qed.

Lemma adecode_flat ds d ks rest : Forall chunk_stable ks ->
  adecode ds d (flat ks ++ 0 :: rest) =
  match decode_chunks dstate (astep ds) d ks with Some o => Some (o, rest) | None => None end.
Proof. intros H. unfold adecode. rewrite (stream_chunks_flat ks rest H). reflexivity. Qed.

Lemma adecode_inv ds d input data tail : adecode ds d input = Some (data, tail) ->
  exists ks, input = flat ks ++ 0 :: tail /\ Forall chunk_stable ks /\ decode_chunks dstate (astep ds) d ks = Some data.
Proof.
  unfold adecode, stream_chunks. intros H.
  destruct (parse_all (S (length input)) input) as [[ks rest]|] eqn:E; [|discriminate].
  destruct (decode_chunks dstate (astep ds) d ks) as [o|] eqn:E2; [|discriminate]. inversion H; subst o rest.
  destruct (parse_all_inv _ _ _ _ E) as (Hin & Hst). exists ks. auto.
Qed.

(* ---- the byte-level cutting of read_and_dispatch_chunk = the chunk-level cutting ---------------- *)
Lemma is_nil_flat cur : Forall chunk_stable cur -> is_nil (flat cur) = is_nil cur.
Proof.
  intros H. destruct H as [|k t (Hne & _) _]; [reflexivity|]. rewrite flat_cons.
  destruct (c_bytes k); [congruence | reflexivity].
Qed.

Lemma cut_bytes_go : forall ks rest cur units calls fuel,
  Forall chunk_stable ks -> Forall chunk_stable cur -> (length ks < fuel)%nat ->
  cr_units (cut_bytes None fuel (flat ks ++ 0 :: rest) (flat cur) units calls) =
    rev units ++ map unit_bytes (cut_go cur ks) /\
  cr_end (cut_bytes None fuel (flat ks ++ 0 :: rest) (flat cur) units calls) = None.
Proof.
  induction ks as [|k ks IH]; intros rest cur units calls fuel Hks Hcur Hf;
    (destruct fuel as [|n]; [cbn [length] in Hf; lia|]).
  - cbn [flat map concat app cut_bytes parse_chunk]. change (0 =? 0) with true. cbv iota.
    cbn [cr_units cr_end cut_go map rev]. split; reflexivity.
  - inversion Hks as [|k0 ks0 (Hne & Hk) Hks']; subst k0 ks0.
    cbn [cut_bytes]. rewrite flat_cons, <- app_assoc, Hk.
    rewrite (is_nil_flat cur Hcur). cbn [cut_go].
    assert (Hfk : flat [k] = c_bytes k) by (unfold flat; cbn [map concat]; apply app_nil_r).
    destruct (chunk_independent k && negb (is_nil cur)) eqn:E.
    + rewrite <- Hfk.
      destruct (IH rest [k] ((flat cur ++ [0]) :: units) (true :: calls) n Hks'
                  ltac:(constructor; [split; assumption | constructor]) ltac:(cbn [length] in Hf; lia)) as (H1 & H2).
      rewrite H1, H2. cbn [rev map]. rewrite <- app_assoc. split; reflexivity.
    + replace (flat cur ++ c_bytes k) with (flat (cur ++ [k])) by (rewrite flat_app, Hfk; reflexivity).
      apply IH; [exact Hks' | apply Forall_app; split; [exact Hcur | constructor; [split; assumption | constructor]] | cbn [length] in Hf; lia].
Qed.

Theorem cut_lzma2_units ks rest : Forall chunk_stable ks ->
  cr_units (cut_lzma2 (flat ks ++ 0 :: rest)) = map unit_bytes (cut_chunks ks) /\
  cr_end (cut_lzma2 (flat ks ++ 0 :: rest)) = None.
Proof.
  intros H. unfold cut_lzma2, cut_chunks.
  assert (Hl : (length ks < S (length (flat ks ++ 0%Z :: rest)))%nat).
  { assert (X : (length ks <= length (flat ks))%nat).
    { clear rest. induction H as [|k ks (Hne & _) _ IH]; [cbn; lia|]. rewrite flat_cons, app_length. cbn [length].
      destruct (c_bytes k); [congruence | cbn [length]; lia]. }
    rewrite app_length. cbn [length]. lia. }
  exact (cut_bytes_go ks rest [] [] [] _ H (Forall_nil _) Hl).
Qed.

(* ---- units decoded separately ---------------------------------------------------------------- *)
Lemma decode_units_inv D (step : D -> chunk -> option (D * list Z)) d0 : forall units out,
  decode_units D step d0 units = Some out ->
  exists outs, Forall2 (fun u o => exists d1, run_chunks D step d0 u = Some (d1, o)) units outs /\ concat outs = out.
Proof.
  induction units as [|u t IH]; intros out H; cbn [decode_units] in H.
  - inversion H. exists []. split; [constructor | reflexivity].
  - destruct (run_chunks D step d0 u) as [[d1 o1]|] eqn:E; [|discriminate].
    destruct (decode_units D step d0 t) as [o2|] eqn:E2; [|discriminate]. inversion H; subst out.
    destruct (IH o2 eq_refl) as (outs & HF & Hc). exists (o1 :: outs). split; [|cbn [concat]; rewrite Hc; reflexivity].
    constructor; [exists d1; exact E | exact HF].
Qed.

Lemma cut_go_forall (P : chunk -> Prop) : forall ks cur, Forall P cur -> Forall P ks -> Forall (Forall P) (cut_go cur ks).
Proof.
  induction ks as [|k ks IH]; intros cur Hc Hk; cbn [cut_go].
  - constructor; [exact Hc | constructor].
  - inversion Hk as [|k0 ks0 Hk0 Hks]; subst.
    destruct (chunk_independent k && negb (is_nil cur)).
    + constructor; [exact Hc|]. apply IH; [constructor; [exact Hk0 | constructor] | exact Hks].
    + apply IH; [apply Forall_app; split; [exact Hc | constructor; [exact Hk0 | constructor]] | exact Hks].
Qed.

Lemma bytes_ok_flat ks : bytes_ok (flat ks) = true <-> Forall (fun k => bytes_ok (c_bytes k) = true) ks.
Proof.
  induction ks as [|k ks IH]; [split; [constructor | reflexivity]|].
  rewrite flat_cons, bytes_ok_app, IH. split.
  - intros (A & B). constructor; assumption.
  - intros H. inversion H; subst. split; assumption.
Qed.

(* What LZMA2ReaderMT's workers compute, for a stream the single-threaded reader decodes. *)
Theorem lzma2_mt_reader_data dict preset stream sizes fuel data s_end :
  bytes_ok stream = true -> pos_sizes sizes ->
  l2_read_result fuel stream dict preset sizes = Ok (data, 0, s_end) ->
  cr_end (cut_lzma2 stream) = None /\
  exists datas, Forall2 (fun u du => l2_decodes u dict preset du) (cr_units (cut_lzma2 stream)) datas /\
                concat datas = data.
Proof.
  intros Hb Hs Hr. unfold l2_read_result in Hr.
  destruct (lzma2_new stream dict preset) as [s0|e|e|] eqn:Hnew; cbn [obind] in Hr; try discriminate.
  destruct (reader_complete0 dict preset stream sizes fuel s0 data s_end Hb Hnew Hs Hr) as (Ha & Hend).
  set (ds := l2_wsize dict) in *. set (d0 := d_init ds preset) in *.
  destruct (adecode_inv ds d0 stream data _ Ha) as (ks & Hin & Hks & Hdec).
  destruct (cut_lzma2_units ks (m_in s_end) Hks) as (Hu & He). rewrite <- Hin in Hu, He.
  split; [exact He|].
  rewrite <- (unit_cut_sound dstate (astep ds) d0 (astep_indep ds d0) ks) in Hdec.
  destruct (decode_units_inv _ _ _ _ _ Hdec) as (datas & HF & Hc).
  exists datas. split; [|exact Hc]. rewrite Hu.
  (* every unit: stable chunks, bytes *)
  assert (Hbk : Forall (fun k => bytes_ok (c_bytes k) = true) ks).
  { apply bytes_ok_flat. rewrite Hin in Hb. apply bytes_ok_app in Hb. apply Hb. }
  pose proof (cut_go_forall chunk_stable ks [] (Forall_nil _) Hks) as Hst_u.
  pose proof (cut_go_forall _ ks [] (Forall_nil _) Hbk) as Hb_u.
  fold (cut_chunks ks) in Hst_u, Hb_u.
  subst d0 ds. revert HF Hst_u Hb_u. generalize (cut_chunks ks). clear.
  intros units HF. induction HF as [|u du units datas (d1 & Hrun) _ IH]; intros Hst Hbu; cbn [map]; constructor.
  - inversion Hst; subst. inversion Hbu; subst.
    apply (l2_decodes_of_adecode dict preset (unit_bytes u) du []).
    + unfold unit_bytes. apply bytes_ok_app. split; [apply bytes_ok_flat; assumption | reflexivity].
    + unfold unit_bytes. rewrite adecode_flat by assumption. unfold decode_chunks. rewrite Hrun. reflexivity.
  - inversion Hst; subst. inversion Hbu; subst. apply IH; assumption.
Qed.

(* ---- streams written unit by unit ------------------------------------------------------------- *)
(* lzma2_roundtrip (Codec/Lzma2ReadProofs.v) with the final state's end flag kept *)
Lemma lzma2_roundtrip_ended : forall lc lp pb dict data evs stream tail sizes,
  0 <= lc -> 0 <= lp -> lc + lp <= 4 -> 0 <= pb <= 4 -> dict <= 2147483648 ->
  bytes_ok data = true ->
  Lzma2FrameSyncProofs.l2_no_end evs ->
  lzma2_write lc lp pb dict None data evs = Ok stream ->
  pos_sizes sizes ->
  exists s0, lzma2_new (stream ++ tail) dict None = Ok s0 /\
    forall fuel, (length data + 2 <= fuel)%nat ->
    exists s_end, lzma2_read_all fuel s0 sizes sizes [] = Ok (data, 0, s_end) /\
                  m_end_reached s_end = true /\ m_in s_end = tail.
Proof.
  intros lc lp pb dict data evs stream tail sizes Hlc Hlp Hs Hpb Hdict Hbytes Hne Hw Hsizes.
  pose proof (Lzma2FrameSyncProofs.lzma2_frame_sync lc lp pb dict None data evs stream Hdict Hne Hw) as Hck.
  cbn [Lzma2FrameSyncProofs.start_level Lzma2FrameSyncProofs.preset_list] in Hck.
  unfold lzma2_new, lzma2_get_dict_size. cbn [obind]. fold (l2_window_size dict).
  eexists. split; [reflexivity|]. intros fuel Hf.
  set (h0 := ehist_new dict [] data) in *.
  assert (Hws : 0 < l2_window_size dict /\ l2_window_size dict mod 16 = 0 /\ dict <= l2_window_size dict)
    by (unfold l2_window_size; lia).
  destruct Hws as (Hws1 & Hws2 & Hws3).
  assert (Hdata : forall i, 0 <= aget 0 (h_data h0) i < 256).
  { intros i. apply (data_ok_new dict [] data eq_refl Hbytes i). }
  match goal with |- exists s_end, lzma2_read_all _ ?s0 _ _ _ = _ /\ _ =>
    assert (HI : Lzma2ReadProofs.Inv lc lp pb dict (l2_window_size dict) tail (h_data h0) (h_total h0) true s0 (data_from h0))
  end.
  { left. exists RDict, h0, stream. split; [exact Hck|]. split; [|split; reflexivity].
    unfold Lzma2ReadProofs.at_boundary.
    cbn [m_in m_win m_rc m_probs m_coder m_uncompressed_size m_is_lzma_chunk m_need_dict_reset m_need_props m_end_reached m_error].
    split; [reflexivity|]. split; [reflexivity|]. split; [reflexivity|]. split; [reflexivity|].
    split; [split; [exact I|]; split; intros _; reflexivity|].
    split; [|unfold hfix; repeat split; reflexivity].
    unfold sync_win, lzwin_new. cbn [w_size w_pending_len].
    split; [reflexivity|]. split; [reflexivity|].
    unfold h0, ehist_new. rewrite preset_kept_nil. cbn [h_base h_pos]. split; [reflexivity | lia]. }
  assert (Hdf : data_from h0 = data) by (unfold h0; apply data_from_new). rewrite Hdf in HI.
  destruct (Lzma2Loop0Proofs.read_all_ok0 _ _ tail
              (Lzma2ReadProofs.Inv_live lc lp pb dict (l2_window_size dict) tail (h_data h0) (h_total h0) true)
              (Lzma2ReadProofs.iter_step lc lp pb dict (l2_window_size dict) tail (h_data h0) (h_total h0)
                 Hlc Hlp Hs Hpb Hdict Hws3 Hws1 Hws2 Hdata)
              (Lzma2ReadProofs.Inv_live lc lp pb dict (l2_window_size dict) tail (h_data h0) (h_total h0) true)
              (Lzma2ReadProofs.iter_step0 lc lp pb dict (l2_window_size dict) tail (h_data h0) (h_total h0)
                 Hlc Hlp Hs Hpb Hdict Hws3 Hws1 Hws2 Hdata true)
              fuel _ data sizes sizes [] HI Hsizes Hsizes Hf) as (s_end & Hr & (E1 & E2 & E3)).
  exists s_end. cbn [rev app] in Hr. auto.
Qed.

(* ---- what the writer model writes consists of bytes ------------------------------------------------ *)
Lemma enc_symbol_hist c h x evs c1 h1 : enc_symbol c h x = Ok (evs, c1, h1) ->
  h_data h1 = h_data h /\ h_dict h1 = h_dict h.
Proof.
  intros Hs. unfold enc_symbol in Hs. apply obind_ok in Hs as (km & _ & Hs).
  destruct x as [b|dist len|idx len|].
  - destruct (negb _); [discriminate|]. apply obind_ok in Hs as (? & _ & Hs). apply obind_ok in Hs as (? & _ & Hs).
    apply Ok_inj in Hs. apply pair_inj in Hs as [_ <-]. split; reflexivity.
  - destruct (negb _); [discriminate|]. apply obind_ok in Hs as (? & _ & Hs). apply obind_ok in Hs as (? & _ & Hs).
    apply Ok_inj in Hs. apply pair_inj in Hs as [_ <-]. split; reflexivity.
  - apply obind_ok in Hs as (? & _ & Hs). apply obind_ok in Hs as (? & _ & Hs). destruct (negb _); [discriminate|].
    apply Ok_inj in Hs. apply pair_inj in Hs as [_ <-]. split; reflexivity.
  - apply obind_ok in Hs as (? & _ & Hs). apply obind_ok in Hs as (? & _ & Hs).
    apply Ok_inj in Hs. apply pair_inj in Hs as [_ <-]. split; reflexivity.
Qed.

Lemma enc_syms_hist syms : forall c h evs c' h', enc_syms c h syms = Ok (evs, c', h') ->
  h_data h' = h_data h /\ h_dict h' = h_dict h.
Proof.
  induction syms as [|x r IH]; intros c h evs c' h' He; cbn [enc_syms] in He.
  - apply Ok_inj in He. apply pair_inj in He as [_ <-]. split; reflexivity.
  - apply obind_ok in He as ([[e1 c1] h1] & Hs & He). cbn [fst snd] in He.
    apply obind_ok in He as ([[e2 c2] h2] & Hrs & He). cbn [fst snd] in He.
    apply Ok_inj in He. apply pair_inj in He as [_ <-].
    destruct (enc_symbol_hist _ _ _ _ _ _ Hs) as (A1 & A2). destruct (IH _ _ _ _ _ Hrs) as (B1 & B2).
    split; congruence.
Qed.

Lemma aget_list_bytes t : (forall i, 0 <= aget 0 t i < 256) -> forall n i, bytes_ok (aget_list t i n) = true.
Proof.
  intros Ht. induction n as [|k IH]; intros i; cbn [aget_list]; [reflexivity|].
  apply bytes_ok_cons. split; [apply Ht | apply IH].
Qed.

Lemma wrap8_byte x : 0 <= wrap8 x < 256.
Proof. unfold wrap8. apply Z.mod_pos_bound. lia. Qed.

Lemma chunks_ok_bytes lc lp pb r h bytes : chunks_ok lc lp pb r h bytes ->
  (forall i, 0 <= aget 0 (h_data h) i < 256) -> h_dict h <= 2147483648 ->
  match r with RNone _ t => probs_ok t | _ => True end ->
  bytes_ok bytes = true.
Proof.
  induction 1 as [r h He | r h bytes _ IH | r h n bytes Hn Hle Hck IH | r h syms E c' h' usize csize bytes
                  Hne Hs Hp Hbits Hu Hur Hc Hcr Hck IH]; intros Hd Hdict Hr.
  - reflexivity.
  - apply IH; [exact Hd | exact Hdict | exact I].
  - apply bytes_ok_app. split.
    { unfold unc_header. apply bytes_ok_cons. split; [destruct r; cbn; lia|].
      apply bytes_ok_cons. split; [apply wrap8_byte|]. apply bytes_ok_cons. split; [apply wrap8_byte | reflexivity]. }
    apply bytes_ok_app. split; [apply aget_list_bytes; exact Hd|].
    apply IH; [exact Hd | exact Hdict | destruct r; exact I].
  - destruct (enc_syms_hist _ _ _ _ _ _ Hs) as (Hdata' & Hdict').
    assert (Ht0 : probs_ok (start_probs r)) by (destruct r; cbn [start_probs]; try exact probs_ok_empty; exact Hr).
    assert (Hok : forallb RangeEncProofs.ev_ok E = true).
    { rewrite forallb_ev_ok_same. eapply enc_syms_events_ok; [|exact Hs]. exact Hdict. }
    apply bytes_ok_app. split.
    { unfold lzma_header. apply bytes_ok_app. split.
      - repeat (apply bytes_ok_cons; split; [apply wrap8_byte|]). reflexivity.
      - destruct (has_props r); [|reflexivity]. apply bytes_ok_cons. split; [apply wrap8_byte | reflexivity]. }
    apply bytes_ok_app. split.
    { unfold chunk_body. apply renc_output_bytes_ok; assumption. }
    apply IH; [rewrite Hdata'; exact Hd | rewrite Hdict'; exact Hdict|].
    unfold RC_MAX_BITS in Hbits.
    apply (renc_events_ok E renc_init (start_probs r) renc_inv_init Ht0 Hok). cbn [renc_init re_cache_size]. lia.
Qed.

Lemma lzma2_write_bytes lc lp pb dict data evs stream : dict <= 2147483648 -> bytes_ok data = true ->
  l2_no_end evs -> lzma2_write lc lp pb dict None data evs = Ok stream -> bytes_ok stream = true.
Proof.
  intros Hdict Hb Hne Hw.
  pose proof (lzma2_frame_sync lc lp pb dict None data evs stream Hdict Hne Hw) as Hck.
  cbn [start_level preset_list] in Hck.
  apply (chunks_ok_bytes lc lp pb _ _ _ Hck).
  - intros i. apply (data_ok_new dict [] data eq_refl Hb i).
  - exact Hdict.
  - exact I.
Qed.

(* a reader that demands a dictionary reset accepts only a dictionary-reset chunk *)
Lemma astep_first_indep ds d k r : d_need_dict_reset d = true -> astep ds d k = Some r -> chunk_independent k = true.
Proof.
  intros Hd H. unfold astep in H. destruct (c_bytes k) as [|c b]; [discriminate|].
  destruct (Z.eqb_spec c (c_ctrl k)) as [->|]; [|discriminate]. cbn [negb] in H.
  unfold chunk_independent. rewrite Hd in H.
  destruct ((224 <=? c_ctrl k) || (c_ctrl k =? 1)); [reflexivity | discriminate].
Qed.

Definition starts_indep (ks : list chunk) : Prop :=
  match ks with [] => True | k :: _ => chunk_independent k = true end.

Lemma run_indep_start ds d0 d ks : starts_indep ks -> ks <> [] ->
  run_chunks dstate (astep ds) d ks = run_chunks dstate (astep ds) d0 ks.
Proof.
  destruct ks as [|k t]; [congruence|]. intros Hk _. cbn [run_chunks].
  rewrite (astep_indep ds d0 d k Hk). reflexivity.
Qed.

Lemma run_concat ds d0 : forall kss datas,
  Forall2 (fun ks data => starts_indep ks /\ decode_chunks dstate (astep ds) d0 ks = Some data) kss datas ->
  forall d, exists d1, run_chunks dstate (astep ds) d (concat kss) = Some (d1, concat datas).
Proof.
  induction 1 as [|ks data kss datas (Hs & Hd) _ IH]; intros d; cbn [concat].
  - exists d. reflexivity.
  - rewrite run_app. unfold decode_chunks in Hd.
    destruct ks as [|k t].
    + cbn [run_chunks] in Hd |- *. inversion Hd; subst data. destruct (IH d) as (d1 & ->). exists d1. reflexivity.
    + rewrite (run_indep_start ds d0 d (k :: t) Hs ltac:(discriminate)).
      destruct (run_chunks dstate (astep ds) d0 (k :: t)) as [[d2 o2]|]; [|discriminate]. inversion Hd; subst o2.
      destruct (IH d2) as (d1 & ->). exists d1. reflexivity.
Qed.

Lemma flat_concat kss : flat (concat kss) = concat (map flat kss).
Proof. induction kss as [|ks t IH]; [reflexivity|]. cbn [concat map]. rewrite flat_app, IH. reflexivity. Qed.

(* one unit: its body is a chunk sequence that decodes from the initial state to the unit's data *)
Lemma unit_adecode lc lp pb dict data evs body :
  0 <= lc -> 0 <= lp -> lc + lp <= 4 -> 0 <= pb <= 4 -> dict <= 2147483648 ->
  mt_unit_written lc lp pb dict (data, evs, body) ->
  exists ks, body = flat ks /\ Forall chunk_stable ks /\ starts_indep ks /\
             decode_chunks dstate (astep (l2_wsize dict)) (d_init (l2_wsize dict) None) ks = Some data.
Proof.
  intros Hlc Hlp Hs Hpb Hdict (Hbd & Hne & Hw).
  assert (Hbb : bytes_ok body = true).
  { pose proof (lzma2_write_bytes lc lp pb dict data evs _ Hdict Hbd Hne Hw) as X. apply bytes_ok_app in X. apply X. }
  destruct (lzma2_roundtrip_ended lc lp pb dict data evs (body ++ [0]) [] [1] Hlc Hlp Hs Hpb Hdict Hbd Hne Hw
              ltac:(constructor; [lia | constructor])) as (s0 & Hnew & Hrun).
  destruct (Hrun (length data + 2)%nat ltac:(lia)) as (s_end & Hr & He & Hin).
  rewrite app_nil_r in Hnew.
  assert (Hbs : bytes_ok (body ++ [0]) = true) by (apply bytes_ok_app; split; [exact Hbb | reflexivity]).
  destruct (reader_complete dict None (body ++ [0]) [1] _ s0 data 0 s_end Hbs Hnew
              ltac:(constructor; [lia | constructor]) Hr He) as (Ha & _).
  rewrite Hin in Ha.
  destruct (adecode_inv _ _ _ _ _ Ha) as (ks & Hb & Hst & Hdec).
  exists ks. split; [apply (app_inv_tail [0]); exact Hb|]. split; [exact Hst|]. split; [|exact Hdec].
  destruct ks as [|k t]; [exact I|]. unfold decode_chunks in Hdec. cbn [run_chunks] in Hdec. cbn [starts_indep].
  destruct (astep (l2_wsize dict) (d_init (l2_wsize dict) None) k) as [r|] eqn:E; [|discriminate].
  eapply astep_first_indep; [|exact E]. reflexivity.
Qed.

(* What LZMA2WriterMT emits (the units' bodies in order, one end marker) decodes - by the
   single-threaded reader, for every history of destination sizes - to the units' data in order. *)
Theorem lzma2_mt_writer_data lc lp pb dict us tail :
  0 <= lc -> 0 <= lp -> lc + lp <= 4 -> 0 <= pb <= 4 -> dict <= 2147483648 ->
  Forall (mt_unit_written lc lp pb dict) us -> bytes_ok tail = true ->
  forall sizes fuel, pos_sizes sizes -> (length (mt_data us) + 2 <= fuel)%nat ->
  exists s0 s_end, lzma2_new (mt_bodies us ++ 0 :: tail) dict None = Ok s0 /\
    lzma2_read_all fuel s0 sizes sizes [] = Ok (mt_data us, 0, s_end) /\
    m_end_reached s_end = true /\ m_error s_end = None /\ m_in s_end = tail.
Proof.
  intros Hlc Hlp Hs Hpb Hdict Hus Htail.
  set (ds := l2_wsize dict). set (d0 := d_init ds None).
  assert (HK : exists kss, map snd us = map flat kss /\ Forall (Forall chunk_stable) kss /\
             Forall2 (fun ks data => starts_indep ks /\ decode_chunks dstate (astep ds) d0 ks = Some data)
                     kss (map (fun u => fst (fst u)) us)).
  { induction Hus as [|[[data evs] body] us Hu _ IH].
    - exists []. split; [reflexivity|]. split; constructor.
    - destruct IH as (kss & E1 & E2 & E3).
      destruct (unit_adecode lc lp pb dict data evs body Hlc Hlp Hs Hpb Hdict Hu) as (ks & Hb & Hst & Hsi & Hdec).
      exists (ks :: kss). cbn [map snd fst]. split; [rewrite Hb, E1; reflexivity|].
      split; [constructor; assumption|]. constructor; [split; assumption | exact E3]. }
  destruct HK as (kss & E1 & E2 & E3).
  assert (Hbod : mt_bodies us = flat (concat kss)) by (unfold mt_bodies; rewrite E1, flat_concat; reflexivity).
  assert (Hstab : Forall chunk_stable (concat kss)).
  { clear -E2. induction E2 as [|ks kss H _ IH]; [constructor|]. cbn [concat]. apply Forall_app. split; assumption. }
  assert (Hbytes : bytes_ok (mt_bodies us ++ 0 :: tail) = true).
  { apply bytes_ok_app. split.
    - unfold mt_bodies. clear -Hus Hdict. induction Hus as [|[[data evs] body] us (Hbd & Hne & Hw) _ IH]; [reflexivity|].
      cbn [map snd concat]. apply bytes_ok_app. split; [|exact IH].
      pose proof (lzma2_write_bytes lc lp pb dict data evs _ Hdict Hbd Hne Hw) as X. apply bytes_ok_app in X. apply X.
    - apply bytes_ok_cons. split; [lia | exact Htail]. }
  destruct (run_concat ds d0 kss _ E3 d0) as (d1 & Hrun).
  assert (Ha : adecode ds d0 (mt_bodies us ++ 0 :: tail) = Some (mt_data us, tail)).
  { rewrite Hbod, (adecode_flat ds d0 _ tail Hstab). unfold decode_chunks. rewrite Hrun. reflexivity. }
  intros sizes fuel Hsz Hf.
  exact (reader_sound dict None _ _ tail Hbytes Ha sizes fuel Hsz Hf).
Qed.

(* writer and reader multi-threaded: the units LZMA2ReaderMT cuts from what LZMA2WriterMT wrote
   decode, each by a fresh reader, to pieces that concatenate to the written data *)
Theorem lzma2_mt_writer_mt_reader lc lp pb dict us tail :
  0 <= lc -> 0 <= lp -> lc + lp <= 4 -> 0 <= pb <= 4 -> dict <= 2147483648 ->
  Forall (mt_unit_written lc lp pb dict) us -> bytes_ok tail = true ->
  cr_end (cut_lzma2 (mt_bodies us ++ 0 :: tail)) = None /\
  exists datas, Forall2 (fun u du => l2_decodes u dict None du) (cr_units (cut_lzma2 (mt_bodies us ++ 0 :: tail))) datas /\
                concat datas = mt_data us.
Proof.
  intros Hlc Hlp Hs Hpb Hdict Hus Htail.
  destruct (lzma2_mt_writer_data lc lp pb dict us tail Hlc Hlp Hs Hpb Hdict Hus Htail [1] (length (mt_data us) + 2)%nat
              ltac:(constructor; [lia | constructor]) ltac:(lia)) as (s0 & s_end & Hnew & Hr & _).
  assert (Hb : bytes_ok (mt_bodies us ++ 0 :: tail) = true).
  { apply bytes_ok_app. split.
    - unfold mt_bodies. clear -Hus Hdict. induction Hus as [|[[data evs] body] us (Hbd & Hne & Hw) _ IH]; [reflexivity|].
      cbn [map snd concat]. apply bytes_ok_app. split; [|exact IH].
      pose proof (lzma2_write_bytes lc lp pb dict data evs _ Hdict Hbd Hne Hw) as X. apply bytes_ok_app in X. apply X.
    - apply bytes_ok_cons. split; [lia | exact Htail]. }
  apply (lzma2_mt_reader_data dict None _ [1] (length (mt_data us) + 2)%nat (mt_data us) s_end Hb
           ltac:(constructor; [lia | constructor])).
  unfold l2_read_result. rewrite Hnew. cbn [obind]. exact Hr.
Qed.

(* ---- the two closed forms of the chunk-level statements ------------------------------------------ *)
Theorem astep_indep_init : forall (ds : Z) (preset : option (list Z)) (d : dstate) (k : chunk),
  chunk_independent k = true -> astep ds d k = astep ds (d_init ds preset) k.
Proof. intros ds preset. exact (astep_indep ds (d_init ds preset)). Qed.

Theorem lzma2_unit_cut_sound : forall (ds : Z) (preset : option (list Z)) (ks : list chunk),
  decode_units dstate (astep ds) (d_init ds preset) (cut_chunks ks) =
  decode_chunks dstate (astep ds) (d_init ds preset) ks.
Proof.
  intros ds preset. exact (unit_cut_sound dstate (astep ds) (d_init ds preset) (astep_indep ds (d_init ds preset))).
Qed.

(* ---- helpers for the evaluated examples of Properties/C08Units.v ------------------------------------ *)
Definition ex_done (r : outcome (list Z * Z * lzma2)) : option (list Z * Z * bool) :=
  match r with Ok (d, st, s) => Some (d, st, m_end_reached s) | _ => None end.
Definition ex_body : list Z := removelast ex_stream.
Definition ex_units : list (list Z * list l2ev * list Z) := [(ex_data, ex_evs, ex_body); (ex_data, ex_evs, ex_body)].
