(* Mt/LzipUnitsProofs.v — the data side of LZIPReaderMT / LZIPWriterMT with the concrete LZMA
   payload codec: a file of members m_1 .. m_n (what LZIPWriterMT writes: one member per work
   unit; any concatenation of members)
     * is cut by the backward scan of LZIPReaderMT exactly into its members,
     * each member alone is decoded by a fresh LZIPReader to its own content (the worker's job),
     * and the single-threaded reader decodes the file to the concatenation of the contents.
   Restatement of C12_lzip_multi_lzma1 (Format/ComposeProofs.v) member by member, plus the
   well-formedness that lzip_scan_sound (Mt/UnitsProofs.v) asks for. *)
From LzVerif Require Import Base.Bytes Codec.LzmaEnc Format.Crc Format.CrcProofs Format.XzFormat Format.LzipFormat
  Format.LzipDict Format.XzHeaderProofs Format.LzipProofs Format.PayloadLzma1Proofs Format.ContainerCondProofs
  Format.ComposeProofs Mt.Units Mt.UnitsProofs.
Ltac Zify.zify_post_hook ::= Z.div_mod_to_equations.
Local Open Scope Z_scope.

Lemma skipn_app_len {A} (a b : list A) n : n = length a -> skipn n (a ++ b) = b.
Proof. intros ->. rewrite skipn_app, Nat.sub_diag, skipn_all. reflexivity. Qed.

(* a member written by the writer model is well formed in the sense of the backward scan *)
Lemma lm_bytes_wf penc m : lm_ok penc m -> wf_member (lm_bytes penc m).
Proof.
  intros (_ & _ & _ & Hp64). unfold wf_member, lm_bytes, lz_member.
  set (payload := penc (lm_dict m) (lm_content m)) in *.
  assert (Hlen : zlen (LZIP_MAGIC ++ [1; lm_byte m] ++ payload ++ le_bytes 4 (crc32 (lm_content m)) ++
                       le_bytes 8 (zlen (lm_content m)) ++
                       le_bytes 8 (LZIP_HEADER_SIZE + zlen payload + LZIP_TRAILER_SIZE)) = 26 + zlen payload).
  { rewrite !UnitsProofs.zlen_app, !zlen_le_bytes. unfold LZIP_MAGIC, zlen. cbn [length]. lia. }
  assert (Hpn : 0 <= zlen payload) by (unfold zlen; lia).
  split; [rewrite Hlen; lia|]. split; [reflexivity|].
  rewrite Hlen.
  rewrite !app_assoc.
  rewrite skipn_app_len.
  - unfold LZIP_HEADER_SIZE, LZIP_TRAILER_SIZE. rewrite le_value_bytes; [lia|].
    change (256 ^ Z.of_nat 8) with (2 ^ 64). lia.
  - rewrite app_length, le_bytes_length. lia.
Qed.

Section Lzip.
  Variable ch : Z -> list Z -> list sym.
  Variable calls : nat.

  Theorem lzip_units_data : forall m ms,
    Forall (lm_ok_l1 ch calls) (m :: ms) ->
    scan_members (lm_file (l1_penc ch) (m :: ms)) = Ok (member_table 0 (map (lm_bytes (l1_penc ch)) (m :: ms))) /\
    Forall (fun x => lz_decode (lzip_payload_dec_n calls) lz_fixed (lm_bytes (l1_penc ch) x) = Ok (lm_content x, []))
           (m :: ms) /\
    lz_decode (lzip_payload_dec_n calls) lz_fixed (lm_file (l1_penc ch) (m :: ms)) =
      Ok (concat (map lm_content (m :: ms)), []).
  Proof.
    intros m ms Hok. split; [|split].
    - unfold lm_file. apply lzip_scan_sound; [discriminate|].
      apply Forall_map. eapply Forall_impl; [|exact Hok]. intros x (Hx & _). apply lm_bytes_wf. exact Hx.
    - eapply Forall_impl; [|exact Hok]. intros x Hx.
      pose proof (C12_lzip_multi_lzma1_thm ch calls x [] (Forall_cons _ Hx (Forall_nil _))) as H.
      unfold lm_file, lm_data in H. cbn [map concat] in H. rewrite !app_nil_r in H. exact H.
    - exact (C12_lzip_multi_lzma1_thm ch calls m ms Hok).
  Qed.
End Lzip.
