(* Mt/UnitsProofs.v — lemmas about the unit-cutting functions of Mt/Units.v. *)
From LzVerif Require Import Base.Bytes Mt.Units.
Local Open Scope nat_scope.

(* ---------------- writers ---------------- *)
(* everything written so far = dispatched units (oldest first) ++ current_work_unit *)
Definition written (st : wstate) : list Z := concat (rev (snd st)) ++ rev (fst st).

Lemma feed_byte_written size st b : written (feed_byte size st b) = written st ++ [b].
Proof.
  unfold feed_byte, written. destruct st as [cur acc]; cbn [fst snd].
  destruct (Nat.eqb (length (b :: cur)) size); cbn [fst snd rev app].
  - rewrite concat_app. cbn [concat]. rewrite !app_nil_r. rewrite <- app_assoc. reflexivity.
  - rewrite <- app_assoc. reflexivity.
Qed.

Lemma feed_written size buf : forall st, written (feed size st buf) = written st ++ buf.
Proof.
  unfold feed. induction buf as [|b t IH]; intros st; simpl; [rewrite app_nil_r; reflexivity|].
  rewrite IH, feed_byte_written, <- app_assoc. reflexivity.
Qed.

Lemma units_of_concat st : concat (units_of st) = written st.
Proof.
  unfold units_of, flush_units, written. destruct st as [cur acc]; simpl.
  destruct cur as [|b t]; simpl.
  - rewrite app_nil_r. reflexivity.
  - rewrite concat_app. simpl. rewrite app_nil_r. reflexivity.
Qed.

(* the units, concatenated, are the data *)
Theorem cut_fixed_concat size data : 0 < size -> concat (cut_fixed size data) = data.
Proof. intros _. unfold cut_fixed. rewrite units_of_concat, feed_written. reflexivity. Qed.

Lemma feed_app size a b st : feed size st (a ++ b) = feed size (feed size st a) b.
Proof. unfold feed. apply fold_left_app. Qed.

Lemma fold_feed_concat size parts : forall st, fold_left (feed size) parts st = feed size st (concat parts).
Proof.
  induction parts as [|p t IH]; intros st; simpl; [reflexivity|].
  rewrite IH, feed_app. reflexivity.
Qed.

(* the units do not depend on how the data was split into write() calls *)
Theorem cut_writes_partition size parts : 0 < size -> cut_writes size parts = cut_fixed size (concat parts).
Proof. intros _. unfold cut_writes, cut_fixed. rewrite fold_feed_concat. reflexivity. Qed.

(* with flushes: still a partition of the data, whatever the history *)
Lemma hist_written size h : forall st,
  written (fold_left (hist_step size) h st) =
  written st ++ concat (map (fun o => match o with inl b => b | inr _ => [] end) h).
Proof.
  induction h as [|o t IH]; intros st; simpl; [rewrite app_nil_r; reflexivity|].
  rewrite IH. destruct o as [b|u]; simpl.
  - rewrite feed_written, <- app_assoc. reflexivity.
  - f_equal. unfold flush_units, written. destruct st as [cur acc]; simpl.
    destruct cur; simpl; [reflexivity|]. rewrite concat_app. simpl. rewrite !app_nil_r. reflexivity.
Qed.

Theorem cut_history_concat size h :
  concat (cut_history size h) = concat (map (fun o => match o with inl b => b | inr _ => [] end) h).
Proof. unfold cut_history. rewrite units_of_concat, hist_written. reflexivity. Qed.

(* every dispatched unit is non-empty and at most [size] bytes long; the units sent by write()
   itself have exactly [size] bytes *)
Definition st_ok (size : nat) (st : wstate) : Prop :=
  length (fst st) < size /\ Forall (fun u => 0 < length u <= size) (snd st).

Lemma feed_byte_ok size st b : 0 < size -> st_ok size st -> st_ok size (feed_byte size st b).
Proof.
  intros Hs [Hc Ha]. unfold feed_byte, st_ok. destruct st as [cur acc]; cbn [fst snd] in *.
  destruct (Nat.eqb_spec (length (b :: cur)) size); cbn [fst snd length] in *.
  - split; [lia|]. constructor; [|assumption]. rewrite rev_length. cbn [length]. lia.
  - split; [lia|assumption].
Qed.

Lemma feed_ok size buf : 0 < size -> forall st, st_ok size st -> st_ok size (feed size st buf).
Proof.
  intros Hs. unfold feed. induction buf as [|b t IH]; intros st H; simpl; [assumption|].
  apply IH. apply feed_byte_ok; assumption.
Qed.

Theorem cut_fixed_sizes size data : 0 < size -> Forall (fun u => 0 < length u <= size) (cut_fixed size data).
Proof.
  intros Hs. unfold cut_fixed, units_of.
  assert (H : st_ok size (feed size ([], []) data)) by (apply feed_ok; [assumption|split; simpl; [lia|constructor]]).
  destruct H as [Hc Ha]. unfold flush_units. destruct (feed size ([], []) data) as [cur acc]; simpl in *.
  apply Forall_rev. destruct cur as [|b t]; simpl; [assumption|].
  constructor; [|assumption]. rewrite app_length, rev_length. cbn [length] in *. lia.
Qed.

(* ---------------- LZMA2 reader, chunk level ---------------- *)
Section Decode.
Variable D : Type.
Variable step : D -> chunk -> option (D * list Z).
Variable d0 : D.
(* the state of the decoder after a dictionary-reset chunk does not depend on the state before it *)
Hypothesis indep : forall d k, chunk_independent k = true -> step d k = step d0 k.

Notation run := (run_chunks D step).

Lemma run_app d a b :
  run d (a ++ b) = match run d a with
                   | None => None
                   | Some (d1, o1) => match run d1 b with None => None | Some (d2, o2) => Some (d2, o1 ++ o2) end
                   end.
Proof.
  revert d; induction a as [|k t IH]; intros d; simpl.
  - destruct (run d b) as [[d2 o2]|]; reflexivity.
  - destruct (step d k) as [[d1 o1]|]; [|reflexivity]. rewrite IH.
    destruct (run d1 t) as [[d2 o2]|]; [|reflexivity].
    destruct (run d2 b) as [[d3 o3]|]; [|reflexivity]. rewrite app_assoc. reflexivity.
Qed.

Lemma cut_go_sound chunks : forall cur,
  decode_units D step d0 (cut_go cur chunks) =
  match run d0 cur with
  | None => None
  | Some (dc, oc) => match run dc chunks with None => None | Some (_, ot) => Some (oc ++ ot) end
  end.
Proof.
  induction chunks as [|k t IH]; intros cur; simpl.
  - destruct (run d0 cur) as [[dc oc]|]; reflexivity.
  - destruct (chunk_independent k && negb (is_nil cur)) eqn:E.
    + apply andb_true_iff in E. destruct E as [Ei _]. simpl. rewrite IH. simpl.
      destruct (run d0 cur) as [[dc oc]|]; [|reflexivity].
      rewrite (indep dc k Ei). destruct (step d0 k) as [[d1 o1]|]; [|reflexivity]. simpl.
      destruct (run d1 t) as [[d2 o2]|]; [|reflexivity]. rewrite app_nil_r. reflexivity.
    + rewrite IH, run_app. destruct (run d0 cur) as [[dc oc]|]; [|reflexivity]. simpl.
      destruct (step dc k) as [[d1 o1]|]; [|reflexivity].
      destruct (run d1 t) as [[d2 o2]|]; [|reflexivity]. rewrite app_nil_r, app_assoc. reflexivity.
Qed.

(* decoding the units one by one with a fresh decoder each (carrying the same preset dictionary),
   in order, gives exactly what the single decoder gives on the whole sequence — including the
   error case; dependent chunks stay in one unit; the first chunk need not be independent *)
Theorem unit_cut_sound chunks :
  decode_units D step d0 (cut_chunks chunks) = decode_chunks D step d0 chunks.
Proof. unfold cut_chunks, decode_chunks. rewrite cut_go_sound. simpl. destruct (run d0 chunks) as [[d o]|]; reflexivity. Qed.
End Decode.

(* every unit but possibly the first starts with a dictionary-reset chunk, and no unit contains
   one after its first chunk: units are as fine as the format allows *)
Definition unit_ok (first : bool) (u : list chunk) : Prop :=
  match u with
  | [] => first = true
  | k :: t => (first = true \/ chunk_independent k = true) /\ Forall (fun k' => chunk_independent k' = false) t
  end.

(* ---------------- examples (non-vacuity, and the shapes the harness exercises) ---------------- *)
Example cut_fixed_example : cut_fixed 3 [1;2;3;4;5;6;7]%Z = [[1;2;3];[4;5;6];[7]]%Z.
Proof. reflexivity. Qed.
Example cut_history_example :
  cut_history 3 [inl [1;2]; inr tt; inl [3;4;5;6]; inl []; inr tt; inr tt]%Z = [[1;2];[3;4;5];[6]]%Z.
Proof. reflexivity. Qed.

(* two uncompressed chunks with dictionary reset, then one dependent uncompressed chunk, terminator *)
Example cut_lzma2_example :
  cut_lzma2 [1;0;1;104;105; 1;0;0;33; 2;0;0;34; 0]%Z =
  mkCut [[1;0;1;104;105;0]; [1;0;0;33;2;0;0;34;0]]%Z None [false; true; false; true].
Proof. reflexivity. Qed.
(* zero-length input: no unit, the source "ends cleanly" *)
Example cut_lzma2_empty : cut_lzma2 [] = mkCut [] None [false].
Proof. reflexivity. Qed.
(* missing terminator: the last unit is sent without its 0x00 *)
Example cut_lzma2_noterm : cut_lzma2 [1;0;0;33]%Z = mkCut [[1;0;0;33]]%Z None [false; true].
Proof. reflexivity. Qed.
(* truncated inside a chunk: the source fails *)
Example cut_lzma2_trunc : cut_lzma2 [1;0;0;33; 1;0]%Z = mkCut [[1;0;0;33;0]]%Z (Some E_UNEXPECTED_EOF) [false; true].
Proof. reflexivity. Qed.

(* ---------------- LZIP reader: scan_members ---------------- *)
Local Open Scope Z_scope.

Lemma skipn_skipn_ {A} (a b : nat) (l : list A) : skipn a (skipn b l) = skipn (b + a) l.
Proof.
  revert l; induction b as [|b IH]; intros l; simpl; [reflexivity|].
  destruct l as [|x t]; [destruct a; reflexivity|]. apply IH.
Qed.

(* a slice that lies inside the middle part of a concatenation *)
Lemma slice_mid (a m b : list Z) (off len : Z) :
  0 <= off -> 0 <= len -> off + len <= zlen m ->
  slice (a ++ m ++ b) (zlen a + off) len = Some (firstn (Z.to_nat len) (skipn (Z.to_nat off) m)).
Proof.
  intros Ho Hl Hb. unfold slice, zlen in *. rewrite !app_length, !Nat2Z.inj_add.
  destruct (Z.ltb_spec (Z.of_nat (length a) + off) 0); [lia|].
  destruct (Z.ltb_spec len 0); [lia|].
  destruct (Z.ltb_spec (Z.of_nat (length a) + (Z.of_nat (length m) + Z.of_nat (length b)))
                       (Z.of_nat (length a) + off + len)); [lia|].
  cbn [orb]. f_equal.
  replace (Z.to_nat (Z.of_nat (length a) + off)) with (length a + Z.to_nat off)%nat by lia.
  rewrite skipn_app.
  rewrite (skipn_all2 a) by lia. cbn [app].
  replace (length a + Z.to_nat off - length a)%nat with (Z.to_nat off) by lia.
  rewrite skipn_app, firstn_app.
  assert (L : (Z.to_nat len <= length (skipn (Z.to_nat off) m))%nat) by (rewrite skipn_length; lia).
  replace (Z.to_nat len - length (skipn (Z.to_nat off) m))%nat with 0%nat by lia.
  cbn [firstn]. rewrite app_nil_r. reflexivity.
Qed.

(* a well-formed member, as far as scan_members looks at it: at least header + trailer, the magic
   bytes, and the member_size field (last 8 bytes, little endian) holding the member's length *)
Definition wf_member (m : list Z) : Prop :=
  26 <= zlen m /\ firstn 4 m = [76; 90; 73; 80] /\
  le_value (skipn (length m - 8) m) = zlen m.

(* the member table of consecutive members starting at [start] *)
Fixpoint member_table (start : Z) (ms : list (list Z)) : list (Z * Z) :=
  match ms with
  | [] => []
  | m :: t => (start, zlen m) :: member_table (start + zlen m) t
  end.

Lemma member_table_app start a b :
  member_table start (a ++ b) = member_table start a ++ member_table (start + zlen (concat a)) b.
Proof.
  revert start; induction a as [|m t IH]; intros start; simpl.
  - unfold zlen; simpl. f_equal. lia.
  - rewrite IH. f_equal. f_equal. unfold zlen. rewrite app_length, Nat2Z.inj_add. f_equal. lia.
Qed.

Lemma zlen_app {A} (a b : list A) : zlen (a ++ b) = zlen a + zlen b.
Proof. unfold zlen. rewrite app_length. lia. Qed.

Lemma scan_go_sound : forall (pre suf : list (list Z)) fuel acc,
  Forall wf_member pre -> (length pre < fuel)%nat ->
  scan_go fuel (concat (pre ++ suf)) (zlen (concat pre)) acc = Ok (member_table 0 pre ++ acc).
Proof.
  intros pre. induction pre as [|m pre' IH] using rev_ind; intros suf fuel acc Hwf Hf.
  - destruct fuel; [simpl in Hf; lia|]. reflexivity.
  - destruct fuel as [|n]; [lia|]. rewrite app_length in Hf. cbn [length] in Hf.
    apply Forall_app in Hwf. destruct Hwf as [Hpre Hm]. inversion Hm as [|? ? [L26 [Hmagic Hsz]] _]; subst.
    (* the file as prefix ++ member ++ rest *)
    assert (Hfile : concat ((pre' ++ [m]) ++ suf) = concat pre' ++ m ++ concat suf).
    { rewrite !concat_app. cbn [concat]. rewrite app_nil_r, <- app_assoc. reflexivity. }
    assert (Hpm : zlen (concat (pre' ++ [m])) = zlen (concat pre') + zlen m).
    { rewrite concat_app. cbn [concat]. rewrite app_nil_r. apply zlen_app. }
    rewrite Hpm.
    set (P := zlen (concat pre')). set (M := zlen m).
    assert (HP : 0 <= P) by (unfold P, zlen; lia).
    cbn [scan_go].
    destruct (Z.leb_spec (P + M) 0); [lia|]. destruct (Z.ltb_spec (P + M) 20); [lia|].
    rewrite Hfile.
    replace (P + M - 20) with (P + (M - 20)) by lia.
    unfold P at 1. rewrite slice_mid by (fold M; lia).
    replace (Z.to_nat 20) with 20%nat by reflexivity.
    assert (H20 : firstn 20 (skipn (Z.to_nat (M - 20)) m) = skipn (Z.to_nat (M - 20)) m).
    { apply firstn_all2. rewrite skipn_length. unfold M, zlen in *. lia. }
    rewrite H20, skipn_skipn_.
    replace (Z.to_nat (M - 20) + 12)%nat with (length m - 8)%nat by (unfold M, zlen in *; lia).
    rewrite Hsz. fold M.
    destruct (Z.eqb_spec M 0); [lia|]. destruct (Z.ltb_spec (P + M) M); [lia|]. cbn [orb].
    replace (P + M - M) with (P + 0) by lia.
    unfold P at 1. rewrite slice_mid by (fold M; lia).
    change (Z.to_nat 4) with 4%nat. change (Z.to_nat 0) with 0%nat. cbn [skipn]. rewrite Hmagic.
    destruct (list_eq_dec Z.eq_dec [76; 90; 73; 80] [76; 90; 73; 80]) as [_|Hne]; [|congruence].
    replace (P + 0) with P by lia.
    assert (Hfile2 : concat pre' ++ m ++ concat suf = concat (pre' ++ m :: suf)).
    { rewrite concat_app. cbn [concat]. reflexivity. }
    rewrite Hfile2.
    unfold P. rewrite (IH (m :: suf) n ((zlen (concat pre'), M) :: acc) Hpre) by lia.
    rewrite member_table_app. cbn [member_table]. rewrite <- app_assoc. cbn [app].
    replace (0 + zlen (concat pre')) with (zlen (concat pre')) by lia. reflexivity.
Qed.

(* For a file that is the concatenation of well-formed members the backward scan returns exactly
   the member table, in forward order. *)
Theorem lzip_scan_sound (ms : list (list Z)) :
  ms <> [] -> Forall wf_member ms -> scan_members (concat ms) = Ok (member_table 0 ms).
Proof.
  intros Hne Hwf. unfold scan_members.
  assert (Hlen : 26 * Z.of_nat (length ms) <= zlen (concat ms)).
  { clear Hne. induction Hwf as [|m t [L _] _ IH]; [unfold zlen; simpl; lia|].
    cbn [concat length]. rewrite zlen_app. lia. }
  assert (Hpos : (0 < length ms)%nat) by (destruct ms; [congruence|simpl; lia]).
  destruct (Z.ltb_spec (zlen (concat ms)) 26); [lia|].
  pose proof (scan_go_sound ms [] (S (length (concat ms))) [] Hwf) as Hs.
  rewrite !app_nil_r in Hs. rewrite Hs by (unfold zlen in Hlen; lia).
  destruct ms as [|m t]; [congruence|]. reflexivity.
Qed.

Example lzip_scan_example :
  let m1 := [76;90;73;80;1;12] ++ repeatn 0 12 ++ [26;0;0;0;0;0;0;0] in
  let m2 := [76;90;73;80;1;12; 7;7;7] ++ repeatn 0 12 ++ [29;0;0;0;0;0;0;0] in
  wf_member m1 /\ wf_member m2 /\ scan_members (m1 ++ m2) = Ok [(0, 26); (26, 29)].
Proof. unfold wf_member; cbv; intuition congruence. Qed.
