(* Mt/ProtocolInv.v — structural invariants of the MT protocol model, valid for EVERY configuration
   (pinned or repaired code): thread bound, ownership of the queue mutex, the queue is empty while
   a worker is between "saw no item" and wait(), the closed flag / receiver follow the program
   point of the coordinator.  Proofs only. *)
From LzVerif Require Import Base.Bytes Mt.Protocol Mt.ProtocolLemmas.
Local Open Scope nat_scope.

Definition holds_lock {R} (w : wpc R) : bool := match w with WPop | WChk | WWait => true | _ => false end.
Definition sees_empty {R} (w : wpc R) : bool := match w with WChk | WWait => true | _ => false end.
Definition co_holds (p : cpc) : bool :=
  match p with CCloseStore _ | CCloseNotify _ | CCloseUnlock _ => true | _ => false end.
(* the coordinator is at or past close(): it will never dispatch again *)
Definition closing (p : cpc) : bool :=
  match p with
  | CCloseNotify _ | CCloseUnlock _ | CShut false | CCloseLock false | CCloseStore false | CDropRx | CDone => true
  | _ => false
  end.
Definition after_store (p : cpc) : bool :=
  match p with CCloseNotify _ | CCloseUnlock _ | CDropRx | CDone => true | _ => false end.
Definition lock_pc (p : cpc) : bool :=
  match p with CCloseLock _ | CCloseUnlock _ => true | _ => false end.

Section P.
Context {R : Type}.
Variable f : nat -> R + Z.
Implicit Types (s : state R) (c : cfg).

Record I1 c s : Prop := {
  i1_bound : length (ws s) <= maxw c;
  i1_spawn : forall d, pc s = CSpawn d -> length (ws s) < maxw c;
  i1_lock_w : forall i w, nth_opt (ws s) i = Some w -> holds_lock w = true -> q_lock s = Some (Wk i);
  i1_lock_o : forall i, q_lock s = Some (Wk i) -> exists w, nth_opt (ws s) i = Some w /\ holds_lock w = true;
  i1_lock_c : forall k, q_lock s = Some (Co k) -> k = 0 /\ fx_close c = true /\ co_holds (pc s) = true;
  i1_lock_c' : fx_close c = true -> co_holds (pc s) = true -> q_lock s = Some (Co 0);
  i1_empty : forall w, In w (ws s) -> sees_empty w = true -> q_items s = [];
  i1_rx : rx_alive s = false -> pc s = CDone;
  i1_closed : q_closed s = true -> closing (pc s) = true;
  i1_stored : after_store (pc s) = true -> q_closed s = true;
  i1_fx : lock_pc (pc s) = true -> fx_close c = true
}.

Lemma maxw_pos c : 1 <= maxw c. Proof. unfold maxw. lia. Qed.

Lemma lock_free_none s : lock_free s = true -> q_lock s = None.
Proof. unfold lock_free. destruct (q_lock s); [discriminate|reflexivity]. Qed.

Lemma holds_not_sleep (w : wpc R) : holds_lock w = true -> is_sleep w = false.
Proof. destruct w; simpl; congruence. Qed.
Lemma sees_holds (w : wpc R) : sees_empty w = true -> holds_lock w = true.
Proof. destruct w; simpl; congruence. Qed.

(* facts about the pre-state that most cases need *)
Ltac pre :=
  rw_pc;
  repeat match goal with
         | H : lock_free _ = true |- _ => apply lock_free_none in H
         end;
  split_andb.

Ltac ws_len := rewrite ?wake_one_length, ?wake_all_length, ?upd_nat_length, ?app_length; simpl.

Lemma step_i1_bound c s t s' : I1 c s -> step f c s t = Some s' -> length (ws s') <= maxw c.
Proof.
  intros [B S _ _ _ _ _ _ _ _ _] Hst. step_split t Hst; ws_len; try lia.
  specialize (S _ eq_refl). lia.
Qed.

Lemma step_i1_spawn c s t s' : I1 c s -> step f c s t = Some s' ->
  forall d, pc s' = CSpawn d -> length (ws s') < maxw c.
Proof.
  intros [B S _ _ _ _ _ _ _ _ _] Hst. step_split t Hst; intros d' Hd; ws_len;
    try discriminate; try congruence; pre; pc_cases; try discriminate; eauto.
Qed.

Lemma step_i1_lock_w c s t s' : I1 c s -> step f c s t = Some s' ->
  forall i w, nth_opt (ws s') i = Some w -> holds_lock w = true -> q_lock s' = Some (Wk i).
Proof.
  intros [_ _ LW LO LC LC' _ _ _ _ FX] Hst. step_split t Hst; intros j w Hn Hh; pre; eauto.
  (* coordinator *)
  all: try solve [
    match goal with
    | H : nth_opt (wake_one _ _) _ = Some _ |- _ =>
        apply wake_one_nth in H; destruct H as [H|[_ ->]]; [eauto|discriminate]
    | H : nth_opt (wake_all _) _ = Some _ |- _ =>
        apply wake_all_nth_cases in H; destruct H as [H|[_ ->]]; [eauto|discriminate]
    | H : nth_opt (_ ++ [_]) _ = Some _ |- _ =>
        apply nth_app_cases in H; destruct H as [H|[_ ->]]; [eauto|discriminate]
    end ].
  (* CCloseLock: nobody held the mutex; CCloseUnlock / CCloseNotify..: the coordinator held it *)
  all: try solve [ specialize (LW _ _ Hn Hh); congruence ].
  all: try solve [
    match goal with
    | H : nth_opt (wake_all _) _ = Some _ |- _ =>
        apply wake_all_nth_cases in H; destruct H as [H|[_ ->]]; [|discriminate];
        specialize (LW _ _ H Hh); rewrite LC' in LW by (auto; apply FX; auto);
        discriminate
    end ].
  all: try solve [ specialize (LW _ _ Hn Hh); rewrite LC' in LW by (auto; apply FX; auto); discriminate ].
  (* workers *)
  all: try solve [
    apply nth_upd_cases in Hn; destruct Hn as [[-> ->]|[Hne Hn]];
    [ try discriminate; try reflexivity; eauto
    | pose proof (LW _ _ Hn Hh) as L1; try (pose proof (LW _ _ Heqo eq_refl) as L2); try congruence; eauto ] ].
Qed.

Lemma step_i1_lock_o c s t s' : I1 c s -> step f c s t = Some s' ->
  forall i, q_lock s' = Some (Wk i) -> exists w, nth_opt (ws s') i = Some w /\ holds_lock w = true.
Proof.
  intros [_ _ LW LO LC LC' _ _ _ _ FX] Hst. step_split t Hst; intros j Hq; pre; try discriminate; eauto.
  all: try solve [ destruct (LO _ Hq) as (w & Hw & Hh); exists w; split; [|assumption];
                   first [ apply wake_one_keep; auto using holds_not_sleep
                         | apply wake_all_keep; auto using holds_not_sleep
                         | rewrite nth_opt_app_l; [assumption| eapply nth_opt_lt; eauto] ] ].
  all: try congruence.
  (* workers *)
  all: try solve [
    destruct (Nat.eq_dec j i) as [->|Hne];
    [ first [ eexists; split; [eapply nth_opt_upd_eq; eauto|reflexivity]
            | destruct (LO _ Hq) as (w & Hw & Hh); rewrite Heqo in Hw; inversion Hw; subst; discriminate ]
    | destruct (LO _ Hq) as (w & Hw & Hh); exists w; split; [rewrite nth_opt_upd_neq; auto|assumption] ] ].
  all: try solve [ inversion Hq; subst; eexists; split; [eapply nth_opt_upd_eq; eauto|reflexivity] ].
Qed.

Lemma step_i1_lock_c c s t s' : I1 c s -> step f c s t = Some s' ->
  forall k, q_lock s' = Some (Co k) -> k = 0 /\ fx_close c = true /\ co_holds (pc s') = true.
Proof.
  intros [_ _ LW LO LC LC' _ _ _ _ FX] Hst. step_split t Hst; intros k Hq; pre; try discriminate; try congruence.
  all: try solve [ destruct (LC _ Hq) as (? & ? & Hc); try discriminate Hc; auto; congruence ].
  all: try solve [ inversion Hq; subst; repeat split; auto ].
Qed.

Lemma step_i1_lock_c' c s t s' : I1 c s -> step f c s t = Some s' ->
  fx_close c = true -> co_holds (pc s') = true -> q_lock s' = Some (Co 0).
Proof.
  intros [_ _ LW LO LC LC' _ _ _ _ FX] Hst. step_split t Hst; intros Hfx Hc; pre; try discriminate; try congruence;
    pc_cases; try discriminate; auto.
  all: try solve [ apply LC'; auto ].
  (* workers: the coordinator holds the mutex, so no worker can take or release it *)
  all: try solve [ specialize (LC' Hfx Hc); first [congruence | specialize (LW _ _ Heqo eq_refl); congruence] ].
Qed.

Lemma step_i1_empty c s t s' : I1 c s -> step f c s t = Some s' ->
  forall w, In w (ws s') -> sees_empty w = true -> q_items s' = [].
Proof.
  intros [_ _ LW LO LC LC' EM _ _ _ _] Hst. step_split t Hst; intros w Hw Hs; pre; eauto.
  all: try solve [
    match goal with
    | H : In _ (wake_one _ _) |- _ => apply wake_one_In in H; destruct H as [H| ->]; [eauto|discriminate]
    | H : In _ (wake_all _) |- _ => apply wake_all_In in H; destruct H as [H| ->]; [eauto|discriminate]
    | H : In _ (_ ++ [_]) |- _ => apply in_app_iff in H; destruct H as [H|[<-|[]]]; [eauto|discriminate]
    end ].
  (* CPush: the mutex was free, so nobody is between pop and wait *)
  all: try solve [ destruct (In_nth_opt _ _ Hw) as [j Hj]; specialize (LW _ _ Hj (sees_holds _ Hs)); congruence ].
  (* workers *)
  all: try solve [ apply upd_nat_In in Hw; destruct Hw as [->|Hw]; [try discriminate; auto|eauto] ].
  all: try solve [ apply upd_nat_In in Hw; destruct Hw as [->|Hw]; [discriminate|];
                   specialize (EM _ Hw Hs); congruence ].
  all: try solve [ eapply EM; [eapply nth_opt_In; eauto|reflexivity] ].
Qed.

Lemma step_i1_rx c s t s' : I1 c s -> step f c s t = Some s' -> rx_alive s' = false -> pc s' = CDone.
Proof.
  intros [_ _ _ _ _ _ _ RX _ _ _] Hst. step_split t Hst; intros Hr; try discriminate; try reflexivity;
    try (specialize (RX Hr); congruence); auto.
Qed.

Lemma step_i1_closed c s t s' : I1 c s -> step f c s t = Some s' -> q_closed s' = true -> closing (pc s') = true.
Proof.
  intros [_ _ _ _ _ _ _ _ CLd _ _] Hst. step_split t Hst; intros Hc; try reflexivity;
    try (specialize (CLd Hc); try discriminate CLd); auto.
  all: try solve [ destruct fin; try discriminate; reflexivity ].
  all: try solve [ destruct (fx_close c); destruct fin; try discriminate; reflexivity ].
  all: try congruence; auto.
Qed.

Lemma step_i1_stored c s t s' : I1 c s -> step f c s t = Some s' -> after_store (pc s') = true -> q_closed s' = true.
Proof.
  intros [_ _ _ _ _ _ _ _ _ ST _] Hst. step_split t Hst; intros Hc; pre; try reflexivity; try discriminate;
    pc_cases; try discriminate; auto.
  all: try solve [ apply ST; reflexivity ].
  all: try solve [ destruct (fx_close c); discriminate ].
  all: try solve [ specialize (ST Hc); congruence ].
Qed.

Lemma step_i1_fx c s t s' : I1 c s -> step f c s t = Some s' -> lock_pc (pc s') = true -> fx_close c = true.
Proof.
  intros [_ _ _ _ _ _ _ _ _ _ FX] Hst. step_split t Hst; intros Hc; pre; try discriminate;
    pc_cases; try discriminate; auto.
  all: try solve [ destruct (fx_close c); [reflexivity|discriminate] ].
Qed.

Theorem inv_I1 c src p s : reachable f c src p s -> I1 c s.
Proof.
  apply reach_inv.
  - pose proof (maxw_pos c). constructor; unfold init; simpl; try discriminate; try tauto.
    + destruct (k_spawn_new c); simpl; lia.
    + intros i w H1 H2. destruct (k_spawn_new c).
      * destruct i; simpl in H1; [inversion H1; subst; discriminate|destruct i; discriminate].
      * destruct i; discriminate.
  - intros s0 t s' _ HI Hst. constructor.
    + eapply step_i1_bound; eauto.
    + eapply step_i1_spawn; eauto.
    + eapply step_i1_lock_w; eauto.
    + eapply step_i1_lock_o; eauto.
    + eapply step_i1_lock_c; eauto.
    + eapply step_i1_lock_c'; eauto.
    + eapply step_i1_empty; eauto.
    + eapply step_i1_rx; eauto.
    + eapply step_i1_closed; eauto.
    + eapply step_i1_stored; eauto.
    + eapply step_i1_fx; eauto.
Qed.

End P.
