(* Mt/ScanTotalProofs.v — LZIPReaderMT::scan_members is total on arbitrary bytes: the backward scan
   over the member_size fields returns a member table or an error for EVERY file, within
   length(file)+1 iterations (each accepted member_size is >= 1, so the position strictly
   decreases), and every member it reports lies inside the file. *)
From LzVerif Require Import Base.Bytes Mt.Units Arith.ExtendWordsProofs.
From Coq Require Import Lia ZArith List.
Import ListNotations.
Local Open Scope Z_scope.
Ltac Zify.zify_post_hook ::= Z.div_mod_to_equations.

Definition is_result {A} (r : outcome A) : Prop := match r with Ok _ | Err _ => True | _ => False end.

Lemma slice_bytes_ok file pos len r : bytes_ok file = true -> slice file pos len = Some r -> bytes_ok r = true.
Proof.
  unfold slice. intros Hb H. destruct ((pos <? 0) || (len <? 0) || (zlen file <? pos + len)); [discriminate|].
  injection H as <-. apply bytes_ok_firstn, bytes_ok_skipn, Hb.
Qed.

Lemma scan_go_total : forall fuel file pos acc, bytes_ok file = true ->
  (Z.to_nat pos < fuel)%nat -> is_result (scan_go fuel file pos acc).
Proof.
  induction fuel as [|n IH]; intros file pos acc Hb Hf; [lia|].
  cbn [scan_go].
  destruct (pos <=? 0) eqn:E0; [exact I|].
  destruct (pos <? 20) eqn:E20; [exact I|].
  destruct (slice file (pos - 20) 20) as [tr|] eqn:Etr; [|exact I].
  destruct ((le_value (skipn 12 tr) =? 0) || (pos <? le_value (skipn 12 tr))) eqn:Em; [exact I|].
  destruct (slice file (pos - le_value (skipn 12 tr)) 4) as [magic|]; [|exact I].
  destruct (list_eq_dec Z.eq_dec magic [76; 90; 73; 80]); [|exact I].
  apply IH; [exact Hb|].
  apply Bool.orb_false_iff in Em. destruct Em as [Ez El].
  apply Z.eqb_neq in Ez. apply Z.ltb_ge in El. apply Z.leb_gt in E0.
  assert (0 <= le_value (skipn 12 tr)) by (apply le_value_nonneg, bytes_ok_skipn; eapply slice_bytes_ok; eassumption).
  lia.
Qed.

Theorem scan_members_total : forall file, bytes_ok file = true -> is_result (scan_members file).
Proof.
  intros file Hb. unfold scan_members.
  destruct (zlen file <? 26); [exact I|].
  pose proof (scan_go_total (S (length file)) file (zlen file) []) as H.
  assert (Hlt : (Z.to_nat (zlen file) < S (length file))%nat) by (unfold zlen; lia).
  specialize (H Hb Hlt).
  destruct (scan_go (S (length file)) file (zlen file) []) as [[|x l]| | |]; try exact I; exact H.
Qed.
