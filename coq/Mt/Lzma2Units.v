(* Mt/Lzma2Units.v — the CONCRETE chunk decoder that instantiates the abstract one of Mt/Units.v
   (Section Decode): what one LZMA2 chunk does to the part of the reader state that the decoding
   of later chunks depends on, and what it outputs.  Definitions only; Mt/Lzma2UnitsProofs.v shows
   that this is what the reader model (Codec/Lzma2Dec.v) computes, for every sequence of
   destination buffer sizes, and that a dictionary-reset chunk forgets the state before it.

   State kept between chunks (everything else of LZMA2Reader is either re-initialised by every
   chunk header or does not influence later output):
     d_hist   the bytes decoded since the last dictionary reset (or the kept part of the preset
              dictionary), newest first - the logical content of LZDecoder's cyclic buffer;
     d_coder / d_probs   self.lzma (state, reps, lc/lp/pb, probability tables) - only meaningful
              while need_props = false: a chunk that sets need_props also drops them here;
     d_need_props / d_need_dict_reset   the two flags of LZMA2Reader.
   The range decoder is not part of the state: rc.prepare() re-initialises it in every LZMA chunk
   and at a chunk boundary it is always "finished" (checked at the end of every chunk). *)
From LzVerif Require Export Mt.Units Codec.Lzma2Dec Codec.LzmaAbs Codec.LzmaWriters.
Local Open Scope Z_scope.

Record dstate := mkD {
  d_hist : list Z;
  d_coder : option coder;
  d_probs : probs;
  d_need_props : bool;
  d_need_dict_reset : bool
}.

(* LZMA2Reader::new(_, dict_size, preset_dict) with [ds] = the buffer size the reader allocates.
   A non-empty preset dictionary: its last min(len, ds) bytes are the history and no dictionary
   reset is demanded.  (LZMA2ReaderMT hands the same preset dictionary to every worker.) *)
Definition d_init (ds : Z) (preset : option (list Z)) : dstate :=
  match preset with
  | Some (x :: p) =>
      mkD (rev (lastn (Z.to_nat (Z.min (zlen (x :: p)) ds)) (x :: p))) None PLeaf true false
  | _ => mkD [] None PLeaf true true
  end.

(* the end of an LZMA chunk of [n] bytes, given the result of the specification decoder
   (Codec/LzmaAbs.v) run against the range decoder: the status must be Ok, no match may be left
   half copied, the range decoder must have consumed exactly the chunk's payload *)
Definition alz_fin (n : nat) (r : outcome (astate * outcome unit * rdec * probs)) : option (dstate * list Z) :=
  match r with
  | Ok (a2, Ok _, rc2, t2) =>
      if rdec_is_finished (rdec_normalize rc2) && (a_pend_len a2 <=? 0) then
        Some (mkD (a_hist a2) (Some (a_coder a2)) t2 false false, rev (firstn n (a_hist a2)))
      else None
  | _ => None
  end.

(* [usize] bytes of an LZMA chunk, from history [hist], coder [c], range decoder [rc], tables [t];
   [pl]/[pd]: a match of the same chunk that is still being copied (0 0 at the start of a chunk) *)
Definition alz (ds : Z) (hist : list Z) (c : coder) (rc : rdec) (t : probs) (usize pl pd : Z)
  : option (dstate * list Z) :=
  alz_fin (Z.to_nat usize) (run_rc (aproduce (Z.to_nat usize) (mkAstate c hist ds pl pd)) rc t).

(* one whole chunk.  [c_bytes k] = control byte, header, payload; [c_ctrl k] must be its first
   byte.  Field by field what decode_chunk_header + the copy/decode loop + the end-of-chunk check
   of LZMA2Reader::read_decode do. *)
Definition astep (ds : Z) (d : dstate) (k : chunk) : option (dstate * list Z) :=
  match c_bytes k with
  | [] => None
  | c :: b =>
      if negb (c =? c_ctrl k) then None else
      let reset := (224 <=? c) || (c =? 1) in
      if negb reset && d_need_dict_reset d then None else
      let hist1 := if reset then [] else d_hist d in
      let np1 := if reset then true else d_need_props d in
      if 128 <=? c then
        match b with
        | u1 :: u2 :: c1 :: c2 :: b1 =>
            let usize := Z.shiftl (Z.land c 31) 16 + (u1 * 256 + u2) + 1 in
            let csize := c1 * 256 + c2 + 1 in
            match (if 192 <=? c then
                     match lzma2_decode_props b1 with
                     | Ok (cd, b2) => Some (cd, PLeaf, b2)
                     | _ => None
                     end
                   else if np1 then None
                   else match d_coder d with
                        | None => None
                        | Some cd => if 160 <=? c then Some (coder_reset cd, PLeaf, b1)
                                     else Some (cd, d_probs d, b1)
                        end) with
            | None => None
            | Some (cd, t, payload) =>
                match rdec_prepare payload csize with
                | Ok (rc, []) => alz ds hist1 cd rc t usize 0 0
                | _ => None
                end
            end
        | _ => None
        end
      else if (c =? 1) || (c =? 2) then
        match b with
        | s0 :: s1 :: payload =>
            if zlen payload =? s0 * 256 + s1 + 1 then
              Some (mkD (rev payload ++ hist1)
                        (if np1 then None else d_coder d) (if np1 then PLeaf else d_probs d) np1 false,
                    payload)
            else None
        | _ => None
        end
      else None
  end.

(* a whole stream: chunks up to the 0x00 control byte; the bytes after it are returned *)
Fixpoint parse_all (fuel : nat) (bytes : list Z) : option (list chunk * list Z) :=
  match fuel with
  | O => None
  | S n =>
      match parse_chunk bytes with
      | PTerm rest => Some ([], rest)
      | PChunk k rest =>
          match parse_all n rest with
          | Some (ks, r) => Some (k :: ks, r)
          | None => None
          end
      | _ => None
      end
  end.

Definition stream_chunks (bytes : list Z) : option (list chunk * list Z) :=
  parse_all (S (length bytes)) bytes.

(* the single decoder over a byte stream: the data and the bytes after the end marker *)
Definition adecode (ds : Z) (d : dstate) (bytes : list Z) : option (list Z * list Z) :=
  match stream_chunks bytes with
  | Some (ks, rest) =>
      match decode_chunks dstate (astep ds) d ks with
      | Some o => Some (o, rest)
      | None => None
      end
  | None => None
  end.

(* the bytes of a work unit as LZMA2ReaderMT dispatches it: the chunks and the 0x00 it appends *)
Definition flat (ks : list chunk) : list Z := concat (map c_bytes ks).
Definition unit_bytes (ks : list chunk) : list Z := flat ks ++ [0].

(* ------------------------------------------------------------------------------------------ *)
(* the reader model as a whole-stream decoder: LZMA2Reader::new, then read() calls with the
   destination sizes [sizes] (cyclically) until one returns 0 bytes.  "Decodes to [data]": status
   0 and the end-of-stream control byte was reached. *)
Definition l2_read_result (fuel : nat) (input : list Z) (dict : Z) (preset : option (list Z)) (sizes : list Z)
  : outcome (list Z * Z * lzma2) :=
  do s0 <- lzma2_new input dict preset;
  lzma2_read_all fuel s0 sizes sizes [].

Definition l2_done (r : outcome (list Z * Z * lzma2)) (data : list Z) : Prop :=
  exists s_end, r = Ok (data, 0, s_end) /\ m_end_reached s_end = true.

(* for every history of destination sizes and every sufficient number of calls *)
Definition l2_decodes (input : list Z) (dict : Z) (preset : option (list Z)) (data : list Z) : Prop :=
  forall sizes fuel, Forall (fun z => 0 < z) sizes -> (length data + 2 <= fuel)%nat ->
    l2_done (l2_read_result fuel input dict preset sizes) data.

(* the buffer size LZMA2Reader::new allocates (get_dict_size) *)
Definition l2_wsize (dict : Z) : Z := (Z.min (Z.max dict 4096) 4294967280 + 15) / 16 * 16.

(* ------------------------------------------------------------------------------------------ *)
(* one work unit of LZMA2WriterMT: the worker's LZMA2Writer (fresh, options without preset
   dictionary) is fed the unit's [data] and flushed; [body] is what it wrote - the writer model's
   stream (Codec/LzmaWriters.v, any trace [evs] of encoder decisions the model accepts) without
   the end marker that finish() would append.  The coordinator writes the bodies in order and
   one 0x00 at the end. *)
Definition mt_unit_written (lc lp pb dict : Z) (u : list Z * list l2ev * list Z) : Prop :=
  let '(data, evs, body) := u in
  bytes_ok data = true /\ (forall ev, In ev evs -> ev <> L2Sym SEnd) /\
  lzma2_write lc lp pb dict None data evs = Ok (body ++ [0]).

Definition mt_bodies (us : list (list Z * list l2ev * list Z)) : list Z := concat (map snd us).
Definition mt_data (us : list (list Z * list l2ev * list Z)) : list Z := concat (map (fun u => fst (fst u)) us).
