(* Mt/MeasureProofs.v — C09, termination: on the repaired protocol every step of every thread
   strictly decreases a natural-number measure, so every schedule is finite: a call of the caller
   returns (or the object is dropped and all workers have exited) after finitely many steps under
   every schedule.  The measure is a weighted sum of
     caller operations still to come, source-script entries still to read, units in the queue,
     messages in the channel, entries of the reorder map, the phase, the coordinator's program
     point (with the budget of the dispatch sequence / of finish it is in), each worker's program
     point.
   notify_one / notify_all raise the rank of the woken workers by 4 each; the notifying step pays
   for it (notify_all: 4 * clamp(num_workers)). *)
From LzVerif Require Import Base.Bytes Mt.Protocol Mt.ProtocolLemmas Mt.ProtocolInv Mt.SafetyProofs Mt.CountProofs
  Mt.LiveInv.
Local Open Scope nat_scope.

Section P.
Context {R : Type}.
Variable f : nat -> R + Z.
Implicit Types (s : state R) (c : cfg).

Definition rw (w : wpc R) : nat :=
  match w with
  | WExit => 0 | WSleep => 1 | WWait => 2 | WChk => 3 | WPop => 4 | WLock => 5 | WWoken => 5 | WTop => 6
  | WDec => 7 | WDecX => 7 | WWake => 25 | WSetErr _ => 26 | WDecE _ => 27 | WSend _ _ => 30 | WInc _ => 31
  end.

Definition rph (h : phase) : nat := match h with PErr => 0 | PFin => 5 | PDrain => 10 | PRun => 20 end.

(* budget of finish(): its tail (shutdown, close, return) and the Drop that follows *)
Definition Fb (c : cfg) : nat := 12 + 8 * maxw c.
Definition kd (c : cfg) (d : dk) : nat := match d with DFinish => Fb c | _ => 0 end.
Definition kb (c : cfg) (g : gk) : nat :=
  match g with KBack d => 80 + kd c d | KFinish => Fb c | _ => 0 end.

Definition rco (c : cfg) (p : cpc) : nat :=
  match p with
  | CIdle => 0
  | CTop g => 10 + kb c g
  | CTake g => 9 + kb c g
  | CTakeE g => 8 + kb c g
  | CRecv g false => 8 + kb c g
  | CRecv g true => 6 + kb c g
  | CLenR => 7
  | CSetErr _ => 5
  | CLenB d => 92 + kd c d
  | CPushChk d => 80 + kd c d
  | CPush d => 79 + kd c d
  | CNotify d => 38 + kd c d
  | CLoadAct d => 33 + kd c d
  | CLenS d _ => 32 + kd c d
  | CSpawn d => 31 + kd c d
  | CShut true => 11 + 8 * maxw c
  | CCloseLock true => 10 + 8 * maxw c
  | CCloseStore true => 9 + 8 * maxw c
  | CCloseNotify true => 8 + 8 * maxw c
  | CCloseUnlock true => 7 + 4 * maxw c
  | CShut false => 6 + 4 * maxw c
  | CCloseLock false => 5 + 4 * maxw c
  | CCloseStore false => 4 + 4 * maxw c
  | CCloseNotify false => 3 + 4 * maxw c
  | CCloseUnlock false => 2
  | CDropRx => 1
  | CDone => 0
  end.

Definition measure c s : nat :=
  sumf (fun _ => 200 + 8 * maxw c) (prog s) + 100 * length (script s) + 40 * length (q_items s) +
  20 * length (ch s) + 12 * length (reo s) + rph (ph s) + rco c (pc s) + sumf rw (ws s).

Lemma rw_wake_first l : sumf rw (wake_first l) <= sumf rw l + 4.
Proof. induction l as [|w t IH]; simpl; [lia|]. destruct w; simpl; lia. Qed.
Lemma rw_wake_nth n l l' : wake_nth n l = Some l' -> sumf rw l' <= sumf rw l + 4.
Proof.
  revert n l'; induction l as [|w t IH]; intros n l' H; simpl in *; [discriminate|].
  destruct (is_sleep w) eqn:E.
  - destruct n.
    + inversion H; subst. destruct w; try discriminate. simpl. lia.
    + destruct (wake_nth n t) eqn:E2; [|discriminate]. inversion H; subst. simpl. specialize (IH _ _ E2). lia.
  - destruct (wake_nth n t) eqn:E2; [|discriminate]. inversion H; subst. simpl. specialize (IH _ _ E2). lia.
Qed.
Lemma rw_wake_one n l : sumf rw (wake_one n l) <= sumf rw l + 4.
Proof. unfold wake_one. destruct (wake_nth n l) eqn:E; [eapply rw_wake_nth; eauto|apply rw_wake_first]. Qed.
Lemma rw_wake_all l : sumf rw (wake_all l) <= sumf rw l + 4 * length l.
Proof. induction l as [|w t IH]; simpl; [lia|]. destruct w; simpl; lia. Qed.

Ltac brute :=
  repeat match goal with
         | g : gk |- _ => destruct g
         | d : dk |- _ => destruct d
         | r : src_res |- _ => destruct r
         | b : bool |- _ => destruct b
         | |- context [if ?b then _ else _] => destruct b eqn:?
         | |- context [match ?x with _ => _ end] =>
             lazymatch x with
             | ph _ => destruct x eqn:?
             | k_kind _ => destruct x eqn:?
             end
         | H : context [match ?x with _ => _ end] |- _ =>
             lazymatch x with
             | ph _ => destruct x eqn:?
             | k_kind _ => destruct x eqn:?
             end
         end.

(* C09 (termination): every step strictly decreases the measure *)
Theorem mt_measure c src p s t s' :
  Fx c -> reachable f c src p s -> step f c s t = Some s' -> measure c s' < measure c s.
Proof.
  intros Hfx Hr Hst.
  pose proof (inv_ctl f c src p s Hfx Hr) as OK.
  pose proof (i1_bound c s (inv_I1 f c src p s Hr)) as B.
  pose proof (maxw_pos c) as MW.
  destruct Hfx as (Fc & Fw & Fe & Ff).
  unfold measure.
  step_split t Hst; rw_pc; rw_goal.
  (* workers *)
  all: try match goal with
       | H : nth_opt (ws ?s) ?i = Some ?w |- context [sumf rw (upd_nat (ws ?s) ?i ?w')] =>
           let E := fresh "E" in
           pose proof (sumf_upd rw (ws s) i w w' H) as E; cbn [rw] in E
       end.
  all: try (rewrite ?app_length; cbn [length sumf rw]; lia).
  (* coordinator *)
  all: try match goal with
       | |- context [wake_one ?n ?l] => pose proof (rw_wake_one n l)
       | |- context [wake_all ?l] => pose proof (rw_wake_all l)
       end.
  all: try match goal with
       | H : lookup ?k ?l = Some _ |- _ => pose proof (remove_key_lookup_length l k _ H)
       end.
  all: try match goal with
       | |- context [insert ?k ?r ?l] =>
           pose proof (remove_key_length l k); unfold insert; cbn [length]
       end.
  all: unfold disp_eff in *;
       unfold ret_eff, src_eff, finish_eff, flush_eff, with_out, goto, creturn, freturn, dk_is_finish, blocking_of in *;
       rewrite ?Fc, ?Fw, ?Fe, ?Ff in *;
       unfold ctl_ok, quiet_pc, kind_ok, dk_chain, gk_of, is_run, is_perr, is_reader in OK;
       cbn [e_pc e_ph e_out e_res e_fin e_last andb nd set_nd set_prog set_ws set_script] in *.
  all: repeat (progress (brute; cbn [e_pc e_ph e_out e_res e_fin e_last andb] in * ));
       try discriminate.
  all: unfold rco, rph in *; unfold kb in *; unfold kd in *; unfold Fb in *;
       rewrite ?sumf_app in *; cbn [sumf length rw] in *; rewrite ?app_length in *; cbn [length] in *;
       try lia.
Qed.

(* every schedule is finite: its length is bounded by the measure of the state it starts from *)
Theorem mt_terminates c src p s sched s' :
  Fx c -> reachable f c src p s -> run_strict f c s sched = Some s' ->
  length sched + measure c s' <= measure c s.
Proof.
  intros Hfx. revert s. induction sched as [|t rest IH]; intros s Hr H; simpl in H.
  - inversion H; subst. simpl. lia.
  - destruct (step f c s t) as [s1|] eqn:E; [|discriminate].
    pose proof (mt_measure c src p s t s1 Hfx Hr E).
    assert (Hr1 : reachable f c src p s1) by (econstructor; eauto).
    specialize (IH s1 Hr1 H). simpl. lia.
Qed.

End P.
