(* Mt/Units.v — the pure unit-cutting functions of the multi-threaded readers and writers.
   Definitions only.
     * writers (enc/lzma2_writer_mt.rs, lzip/writer_mt.rs :: write / flush / finish): fixed-size
       cutting of the written bytes;
     * LZMA2ReaderMT::read_and_dispatch_chunk: cutting of an LZMA2 chunk stream into work units at
       dictionary-reset chunks (control >= 0xE0 or == 0x01);
     * LZIPReaderMT::scan_members: backward scan over the member_size fields of the trailers. *)
From LzVerif Require Export Base.Bytes.
Local Open Scope nat_scope.

(* ------------------------------------------------------------------------------------------ *)
(* Writers.  State of the coordinator between calls: current_work_unit (newest byte first) and
   the units dispatched so far (newest first). *)
Definition wstate := (list Z * list (list Z))%type.

(* one byte of write(): append; when the unit has reached its size, send_work_unit() *)
Definition feed_byte (size : nat) (st : wstate) (b : Z) : wstate :=
  let cur' := b :: fst st in
  if Nat.eqb (length cur') size then ([], rev cur' :: snd st) else (cur', snd st).

(* write(buf) *)
Definition feed (size : nat) (st : wstate) (buf : list Z) : wstate := fold_left (feed_byte size) buf st.

(* flush() / finish(): send_work_unit() of a non-empty remainder *)
Definition flush_units (st : wstate) : wstate :=
  match fst st with [] => st | cur => ([], rev cur :: snd st) end.

Definition units_of (st : wstate) : list (list Z) := rev (snd (flush_units st)).

(* the units of [data] written in one piece and finished *)
Definition cut_fixed (size : nat) (data : list Z) : list (list Z) := units_of (feed size ([], []) data).
(* the units of a history of write() calls, then finish() *)
Definition cut_writes (size : nat) (parts : list (list Z)) : list (list Z) :=
  units_of (fold_left (feed size) parts ([], [])).

(* a history with flushes: inl buf = write(buf), inr tt = flush() *)
Definition hist_step (size : nat) (st : wstate) (o : list Z + unit) : wstate :=
  match o with inl buf => feed size st buf | inr _ => flush_units st end.
Definition cut_history (size : nat) (h : list (list Z + unit)) : list (list Z) :=
  units_of (fold_left (hist_step size) h ([], [])).

(* ------------------------------------------------------------------------------------------ *)
(* LZMA2 reader, chunk level.  A chunk is its control byte and all its bytes (control, header,
   payload). *)
Record chunk := mkChunk { c_ctrl : Z; c_bytes : list Z }.

Definition chunk_independent (k : chunk) : bool := (224 <=? c_ctrl k)%Z || (c_ctrl k =? 1)%Z.

Definition is_nil {A} (l : list A) : bool := match l with [] => true | _ => false end.

(* a new unit starts before every dictionary-reset chunk, except when nothing was gathered yet *)
Fixpoint cut_go (cur : list chunk) (chunks : list chunk) : list (list chunk) :=
  match chunks with
  | [] => [cur]
  | k :: t =>
      if chunk_independent k && negb (is_nil cur) then cur :: cut_go [k] t
      else cut_go (cur ++ [k]) t
  end.
(* the units of a terminated chunk sequence (the terminator closes the last unit, which may be
   the empty one when there is no chunk at all) *)
Definition cut_chunks (chunks : list chunk) : list (list chunk) := cut_go [] chunks.

(* an abstract chunk decoder: state -> chunk -> new state and output, None = error *)
Section Decode.
Variable D : Type.
Variable step : D -> chunk -> option (D * list Z).

Fixpoint run_chunks (d : D) (chunks : list chunk) : option (D * list Z) :=
  match chunks with
  | [] => Some (d, [])
  | k :: t =>
      match step d k with
      | None => None
      | Some (d1, o1) =>
          match run_chunks d1 t with
          | None => None
          | Some (d2, o2) => Some (d2, o1 ++ o2)
          end
      end
  end.

(* the single-threaded reader on the whole sequence *)
Definition decode_chunks (d0 : D) (chunks : list chunk) : option (list Z) :=
  match run_chunks d0 chunks with Some (_, o) => Some o | None => None end.

(* every unit with a fresh decoder (LZMA2Reader::new per work unit), outputs concatenated in order *)
Fixpoint decode_units (d0 : D) (units : list (list chunk)) : option (list Z) :=
  match units with
  | [] => Some []
  | u :: t =>
      match run_chunks d0 u with
      | None => None
      | Some (_, o1) =>
          match decode_units d0 t with
          | None => None
          | Some o2 => Some (o1 ++ o2)
          end
      end
  end.
End Decode.

(* ------------------------------------------------------------------------------------------ *)
(* LZMA2 reader, byte level: read_and_dispatch_chunk as the protocol model sees it.
   Result of parsing one chunk at the head of [bytes]. *)
Inductive chunk_parse :=
| PEof                                   (* no byte left: "clean end of stream" *)
| PTerm (rest : list Z)                  (* control 0x00 *)
| PChunk (k : chunk) (rest : list Z)
| PErr (code : Z).                       (* invalid control byte / truncated chunk *)

Definition be16 (hi lo : Z) : Z := (hi * 256 + lo)%Z.

Definition take_n (n : nat) (l : list Z) : option (list Z * list Z) :=
  if Nat.leb n (length l) then Some (firstn n l, skipn n l) else None.

Definition parse_chunk (bytes : list Z) : chunk_parse :=
  match bytes with
  | [] => PEof
  | c :: rest =>
      if (c =? 0)%Z then PTerm rest
      else if (128 <=? c)%Z then
        let hl := if (192 <=? c)%Z then 5 else 4 in
        match take_n hl rest with
        | None => PErr E_UNEXPECTED_EOF
        | Some (hdr, rest1) =>
            match hdr with
            | _ :: _ :: h2 :: h3 :: _ =>
                let dsz := Z.to_nat (be16 h2 h3 + 1) in
                match take_n dsz rest1 with
                | None => PErr E_UNEXPECTED_EOF
                | Some (payload, rest2) => PChunk (mkChunk c (c :: hdr ++ payload)) rest2
                end
            | _ => PErr E_UNEXPECTED_EOF
            end
        end
      else if (c =? 1)%Z || (c =? 2)%Z then
        match rest with
        | s0 :: s1 :: rest1 =>
            let dsz := Z.to_nat (be16 s0 s1 + 1) in
            match take_n dsz rest1 with
            | None => PErr E_UNEXPECTED_EOF
            | Some (payload, rest2) => PChunk (mkChunk c (c :: s0 :: s1 :: payload)) rest2
            end
        | _ => PErr E_UNEXPECTED_EOF
        end
      else PErr E_INVALID_DATA
  end.

(* result of cutting a byte stream: the work units (raw bytes, each closed by 0x00 where the code
   appends one), how the source ended (None = end reached; Some e = error kind), and for each
   read_and_dispatch_chunk call whether it dispatched a unit *)
Record cut_result := mkCut { cr_units : list (list Z); cr_end : option Z; cr_calls : list bool }.

(* [cur]: current_work_unit; fuel = number of bytes + 1 suffices (every call consumes a byte or ends) *)
Fixpoint cut_bytes (eof : option Z) (fuel : nat) (bytes cur : list Z) (units : list (list Z)) (calls : list bool) : cut_result :=
  match fuel with
  | O => mkCut (rev units) (Some E_OTHER) (rev calls)
  | S n =>
      match parse_chunk bytes with
      | PEof =>
          match eof with
          | Some e => mkCut (rev units) (Some e) (rev (false :: calls))   (* the inner reader failed *)
          | None =>
              (* Ok(false); the caller sends what is left, without a terminator *)
              match cur with
              | [] => mkCut (rev units) None (rev (false :: calls))
              | _ => mkCut (rev (cur :: units)) None (rev (true :: calls))
              end
          end
      | PTerm _ => mkCut (rev ((cur ++ [0%Z]) :: units)) None (rev (true :: calls))
      | PErr e0 =>
          (* running out of bytes inside a chunk is the inner reader's error, if it has one *)
          let e := match eof with Some e1 => if (e0 =? E_UNEXPECTED_EOF)%Z then e1 else e0 | None => e0 end in
          (* a dictionary-reset control byte dispatches the gathered unit before the header is read *)
          match bytes, cur with
          | c :: _, _ :: _ =>
              if (224 <=? c)%Z || (c =? 1)%Z
              then mkCut (rev ((cur ++ [0%Z]) :: units)) (Some e) (rev (true :: calls))
              else mkCut (rev units) (Some e) (rev (false :: calls))
          | _, _ => mkCut (rev units) (Some e) (rev (false :: calls))
          end
      | PChunk k rest =>
          if chunk_independent k && negb (is_nil cur)
          then cut_bytes eof n rest (c_bytes k) ((cur ++ [0%Z]) :: units) (true :: calls)
          else cut_bytes eof n rest (cur ++ c_bytes k) units (false :: calls)
      end
  end.

Definition cut_lzma2 (bytes : list Z) : cut_result := cut_bytes None (S (length bytes)) bytes [] [] [].
(* the inner reader delivers [n] bytes and then fails with error kind [e] *)
Definition cut_lzma2_io (bytes : list Z) (n : nat) (e : Z) : cut_result :=
  if Nat.leb n (length bytes) then cut_bytes (Some e) (S n) (firstn n bytes) [] [] [] else cut_lzma2 bytes.

(* ------------------------------------------------------------------------------------------ *)
(* LZIP reader: scan_members.  HEADER_SIZE = 6, TRAILER_SIZE = 20; member_size = bytes 12..19 of
   the trailer, little endian.  Result: (start_pos, compressed_size) in forward order. *)
Definition slice (l : list Z) (pos len : Z) : option (list Z) :=
  if (pos <? 0)%Z || (len <? 0)%Z || (zlen l <? pos + len)%Z then None
  else Some (firstn (Z.to_nat len) (skipn (Z.to_nat pos) l)).

Fixpoint scan_go (fuel : nat) (file : list Z) (pos : Z) (acc : list (Z * Z)) : outcome (list (Z * Z)) :=
  match fuel with
  | O => Fuel
  | S n =>
      if (pos <=? 0)%Z then Ok acc
      else if (pos <? 20)%Z then Ok acc            (* break: leading bytes are ignored *)
      else
        match slice file (pos - 20) 20 with
        | None => Err E_UNEXPECTED_EOF
        | Some tr =>
            let msize := le_value (skipn 12 tr) in
            if (msize =? 0)%Z || (pos <? msize)%Z then Err E_INVALID_DATA
            else
              let start := (pos - msize)%Z in
              match slice file start 4 with
              | None => Err E_UNEXPECTED_EOF
              | Some magic =>
                  if list_eq_dec Z.eq_dec magic [76; 90; 73; 80]%Z     (* "LZIP" *)
                  then scan_go n file start ((start, msize) :: acc)
                  else Err E_INVALID_DATA
              end
        end
  end.

Definition scan_members (file : list Z) : outcome (list (Z * Z)) :=
  if (zlen file <? 26)%Z then Err E_INVALID_DATA
  else
    match scan_go (S (length file)) file (zlen file) [] with
    | Ok [] => Err E_INVALID_DATA
    | r => r
    end.
