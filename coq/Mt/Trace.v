(* Mt/Trace.v — the tie between the protocol model and the event trace of the real code
   (hook H4: crate::verif::event(kind, arg) after every visible operation, see
   repo-patches/14-hook-mt-shuttle-trace.patch).  Definitions only.

   [co_event] / [wk_event]: the event (kind, argument) that the next step of a thread emits; the
   argument is the value the real code observes at that operation (queue length, closed flag,
   sequence number received, ...), so accepting a trace checks that the model state predicts every
   observed value.  [accept] replays a recorded trace step by step.  The caller's program is read
   off the trace (the caller is free), the unit function off the per-unit result events. *)
From LzVerif Require Export Mt.Protocol Mt.Units.
Local Open Scope nat_scope.

Definition any_arg : Z := (-1)%Z.            (* the argument is not compared *)
Definition wake_seq : Z := 18446744073709551615%Z.   (* u64::MAX *)

Definition zb (b : bool) : Z := if b then 1%Z else 0%Z.

(* unit function read off the trace: units listed in [tbl] failed with the given error kind *)
Fixpoint assoc_z (q : nat) (tbl : list (nat * Z)) : option Z :=
  match tbl with
  | [] => None
  | (k, v) :: t => if Nat.eqb k q then Some v else assoc_z q t
  end.
Definition f_of_table (tbl : list (nat * Z)) (q : nat) : Z + Z :=
  match assoc_z q tbl with Some code => inr code | None => inl (Z.of_nat q) end.

Section T.
Variable f : nat -> Z + Z.
Variable c : cfg.
Notation st := (state Z).

(* the caller operation announced by a "call" event *)
Definition op_of_event (kind : nat) (arg : Z) : option op :=
  match kind with
  | 1 => Some OpRead
  | 2 => Some (OpWrite (Z.eqb arg 1))
  | 3 => Some (OpWrite false)
  | 4 => Some OpFlush
  | 5 => Some OpFinish
  | 6 => Some OpDrop
  | _ => None
  end.

Definition co_event (s : st) : option (nat * Z) :=
  match pc s with
  | CIdle =>
      match prog s with
      | OpRead :: _ => Some (1, 0%Z)
      | OpWrite full :: _ => match ph s with PRun => Some (2, zb full) | _ => Some (3, 0%Z) end
      | OpFlush :: _ => Some (4, zb (pend s))
      | OpFinish :: _ => Some (5, zb (pend s))
      | OpDrop :: _ => Some (6, 0%Z)
      | [] => None
      end
  | CTop _ => Some (10, zb (match lookup (nr s) (reo s) with Some _ => true | None => false end))
  | CTake _ => Some (11, zb (match err s with Some _ => true | None => false end))
  | CTakeE _ => Some (12, any_arg)
  | CRecv _ blocking =>
      match ch s with
      | MRes q _ :: _ => Some (13, Z.of_nat q)
      | MWake :: _ => Some (13, wake_seq)
      | [] => if blocking then None else Some (14, 0%Z)
      end
  | CLenR => Some (15, zb (negb (Nat.ltb (qlen s) 4)))
  | CLenB _ => Some (16, zb (Nat.leb 4 (qlen s)))
  | CLenS _ _ => Some (17, Z.of_nat (qlen s))
  | CPushChk _ => Some (18, zb (q_closed s))
  | CPush _ => Some (19, 0%Z)
  | CNotify _ => Some (20, 0%Z)
  | CLoadAct _ => Some (21, act s)
  | CSpawn _ => Some (22, 0%Z)
  | CSetErr _ => Some (60, 0%Z)
  | CShut _ => Some (24, 0%Z)
  | CCloseLock _ => Some (25, 0%Z)
  | CCloseStore _ => Some (26, 0%Z)
  | CCloseNotify _ => Some (27, 0%Z)
  | CCloseUnlock _ => Some (28, 0%Z)
  | CDropRx | CDone => None
  end.

Definition wk_event (s : st) (i : nat) : option (nat * Z) :=
  match nth_opt (ws s) i with
  | None => None
  | Some w =>
      match w with
      | WTop => if shut s then Some (59, 0%Z) else Some (40, 0%Z)
      | WLock => Some (41, 0%Z)
      | WWoken => Some (46, 0%Z)
      | WPop => match q_items s with q :: _ => Some (43, Z.of_nat q) | [] => Some (42, 0%Z) end
      | WChk => Some (44, zb (q_closed s))
      | WWait => Some (45, 0%Z)
      | WSleep => None
      | WInc _ => Some (47, 0%Z)
      | WSend _ _ => Some (50, zb (rx_alive s))
      | WDec => Some (51, 0%Z)
      | WDecX => Some (52, 0%Z)
      | WDecE _ => Some (53, 0%Z)
      | WSetErr _ => Some (60, 0%Z)
      | WWake => Some (55, 0%Z)
      | WExit => None
      end
  end.

Definition ev_match (expected : option (nat * Z)) (kind : nat) (arg : Z) : bool :=
  match expected with
  | Some (k, a) => Nat.eqb k kind && (Z.eqb a any_arg || Z.eqb a arg)
  | None => false
  end.

Fixpoint count_sleep (l : list (wpc Z)) : nat :=
  match l with [] => 0 | w :: t => (if is_sleep w then 1 else 0) + count_sleep t end.

(* all successors of a coordinator step (notify_one: one per waiter that can be woken) *)
Definition co_succs (s : st) : list st :=
  match pc s with
  | CNotify _ =>
      let n := count_sleep (ws s) in
      flat_map (fun k => match co_step c s k with Some s' => [s'] | None => [] end) (seq 0 (Nat.max 1 n))
  | _ => match co_step c s 0 with Some s' => [s'] | None => [] end
  end.

(* the silent last step of Drop (the fields are dropped after Drop::drop returned) *)
Definition auto_drop (s : st) : st :=
  match pc s with
  | CDropRx => match co_step c s 0 with Some s' => s' | None => s end
  | _ => s
  end.

(* one event on one candidate state: the list of successor candidates ([] = rejected) *)
Definition accept1 (s : st) (t kind : nat) (arg : Z) : list st :=
  match kind with
  | 48 | 49 | 56 => [s]                          (* per-unit result / thread exit: not a step *)
  | 59 => (* the worker loop was left: by `break` after steal() returned None (arg 1: not a step),
             or because the shutdown flag was seen (arg 0: the WTop step) *)
      match t with
      | S i =>
          if Z.eqb arg 1 then [s]
          else if ev_match (wk_event s i) kind arg then
            match wk_step f c s i with Some s' => [s'] | None => [] end
          else []
      | O => []
      end
  | _ =>
      match t with
      | O =>
          (* the caller's next operation is read off the trace *)
          let s0 := match pc s, op_of_event kind arg with
                    | CIdle, Some o => set_prog s [o] (pend s)
                    | _, _ => s
                    end in
          if ev_match (co_event s0) kind arg then co_succs s0
          else match kind with
               | 6 => match pc s0 with CShut false => [s0] | _ => [] end   (* Drop after finish() *)
               | 25 | 28 => [s0]                 (* close() of the pinned code has no lock / unlock *)
               | 22 => [s0]                      (* the first worker, spawned by new(); or a spawn
                                                    whose worker was seen running already *)
               | _ => []
               end
      | S i =>
          let s0 := match kind, arg with
                    | 50, 0%Z => auto_drop s     (* send failed: the receiver is already dropped *)
                    | _, _ => s
                    end in
          (* a freshly spawned worker may run before the coordinator has reported the spawn *)
          let s0 := match pc s0 with
                    | CSpawn _ => if Nat.eqb i (length (ws s0))
                                  then match co_step c s0 0 with Some s' => s' | None => s0 end
                                  else s0
                    | _ => s0
                    end in
          if ev_match (wk_event s0 i) kind arg then
            match wk_step f c s0 i with Some s' => [s'] | None => [] end
          else []
      end
  end.

(* replay: number of accepted events and the surviving candidates *)
Fixpoint accept (cands : list st) (trace : list (nat * nat * Z)) (n : nat) : nat * list st :=
  match trace with
  | [] => (n, cands)
  | (t, kind, arg) :: rest =>
      match flat_map (fun s => accept1 s t kind arg) cands with
      | [] => (n, [])
      | cands' => accept (firstn 8 cands') rest (S n)
      end
  end.

(* ---- outcome classes ---- *)
(* 0 = finished: dropped and every worker exited; 1 = deadlock: a call has not returned and nothing
   can move; 2 = leak: dropped, nothing can move, a worker has not exited; 3 = still running *)
Definition outcome_class (s : st) : nat :=
  if dropped s && all_exited s then 0
  else if stuck f c s then (if dropped s then 2 else 1)
  else 3.

(* last result of the caller: 0 none, 1 = RNone (clean end / finish ok), 2 = error, 3 = data / ok *)
Definition last_result (s : st) : nat * Z :=
  match rev (results s) with
  | [] => (0, 0%Z)
  | RNone :: _ => (1, 0%Z)
  | RErr e :: _ => (2, e)
  | _ => (3, 0%Z)
  end.
(* the first error returned to the caller *)
Fixpoint first_error (l : list (cres Z)) : option Z :=
  match l with [] => None | RErr e :: _ => Some e | _ :: t => first_error t end.

End T.

(* ---- source scripts from the bytes (Units.v) ---- *)
Fixpoint script_of_calls (calls : list bool) (fin : src_res) : list src_ev :=
  match calls with
  | [] => []
  | [b] => [(b, fin)]
  | b :: t => (b, SCont) :: script_of_calls t fin
  end.
Definition script_of_cut (cr : cut_result) : list src_ev :=
  script_of_calls (cr_calls cr) (match cr_end cr with None => SEnd | Some e => SErr e end).
Definition lzma2_script (bytes : list Z) : list src_ev := script_of_cut (cut_lzma2 bytes).
Definition lzma2_script_io (bytes : list Z) (n : nat) : list src_ev := script_of_cut (cut_lzma2_io bytes n E_OTHER).
Definition lzip_script (members : nat) : list src_ev := repeatn (true, SCont) members ++ [(false, SEnd)].

(* the model's own run of a scenario under a deterministic scheduler (coordinator first or last),
   for scenarios without a trace *)
Definition model_run (f : nat -> Z + Z) (c : cfg) (src : list src_ev) (p : list op) (co_first : bool) (fuel : nat)
  : state Z * bool := run_auto f c (init c src p) co_first fuel.
