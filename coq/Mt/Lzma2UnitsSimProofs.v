(* Mt/Lzma2UnitsSimProofs.v — the LZMA2 reader model (Codec/Lzma2Dec.v) computes the chunk decoder
   of Mt/Lzma2Units.v: for ANY source bytes, whatever sizes the destination buffers of the read()
   calls have,
     * if [adecode] succeeds with (data, tail), every read history returns exactly [data] and ends
       at the end marker with [tail] left in the source;
     * if a read history returns [data] and reaches the end marker, [adecode] succeeds with [data];
       where [adecode] fails every read history fails.
   The invariant relates a reader state (between two iterations of read_decode's loop) to the
   result [o] that the specification still has to deliver. *)
From LzVerif Require Import Base.Bytes Codec.Store Codec.Range Codec.ProbProofs Codec.RangeArithProofs
  Codec.LzWindow Codec.LzmaDec Codec.LzmaAbs Codec.LzWindowProofs Codec.ProgProofs Codec.LzmaAbsProofs
  Codec.RangeNoWrapProofs Codec.LzmaReadProofs Codec.LzmaTotalProofs Codec.Lzma2Dec Codec.Lzma2SpecProofs
  Codec.Lzma2WindowProofs Codec.Lzma2ReadAuxProofs Codec.Lzma2LoopProofs Codec.Lzma2Loop0Proofs
  Codec.Lzma2ReadProofs Codec.Lzma1ReadProofs Codec.TruncProofs Codec.TruncLzma2Proofs Codec.Total2Proofs
  Mt.Units Mt.UnitsProofs Mt.Lzma2Units Mt.Lzma2UnitsAbsProofs.
Ltac Zify.zify_post_hook ::= Z.div_mod_to_equations.
Local Open Scope Z_scope.

Ltac msimpl :=
  cbn [with_in m_in m_win m_rc m_probs m_coder m_uncompressed_size m_is_lzma_chunk m_need_dict_reset m_need_props
       m_end_reached m_error].

(* ---- list facts ---- *)
Lemma firstn_plus {A} (a b : nat) (l : list A) : firstn (a + b) l = firstn a l ++ firstn b (skipn a l).
Proof.
  revert l; induction a as [|a IH]; intros l; [reflexivity|].
  destruct l as [|x t]; [cbn; rewrite firstn_nil; reflexivity|]. cbn [Nat.add firstn skipn app]. rewrite IH. reflexivity.
Qed.

Lemma skipn_plus {A} (a b : nat) (l : list A) : skipn (a + b) l = skipn b (skipn a l).
Proof.
  revert l; induction a as [|a IH]; intros l; [reflexivity|].
  destruct l as [|x t]; [cbn; rewrite skipn_nil; reflexivity|]. cbn [Nat.add skipn]. apply IH.
Qed.

Lemma zlen_skipn {A} n (l : list A) : (n <= length l)%nat -> zlen (skipn n l) = zlen l - Z.of_nat n.
Proof. intros H. unfold zlen. rewrite skipn_length. lia. Qed.

Lemma zlen_firstn {A} n (l : list A) : (n <= length l)%nat -> zlen (firstn n l) = Z.of_nat n.
Proof. intros H. unfold zlen. rewrite firstn_length_le by exact H. reflexivity. Qed.


Lemma take_n_cases n (l : list Z) :
  ((length l < n)%nat /\ take_n n l = None) \/
  ((n <= length l)%nat /\ take_n n l = Some (firstn n l, skipn n l)).
Proof.
  unfold take_n. destruct (Nat.leb_spec n (length l)) as [H|H]; [right | left]; split; auto.
Qed.

(* rc.prepare on a source that is shorter than the announced payload fails *)
Lemma rdec_prepare_short input len : (length input < Z.to_nat len)%nat -> exists e, rdec_prepare input len = Err e.
Proof.
  intros H. unfold rdec_prepare. destruct (Z.ltb_spec len 5); [eexists; reflexivity|].
  destruct input as [|b0 rest0]; [eexists; reflexivity|]. destruct (negb (b0 =? 0)); [eexists; reflexivity|].
  destruct rest0 as [|b1 [|b2 [|b3 [|b4 rest]]]]; try (eexists; reflexivity).
  cbn [length] in H. destruct (Nat.ltb_spec (length rest) (Z.to_nat (len - 5))) as [_|X]; [eexists; reflexivity | lia].
Qed.

(* rc.prepare on exactly the payload, and on the payload followed by more of the source *)
Lemma rdec_prepare_exact payload rest len : length payload = Z.to_nat len ->
  match rdec_prepare payload len with
  | Ok (rc, r) => r = [] /\ rng_ok rc /\ rdec_prepare (payload ++ rest) len = Ok (rc, rest)
  | Err e => rdec_prepare (payload ++ rest) len = Err e
  | _ => False
  end.
Proof.
  intros H. unfold rdec_prepare. destruct (Z.ltb_spec len 5) as [|H5]; [reflexivity|].
  destruct payload as [|b0 [|b1 [|b2 [|b3 [|b4 r]]]]]; cbn [length] in H; try lia.
  cbn [app]. destruct (negb (b0 =? 0)); [reflexivity|].
  assert (Hr : length r = Z.to_nat (len - 5)) by lia.
  rewrite app_length.
  destruct (Nat.ltb_spec (length r) (Z.to_nat (len - 5))) as [X|_]; [lia|].
  destruct (Nat.ltb_spec (length r + length rest) (Z.to_nat (len - 5))) as [X|_]; [lia|].
  rewrite <- Hr. rewrite firstn_all, skipn_all.
  rewrite firstn_app_exact by reflexivity. rewrite skipn_app_exact by reflexivity.
  split; [reflexivity|]. split; [unfold rng_ok; cbn [rd_range]; lia | reflexivity].
Qed.

(* ---- decode_chunk_header in parts ---- *)
Definition win_part (s : lzma2) (control : Z) : outcome (lzwin * bool * bool) :=
  if (224 <=? control) || (control =? 1) then
    do w <- lzwin_reset (m_win s); Ok (w, true, false)
  else if m_need_dict_reset s then Err E_INVALID_INPUT
  else Ok (m_win s, m_need_props s, m_need_dict_reset s).

Definition lz_tail (s : lzma2) (w1 : lzwin) (usize csize : Z) (need_dict_reset1 : bool)
  (pc : option coder * probs * bool * list Z) : outcome lzma2 :=
  let '(coder1, probs1, need_props2, in4) := pc in
  do rp <- rdec_prepare in4 csize;
  let '(rc1, in5) := rp in
  Ok (mkLzma2 in5 w1 rc1 probs1 coder1 usize true need_dict_reset1 need_props2 false (m_error s)).

Definition lz_part (s : lzma2) (control : Z) (in1 : list Z) (w1 : lzwin) (need_props1 need_dict_reset1 : bool)
  : outcome lzma2 :=
  do u <- read_u16_be in1;
  let '(ulow, in2) := u in
  let usize := Z.shiftl (Z.land control 31) 16 + ulow + 1 in
  do cs <- read_u16_be in2;
  let '(clow, in3) := cs in
  let csize := clow + 1 in
  do pc <-
    (if 192 <=? control then
       do cp <- lzma2_decode_props in3;
       let '(c, in4) := cp in Ok (Some c, PLeaf, false, in4)
     else if need_props1 then Err E_INVALID_INPUT
     else if 160 <=? control then
       Ok (match m_coder s with Some c => Some (coder_reset c) | None => None end,
           match m_coder s with Some _ => PLeaf | None => m_probs s end, need_props1, in3)
     else Ok (m_coder s, m_probs s, need_props1, in3));
  lz_tail s w1 usize csize need_dict_reset1 pc.

Definition unc_part (s : lzma2) (in1 : list Z) (w1 : lzwin) (need_props1 need_dict_reset1 : bool) : outcome lzma2 :=
  do u <- read_u16_be in1;
  let '(ulow, in2) := u in
  Ok (mkLzma2 in2 w1 (m_rc s) (m_probs s) (m_coder s) (ulow + 1) false need_dict_reset1 need_props1 false (m_error s)).

Lemma chunk_header_eq s :
  lzma2_chunk_header s =
  do cr <- read_u8 (m_in s);
  let '(control, in1) := cr in
  if control =? 0 then
    Ok (mkLzma2 in1 (m_win s) (m_rc s) (m_probs s) (m_coder s) (m_uncompressed_size s) (m_is_lzma_chunk s)
                (m_need_dict_reset s) (m_need_props s) true (m_error s))
  else
  do st1 <- win_part s control;
  let '(w1, need_props1, need_dict_reset1) := st1 in
  if 128 <=? control then lz_part s control in1 w1 need_props1 need_dict_reset1
  else if 2 <? control then Err E_INVALID_INPUT
  else unc_part s in1 w1 need_props1 need_dict_reset1.
Proof.
  unfold lzma2_chunk_header, win_part, lz_part, unc_part, lz_tail.
  destruct (read_u8 (m_in s)) as [[control in1]|e|e|]; reflexivity.
Qed.

(* ---- adecode on an explicit header ---- *)
Lemma adecode_nil ds d : adecode ds d [] = None.
Proof. rewrite adecode_unfold. reflexivity. Qed.

Lemma adecode_term ds d rest : adecode ds d (0 :: rest) = Some ([], rest).
Proof. rewrite adecode_unfold. reflexivity. Qed.

Lemma adecode_lzma ds d c u1 u2 c1 c2 in3 : (c =? 0) = false -> (128 <=? c) = true ->
  adecode ds d (c :: u1 :: u2 :: c1 :: c2 :: in3) =
  match (if 192 <=? c then match in3 with [] => None | pr :: in4 => Some ([pr], in4) end else Some ([], in3)) with
  | None => None
  | Some (prl, in4) =>
      match take_n (Z.to_nat (c1 * 256 + c2 + 1)) in4 with
      | None => None
      | Some (payload, rest) =>
          match astep ds d (mkChunk c (c :: u1 :: u2 :: c1 :: c2 :: prl ++ payload)) with
          | Some (d1, o1) => oapp o1 (adecode ds d1 rest)
          | None => None
          end
      end
  end.
Proof.
  intros H0 H128. rewrite adecode_unfold. unfold parse_chunk. rewrite H0, H128. unfold be16.
  destruct (192 <=? c).
  - destruct in3 as [|pr in4]; [reflexivity|].
    cbn [take_n length Nat.leb firstn skipn].
    destruct (take_n (Z.to_nat (c1 * 256 + c2 + 1)) in4) as [[payload rest]|]; reflexivity.
  - cbn [take_n length Nat.leb firstn skipn].
    destruct (take_n (Z.to_nat (c1 * 256 + c2 + 1)) in3) as [[payload rest]|]; reflexivity.
Qed.

Lemma adecode_unc ds d c s0 s1 in2 : (c =? 0) = false -> (128 <=? c) = false -> ((c =? 1) || (c =? 2)) = true ->
  adecode ds d (c :: s0 :: s1 :: in2) =
  match take_n (Z.to_nat (s0 * 256 + s1 + 1)) in2 with
  | None => None
  | Some (payload, rest) =>
      match astep ds d (mkChunk c (c :: s0 :: s1 :: payload)) with
      | Some (d1, o1) => oapp o1 (adecode ds d1 rest)
      | None => None
      end
  end.
Proof.
  intros H0 H128 H12. rewrite adecode_unfold. unfold parse_chunk. rewrite H0, H128, H12. unfold be16.
  destruct (take_n (Z.to_nat (s0 * 256 + s1 + 1)) in2) as [[payload rest]|]; reflexivity.
Qed.

Lemma adecode_short_lzma ds d c in1 : (c =? 0) = false -> (128 <=? c) = true -> (length in1 < 4)%nat ->
  adecode ds d (c :: in1) = None.
Proof.
  intros H0 H128 Hl. rewrite adecode_unfold. unfold parse_chunk. rewrite H0, H128.
  destruct in1 as [|a [|b [|e [|f r]]]]; cbn [length] in Hl; try lia; destruct (192 <=? c); reflexivity.
Qed.

Lemma adecode_short_unc ds d c in1 : (c =? 0) = false -> (128 <=? c) = false -> (length in1 < 2)%nat ->
  adecode ds d (c :: in1) = None.
Proof.
  intros H0 H128 Hl. rewrite adecode_unfold. unfold parse_chunk. rewrite H0, H128.
  destruct in1 as [|a [|b r]]; cbn [length] in Hl; try lia; destruct ((c =? 1) || (c =? 2)); reflexivity.
Qed.

Lemma adecode_bad_ctrl ds d c in1 : (c =? 0) = false -> (128 <=? c) = false -> ((c =? 1) || (c =? 2)) = false ->
  adecode ds d (c :: in1) = None.
Proof. intros H0 H128 H12. rewrite adecode_unfold. unfold parse_chunk. rewrite H0, H128, H12. reflexivity. Qed.

Section Sim.
  Variable ds : Z.                 (* the reader's buffer size *)
  Hypothesis Hds : 0 < ds.
  Hypothesis Hds16 : ds mod 16 = 0.

  (* a flushed window holding the history; [st = false] also allows the write position at the end
     of the buffer (LZDecoder::new with a preset dictionary that fills it) *)
  Definition win_ok (st : bool) (w : lzwin) (hist : list Z) : Prop :=
    Rel w hist /\ w_size w = ds /\ w_start w = w_pos w /\ (st = true -> w_pos w < w_size w).

  (* self.lzma and the tables: only meaningful while need_props = false *)
  Definition coder_abs (s : lzma2) (co : option coder) (t : probs) (np : bool) (full : Z) : Prop :=
    m_need_props s = np /\
    (np = false -> m_coder s = co /\ m_probs s = t /\ probs_ok t /\ exists c, co = Some c /\ coder_ok c full).

  Definition live (s : lzma2) : Prop :=
    m_end_reached s = false /\ m_error s = None /\ bytes_ok (m_in s) = true.

  Definition at_boundary (st : bool) (s : lzma2) (d : dstate) : Prop :=
    m_uncompressed_size s = 0 /\ rdec_is_finished (m_rc s) = true /\
    win_ok st (m_win s) (d_hist d) /\ w_pending_len (m_win s) = 0 /\
    m_need_dict_reset s = d_need_dict_reset d /\
    coder_abs s (d_coder d) (d_probs d) (d_need_props d) (w_full (m_win s)).

  (* the state after a stored chunk of which the bytes [p] are still to come *)
  Definition d_after_unc (hist : list Z) (co : option coder) (t : probs) (np : bool) (p : list Z) : dstate :=
    mkD (rev p ++ hist) (if np then None else co) (if np then PLeaf else t) np false.

  Definition in_unc (st : bool) (s : lzma2) (o : option (list Z * list Z)) : Prop :=
    exists u hist co t np,
      0 < u /\ m_uncompressed_size s = u /\ m_is_lzma_chunk s = false /\
      rdec_is_finished (m_rc s) = true /\ win_ok st (m_win s) hist /\ w_pending_len (m_win s) = 0 /\
      m_need_dict_reset s = false /\ coder_abs s co t np (w_full (m_win s)) /\
      o = if zlen (m_in s) <? u then None
          else oapp (firstn (Z.to_nat u) (m_in s))
                    (adecode ds (d_after_unc hist co t np (firstn (Z.to_nat u) (m_in s))) (skipn (Z.to_nat u) (m_in s))).

  Definition in_lzma (st : bool) (s : lzma2) (o : option (list Z * list Z)) : Prop :=
    exists u c hist,
      0 < u /\ m_uncompressed_size s = u /\ m_is_lzma_chunk s = true /\
      m_need_props s = false /\ m_need_dict_reset s = false /\ m_coder s = Some c /\
      win_ok st (m_win s) hist /\ coder_ok c (w_full (m_win s)) /\
      (0 < w_pending_len (m_win s) -> 0 <= w_pending_dist (m_win s) < w_full (m_win s)) /\
      rng_ok (m_rc s) /\ probs_ok (m_probs s) /\
      o = match alz ds hist c (m_rc s) (m_probs s) u (w_pending_len (m_win s)) (w_pending_dist (m_win s)) with
          | Some (d1, out) => oapp out (adecode ds d1 (m_in s))
          | None => None
          end.

  Definition SInv (st : bool) (s : lzma2) (o : option (list Z * list Z)) : Prop :=
    live s /\
    ((exists d, at_boundary st s d /\ o = adecode ds d (m_in s)) \/ in_unc st s o \/ in_lzma st s o).

  Lemma SInv_live st s o : SInv st s o -> m_end_reached s = false /\ m_error s = None.
  Proof. intros ((H1 & H2 & _) & _). split; assumption. Qed.

  (* what one iteration must establish *)
  Definition step_post (st : bool) (o : option (list Z * list Z)) (len : Z) (out : list Z) (s' : lzma2) : Prop :=
    (st = true -> out <> []) /\ zlen out <= len /\ exists o', SInv true s' o' /\ o = oapp out o'.

  Lemma coder_abs_mono s co t np f1 f2 : coder_abs s co t np f1 -> f1 <= f2 -> coder_abs s co t np f2.
  Proof.
    intros (H1 & H2) Hle. split; [exact H1|]. intros Hnp. destruct (H2 Hnp) as (A & B & C & c & D & E).
    split; [exact A|]. split; [exact B|]. split; [exact C|]. exists c. split; [exact D|]. eapply coder_ok_mono; eassumption.
  Qed.

  (* ---- a stored chunk: one copy step ---------------------------------------------------------- *)
  Lemma body_unc st s o len : live s -> in_unc st s o -> 0 < len ->
    match iter_body s len with
    | Ok (out, s') => step_post st o len out s'
    | _ => o = None
    end.
  Proof.
    intros (Hend & Herr & Hbytes) (u & hist & co & t & np & Hu & Hus & Hlz & Hfin & Hw & Hpl & Hnd & Hca & Ho) Hlen.
    destruct Hw as (R & Hsz & Hst & Hps).
    pose proof R as [_ [[Hp0 Hp01] Hp2] _ _ _ _ _ _].
    unfold iter_body. rewrite Hlz, Hus. cbn [negb].
    set (m := Z.min u len).
    set (n := Z.min (w_size (m_win s) - w_pos (m_win s)) m).
    assert (Hn : 0 <= n <= u) by (unfold n, m; lia).
    assert (Hn1 : st = true -> 1 <= n) by (intros X; specialize (Hps X); unfold n, m; lia).
    destruct (Nat.ltb_spec (length (m_in s)) (Z.to_nat n)) as [Hshort|Hlin].
    { (* the source ends inside the chunk *)
      unfold lzwin_copy_uncompressed. fold n.
      destruct (Z.ltb_spec n 0) as [X|_]; [lia|].
      destruct (Nat.ltb_spec (length (m_in s)) (Z.to_nat n)) as [_|X]; [|lia].
      cbn [obind]. rewrite Ho. destruct (Z.ltb_spec (zlen (m_in s)) u) as [_|X]; [reflexivity|].
      unfold zlen in X. lia. }
    destruct (copy_uncompressed_rel (m_win s) hist (m_in s) m R ltac:(unfold m; lia) Hlin)
      as (w' & Hcp & R' & Hsz' & Hst' & Hps' & Hpl' & Hpd').
    fold n in Hcp, R', Hps'. rewrite Hcp. cbn [obind]. msimpl.
    set (l := firstn (Z.to_nat n) (m_in s)) in *.
    assert (Hll : length l = Z.to_nat n) by (unfold l; apply firstn_length_le; exact Hlin).
    pose proof (flush_rel w' _ R') as HF. pose proof (flush_facts w') as (Hff & Hfp & _).
    destruct (lzwin_flush w') as [out w3]. cbn [fst snd] in Hff, Hfp.
    destruct HF as (Hout & R3 & Hst3 & Hsz3 & _ & Hpl3 & _).
    assert (Hout' : out = l).
    { rewrite Hout. replace (Z.to_nat (w_pos w' - w_start w')) with (length (rev l)).
      - rewrite firstn_app_exact by reflexivity. apply rev_involutive.
      - rewrite rev_length. lia. }
    assert (Hzo : zlen out = n) by (rewrite Hout'; unfold zlen; lia).
    rewrite Hzo.
    destruct (Z.ltb_spec (u - n) 0) as [Hbad|_]; [lia|].
    msimpl. rewrite Hfin. cbn [negb orb].
    unfold lzwin_has_pending. rewrite Hpl3, Hpl', Hpl. change (0 <? 0) with false. rewrite andb_false_r.
    unfold step_post.
    split; [intros Y X; specialize (Hn1 Y); rewrite X in Hzo; unfold zlen in Hzo; cbn [length] in Hzo; lia|].
    split; [unfold n, m in Hzo |- *; lia|].
    assert (Hw3 : win_ok true w3 (rev l ++ hist)).
    { split; [exact R3|]. split; [lia|]. split; [exact Hst3|]. intros _. rewrite Hsz3. apply Hfp; lia. }
    assert (Hlive3 : live (mkLzma2 (skipn (Z.to_nat n) (m_in s)) w3 (m_rc s) (m_probs s) (m_coder s) (u - n) false
                                   (m_need_dict_reset s) (m_need_props s) (m_end_reached s) (m_error s))).
    { unfold live. msimpl. split; [exact Hend|]. split; [exact Herr|]. apply b_skipn. exact Hbytes. }
    assert (Hfull3 : w_full (m_win s) <= w_full w3).
    { rewrite Hff. eapply rel_full_mono; [exact R | exact R' | lia|]. rewrite zlen_app. pose proof (zlen_nonneg (rev l)). lia. }
    assert (Hca3 : coder_abs (mkLzma2 (skipn (Z.to_nat n) (m_in s)) w3 (m_rc s) (m_probs s) (m_coder s) (u - n) false
                                      (m_need_dict_reset s) (m_need_props s) (m_end_reached s) (m_error s)) co t np (w_full w3)).
    { eapply coder_abs_mono; [|exact Hfull3]. exact Hca. }
    (* the specification's view: the payload splits at n *)
    assert (Hlong : zlen (m_in s) <? u = false -> (Z.to_nat u <= length (m_in s))%nat) by (intros X; apply Z.ltb_ge in X; unfold zlen in X; lia).
    assert (Hsplit : firstn (Z.to_nat u) (m_in s) = l ++ firstn (Z.to_nat (u - n)) (skipn (Z.to_nat n) (m_in s))).
    { replace (Z.to_nat u) with (Z.to_nat n + Z.to_nat (u - n))%nat by lia. apply firstn_plus. }
    assert (Hskip : skipn (Z.to_nat u) (m_in s) = skipn (Z.to_nat (u - n)) (skipn (Z.to_nat n) (m_in s))).
    { replace (Z.to_nat u) with (Z.to_nat n + Z.to_nat (u - n))%nat by lia. apply skipn_plus. }
    destruct (Z.eq_dec (u - n) 0) as [Hz|Hnz].
    - (* the chunk is complete: back at a boundary *)
      exists (adecode ds (d_after_unc hist co t np l) (skipn (Z.to_nat n) (m_in s))).
      split.
      + split; [rewrite Hz in Hlive3; rewrite Hz; exact Hlive3|]. left.
        exists (d_after_unc hist co t np l). split; [|reflexivity].
        unfold at_boundary, d_after_unc. msimpl. cbn [d_hist d_coder d_probs d_need_props d_need_dict_reset].
        split; [exact Hz|]. split; [exact Hfin|]. split; [exact Hw3|]. split; [lia|]. split; [exact Hnd|].
        destruct Hca3 as (A & B). split; [exact A|]. intros X. rewrite X. apply B. exact X.
      + rewrite Ho. destruct (Z.ltb_spec (zlen (m_in s)) u) as [X|_]; [unfold zlen in X; lia|].
        rewrite Hsplit, Hskip, Hz. cbn [Z.to_nat firstn skipn]. rewrite app_nil_r, Hout'. reflexivity.
    - (* more of the chunk to come *)
      eexists. split.
      + split; [exact Hlive3|]. right. left.
        exists (u - n), (rev l ++ hist), co, t, np. msimpl.
        split; [lia|]. split; [reflexivity|]. split; [reflexivity|]. split; [exact Hfin|]. split; [exact Hw3|].
        split; [lia|]. split; [exact Hnd|]. split; [exact Hca3|]. reflexivity.
      + rewrite Ho. rewrite (zlen_skipn _ _ Hlin).
        destruct (Z.ltb_spec (zlen (m_in s)) u) as [X|X];
          destruct (Z.ltb_spec (zlen (m_in s) - Z.of_nat (Z.to_nat n)) (u - n)) as [Y|Y]; try lia; [reflexivity|].
        rewrite Hsplit, Hskip, Hout'. rewrite oapp_app. f_equal. f_equal. f_equal.
        unfold d_after_unc. rewrite rev_app_distr, <- app_assoc. reflexivity.
  Qed.

  (* ---- an LZMA chunk: one decode call with whatever budget the buffers allow ------------------- *)
  Lemma body_lzma st s o len : live s -> in_lzma st s o -> 0 < len ->
    match iter_body s len with
    | Ok (out, s') => step_post st o len out s'
    | _ => o = None
    end.
  Proof.
    intros (Hend & Herr & Hbytes) (u & c & hist & Hu & Hus & Hlz & Hnp & Hnd & Hco & Hw & Hcok & Hpd & Hrng & Hpr & Ho) Hlen.
    destruct Hw as (R & Hsz & Hst & Hps). pose proof R as [_ [_ Hp2] _ _ _ _ _ Hpnn].
    unfold iter_body. rewrite Hlz, Hus, Hco. cbn [negb].
    set (m := Z.min u len).
    set (wl := lzwin_set_limit (m_win s) m).
    destruct (set_limit_rel (m_win s) hist m R ltac:(unfold m; lia)) as (Rl & Hpl).
    fold wl in Rl, Hpl.
    assert (Hwl : w_limit wl = Z.min (m + w_pos (m_win s)) (w_size (m_win s))) by reflexivity.
    assert (Hwl1 : w_size wl = w_size (m_win s)) by reflexivity.
    assert (Hwl2 : w_pos wl = w_pos (m_win s)) by reflexivity.
    assert (Hwl3 : w_full wl = w_full (m_win s)) by reflexivity.
    assert (Hwl4 : w_start wl = w_start (m_win s)) by reflexivity.
    assert (Hwl5 : w_pending_len wl = w_pending_len (m_win s)) by reflexivity.
    assert (Hwl6 : w_pending_dist wl = w_pending_dist (m_win s)) by reflexivity.
    set (b := w_limit wl - w_pos wl).
    assert (Hb : 0 <= b <= u) by (unfold b; rewrite Hwl, Hwl2; unfold m; lia).
    assert (Hb1 : st = true -> 1 <= b) by (intros X; specialize (Hps X); unfold b; rewrite Hwl, Hwl2; unfold m; lia).
    assert (Hblen : b <= len) by (unfold b; rewrite Hwl, Hwl2; unfold m; lia).
    pose proof (lzma_decode_abs c wl hist (m_rc s) (m_probs s) (Z.to_nat b) Rl
                  ltac:(rewrite Hwl3; exact Hcok) Hpl ltac:(unfold b in *; lia)
                  ltac:(rewrite Hwl5, Hwl6, Hwl3; exact Hpd)) as HA.
    rewrite Hwl1, Hwl5, Hwl6, Hsz in HA.
    set (a0 := mkAstate c hist ds (w_pending_len (m_win s)) (w_pending_dist (m_win s))) in *.
    assert (Hsplit : run_rc (aproduce (Z.to_nat u) a0) (m_rc s) (m_probs s) =
                     match run_rc (aproduce (Z.to_nat b) a0) (m_rc s) (m_probs s) with
                     | Ok (s1, Ok _, d1, t1) => run_rc (aproduce (Z.to_nat (u - b)) s1) d1 t1
                     | Ok (s1, st, d1, t1) => Ok (s1, st, d1, t1)
                     | Err e => Err e
                     | Panic e => Panic e
                     | Fuel => Fuel
                     end).
    { rewrite <- run_rc_split. replace (Z.to_nat b + Z.to_nat (u - b))%nat with (Z.to_nat u) by lia. reflexivity. }
    unfold alz in Ho. fold a0 in Ho. rewrite Hsplit in Ho. clear Hsplit.
    destruct (run_rc (aproduce (Z.to_nat b) a0) (m_rc s) (m_probs s)) as [[[[s1 st1] d1] t1]|e|e|] eqn:Hrun;
      [|rewrite HA; cbn [obind]; exact Ho..].
    destruct HA as (w1 & Hdec & Hloop). rewrite Hdec. cbn [obind].
    destruct st1 as [[]|e|e|]; [|exact Ho..].
    cbn [obind]. msimpl.
    unfold loop_rel in Hloop.
    destruct Hloop as (_ & _ & R1 & Hd1 & Hsz1 & Hli1 & Hst1 & Hpos1 & Hzl1 & Hpl1 & Hok1 & Hpd1).
    destruct (Hok1 eq_refl) as (Hcok1 & _). clear Hok1.
    pose proof (run_rc_pall _ _ (aproduce_grows (Z.to_nat b) a0) _ _ _ _ _ Hrun) as (_ & Hg1 & _).
    cbn [fst snd] in Hg1. destruct (Hg1 eq_refl) as (new1 & Hh1 & Hl1). clear Hg1.
    unfold a0 in Hh1; cbn [a_hist] in Hh1.
    destruct (run_rc_rng _ _ _ _ _ _ Hpr Hrng Hrun) as (Hrng1 & Hpr1).
    assert (Hadv : w_pos w1 - w_pos wl = b).
    { rewrite Hh1, zlen_app in Hzl1. unfold zlen in Hzl1 at 1. lia. }
    (* the flush *)
    pose proof (flush_rel w1 _ R1) as HF. pose proof (flush_facts w1) as (Hff & Hfp & _).
    destruct (lzwin_flush w1) as [out w3]. cbn [fst snd] in Hff, Hfp.
    destruct HF as (Hout & R3 & Hst3 & Hsz3 & _ & Hpl3 & Hpd3).
    assert (Hout' : out = rev new1).
    { rewrite Hout. f_equal. rewrite Hh1. apply firstn_app_exact. lia. }
    assert (Hzo : zlen out = b) by (rewrite Hout'; unfold zlen; rewrite rev_length; lia).
    rewrite Hzo.
    destruct (Z.ltb_spec (u - b) 0) as [Hbad|_]; [lia|].
    msimpl.
    assert (Hw3 : win_ok true w3 (a_hist s1)).
    { split; [exact R3|]. split; [lia|]. split; [exact Hst3|]. intros _. rewrite Hsz3. apply Hfp; [lia|].
      destruct R1 as [_ [_ X] _ _ _ _ _ _]. exact X. }
    assert (Hne : st = true -> out <> []).
    { intros Y X; specialize (Hb1 Y); rewrite X in Hzo; unfold zlen in Hzo; cbn [length] in Hzo; lia. }
    (* the specification: the rest of the chunk after these b bytes *)
    replace (Z.to_nat u) with (Z.to_nat b + Z.to_nat (u - b))%nat in Ho by lia.
    rewrite (alz_fin_cont (Z.to_nat b) (Z.to_nat (u - b)) s1 new1 hist d1 t1 Hh1 Hl1) in Ho.
    assert (Hlive3 : forall us, live (mkLzma2 (m_in s) w3 (rdec_normalize d1) t1 (Some (a_coder s1)) us true
                                       (m_need_dict_reset s) (m_need_props s) (m_end_reached s) (m_error s))).
    { intros us. unfold live. msimpl. auto. }
    destruct (Z.eqb_spec (u - b) 0) as [Hz|Hnz].
    - (* the chunk is complete *)
      rewrite Hz in Ho. cbn [Z.to_nat aproduce run_rc alz_fin] in Ho.
      unfold lzwin_has_pending. rewrite Hpl3, Hpl1.
      assert (Hpn : 0 <= a_pend_len s1) by (rewrite <- Hpl1; destruct R1; assumption).
      destruct (rdec_is_finished (rdec_normalize d1)) eqn:Efin.
      2:{ cbn [negb orb andb]. exact Ho. }
      destruct (Z.ltb_spec 0 (a_pend_len s1)) as [Hpos|Hzero].
      { cbn [negb orb andb].
        destruct (Z.leb_spec (a_pend_len s1) 0) as [X|_]; [lia|]. exact Ho. }
      cbn [negb orb andb].
      destruct (Z.leb_spec (a_pend_len s1) 0) as [_|X]; [|lia]. cbn [andb out_pre firstn rev] in Ho.
      unfold step_post. split; [exact Hne|]. split; [lia|].
      exists (adecode ds (mkD (a_hist s1) (Some (a_coder s1)) t1 false false) (m_in s)). split.
      + split; [rewrite Hz; apply Hlive3|]. left. eexists. split; [|reflexivity].
        unfold at_boundary. msimpl. cbn [d_hist d_coder d_probs d_need_props d_need_dict_reset].
        split; [exact Hz|]. split; [exact Efin|]. split; [exact Hw3|]. split; [lia|]. split; [exact Hnd|].
        split; [exact Hnp|]. intros _. split; [reflexivity|]. split; [reflexivity|]. split; [exact Hpr1|].
        exists (a_coder s1). split; [reflexivity|]. rewrite Hff. exact Hcok1.
      + rewrite Ho, Hout', app_nil_r. reflexivity.
    - (* more of the chunk to come *)
      cbn [andb].
      unfold step_post. split; [exact Hne|]. split; [lia|].
      eexists. split.
      + split; [apply Hlive3|]. right. right.
        exists (u - b), (a_coder s1), (a_hist s1). msimpl.
        split; [lia|]. split; [reflexivity|]. split; [reflexivity|]. split; [exact Hnp|]. split; [exact Hnd|].
        split; [reflexivity|]. split; [exact Hw3|]. split; [rewrite Hff; exact Hcok1|].
        split.
        { rewrite Hpl3, Hpd3, Hff, Hpl1. intros Hpos. destruct (Hpd1 Hpos) as (X1 & X2). rewrite X1. exact X2. }
        split; [apply norm_rng; exact Hrng1|]. split; [exact Hpr1|]. reflexivity.
      + rewrite Ho.
        rewrite (alz_norm ds (a_hist s1) (a_coder s1) d1 t1 (u - b) (w_pending_len w3) (w_pending_dist w3) (a_pend_dist s1) Hrng1).
        2:{ rewrite Hpl3, Hpd3, Hpl1. intros Hpos. apply (Hpd1 Hpos). }
        unfold alz. rewrite Hpl3, Hpl1.
        replace (mkAstate (a_coder s1) (a_hist s1) ds (a_pend_len s1) (a_pend_dist s1)) with s1
          by (destruct s1 as [c1 h1 dd pl1 pd1]; cbn [a_coder a_hist a_dict a_pend_len a_pend_dist] in *; subst dd; rewrite Hwl1, Hsz; reflexivity).
        destruct (alz_fin (Z.to_nat (u - b)) (run_rc (aproduce (Z.to_nat (u - b)) s1) d1 t1)) as [[d2 o2]|]; [|reflexivity].
        cbn [out_pre]. rewrite oapp_app, Hout'. reflexivity.
  Qed.

  (* ---- chunk headers ------------------------------------------------------------------------- *)
  Lemma astep_lzma d c u1 u2 c1 c2 b1 : (128 <=? c) = true ->
    astep ds d (mkChunk c (c :: u1 :: u2 :: c1 :: c2 :: b1)) =
    if negb ((224 <=? c) || (c =? 1)) && d_need_dict_reset d then None else
    match (if 192 <=? c then
             match lzma2_decode_props b1 with
             | Ok (cd, b2) => Some (cd, PLeaf, b2)
             | _ => None
             end
           else if (if (224 <=? c) || (c =? 1) then true else d_need_props d) then None
           else match d_coder d with
                | None => None
                | Some cd => if 160 <=? c then Some (coder_reset cd, PLeaf, b1) else Some (cd, d_probs d, b1)
                end) with
    | None => None
    | Some (cd, t, payload) =>
        match rdec_prepare payload (c1 * 256 + c2 + 1) with
        | Ok (rc, []) => alz ds (if (224 <=? c) || (c =? 1) then [] else d_hist d) cd rc t
                             (Z.shiftl (Z.land c 31) 16 + (u1 * 256 + u2) + 1) 0 0
        | _ => None
        end
    end.
  Proof. intros H. unfold astep. cbn [c_bytes c_ctrl]. rewrite Z.eqb_refl, H. reflexivity. Qed.

  Lemma hdr_lz_tail st s d c hd cd t in4 w1 hist1 usize csize o :
    m_end_reached s = false -> m_error s = None -> bytes_ok in4 = true -> 0 < usize ->
    win_ok st w1 hist1 -> w_pending_len w1 = 0 -> coder_ok cd (w_full w1) -> probs_ok t ->
    (forall payload, astep ds d (mkChunk c (hd ++ payload)) =
        match rdec_prepare payload csize with
        | Ok (rc, []) => alz ds hist1 cd rc t usize 0 0
        | _ => None
        end) ->
    o = match take_n (Z.to_nat csize) in4 with
        | None => None
        | Some (payload, rest) =>
            match astep ds d (mkChunk c (hd ++ payload)) with
            | Some (d1, o1) => oapp o1 (adecode ds d1 rest)
            | None => None
            end
        end ->
    match lz_tail s w1 usize csize false (Some cd, t, false, in4) with
    | Ok s1 => live s1 /\ in_lzma st s1 o
    | _ => o = None
    end.
  Proof.
    intros Hend Herr Hb4 Husz Hw Hpl Hcok Hpr Hast Ho. unfold lz_tail.
    destruct (take_n_cases (Z.to_nat csize) in4) as [(Hshort & Ht) | (Hlong & Ht)]; rewrite Ht in Ho.
    - destruct (rdec_prepare_short in4 csize Hshort) as (e & He). rewrite He. cbn [obind]. exact Ho.
    - remember (firstn (Z.to_nat csize) in4) as payload eqn:Epay.
      remember (skipn (Z.to_nat csize) in4) as rest eqn:Erest.
      assert (Hin4 : in4 = payload ++ rest) by (subst payload rest; symmetry; apply firstn_skipn).
      assert (Hlp : length payload = Z.to_nat csize) by (subst payload; apply firstn_length_le; exact Hlong).
      assert (Hbr : bytes_ok rest = true) by (subst rest; apply b_skipn; exact Hb4).
      pose proof (rdec_prepare_exact payload rest csize Hlp) as HE. rewrite Hast in Ho.
      rewrite Hin4.
      destruct (rdec_prepare payload csize) as [[rc r]|e|e|]; try contradiction.
      + destruct HE as (-> & Hrng & HE). rewrite HE. cbn [obind].
        split; [unfold live; msimpl; auto|].
        exists usize, cd, hist1. msimpl.
        split; [exact Husz|]. split; [reflexivity|]. split; [reflexivity|]. split; [reflexivity|]. split; [reflexivity|].
        split; [reflexivity|]. split; [exact Hw|]. split; [exact Hcok|]. split; [rewrite Hpl; intros X; lia|].
        split; [exact Hrng|]. split; [exact Hpr|].
        rewrite Hpl. rewrite (alz_pd ds hist1 cd rc t usize 0 (w_pending_dist w1) 0) by (intros X; lia). exact Ho.
      + rewrite HE. cbn [obind]. exact Ho.
  Qed.

  Lemma hdr_lz st s d c in1 w1 np1 hist1 :
    m_end_reached s = false -> m_error s = None -> bytes_ok in1 = true -> 0 <= c < 256 ->
    (c =? 0) = false -> (128 <=? c) = true ->
    (negb ((224 <=? c) || (c =? 1)) && d_need_dict_reset d) = false ->
    hist1 = (if (224 <=? c) || (c =? 1) then [] else d_hist d) ->
    np1 = (if (224 <=? c) || (c =? 1) then true else d_need_props d) ->
    win_ok st w1 hist1 -> w_pending_len w1 = 0 ->
    (np1 = false -> m_coder s = d_coder d /\ m_probs s = d_probs d /\ probs_ok (d_probs d) /\
                    exists c0, d_coder d = Some c0 /\ coder_ok c0 (w_full w1)) ->
    match lz_part s c in1 w1 np1 false with
    | Ok s1 => live s1 /\ in_lzma st s1 (adecode ds d (c :: in1))
    | _ => adecode ds d (c :: in1) = None
    end.
  Proof.
    intros Hend Herr Hb1 Hc H0 H128 Hr Hh1 Hn1 Hw Hpl Hco.
    unfold lz_part.
    destruct in1 as [|u1 [|u2 [|c1 [|c2 in3]]]]; cbn [read_u16_be obind];
      try (apply adecode_short_lzma; [assumption | assumption | cbn [length]; lia]).
    apply bytes_ok_cons in Hb1 as (Hu1 & Hb1). apply bytes_ok_cons in Hb1 as (Hu2 & Hb1).
    apply bytes_ok_cons in Hb1 as (Hc1 & Hb1). apply bytes_ok_cons in Hb1 as (Hc2 & Hb3).
    cbv zeta.
    set (usize := Z.shiftl (Z.land c 31) 16 + (u1 * 256 + u2) + 1).
    set (csize := c1 * 256 + c2 + 1).
    assert (Husz : 0 < usize).
    { unfold usize. change 31 with (Z.ones 5). rewrite Z.land_ones by lia. rewrite Z.shiftl_mul_pow2 by lia.
      change (2 ^ 5) with 32. change (2 ^ 16) with 65536. lia. }
    rewrite (adecode_lzma ds d c u1 u2 c1 c2 in3 H0 H128). fold csize.
    destruct (192 <=? c) eqn:E192.
    - destruct in3 as [|pr in4]; [reflexivity|].
      apply bytes_ok_cons in Hb3 as (Hpr & Hb4).
      unfold lzma2_decode_props at 1. cbn [read_u8 obind].
      destruct (224 <? pr) eqn:Epr.
      { cbn [obind]. destruct (take_n (Z.to_nat csize) in4) as [[payload rest]|]; [|reflexivity].
        cbn [app]. rewrite astep_lzma by exact H128. rewrite Hr, E192.
        unfold lzma2_decode_props. cbn [read_u8 obind]. rewrite Epr. reflexivity. }
      cbv zeta.
      destruct (4 <? pr - pr / 45 * 45 - (pr - pr / 45 * 45) / 9 * 9 + (pr - pr / 45 * 45) / 9) eqn:Elclp.
      { cbn [obind]. destruct (take_n (Z.to_nat csize) in4) as [[payload rest]|]; [|reflexivity].
        cbn [app]. rewrite astep_lzma by exact H128. rewrite Hr, E192.
        unfold lzma2_decode_props. cbn [read_u8 obind]. rewrite Epr. cbv zeta. rewrite Elclp. reflexivity. }
      cbn [obind].
      apply Z.ltb_ge in Epr, Elclp.
      apply (hdr_lz_tail st s d c [c; u1; u2; c1; c2; pr] _ PLeaf in4 w1 hist1 usize csize); try assumption.
      + apply coder_new_ok; lia.
      + apply probs_ok_empty.
      + intros payload. cbn [app]. rewrite astep_lzma by exact H128. rewrite Hr, E192.
        unfold lzma2_decode_props. cbn [read_u8 obind].
        destruct (Z.ltb_spec 224 pr) as [X|_]; [lia|]. cbv zeta.
        destruct (Z.ltb_spec 4 (pr - pr / 45 * 45 - (pr - pr / 45 * 45) / 9 * 9 + (pr - pr / 45 * 45) / 9)) as [X|_]; [lia|].
        rewrite <- Hh1. reflexivity.
      + reflexivity.
    - destruct np1 eqn:Enp.
      + cbn [obind]. destruct (take_n (Z.to_nat csize) in3) as [[payload rest]|]; [|reflexivity].
        cbn [app]. rewrite astep_lzma by exact H128. rewrite Hr, E192, <- Hn1. reflexivity.
      + destruct (Hco eq_refl) as (Hc1' & Hp1 & Hpok & c0 & Hc0 & Hcok0).
        rewrite Hc1', Hc0, Hp1.
        destruct (160 <=? c) eqn:E160; cbn [obind].
        * apply (hdr_lz_tail st s d c [c; u1; u2; c1; c2] _ PLeaf in3 w1 hist1 usize csize); try assumption.
          -- unfold coder_reset. destruct Hcok0 as ((A1 & A2 & A3) & _). apply coder_new_ok; assumption.
          -- apply probs_ok_empty.
          -- intros payload. cbn [app]. rewrite astep_lzma by exact H128. rewrite Hr, E192, <- Hn1, Hc0, E160, <- Hh1. reflexivity.
          -- reflexivity.
        * apply (hdr_lz_tail st s d c [c; u1; u2; c1; c2] _ (d_probs d) in3 w1 hist1 usize csize); try assumption.
          -- intros payload. cbn [app]. rewrite astep_lzma by exact H128. rewrite Hr, E192, <- Hn1, Hc0, E160, <- Hh1. reflexivity.
          -- reflexivity.
  Qed.

  Lemma hdr_unc st s d c in1 w1 np1 hist1 :
    m_end_reached s = false -> m_error s = None -> bytes_ok in1 = true ->
    (c =? 0) = false -> (128 <=? c) = false -> ((c =? 1) || (c =? 2)) = true ->
    (negb ((224 <=? c) || (c =? 1)) && d_need_dict_reset d) = false ->
    hist1 = (if (224 <=? c) || (c =? 1) then [] else d_hist d) ->
    np1 = (if (224 <=? c) || (c =? 1) then true else d_need_props d) ->
    win_ok st w1 hist1 -> w_pending_len w1 = 0 -> rdec_is_finished (m_rc s) = true ->
    (np1 = false -> m_coder s = d_coder d /\ m_probs s = d_probs d /\ probs_ok (d_probs d) /\
                    exists c0, d_coder d = Some c0 /\ coder_ok c0 (w_full w1)) ->
    match unc_part s in1 w1 np1 false with
    | Ok s1 => live s1 /\ in_unc st s1 (adecode ds d (c :: in1))
    | _ => adecode ds d (c :: in1) = None
    end.
  Proof.
    intros Hend Herr Hb1 H0 H128 H12 Hr Hh1 Hn1 Hw Hpl Hfin Hco.
    unfold unc_part.
    destruct in1 as [|s0 [|s1 in2]]; cbn [read_u16_be obind];
      try (apply adecode_short_unc; [assumption | assumption | cbn [length]; lia]).
    apply bytes_ok_cons in Hb1 as (Hs0 & Hb1). apply bytes_ok_cons in Hb1 as (Hs1 & Hb2).
    set (n := s0 * 256 + s1 + 1). assert (Hn : 0 < n) by (unfold n; lia).
    split; [unfold live; msimpl; auto|].
    exists n, hist1, (d_coder d), (d_probs d), np1. msimpl.
    split; [exact Hn|]. split; [reflexivity|]. split; [reflexivity|]. split; [exact Hfin|]. split; [exact Hw|].
    split; [exact Hpl|]. split; [reflexivity|].
    split; [split; [reflexivity | exact Hco]|].
    rewrite (adecode_unc ds d c s0 s1 in2 H0 H128 H12). fold n.
    destruct (take_n_cases (Z.to_nat n) in2) as [(Hshort & Ht) | (Hlong & Ht)]; rewrite Ht.
    - destruct (Z.ltb_spec (zlen in2) n) as [_|X]; [reflexivity | unfold zlen in X; lia].
    - destruct (Z.ltb_spec (zlen in2) n) as [X|_]; [unfold zlen in X; lia|].
      unfold astep. cbn [c_bytes c_ctrl]. rewrite Z.eqb_refl, Hr, H128, H12. cbn [negb].
      fold n. rewrite (zlen_firstn _ _ Hlong).
      destruct (Z.eqb_spec (Z.of_nat (Z.to_nat n)) n) as [_|X]; [|lia].
      unfold d_after_unc. rewrite <- Hh1, <- Hn1. reflexivity.
  Qed.

  (* a chunk that does not reset the dictionary while the reader demands it *)
  Lemma adecode_ndr d c in1 : (c =? 0) = false -> ((224 <=? c) || (c =? 1)) = false ->
    d_need_dict_reset d = true -> adecode ds d (c :: in1) = None.
  Proof.
    intros H0 Hr Hd.
    destruct (128 <=? c) eqn:E128.
    - destruct in1 as [|u1 [|u2 [|c1 [|c2 in3]]]];
        try (apply adecode_short_lzma; [assumption | assumption | cbn [length]; lia]).
      rewrite (adecode_lzma ds d c u1 u2 c1 c2 in3 H0 E128).
      destruct (if 192 <=? c then match in3 with [] => None | pr :: in4 => Some ([pr], in4) end else Some ([], in3))
        as [[prl in4]|]; [|reflexivity].
      destruct (take_n _ in4) as [[payload rest]|]; [|reflexivity].
      rewrite astep_lzma by exact E128. rewrite Hr, Hd. reflexivity.
    - destruct ((c =? 1) || (c =? 2)) eqn:E12; [|apply adecode_bad_ctrl; assumption].
      destruct in1 as [|s0 [|s1 in2]]; try (apply adecode_short_unc; [assumption | assumption | cbn [length]; lia]).
      rewrite (adecode_unc ds d c s0 s1 in2 H0 E128 E12).
      destruct (take_n _ in2) as [[payload rest]|]; [|reflexivity].
      unfold astep. cbn [c_bytes c_ctrl]. rewrite Z.eqb_refl, Hr, Hd. reflexivity.
  Qed.

  Lemma header_sim st s d : live s -> at_boundary st s d ->
    match lzma2_chunk_header s with
    | Ok s1 =>
        (m_end_reached s1 = true /\ m_error s1 = None /\ adecode ds d (m_in s) = Some ([], m_in s1)) \/
        (m_end_reached s1 = false /\ live s1 /\
         (in_unc st s1 (adecode ds d (m_in s)) \/ in_lzma st s1 (adecode ds d (m_in s))))
    | _ => adecode ds d (m_in s) = None
    end.
  Proof.
    intros (Hend & Herr & Hbytes) (Hus & Hfin & (R & Hsz & Hst & Hps) & Hpl & Hndr & (Hnp & Hcoder)).
    rewrite chunk_header_eq.
    destruct (m_in s) as [|c in1] eqn:Ein; cbn [read_u8 obind]; [apply adecode_nil|].
    apply bytes_ok_cons in Hbytes as (Hc & Hb1).
    destruct (Z.eqb_spec c 0) as [Hc0|Hc0].
    { subst c. left. msimpl. split; [reflexivity|]. split; [exact Herr | apply adecode_term]. }
    assert (H0 : (c =? 0) = false) by (apply Z.eqb_neq; exact Hc0).
    pose proof R as [[Hs0 Hs16] _ _ _ _ _ _ Hpe].
    destruct (reset_rel (m_win s) Hs0 Hs16 Hpe) as (wr & Hreset & Rr & Hszr & Hstr & Hpor & Hfur & Hplr & _).
    unfold win_part.
    destruct ((224 <=? c) || (c =? 1)) eqn:Er.
    - rewrite Hreset. cbn [obind].
      assert (Hwr : win_ok st wr []) by (split; [exact Rr|]; split; [lia|]; split; [lia|]; intros _; lia).
      destruct (128 <=? c) eqn:E128.
      + pose proof (hdr_lz st s d c in1 wr true [] Hend Herr Hb1 Hc H0 E128
                      ltac:(rewrite Er; reflexivity) ltac:(rewrite Er; reflexivity) ltac:(rewrite Er; reflexivity)
                      Hwr ltac:(lia) ltac:(intros X; discriminate X)) as HL.
        destruct (lz_part s c in1 wr true false) as [s1|e|e|]; try exact HL.
        destruct HL as (Hl1 & Hi1). right. split; [apply Hl1|]. split; [exact Hl1|]. right. exact Hi1.
      + assert (Hc1 : c = 1).
        { apply orb_true_iff in Er as [X|X]; [apply Z.leb_le in X; apply Z.leb_gt in E128; lia | apply Z.eqb_eq in X; exact X]. }
        subst c. change (2 <? 1) with false. cbv iota.
        pose proof (hdr_unc st s d 1 in1 wr true [] Hend Herr Hb1 H0 E128 eq_refl
                      eq_refl eq_refl eq_refl Hwr ltac:(lia) Hfin ltac:(intros X; discriminate X)) as HL.
        destruct (unc_part s in1 wr true false) as [s1|e|e|]; try exact HL.
        destruct HL as (Hl1 & Hi1). right. split; [apply Hl1|]. split; [exact Hl1|]. left. exact Hi1.
    - destruct (m_need_dict_reset s) eqn:Endr.
      { cbn [obind]. apply adecode_ndr; [exact H0 | exact Er | symmetry; exact Hndr]. }
      cbn [obind].
      assert (Hw : win_ok st (m_win s) (d_hist d)) by (split; [exact R|]; split; [exact Hsz|]; split; assumption).
      assert (Hr : (negb ((224 <=? c) || (c =? 1)) && d_need_dict_reset d) = false) by (rewrite <- Hndr; apply andb_false_r).
      destruct (128 <=? c) eqn:E128.
      + pose proof (hdr_lz st s d c in1 (m_win s) (m_need_props s) (d_hist d) Hend Herr Hb1 Hc H0 E128 Hr
                      ltac:(rewrite Er; reflexivity) ltac:(rewrite Er; exact Hnp) Hw Hpl
                      ltac:(intros X; apply Hcoder; rewrite <- Hnp; exact X)) as HL.
        destruct (lz_part s c in1 (m_win s) (m_need_props s) false) as [s1|e|e|]; try exact HL.
        destruct HL as (Hl1 & Hi1). right. split; [apply Hl1|]. split; [exact Hl1|]. right. exact Hi1.
      + destruct (2 <? c) eqn:E2.
        { apply adecode_bad_ctrl; [exact H0 | exact E128|].
          apply Z.ltb_lt in E2. apply orb_false_iff. split; apply Z.eqb_neq; lia. }
        assert (H12 : ((c =? 1) || (c =? 2)) = true).
        { apply Z.ltb_ge in E2. apply orb_true_iff. destruct (Z.eq_dec c 1); [left | right]; apply Z.eqb_eq; lia. }
        pose proof (hdr_unc st s d c in1 (m_win s) (m_need_props s) (d_hist d) Hend Herr Hb1 H0 E128 H12 Hr
                      ltac:(rewrite Er; reflexivity) ltac:(rewrite Er; exact Hnp) Hw Hpl Hfin
                      ltac:(intros X; apply Hcoder; rewrite <- Hnp; exact X)) as HL.
        destruct (unc_part s in1 (m_win s) (m_need_props s) false) as [s1|e|e|]; try exact HL.
        destruct HL as (Hl1 & Hi1). right. split; [apply Hl1|]. split; [exact Hl1|]. left. exact Hi1.
  Qed.

  (* ---- one iteration of the loop of read_decode ------------------------------------------------ *)
  Lemma iter_sim st s o len : SInv st s o -> 0 < len ->
    match lzma2_iter s len with
    | Ok (out, s') =>
        (out = [] /\ m_end_reached s' = true /\ m_error s' = None /\ o = Some ([], m_in s')) \/
        step_post st o len out s'
    | _ => o = None
    end.
  Proof.
    intros (Hlive & [(d & Hb & Ho) | [Hu | Hl]]) Hlen; rewrite lzma2_iter_eq.
    - pose proof Hb as (Hus & _). rewrite Hus. change (0 =? 0) with true. cbv iota.
      pose proof (header_sim st s d Hlive Hb) as HH. rewrite <- Ho in HH.
      destruct (lzma2_chunk_header s) as [s1|e|e|]; cbn [obind]; try exact HH.
      destruct HH as [(He & Herr1 & Had) | (He & Hl1 & [Hu1 | Hl1'])]; rewrite He.
      + left. auto.
      + pose proof (body_unc st s1 o len Hl1 Hu1 Hlen) as HB.
        destruct (iter_body s1 len) as [[out s']|e|e|]; try exact HB. right. exact HB.
      + pose proof (body_lzma st s1 o len Hl1 Hl1' Hlen) as HB.
        destruct (iter_body s1 len) as [[out s']|e|e|]; try exact HB. right. exact HB.
    - pose proof Hu as (u & hist & co & t & np & Hu0 & Hus & _).
      rewrite Hus. destruct (Z.eqb_spec u 0) as [X|_]; [lia|]. cbn [obind].
      destruct Hlive as (Hend & Hrest). rewrite Hend.
      pose proof (body_unc st s o len (conj Hend Hrest) Hu Hlen) as HB.
      destruct (iter_body s len) as [[out s']|e|e|]; try exact HB. right. exact HB.
    - pose proof Hl as (u & c & hist & Hu0 & Hus & _).
      rewrite Hus. destruct (Z.eqb_spec u 0) as [X|_]; [lia|]. cbn [obind].
      destruct Hlive as (Hend & Hrest). rewrite Hend.
      pose proof (body_lzma st s o len (conj Hend Hrest) Hl Hlen) as HB.
      destruct (iter_body s len) as [[out s']|e|e|]; try exact HB. right. exact HB.
  Qed.

  (* ---- the error of a failing iteration is an io::Error kind of the reader (never 0, the model's
          "end of stream" status) -------------------------------------------------------------------- *)
  Ltac err_tac :=
    repeat match goal with
           | |- Err _ = Err _ -> _ => let H := fresh "H" in intros H; inversion H; auto
           | |- Ok _ = Err _ -> _ => discriminate
           | |- Panic _ = Err _ -> _ => discriminate
           | |- Fuel = Err _ -> _ => discriminate
           | |- context [match ?x with _ => _ end] => destruct x; cbn [obind]
           end.

  Definition err_kind (e : Z) : Prop := e = E_INVALID_INPUT \/ e = E_UNEXPECTED_EOF \/ e = E_OTHER.

  Lemma header_err s e : lzma2_chunk_header s = Err e -> err_kind e.
  Proof.
    unfold err_kind, lzma2_chunk_header, read_u8, read_u16_be, lzma2_decode_props, read_u8, rdec_prepare, lzwin_reset.
    err_tac.
  Qed.

  Lemma body_unc_err s len e : m_is_lzma_chunk s = false -> iter_body s len = Err e -> err_kind e.
  Proof.
    intros Hlz. unfold err_kind, iter_body, lzwin_copy_uncompressed. rewrite Hlz. cbn [negb]. err_tac.
  Qed.

  Lemma body_lzma_err st s o len e : live s -> in_lzma st s o -> 0 < len -> iter_body s len = Err e -> err_kind e.
  Proof.
    intros (Hend & Herr & Hbytes) (u & c & hist & Hu & Hus & Hlz & Hnp & Hnd & Hco & Hw & Hcok & Hpd & Hrng & Hpr & Ho) Hlen.
    destruct Hw as (R & Hsz & Hst & Hps). pose proof R as [_ [_ Hp2] _ _ _ _ _ Hpnn].
    unfold iter_body. rewrite Hlz, Hus, Hco. cbn [negb].
    set (m := Z.min u len).
    set (wl := lzwin_set_limit (m_win s) m).
    destruct (set_limit_rel (m_win s) hist m R ltac:(unfold m; lia)) as (Rl & Hpl).
    fold wl in Rl, Hpl.
    assert (Hwl : w_limit wl = Z.min (m + w_pos (m_win s)) (w_size (m_win s))) by reflexivity.
    assert (Hwl1 : w_size wl = w_size (m_win s)) by reflexivity.
    assert (Hwl2 : w_pos wl = w_pos (m_win s)) by reflexivity.
    assert (Hwl3 : w_full wl = w_full (m_win s)) by reflexivity.
    assert (Hwl5 : w_pending_len wl = w_pending_len (m_win s)) by reflexivity.
    assert (Hwl6 : w_pending_dist wl = w_pending_dist (m_win s)) by reflexivity.
    set (b := w_limit wl - w_pos wl).
    assert (Hb : 0 <= b <= u) by (unfold b; rewrite Hwl, Hwl2; unfold m; lia).
    pose proof (lzma_decode_abs c wl hist (m_rc s) (m_probs s) (Z.to_nat b) Rl
                  ltac:(rewrite Hwl3; exact Hcok) Hpl ltac:(unfold b in *; lia)
                  ltac:(rewrite Hwl5, Hwl6, Hwl3; exact Hpd)) as HA.
    set (a0 := mkAstate c hist (w_size wl) (w_pending_len wl) (w_pending_dist wl)) in *.
    destruct (run_rc (aproduce (Z.to_nat b) a0) (m_rc s) (m_probs s)) as [[[[s1 st1] d1] t1]|e0|e0|] eqn:Hrun.
    - destruct HA as (w1 & Hdec & _). rewrite Hdec. cbn [obind].
      pose proof (run_rc_pall _ _ (aproduce_status6 _ a0) _ _ _ _ _ Hrun) as Hst1. cbn [snd] in Hst1.
      unfold err_kind. destruct Hst1 as [-> | ->].
      + cbn [obind]. msimpl. destruct (lzwin_flush w1) as [out w3].
        destruct (_ <? 0); [discriminate|]. destruct (_ && _); [|discriminate].
        intros H; inversion H. left; reflexivity.
      + intros H; inversion H. right; right; reflexivity.
    - exfalso. exact (run_rc_pne _ (aproduce_pne _ a0) _ _ _ Hrun).
    - rewrite HA. discriminate.
    - rewrite HA. discriminate.
  Qed.

  Lemma iter_err st s o len e : SInv st s o -> 0 < len -> lzma2_iter s len = Err e -> err_kind e.
  Proof.
    intros (Hlive & [(d & Hb & Ho) | [Hu | Hl]]) Hlen; rewrite lzma2_iter_eq.
    - pose proof Hb as (Hus & _). rewrite Hus. change (0 =? 0) with true. cbv iota.
      pose proof (header_sim st s d Hlive Hb) as HH. pose proof (header_err s) as HE.
      destruct (lzma2_chunk_header s) as [s1|e1|e1|]; cbn [obind]; try discriminate.
      2:{ intros H; inversion H; subst. apply HE. reflexivity. }
      destruct HH as [(He & _) | (He & Hl1 & [Hu1 | Hl1'])]; rewrite He; [discriminate| |].
      + apply body_unc_err. destruct Hu1 as (u & hist & co & t & np & _ & _ & Hlz & _). exact Hlz.
      + eapply body_lzma_err; eassumption.
    - pose proof Hu as (u & hist & co & t & np & Hu0 & Hus & Hlz & _).
      rewrite Hus. destruct (Z.eqb_spec u 0) as [X|_]; [lia|]. cbn [obind].
      destruct Hlive as (Hend & Hrest). rewrite Hend. apply body_unc_err. exact Hlz.
    - pose proof Hl as (u & c & hist & Hu0 & Hus & _).
      rewrite Hus. destruct (Z.eqb_spec u 0) as [X|_]; [lia|]. cbn [obind].
      pose proof Hlive as (Hend & Hrest). rewrite Hend. eapply body_lzma_err; eassumption.
  Qed.

  Lemma loop_err : forall fuel st s len acc o e,
    SInv st s o -> 0 <= len -> lzma2_read_loop fuel s len acc = Err e -> err_kind e.
  Proof.
    induction fuel as [|f IH]; intros st s len acc o e HI Hlen Hr.
    - cbn [lzma2_read_loop] in Hr. destruct (len <=? 0); discriminate.
    - destruct (Z.eq_dec len 0) as [Hz|Hnz]; [rewrite l2_read_loop_done in Hr by lia; discriminate|].
      rewrite l2_read_loop_step in Hr by lia.
      pose proof (iter_sim st s o len HI ltac:(lia)) as HS. pose proof (iter_err st s o len) as HE.
      destruct (lzma2_iter s len) as [[out s']|e1|e1|]; cbn [obind] in Hr; try discriminate.
      2:{ inversion Hr; subst. apply HE; [exact HI | lia | reflexivity]. }
      destruct HS as [(Hout & He & _) | (Hne & Hle & o' & HI' & Ho)].
      + rewrite He in Hr. discriminate.
      + destruct (SInv_live true s' o' HI') as (He' & _). rewrite He' in Hr.
        pose proof (zlen_nonneg out). eapply (IH true s' _ _ o' e HI'); [|exact Hr]. lia.
  Qed.

  Lemma read_err st s o sz e : SInv st s o -> 0 < sz -> lzma2_read s sz = Err e -> err_kind e.
  Proof.
    intros HI Hsz Hr. destruct (SInv_live st s o HI) as (He & Herr).
    rewrite l2_read_live in Hr by assumption. eapply loop_err; [exact HI | | exact Hr]. lia.
  Qed.

  Lemma err_kind_nonzero e : err_kind e -> e <> 0.
  Proof. unfold err_kind, E_INVALID_INPUT, E_UNEXPECTED_EOF, E_OTHER. lia. Qed.

  (* ---- from a read history to the specification ("completeness") ------------------------------- *)
  Lemma loop_comp : forall fuel st s len acc o res s1,
    SInv st s o -> 0 <= len -> lzma2_read_loop fuel s len acc = Ok (res, s1) ->
    exists out, res = rev acc ++ out /\
      ((m_end_reached s1 = true /\ m_error s1 = None /\ o = Some (out, m_in s1)) \/
       (m_end_reached s1 = false /\ zlen out = len /\ exists st1 o1, SInv st1 s1 o1 /\ o = oapp out o1)).
  Proof.
    induction fuel as [|f IH]; intros st s len acc o res s1 HI Hlen Hr.
    - cbn [lzma2_read_loop] in Hr. destruct (Z.leb_spec len 0) as [Hle|Hgt]; [|discriminate].
      inversion Hr; subst res s1. exists []. rewrite frev_rev, app_nil_r. split; [reflexivity|].
      right. split; [apply (SInv_live st s o HI)|]. split; [change (zlen (@nil Z)) with 0; lia|].
      exists st, o. split; [exact HI | symmetry; apply oapp_nil].
    - destruct (Z.eq_dec len 0) as [Hz|Hnz].
      + rewrite l2_read_loop_done in Hr by lia. inversion Hr; subst res s1.
        exists []. rewrite frev_rev, app_nil_r. split; [reflexivity|].
        right. split; [apply (SInv_live st s o HI)|]. split; [change (zlen (@nil Z)) with 0; lia|].
        exists st, o. split; [exact HI | symmetry; apply oapp_nil].
      + rewrite l2_read_loop_step in Hr by lia.
        pose proof (iter_sim st s o len HI ltac:(lia)) as HS.
        destruct (lzma2_iter s len) as [[out s']|e|e|]; cbn [obind] in Hr; try discriminate.
        destruct HS as [(Hout & He & Herr & Ho) | (Hne & Hle & o' & HI' & Ho)].
        * rewrite He in Hr. inversion Hr; subst res s1. exists []. rewrite frev_rev, app_nil_r.
          split; [reflexivity|]. left. auto.
        * destruct (SInv_live true s' o' HI') as (He' & _). rewrite He' in Hr.
          pose proof (zlen_nonneg out) as Hzn.
          destruct (IH true s' (len - zlen out) (rev_append out acc) o' res s1 HI' ltac:(lia) Hr)
            as (out2 & Hres & Hcase).
          exists (out ++ out2). rewrite Hres, l2_rev_rev_append, <- app_assoc. split; [reflexivity|].
          destruct Hcase as [(E1 & E2 & E3) | (E1 & E2 & st1 & o1 & E3 & E4)].
          -- left. split; [exact E1|]. split; [exact E2|]. rewrite Ho, E3. reflexivity.
          -- right. split; [exact E1|]. split; [rewrite zlen_app; lia|].
             exists st1, o1. split; [exact E3|]. rewrite Ho, E4. symmetry. apply oapp_app.
  Qed.

  Lemma read_comp st s o sz out s1 : SInv st s o -> 0 < sz -> lzma2_read s sz = Ok (out, s1) ->
    (m_end_reached s1 = true /\ m_error s1 = None /\ o = Some (out, m_in s1)) \/
    (m_end_reached s1 = false /\ zlen out = sz /\ exists st1 o1, SInv st1 s1 o1 /\ o = oapp out o1).
  Proof.
    intros HI Hsz Hr. destruct (SInv_live st s o HI) as (He & Herr).
    rewrite l2_read_live in Hr by assumption.
    destruct (loop_comp _ st s sz [] o out s1 HI ltac:(lia) Hr) as (out' & Hout & Hcase).
    cbn [rev app] in Hout. subst out'. exact Hcase.
  Qed.

  Lemma read_all_comp : forall fuel st s sizes all acc o res stt s_end,
    SInv st s o -> Forall (fun z => 0 < z) sizes -> Forall (fun z => 0 < z) all ->
    lzma2_read_all fuel s sizes all acc = Ok (res, stt, s_end) -> m_end_reached s_end = true ->
    exists data, o = Some (data, m_in s_end) /\ res = rev acc ++ data /\ stt = 0 /\ m_error s_end = None.
  Proof.
    induction fuel as [|f IH]; intros st s sizes all acc o res stt s_end HI Hs Ha Hr Hend; [discriminate|].
    destruct (l2_next_pos sizes all Hs Ha) as (Hsz & Hnext).
    rewrite l2_read_all_step in Hr.
    destruct (lzma2_read s (fst (l2_next sizes all))) as [[out s1]|e|e|] eqn:Hread; try discriminate.
    2:{ inversion Hr; subst res stt s_end. destruct (SInv_live st s o HI) as (He & _).
        unfold lzma2_set_error in Hend. cbn [m_end_reached] in Hend. congruence. }
    destruct (read_comp st s o _ out s1 HI Hsz Hread) as [(E1 & E2 & E3) | (E1 & E2 & st1 & o1 & E3 & E4)].
    - (* the end marker was reached in this call *)
      destruct (Z.ltb_spec 0 (fst (l2_next sizes all))) as [_|X]; [|lia]. cbn [andb] in Hr.
      destruct (Z.eqb_spec (zlen out) 0) as [Hz|Hnz].
      + inversion Hr; subst res stt s_end. apply l2_zlen_zero in Hz. subst out.
        exists []. rewrite frev_rev, app_nil_r. auto.
      + destruct f as [|f']; [discriminate|].
        rewrite (read_all_ended (m_in s1) f' s1 _ all (rev_append out acc)) in Hr.
        * inversion Hr; subst res stt s_end. exists out. rewrite frev_rev, l2_rev_rev_append. auto.
        * split; [exact E1|]. split; [exact E2 | reflexivity].
        * exact Hnext.
        * exact Ha.
    - destruct (Z.ltb_spec 0 (fst (l2_next sizes all))) as [_|X]; [|lia]. cbn [andb] in Hr.
      destruct (Z.eqb_spec (zlen out) 0) as [Hz|Hnz]; [lia|].
      destruct (IH st1 s1 _ all (rev_append out acc) o1 res stt s_end E3 Hnext Ha Hr Hend) as (data & D1 & D2 & D3 & D4).
      exists (out ++ data). rewrite E4, D1, D2, l2_rev_rev_append, <- app_assoc. auto.
  Qed.

  (* status 0 alone: the end marker was reached *)
  Lemma read_all_comp0 : forall fuel st s sizes all acc o res s_end,
    SInv st s o -> Forall (fun z => 0 < z) sizes -> Forall (fun z => 0 < z) all ->
    lzma2_read_all fuel s sizes all acc = Ok (res, 0, s_end) ->
    m_end_reached s_end = true.
  Proof.
    induction fuel as [|f IH]; intros st s sizes all acc o res s_end HI Hs Ha Hr; [discriminate|].
    destruct (l2_next_pos sizes all Hs Ha) as (Hsz & Hnext).
    rewrite l2_read_all_step in Hr.
    destruct (lzma2_read s (fst (l2_next sizes all))) as [[out s1]|e|e|] eqn:Hread; try discriminate.
    2:{ inversion Hr; subst. exfalso. apply (err_kind_nonzero 0); [|reflexivity].
        eapply read_err; [exact HI | exact Hsz | exact Hread]. }
    destruct (Z.ltb_spec 0 (fst (l2_next sizes all))) as [_|X]; [|lia]. cbn [andb] in Hr.
    destruct (read_comp st s o _ out s1 HI Hsz Hread) as [(E1 & E2 & E3) | (E1 & E2 & st1 & o1 & E3 & E4)].
    - destruct (Z.eqb_spec (zlen out) 0) as [Hz|Hnz].
      + inversion Hr; subst. exact E1.
      + destruct f as [|f']; [discriminate|].
        rewrite (read_all_ended (m_in s1) f' s1 _ all (rev_append out acc)) in Hr.
        * inversion Hr; subst. exact E1.
        * split; [exact E1|]. split; [exact E2 | reflexivity].
        * exact Hnext.
        * exact Ha.
    - destruct (Z.eqb_spec (zlen out) 0) as [Hz|Hnz]; [lia|].
      exact (IH st1 s1 _ all (rev_append out acc) o1 res s_end E3 Hnext Ha Hr).
  Qed.

  (* ---- from the specification to every read history ("soundness") ------------------------------- *)
  Section Sound.
    Variable tail : list Z.
    Definition RInv (st : bool) (s : lzma2) (rem : list Z) : Prop := SInv st s (Some (rem, tail)).

    Lemma RInv_live st s rem : RInv st s rem -> m_end_reached s = false /\ m_error s = None.
    Proof. apply SInv_live. Qed.

    Lemma riter_gen st s rem len : RInv st s rem -> 0 < len ->
      exists out s', lzma2_iter s len = Ok (out, s') /\
        ((rem = [] /\ out = [] /\ Ended tail s') \/
         ((st = true -> out <> []) /\ zlen out <= len /\ exists rem', rem = out ++ rem' /\ RInv true s' rem')).
    Proof.
      intros HI Hlen. pose proof (iter_sim st s _ len HI Hlen) as HS.
      destruct (lzma2_iter s len) as [[out s']|e|e|]; try discriminate.
      exists out, s'. split; [reflexivity|].
      destruct HS as [(Hout & He & Herr & Ho) | (Hne & Hle & o' & HI' & Ho)].
      - inversion Ho. left. split; [reflexivity|]. split; [exact Hout|]. split; [exact He|]. split; [exact Herr | congruence].
      - right. split; [exact Hne|]. split; [exact Hle|].
        destruct o' as [[rem' tl']|]; [|discriminate]. cbn [oapp] in Ho. inversion Ho; subst.
        exists rem'. split; [reflexivity | exact HI'].
    Qed.

    Lemma riter_step s rem len : RInv true s rem -> 0 < len ->
      exists out s', lzma2_iter s len = Ok (out, s') /\
        ((rem = [] /\ out = [] /\ Ended tail s') \/
         (out <> [] /\ zlen out <= len /\ exists rem', rem = out ++ rem' /\ RInv true s' rem')).
    Proof.
      intros HI Hlen. destruct (riter_gen true s rem len HI Hlen) as (out & s' & H1 & [H2 | (H2 & H3)]).
      - exists out, s'. split; [exact H1|]. left. exact H2.
      - exists out, s'. split; [exact H1|]. right. split; [apply H2; reflexivity | exact H3].
    Qed.

    Lemma riter_step0 st s rem len : RInv st s rem -> 0 < len ->
      exists out s', lzma2_iter s len = Ok (out, s') /\
        ((rem = [] /\ out = [] /\ Ended tail s') \/
         (zlen out <= len /\ exists rem', rem = out ++ rem' /\ RInv true s' rem')).
    Proof.
      intros HI Hlen. destruct (riter_gen st s rem len HI Hlen) as (out & s' & H1 & [H2 | (_ & H3)]).
      - exists out, s'. split; [exact H1|]. left. exact H2.
      - exists out, s'. split; [exact H1|]. right. exact H3.
    Qed.

    Theorem read_all_sound st s rem sizes fuel :
      RInv st s rem -> Forall (fun z => 0 < z) sizes -> (length rem + 2 <= fuel)%nat ->
      exists s_end, lzma2_read_all fuel s sizes sizes [] = Ok (rem, 0, s_end) /\ Ended tail s_end.
    Proof.
      intros HI Hsz Hf.
      exact (read_all_ok0 (RInv true) (RInv st) tail (RInv_live true) riter_step (RInv_live st) (riter_step0 st)
               fuel s rem sizes sizes [] HI Hsz Hsz Hf).
    Qed.
  End Sound.

End Sim.
