(* Mt/Lzma2UnitsSimProofs.v — the LZMA2 reader model (Codec/Lzma2Dec.v) computes the chunk decoder
   of Mt/Lzma2Units.v: for ANY source bytes, whatever sizes the destination buffers of the read()
   calls have,
     * if [adecode] succeeds with (data, tail), every read history returns exactly [data] and ends
       at the end marker with [tail] left in the source;
     * if a read history returns [data] and reaches the end marker, [adecode] succeeds with [data];
       where [adecode] fails every read history fails.
   The invariant relates a reader state (between two iterations of read_decode's loop) to the
   result [o] that the specification still has to deliver. *)
From LzVerif Require Import Base.Bytes Codec.Store Codec.Range Codec.ProbProofs Codec.RangeArithProofs
  Codec.LzWindow Codec.LzmaDec Codec.LzmaAbs Codec.LzWindowProofs Codec.ProgProofs Codec.LzmaAbsProofs
  Codec.RangeNoWrapProofs Codec.LzmaReadProofs Codec.LzmaTotalProofs Codec.Lzma2Dec Codec.Lzma2SpecProofs
  Codec.Lzma2WindowProofs Codec.Lzma2ReadAuxProofs Codec.Lzma2LoopProofs Codec.Lzma2Loop0Proofs
  Codec.Lzma2ReadProofs Codec.TruncProofs Codec.TruncLzma2Proofs Codec.Total2Proofs
  Mt.Units Mt.UnitsProofs Mt.Lzma2Units Mt.Lzma2UnitsAbsProofs.
Ltac Zify.zify_post_hook ::= Z.div_mod_to_equations.
Local Open Scope Z_scope.

Ltac msimpl :=
  cbn [with_in m_in m_win m_rc m_probs m_coder m_uncompressed_size m_is_lzma_chunk m_need_dict_reset m_need_props
       m_end_reached m_error].

(* ---- list facts ---- *)
Lemma firstn_plus {A} (a b : nat) (l : list A) : firstn (a + b) l = firstn a l ++ firstn b (skipn a l).
Proof.
  revert l; induction a as [|a IH]; intros l; [reflexivity|].
  destruct l as [|x t]; [cbn; rewrite firstn_nil; reflexivity|]. cbn [Nat.add firstn skipn app]. rewrite IH. reflexivity.
Qed.

Lemma skipn_plus {A} (a b : nat) (l : list A) : skipn (a + b) l = skipn b (skipn a l).
Proof.
  revert l; induction a as [|a IH]; intros l; [reflexivity|].
  destruct l as [|x t]; [cbn; rewrite skipn_nil; reflexivity|]. cbn [Nat.add skipn]. apply IH.
Qed.

Lemma zlen_skipn {A} n (l : list A) : (n <= length l)%nat -> zlen (skipn n l) = zlen l - Z.of_nat n.
Proof. intros H. unfold zlen. rewrite skipn_length. lia. Qed.

Lemma zlen_firstn {A} n (l : list A) : (n <= length l)%nat -> zlen (firstn n l) = Z.of_nat n.
Proof. intros H. unfold zlen. rewrite firstn_length_le by exact H. reflexivity. Qed.

Section Sim.
  Variable ds : Z.                 (* the reader's buffer size *)
  Hypothesis Hds : 0 < ds.
  Hypothesis Hds16 : ds mod 16 = 0.

  (* a flushed window holding the history; [st = false] also allows the write position at the end
     of the buffer (LZDecoder::new with a preset dictionary that fills it) *)
  Definition win_ok (st : bool) (w : lzwin) (hist : list Z) : Prop :=
    Rel w hist /\ w_size w = ds /\ w_start w = w_pos w /\ (st = true -> w_pos w < w_size w).

  (* self.lzma and the tables: only meaningful while need_props = false *)
  Definition coder_abs (s : lzma2) (co : option coder) (t : probs) (np : bool) (full : Z) : Prop :=
    m_need_props s = np /\
    (np = false -> m_coder s = co /\ m_probs s = t /\ probs_ok t /\ exists c, co = Some c /\ coder_ok c full).

  Definition live (s : lzma2) : Prop :=
    m_end_reached s = false /\ m_error s = None /\ bytes_ok (m_in s) = true.

  Definition at_boundary (st : bool) (s : lzma2) (d : dstate) : Prop :=
    m_uncompressed_size s = 0 /\ rdec_is_finished (m_rc s) = true /\
    win_ok st (m_win s) (d_hist d) /\ w_pending_len (m_win s) = 0 /\
    m_need_dict_reset s = d_need_dict_reset d /\
    coder_abs s (d_coder d) (d_probs d) (d_need_props d) (w_full (m_win s)).

  (* the state after a stored chunk of which the bytes [p] are still to come *)
  Definition d_after_unc (hist : list Z) (co : option coder) (t : probs) (np : bool) (p : list Z) : dstate :=
    mkD (rev p ++ hist) (if np then None else co) (if np then PLeaf else t) np false.

  Definition in_unc (st : bool) (s : lzma2) (o : option (list Z * list Z)) : Prop :=
    exists u hist co t np,
      0 < u /\ m_uncompressed_size s = u /\ m_is_lzma_chunk s = false /\
      rdec_is_finished (m_rc s) = true /\ win_ok st (m_win s) hist /\ w_pending_len (m_win s) = 0 /\
      m_need_dict_reset s = false /\ coder_abs s co t np (w_full (m_win s)) /\
      o = if zlen (m_in s) <? u then None
          else oapp (firstn (Z.to_nat u) (m_in s))
                    (adecode ds (d_after_unc hist co t np (firstn (Z.to_nat u) (m_in s))) (skipn (Z.to_nat u) (m_in s))).

  Definition in_lzma (st : bool) (s : lzma2) (o : option (list Z * list Z)) : Prop :=
    exists u c hist,
      0 < u /\ m_uncompressed_size s = u /\ m_is_lzma_chunk s = true /\
      m_need_props s = false /\ m_need_dict_reset s = false /\ m_coder s = Some c /\
      win_ok st (m_win s) hist /\ coder_ok c (w_full (m_win s)) /\
      (0 < w_pending_len (m_win s) -> 0 <= w_pending_dist (m_win s) < w_full (m_win s)) /\
      rng_ok (m_rc s) /\ probs_ok (m_probs s) /\
      o = match alz ds hist c (m_rc s) (m_probs s) u (w_pending_len (m_win s)) (w_pending_dist (m_win s)) with
          | Some (d1, out) => oapp out (adecode ds d1 (m_in s))
          | None => None
          end.

  Definition SInv (st : bool) (s : lzma2) (o : option (list Z * list Z)) : Prop :=
    live s /\
    ((exists d, at_boundary st s d /\ o = adecode ds d (m_in s)) \/ in_unc st s o \/ in_lzma st s o).

  Lemma SInv_live st s o : SInv st s o -> m_end_reached s = false /\ m_error s = None.
  Proof. intros ((H1 & H2 & _) & _). split; assumption. Qed.

  (* what one iteration must establish *)
  Definition step_post (st : bool) (o : option (list Z * list Z)) (len : Z) (out : list Z) (s' : lzma2) : Prop :=
    (st = true -> out <> []) /\ zlen out <= len /\ exists o', SInv true s' o' /\ o = oapp out o'.

  Lemma coder_abs_mono s co t np f1 f2 : coder_abs s co t np f1 -> f1 <= f2 -> coder_abs s co t np f2.
  Proof.
    intros (H1 & H2) Hle. split; [exact H1|]. intros Hnp. destruct (H2 Hnp) as (A & B & C & c & D & E).
    split; [exact A|]. split; [exact B|]. split; [exact C|]. exists c. split; [exact D|]. eapply coder_ok_mono; eassumption.
  Qed.

  (* ---- a stored chunk: one copy step ---------------------------------------------------------- *)
  Lemma body_unc st s o len : live s -> in_unc st s o -> 0 < len ->
    match iter_body s len with
    | Ok (out, s') => step_post st o len out s'
    | _ => o = None
    end.
  Proof.
    intros (Hend & Herr & Hbytes) (u & hist & co & t & np & Hu & Hus & Hlz & Hfin & Hw & Hpl & Hnd & Hca & Ho) Hlen.
    destruct Hw as (R & Hsz & Hst & Hps).
    pose proof R as [_ [[Hp0 Hp01] Hp2] _ _ _ _ _ _].
    unfold iter_body. rewrite Hlz, Hus. cbn [negb].
    set (m := Z.min u len).
    set (n := Z.min (w_size (m_win s) - w_pos (m_win s)) m).
    assert (Hn : 0 <= n <= u) by (unfold n, m; lia).
    assert (Hn1 : st = true -> 1 <= n) by (intros X; specialize (Hps X); unfold n, m; lia).
    destruct (Nat.ltb_spec (length (m_in s)) (Z.to_nat n)) as [Hshort|Hlin].
    { (* the source ends inside the chunk *)
      unfold lzwin_copy_uncompressed. fold n.
      destruct (Z.ltb_spec n 0) as [X|_]; [lia|].
      destruct (Nat.ltb_spec (length (m_in s)) (Z.to_nat n)) as [_|X]; [|lia].
      cbn [obind]. rewrite Ho. destruct (Z.ltb_spec (zlen (m_in s)) u) as [_|X]; [reflexivity|].
      unfold zlen in X. lia. }
    destruct (copy_uncompressed_rel (m_win s) hist (m_in s) m R ltac:(unfold m; lia) Hlin)
      as (w' & Hcp & R' & Hsz' & Hst' & Hps' & Hpl' & Hpd').
    fold n in Hcp, R', Hps'. rewrite Hcp. cbn [obind]. msimpl.
    set (l := firstn (Z.to_nat n) (m_in s)) in *.
    assert (Hll : length l = Z.to_nat n) by (unfold l; apply firstn_length_le; exact Hlin).
    pose proof (flush_rel w' _ R') as HF. pose proof (flush_facts w') as (Hff & Hfp & _).
    destruct (lzwin_flush w') as [out w3]. cbn [fst snd] in Hff, Hfp.
    destruct HF as (Hout & R3 & Hst3 & Hsz3 & _ & Hpl3 & _).
    assert (Hout' : out = l).
    { rewrite Hout. replace (Z.to_nat (w_pos w' - w_start w')) with (length (rev l)).
      - rewrite firstn_app_exact by reflexivity. apply rev_involutive.
      - rewrite rev_length. lia. }
    assert (Hzo : zlen out = n) by (rewrite Hout'; unfold zlen; lia).
    rewrite Hzo.
    destruct (Z.ltb_spec (u - n) 0) as [Hbad|_]; [lia|].
    msimpl. rewrite Hfin. cbn [negb orb].
    unfold lzwin_has_pending. rewrite Hpl3, Hpl', Hpl. change (0 <? 0) with false. rewrite andb_false_r.
    unfold step_post.
    split; [intros Y X; specialize (Hn1 Y); rewrite X in Hzo; unfold zlen in Hzo; cbn [length] in Hzo; lia|].
    split; [unfold n, m in Hzo |- *; lia|].
    assert (Hw3 : win_ok true w3 (rev l ++ hist)).
    { split; [exact R3|]. split; [lia|]. split; [exact Hst3|]. intros _. rewrite Hsz3. apply Hfp; lia. }
    assert (Hlive3 : live (mkLzma2 (skipn (Z.to_nat n) (m_in s)) w3 (m_rc s) (m_probs s) (m_coder s) (u - n) false
                                   (m_need_dict_reset s) (m_need_props s) (m_end_reached s) (m_error s))).
    { unfold live. msimpl. split; [exact Hend|]. split; [exact Herr|]. apply b_skipn. exact Hbytes. }
    assert (Hfull3 : w_full (m_win s) <= w_full w3).
    { rewrite Hff. eapply rel_full_mono; [exact R | exact R' | lia|]. rewrite zlen_app. pose proof (zlen_nonneg (rev l)). lia. }
    assert (Hca3 : coder_abs (mkLzma2 (skipn (Z.to_nat n) (m_in s)) w3 (m_rc s) (m_probs s) (m_coder s) (u - n) false
                                      (m_need_dict_reset s) (m_need_props s) (m_end_reached s) (m_error s)) co t np (w_full w3)).
    { eapply coder_abs_mono; [|exact Hfull3]. exact Hca. }
    (* the specification's view: the payload splits at n *)
    assert (Hlong : zlen (m_in s) <? u = false -> (Z.to_nat u <= length (m_in s))%nat) by (intros X; apply Z.ltb_ge in X; unfold zlen in X; lia).
    assert (Hsplit : firstn (Z.to_nat u) (m_in s) = l ++ firstn (Z.to_nat (u - n)) (skipn (Z.to_nat n) (m_in s))).
    { replace (Z.to_nat u) with (Z.to_nat n + Z.to_nat (u - n))%nat by lia. apply firstn_plus. }
    assert (Hskip : skipn (Z.to_nat u) (m_in s) = skipn (Z.to_nat (u - n)) (skipn (Z.to_nat n) (m_in s))).
    { replace (Z.to_nat u) with (Z.to_nat n + Z.to_nat (u - n))%nat by lia. apply skipn_plus. }
    destruct (Z.eq_dec (u - n) 0) as [Hz|Hnz].
    - (* the chunk is complete: back at a boundary *)
      exists (adecode ds (d_after_unc hist co t np l) (skipn (Z.to_nat n) (m_in s))).
      split.
      + split; [rewrite Hz in Hlive3; rewrite Hz; exact Hlive3|]. left.
        exists (d_after_unc hist co t np l). split; [|reflexivity].
        unfold at_boundary, d_after_unc. msimpl. cbn [d_hist d_coder d_probs d_need_props d_need_dict_reset].
        split; [exact Hz|]. split; [exact Hfin|]. split; [exact Hw3|]. split; [lia|]. split; [exact Hnd|].
        destruct Hca3 as (A & B). split; [exact A|]. intros X. rewrite X. apply B. exact X.
      + rewrite Ho. destruct (Z.ltb_spec (zlen (m_in s)) u) as [X|_]; [unfold zlen in X; lia|].
        rewrite Hsplit, Hskip, Hz. cbn [Z.to_nat firstn skipn]. rewrite app_nil_r, Hout'. reflexivity.
    - (* more of the chunk to come *)
      eexists. split.
      + split; [exact Hlive3|]. right. left.
        exists (u - n), (rev l ++ hist), co, t, np. msimpl.
        split; [lia|]. split; [reflexivity|]. split; [reflexivity|]. split; [exact Hfin|]. split; [exact Hw3|].
        split; [lia|]. split; [exact Hnd|]. split; [exact Hca3|]. reflexivity.
      + rewrite Ho. rewrite (zlen_skipn _ _ Hlin).
        destruct (Z.ltb_spec (zlen (m_in s)) u) as [X|X];
          destruct (Z.ltb_spec (zlen (m_in s) - Z.of_nat (Z.to_nat n)) (u - n)) as [Y|Y]; try lia; [reflexivity|].
        rewrite Hsplit, Hskip, Hout'. rewrite oapp_app. f_equal. f_equal. f_equal.
        unfold d_after_unc. rewrite rev_app_distr, <- app_assoc. reflexivity.
  Qed.

  (* ---- an LZMA chunk: one decode call with whatever budget the buffers allow ------------------- *)
  Lemma body_lzma st s o len : live s -> in_lzma st s o -> 0 < len ->
    match iter_body s len with
    | Ok (out, s') => step_post st o len out s'
    | _ => o = None
    end.
  Proof.
    intros (Hend & Herr & Hbytes) (u & c & hist & Hu & Hus & Hlz & Hnp & Hnd & Hco & Hw & Hcok & Hpd & Hrng & Hpr & Ho) Hlen.
    destruct Hw as (R & Hsz & Hst & Hps). pose proof R as [_ [_ Hp2] _ _ _ _ _ Hpnn].
    unfold iter_body. rewrite Hlz, Hus, Hco. cbn [negb].
    set (m := Z.min u len).
    set (wl := lzwin_set_limit (m_win s) m).
    destruct (set_limit_rel (m_win s) hist m R ltac:(unfold m; lia)) as (Rl & Hpl).
    fold wl in Rl, Hpl.
    assert (Hwl : w_limit wl = Z.min (m + w_pos (m_win s)) (w_size (m_win s))) by reflexivity.
    assert (Hwl1 : w_size wl = w_size (m_win s)) by reflexivity.
    assert (Hwl2 : w_pos wl = w_pos (m_win s)) by reflexivity.
    assert (Hwl3 : w_full wl = w_full (m_win s)) by reflexivity.
    assert (Hwl4 : w_start wl = w_start (m_win s)) by reflexivity.
    assert (Hwl5 : w_pending_len wl = w_pending_len (m_win s)) by reflexivity.
    assert (Hwl6 : w_pending_dist wl = w_pending_dist (m_win s)) by reflexivity.
    set (b := w_limit wl - w_pos wl).
    assert (Hb : 0 <= b <= u) by (unfold b; rewrite Hwl, Hwl2; unfold m; lia).
    assert (Hb1 : st = true -> 1 <= b) by (intros X; specialize (Hps X); unfold b; rewrite Hwl, Hwl2; unfold m; lia).
    assert (Hblen : b <= len) by (unfold b; rewrite Hwl, Hwl2; unfold m; lia).
    pose proof (lzma_decode_abs c wl hist (m_rc s) (m_probs s) (Z.to_nat b) Rl
                  ltac:(rewrite Hwl3; exact Hcok) Hpl ltac:(unfold b in *; lia)
                  ltac:(rewrite Hwl5, Hwl6, Hwl3; exact Hpd)) as HA.
    rewrite Hwl1, Hwl5, Hwl6, Hsz in HA.
    set (a0 := mkAstate c hist ds (w_pending_len (m_win s)) (w_pending_dist (m_win s))) in *.
    assert (Hsplit : run_rc (aproduce (Z.to_nat u) a0) (m_rc s) (m_probs s) =
                     match run_rc (aproduce (Z.to_nat b) a0) (m_rc s) (m_probs s) with
                     | Ok (s1, Ok _, d1, t1) => run_rc (aproduce (Z.to_nat (u - b)) s1) d1 t1
                     | Ok (s1, st, d1, t1) => Ok (s1, st, d1, t1)
                     | Err e => Err e
                     | Panic e => Panic e
                     | Fuel => Fuel
                     end).
    { rewrite <- run_rc_split. replace (Z.to_nat b + Z.to_nat (u - b))%nat with (Z.to_nat u) by lia. reflexivity. }
    unfold alz in Ho. fold a0 in Ho. rewrite Hsplit in Ho. clear Hsplit.
    destruct (run_rc (aproduce (Z.to_nat b) a0) (m_rc s) (m_probs s)) as [[[[s1 st1] d1] t1]|e|e|] eqn:Hrun;
      [|rewrite HA; cbn [obind]; exact Ho..].
    destruct HA as (w1 & Hdec & Hloop). rewrite Hdec. cbn [obind].
    destruct st1 as [[]|e|e|]; [|exact Ho..].
    cbn [obind]. msimpl.
    unfold loop_rel in Hloop.
    destruct Hloop as (_ & _ & R1 & Hd1 & Hsz1 & Hli1 & Hst1 & Hpos1 & Hzl1 & Hpl1 & Hok1 & Hpd1).
    destruct (Hok1 eq_refl) as (Hcok1 & _). clear Hok1.
    pose proof (run_rc_pall _ _ (aproduce_grows (Z.to_nat b) a0) _ _ _ _ _ Hrun) as (_ & Hg1 & _).
    cbn [fst snd] in Hg1. destruct (Hg1 eq_refl) as (new1 & Hh1 & Hl1). clear Hg1.
    unfold a0 in Hh1; cbn [a_hist] in Hh1.
    destruct (run_rc_rng _ _ _ _ _ _ Hpr Hrng Hrun) as (Hrng1 & Hpr1).
    assert (Hadv : w_pos w1 - w_pos wl = b).
    { rewrite Hh1, zlen_app in Hzl1. unfold zlen in Hzl1 at 1. lia. }
    (* the flush *)
    pose proof (flush_rel w1 _ R1) as HF. pose proof (flush_facts w1) as (Hff & Hfp & _).
    destruct (lzwin_flush w1) as [out w3]. cbn [fst snd] in Hff, Hfp.
    destruct HF as (Hout & R3 & Hst3 & Hsz3 & _ & Hpl3 & Hpd3).
    assert (Hout' : out = rev new1).
    { rewrite Hout. f_equal. rewrite Hh1. apply firstn_app_exact. lia. }
    assert (Hzo : zlen out = b) by (rewrite Hout'; unfold zlen; rewrite rev_length; lia).
    rewrite Hzo.
    destruct (Z.ltb_spec (u - b) 0) as [Hbad|_]; [lia|].
    msimpl.
    assert (Hw3 : win_ok true w3 (a_hist s1)).
    { split; [exact R3|]. split; [lia|]. split; [exact Hst3|]. intros _. rewrite Hsz3. apply Hfp; [lia|].
      destruct R1 as [_ [_ X] _ _ _ _ _ _]. exact X. }
    assert (Hne : st = true -> out <> []).
    { intros Y X; specialize (Hb1 Y); rewrite X in Hzo; unfold zlen in Hzo; cbn [length] in Hzo; lia. }
    (* the specification: the rest of the chunk after these b bytes *)
    replace (Z.to_nat u) with (Z.to_nat b + Z.to_nat (u - b))%nat in Ho by lia.
    rewrite (alz_fin_cont (Z.to_nat b) (Z.to_nat (u - b)) s1 new1 hist d1 t1 Hh1 Hl1) in Ho.
    assert (Hlive3 : forall us, live (mkLzma2 (m_in s) w3 (rdec_normalize d1) t1 (Some (a_coder s1)) us true
                                       (m_need_dict_reset s) (m_need_props s) (m_end_reached s) (m_error s))).
    { intros us. unfold live. msimpl. auto. }
    destruct (Z.eqb_spec (u - b) 0) as [Hz|Hnz].
    - (* the chunk is complete *)
      rewrite Hz in Ho. cbn [Z.to_nat aproduce run_rc alz_fin] in Ho.
      unfold lzwin_has_pending. rewrite Hpl3, Hpl1.
      assert (Hpn : 0 <= a_pend_len s1) by (rewrite <- Hpl1; destruct R1; assumption).
      destruct (rdec_is_finished (rdec_normalize d1)) eqn:Efin.
      2:{ cbn [negb orb andb]. exact Ho. }
      destruct (Z.ltb_spec 0 (a_pend_len s1)) as [Hpos|Hzero].
      { cbn [negb orb andb].
        destruct (Z.leb_spec (a_pend_len s1) 0) as [X|_]; [lia|]. exact Ho. }
      cbn [negb orb andb].
      destruct (Z.leb_spec (a_pend_len s1) 0) as [_|X]; [|lia]. cbn [andb out_pre firstn rev] in Ho.
      unfold step_post. split; [exact Hne|]. split; [lia|].
      exists (adecode ds (mkD (a_hist s1) (Some (a_coder s1)) t1 false false) (m_in s)). split.
      + split; [rewrite Hz; apply Hlive3|]. left. eexists. split; [|reflexivity].
        unfold at_boundary. msimpl. cbn [d_hist d_coder d_probs d_need_props d_need_dict_reset].
        split; [exact Hz|]. split; [exact Efin|]. split; [exact Hw3|]. split; [lia|]. split; [exact Hnd|].
        split; [exact Hnp|]. intros _. split; [reflexivity|]. split; [reflexivity|]. split; [exact Hpr1|].
        exists (a_coder s1). split; [reflexivity|]. rewrite Hff. exact Hcok1.
      + rewrite Ho, Hout', app_nil_r. reflexivity.
    - (* more of the chunk to come *)
      cbn [andb].
      unfold step_post. split; [exact Hne|]. split; [lia|].
      eexists. split.
      + split; [apply Hlive3|]. right. right.
        exists (u - b), (a_coder s1), (a_hist s1). msimpl.
        split; [lia|]. split; [reflexivity|]. split; [reflexivity|]. split; [exact Hnp|]. split; [exact Hnd|].
        split; [reflexivity|]. split; [exact Hw3|]. split; [rewrite Hff; exact Hcok1|].
        split.
        { rewrite Hpl3, Hpd3, Hff, Hpl1. intros Hpos. destruct (Hpd1 Hpos) as (X1 & X2). rewrite X1. exact X2. }
        split; [apply norm_rng; exact Hrng1|]. split; [exact Hpr1|]. reflexivity.
      + rewrite Ho.
        rewrite (alz_norm ds (a_hist s1) (a_coder s1) d1 t1 (u - b) (w_pending_len w3) (w_pending_dist w3) (a_pend_dist s1) Hrng1).
        2:{ rewrite Hpl3, Hpd3, Hpl1. intros Hpos. apply (Hpd1 Hpos). }
        unfold alz. rewrite Hpl3, Hpl1.
        replace (mkAstate (a_coder s1) (a_hist s1) ds (a_pend_len s1) (a_pend_dist s1)) with s1
          by (destruct s1 as [c1 h1 dd pl1 pd1]; cbn [a_coder a_hist a_dict a_pend_len a_pend_dist] in *; subst dd; rewrite Hwl1, Hsz; reflexivity).
        destruct (alz_fin (Z.to_nat (u - b)) (run_rc (aproduce (Z.to_nat (u - b)) s1) d1 t1)) as [[d2 o2]|]; [|reflexivity].
        cbn [out_pre]. rewrite oapp_app, Hout'. reflexivity.
  Qed.

End Sim.
