(* Mt/LiveInv.v — invariants of the REPAIRED protocol (all four fx_* flags set) that the liveness
   theorems (C09, C10) need: phase / program-point consistency, "an error is always followed by a
   wake-up", "a non-empty queue has a worker that is not asleep", "after close() nobody sleeps".
   Proofs only. *)
From LzVerif Require Import Base.Bytes Mt.Protocol Mt.ProtocolLemmas Mt.ProtocolInv Mt.SafetyProofs Mt.CountProofs.
Local Open Scope nat_scope.

Definition Fx (c : cfg) : Prop :=
  fx_close c = true /\ fx_wake c = true /\ fx_empty c = true /\ fx_finish c = true.

(* the coordinator is inside Drop / the tail of finish(): the shutdown flag is (about to be) set *)
Definition shut_pc (p : cpc) : bool :=
  match p with
  | CCloseLock _ | CCloseStore _ | CCloseNotify _ | CCloseUnlock _ | CShut false | CDropRx | CDone => true
  | _ => false
  end.
Definition gk_of (p : cpc) : option gk :=
  match p with CTop g | CTake g | CTakeE g | CRecv g _ => Some g | _ => None end.
(* the dispatch sequence (with its back-pressure loop) a program point belongs to *)
Definition dk_chain (p : cpc) : option dk :=
  match p with
  | CLenB d | CPushChk d | CPush d | CNotify d | CLoadAct d | CLenS d _ | CSpawn d => Some d
  | CTop (KBack d) | CTake (KBack d) | CTakeE (KBack d) | CRecv (KBack d) _ => Some d
  | _ => None
  end.
(* between the error check at the loop top and a blocking recv() *)
Definition unsafe_pc (p : cpc) : bool := match p with CRecv _ _ | CLenR => true | _ => false end.
Definition spawn_chain (p : cpc) : bool :=
  match p with CLoadAct _ | CLenS _ _ | CSpawn _ => true | _ => false end.
(* program points at which nothing is dispatched any more *)
Definition quiet_pc (k : kind) (p : cpc) : bool :=
  match p with
  | CIdle => match k with Reader => true | Writer => false end
  | CShut _ | CCloseLock _ | CCloseStore _ | CCloseNotify _ | CCloseUnlock _ | CDropRx | CDone => true
  | CTop g | CTake g | CTakeE g | CRecv g _ =>
      match g, k with KRead, Reader => true | KFinish, Writer => true | _, _ => false end
  | _ => false
  end.

Definition is_run (h : phase) : bool := match h with PRun => true | _ => false end.
Definition is_perr (h : phase) : bool := match h with PErr => true | _ => false end.

Definition is_reader (k : kind) : bool := match k with Reader => true | Writer => false end.
(* program points that only one kind of object has *)
Definition kind_ok (k : kind) (p : cpc) : bool :=
  match p with
  | CLenR | CSetErr _ => is_reader k
  | CLenB d => match d with DRead _ => false | _ => negb (is_reader k) end
  | CTop g | CTake g | CTakeE g | CRecv g _ =>
      match g with KRead => is_reader k | KBack (DRead _) => false | _ => negb (is_reader k) end
  | CPushChk d | CPush d | CNotify d | CLoadAct d | CLenS d _ | CSpawn d =>
      match d with DRead _ => is_reader k | _ => negb (is_reader k) end
  | _ => true
  end.

(* which phases a program point can be in (finite-control invariant) *)
Definition ctl_ok (k : kind) (p : cpc) (h : phase) : bool :=
  (match p with CRecv _ b => match h with PRun => true | PDrain => b | _ => false end | _ => true end) &&
  (match p with CTakeE _ => is_perr h | _ => true end) &&
  (match p with CLenR | CSetErr _ => is_run h | _ => true end) &&
  (match dk_chain p with Some (DRead _) | Some DFinish => is_run h | _ => true end) &&
  (match h with PDrain | PFin => quiet_pc k p | _ => true end) &&
  (match p, h with
   | CRecv g b, PRun => match g with KRead => true | KDrain => negb b | KFinish => false | _ => b end
   | _, _ => true
   end) &&
  (match gk_of p, h with Some KFinish, PRun => false | _, _ => true end) &&
  (match p with
   | CShut true | CCloseLock true | CCloseStore true | CCloseNotify true | CCloseUnlock true => negb (is_perr h)
   | _ => true
   end) &&
  kind_ok k p.

Section P.
Context {R : Type}.
Variable f : nat -> R + Z.
Implicit Types (s : state R) (c : cfg).

Definition exited_like (w : wpc R) : bool := match w with WExit | WDecX | WWake => true | _ => false end.
(* a worker that will take a step without being notified *)
Definition live (w : wpc R) : bool :=
  match w with
  | WTop | WLock | WPop | WWoken | WInc _ | WSend _ _ | WDec | WDecE _ | WSetErr _ | WWake => true
  | _ => false
  end.
Definition asleep (w : wpc R) : bool := match w with WSleep | WWait => true | _ => false end.

(* an error has been stored and not yet been returned, or was returned *)
Definition errd s : Prop := err s <> None \/ ph s = PErr.

Record I3 c s : Prop := {
  i3_act0 : ws s = [] -> act s = 0%Z;
  i3_act1 : forall d a, pc s = CLenS d a -> ws s = [] -> a = 0%Z;
  i3_noexit : shut s = false -> q_closed s = false -> rx_alive s = true ->
              forall w, In w (ws s) -> exited_like w = false;
  i3_shut : shut s = true -> shut_pc (pc s) = true \/ errd s;
  i3_drain : ph s = PDrain \/ ph s = PFin -> last s = Some (nd s - 1) /\ 1 <= nd s;
  i3_pfin : ph s = PFin -> nd s <= nr s;
  i3_back : (exists d, gk_of (pc s) = Some (KBack d)) \/ gk_of (pc s) = Some KFlush -> nr s < nd s;
  i3_rdrecv : pc s = CRecv KRead true -> ph s = PRun -> nr s < nd s;
  i3_wake : err s <> None -> unsafe_pc (pc s) = true -> In MWake (ch s) \/ In WWake (ws s);
  i3_rwake : rwake s = true -> errd s;
  i3_chwake : In MWake (ch s) -> errd s;
  i3_wswake : In WWake (ws s) -> errd s;
  i3_live : q_items s <> [] -> shut s = false -> q_closed s = false -> rx_alive s = true ->
            (exists w, In w (ws s) /\ live w = true) \/ (exists d, pc s = CNotify d) \/
            (ws s = [] /\ spawn_chain (pc s) = true);
  i3_nosleep : q_closed s = true ->
               (exists fin, pc s = CCloseNotify fin) \/ forall w, In w (ws s) -> asleep w = false
}.

Lemma upd_nat_In_new {A} (l : list A) i x y : nth_opt l i = Some x -> In y (upd_nat l i y).
Proof. intros H. eapply nth_opt_In. eapply nth_opt_upd_eq. eassumption. Qed.

Lemma upd_nat_In_old {A} (l : list A) i j x y : nth_opt l j = Some x -> i <> j -> In x (upd_nat l i y).
Proof. intros H Hn. eapply nth_opt_In. rewrite nth_opt_upd_neq; eauto. Qed.

Lemma upd_nat_nonnil {A} (l : list A) i x y : nth_opt l i = Some x -> upd_nat l i y <> [].
Proof. intros H E. pose proof (upd_nat_In_new l i x y H) as Hi. rewrite E in Hi. destruct Hi. Qed.

Lemma nth_opt_nonnil {A} (l : list A) i x : nth_opt l i = Some x -> l <> [].
Proof. intros H E. subst. destruct i; discriminate. Qed.

Ltac pre :=
  rw_pc;
  repeat match goal with
         | H : lock_free _ = true |- _ => apply lock_free_none in H
         end;
  split_andb.

Ltac dfx Hfx := destruct Hfx as (Fc & Fw & Fe & Ff).

(* ---- active counter ---- *)
Lemma step_i3_act c s t s' : I3 c s -> step f c s t = Some s' ->
  (ws s' = [] -> act s' = 0%Z) /\ (forall d a, pc s' = CLenS d a -> ws s' = [] -> a = 0%Z).
Proof.
  intros H3 Hst. pose proof (i3_act0 c s H3) as A0. pose proof (i3_act1 c s H3) as A1.
  step_split t Hst; pre; split; intros; pc_cases; try discriminate; eauto.
  all: try solve [ match goal with H : pc _ = CLenS _ _ |- _ => inversion H; subst; eauto end ].
  all: try solve [ match goal with H : CLenS _ _ = CLenS _ _ |- _ => inversion H; subst; eauto end ].
  all: try solve [ match goal with H : wake_one _ _ = [] |- _ =>
                     apply (f_equal (@length _)) in H; rewrite wake_one_length in H;
                     destruct (ws s); [eauto|discriminate] end ].
  all: try solve [ match goal with H : wake_all _ = [] |- _ =>
                     apply (f_equal (@length _)) in H; rewrite wake_all_length in H;
                     destruct (ws s); [eauto|discriminate] end ].
  all: try solve [ match goal with H : _ ++ [_] = [] |- _ => apply app_eq_nil in H; destruct H; discriminate end ].
  all: try solve [ exfalso; eapply upd_nat_nonnil; eauto ].
Qed.

(* ---- no exited worker while everything is up ---- *)
Lemma step_i3_noexit c s t s' : I1 c s -> I3 c s -> step f c s t = Some s' ->
  shut s' = false -> q_closed s' = false -> rx_alive s' = true -> forall w, In w (ws s') -> exited_like w = false.
Proof.
  intros H1 H3 Hst. pose proof (i3_noexit c s H3) as NE.
  step_split t Hst; pre; intros Hs Hc Hr w Hw; try discriminate; eauto.
  all: try solve [ apply wake_one_In in Hw; destruct Hw as [Hw| ->]; [eauto|reflexivity] ].
  all: try solve [ apply wake_all_In in Hw; destruct Hw as [Hw| ->]; [eauto|reflexivity] ].
  all: try solve [ apply in_app_iff in Hw; destruct Hw as [Hw|[<-|[]]]; [eauto|reflexivity] ].
  all: try solve [ apply upd_nat_In in Hw; destruct Hw as [->|Hw]; [try reflexivity|eauto]; congruence ].
  (* WWake -> WExit: the pre-state had a WWake worker, impossible while everything is up *)
  all: try solve [ exfalso; specialize (NE Hs Hc Hr _ (nth_opt_In _ _ _ Heqo)); discriminate ].
Qed.

(* ---- phase / program point: finite control, by exhaustive case analysis ---- *)
Ltac brute :=
  repeat match goal with
         | g : gk |- _ => destruct g
         | d : dk |- _ => destruct d
         | r : src_res |- _ => destruct r
         | b : bool |- _ => destruct b
         | |- context [if ?b then _ else _] => destruct b eqn:?
         | |- context [match ?x with _ => _ end] =>
             lazymatch x with
             | ph _ => destruct x eqn:?
             | k_kind _ => destruct x eqn:?
             end
         | H : context [match ?x with _ => _ end] |- _ =>
             lazymatch x with
             | ph _ => destruct x eqn:?
             | k_kind _ => destruct x eqn:?
             end
         end.

Lemma step_ctl c s t s' : Fx c -> I1 c s -> ctl_ok (k_kind c) (pc s) (ph s) = true -> step f c s t = Some s' ->
  ctl_ok (k_kind c) (pc s') (ph s') = true.
Proof.
  intros Hfx H1 OK Hst. dfx Hfx. pose proof (i1_closed c s H1) as CLd. clear H1.
  step_split t Hst; rw_pc; try assumption;
    try (specialize (CLd ltac:(first [assumption|reflexivity])); discriminate CLd); clear CLd;
    unfold disp_eff in *;
    unfold ret_eff, src_eff, finish_eff, flush_eff, with_out, goto, creturn, freturn, dk_is_finish,
           blocking_of in *;
    rewrite ?Fc, ?Fw, ?Fe, ?Ff in *;
    unfold ctl_ok, quiet_pc, kind_ok, dk_chain, gk_of, is_run, is_perr, is_reader in *; cbn [e_pc e_ph e_out e_res e_fin e_last andb] in *;
    repeat (progress (brute; cbn [e_pc e_ph e_out e_res e_fin e_last andb] in * ));
    try reflexivity; try discriminate; try congruence.
Qed.

Theorem inv_ctl c src p s : Fx c -> reachable f c src p s -> ctl_ok (k_kind c) (pc s) (ph s) = true.
Proof.
  intros Hfx Hr. induction Hr as [|s t s' Hr IH Hst].
  - unfold init; simpl. destruct (k_kind c); reflexivity.
  - eapply step_ctl; eauto. eapply inv_I1; eauto.
Qed.

(* ---- consequences of the control invariant ---- *)
Lemma ctl_recv k g b h : ctl_ok k (CRecv g b) h = true -> (h = PRun \/ h = PDrain) /\ (b = false -> h = PRun).
Proof. unfold ctl_ok. destruct h, b; cbn; intros H; split; auto; try discriminate; intros; try discriminate; auto. Qed.

Lemma ctl_takee k g h : ctl_ok k (CTakeE g) h = true -> h = PErr.
Proof. unfold ctl_ok. destruct h; cbn; intros H; auto; repeat (apply andb_true_iff in H; destruct H as [H ?]); discriminate. Qed.

Lemma ctl_run k p h : ctl_ok k p h = true ->
  p = CLenR \/ (exists r, dk_chain p = Some (DRead r)) \/ dk_chain p = Some DFinish -> h = PRun.
Proof.
  unfold ctl_ok. intros H. repeat (apply andb_true_iff in H; destruct H as [H ?]).
  intros [->|[[r E]|E]]; destruct h; auto; try discriminate; try (rewrite E in *; discriminate).
Qed.

Lemma ctl_quiet k p h : ctl_ok k p h = true -> h = PDrain \/ h = PFin -> quiet_pc k p = true.
Proof.
  unfold ctl_ok. intros H. repeat (apply andb_true_iff in H; destruct H as [H ?]).
  intros [->| ->]; assumption.
Qed.

Lemma ctl_drain_nb k b : ctl_ok k (CRecv KDrain b) PRun = true -> b = false.
Proof. unfold ctl_ok. destruct b; cbn; intros H; auto; repeat (apply andb_true_iff in H; destruct H as [H ?]); discriminate. Qed.

Lemma ctl_finish_norun k p : gk_of p = Some KFinish -> ctl_ok k p PRun = true -> False.
Proof.
  unfold ctl_ok. intros E H. rewrite E in H. repeat (apply andb_true_iff in H; destruct H as [H ?]); discriminate.
Qed.

Lemma ctl_kind k p h : ctl_ok k p h = true -> kind_ok k p = true.
Proof. unfold ctl_ok. intros H. apply andb_true_iff in H. tauto. Qed.

(* ---- once an error was stored it stays visible: in the store, or as State::Error ---- *)
Lemma step_errd c s t s' : Fx c -> ctl_ok (k_kind c) (pc s) (ph s) = true -> errd s ->
  step f c s t = Some s' -> errd s'.
Proof.
  intros Hfx OK E Hst. dfx Hfx. unfold errd in *.
  step_split t Hst; rw_pc; rw_eqs; try assumption; try (right; reflexivity); try (left; discriminate);
    try tauto.
  (* CTakeE: the phase is PErr *)
  all: try solve [ right; eapply ctl_takee; eauto ].
  (* helper effects that may set the phase: only from PRun, where the error must be in the store *)
  all: try solve [
    destruct E as [E|E]; [left; assumption|];
    exfalso; assert (X : ph s = PRun) by (eapply ctl_run; [eassumption|cbn; eauto]); congruence ].
  all: try solve [ destruct E as [E|E]; [left; destruct (err s); [discriminate|congruence]|congruence] ].
  all: try solve [ destruct E as [E|E]; [congruence|congruence] ].
  all: try solve [ left; unfold first_err; destruct (err s); discriminate ].
  (* end of a dispatch sequence *)
  all: destruct d; cbn [disp_eff]; rewrite ?flush_eff_ph; cbn [e_ph goto]; try assumption.
  all: try solve [
    destruct E as [E|E]; [left; assumption|];
    exfalso; assert (X : ph s = PRun) by (eapply ctl_run; [eassumption|cbn; eauto]); congruence ].
Qed.

End P.
