(* Filter/Bcj2DefectsProofs.v — the defects of the BCJ2 code before repo-patches/15 and /16, each with a
   computed witness (replayed on the real code: docs/design-notes/bcj2.md).  Proofs only. *)
From LzVerif Require Import Base.Bytes Filter.BcjStream Filter.Bcj2 Filter.Bcj2Enc Filter.Bcj2Defects.

(* A transient failure of an inner reader lost the bytes decoded before it in the same call: five
   literal bytes, the MAIN reader delivers them and then fails once with Interrupted when asked for
   more; the caller repeats the call as every `Read` user does.  Old code: no byte arrives and the
   stream ends normally (uncompressed_size was already 0).  Repaired code: the data. *)
Lemma bcj2_reader_interrupted_drops_bytes_refuted :
  exists data ins sizes,
    (let '(m, c, j, r) := bcj2_encode data [] in
     fst (fst (fst ins)) = [IData m; IErr E_INTERRUPTED] /\ snd (fst (fst ins)) = data_script [c] /\
     snd (fst ins) = data_script [j] /\ snd ins = data_script [r]) /\
    bcj2_dec_script_old (zlen data) ins sizes = Ok ([], None) /\
    bcj2_dec_script (zlen data) ins sizes = Ok (data, None) /\ data <> [].
Proof.
  exists [52; 136; 160; 142; 171], ([IData [52; 136; 160; 142; 171]; IErr 8], [], [], [IData [0; 0; 0; 0; 0]]), [4188; 1].
  vm_compute. repeat split; discriminate.
Qed.

(* A transient failure between the two halves of a CALL word: the old refill forgot the first two
   bytes (extra_read_sizes was only written after the loop) and the reader ended with InvalidData on a
   correctly encoded input. *)
Lemma bcj2_reader_partial_word_lost_refuted :
  exists data ds ins,
    (let '(m, c, j, r) := bcj2_encode data ds in
     fst (fst (fst ins)) = data_script [m] /\
     snd (fst (fst ins)) = [IData (firstn 2 c); IErr E_INTERRUPTED; IData (skipn 2 c)] /\
     snd (fst ins) = data_script [j] /\ snd ins = data_script [r]) /\
    bcj2_dec_script_old (zlen data) ins [] = Ok ([], Some E_INVALID_DATA) /\
    bcj2_dec_script (zlen data) ins [] = Ok (data, None).
Proof.
  exists [232; 1; 2; 3; 4; 7], [true], ([IData [232; 7]], [IData [4; 3]; IErr 8; IData [2; 6]], [], [IData [0; 127; 255; 252; 0]]).
  vm_compute. repeat split.
Qed.

(* A permanent failure after decoded bytes: the old code returned the error and dropped the bytes; the
   repaired code hands the bytes out and reports the error with the next call. *)
Lemma bcj2_reader_error_after_bytes_refuted :
  exists data ins,
    bcj2_dec_script_old (zlen data) ins [4188] = Ok ([], Some E_OTHER) /\
    bcj2_dec_script (zlen data) ins [4188] = Ok (data, Some E_OTHER) /\ data <> [].
Proof.
  exists [52; 136; 160; 142; 171], ([IData [52; 136; 160; 142; 171]; IErr 6], [], [], [IData [0; 0; 0; 0; 0]]).
  vm_compute. repeat split; discriminate.
Qed.

(* The checked `+=` of the instruction pointer: the first byte behind 4 GiB of output. *)
Lemma bcj2_ip_checked_add_refuted :
  exists ip num, 0 <= ip < 4294967296 /\ 0 < num <= BUF_SIZE /\
    ip_add_checked ip num = Panic 2 /\ wrap32 (ip + wrap32 num) = 0.
Proof. exists 4294967295, 1. vm_compute. repeat split; discriminate. Qed.
