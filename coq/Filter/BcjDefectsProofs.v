(* Filter/BcjDefectsProofs.v — what was wrong before repo-patches/11-13, and what is wrong today
   (BCJWriter under a partition of the data into write calls), each with a computed witness.
   Replays on the implementation: docs/design-notes/bcj.md. *)
From LzVerif Require Import Base.Bytes Filter.Bcj Filter.BcjStream Filter.BcjDefects Filter.BcjArithProofs
  Filter.BcjStreamProofs Filter.BcjAllProofs.

(* ---- today: BCJWriter is not independent of the write partition (known finding
   bcj-writer-midstream-tail) ---- *)
Theorem bcj_writer_partition_refuted :
  exists a start parts,
    bytes_ok (concat parts) = true /\
    (* what reaches the sink differs from the filtered stream ... *)
    bcj_enc_parts a start parts <> bcj_stream a true start (concat parts) /\
    (* ... and does not decode to the data *)
    (exists out, bcj_enc_parts a start parts = Ok out /\ bcj_stream a false start out <> Ok (concat parts)) /\
    (* although a single write call does *)
    (exists out1, bcj_enc_parts a start [concat parts] = Ok out1 /\ bcj_stream a false start out1 = Ok (concat parts)) /\
    (* the witness lies in the known class *)
    ~ no_midstream_tail a (bcj_init a start) parts.
Proof.
  exists ARM, 0, [[0]; [0; 0; 235; 1; 2; 3; 235]].
  split; [reflexivity|]. split; [vm_compute; discriminate|].
  split; [eexists; split; [vm_compute; reflexivity|vm_compute; discriminate]|].
  split; [eexists; split; [vm_compute; reflexivity|vm_compute; reflexivity]|].
  vm_compute. intros [[H|H] _]; discriminate.
Qed.

(* the same for x86, where practically every call leaves a tail *)
Theorem bcj_writer_partition_refuted_x86 :
  exists start parts,
    bcj_enc_parts X86 start parts <> bcj_stream X86 true start (concat parts) /\
    ~ no_midstream_tail X86 (bcj_init X86 start) parts.
Proof.
  exists 0, [[232; 0; 0; 0]; [0; 232; 0; 0; 0; 0]].
  split; [vm_compute; discriminate|]. vm_compute. intros [[H|H] _]; discriminate.
Qed.

(* ---- before 11: overflow panics ---- *)
(* `src + p`: start offset 0x7FFFFFEC, first word C1 09 0F EB (harness: bcj_enc arm 2147483628 ...) *)
Theorem bcj_checked_add_refuted :
  exists start b0 b1 b2,
    start mod 4 = 0 /\ 0 <= start < 4294967296 /\
    arm_word_old true (start + 8) 0 b0 b1 b2 235 = Panic 1 /\
    (* the repaired code converts the word, and the decoder gives it back *)
    (let '(c0, c1, c2, c3) := arm_word true (pc32 (start + 8) 0) b0 b1 b2 235 in
     arm_word false (pc32 (start + 8) 0) c0 c1 c2 c3 = (b0, b1, b2, 235)).
Proof. exists 2147483628, 193, 9, 15. repeat split; try reflexivity; try lia. Qed.

(* `start_pos + 8` on usize *)
Theorem bcj_checked_start_refuted : exists start, 0 <= start < 18446744073709551616 /\ new_arm_old start = Panic 1.
Proof. exists 18446744073709551612. split; [lia|reflexivity]. Qed.

(* where the old arithmetic did not panic it computed what the repaired code computes *)
Lemma arm_word_old_agrees enc pos i b0 b1 b2 b3 r :
  0 <= pos + i -> arm_word_old enc pos i b0 b1 b2 b3 = Ok r -> r = arm_word enc (pc32 pos i) b0 b1 b2 b3.
Proof.
  intros Hpos. unfold arm_word_old, arm_word, add_usize_checked, add_i32_checked, sub_i32_checked, addsub, pc32, u64.
  destruct (b3 =? 235); [|intros E; congruence].
  cbv zeta. destruct (Z.ltb_spec 18446744073709551615 (pos + i)); cbn [obind]; [discriminate|].
  rewrite (Z.mod_small (pos + i)) by lia.
  set (src := s32 _). set (p := s32 (pos + i)).
  destruct enc; cbn [obind].
  - destruct (Z.ltb_spec (src + p) (-2147483648)); cbn [orb obind]; [discriminate|].
    destruct (Z.ltb_spec 2147483647 (src + p)); cbn [obind]; [discriminate|].
    intros E. rewrite (s32_small (src + p)) by lia. congruence.
  - destruct (Z.ltb_spec (src - p) (-2147483648)); cbn [orb obind]; [discriminate|].
    destruct (Z.ltb_spec 2147483647 (src - p)); cbn [obind]; [discriminate|].
    intros E. rewrite (s32_small (src - p)) by lia. congruence.
Qed.

(* ---- before 12: bytes the sink did not take were lost ---- *)
Theorem bcj_writer_short_count_refuted :
  exists a start k buf out, 0 < k /\
    bcj_write_old_short a k (bcj_init a start) buf = Ok out /\ (length (snd out) < length buf)%nat.
Proof. exists ARM64, 0, 2, [198; 20; 182]. eexists. split; [lia|]. split; [vm_compute; reflexivity|cbn; lia]. Qed.

(* ---- before 13 ---- *)
(* a transient failure was remembered: from then on every call fails with Interrupted *)
Theorem bcj_reader_interrupted_sticky_refuted :
  exists a start inner,
    script_errs inner = [E_INTERRUPTED] /\
    (exists st1 inner1,
       bcj_read_old 10 a (bcj_reader_new a start) inner 4 = Ok ([], Some E_INTERRUPTED, st1, inner1) /\
       script_errs inner1 = [] /\
       forall fuel n, 0 < n -> bcj_read_old fuel a st1 inner1 n = Ok ([], Some E_INTERRUPTED, st1, inner1)).
Proof.
  exists ARM, 0, [IErr 8; IData [1; 2; 3; 4]]. split; [reflexivity|].
  eexists _, _. split; [vm_compute; reflexivity|]. split; [reflexivity|].
  intros fuel n Hn. unfold bcj_read_old. destruct (Z.leb_spec n 0); [lia|]. reflexivity.
Qed.

(* a failure after some bytes had been copied: the call fails and the bytes are gone (the state
   has moved past them); the repaired reader hands them out *)
Theorem bcj_reader_bytes_lost_refuted :
  exists a start inner st1 inner1 st2 inner2,
    bcj_read_old 10 a (bcj_reader_new a start) inner 4 = Ok ([1; 2; 3; 235], None, st1, inner1) /\
    (* four more converted bytes are ready, the caller asks for eight, the inner reader fails *)
    bcj_read_old 10 a st1 inner1 8 = Ok ([], Some 6, st2, inner2) /\ r_live st2 = [] /\
    bcj_read 10 a st1 inner1 8 = Ok ([5; 6; 7; 8], None, mkR (r_filter st2) (r_pos st2) 0 0 [] false (Some 6), inner2).
Proof.
  exists ARM64, 0, [IData [1; 2; 3; 235; 5; 6; 7; 8]; IErr 6].
  eexists _, _, _, _. split; [vm_compute; reflexivity|]. split; [vm_compute; reflexivity|].
  split; [vm_compute; reflexivity|vm_compute; reflexivity].
Qed.
