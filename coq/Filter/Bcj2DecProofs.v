(* Filter/Bcj2DecProofs.v — one call of Bcj2Decoder::decode ([bcj2_decode_rev]) from any state that satisfies
   the invariant: the start-up loop over the first five RC bytes, the bytes waiting in temp, then the
   outer loop (Filter/Bcj2LoopProofs.v).  Proofs only. *)
From LzVerif Require Import Base.Bytes Codec.Store Codec.Range Codec.ProbProofs Codec.RangeArithProofs.
From LzVerif Require Import Codec.LzmaDec Codec.LzmaEnc Codec.RangeEncProofs Codec.RangeDecProofs Codec.RangeProofs.
From LzVerif Require Import Filter.Bcj2 Filter.Bcj2Enc Filter.Bcj2EncProofs Filter.Bcj2RcProofs Filter.Bcj2ScanProofs Filter.Bcj2InvProofs Filter.Bcj2LoopProofs.
Ltac Zify.zify_post_hook ::= Z.div_mod_to_equations.

Lemma b2core_set_dest rc_out d F c x : b2core rc_out d F c -> b2core rc_out (bd_set_dest d x) F c.
Proof.
  intros (H1 & H2 & H3 & H4 & H5 & H6). unfold b2core.
  cbn [bd_set_dest bd_main bd_call bd_jump bd_probs]. msplit; assumption.
Qed.

(* ---------------------------------------------------------------------------------------------
   the bytes waiting in temp *)
Lemma temp_nth d k r0 r1 r2 r3 : bd_t0 d = r0 -> bd_t1 d = r1 -> bd_t2 d = r2 -> bd_t3 d = r3 -> 0 <= k < 4 ->
  exists x, bd_temp d k = Some x /\ skipn (Z.to_nat k) [r0; r1; r2; r3] = x :: skipn (Z.to_nat (k + 1)) [r0; r1; r2; r3].
Proof.
  intros <- <- <- <- Hk. assert (Hc : k = 0 \/ k = 1 \/ k = 2 \/ k = 3) by lia.
  destruct Hc as [-> | [-> | [-> | ->]]]; eexists; split; reflexivity.
Qed.

Lemma flush_spec lim r0 r1 r2 r3 : forall fuel k d o,
  (Z.to_nat (4 - k) <= fuel)%nat -> 0 <= k <= 4 -> bd_state d = 4 + k ->
  bd_t0 d = r0 -> bd_t1 d = r1 -> bd_t2 d = r2 -> bd_t3 d = r3 -> 0 <= bd_dest d <= lim ->
  exists m, 0 <= m <= 4 - k /\ m <= lim - bd_dest d /\ (m < 4 - k -> bd_dest d + m = lim) /\
    bcj2_flush_temp fuel lim d o =
      Ok (m <? 4 - k, bd_set_dest (bd_set_state d (4 + k + m)) (bd_dest d + m),
          rev (firstn (Z.to_nat m) (skipn (Z.to_nat k) [r0; r1; r2; r3])) ++ o).
Proof.
  induction fuel as [|f IH]; intros k d o Hf Hk Hst T0 T1 T2 T3 Hd.
  - assert (k = 4) by lia. subst k. exists 0. msplit; try lia.
    cbn [bcj2_flush_temp]. rewrite Hst. unfold BCJ2_DEC_STATE_ORIG_3. cbn [Z.ltb Z.compare Z.add Pos.add Pos.succ Pos.compare Pos.compare_cont].
    destruct d; cbn in *. subst. rewrite Z.add_0_r. reflexivity.
  - cbn [bcj2_flush_temp]. rewrite Hst. unfold BCJ2_DEC_STATE_ORIG_3, BCJ2_DEC_STATE_ORIG_0.
    destruct (Z.ltb_spec 7 (4 + k)) as [H7|H7].
    + assert (k = 4) by lia. subst k. exists 0. msplit; try lia.
      destruct d; cbn in *. subst. rewrite Z.add_0_r. reflexivity.
    + destruct (Z.eqb_spec (bd_dest d) lim) as [He|He].
      * exists 0. msplit; try lia.
        replace (0 <? 4 - k) with true by (symmetry; apply Z.ltb_lt; lia).
        destruct d; cbn in *. subst. rewrite !Z.add_0_r. reflexivity.
      * unfold store_ok.
        replace (0 <=? bd_dest d) with true by (symmetry; apply Z.leb_le; lia).
        replace (bd_dest d <? lim) with true by (symmetry; apply Z.ltb_lt; lia). cbn [andb negb].
        replace (4 + k - 4) with k by lia.
        destruct (temp_nth d k r0 r1 r2 r3 T0 T1 T2 T3 ltac:(lia)) as (x & Hx & Hsk).
        rewrite Hx.
        destruct (IH (k + 1) (bd_set_dest (bd_set_state d (4 + k + 1)) (bd_dest d + 1)) (x :: o)) as (m & M1 & M2 & M3 & M4);
          try (cbn [bd_set_dest bd_set_state bd_state bd_dest bd_t0 bd_t1 bd_t2 bd_t3]; first [assumption | lia]).
        cbn [bd_set_dest bd_dest] in M2, M3, M4.
        exists (m + 1). msplit; try lia.
        rewrite M4. replace (m + 1 <? 4 - k) with (m <? 4 - (k + 1)) by (destruct (Z.ltb_spec m (4 - (k + 1))), (Z.ltb_spec (m + 1) (4 - k)); lia).
        f_equal. f_equal; [f_equal|].
        -- unfold bd_set_dest, bd_set_state. cbn [bd_main bd_call bd_jump bd_rc bd_dest bd_state bd_ip bd_t0 bd_t1 bd_t2 bd_t3 bd_range bd_code bd_probs]. f_equal; lia.
        -- rewrite Hsk. replace (Z.to_nat (m + 1)) with (S (Z.to_nat m)) by lia. cbn [firstn rev]. rewrite <- app_assoc. reflexivity.
Qed.


(* ---------------------------------------------------------------------------------------------
   the start-up loop: five bytes of the RC stream *)
Lemma init_step_code b1 b2 b3 b4 rest k x tl :
  isb b1 -> isb b2 -> isb b3 -> isb b4 -> 0 <= k <= 4 ->
  skipn (Z.to_nat k) (0 :: b1 :: b2 :: b3 :: b4 :: rest) = x :: tl ->
  code_shift_in (be_val (firstn (Z.to_nat k) (0 :: b1 :: b2 :: b3 :: b4 :: rest))) x =
    be_val (firstn (Z.to_nat (k + 1)) (0 :: b1 :: b2 :: b3 :: b4 :: rest)) /\
  skipn (Z.to_nat (k + 1)) (0 :: b1 :: b2 :: b3 :: b4 :: rest) = tl /\
  (k = 1 -> be_val (firstn (Z.to_nat k) (0 :: b1 :: b2 :: b3 :: b4 :: rest)) = 0).
Proof.
  unfold isb. intros H1 H2 H3 H4 Hk Hs.
  assert (Hc : k = 0 \/ k = 1 \/ k = 2 \/ k = 3 \/ k = 4) by lia.
  unfold code_shift_in, wrap32, be_val.
  destruct Hc as [-> | [-> | [-> | [-> | ->]]]].
  all: repeat match goal with
       | |- context [Z.to_nat ?z] => let v := eval vm_compute in (Z.to_nat z) in change (Z.to_nat z) with v
       | H : context [Z.to_nat ?z] |- _ => let v := eval vm_compute in (Z.to_nat z) in change (Z.to_nat z) with v in H
       end.
  all: cbn [skipn firstn rev app le_value] in *; injection Hs as <- <-; (split; [|split; [reflexivity | intros; try lia]]).
  all: try (rewrite Z.mod_small by lia; rewrite lor_shift8 by lia; lia).
Qed.

Lemma init_spec b1 b2 b3 b4 rest fr :
  isb b1 -> isb b2 -> isb b3 -> isb b4 ->
  forall fuel k d,
  (Z.to_nat (5 - k) <= fuel)%nat -> 0 <= k <= 5 -> bd_range d = k ->
  bd_code d = be_val (firstn (Z.to_nat k) (0 :: b1 :: b2 :: b3 :: b4 :: rest)) ->
  sb_full (bd_rc d) -> sb_live (bd_rc d) ++ fr = skipn (Z.to_nat k) (0 :: b1 :: b2 :: b3 :: b4 :: rest) ->
  (exists k', k <= k' <= 4 /\ fr = skipn (Z.to_nat k') (0 :: b1 :: b2 :: b3 :: b4 :: rest) /\
     bcj2_init_loop fuel d =
       Ok (InitRet true (bd_set_state (bd_set_rc d (mkSb [] 0) k' (be_val (firstn (Z.to_nat k') (0 :: b1 :: b2 :: b3 :: b4 :: rest)))) BCJ2_STREAM_RC))) \/
  (exists rb, sb_full rb /\ sb_live rb ++ fr = rest /\
     bcj2_init_loop fuel d = Ok (InitDone (bd_set_rc d rb 5 (((b1 * 256 + b2) * 256 + b3) * 256 + b4)))).
Proof.
  intros H1 H2 H3 H4.
  assert (Hdone : forall fuel d, bd_range d = 5 ->
            bd_code d = be_val (firstn (Z.to_nat 5) (0 :: b1 :: b2 :: b3 :: b4 :: rest)) ->
            sb_full (bd_rc d) -> sb_live (bd_rc d) ++ fr = skipn (Z.to_nat 5) (0 :: b1 :: b2 :: b3 :: b4 :: rest) ->
            exists rb, sb_full rb /\ sb_live rb ++ fr = rest /\
              bcj2_init_loop fuel d = Ok (InitDone (bd_set_rc d rb 5 (((b1 * 256 + b2) * 256 + b3) * 256 + b4)))).
  { intros fuel d Hr Hc Hf Hl. exists (bd_rc d). split; [exact Hf|]. split; [exact Hl|].
    assert (Hrun : bcj2_init_loop fuel d = Ok (InitDone d)) by (destruct fuel; cbn [bcj2_init_loop]; rewrite Hr; reflexivity).
    rewrite Hrun. do 2 f_equal. unfold bd_set_rc. destruct d as [m c j rcb ds st ip t0 t1 t2 t3 rg cd pr]; cbn [bd_range bd_code bd_rc bd_main bd_call bd_jump bd_dest bd_state bd_ip bd_t0 bd_t1 bd_t2 bd_t3 bd_probs] in *. subst.
    f_equal. unfold be_val. change (Z.to_nat 5) with 5%nat. cbn [firstn rev app le_value]. lia. }
  induction fuel as [|f IH]; intros k d Hf Hk Hr Hc Hfull Hl.
  - assert (Hk5 : k = 5) by lia. rewrite Hk5 in *. right. apply Hdone; assumption.
  - destruct (Z.eq_dec k 5) as [Hk5|Hk5]; [rewrite Hk5 in *; right; apply Hdone; assumption|].
    cbn [bcj2_init_loop]. rewrite Hr.
    replace (k =? 5) with false by (symmetry; apply Z.eqb_neq; exact Hk5).
    pose proof (sb_pop_full _ Hfull) as Hpop.
    destruct (sb_live (bd_rc d)) as [|x l] eqn:El.
    + (* the buffer is empty *)
      assert (Htest : (k =? 1) && negb (bd_code d =? 0) = false).
      { destruct (Z.eqb_spec k 1) as [->|]; [|reflexivity]. rewrite Hc.
        unfold be_val. change (Z.to_nat 1) with 1%nat. cbn [firstn rev app le_value]. reflexivity. }
      rewrite Htest, Hpop. left. exists k. split; [lia|]. split; [exact Hl|].
      do 3 f_equal. unfold bd_set_rc. unfold sb_full in Hfull. rewrite El in Hfull.
      destruct d as [m c j [lv av] ds st ip t0 t1 t2 t3 rg cd pr]; cbn [bd_range bd_code bd_rc sb_live sb_avail bd_main bd_call bd_jump bd_dest bd_state bd_ip bd_t0 bd_t1 bd_t2 bd_t3 bd_probs] in *. subst.
      reflexivity.
    + cbn [app] in Hl.
      destruct (init_step_code b1 b2 b3 b4 rest k x (l ++ fr) H1 H2 H3 H4 ltac:(lia) (eq_sym Hl)) as (Hcode & Hskip & Hk1).
      assert (Htest : (k =? 1) && negb (bd_code d =? 0) = false).
      { destruct (Z.eqb_spec k 1) as [E|]; [|reflexivity]. rewrite Hc, (Hk1 E). reflexivity. }
      destruct Hpop as [Hpop Hfull'].
      rewrite Htest, Hpop.
      destruct (IH (k + 1) (bd_set_rc d (mkSb l (sb_avail (bd_rc d) - 1)) (k + 1) (code_shift_in (bd_code d) x)))
        as [(k' & K1 & K2 & K3) | (rb & R1 & R2 & R3)];
        try (cbn [bd_set_rc bd_range bd_code bd_rc sb_live]; first [assumption | lia | idtac]).
      * rewrite Hc. exact Hcode.
      * symmetry. exact Hskip.
      * left. exists k'. split; [lia|]. split; [exact K2|]. rewrite K3. reflexivity.
      * right. exists rb. split; [exact R1|]. split; [exact R2|]. rewrite R3. reflexivity.
Qed.


(* ---------------------------------------------------------------------------------------------
   one call of decode() *)
Lemma skipn_skipn' {A} a b (l : list A) : skipn a (skipn b l) = skipn (b + a) l.
Proof.
  revert l; induction b as [|b IHb]; intros l; [reflexivity|].
  destruct l; [destruct a; reflexivity|]. cbn [skipn Nat.add]. apply IHb.
Qed.

Lemma b2core_scan_of rc_out d F ph its prev pos e t :
  b2core rc_out d F (mkCfg ph its prev pos e t) ->
  match ph with
  | PhInit _ => True
  | PhTemp k r0 r1 r2 r3 => True
  | _ => False
  end ->
  b2core rc_out d F (mkCfg PhScan its prev pos e t).
Proof.
  intros (H1 & H2 & H3 & H4 & H5 & H6) Hph. unfold b2core in *.
  cbn [c_ph c_its c_prev c_pos c_e c_t] in *.
  destruct ph as [k| |ic r0 r1 r2 r3|k r0 r1 r2 r3]; try contradiction.
  - msplit; assumption.
  - msplit; try assumption. unfold g_regs in *. cbn [c_ph c_prev c_pos] in *.
    destruct H6 as (_ & _ & _ & T3 & Hip & Hp & _). split; [rewrite T3; symmetry; exact Hp | exact Hip].
Qed.

Lemma loop_post_nil rc_out F lim d c res :
  loop_post rc_out F lim d c [] res ->
  exists d' c' delta,
    res = Ok (true, d', rev delta) /\
    b2inv rc_out d' F c' /\ rem_out c = delta ++ rem_out c' /\
    bd_dest d' = bd_dest d + zlen delta /\ bd_dest d' <= lim /\ exit_ok lim d' c'.
Proof.
  intros (d' & c' & delta & H1 & H2). exists d', c', delta. rewrite app_nil_r in H1. split; assumption.
Qed.

Theorem decode_spec rc_out F lim d c :
  b2inv rc_out d F c -> 0 <= bd_dest d <= lim ->
  exists d' c' delta,
    bcj2_decode_rev lim d = Ok (true, d', rev delta) /\
    b2inv rc_out d' F c' /\ rem_out c = delta ++ rem_out c' /\
    bd_dest d' = bd_dest d + zlen delta /\ bd_dest d' <= lim /\ exit_ok lim d' c'.
Proof.
  destruct c as [ph its prev pos e t]. intros (Hcore & Hstate & Hrcph) Hdest.
  pose proof Hcore as (_ & _ & (HI & Ht & Htab & Hout & Hsize & Hbytes) & _).
  cbn [c_ph c_its c_prev c_pos c_e c_t] in *.
  unfold bcj2_decode_rev.
  destruct ph as [k| |ic r0 r1 r2 r3|k r0 r1 r2 r3]; unfold g_rcph in Hrcph; cbn [c_ph c_e] in Hrcph; cbn [g_state] in Hstate.
  - (* start-up *)
    destruct Hrcph as (Hk & Hr & He & Hfull & Hcode & Hlive). subst e.
    replace (bd_range d <=? 5) with true by (symmetry; apply Z.leb_le; lia).
    destruct (renc_output_head t (b2_events its) Ht (b2_events_ok its)) as (b1 & b2 & b3 & b4 & rest & Hhead & Hc0).
    { unfold RC_MAX_BITS. cbn [renc_init re_cache_size] in Hsize. lia. }
    rewrite <- Hout in Hhead.
    assert (Hb : isb b1 /\ isb b2 /\ isb b3 /\ isb b4).
    { rewrite Hhead in Hbytes. apply bytes_ok_isb in Hbytes as [_ Hb]. apply bytes_ok_isb in Hb as [B1 Hb].
      apply bytes_ok_isb in Hb as [B2 Hb]. apply bytes_ok_isb in Hb as [B3 Hb]. apply bytes_ok_isb in Hb as [B4 _]. auto. }
    destruct Hb as (B1 & B2 & B3 & B4).
    rewrite Hhead in Hcode, Hlive.
    destruct (init_spec b1 b2 b3 b4 rest (f_rc F) B1 B2 B3 B4 5%nat k (bd_set_state d BCJ2_DEC_STATE_OK))
      as [(k' & K1 & K2 & K3) | (rb & R1 & R2 & R3)]; try (cbn [bd_set_state bd_range bd_code bd_rc]; first [assumption | lia]).
    + rewrite K3. cbn [obind].
      eexists _, (mkCfg (PhInit k') its prev pos renc_init t), [].
      split; [reflexivity|]. split.
      { split; [apply b2core_set_state, b2core_set_rc, b2core_set_state|].
        - destruct Hcore as (C1 & C2 & C3 & C4 & C5 & C6). unfold b2core. cbn [c_ph c_its c_prev c_pos c_e c_t] in *. msplit; assumption.
        - split.
          + cbn [bd_set_state bd_state c_ph g_state]. unfold BCJ2_STREAM_RC. auto.
          + unfold g_rcph. cbn [c_ph c_e bd_set_state bd_set_rc bd_range bd_code bd_rc sb_live sb_avail app].
            rewrite Hhead. msplit; try reflexivity; try lia; try assumption. }
      split; [reflexivity|]. cbn [bd_set_state bd_set_rc bd_dest]. split; [unfold zlen; cbn; lia|]. split; [lia|].
      unfold exit_ok. cbn [c_ph bd_set_state bd_set_rc bd_state bd_rc sb_avail]. unfold BCJ2_STREAM_RC. auto.
    + rewrite R3. cbn [obind bd_set_rc bd_code bd_rc].
      replace (((b1 * 256 + b2) * 256 + b3) * 256 + b4 =? 4294967295) with false by (symmetry; apply Z.eqb_neq; lia).
      apply loop_post_nil. 
      match goal with |- loop_post _ _ _ _ _ _ (bcj2_loop _ _ ?dd _) => set (d2 := dd) end.
      assert (Hd2 : d2 = bd_set_rc (bd_set_state d BCJ2_DEC_STATE_OK) rb 4294967295 (((b1 * 256 + b2) * 256 + b3) * 256 + b4)) by reflexivity.
      assert (Hpost : loop_post rc_out F lim d2 (mkCfg PhScan its prev pos renc_init t) [] (bcj2_loop (bcj2_loop_fuel d2) lim d2 [])).
      { apply loop_spec.
        - rewrite Hd2. apply b2core_set_rc, b2core_set_state. apply (b2core_scan_of _ _ _ (PhInit k)); [exact Hcore | exact I].
        - rewrite Hd2. cbn [c_e bd_set_rc bd_rc bd_range bd_code]. split; [exact R1|].
          apply rc_norm_ok; [|exact HI]. rewrite R2. apply rc_norm_init. exact Hhead.
        - unfold loop_pre. cbn [c_ph]. rewrite Hd2. cbn [bd_set_rc bd_set_state bd_state bd_main]. split; [reflexivity|].
          unfold bcj2_loop_fuel. cbn [bd_set_rc bd_set_state bd_main]. lia.
        - rewrite Hd2. cbn [bd_set_rc bd_set_state bd_dest]. exact Hdest. }
      destruct Hpost as (d' & c' & delta & P1 & P2 & P3 & P4 & P5 & P6).
      exists d', c', delta. split; [exact P1|]. split; [exact P2|]. split; [exact P3|].
      rewrite Hd2 in P4. cbn [bd_set_rc bd_set_state bd_dest] in P4. split; [exact P4|]. split; assumption.
  - (* between two items *)
    pose proof (rc_ok_range _ _ _ _ _ (proj2 Hrcph) HI) as Hr.
    replace (bd_range d <=? 5) with false by (symmetry; apply Z.leb_gt; lia).
    assert (Hloop : loop_post rc_out F lim d (mkCfg PhScan its prev pos e t) [] (bcj2_loop (bcj2_loop_fuel d) lim d [])).
    { apply loop_spec; try assumption. unfold loop_pre. cbn [c_ph]. split.
      - destruct Hstate as [-> | [-> | [-> | ->]]]; reflexivity.
      - unfold bcj2_loop_fuel. lia. }
    apply loop_post_nil.
    destruct Hstate as [Hs | [Hs | [Hs | Hs]]]; rewrite Hs; unfold BCJ2_DEC_STATE_ORIG_0.
    + cbn [Z.leb Z.compare]. exact Hloop.
    + cbn [Z.leb Z.compare Pos.compare Pos.compare_cont]. exact Hloop.
    + cbn [Z.leb Z.compare Pos.compare Pos.compare_cont bcj2_flush_temp]. rewrite Hs. unfold BCJ2_DEC_STATE_ORIG_3.
      cbn [Z.ltb Z.compare Pos.compare Pos.compare_cont obind]. exact Hloop.
    + cbn [Z.leb Z.compare Pos.compare Pos.compare_cont bcj2_flush_temp]. rewrite Hs. unfold BCJ2_DEC_STATE_ORIG_3.
      cbn [Z.ltb Z.compare Pos.compare Pos.compare_cont obind]. exact Hloop.
  - (* waiting for a word *)
    pose proof (rc_ok_range _ _ _ _ _ (proj2 Hrcph) HI) as Hr.
    replace (bd_range d <=? 5) with false by (symmetry; apply Z.leb_gt; lia).
    assert (Hloop : loop_post rc_out F lim d (mkCfg (PhWord ic r0 r1 r2 r3) its prev pos e t) [] (bcj2_loop (bcj2_loop_fuel d) lim d [])).
    { apply loop_spec; try assumption. unfold loop_pre. cbn [c_ph]. split; [exact Hstate|]. unfold bcj2_loop_fuel. lia. }
    apply loop_post_nil. rewrite Hstate. unfold BCJ2_DEC_STATE_ORIG_0.
    replace (4 <=? (if ic then 1 else 2)) with false by (destruct ic; reflexivity). exact Hloop.
  - (* operand bytes in temp *)
    pose proof (rc_ok_range _ _ _ _ _ (proj2 Hrcph) HI) as Hr.
    replace (bd_range d <=? 5) with false by (symmetry; apply Z.leb_gt; lia).
    pose proof Hcore as (_ & _ & _ & _ & _ & Hregs). unfold g_regs in Hregs. cbn [c_ph c_prev c_pos] in Hregs.
    destruct Hregs as (T0 & T1 & T2 & T3 & Hip & Hp3 & I0 & I1 & I2 & I3 & Hk).
    unfold BCJ2_DEC_STATE_ORIG_0. replace (4 <=? bd_state d) with true by (symmetry; apply Z.leb_le; lia).
    destruct (flush_spec lim r0 r1 r2 r3 4%nat k d [] ltac:(lia) ltac:(lia) Hstate T0 T1 T2 T3 Hdest) as (m & M1 & M2 & M3 & M4).
    rewrite M4. cbn [obind]. rewrite app_nil_r.
    destruct (Z.ltb_spec m (4 - k)) as [Hlt|Hge].
    + (* the destination is full *)
      eexists _, (mkCfg (PhTemp (k + m) r0 r1 r2 r3) its prev pos e t), _.
      split; [reflexivity|]. split.
      { split; [apply b2core_set_dest, b2core_set_state|].
        - destruct Hcore as (C1 & C2 & C3 & C4 & C5 & C6). unfold b2core. cbn [c_ph c_its c_prev c_pos c_e c_t] in *.
          msplit; try assumption. unfold g_regs. cbn [c_ph c_prev c_pos]. msplit; try assumption; lia.
        - split.
          + cbn [bd_set_dest bd_set_state bd_state c_ph g_state]. lia.
          + unfold g_rcph. cbn [c_ph c_e bd_set_dest bd_set_state bd_rc bd_range bd_code]. exact Hrcph. }
      split.
      { unfold rem_out. cbn [c_ph c_its]. rewrite app_assoc. f_equal.
        replace (Z.to_nat (k + m)) with (Z.to_nat k + Z.to_nat m)%nat by lia.
        rewrite <- skipn_skipn'. symmetry. apply firstn_skipn. }
      cbn [bd_set_dest bd_dest].
      assert (Hzl : zlen (firstn (Z.to_nat m) (skipn (Z.to_nat k) [r0; r1; r2; r3])) = m).
      { unfold zlen. rewrite firstn_length, skipn_length. cbn [length]. lia. }
      rewrite Hzl. split; [reflexivity|]. split; [lia|].
      unfold exit_ok. cbn [c_ph bd_set_dest bd_dest]. apply M3. exact Hlt.
    + (* all of temp stored: state = ORIG, the loop goes on *)
      assert (Hm : m = 4 - k) by lia.
      set (d2 := bd_set_dest (bd_set_state d (4 + k + m)) (bd_dest d + m)).
      set (o2 := rev (firstn (Z.to_nat m) (skipn (Z.to_nat k) [r0; r1; r2; r3]))).
      assert (Hpost : loop_post rc_out F lim d2 (mkCfg PhScan its prev pos e t) o2 (bcj2_loop (bcj2_loop_fuel d2) lim d2 o2)).
      { apply loop_spec.
        - unfold d2. apply b2core_set_dest, b2core_set_state. apply (b2core_scan_of _ _ _ (PhTemp k r0 r1 r2 r3)); [exact Hcore | exact I].
        - unfold d2. cbn [c_e bd_set_dest bd_set_state bd_rc bd_range bd_code]. exact Hrcph.
        - unfold loop_pre, d2. cbn [c_ph bd_set_dest bd_set_state bd_state bd_main]. split.
          + replace (4 + k + m) with 8 by lia. reflexivity.
          + unfold bcj2_loop_fuel. cbn [bd_set_dest bd_set_state bd_main]. lia.
        - unfold d2. cbn [bd_set_dest bd_dest]. lia. }
      destruct Hpost as (d' & c' & delta & P1 & P2 & P3 & P4 & P5 & P6).
      exists d', c', (firstn (Z.to_nat m) (skipn (Z.to_nat k) [r0; r1; r2; r3]) ++ delta).
      split; [rewrite P1; unfold o2; rewrite rev_app_distr; reflexivity|]. split; [exact P2|]. split.
      { unfold rem_out at 1. cbn [c_ph c_its]. unfold rem_out at 1 in P3. cbn [c_ph c_its] in P3. rewrite P3, app_assoc. f_equal.
        rewrite firstn_all2; [reflexivity|]. rewrite skipn_length. cbn [length]. lia. }
      unfold d2 in P4. cbn [bd_set_dest bd_dest] in P4. rewrite zlen_app.
      assert (Hzl : zlen (firstn (Z.to_nat m) (skipn (Z.to_nat k) [r0; r1; r2; r3])) = m).
      { unfold zlen. rewrite firstn_length, skipn_length. cbn [length]. lia. }
      rewrite Hzl. split; [lia|]. split; assumption.
Qed.
