(* Filter/Bcj2ReaderProofs.v — BCJ2Reader::read ([bcj2_read], Filter/Bcj2.v) over the four streams of the
   specification encoder, delivered by the inner readers in ANY chunking (pieces of any length, also
   not multiples of four for CALL/JUMP) and read with ANY history of destination sizes: the calls
   return the original bytes in order, none fails.  Built on decode_spec (one decode() call keeps the
   invariant), exit_analysis (where it stops) and decode_slack (the carried bytes of an incomplete
   word).  Proofs only. *)
From LzVerif Require Import Base.Bytes Codec.Store Codec.Range Codec.ProbProofs Codec.RangeArithProofs.
From LzVerif Require Import Codec.LzmaDec Codec.LzmaEnc Codec.RangeEncProofs Codec.RangeDecProofs Codec.RangeProofs.
From LzVerif Require Import Filter.BcjStream Filter.BcjStreamProofs.
From LzVerif Require Import Filter.Bcj2 Filter.Bcj2Enc Filter.Bcj2EncProofs Filter.Bcj2RcProofs Filter.Bcj2ScanProofs Filter.Bcj2InvProofs
  Filter.Bcj2LoopProofs Filter.Bcj2DecProofs Filter.Bcj2SpecProofs Filter.Bcj2SlackProofs.
Ltac Zify.zify_post_hook ::= Z.div_mod_to_equations.

(* ---------------------------------------------------------------------------------------------
   scripts that only deliver data *)
Definition dscript (ev : list inner_event) : Prop := script_ok ev /\ script_errs ev = [].

Lemma dscript_read ev n : dscript ev -> 0 < n ->
  exists data ev', inner_read ev n = (BjData data, ev') /\ dscript ev' /\
    script_data ev = data ++ script_data ev' /\ zlen data <= n /\ (data = [] -> script_data ev = []).
Proof.
  intros [Hok Herr] Hn. destruct (inner_read ev n) as [ret ev'] eqn:E.
  destruct (inner_read_spec ev n ret ev' Hok Hn E) as (Hok' & Hret).
  destruct ret as [data|c].
  - destruct Hret as (H1 & H2 & H3 & H4). exists data, ev'. split; [reflexivity|].
    split; [split; [exact Hok' | rewrite H3; exact Herr]|]. split; [exact H1|]. split; [exact H2|].
    intros Hd. destruct (H4 Hd) as [-> _]. reflexivity.
  - subst ev. cbn [script_errs] in Herr. discriminate.
Qed.

Definition fut_of (ins : inners) : futures :=
  let '(m, c, j, r) := ins in mkFut (script_data m) (script_data c) (script_data j) (script_data r).
Definition ins_ok (ins : inners) : Prop :=
  let '(m, c, j, r) := ins in dscript m /\ dscript c /\ dscript j /\ dscript r.

(* ---------------------------------------------------------------------------------------------
   the inner loop of the refill *)
Lemma land3_mod4 x : 0 <= x -> Z.land x 3 = x mod 4.
Proof. intros H. change 3 with (Z.ones 2). rewrite Z.land_ones by lia. reflexivity. Qed.

(* MAIN / RC: one read *)
Lemma fill_once s ev : bcj2_is_32bit_stream s = false -> dscript ev ->
  exists data ev', bcj2_fill 4 s ev [] 0 = Ok (None, data, zlen data, ev') /\ dscript ev' /\
    script_data ev = data ++ script_data ev' /\ (data = [] -> script_data ev = []).
Proof.
  intros Hs Hd. cbn [bcj2_fill]. rewrite Z.sub_0_r.
  destruct (dscript_read ev BUF_SIZE Hd ltac:(unfold BUF_SIZE; lia)) as (data & ev' & Hr & Hd' & Hsd & _ & Hnil).
  rewrite Hr. exists data, ev'. rewrite Hs, andb_false_r.
  destruct data as [|x l]; cbn [app]; rewrite ?Z.add_0_l; msplit; try assumption; reflexivity.
Qed.

(* CALL / JUMP: reads until four bytes are there *)
Lemma fill_word s : bcj2_is_32bit_stream s = true -> forall fuel ev buf,
  dscript ev -> zlen buf < 4 -> 4 <= zlen (buf ++ script_data ev) -> (Z.to_nat (4 - zlen buf) <= fuel)%nat ->
  exists got ev', bcj2_fill fuel s ev buf (zlen buf) = Ok (None, buf ++ got, zlen (buf ++ got), ev') /\ dscript ev' /\
    script_data ev = got ++ script_data ev' /\ 4 <= zlen (buf ++ got) /\ got <> [].
Proof.
  intros Hs. induction fuel as [|f IH]; intros ev buf Hd Hb H4 Hf; [lia|].
  cbn [bcj2_fill].
  pose proof (zlen_nonneg buf) as Hnn.
  destruct (dscript_read ev (BUF_SIZE - zlen buf) Hd ltac:(unfold BUF_SIZE; lia)) as (data & ev' & Hr & Hd' & Hsd & _ & Hnil).
  rewrite Hr.
  destruct data as [|x l].
  { rewrite (Hnil eq_refl), app_nil_r in H4. lia. }
  rewrite Hs, andb_true_r. rewrite <- zlen_app.
  destruct (Z.ltb_spec (zlen (buf ++ x :: l)) 4) as [Hlt|Hge].
  - destruct (IH ev' (buf ++ x :: l) Hd' Hlt) as (got & ev'' & Hfill & Hd'' & Hsd' & H4' & Hne).
    + rewrite <- app_assoc, <- Hsd. exact H4.
    + rewrite zlen_app, zlen_cons in *. pose proof (zlen_nonneg l). lia.
    + exists ((x :: l) ++ got), ev''. rewrite app_assoc. split; [exact Hfill|]. split; [exact Hd''|].
      split; [rewrite Hsd, Hsd', app_assoc; reflexivity|]. split; [exact H4'|]. discriminate.
  - exists (x :: l), ev'. msplit; try assumption; try reflexivity. discriminate.
Qed.

(* ---------------------------------------------------------------------------------------------
   the reader invariant and its preservation by a refill *)
Definition rinv (rc_out : list Z) (r : b2reader) (ins : inners) (c : b2cfg) : Prop :=
  b2inv rc_out (br_dec r) (fut_of ins) c /\
  br_extra_call r = slack (bd_call (br_dec r)) /\
  br_extra_jump r = slack (bd_jump (br_dec r)) /\
  br_size r = zlen (rem_out c) /\ br_err r = None /\ ins_ok ins.

Lemma bd_set_stream_0 d b : bd_set_stream d 0 b =
  mkBd b (bd_call d) (bd_jump d) (bd_rc d) (bd_dest d) (bd_state d) (bd_ip d) (bd_t0 d) (bd_t1 d) (bd_t2 d) (bd_t3 d) (bd_range d) (bd_code d) (bd_probs d).
Proof. reflexivity. Qed.
Lemma bd_set_stream_1 d b : bd_set_stream d 1 b =
  mkBd (bd_main d) b (bd_jump d) (bd_rc d) (bd_dest d) (bd_state d) (bd_ip d) (bd_t0 d) (bd_t1 d) (bd_t2 d) (bd_t3 d) (bd_range d) (bd_code d) (bd_probs d).
Proof. reflexivity. Qed.
Lemma bd_set_stream_2 d b : bd_set_stream d 2 b =
  mkBd (bd_main d) (bd_call d) b (bd_rc d) (bd_dest d) (bd_state d) (bd_ip d) (bd_t0 d) (bd_t1 d) (bd_t2 d) (bd_t3 d) (bd_range d) (bd_code d) (bd_probs d).
Proof. reflexivity. Qed.
Lemma bd_set_stream_3 d b : bd_set_stream d 3 b =
  mkBd (bd_main d) (bd_call d) (bd_jump d) b (bd_dest d) (bd_state d) (bd_ip d) (bd_t0 d) (bd_t1 d) (bd_t2 d) (bd_t3 d) (bd_range d) (bd_code d) (bd_probs d).
Proof. reflexivity. Qed.

Lemma b2inv_refill_main rc_out d F c data fm' :
  b2inv rc_out d F c -> sb_live (bd_main d) = [] -> f_main F = data ++ fm' ->
  b2inv rc_out (bd_set_stream d 0 (mkSb data (zlen data))) (mkFut fm' (f_call F) (f_jump F) (f_rc F)) c.
Proof.
  intros (((Hm & Hmf) & Hcj & Henc & Hwf & Hp & Hregs) & Hst & Hrc) Hl Hf. rewrite bd_set_stream_0.
  unfold b2inv, b2core. cbn [bd_main bd_call bd_jump bd_rc bd_probs bd_state bd_range bd_code f_main f_call f_jump f_rc].
  msplit; try assumption.
  unfold g_main. cbn [sb_live sb_avail]. split; [|reflexivity]. rewrite <- Hm, Hl, Hf. reflexivity.
Qed.

Lemma b2inv_refill_rc rc_out d F c data fr' :
  b2inv rc_out d F c -> sb_live (bd_rc d) = [] -> f_rc F = data ++ fr' ->
  b2inv rc_out (bd_set_stream d 3 (mkSb data (zlen data))) (mkFut (f_main F) (f_call F) (f_jump F) fr') c.
Proof.
  intros ((Hmain & Hcj & Henc & Hwf & Hp & Hregs) & Hst & Hrc) Hl Hf. rewrite bd_set_stream_3.
  unfold b2inv, b2core. cbn [bd_main bd_call bd_jump bd_rc bd_probs bd_state bd_range bd_code f_main f_call f_jump f_rc].
  msplit; try assumption.
  unfold g_rcph, g_rc, sb_full in *. rewrite Hl, Hf in Hrc. cbn [app] in Hrc.
  destruct (c_ph c); cbn [bd_rc bd_range bd_code f_rc sb_live sb_avail]; msplit; try reflexivity; tauto.
Qed.

Lemma sb_word_refill live got : 4 <= zlen (live ++ got) ->
  sb_word (mkSb (live ++ got) (zlen (live ++ got) - Z.land (zlen (live ++ got)) 3)).
Proof.
  intros H4. unfold sb_word. cbn [sb_live sb_avail]. rewrite land3_mod4 by lia. msplit; lia.
Qed.

Lemma b2inv_refill_call rc_out d F c got fc' :
  b2inv rc_out d F c -> f_call F = got ++ fc' -> 4 <= zlen (sb_live (bd_call d) ++ got) ->
  b2inv rc_out (bd_set_stream d 1 (mkSb (sb_live (bd_call d) ++ got)
                  (zlen (sb_live (bd_call d) ++ got) - Z.land (zlen (sb_live (bd_call d) ++ got)) 3)))
        (mkFut (f_main F) fc' (f_jump F) (f_rc F)) c.
Proof.
  intros ((Hmain & (Hc & Hcw & Hj & Hjw) & Henc & Hwf & Hp & Hregs) & Hst & Hrc) Hf H4. rewrite bd_set_stream_1.
  unfold b2inv, b2core. cbn [bd_main bd_call bd_jump bd_rc bd_probs bd_state bd_range bd_code f_main f_call f_jump f_rc].
  msplit; try assumption.
  unfold g_cj. cbn [sb_live]. msplit; try assumption.
  - rewrite <- Hc, Hf, app_assoc. reflexivity.
  - apply sb_word_refill. exact H4.
Qed.

Lemma b2inv_refill_jump rc_out d F c got fj' :
  b2inv rc_out d F c -> f_jump F = got ++ fj' -> 4 <= zlen (sb_live (bd_jump d) ++ got) ->
  b2inv rc_out (bd_set_stream d 2 (mkSb (sb_live (bd_jump d) ++ got)
                  (zlen (sb_live (bd_jump d) ++ got) - Z.land (zlen (sb_live (bd_jump d) ++ got)) 3)))
        (mkFut (f_main F) (f_call F) fj' (f_rc F)) c.
Proof.
  intros ((Hmain & (Hc & Hcw & Hj & Hjw) & Henc & Hwf & Hp & Hregs) & Hst & Hrc) Hf H4. rewrite bd_set_stream_2.
  unfold b2inv, b2core. cbn [bd_main bd_call bd_jump bd_rc bd_probs bd_state bd_range bd_code f_main f_call f_jump f_rc].
  msplit; try assumption.
  unfold g_cj. cbn [sb_live]. msplit; try assumption.
  - rewrite <- Hj, Hf, app_assoc. reflexivity.
  - apply sb_word_refill. exact H4.
Qed.

(* ---------------------------------------------------------------------------------------------
   the loop of read() *)
Definition rloop_prop (rc_out : list Z) (fuel : nat) : Prop :=
  forall lim r ins c out rs,
    rinv rc_out r ins c -> 0 <= bd_dest (br_dec r) <= lim -> lim - bd_dest (br_dec r) <= br_size r ->
    (inners_data_len ins + 2 <= fuel)%nat ->
    exists r' ins' c' delta,
      bcj2_read_loop false fuel lim r ins out rs (bd_dest (br_dec r)) = Ok (rev out ++ delta, None, r', ins') /\
      rinv rc_out r' ins' c' /\ rem_out c = delta ++ rem_out c' /\
      bd_dest (br_dec r) + zlen delta = lim /\ (inners_data_len ins' <= inners_data_len ins)%nat.

Lemma rloop_step rc_out f : rloop_prop rc_out f -> rloop_prop rc_out (S f).
Proof.
  intros IH lim r ins c out rs (Hinv & Hxc & Hxj & Hsize & Herr & Hins) Hdest Hroom Hfuel.
  destruct (decode_spec rc_out _ lim _ _ Hinv Hdest) as (d1 & c1 & delta1 & Hdec & Hinv1 & Hrem1 & Hdest1 & Hle1 & Hex1).
  destruct (decode_slack _ _ _ _ _ Hdec) as [Hsc Hsj].
  cbn [bcj2_read_loop]. rewrite Hdec. cbn [obind negb].
  cbn [br_set_dec br_dec br_size br_set_size br_extra_call br_extra_jump br_err].
  pose proof (zlen_nonneg delta1) as Hd1n.
  replace (bd_dest d1 <? bd_dest (br_dec r)) with false by (symmetry; apply Z.ltb_ge; lia).
  assert (Hszl : br_size r = zlen delta1 + zlen (rem_out c1)) by (rewrite Hsize, Hrem1; apply zlen_app).
  pose proof (zlen_nonneg (rem_out c1)) as Hr1n.
  replace (br_size r <? bd_dest d1 - bd_dest (br_dec r)) with false by (symmetry; apply Z.ltb_ge; lia).
  replace (bd_dest d1 - bd_dest (br_dec r)) with (zlen delta1) by lia.
  replace (bd_dest (br_dec r) + zlen delta1) with (bd_dest d1) by lia.
  replace (br_size r - zlen delta1) with (zlen (rem_out c1)) by lia.
  set (r2 := br_set_size (br_set_dec r d1) (zlen (rem_out c1))).
  assert (Hrinv2 : rinv rc_out r2 ins c1).
  { unfold rinv, r2. cbn [br_dec br_set_size br_set_dec br_extra_call br_extra_jump br_size br_err].
    msplit; try assumption; try reflexivity; congruence. }
  destruct ins as [[[im ic] ij] ir]. destruct Hins as (Him & Hic & Hij & Hir).
  cbn [inners_data_len] in Hfuel.
  destruct (exit_analysis _ _ _ _ _ Hinv1 Hex1)
    as [(Hs & Hph & Hav & Hlm & Hr) | [(Hs & Hav & Hlr & Hne) | [(Hs & Hav & H4) | [(Hs & Hav & H4) | (Hs & Hd & Hne)]]]].
  5: { (* destination full *)
    unfold BCJ2_NUM_STREAMS. replace (4 <=? bd_state d1) with true by (symmetry; apply Z.leb_le; lia).
    unfold bcj2_read_tail. cbn [r2 br_size br_set_size br_set_dec br_dec].
    assert (Hnz : zlen (rem_out c1) <> 0).
    { intros Hz. apply Hne. unfold zlen in Hz. destruct (rem_out c1); [reflexivity | cbn [length] in Hz; lia]. }
    replace (zlen (rem_out c1) =? 0) with false by (symmetry; apply Z.eqb_neq; exact Hnz). cbn [andb].
    eexists _, (im, ic, ij, ir), c1, delta1. split; [rewrite rev_app_distr, rev_involutive; reflexivity|].
    split; [exact Hrinv2|]. split; [exact Hrem1|]. split; [lia|]. lia. }
  - (* MAIN *)
    rewrite Hs. unfold BCJ2_NUM_STREAMS. cbn [Z.leb Z.compare].
    cbn [r2 br_extra br_set_size br_set_dec br_extra_call br_extra_jump bd_stream inner_get inner_set bcj2_is_32bit_stream
         BCJ2_STREAM_MAIN BCJ2_STREAM_CALL BCJ2_STREAM_JUMP BCJ2_STREAM_RC Z.eqb Pos.eqb orb].
    rewrite Hlm. cbn [Z.to_nat firstn zlen length Z.of_nat Z.ltb Z.compare].
    destruct (fill_once 0 im eq_refl Him) as (data & im' & Hfill & Him' & Hsd & Hnil).
    rewrite Hfill. cbn [obind].
    assert (Hb1 : bd_dest (br_dec r) + zlen delta1 <= lim) by lia.
    destruct (Z.eqb_spec (zlen data) 0) as [Hz|Hz].
    + (* end of the MAIN stream *)
      assert (Hdn : data = []) by (unfold zlen in Hz; destruct data; [reflexivity | cbn [length] in Hz; lia]).
      subst data. specialize (Hnil eq_refl). cbn [app] in Hsd.
      destruct c1 as [ph1 its1 prev1 pos1 e1 t1]. cbn [c_ph] in Hph. subst ph1.
      pose proof Hinv1 as (((Hm1 & _) & _) & _). cbn [fut_of f_main c_its] in Hm1. rewrite Hlm, Hnil in Hm1. cbn [app] in Hm1.
      symmetry in Hm1. apply its_nil_of_main in Hm1. subst its1.
      destruct (final_state _ _ _ _ _ _ _ Hinv1 Hr) as [Hcode _].
      assert (Hrem0 : rem_out (mkCfg PhScan [] prev1 pos1 e1 t1) = []) by reflexivity.
      unfold bcj2_read_tail. cbn [r2 br_size br_set_size br_set_dec br_dec]. rewrite Hrem0.
      rewrite bd_set_stream_0. cbn [bd_code bd_state].
      replace (bd_code d1 =? 0) with true by (rewrite Hcode; reflexivity).
      replace (bd_state d1 =? BCJ2_STREAM_MAIN) with true by (rewrite Hs; reflexivity).
      cbn [zlen length Z.of_nat Z.eqb negb andb].
      eexists _, (im', ic, ij, ir), (mkCfg PhScan [] prev1 pos1 e1 t1), delta1.
      split; [rewrite rev_app_distr, rev_involutive; reflexivity|].
      split.
      { unfold rinv, r2. cbn [br_dec br_set_dec br_set_size br_extra_call br_extra_jump br_size br_err bd_call bd_jump ins_ok].
        msplit; try assumption; try reflexivity; try congruence.
        pose proof (b2inv_refill_main rc_out d1 (fut_of (im, ic, ij, ir)) _ [] (script_data im') Hinv1 Hlm) as Hx.
        rewrite bd_set_stream_0 in Hx. cbn [fut_of f_main f_call f_jump f_rc app] in Hx. change (zlen []) with 0 in Hx.
        cbn [fut_of]. apply Hx. exact Hsd. }
      split; [exact Hrem1|].
      rewrite Hrem0 in Hszl. change (zlen []) with 0 in Hszl.
      split; [lia|]. cbn [inners_data_len]. rewrite Hsd. lia.
    + (* more MAIN bytes: next round *)
      set (r3 := br_set_dec r2 (bd_set_stream d1 0 (mkSb data (zlen data)))).
      assert (Hrinv3 : rinv rc_out r3 (im', ic, ij, ir) c1).
      { unfold rinv, r3, r2. rewrite bd_set_stream_0.
        cbn [br_dec br_set_dec br_set_size br_extra_call br_extra_jump br_size br_err bd_call bd_jump ins_ok].
        msplit; try assumption; try reflexivity; try congruence.
        pose proof (b2inv_refill_main rc_out d1 (fut_of (im, ic, ij, ir)) _ data (script_data im') Hinv1 Hlm) as Hx.
        rewrite bd_set_stream_0 in Hx. cbn [fut_of f_main f_call f_jump f_rc] in Hx.
        cbn [fut_of]. apply Hx. exact Hsd. }
      assert (Hlenlt : (inners_data_len (im', ic, ij, ir) < inners_data_len (im, ic, ij, ir))%nat).
      { cbn [inners_data_len]. rewrite Hsd, app_length. unfold zlen in Hz. lia. }
      destruct (IH lim r3 (im', ic, ij, ir) c1 (rev delta1 ++ out) (rs + zlen delta1) Hrinv3)
        as (r' & ins' & c' & delta2 & Hres & Hrinv' & Hrem' & Hd' & Hlen').
      { unfold r3, r2. rewrite bd_set_stream_0. cbn [br_dec br_set_dec br_set_size bd_dest]. lia. }
      { unfold r3, r2. rewrite bd_set_stream_0. cbn [br_dec br_set_dec br_set_size bd_dest br_size]. lia. }
      { cbn [inners_data_len] in *. lia. }
      assert (Hd3 : bd_dest (br_dec r3) = bd_dest d1) by (unfold r3, r2; rewrite bd_set_stream_0; reflexivity).
      rewrite Hd3 in Hres, Hd'.
      exists r', ins', c', (delta1 ++ delta2). split.
      { rewrite Hres. rewrite rev_app_distr, rev_involutive, <- app_assoc. reflexivity. }
      split; [exact Hrinv'|]. split; [rewrite Hrem1, Hrem', app_assoc; reflexivity|].
      rewrite zlen_app. split; [lia|]. lia.
  - (* RC *)
    rewrite Hs. unfold BCJ2_NUM_STREAMS. cbn [Z.leb Z.compare Pos.compare Pos.compare_cont].
    cbn [r2 br_extra br_set_size br_set_dec br_extra_call br_extra_jump bd_stream inner_get inner_set bcj2_is_32bit_stream
         BCJ2_STREAM_MAIN BCJ2_STREAM_CALL BCJ2_STREAM_JUMP BCJ2_STREAM_RC Z.eqb Pos.eqb orb].
    rewrite Hlr. cbn [Z.to_nat firstn zlen length Z.of_nat Z.ltb Z.compare].
    destruct (fill_once 3 ir eq_refl Hir) as (data & ir' & Hfill & Hir' & Hsd & Hnil).
    rewrite Hfill. cbn [obind].
    assert (Hb1 : bd_dest (br_dec r) + zlen delta1 <= lim) by lia.
    cbn [fut_of f_rc] in Hne.
    destruct (Z.eqb_spec (zlen data) 0) as [Hz|Hz].
    { exfalso. apply Hne. apply Hnil. unfold zlen in Hz; destruct data; [reflexivity | cbn [length] in Hz; lia]. }
    set (r3 := br_set_dec r2 (bd_set_stream d1 3 (mkSb data (zlen data)))).
    assert (Hrinv3 : rinv rc_out r3 (im, ic, ij, ir') c1).
    { unfold rinv, r3, r2. rewrite bd_set_stream_3.
      cbn [br_dec br_set_dec br_set_size br_extra_call br_extra_jump br_size br_err bd_call bd_jump ins_ok].
      msplit; try assumption; try reflexivity; try congruence.
      pose proof (b2inv_refill_rc rc_out d1 (fut_of (im, ic, ij, ir)) _ data (script_data ir') Hinv1 Hlr) as Hx.
      rewrite bd_set_stream_3 in Hx. cbn [fut_of f_main f_call f_jump f_rc] in Hx.
      cbn [fut_of]. apply Hx. exact Hsd. }
    assert (Hlenlt : (inners_data_len (im, ic, ij, ir') < inners_data_len (im, ic, ij, ir))%nat).
    { cbn [inners_data_len]. rewrite Hsd, app_length. unfold zlen in Hz. lia. }
    destruct (IH lim r3 (im, ic, ij, ir') c1 (rev delta1 ++ out) (rs + zlen delta1) Hrinv3)
      as (r' & ins' & c' & delta2 & Hres & Hrinv' & Hrem' & Hd' & Hlen').
    { unfold r3, r2. rewrite bd_set_stream_3. cbn [br_dec br_set_dec br_set_size bd_dest]. lia. }
    { unfold r3, r2. rewrite bd_set_stream_3. cbn [br_dec br_set_dec br_set_size bd_dest br_size]. lia. }
    { cbn [inners_data_len] in *. lia. }
    assert (Hd3 : bd_dest (br_dec r3) = bd_dest d1) by (unfold r3, r2; rewrite bd_set_stream_3; reflexivity).
    rewrite Hd3 in Hres, Hd'.
    exists r', ins', c', (delta1 ++ delta2). split.
    { rewrite Hres. rewrite rev_app_distr, rev_involutive, <- app_assoc. reflexivity. }
    split; [exact Hrinv'|]. split; [rewrite Hrem1, Hrem', app_assoc; reflexivity|].
    rewrite zlen_app. split; [lia|]. lia.
  - (* CALL *)
    rewrite Hs. unfold BCJ2_NUM_STREAMS. cbn [Z.leb Z.compare Pos.compare Pos.compare_cont].
    cbn [r2 br_extra br_set_size br_set_dec br_extra_call br_extra_jump bd_stream inner_get inner_set bcj2_is_32bit_stream
         BCJ2_STREAM_MAIN BCJ2_STREAM_CALL BCJ2_STREAM_JUMP BCJ2_STREAM_RC Z.eqb Pos.eqb orb].
    pose proof Hinv1 as ((_ & (_ & Hcw & _) & _) & _).
    assert (Hex : br_extra_call r = zlen (sb_live (bd_call d1))) by (rewrite Hxc, <- Hsc; unfold slack; lia).
    rewrite Hex.
    assert (Hfa : firstn (Z.to_nat (zlen (sb_live (bd_call d1)))) (sb_live (bd_call d1)) = sb_live (bd_call d1))
      by (unfold zlen; rewrite Nat2Z.id; apply firstn_all).
    rewrite Hfa, Z.ltb_irrefl.
    destruct Hcw as (_ & _ & Hlt4). rewrite Hav in Hlt4.
    cbn [fut_of f_call] in H4.
    destruct (fill_word 1 eq_refl 4%nat ic (sb_live (bd_call d1)) Hic ltac:(lia) H4 ltac:(pose proof (zlen_nonneg (sb_live (bd_call d1))); lia))
      as (got & ic' & Hfill & Hic' & Hsd & H4' & Hgne).
    rewrite Hfill. cbn [obind].
    set (live2 := sb_live (bd_call d1) ++ got) in *.
    replace (zlen live2 =? 0) with false by (symmetry; apply Z.eqb_neq; lia).
    replace (zlen live2 <? 4) with false by (symmetry; apply Z.ltb_ge; lia).
    set (r3 := br_set_dec (br_set_extra r2 1 (Z.land (zlen live2) 3)) (bd_set_stream d1 1 (mkSb live2 (zlen live2 - Z.land (zlen live2) 3)))).
    assert (Hrinv3 : rinv rc_out r3 (im, ic', ij, ir) c1).
    { unfold rinv, r3, r2. rewrite bd_set_stream_1.
      cbn [br_dec br_set_dec br_set_size br_set_extra br_extra_call br_extra_jump br_size br_err bd_call bd_jump ins_ok
           BCJ2_STREAM_CALL BCJ2_STREAM_JUMP Z.eqb Pos.eqb].
      msplit; try assumption; try reflexivity; try congruence.
      - pose proof (b2inv_refill_call rc_out d1 (fut_of (im, ic, ij, ir)) _ got (script_data ic') Hinv1) as Hx.
        rewrite bd_set_stream_1 in Hx. cbn [fut_of f_main f_call f_jump f_rc] in Hx.
        cbn [fut_of]. apply Hx; [exact Hsd | exact H4'].
      - unfold slack. cbn [sb_live sb_avail]. lia. }
    assert (Hlenlt : (inners_data_len (im, ic', ij, ir) < inners_data_len (im, ic, ij, ir))%nat).
    { cbn [inners_data_len]. rewrite Hsd, app_length. destruct got; [contradiction | cbn [length]; lia]. }
    destruct (IH lim r3 (im, ic', ij, ir) c1 (rev delta1 ++ out) (rs + zlen delta1) Hrinv3)
      as (r' & ins' & c' & delta2 & Hres & Hrinv' & Hrem' & Hd' & Hlen').
    { unfold r3, r2. rewrite bd_set_stream_1. cbn [br_dec br_set_dec br_set_size br_set_extra bd_dest]. lia. }
    { unfold r3, r2. rewrite bd_set_stream_1. cbn [br_dec br_set_dec br_set_size br_set_extra bd_dest br_size]. lia. }
    { cbn [inners_data_len] in *. lia. }
    assert (Hd3 : bd_dest (br_dec r3) = bd_dest d1) by (unfold r3, r2; rewrite bd_set_stream_1; reflexivity).
    rewrite Hd3 in Hres, Hd'.
    exists r', ins', c', (delta1 ++ delta2). split.
    { rewrite Hres. rewrite rev_app_distr, rev_involutive, <- app_assoc. reflexivity. }
    split; [exact Hrinv'|]. split; [rewrite Hrem1, Hrem', app_assoc; reflexivity|].
    rewrite zlen_app. split; [lia|]. lia.
  - (* JUMP *)
    rewrite Hs. unfold BCJ2_NUM_STREAMS. cbn [Z.leb Z.compare Pos.compare Pos.compare_cont].
    cbn [r2 br_extra br_set_size br_set_dec br_extra_call br_extra_jump bd_stream inner_get inner_set bcj2_is_32bit_stream
         BCJ2_STREAM_MAIN BCJ2_STREAM_CALL BCJ2_STREAM_JUMP BCJ2_STREAM_RC Z.eqb Pos.eqb orb].
    pose proof Hinv1 as ((_ & (_ & _ & _ & Hjw) & _) & _).
    assert (Hex : br_extra_jump r = zlen (sb_live (bd_jump d1))) by (rewrite Hxj, <- Hsj; unfold slack; lia).
    rewrite Hex.
    assert (Hfa : firstn (Z.to_nat (zlen (sb_live (bd_jump d1)))) (sb_live (bd_jump d1)) = sb_live (bd_jump d1))
      by (unfold zlen; rewrite Nat2Z.id; apply firstn_all).
    rewrite Hfa, Z.ltb_irrefl.
    destruct Hjw as (_ & _ & Hlt4). rewrite Hav in Hlt4.
    cbn [fut_of f_jump] in H4.
    destruct (fill_word 2 eq_refl 4%nat ij (sb_live (bd_jump d1)) Hij ltac:(lia) H4 ltac:(pose proof (zlen_nonneg (sb_live (bd_jump d1))); lia))
      as (got & ij' & Hfill & Hij' & Hsd & H4' & Hgne).
    rewrite Hfill. cbn [obind].
    set (live2 := sb_live (bd_jump d1) ++ got) in *.
    replace (zlen live2 =? 0) with false by (symmetry; apply Z.eqb_neq; lia).
    replace (zlen live2 <? 4) with false by (symmetry; apply Z.ltb_ge; lia).
    set (r3 := br_set_dec (br_set_extra r2 2 (Z.land (zlen live2) 3)) (bd_set_stream d1 2 (mkSb live2 (zlen live2 - Z.land (zlen live2) 3)))).
    assert (Hrinv3 : rinv rc_out r3 (im, ic, ij', ir) c1).
    { unfold rinv, r3, r2. rewrite bd_set_stream_2.
      cbn [br_dec br_set_dec br_set_size br_set_extra br_extra_call br_extra_jump br_size br_err bd_call bd_jump ins_ok
           BCJ2_STREAM_CALL BCJ2_STREAM_JUMP Z.eqb Pos.eqb].
      msplit; try assumption; try reflexivity; try congruence.
      - pose proof (b2inv_refill_jump rc_out d1 (fut_of (im, ic, ij, ir)) _ got (script_data ij') Hinv1) as Hx.
        rewrite bd_set_stream_2 in Hx. cbn [fut_of f_main f_call f_jump f_rc] in Hx.
        cbn [fut_of]. apply Hx; [exact Hsd | exact H4'].
      - unfold slack. cbn [sb_live sb_avail]. lia. }
    assert (Hlenlt : (inners_data_len (im, ic, ij', ir) < inners_data_len (im, ic, ij, ir))%nat).
    { cbn [inners_data_len]. rewrite Hsd, app_length. destruct got; [contradiction | cbn [length]; lia]. }
    destruct (IH lim r3 (im, ic, ij', ir) c1 (rev delta1 ++ out) (rs + zlen delta1) Hrinv3)
      as (r' & ins' & c' & delta2 & Hres & Hrinv' & Hrem' & Hd' & Hlen').
    { unfold r3, r2. rewrite bd_set_stream_2. cbn [br_dec br_set_dec br_set_size br_set_extra bd_dest]. lia. }
    { unfold r3, r2. rewrite bd_set_stream_2. cbn [br_dec br_set_dec br_set_size br_set_extra bd_dest br_size]. lia. }
    { cbn [inners_data_len] in *. lia. }
    assert (Hd3 : bd_dest (br_dec r3) = bd_dest d1) by (unfold r3, r2; rewrite bd_set_stream_2; reflexivity).
    rewrite Hd3 in Hres, Hd'.
    exists r', ins', c', (delta1 ++ delta2). split.
    { rewrite Hres. rewrite rev_app_distr, rev_involutive, <- app_assoc. reflexivity. }
    split; [exact Hrinv'|]. split; [rewrite Hrem1, Hrem', app_assoc; reflexivity|].
    rewrite zlen_app. split; [lia|]. lia.
Qed.

Theorem rloop_spec rc_out : forall fuel, rloop_prop rc_out fuel.
Proof.
  induction fuel as [|f IH]; [|apply rloop_step; exact IH].
  intros lim r ins c out rs _ _ _ Hf. lia.
Qed.

(* ---------------------------------------------------------------------------------------------
   one read() call, a history of read() calls *)
Lemma b2inv_set_dest rc_out d F c x : b2inv rc_out d F c -> b2inv rc_out (bd_set_dest d x) F c.
Proof.
  intros (H1 & H2 & H3). split; [apply b2core_set_dest; exact H1|]. split; [exact H2|].
  unfold g_rcph in *. destruct (c_ph c); exact H3.
Qed.

Lemma firstn_app_exact {A} (a b : list A) : firstn (length a) (a ++ b) = a.
Proof. rewrite firstn_app, Nat.sub_diag, firstn_all. cbn [firstn]. apply app_nil_r. Qed.
Lemma skipn_app_exact {A} (a b : list A) : skipn (length a) (a ++ b) = b.
Proof. rewrite skipn_app, Nat.sub_diag, skipn_all. reflexivity. Qed.

Lemma read_spec rc_out fuel r ins c n :
  rinv rc_out r ins c -> 0 <= n -> (inners_data_len ins + 2 <= fuel)%nat ->
  exists r' ins' c',
    bcj2_read fuel r ins n = Ok (firstn (Z.to_nat n) (rem_out c), None, r', ins') /\
    rinv rc_out r' ins' c' /\ rem_out c' = skipn (Z.to_nat n) (rem_out c) /\
    (inners_data_len ins' <= inners_data_len ins)%nat.
Proof.
  intros Hrinv Hn Hf. pose proof Hrinv as (Hinv & Hxc & Hxj & Hsize & Herr & Hins).
  unfold bcj2_read, bcj2_read_gen. rewrite Herr.
  replace (if 0 <? n then @None Z else None) with (@None Z) by (destruct (0 <? n); reflexivity).
  pose proof (zlen_nonneg (rem_out c)) as Hrn.
  set (lim := if br_size r <? n then br_size r else n).
  assert (Hlim : 0 <= lim /\ lim <= n /\ lim <= br_size r /\ (lim = n \/ lim = br_size r /\ br_size r < n)).
  { unfold lim. destruct (Z.ltb_spec (br_size r) n); lia. }
  assert (Hfirst : firstn (Z.to_nat n) (rem_out c) = firstn (Z.to_nat lim) (rem_out c) /\
                   skipn (Z.to_nat n) (rem_out c) = skipn (Z.to_nat lim) (rem_out c)).
  { destruct Hlim as (_ & _ & _ & [-> | [Hl Hlt]]); [split; reflexivity|].
    rewrite Hl, Hsize. unfold zlen in *. rewrite Nat2Z.id, firstn_all, skipn_all.
    rewrite firstn_all2 by lia. rewrite skipn_all2 by lia. split; reflexivity. }
  destruct Hfirst as [Hfn Hsn]. rewrite Hfn, Hsn.
  destruct (Z.leb_spec lim 0) as [Hl0|Hl0].
  - assert (lim = 0) by lia. replace (Z.to_nat lim) with 0%nat by lia. cbn [firstn skipn].
    exists r, ins, c. msplit; try assumption; try reflexivity; try lia.
  - set (r0 := br_set_dec r (bd_set_dest (br_dec r) 0)).
    assert (Hrinv0 : rinv rc_out r0 ins c).
    { unfold rinv, r0. cbn [br_dec br_set_dec br_extra_call br_extra_jump br_size br_err bd_set_dest bd_call bd_jump].
      msplit; assumption. }
    destruct (rloop_spec rc_out fuel lim r0 ins c [] 0 Hrinv0) as (r' & ins' & c' & delta & Hres & Hrinv' & Hrem & Hd & Hlen).
    { unfold r0. cbn [br_dec br_set_dec bd_set_dest bd_dest]. lia. }
    { unfold r0. cbn [br_dec br_set_dec bd_set_dest bd_dest br_size]. lia. }
    { exact Hf. }
    assert (Hd0 : bd_dest (br_dec r0) = 0) by reflexivity. rewrite Hd0 in Hres, Hd. cbn [rev app] in Hres.
    rewrite Hres. exists r', ins', c'.
    assert (Hdl : Z.to_nat lim = length delta) by (unfold zlen in Hd; lia).
    rewrite Hrem, Hdl, firstn_app_exact, skipn_app_exact. msplit; try assumption; reflexivity.
Qed.

Lemma read_calls_spec rc_out fuel : forall sizes r ins c,
  rinv rc_out r ins c -> Forall (fun n => 0 <= n) sizes -> (inners_data_len ins + 2 <= fuel)%nat ->
  exists r' ins',
    bcj2_read_calls fuel r ins sizes = Ok (firstn (Z.to_nat (fold_right Z.add 0 sizes)) (rem_out c), [], r', ins').
Proof.
  induction sizes as [|n ns IH]; intros r ins c Hrinv Hs Hf.
  - cbn [bcj2_read_calls fold_right Z.to_nat firstn]. exists r, ins. reflexivity.
  - inversion Hs as [|? ? Hn Hns]; subst.
    destruct (read_spec rc_out fuel r ins c n Hrinv Hn Hf) as (r1 & ins1 & c1 & Hread & Hrinv1 & Hrem1 & Hlen1).
    destruct (IH r1 ins1 c1 Hrinv1 Hns ltac:(lia)) as (r2 & ins2 & Hcalls).
    cbn [bcj2_read_calls fold_right]. rewrite Hread. cbn [obind]. rewrite Hcalls. cbn [obind app].
    exists r2, ins2. do 2 f_equal.
    assert (Hsum : 0 <= fold_right Z.add 0 ns).
    { clear -Hns. induction Hns as [|x l Hx Hl IHl]; cbn [fold_right]; lia. }
    rewrite Hrem1. replace (Z.to_nat (n + fold_right Z.add 0 ns)) with (Z.to_nat n + Z.to_nat (fold_right Z.add 0%Z ns))%nat by lia.
    rewrite firstn_add. reflexivity.
Qed.

(* ---------------------------------------------------------------------------------------------
   the reader over the specification encoder's streams *)
Lemma rinv_new data ds pm pc pj pr :
  bytes_ok data = true -> Z.of_nat (length data) <= 4294967289 ->
  let its := bcj2_parse data 0 0 ds in
  let rc_out := bcj2_rc_bytes (b2_events its) in
  concat pm = b2_main its -> concat pc = b2_call its -> concat pj = b2_jump its -> concat pr = rc_out ->
  rinv rc_out (bcj2_reader_new (zlen data)) (data_script pm, data_script pc, data_script pj, data_script pr) (cfg0 its).
Proof.
  intros Hb Hl its rc_out Hm Hc Hj Hr.
  destruct (parse_facts data ds Hb Hl) as (Hwf & Horig & Hbits). fold its in Hwf, Horig, Hbits.
  unfold rinv, bcj2_reader_new. cbn [br_dec br_extra_call br_extra_jump br_size br_err].
  msplit; try reflexivity.
  - unfold b2inv, b2core, cfg0, bdec_new, fut_of. rewrite !data_script_data.
    cbn [c_ph c_its c_prev c_pos c_e c_t bd_main bd_call bd_jump bd_rc bd_probs bd_state bd_range bd_code f_main f_call f_jump f_rc].
    msplit.
    + unfold g_main, sb_empty. cbn [sb_live sb_avail app]. split; [exact Hm | reflexivity].
    + unfold g_cj, sb_word, sb_empty. cbn [sb_live sb_avail pend_word app]. change (zlen []) with 0.
      msplit; try assumption; try reflexivity; lia.
    + apply inv_enc0; [exact Hbits | apply ptab_rel_init].
    + exact Hwf.
    + unfold isb. lia.
    + unfold g_regs. cbn [c_ph c_prev c_pos bd_t3 bd_ip]. split; reflexivity.
    + cbn [g_state]. unfold BCJ2_DEC_STATE_OK. auto.
    + unfold g_rcph, sb_empty, sb_full. cbn [c_ph c_e bd_range bd_rc bd_code sb_live sb_avail f_rc app].
      msplit; try reflexivity; try lia. cbn [Z.to_nat skipn]. exact Hr.
  - unfold rem_out, cfg0. cbn [c_ph c_its]. rewrite Horig. reflexivity.
  - unfold ins_ok, dscript. msplit; first [apply data_script_ok | apply data_script_errs].
Qed.

Theorem bcj2_reader_any_chunking data ds pm pc pj pr sizes :
  bytes_ok data = true -> Z.of_nat (length data) <= 4294967289 ->
  (let '(m, c, j, r) := bcj2_encode data ds in concat pm = m /\ concat pc = c /\ concat pj = j /\ concat pr = r) ->
  Forall (fun n => 0 <= n) sizes ->
  let ins := (data_script pm, data_script pc, data_script pj, data_script pr) in
  exists r' ins',
    bcj2_read_calls (bcj2_read_fuel ins) (bcj2_reader_new (zlen data)) ins sizes =
      Ok (firstn (Z.to_nat (fold_right Z.add 0 sizes)) data, [], r', ins').
Proof.
  intros Hb Hl Hparts Hs ins. unfold bcj2_encode in Hparts. cbv beta iota zeta in Hparts.
  destruct Hparts as (Hm & Hc & Hj & Hr).
  pose proof (rinv_new data ds pm pc pj pr Hb Hl Hm Hc Hj Hr) as Hrinv. cbv zeta in Hrinv.
  destruct (parse_facts data ds Hb Hl) as (_ & Horig & _).
  destruct (read_calls_spec _ (bcj2_read_fuel ins) sizes _ _ _ Hrinv Hs) as (r' & ins' & Hcalls).
  { unfold bcj2_read_fuel, ins. lia. }
  exists r', ins'. unfold ins in *. rewrite Hcalls. unfold rem_out, cfg0. cbn [c_ph c_its]. rewrite Horig. reflexivity.
Qed.

(* a zero-length read returns at once and changes nothing, in every state *)
Theorem bcj2_reader_zero_read fuel r ins : bcj2_read fuel r ins 0 = Ok ([], None, r, ins).
Proof.
  unfold bcj2_read, bcj2_read_gen. cbn [Z.ltb Z.compare].
  destruct (Z.ltb_spec (br_size r) 0) as [H|H].
  - replace (br_size r <=? 0) with true by (symmetry; apply Z.leb_le; lia). reflexivity.
  - reflexivity.
Qed.
