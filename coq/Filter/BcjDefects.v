(* Filter/BcjDefects.v — models of the pieces of src/filter/bcj*.rs as they were BEFORE
   repo-patches/11 (wrapping arithmetic), 12 (write_all) and 13 (reader error handling).  They
   are kept only to state, with computed witnesses, what was wrong (Filter/BcjDefectsProofs.v);
   the current code is modelled in Filter/Bcj.v and Filter/BcjStream.v.  Definitions only. *)
From LzVerif Require Export Filter.Bcj Filter.BcjStream.

(* ---- 11: `+` / `-` on i32 and usize as compiled with overflow checks (every debug build; the
   harness profile "checked") ---- *)
Definition add_i32_checked (a b : Z) : outcome Z :=
  let r := a + b in if (r <? -2147483648) || (2147483647 <? r) then Panic 1 else Ok r.
Definition sub_i32_checked (a b : Z) : outcome Z :=
  let r := a - b in if (r <? -2147483648) || (2147483647 <? r) then Panic 1 else Ok r.
Definition add_usize_checked (a b : Z) : outcome Z :=
  let r := a + b in if 18446744073709551615 <? r then Panic 1 else Ok r.

(* arm.rs, arm_code:  let p = (self.pos + i) as i32;
                      let dest = if self.is_encoder { src + p } else { src - p };          *)
Definition arm_word_old (enc : bool) (pos i b0 b1 b2 b3 : Z) : outcome (Z * Z * Z * Z) :=
  if b3 =? 0xEB then
    let src := s32 (Z.shiftl (Z.lor (Z.lor (Z.shiftl b2 16) (Z.shiftl b1 8)) b0) 2) in
    do pi <- add_usize_checked pos i;
    let p := s32 pi in
    do dest <- (if enc then add_i32_checked src p else sub_i32_checked src p);
    let dest := Z.shiftr dest 2 in
    Ok (u8 (Z.land dest 0xFF), u8 (Z.land (Z.shiftr dest 8) 0xFF), u8 (Z.land (Z.shiftr dest 16) 0xFF), b3)
  else Ok (b0, b1, b2, b3).

(* BCJFilter::new_arm:  pos: start_pos + 8 *)
Definition new_arm_old (start_pos : Z) : outcome fstate :=
  do p <- add_usize_checked start_pos 8; Ok (mkF p 0).

(* ---- 12: BCJWriter::write handed both pieces to `inner.write` and ignored the counts; over a
   sink that accepts at most [k] bytes per call ---- *)
Definition bcj_write_old_short (a : arch) (k : Z) (f : fstate) (buf : list Z) : outcome (fstate * list Z) :=
  do c <- bcj_code a true f buf;
  let '(f', o, rest) := c in
  Ok (f', firstn (Z.to_nat k) o ++ firstn (Z.to_nat k) rest).

(* ---- 13: the error branch of BCJReader::read was
        Err(e) => { self.err = Some(copy_error(&e)); self.state = state; return Err(e); }
   i.e. every error was remembered and returned, whatever had been copied already ---- *)
Fixpoint bcj_read_loop_old (fuel : nat) (a : arch) (st : rstate) (inner : list inner_event) (len size : Z)
  : outcome read_result :=
  match fuel with
  | O => Fuel
  | S fuel' =>
      let copy_size := if 0 <? r_filtered st then Z.min (r_filtered st) len else 0 in
      let out := firstn (Z.to_nat copy_size) (r_live st) in
      let live := skipn (Z.to_nat copy_size) (r_live st) in
      let pos := r_pos st + copy_size in
      let filtered := r_filtered st - copy_size in
      let len := len - copy_size in
      let size := size + copy_size in
      let unfiltered := r_unfiltered st in
      let pos := if pos + filtered + unfiltered =? FILTER_BUF_SIZE then 0 else pos in
      if (len =? 0) || r_end st then
        Ok (out, None, mkR (r_filter st) pos filtered unfiltered live (r_end st) (r_err st), inner)
      else if negb (filtered =? 0) then Panic 5
      else
        let start := pos + filtered + unfiltered in
        if FILTER_BUF_SIZE <? start then Panic 6
        else
          let in_size := FILTER_BUF_SIZE - start in
          match inner_read inner in_size with
          | (BjErr c, inner') =>
              (* the bytes in [out] have been copied to the caller but the call returns Err *)
              Ok ([], Some c, mkR (r_filter st) pos filtered unfiltered live (r_end st) (Some c), inner')
          | (BjData data, inner') =>
              let in_size := zlen data in
              if in_size =? 0 then
                do r <- bcj_read_loop_old fuel' a (mkR (r_filter st) pos unfiltered 0 live true (r_err st)) inner' len size;
                Ok (push_out out r)
              else
                let unfiltered := unfiltered + in_size in
                do c <- bcj_code a false (r_filter st) (live ++ data);
                let '(f', o, rest) := c in
                let filtered := zlen o in
                if unfiltered <? filtered then Panic 7
                else
                  do r <- bcj_read_loop_old fuel' a (mkR f' pos filtered (unfiltered - filtered) (o ++ rest) false (r_err st)) inner' len size;
                  Ok (push_out out r)
          end
  end.

Definition bcj_read_old (fuel : nat) (a : arch) (st : rstate) (inner : list inner_event) (len : Z)
  : outcome read_result :=
  if len <=? 0 then Ok ([], None, st, inner)
  else
    match r_err st with
    | Some e => Ok ([], Some e, st, inner)
    | None => bcj_read_loop_old fuel a st inner len 0
    end.
