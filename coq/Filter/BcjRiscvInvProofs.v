(* Filter/BcjRiscvInvProofs.v — the RISC-V filter is its own inverse (start offset even).
   * The loop: a step that only moves on (by 2, 4 or 6 bytes) looks at the bytes it steps over and,
     when moving by 6, at the low bits of the byte after them - the only thing later conversions
     can change there is bit 7 of an AUIPC opcode byte - so the decoder repeats it
     ([riscv_go_inverse] from [riscv_step_invertible]).
   * The steps: JAL (the scrambled 21-bit immediate, unpacked, is added to / subtracted from the
     position); AUIPC + an instruction using its rd (packed as "AUIPC x2" + big-endian address) and
     the escape of an AUIPC x0/x2 that looks like a packed pair - each form of the encoder is
     recognised as its counterpart by the decoder and converted back ([riscv_steps_invertible]). *)
From LzVerif Require Import Base.Bytes Filter.Bcj Filter.BcjStream Filter.BcjArithProofs
  Filter.BcjWordProofs Filter.BcjCodeProofs Filter.BcjStreamProofs Filter.BcjWinProofs Filter.BcjRiscvProofs.
Ltac Zify.zify_post_hook ::= Z.div_mod_to_equations.

(* What the loop-level inverse needs from one step, for an even position pc and a window of bytes:
   - a step that only moves on (by n = 2, 4, 6) is repeated by the decoder whatever the later
     conversions did to the bytes it stepped over NOT (only byte 6 matters, and only its low 7 bits);
   - a converted JAL / AUIPC pair is converted back. *)
Definition riscv_step_invertible : Prop :=
  forall pc b0 b1 b2 b3 b4 b5 b6 b7, pc mod 2 = 0 ->
    byte b0 -> byte b1 -> byte b2 -> byte b3 -> byte b4 -> byte b5 -> byte b6 -> byte b7 ->
    match riscv_step true pc b0 b1 b2 b3 b4 b5 b6 b7 with
    | RSkip n =>
        forall y2 y3 y4 y5 y6 y7, byte y2 -> byte y3 -> byte y4 -> byte y5 -> byte y6 -> byte y7 ->
          (2 < n -> y2 = b2 /\ y3 = b3) -> (4 < n -> y4 = b4 /\ y5 = b5 /\ y6 mod 128 = b6 mod 128) ->
          riscv_step false pc b0 b1 y2 y3 y4 y5 y6 y7 = RSkip n
    | RJal c1 c2 c3 =>
        forall y4 y5 y6 y7, riscv_step false pc b0 c1 c2 c3 y4 y5 y6 y7 = RJal b1 b2 b3
    | RAuipc c0 c1 c2 c3 c4 c5 c6 c7 =>
        riscv_step false pc c0 c1 c2 c3 c4 c5 c6 c7 = RAuipc b0 b1 b2 b3 b4 b5 b6 b7
    end.

Lemma lor_mod_pow2 a b k : 0 <= k -> Z.lor a b mod 2 ^ k = Z.lor (a mod 2 ^ k) (b mod 2 ^ k).
Proof. intros Hk. rewrite <- !Z.land_ones by assumption. apply Z.land_lor_distr_l. Qed.

Lemma new_full_low7 A B : A mod 128 = 0 -> B mod 128 = 0 -> u8 (Z.lor (Z.lor 23 A) B) mod 128 = 23.
Proof.
  intros HA HB. unfold u8.
  replace (Z.lor (Z.lor 23 A) B mod 256 mod 128) with (Z.lor (Z.lor 23 A) B mod 2 ^ 7) by (change (2 ^ 7) with 128; lia).
  rewrite !lor_mod_pow2 by lia. change (2 ^ 7) with 128. rewrite HA, HB. reflexivity.
Qed.

(* the first byte a step emits keeps the low seven bits of the byte it looked at *)
Lemma riscv_step_first enc pc b0 b1 b2 b3 b4 b5 b6 b7 : byte b0 ->
  match riscv_step enc pc b0 b1 b2 b3 b4 b5 b6 b7 with
  | RAuipc c0 _ _ _ _ _ _ _ => c0 mod 128 = b0 mod 128
  | _ => True
  end.
Proof.
  intros H0. unfold riscv_step. cbv zeta.
  destruct (b0 =? 239); [destruct (negb _); [exact I|destruct enc; exact I]|].
  destruct (Z.land b0 127 =? 23) eqn:E17; [|exact I].
  apply Z.eqb_eq in E17. revert E17. land_lits. intros E17. rewrite E17.
  repeat match goal with |- context [if ?c then _ else _] => destruct c end; try exact I;
    apply new_full_low7; shift_lits; unfold u32; try lia.
  all: land_lits; lia.
Qed.

(* the first byte of what the loop returns keeps its low seven bits *)
Lemma riscv_go_hd enc pos l i o r x0 t : riscv_go enc pos i (x0 :: t) = Ok (o, r) -> l = x0 :: t -> byte x0 ->
  exists y0 t', o ++ r = y0 :: t' /\ y0 mod 128 = x0 mod 128.
Proof.
  intros Hgo _ Hx0.
  destruct (Nat.lt_ge_cases (length (x0 :: t)) 8) as [Hs|Hs].
  - rewrite riscv_go_short in Hgo by assumption. injection Hgo as <- <-. exists x0, t. auto.
  - destruct t as [|b1 [|b2 [|b3 [|b4 [|b5 [|b6 [|b7 t]]]]]]]; try (cbn [length] in Hs; lia).
    rewrite riscv_go_unfold in Hgo.
    pose proof (riscv_step_first enc (pc32 pos i) x0 b1 b2 b3 b4 b5 b6 b7 Hx0) as Hf.
    destruct (riscv_step enc (pc32 pos i) x0 b1 b2 b3 b4 b5 b6 b7) as [n|c1 c2 c3|c0 c1 c2 c3 c4 c5 c6 c7].
    + destruct (n =? 2).
      { destruct (riscv_go enc pos (i + 2) _) as [[o' r']| | |]; cbn [obind] in Hgo; try discriminate.
        injection Hgo as <- <-. eexists _, _. split; [reflexivity|reflexivity]. }
      destruct (n =? 4).
      { destruct (riscv_go enc pos (i + 4) _) as [[o' r']| | |]; cbn [obind] in Hgo; try discriminate.
        injection Hgo as <- <-. eexists _, _. split; [reflexivity|reflexivity]. }
      destruct (n =? 6); [|discriminate].
      destruct (riscv_go enc pos (i + 6) _) as [[o' r']| | |]; cbn [obind] in Hgo; try discriminate.
      injection Hgo as <- <-. eexists _, _. split; [reflexivity|reflexivity].
    + destruct (riscv_go enc pos (i + 4) _) as [[o' r']| | |]; cbn [obind] in Hgo; try discriminate.
      injection Hgo as <- <-. eexists _, _. split; [reflexivity|reflexivity].
    + destruct (riscv_go enc pos (i + 8) _) as [[o' r']| | |]; cbn [obind] in Hgo; try discriminate.
      injection Hgo as <- <-. eexists _, _. split; [reflexivity|exact Hf].
Qed.

Lemma riscv_go_total enc pos l i : bytes_ok l = true ->
  exists o r, riscv_go enc pos i l = Ok (o, r) /\ (length o + length r = length l)%nat /\ bytes_ok o = true /\
              skipn (length o) l = r.
Proof.
  intros Hb.
  destruct (win_total 8 ltac:(lia) (riscv_win enc) (riscv_go enc) (riscv_go_short enc) (riscv_go_step enc) (riscv_win_ok enc)
              (length l) l pos i (le_n _) Hb) as (o & r & E & Hr & Hl & _ & Hbo).
  exists o, r. auto.
Qed.

Lemma riscv_go_inverse : riscv_step_invertible ->
  forall n l pos i o r, (length l <= n)%nat -> bytes_ok l = true -> (pos + i) mod 2 = 0 ->
  riscv_go true pos i l = Ok (o, r) ->
  riscv_go false pos i (o ++ r) = Ok (firstn (length o) l, r) /\ firstn (length o) l ++ r = l /\ bytes_ok o = true.
Proof.
  intros Hstep. induction n as [|n IH]; intros l pos i o r Hn Hb Hal Hgo.
  - destruct l; [|cbn [length] in Hn; lia]. rewrite riscv_go_short in Hgo by (cbn; lia).
    injection Hgo as <- <-. rewrite riscv_go_short by (cbn; lia). auto.
  - destruct (Nat.lt_ge_cases (length l) 8) as [Hs|Hs].
    { rewrite riscv_go_short in Hgo by assumption. injection Hgo as <- <-.
      cbn [app length firstn]. rewrite riscv_go_short by assumption. auto. }
    destruct l as [|b0 [|b1 [|b2 [|b3 [|b4 [|b5 [|b6 [|b7 t]]]]]]]]; try (cbn [length] in Hs; lia).
    rewrite riscv_go_unfold in Hgo.
    pose proof Hb as Hb'.
    apply bytes_ok_cons in Hb; destruct Hb as [B0 Hb1].
    apply bytes_ok_cons in Hb1; destruct Hb1 as [B1 Hb2]. pose proof Hb2 as Hb2'.
    apply bytes_ok_cons in Hb2; destruct Hb2 as [B2 Hb3].
    apply bytes_ok_cons in Hb3; destruct Hb3 as [B3 Hb4]. pose proof Hb4 as Hb4'.
    apply bytes_ok_cons in Hb4; destruct Hb4 as [B4 Hb5].
    apply bytes_ok_cons in Hb5; destruct Hb5 as [B5 Hb6]. pose proof Hb6 as Hb6'.
    apply bytes_ok_cons in Hb6; destruct Hb6 as [B6 Hb7].
    apply bytes_ok_cons in Hb7; destruct Hb7 as [B7 Hb8].
    assert (Hpc : pc32 pos i mod 2 = 0) by (rewrite pc32_mod2; assumption).
    pose proof (Hstep (pc32 pos i) b0 b1 b2 b3 b4 b5 b6 b7 Hpc B0 B1 B2 B3 B4 B5 B6 B7) as Hst.
    pose proof (riscv_step_shape true (pc32 pos i) b0 b1 b2 b3 b4 b5 b6 b7) as Hsh.
    cbn [length] in Hn.
    destruct (riscv_step true (pc32 pos i) b0 b1 b2 b3 b4 b5 b6 b7) as [k|c1 c2 c3|c0 c1 c2 c3 c4 c5 c6 c7].
    + (* the encoder only moved on *)
      destruct Hsh as [-> | [-> | ->]]; cbn [Z.eqb Pos.eqb] in Hgo.
      * (* by 2 *)
        destruct (riscv_go true pos (i + 2) (b2 :: b3 :: b4 :: b5 :: b6 :: b7 :: t)) as [[o' r']| | |] eqn:Eg; cbn [obind] in Hgo; try discriminate.
        injection Hgo as <- <-. cbn [app length firstn].
        destruct (IH (b2 :: b3 :: b4 :: b5 :: b6 :: b7 :: t) pos (i + 2) o' r' ltac:(cbn [length]; lia) Hb2' ltac:(lia) Eg) as (E1 & E2 & E3).
        destruct (riscv_go_total true pos (b2 :: b3 :: b4 :: b5 :: b6 :: b7 :: t) (i + 2) Hb2') as (o2 & r2 & Eg2 & Hl2 & Hbo2 & Hr2).
        rewrite Eg in Eg2. injection Eg2 as <- <-.
        assert (HbY : bytes_ok (o' ++ r') = true).
        { apply bytes_ok_app. split; [assumption|]. rewrite <- Hr2. apply bytes_ok_skipn. assumption. }
        assert (HlY : length (o' ++ r') = (6 + length t)%nat) by (rewrite app_length, Hl2; reflexivity).
        destruct (o' ++ r') as [|y2 [|y3 [|y4 [|y5 [|y6 [|y7 t']]]]]] eqn:EY; try (cbn [length] in HlY; lia).
        repeat (apply bytes_ok_cons in HbY; let H := fresh "Y" in destruct HbY as [H HbY]).
        rewrite riscv_go_unfold.
        rewrite (Hst y2 y3 y4 y5 y6 y7) by (assumption || lia). cbn [Z.eqb Pos.eqb].
        rewrite E1. cbn [obind]. rewrite E2. split; [reflexivity|]. split; [reflexivity|].
        repeat (apply bytes_ok_cons; split; [assumption|]). assumption.
      * (* by 4 *)
        destruct (riscv_go true pos (i + 4) (b4 :: b5 :: b6 :: b7 :: t)) as [[o' r']| | |] eqn:Eg; cbn [obind] in Hgo; try discriminate.
        injection Hgo as <- <-. cbn [app length firstn].
        destruct (IH (b4 :: b5 :: b6 :: b7 :: t) pos (i + 4) o' r' ltac:(cbn [length]; lia) Hb4' ltac:(lia) Eg) as (E1 & E2 & E3).
        destruct (riscv_go_total true pos (b4 :: b5 :: b6 :: b7 :: t) (i + 4) Hb4') as (o2 & r2 & Eg2 & Hl2 & Hbo2 & Hr2).
        rewrite Eg in Eg2. injection Eg2 as <- <-.
        assert (HbY : bytes_ok (o' ++ r') = true).
        { apply bytes_ok_app. split; [assumption|]. rewrite <- Hr2. apply bytes_ok_skipn. assumption. }
        assert (HlY : length (o' ++ r') = (4 + length t)%nat) by (rewrite app_length, Hl2; reflexivity).
        destruct (o' ++ r') as [|y4 [|y5 [|y6 [|y7 t']]]] eqn:EY; try (cbn [length] in HlY; lia).
        repeat (apply bytes_ok_cons in HbY; let H := fresh "Y" in destruct HbY as [H HbY]).
        rewrite riscv_go_unfold.
        rewrite (Hst b2 b3 y4 y5 y6 y7) by (assumption || lia || auto). cbn [Z.eqb Pos.eqb].
        rewrite E1. cbn [obind]. rewrite E2. split; [reflexivity|]. split; [reflexivity|].
        repeat (apply bytes_ok_cons; split; [assumption|]). assumption.
      * (* by 6 *)
        destruct (riscv_go true pos (i + 6) (b6 :: b7 :: t)) as [[o' r']| | |] eqn:Eg; cbn [obind] in Hgo; try discriminate.
        injection Hgo as <- <-. cbn [app length firstn].
        destruct (IH (b6 :: b7 :: t) pos (i + 6) o' r' ltac:(cbn [length]; lia) Hb6' ltac:(lia) Eg) as (E1 & E2 & E3).
        destruct (riscv_go_total true pos (b6 :: b7 :: t) (i + 6) Hb6') as (o2 & r2 & Eg2 & Hl2 & Hbo2 & Hr2).
        rewrite Eg in Eg2. injection Eg2 as <- <-.
        assert (HbY : bytes_ok (o' ++ r') = true).
        { apply bytes_ok_app. split; [assumption|]. rewrite <- Hr2. apply bytes_ok_skipn. assumption. }
        assert (HlY : length (o' ++ r') = (2 + length t)%nat) by (rewrite app_length, Hl2; reflexivity).
        destruct (riscv_go_hd true pos _ (i + 6) o' r' b6 (b7 :: t) Eg eq_refl B6) as (y6' & t6 & Ey6 & Hy6).
        destruct (o' ++ r') as [|y6 [|y7 t']] eqn:EY; try (cbn [length] in HlY; lia).
        injection Ey6 as -> _.
        repeat (apply bytes_ok_cons in HbY; let H := fresh "Y" in destruct HbY as [H HbY]).
        rewrite riscv_go_unfold.
        rewrite (Hst b2 b3 b4 b5 y6' y7) by (assumption || lia || auto). cbn [Z.eqb Pos.eqb].
        rewrite E1. cbn [obind]. rewrite E2. split; [reflexivity|]. split; [reflexivity|].
        repeat (apply bytes_ok_cons; split; [assumption|]). assumption.
    + (* JAL *)
      destruct Hsh as (C1 & C2 & C3).
      destruct (riscv_go true pos (i + 4) (b4 :: b5 :: b6 :: b7 :: t)) as [[o' r']| | |] eqn:Eg; cbn [obind] in Hgo; try discriminate.
      injection Hgo as <- <-. cbn [app length firstn].
      destruct (IH (b4 :: b5 :: b6 :: b7 :: t) pos (i + 4) o' r' ltac:(cbn [length]; lia) Hb4' ltac:(lia) Eg) as (E1 & E2 & E3).
      destruct (riscv_go_total true pos (b4 :: b5 :: b6 :: b7 :: t) (i + 4) Hb4') as (o2 & r2 & Eg2 & Hl2 & Hbo2 & Hr2).
      rewrite Eg in Eg2. injection Eg2 as <- <-.
      assert (HlY : length (o' ++ r') = (4 + length t)%nat) by (rewrite app_length, Hl2; reflexivity).
      destruct (o' ++ r') as [|y4 [|y5 [|y6 [|y7 t']]]] eqn:EY; try (cbn [length] in HlY; lia).
      rewrite riscv_go_unfold. rewrite Hst.
      rewrite E1. cbn [obind]. rewrite E2. split; [reflexivity|]. split; [reflexivity|].
      repeat (apply bytes_ok_cons; split; [assumption|]). assumption.
    + (* AUIPC pair *)
      destruct Hsh as (C0 & C1 & C2 & C3 & C4 & C5 & C6 & C7).
      destruct (riscv_go true pos (i + 8) t) as [[o' r']| | |] eqn:Eg; cbn [obind] in Hgo; try discriminate.
      injection Hgo as <- <-. cbn [app length firstn].
      destruct (IH t pos (i + 8) o' r' ltac:(lia) Hb8 ltac:(lia) Eg) as (E1 & E2 & E3).
      rewrite riscv_go_unfold. rewrite Hst.
      rewrite E1. cbn [obind]. rewrite E2. split; [reflexivity|]. split; [reflexivity|].
      repeat (apply bytes_ok_cons; split; [assumption|]). assumption.
Qed.

(* ---------------- JAL ---------------- *)
Definition jal_addr (b1 b2 b3 : Z) : Z :=
  b2 / 32 * 2 + b3 mod 128 * 16 + (b2 / 16) mod 2 * 2048 + b1 / 16 * 4096 + b2 mod 16 * 65536 + b3 / 128 * 1048576.

Lemma jal_enc_spec pc b1 b2 b3 b4 b5 b6 b7 : byte b1 -> byte b2 -> byte b3 -> Z.land b1 13 = 0 ->
  riscv_step true pc 239 b1 b2 b3 b4 b5 b6 b7 =
  let a := s32 (jal_addr b1 b2 b3 + pc) in
  RJal (b1 mod 16 + (a / 131072) mod 16 * 16) ((a / 512) mod 256) ((a / 2) mod 256).
Proof.
  unfold byte. intros H1 H2 H3 Hd. unfold riscv_step. cbv zeta.
  change (239 =? 239) with true. cbv iota. rewrite Hd. cbn [Z.eqb negb].
  shift_lits. land_lits.
  repeat (first [lor_field 16 4 | lor_field 11 1 | lor_field 1 3 | lor_field 4 7 | lor_field 20 1]).
  assert (Ea : b1 / 16 mod 16 * 16 * 256 + b2 mod 16 * 65536 + b2 / 16 mod 2 * 16 * 128 + b2 / 32 mod 8 * 32 / 16 +
               b3 mod 128 * 16 + b3 / 128 mod 2 * 128 * 8192 = jal_addr b1 b2 b3) by (unfold jal_addr; lia).
  rewrite Ea. assert (Hj : 0 <= jal_addr b1 b2 b3 < 2097152) by (unfold jal_addr; lia).
  rewrite (s32_small (jal_addr b1 b2 b3)) by lia.
  set (a := s32 (jal_addr b1 b2 b3 + pc)). unfold u32.
  unfold u8. f_equal; lia.
Qed.

Lemma jal_dec_spec pc c1 c2 c3 y4 y5 y6 y7 : byte c1 -> byte c2 -> byte c3 -> Z.land c1 13 = 0 ->
  riscv_step false pc 239 c1 c2 c3 y4 y5 y6 y7 =
  let a := s32 (c1 / 16 * 131072 + c2 * 512 + c3 * 2 - pc) in
  RJal (c1 mod 16 + (a / 4096) mod 16 * 16)
       ((a / 65536) mod 16 + (a / 2048) mod 2 * 16 + (a / 2) mod 8 * 32)
       ((a / 16) mod 128 + (a / 1048576) mod 2 * 128).
Proof.
  unfold byte. intros H1 H2 H3 Hd. unfold riscv_step. cbv zeta.
  change (239 =? 239) with true. cbv iota. rewrite Hd. cbn [Z.eqb negb].
  shift_lits. land_lits.
  repeat (first [lor_field 9 8 | lor_field 1 8]).
  assert (Ea : c1 / 16 mod 16 * 16 * 8192 + c2 * 512 + c3 * 2 = c1 / 16 * 131072 + c2 * 512 + c3 * 2) by lia.
  rewrite Ea.
  rewrite (s32_small (c1 / 16 * 131072 + c2 * 512 + c3 * 2)) by lia.
  set (a := s32 (c1 / 16 * 131072 + c2 * 512 + c3 * 2 - pc)).
  assert (Ha : -2147483648 <= a < 2147483648) by (unfold a; apply s32_range).
  unfold u32.
  assert (E4 : s32 (a * 16) / 32 mod 8 * 32 = (a / 2) mod 8 * 32) by (unfold s32; lia).
  rewrite E4.
  repeat (first [lor_field 4 4 | lor_field 4 1 | lor_field 5 3 | lor_field 7 1]).
  unfold u8. f_equal; lia.
Qed.

Lemma jal_inverse pc b1 b2 b3 : pc mod 2 = 0 -> byte b1 -> byte b2 -> byte b3 ->
  let a := s32 (jal_addr b1 b2 b3 + pc) in
  let c1 := b1 mod 16 + (a / 131072) mod 16 * 16 in
  let c2 := (a / 512) mod 256 in
  let c3 := (a / 2) mod 256 in
  let a' := s32 (c1 / 16 * 131072 + c2 * 512 + c3 * 2 - pc) in
  byte c1 /\ byte c2 /\ byte c3 /\ c1 mod 16 = b1 mod 16 /\
  c1 mod 16 + (a' / 4096) mod 16 * 16 = b1 /\
  (a' / 65536) mod 16 + (a' / 2048) mod 2 * 16 + (a' / 2) mod 8 * 32 = b2 /\
  (a' / 16) mod 128 + (a' / 1048576) mod 2 * 128 = b3.
Proof.
  unfold byte. intros Hp H1 H2 H3. cbv zeta.
  assert (Hj : 0 <= jal_addr b1 b2 b3 < 2097152 /\ jal_addr b1 b2 b3 mod 2 = 0) by (unfold jal_addr; lia).
  set (a := s32 (jal_addr b1 b2 b3 + pc)).
  assert (Ha : a mod 2 = 0) by (unfold a, s32; lia).
  set (c1 := b1 mod 16 + (a / 131072) mod 16 * 16).
  set (c2 := (a / 512) mod 256). set (c3 := (a / 2) mod 256).
  assert (Ec : c1 / 16 * 131072 + c2 * 512 + c3 * 2 = a mod 2097152) by (unfold c1, c2, c3; lia).
  rewrite Ec.
  assert (Ea' : s32 (a mod 2097152 - pc) mod 2097152 = jal_addr b1 b2 b3) by (unfold a, s32; lia).
  set (a' := s32 (a mod 2097152 - pc)) in *.
  split; [unfold c1; lia|]. split; [unfold c2; lia|]. split; [unfold c3; lia|]. split; [unfold c1; lia|].
  unfold jal_addr in Ea'. clearbody a' a. unfold c1. repeat split; lia.
Qed.

(* ---------------- AUIPC: helpers ---------------- *)
Definition w4 (b0 b1 b2 b3 : Z) : Z := b0 + 256 * b1 + 65536 * b2 + 16777216 * b3.

Lemma le32_w4 b0 b1 b2 b3 : byte b0 -> byte b1 -> byte b2 -> byte b3 -> le32 b0 b1 b2 b3 = w4 b0 b1 b2 b3.
Proof.
  unfold byte, le32, w4. intros. shift_lits. lor_plus 8. lor_plus 16. lor_plus 24. lia.
Qed.

Lemma w4_range b0 b1 b2 b3 : byte b0 -> byte b1 -> byte b2 -> byte b3 -> 0 <= w4 b0 b1 b2 b3 < 4294967296.
Proof. unfold byte, w4. lia. Qed.

Lemma land_shifted_mask x m k : 0 <= k -> Z.land x (m * 2 ^ k) = Z.land (x / 2 ^ k) m * 2 ^ k.
Proof.
  intros Hk. apply Z.bits_inj'; intros n Hn. rewrite Z.land_spec.
  destruct (Z.lt_ge_cases n k).
  - rewrite !Z.mul_pow2_bits_low by lia. apply andb_false_r.
  - rewrite !Z.mul_pow2_bits by lia. rewrite Z.land_spec, Z.div_pow2_bits by lia. f_equal. f_equal. lia.
Qed.

Lemma zrange32_sweep (P : Z -> bool) : forallb P (zrange 0 32) = true -> forall r, 0 <= r < 32 -> P r = true.
Proof. intros H r Hr. rewrite forallb_forall in H. apply H. apply zrange_in. cbn. lia. Qed.

(* rd of the AUIPC: bits 7..11 *)
Definition rv_rd (inst : Z) : Z := (inst / 128) mod 32.
Definition rd_special (rd : Z) : bool := (rd =? 0) || (rd =? 2).

Lemma land_1D r : 0 <= r < 32 -> (Z.land r 29 =? 0) = rd_special r.
Proof.
  intros Hr. apply (zrange32_sweep (fun r => Bool.eqb (Z.land r 29 =? 0) (rd_special r))) in Hr.
  - apply Bool.eqb_prop. exact Hr.
  - vm_compute. reflexivity.
Qed.

Lemma land_E80 x : 0 <= x -> (Z.land x 3712 =? 0) = rd_special (rv_rd x).
Proof.
  intros Hx. change 3712 with (29 * 2 ^ 7). rewrite land_shifted_mask by lia.
  rewrite (land_mod_low (x / 2 ^ 7) 29 5) by lia. change (2 ^ 7) with 128. change (2 ^ 5) with 32.
  fold (rv_rd x). rewrite <- land_1D by (unfold rv_rd; lia).
  apply eq_true_iff_eq. rewrite !Z.eqb_eq.
  pose proof (Z.land_nonneg (rv_rd x) 29). lia.
Qed.

Lemma land_split x m1 m2 : Z.land m1 m2 = 0 -> Z.land x (m1 + m2) = Z.land x m1 + Z.land x m2.
Proof.
  intros H.
  assert (E : m1 + m2 = Z.lor m1 m2) by (rewrite <- Z.lxor_lor by assumption; apply Z.add_nocarry_lxor; assumption).
  rewrite E, Z.land_lor_distr_r.
  assert (H2 : Z.land (Z.land x m1) (Z.land x m2) = 0).
  { apply Z.bits_inj'; intros n Hn. rewrite !Z.land_spec, Z.bits_0.
    assert (Hb : Z.testbit (Z.land m1 m2) n = false) by (rewrite H; apply Z.bits_0).
    rewrite Z.land_spec in Hb. destruct (Z.testbit x n), (Z.testbit m1 n), (Z.testbit m2 n); auto. }
  rewrite <- Z.lxor_lor by assumption. symmetry. apply Z.add_nocarry_lxor. assumption.
Qed.

Lemma rv_check_sweep rd r2 b : 0 <= rd < 32 -> 0 <= r2 < 32 -> 0 <= b < 4 ->
  (Z.lxor (rd * 32768) (b + r2 * 32768) =? 3) = (b =? 3) && (r2 =? rd).
Proof.
  intros H1 H2 H3.
  assert (H : forallb (fun rd => forallb (fun r2 => forallb (fun b =>
              Bool.eqb (Z.lxor (rd * 32768) (b + r2 * 32768) =? 3) ((b =? 3) && (r2 =? rd)))
              (zrange 0 4)) (zrange 0 32)) (zrange 0 32) = true) by (vm_compute; reflexivity).
  rewrite forallb_forall in H. specialize (H rd (zrange_in 0 32 rd ltac:(cbn; lia))).
  rewrite forallb_forall in H. specialize (H r2 (zrange_in 0 32 r2 ltac:(cbn; lia))).
  rewrite forallb_forall in H. specialize (H b (zrange_in 0 4 b ltac:(cbn; lia))).
  apply Bool.eqb_prop. exact H.
Qed.

Lemma land_lxor_l a b c : Z.land (Z.lxor a b) c = Z.lxor (Z.land a c) (Z.land b c).
Proof.
  apply Z.bits_inj'; intros n Hn. rewrite !Z.land_spec, !Z.lxor_spec, !Z.land_spec.
  destruct (Z.testbit a n), (Z.testbit b n), (Z.testbit c n); reflexivity.
Qed.

Lemma rv_check inst inst2 : 0 <= inst < 4294967296 -> 0 <= inst2 < 4294967296 ->
  (Z.land (Z.lxor (u32 (Z.shiftl inst 8)) inst2) 1015811 =? 3) =
  (inst2 mod 4 =? 3) && ((inst2 / 32768) mod 32 =? rv_rd inst).
Proof.
  intros H1 H2. rewrite land_lxor_l.
  set (A := u32 (Z.shiftl inst 8)).
  change 1015811 with (3 + 31 * 2 ^ 15).
  rewrite (land_split A 3 (31 * 2 ^ 15)) by reflexivity.
  rewrite (land_split inst2 3 (31 * 2 ^ 15)) by reflexivity.
  rewrite (land_shifted_mask A 31 15) by lia. rewrite (land_shifted_mask inst2 31 15) by lia.
  rewrite (land_mod_low (A / 2 ^ 15) 31 5) by lia. rewrite (land_mod_low (inst2 / 2 ^ 15) 31 5) by lia.
  assert (L31 : forall x, 0 <= x < 32 -> Z.land x 31 = x).
  { intros x Hx. change 31 with (Z.ones 5). rewrite Z.land_ones by lia. apply Z.mod_small. exact Hx. }
  assert (L3 : forall x, Z.land x 3 = x mod 4).
  { intros x. change 3 with (Z.ones 2). rewrite Z.land_ones by lia. reflexivity. }
  change (2 ^ 15) with 32768. change (2 ^ 5) with 32.
  rewrite (L31 ((A / 32768) mod 32)) by lia. rewrite (L31 ((inst2 / 32768) mod 32)) by lia.
  rewrite !L3.
  assert (E1 : A mod 4 = 0) by (unfold A, u32; rewrite Z.shiftl_mul_pow2 by lia; change (2 ^ 8) with 256; lia).
  assert (E2 : (A / 32768) mod 32 = rv_rd inst)
    by (unfold A, u32, rv_rd; rewrite Z.shiftl_mul_pow2 by lia; change (2 ^ 8) with 256; lia).
  rewrite E1, E2, Z.add_0_l.
  apply rv_check_sweep; unfold rv_rd; lia.
Qed.

Lemma land_1D_small r : 0 <= r < 32 -> 0 <= Z.land r 29 < 128.
Proof.
  intros Hr. apply (zrange32_sweep (fun r => (0 <=? Z.land r 29) && (Z.land r 29 <? 128))) in Hr.
  - apply andb_true_iff in Hr. destruct Hr as [Ha Hb]. apply Z.leb_le in Ha. apply Z.ltb_lt in Hb. lia.
  - vm_compute. reflexivity.
Qed.

(* the test of the rd = x0/x2 branch *)
Definition rv_fake_field (inst : Z) : Z := (u32 (inst - 12544) / 128) mod 128.
Lemma rv_fake_cond inst : 0 <= inst < 4294967296 ->
  (Z.land (u32 (inst - 12544)) 16256 >=? Z.land (Z.shiftr inst 27) 29) =
  negb (rv_fake_field inst =? 0) || rd_special (inst / 134217728).
Proof.
  intros Hi. rewrite Z.shiftr_div_pow2 by lia. change (2 ^ 27) with 134217728.
  set (r := inst / 134217728). assert (Hr : 0 <= r < 32) by (unfold r; lia).
  rewrite <- (land_1D r Hr). pose proof (land_1D_small r Hr) as Hs.
  set (x := Z.land r 29) in *.
  land_lits. fold (rv_fake_field inst). set (f := rv_fake_field inst).
  assert (Hf : 0 <= f < 128) by (unfold f, rv_fake_field; lia).
  apply eq_true_iff_eq. rewrite orb_true_iff, negb_true_iff, Z.geb_le, Z.eqb_neq, Z.eqb_eq. lia.
Qed.

Definition lebytes (v : Z) : Z * Z * Z * Z := (v mod 256, (v / 256) mod 256, (v / 65536) mod 256, (v / 16777216) mod 256).

(* the four conversions of an AUIPC pair in arithmetic form *)
Definition auipc_packed (inst2 : Z) : Z := 279 + inst2 mod 1048576 * 4096.

Lemma auipc_enc_real pc b0 b1 b2 b3 b4 b5 b6 b7 :
  byte b0 -> byte b1 -> byte b2 -> byte b3 -> byte b4 -> byte b5 -> byte b6 -> byte b7 ->
  b0 mod 128 = 23 ->
  let inst := w4 b0 b1 b2 b3 in let inst2 := w4 b4 b5 b6 b7 in
  rd_special (rv_rd inst) = false -> inst2 mod 4 = 3 -> (inst2 / 32768) mod 32 = rv_rd inst ->
  let n := auipc_packed inst2 in
  let a := s32 (s32 (s32 (inst / 4096 * 4096) + s32 inst2 / 1048576) + pc) in
  riscv_step true pc b0 b1 b2 b3 b4 b5 b6 b7 =
  RAuipc (n mod 256) ((n / 256) mod 256) ((n / 65536) mod 256) ((n / 16777216) mod 256)
         ((a / 16777216) mod 256) ((a / 65536) mod 256) ((a / 256) mod 256) (a mod 256).
Proof.
  intros H0 H1 H2 H3 H4 H5 H6 H7 E0. cbv zeta. intros Hrd Hc1 Hc2.
  unfold riscv_step. cbv zeta.
  assert (Hne : (b0 =? 239) = false) by (apply Z.eqb_neq; lia). rewrite Hne.
  assert (H17 : (Z.land b0 127 =? 23) = true) by (apply Z.eqb_eq; land_lits; exact E0). rewrite H17.
  rewrite !le32_w4 by assumption.
  pose proof (w4_range b0 b1 b2 b3 H0 H1 H2 H3) as Hi. pose proof (w4_range b4 b5 b6 b7 H4 H5 H6 H7) as Hi2.
  set (inst := w4 b0 b1 b2 b3) in *. set (inst2 := w4 b4 b5 b6 b7) in *.
  rewrite land_E80 by lia. rewrite Hrd. cbn [negb].
  rewrite rv_check by assumption.
  assert (Hchk : ((inst2 mod 4 =? 3) && ((inst2 / 32768) mod 32 =? rv_rd inst)) = true)
    by (apply andb_true_iff; split; apply Z.eqb_eq; assumption).
  rewrite Hchk. cbn [negb].
  shift_lits. land_lits. unfold u32.
  change (Z.lor 23 (2 * 128)) with 279.
  rewrite (lor_add_mod' ((inst2 * 4096) mod 4294967296) 279 12) by (change (2 ^ 12) with 4096; lia).
  assert (En : (inst2 * 4096) mod 4294967296 + 279 = auipc_packed inst2) by (unfold auipc_packed; lia).
  rewrite En. assert (Hn : 0 <= auipc_packed inst2 < 4294967296) by (unfold auipc_packed; lia).
  set (n := auipc_packed inst2) in *.
  replace (inst / 4096 mod 1048576 * 4096) with (inst / 4096 * 4096) by lia.
  set (a := s32 (s32 (s32 (inst / 4096 * 4096) + s32 inst2 / 1048576) + pc)).
  unfold u8. f_equal; lia.
Qed.

(* decoder, AUIPC with rd = x0/x2 that passes the test: an encoded real pair *)
Lemma auipc_dec_real pc c0 c1 c2 c3 c4 c5 c6 c7 :
  byte c0 -> byte c1 -> byte c2 -> byte c3 -> byte c4 -> byte c5 -> byte c6 -> byte c7 ->
  c0 mod 128 = 23 ->
  let inst := w4 c0 c1 c2 c3 in
  rd_special (rv_rd inst) = true -> rv_fake_field inst = 0 -> rd_special (inst / 134217728) = false ->
  let a := s32 (s32 (w4 c7 c6 c5 c4) - pc) in
  let i2 := inst / 4096 + (a mod 4096) * 1048576 in
  let n := 23 + inst / 134217728 * 128 + u32 (s32 (a + 2048)) / 4096 * 4096 in
  riscv_step false pc c0 c1 c2 c3 c4 c5 c6 c7 =
  RAuipc (n mod 256) ((n / 256) mod 256) ((n / 65536) mod 256) ((n / 16777216) mod 256)
         (i2 mod 256) ((i2 / 256) mod 256) ((i2 / 65536) mod 256) ((i2 / 16777216) mod 256).
Proof.
  intros H0 H1 H2 H3 H4 H5 H6 H7 E0. cbv zeta. intros Hrd Hf Hr.
  unfold riscv_step. cbv zeta.
  assert (Hne : (c0 =? 239) = false) by (apply Z.eqb_neq; lia). rewrite Hne.
  assert (H17 : (Z.land c0 127 =? 23) = true) by (apply Z.eqb_eq; land_lits; exact E0). rewrite H17.
  rewrite !le32_w4 by assumption.
  pose proof (w4_range c0 c1 c2 c3 H0 H1 H2 H3) as Hi. pose proof (w4_range c7 c6 c5 c4 H7 H6 H5 H4) as Hi2.
  set (inst := w4 c0 c1 c2 c3) in *.
  rewrite land_E80 by lia. rewrite Hrd. cbn [negb].
  rewrite rv_fake_cond by assumption. rewrite Hf, Hr. cbn [Z.eqb negb orb].
  set (a := s32 (s32 (w4 c7 c6 c5 c4) - pc)).
  assert (Ha : -2147483648 <= a < 2147483648) by (unfold a; apply s32_range).
  shift_lits. land_lits. unfold u32.
  assert (Hq : 0 <= inst / 134217728 < 32) by lia.
  rewrite (lor_add_field (inst / 4096) ((a mod 4294967296 * 1048576) mod 4294967296) 20 12)
    by (change (2 ^ 20) with 1048576; change (2 ^ 12) with 4096; change (2 ^ (20 + 12)) with 4294967296; lia).
  rewrite (lor_add_mod' (inst / 134217728 * 128) 23 7) by (change (2 ^ 7) with 128; lia).
  rewrite (lor_add_mod' ((s32 (a + 2048) mod 4294967296 / 4096) mod 1048576 * 4096) (inst / 134217728 * 128 + 23) 12)
    by (change (2 ^ 12) with 4096; lia).
  set (n := s32 (a + 2048) mod 4294967296 / 4096 mod 1048576 * 4096 + (inst / 134217728 * 128 + 23)).
  set (i2 := inst / 4096 + (a mod 4294967296 * 1048576) mod 4294967296).
  assert (En : n = 23 + inst / 134217728 * 128 + s32 (a + 2048) mod 4294967296 / 4096 * 4096) by (unfold n; lia).
  assert (Ei : i2 = inst / 4096 + a mod 4096 * 1048576) by (unfold i2; lia).
  rewrite <- En, <- Ei. unfold u8.
  assert (0 <= n < 4294967296) by (unfold n; lia). assert (0 <= i2 < 4294967296) by (unfold i2; lia).
  f_equal; lia.
Qed.

(* encoder, AUIPC with rd = x0/x2 that would pass the decoder's test: escaped *)
Lemma auipc_enc_fake pc b0 b1 b2 b3 b4 b5 b6 b7 :
  byte b0 -> byte b1 -> byte b2 -> byte b3 -> byte b4 -> byte b5 -> byte b6 -> byte b7 ->
  b0 mod 128 = 23 ->
  let inst := w4 b0 b1 b2 b3 in let fa := w4 b4 b5 b6 b7 in
  rd_special (rv_rd inst) = true -> rv_fake_field inst = 0 -> rd_special (inst / 134217728) = false ->
  let n := 23 + inst / 134217728 * 128 + fa / 4096 * 4096 in
  let i2 := inst / 4096 + fa mod 4096 * 1048576 in
  riscv_step true pc b0 b1 b2 b3 b4 b5 b6 b7 =
  RAuipc (n mod 256) ((n / 256) mod 256) ((n / 65536) mod 256) ((n / 16777216) mod 256)
         (i2 mod 256) ((i2 / 256) mod 256) ((i2 / 65536) mod 256) ((i2 / 16777216) mod 256).
Proof.
  intros H0 H1 H2 H3 H4 H5 H6 H7 E0. cbv zeta. intros Hrd Hf Hr.
  unfold riscv_step. cbv zeta.
  assert (Hne : (b0 =? 239) = false) by (apply Z.eqb_neq; lia). rewrite Hne.
  assert (H17 : (Z.land b0 127 =? 23) = true) by (apply Z.eqb_eq; land_lits; exact E0). rewrite H17.
  rewrite !le32_w4 by assumption.
  pose proof (w4_range b0 b1 b2 b3 H0 H1 H2 H3) as Hi. pose proof (w4_range b4 b5 b6 b7 H4 H5 H6 H7) as Hfa.
  set (inst := w4 b0 b1 b2 b3) in *. set (fa := w4 b4 b5 b6 b7) in *.
  rewrite land_E80 by lia. rewrite Hrd. cbn [negb].
  rewrite rv_fake_cond by assumption. rewrite Hf, Hr. cbn [Z.eqb negb orb].
  shift_lits. land_lits. unfold u32.
  assert (Hq : 0 <= inst / 134217728 < 32) by lia.
  rewrite (lor_add_field (inst / 4096) ((fa * 1048576) mod 4294967296) 20 12)
    by (change (2 ^ 20) with 1048576; change (2 ^ 12) with 4096; change (2 ^ (20 + 12)) with 4294967296; lia).
  rewrite (lor_add_mod' (inst / 134217728 * 128) 23 7) by (change (2 ^ 7) with 128; lia).
  rewrite (lor_add_mod' ((fa / 4096) mod 1048576 * 4096) (inst / 134217728 * 128 + 23) 12)
    by (change (2 ^ 12) with 4096; lia).
  set (n := fa / 4096 mod 1048576 * 4096 + (inst / 134217728 * 128 + 23)).
  set (i2 := inst / 4096 + (fa * 1048576) mod 4294967296).
  assert (En : n = 23 + inst / 134217728 * 128 + fa / 4096 * 4096) by (unfold n; lia).
  assert (Ei : i2 = inst / 4096 + fa mod 4096 * 1048576) by (unfold i2; lia).
  rewrite <- En, <- Ei. unfold u8.
  assert (0 <= n < 4294967296) by (unfold n; lia). assert (0 <= i2 < 4294967296) by (unfold i2; lia).
  f_equal; lia.
Qed.

(* decoder, AUIPC with another rd whose partner uses it: an escaped pair *)
Lemma auipc_dec_fake pc c0 c1 c2 c3 c4 c5 c6 c7 :
  byte c0 -> byte c1 -> byte c2 -> byte c3 -> byte c4 -> byte c5 -> byte c6 -> byte c7 ->
  c0 mod 128 = 23 ->
  let inst := w4 c0 c1 c2 c3 in let inst2 := w4 c4 c5 c6 c7 in
  rd_special (rv_rd inst) = false -> inst2 mod 4 = 3 -> (inst2 / 32768) mod 32 = rv_rd inst ->
  let n := auipc_packed inst2 in
  let a := s32 (s32 (inst / 4096 * 4096) + inst2 / 1048576) in
  riscv_step false pc c0 c1 c2 c3 c4 c5 c6 c7 =
  RAuipc (n mod 256) ((n / 256) mod 256) ((n / 65536) mod 256) ((n / 16777216) mod 256)
         (a mod 256) ((a / 256) mod 256) ((a / 65536) mod 256) ((a / 16777216) mod 256).
Proof.
  intros H0 H1 H2 H3 H4 H5 H6 H7 E0. cbv zeta. intros Hrd Hc1 Hc2.
  unfold riscv_step. cbv zeta.
  assert (Hne : (c0 =? 239) = false) by (apply Z.eqb_neq; lia). rewrite Hne.
  assert (H17 : (Z.land c0 127 =? 23) = true) by (apply Z.eqb_eq; land_lits; exact E0). rewrite H17.
  rewrite !le32_w4 by assumption.
  pose proof (w4_range c0 c1 c2 c3 H0 H1 H2 H3) as Hi. pose proof (w4_range c4 c5 c6 c7 H4 H5 H6 H7) as Hi2.
  set (inst := w4 c0 c1 c2 c3) in *. set (inst2 := w4 c4 c5 c6 c7) in *.
  rewrite land_E80 by lia. rewrite Hrd. cbn [negb].
  rewrite rv_check by assumption.
  assert (Hchk : ((inst2 mod 4 =? 3) && ((inst2 / 32768) mod 32 =? rv_rd inst)) = true)
    by (apply andb_true_iff; split; apply Z.eqb_eq; assumption).
  rewrite Hchk. cbn [negb].
  shift_lits. land_lits. unfold u32.
  change (Z.lor 23 (2 * 128)) with 279.
  rewrite (lor_add_mod' ((inst2 * 4096) mod 4294967296) 279 12) by (change (2 ^ 12) with 4096; lia).
  assert (En : (inst2 * 4096) mod 4294967296 + 279 = auipc_packed inst2) by (unfold auipc_packed; lia).
  rewrite En. assert (Hn : 0 <= auipc_packed inst2 < 4294967296) by (unfold auipc_packed; lia).
  set (n := auipc_packed inst2) in *.
  replace (inst / 4096 mod 1048576 * 4096) with (inst / 4096 * 4096) by lia.
  set (a := s32 (s32 (inst / 4096 * 4096) + inst2 / 1048576)).
  unfold u8. f_equal; lia.
Qed.

(* ---------------- the steps that only move on ---------------- *)
Lemma rv_skip2_jal enc pc b1 b2 b3 b4 b5 b6 b7 : Z.land b1 13 <> 0 ->
  riscv_step enc pc 239 b1 b2 b3 b4 b5 b6 b7 = RSkip 2.
Proof.
  intros H. unfold riscv_step. cbv zeta. change (239 =? 239) with true. cbv iota.
  destruct (Z.eqb_spec (Z.land b1 13) 0); [contradiction|reflexivity].
Qed.

Lemma rv_skip2_other enc pc b0 b1 b2 b3 b4 b5 b6 b7 : byte b0 -> b0 <> 239 -> b0 mod 128 <> 23 ->
  riscv_step enc pc b0 b1 b2 b3 b4 b5 b6 b7 = RSkip 2.
Proof.
  intros H0 Hne H17. unfold riscv_step. cbv zeta.
  destruct (Z.eqb_spec b0 239); [contradiction|].
  destruct (Z.eqb_spec (Z.land b0 127) 23) as [E|_]; [|reflexivity].
  revert E. land_lits. intros E. contradiction.
Qed.

Lemma rv_skip6 enc pc b0 b1 b2 b3 b4 b5 b6 b7 :
  byte b0 -> byte b1 -> byte b2 -> byte b3 -> byte b4 -> byte b5 -> byte b6 -> byte b7 ->
  b0 mod 128 = 23 -> rd_special (rv_rd (w4 b0 b1 b2 b3)) = false ->
  ((w4 b4 b5 b6 b7 mod 4 =? 3) && ((w4 b4 b5 b6 b7 / 32768) mod 32 =? rv_rd (w4 b0 b1 b2 b3))) = false ->
  riscv_step enc pc b0 b1 b2 b3 b4 b5 b6 b7 = RSkip 6.
Proof.
  intros H0 H1 H2 H3 H4 H5 H6 H7 E0 Hrd Hchk. unfold riscv_step. cbv zeta.
  assert (Hne : (b0 =? 239) = false) by (apply Z.eqb_neq; lia). rewrite Hne.
  assert (H17 : (Z.land b0 127 =? 23) = true) by (apply Z.eqb_eq; land_lits; exact E0). rewrite H17.
  rewrite !le32_w4 by assumption.
  pose proof (w4_range b0 b1 b2 b3 H0 H1 H2 H3) as Hi. pose proof (w4_range b4 b5 b6 b7 H4 H5 H6 H7) as Hi2.
  rewrite land_E80 by lia. rewrite Hrd. cbn [negb].
  rewrite rv_check by assumption. rewrite Hchk. reflexivity.
Qed.

Lemma rv_skip4 enc pc b0 b1 b2 b3 b4 b5 b6 b7 :
  byte b0 -> byte b1 -> byte b2 -> byte b3 ->
  b0 mod 128 = 23 -> rd_special (rv_rd (w4 b0 b1 b2 b3)) = true ->
  (negb (rv_fake_field (w4 b0 b1 b2 b3) =? 0) || rd_special (w4 b0 b1 b2 b3 / 134217728)) = true ->
  riscv_step enc pc b0 b1 b2 b3 b4 b5 b6 b7 = RSkip 4.
Proof.
  intros H0 H1 H2 H3 E0 Hrd Hc. unfold riscv_step. cbv zeta.
  assert (Hne : (b0 =? 239) = false) by (apply Z.eqb_neq; lia). rewrite Hne.
  assert (H17 : (Z.land b0 127 =? 23) = true) by (apply Z.eqb_eq; land_lits; exact E0). rewrite H17.
  rewrite !le32_w4 by assumption.
  pose proof (w4_range b0 b1 b2 b3 H0 H1 H2 H3) as Hi.
  rewrite land_E80 by lia. rewrite Hrd. cbn [negb].
  rewrite rv_fake_cond by assumption. rewrite Hc. reflexivity.
Qed.

(* ---------------- every step is invertible ---------------- *)
Lemma land13_low b c : byte b -> byte c -> c mod 16 = b mod 16 -> Z.land c 13 = Z.land b 13.
Proof.
  intros Hb Hc E. rewrite (land_mod_low c 13 4), (land_mod_low b 13 4) by lia.
  change (2 ^ 4) with 16. rewrite E. reflexivity.
Qed.

Lemma lebytes_w4 v : 0 <= v < 4294967296 ->
  w4 (v mod 256) ((v / 256) mod 256) ((v / 65536) mod 256) ((v / 16777216) mod 256) = v.
Proof. unfold w4. lia. Qed.

Lemma bytes_of_eq v b0 b1 b2 b3 : byte b0 -> byte b1 -> byte b2 -> byte b3 ->
  v mod 4294967296 = w4 b0 b1 b2 b3 ->
  v mod 256 = b0 /\ (v / 256) mod 256 = b1 /\ (v / 65536) mod 256 = b2 /\ (v / 16777216) mod 256 = b3.
Proof. unfold byte, w4. intros. repeat split; lia. Qed.

Lemma riscv_steps_invertible : riscv_step_invertible.
Proof.
  intros pc b0 b1 b2 b3 b4 b5 b6 b7 Hpc H0 H1 H2 H3 H4 H5 H6 H7.
  destruct (Z.eq_dec b0 239) as [->|Hne].
  - (* JAL *)
    destruct (Z.eq_dec (Z.land b1 13) 0) as [Hd|Hd].
    + rewrite jal_enc_spec by assumption. cbv zeta.
      pose proof (jal_inverse pc b1 b2 b3 Hpc H1 H2 H3) as Hj. cbv zeta in Hj.
      destruct Hj as (C1 & C2 & C3 & Elow & E1 & E2 & E3).
      intros y4 y5 y6 y7.
      rewrite jal_dec_spec; try assumption.
      * cbv zeta. rewrite E1, E2, E3. reflexivity.
      * rewrite (land13_low b1 _ H1 C1 Elow). exact Hd.
    + rewrite rv_skip2_jal by assumption. intros y2 y3 y4 y5 y6 y7 _ _ _ _ _ _ _ _.
      apply rv_skip2_jal. assumption.
  - destruct (Z.eq_dec (b0 mod 128) 23) as [E0|E0].
    2:{ rewrite rv_skip2_other by assumption. intros y2 y3 y4 y5 y6 y7 _ _ _ _ _ _ _ _.
        apply rv_skip2_other; assumption. }
    pose proof (w4_range b0 b1 b2 b3 H0 H1 H2 H3) as Hi.
    set (inst := w4 b0 b1 b2 b3) in *.
    destruct (rd_special (rv_rd inst)) eqn:Erd.
    + (* rd = x0 / x2 *)
      destruct (negb (rv_fake_field inst =? 0) || rd_special (inst / 134217728)) eqn:Ef.
      * rewrite (rv_skip4 true) by assumption.
        intros y2 y3 y4 y5 y6 y7 Y2 Y3 Y4 Y5 Y6 Y7 Hy23 _. destruct (Hy23 ltac:(lia)) as [-> ->].
        apply rv_skip4; assumption.
      * apply orb_false_iff in Ef. destruct Ef as [Ef Er].
        apply negb_false_iff, Z.eqb_eq in Ef.
        pose proof (w4_range b4 b5 b6 b7 H4 H5 H6 H7) as Hfa.
        rewrite auipc_enc_fake by assumption. cbv zeta. fold inst.
        set (fa := w4 b4 b5 b6 b7) in *.
        set (n := 23 + inst / 134217728 * 128 + fa / 4096 * 4096).
        set (i2 := inst / 4096 + fa mod 4096 * 1048576).
        (* the fake form: inst mod 2^14 = 0x3117 *)
        assert (Hinst : inst mod 16384 = 12567).
        { unfold rv_fake_field, u32 in Ef. unfold inst, w4 in *. unfold byte in *. lia. }
        assert (Hn : 0 <= n < 4294967296) by (unfold n; lia).
        assert (Hi2 : 0 <= i2 < 4294967296) by (unfold i2; lia).
        assert (Bn : byte (n mod 256) /\ byte ((n / 256) mod 256) /\ byte ((n / 65536) mod 256) /\ byte ((n / 16777216) mod 256))
          by (unfold byte; lia).
        assert (Bi : byte (i2 mod 256) /\ byte ((i2 / 256) mod 256) /\ byte ((i2 / 65536) mod 256) /\ byte ((i2 / 16777216) mod 256))
          by (unfold byte; lia).
        destruct Bn as (N0 & N1 & N2 & N3). destruct Bi as (I0 & I1 & I2 & I3).
        rewrite auipc_dec_fake; try assumption; rewrite ?lebytes_w4 by assumption.
        -- cbv zeta. rewrite ?lebytes_w4 by assumption.
           assert (En : auipc_packed i2 = inst) by (unfold auipc_packed, i2; lia).
           assert (Ea : s32 (s32 (n / 4096 * 4096) + i2 / 1048576) mod 4294967296 = fa)
             by (unfold n, i2, s32; lia).
           rewrite En. set (a := s32 (s32 (n / 4096 * 4096) + i2 / 1048576)) in *.
           destruct (bytes_of_eq inst b0 b1 b2 b3 H0 H1 H2 H3 ltac:(apply Z.mod_small; exact Hi)) as (-> & -> & -> & ->).
           destruct (bytes_of_eq a b4 b5 b6 b7 H4 H5 H6 H7 Ea) as (-> & -> & -> & ->).
           reflexivity.
        -- unfold n. lia.
        -- unfold rd_special in *. unfold rv_rd, n. 
           replace ((23 + inst / 134217728 * 128 + fa / 4096 * 4096) / 128 mod 32) with (inst / 134217728) by lia.
           exact Er.
        -- unfold i2. lia.
        -- unfold i2, rv_rd, n. lia.
    + (* another rd *)
      pose proof (w4_range b4 b5 b6 b7 H4 H5 H6 H7) as Hi2.
      set (inst2 := w4 b4 b5 b6 b7) in *.
      destruct ((inst2 mod 4 =? 3) && ((inst2 / 32768) mod 32 =? rv_rd inst)) eqn:Echk.
      * apply andb_true_iff in Echk. destruct Echk as [Ec1 Ec2]. apply Z.eqb_eq in Ec1, Ec2.
        rewrite auipc_enc_real by assumption. cbv zeta. fold inst inst2.
        set (n := auipc_packed inst2).
        set (a := s32 (s32 (s32 (inst / 4096 * 4096) + s32 inst2 / 1048576) + pc)).
        assert (Ha : -2147483648 <= a < 2147483648) by (unfold a; apply s32_range).
        assert (Hn : 0 <= n < 4294967296) by (unfold n, auipc_packed; lia).
        assert (Bn : byte (n mod 256) /\ byte ((n / 256) mod 256) /\ byte ((n / 65536) mod 256) /\ byte ((n / 16777216) mod 256))
          by (unfold byte; lia).
        assert (Ba : byte (a mod 256) /\ byte ((a / 256) mod 256) /\ byte ((a / 65536) mod 256) /\ byte ((a / 16777216) mod 256))
          by (unfold byte; lia).
        destruct Bn as (N0 & N1 & N2 & N3). destruct Ba as (A0 & A1 & A2 & A3).
        assert (Hrdn : rv_rd n = 2) by (unfold rv_rd, n, auipc_packed; lia).
        assert (Hqn : n / 134217728 = rv_rd inst) by (unfold n, auipc_packed; lia).
        rewrite auipc_dec_real; try assumption; rewrite ?lebytes_w4 by assumption.
        -- cbv zeta. rewrite ?lebytes_w4 by assumption.
           assert (Ew : w4 (a mod 256) ((a / 256) mod 256) ((a / 65536) mod 256) ((a / 16777216) mod 256) = a mod 4294967296)
             by (unfold w4; lia).
           rewrite Ew.
           set (addr := s32 (s32 (inst / 4096 * 4096) + s32 inst2 / 1048576)) in *.
           assert (Ead : s32 (s32 (a mod 4294967296) - pc) = addr).
           { unfold a. unfold s32 at 1 2 3. pose proof (s32_range (s32 (inst / 4096 * 4096) + s32 inst2 / 1048576)).
             fold addr in H |- *. lia. }
           rewrite Ead.
           assert (Ei2 : n / 4096 + addr mod 4096 * 1048576 = inst2).
           { unfold n, auipc_packed, addr, s32. lia. }
           assert (Enn : 23 + n / 134217728 * 128 + u32 (s32 (addr + 2048)) / 4096 * 4096 = inst).
           { rewrite Hqn. unfold addr, u32, s32, rv_rd. unfold inst, w4, byte in *. lia. }
           rewrite Ei2, Enn.
           destruct (bytes_of_eq inst b0 b1 b2 b3 H0 H1 H2 H3 ltac:(apply Z.mod_small; exact Hi)) as (-> & -> & -> & ->).
           destruct (bytes_of_eq inst2 b4 b5 b6 b7 H4 H5 H6 H7 ltac:(apply Z.mod_small; exact Hi2)) as (-> & -> & -> & ->).
           reflexivity.
        -- unfold n, auipc_packed. lia.
        -- rewrite Hrdn. reflexivity.
        -- unfold rv_fake_field, u32, n, auipc_packed. lia.
        -- rewrite Hqn. exact Erd.
      * rewrite (rv_skip6 true) by assumption.
        intros y2 y3 y4 y5 y6 y7 Y2 Y3 Y4 Y5 Y6 Y7 Hy23 Hy456.
        destruct (Hy23 ltac:(lia)) as [-> ->]. destruct (Hy456 ltac:(lia)) as (-> & -> & Hy6).
        apply rv_skip6; try assumption. fold inst. rewrite <- Echk.
        assert (E1 : w4 b4 b5 y6 y7 mod 4 = inst2 mod 4) by (unfold inst2, w4, byte in *; lia).
        assert (E2 : (w4 b4 b5 y6 y7 / 32768) mod 32 = (inst2 / 32768) mod 32) by (unfold inst2, w4, byte in *; lia).
        rewrite E1, E2. reflexivity.
Qed.

Theorem bcj_inverse_riscv : forall start buf, start mod 2 = 0 -> bytes_ok buf = true ->
  exists st' out rest,
    bcj_code RISCV true (bcj_init RISCV start) buf = Ok (st', out, rest) /\
    bcj_code RISCV false (bcj_init RISCV start) (out ++ rest) = Ok (st', firstn (length out) buf, rest) /\
    firstn (length out) buf ++ rest = buf /\ bytes_ok out = true.
Proof.
  intros start buf Hal Hb. cbn [bcj_code]. unfold out_code.
  pose proof (init_aligned RISCV start Hal) as Hpos. cbn [bcj_align] in Hpos.
  destruct (riscv_go_total true (f_pos (bcj_init RISCV start)) buf 0 Hb) as (o & r & E1 & Hl & Hbo & Hr).
  destruct (riscv_go_inverse riscv_steps_invertible (length buf) buf (f_pos (bcj_init RISCV start)) 0 o r (le_n _) Hb
              ltac:(rewrite Z.add_0_r; exact Hpos) E1) as (E2 & E3 & E4).
  rewrite E1. cbn [obind]. eexists _, o, r. split; [reflexivity|].
  rewrite E2. cbn [obind]. split; [|auto].
  assert (EL : zlen (firstn (length o) buf) = zlen o).
  { unfold zlen. rewrite firstn_length. f_equal. lia. }
  rewrite EL. reflexivity.
Qed.
