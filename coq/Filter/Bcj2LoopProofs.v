(* Filter/Bcj2LoopProofs.v — the outer loop of Bcj2Decoder::decode ([bcj2_loop]) run from a state that
   satisfies the invariant of Filter/Bcj2InvProofs.v: it returns true, has stored the next original
   bytes, and stops in a state that satisfies the invariant again, at one of the exits [exit_ok].
   Proofs only. *)
From LzVerif Require Import Base.Bytes Codec.Store Codec.Range Codec.ProbProofs Codec.RangeArithProofs.
From LzVerif Require Import Codec.LzmaDec Codec.LzmaEnc Codec.RangeEncProofs Codec.RangeDecProofs Codec.RangeProofs.
From LzVerif Require Import Filter.Bcj2 Filter.Bcj2Enc Filter.Bcj2EncProofs Filter.Bcj2RcProofs Filter.Bcj2ScanProofs Filter.Bcj2InvProofs.
Ltac Zify.zify_post_hook ::= Z.div_mod_to_equations.

Definition loop_pre (fuel : nat) (d : bdec) (c : b2cfg) : Prop :=
  match c_ph c with
  | PhScan => bcj2_is_32bit_stream (bd_state d) = false /\ (Z.to_nat (sb_avail (bd_main d)) + 1 <= fuel)%nat
  | PhWord ic _ _ _ _ => bd_state d = (if ic then 1 else 2) /\ (Z.to_nat (sb_avail (bd_main d)) + 2 <= fuel)%nat
  | _ => False
  end.

Definition loop_post (rc_out : list Z) (F : futures) (lim : Z) (d : bdec) (c : b2cfg) (o : list Z) (res : outcome dres) : Prop :=
  exists d' c' delta,
    res = Ok (true, d', rev delta ++ o) /\
    b2inv rc_out d' F c' /\ rem_out c = delta ++ rem_out c' /\
    bd_dest d' = bd_dest d + zlen delta /\ bd_dest d' <= lim /\ exit_ok lim d' c'.

Definition loop_prop (rc_out : list Z) (F : futures) (fuel : nat) : Prop :=
  forall lim d c o,
    b2core rc_out d F c ->
    g_rc rc_out (bd_rc d) (bd_range d) (bd_code d) (f_rc F) (c_e c) ->
    loop_pre fuel d c -> 0 <= bd_dest d <= lim ->
    loop_post rc_out F lim d c o (bcj2_loop fuel lim d o).

(* the core invariant does not look at state, dest and the range decoder registers *)
Lemma b2core_set_state rc_out d F c s : b2core rc_out d F c -> b2core rc_out (bd_set_state d s) F c.
Proof.
  intros (H1 & H2 & H3 & H4 & H5 & H6). unfold b2core.
  cbn [bd_set_state bd_main bd_call bd_jump bd_probs]. msplit; assumption.
Qed.

Lemma b2core_set_rc rc_out d F c rb r cc : b2core rc_out d F c -> b2core rc_out (bd_set_rc d rb r cc) F c.
Proof.
  intros (H1 & H2 & H3 & H4 & H5 & H6). unfold b2core.
  cbn [bd_set_rc bd_main bd_call bd_jump bd_probs]. msplit; assumption.
Qed.

Lemma zlen_firstn4 (rem r0 r1 r2 r3 : Z) : 0 <= rem < 4 -> zlen (firstn (Z.to_nat rem) [r0; r1; r2; r3]) = rem.
Proof.
  intros H. assert (Hc : rem = 0 \/ rem = 1 \/ rem = 2 \/ rem = 3) by lia.
  destruct Hc as [-> | [-> | [-> | ->]]]; reflexivity.
Qed.

(* ---------------------------------------------------------------------------------------------
   after the bit: the conversion block followed by `break` + finish or by the next round *)
Lemma after_conv rc_out F f lim d o ic r0 r1 r2 r3 its prev pos e t :
  loop_prop rc_out F f ->
  b2core rc_out d F (mkCfg (PhWord ic r0 r1 r2 r3) its prev pos e t) ->
  g_rc rc_out (bd_rc d) (bd_range d) (bd_code d) (f_rc F) e ->
  bcj2_is_32bit_stream (bd_state d) = false ->
  (Z.to_nat (sb_avail (bd_main d)) + 1 <= f)%nat ->
  0 <= bd_dest d <= lim ->
  loop_post rc_out F lim d (mkCfg (PhWord ic r0 r1 r2 r3) its prev pos e t) o
    (do c <- bcj2_conv lim d o;
     match c with
     | CvBreak d' o' => bcj2_finish d' o'
     | CvCont d' o' => bcj2_loop f lim d' o'
     end).
Proof.
  intros IH Hcore Hrc Hst Hfuel Hdest.
  pose proof Hcore as (_ & _ & (HI & _) & _).
  cbn [c_e] in HI.
  destruct (conv_spec _ lim _ _ o _ _ _ _ _ _ _ _ _ _ Hcore Hdest)
    as [(Hav & Hcv) | [(d' & Hrem & Hcv & Hcore' & Hst' & Hd' & E1 & E2 & E3 & E4) | (d' & Hrem & Hcv & Hcore' & Hst' & Hd' & E1 & E2 & E3 & E4)]];
    rewrite Hcv; cbn [obind].
  - (* the word is not there: state = CALL / JUMP *)
    assert (Hrc' : g_rc rc_out (bd_rc (bd_set_state d (if ic then 1 else 2))) (bd_range (bd_set_state d (if ic then 1 else 2)))
                     (bd_code (bd_set_state d (if ic then 1 else 2))) (f_rc F) e) by exact Hrc.
    destruct (finish_spec _ _ _ _ o Hrc' HI) as (rb & r & cc & Hfin & Hg).
    rewrite Hfin. exists (bd_set_rc (bd_set_state d (if ic then 1 else 2)) rb r cc), (mkCfg (PhWord ic r0 r1 r2 r3) its prev pos e t), [].
    cbn [rev app]. split; [reflexivity|]. split.
    { split; [apply b2core_set_rc, b2core_set_state; exact Hcore|]. split.
      - cbn [bd_set_rc bd_set_state bd_state c_ph g_state]. reflexivity.
      - unfold g_rcph. cbn [c_ph c_e bd_set_rc bd_rc bd_range bd_code]. exact Hg. }
    split; [reflexivity|]. cbn [bd_set_rc bd_set_state bd_dest zlen length]. split; [unfold zlen; cbn; lia|]. split; [lia|].
    unfold exit_ok. cbn [c_ph bd_set_rc bd_set_state bd_call bd_jump]. exact Hav.
  - (* fewer than four bytes of room: the operand goes to temp *)
    assert (Hrc' : g_rc rc_out (bd_rc d') (bd_range d') (bd_code d') (f_rc F) e) by (rewrite E1, E2, E3; exact Hrc).
    destruct (finish_spec _ _ _ _ (rev (firstn (Z.to_nat (lim - bd_dest d)) [r0; r1; r2; r3]) ++ o) Hrc' HI) as (rb & r & cc & Hfin & Hg).
    rewrite Hfin.
    exists (bd_set_rc d' rb r cc), (mkCfg (PhTemp (lim - bd_dest d) r0 r1 r2 r3) its prev pos e t),
           (firstn (Z.to_nat (lim - bd_dest d)) [r0; r1; r2; r3]).
    split; [reflexivity|]. split.
    { split; [apply b2core_set_rc; exact Hcore'|]. split.
      - cbn [bd_set_rc bd_state c_ph g_state]. exact Hst'.
      - unfold g_rcph. cbn [c_ph c_e bd_set_rc bd_rc bd_range bd_code]. exact Hg. }
    split.
    { unfold rem_out. cbn [c_ph c_its]. rewrite app_assoc, firstn_skipn. reflexivity. }
    cbn [bd_set_rc bd_dest]. rewrite zlen_firstn4 by lia. split; [lia|]. split; [lia|].
    unfold exit_ok. cbn [c_ph bd_set_rc bd_dest]. exact Hd'.
  - (* the operand is stored, next round *)
    assert (Hrc' : g_rc rc_out (bd_rc d') (bd_range d') (bd_code d') (f_rc F) e) by (rewrite E1, E2, E3; exact Hrc).
    assert (Hpre : loop_pre f d' (mkCfg PhScan its prev pos e t)).
    { unfold loop_pre. cbn [c_ph]. rewrite Hst', E4. split; assumption. }
    destruct (IH lim d' (mkCfg PhScan its prev pos e t) (r3 :: r2 :: r1 :: r0 :: o) Hcore' Hrc' Hpre ltac:(lia))
      as (d2 & c2 & delta & Hres & Hinv & Hrem2 & Hd2 & Hle & Hex).
    exists d2, c2, ([r0; r1; r2; r3] ++ delta).
    split.
    { rewrite Hres. rewrite rev_app_distr, <- app_assoc. reflexivity. }
    split; [exact Hinv|]. split.
    { unfold rem_out at 1. cbn [c_ph c_its]. unfold rem_out at 1 in Hrem2. cbn [c_ph c_its] in Hrem2.
      rewrite Hrem2, app_assoc. reflexivity. }
    rewrite zlen_app. change (zlen [r0; r1; r2; r3]) with 4. split; [lia|]. split; assumption.
Qed.

(* ---------------------------------------------------------------------------------------------
   helpers for one round *)
Lemma scanned_spec n its prev pos live b tl :
  items_wf prev pos its -> (n <= length its)%nat -> (1 <= n)%nat -> live = b :: tl ->
  firstn n live = b2_main (firstn n its) ->
  (if (prev =? 15) && (Z.land b 240 =? 128) then Some ([], live, n) else bcj2_scan n live []) =
  Some (rev (b2_main (firstn (lits_len n its) its)), skipn (lits_len n its) live, (n - lits_len n its)%nat).
Proof.
  intros Hwf Hn H1 Hl Hf.
  destruct ((prev =? 15) && (Z.land b 240 =? 128)) eqn:Et.
  - destruct n as [|n']; [lia|]. destruct its as [|it r]; [cbn [length] in Hn; lia|].
    subst live. rewrite !firstn_S_cons in Hf. unfold b2_main in Hf. cbn [map] in Hf. injection Hf as Hb _.
    assert (Hcand : bcj2_is_cand prev b = true) by (unfold bcj2_is_cand; rewrite Et; apply orb_true_r).
    assert (Hnl : lits_len (S n') (it :: r) = O).
    { destruct it as [b2|b2 idx|b2 idx ic r0 r1 r2' r3 a]; cbn [lits_len]; try reflexivity.
      cbn [b2_main1] in Hb. subst b2. cbn [items_wf] in Hwf. destruct Hwf as (_ & Hx & _).
      rewrite Hcand in Hx. discriminate. }
    rewrite Hnl. cbn [firstn skipn b2_main map rev]. rewrite Nat.sub_0_r. reflexivity.
  - rewrite (bcj2_scan_spec n its prev pos live [] Hwf Hn Hf).
    + rewrite app_nil_r. reflexivity.
    + intros b' m' Heq _. rewrite Hl in Heq. injection Heq as <- _. exact Et.
Qed.

Lemma spec_index_range prev b : isb prev -> 0 <= bcj2_spec_index prev b < 258.
Proof. unfold isb, bcj2_spec_index. intros H. destruct (b =? 232); [lia|]. destruct (b =? 233); lia. Qed.

Lemma prob_index_eq b prev : bcj2_prob_index b prev = bcj2_spec_index prev b.
Proof. reflexivity. Qed.

Lemma zlen_main_firstn j its : (j <= length its)%nat -> zlen (b2_main (firstn j its)) = Z.of_nat j.
Proof. intros H. unfold zlen, b2_main. rewrite map_length, firstn_length. lia. Qed.

Lemma wrap32_add_both a b : wrap32 (wrap32 a + wrap32 b) = wrap32 (a + b).
Proof. rewrite wrap32_add_l, wrap32_add_r. reflexivity. Qed.

Lemma rev_hd_last_byte prev l : match rev l with [] => prev | p :: _ => p end = last_byte prev l.
Proof. symmetry. apply last_byte_rev_hd. Qed.

(* the events of an item list whose literal prefix is skipped *)
Lemma split_lits n its prev pos : items_wf prev pos its -> isb prev ->
  b2_orig its = b2_main (firstn (lits_len n its) its) ++ b2_orig (skipn (lits_len n its) its) /\
  b2_events its = b2_events (skipn (lits_len n its) its) /\
  b2_call its = b2_call (skipn (lits_len n its) its) /\
  b2_jump its = b2_jump (skipn (lits_len n its) its).
Proof.
  intros Hwf Hp. destruct (lits_facts n its prev pos Hwf Hp) as (_ & _ & H3 & H4 & H5 & H6).
  set (j := lits_len n its) in *.
  assert (E : its = firstn j its ++ skipn j its) by (symmetry; apply firstn_skipn).
  msplit.
  - rewrite E at 1. rewrite b2_orig_app, H3. reflexivity.
  - rewrite E at 1. rewrite b2_events_app, H4. reflexivity.
  - rewrite E at 1. rewrite b2_call_app, H5. reflexivity.
  - rewrite E at 1. rewrite b2_jump_app, H6. reflexivity.
Qed.

(* ---------------------------------------------------------------------------------------------
   one round that starts between two items *)
Lemma loop_scan rc_out F f lim d o its prev pos e t :
  loop_prop rc_out F f ->
  b2core rc_out d F (mkCfg PhScan its prev pos e t) ->
  g_rc rc_out (bd_rc d) (bd_range d) (bd_code d) (f_rc F) e ->
  bcj2_is_32bit_stream (bd_state d) = false ->
  (Z.to_nat (sb_avail (bd_main d)) + 1 <= S f)%nat ->
  0 <= bd_dest d <= lim ->
  loop_post rc_out F lim d (mkCfg PhScan its prev pos e t) o (bcj2_loop (S f) lim d o).
Proof.
  intros IH Hcore Hrc Hst Hfuel Hdest.
  pose proof Hcore as (Hmain & Hcj & Henc & Hwf & Hprev & Hregs).
  cbn [c_ph c_its c_prev c_pos c_e c_t] in *.
  destruct Henc as (HI & Ht & Htab & Hout & Hsize & Hbytes).
  destruct Hmain as [Hm Hmfull].
  unfold g_regs in Hregs. cbn [c_ph c_prev c_pos] in Hregs. destruct Hregs as [Ht3 Hip].
  cbn [bcj2_loop]. rewrite Hst.
  destruct (normalize_spec _ _ _ _ Hrc HI) as [(Hn & Hav & Hlt) | (rb & r & cc & Hn & Hrbf & Hnorm & _)]; rewrite Hn.
  - (* the RC buffer is empty *)
    exists (bd_set_state d BCJ2_STREAM_RC), (mkCfg PhScan its prev pos e t), [].
    cbn [rev app]. split; [reflexivity|]. split.
    { split; [apply b2core_set_state; exact Hcore|]. split.
      - cbn [bd_set_state bd_state c_ph g_state]. unfold BCJ2_STREAM_RC. auto.
      - exact Hrc. }
    split; [reflexivity|]. cbn [bd_set_state bd_dest]. split; [unfold zlen; cbn; lia|]. split; [lia|].
    unfold exit_ok. cbn [c_ph bd_set_state bd_state bd_rc bd_range]. right. left. unfold BCJ2_STREAM_RC. auto.
  - pose proof (rc_norm_range _ _ _ _ _ Hnorm HI) as Hr.
    assert (Hrc1 : g_rc rc_out rb r cc (f_rc F) e) by (split; [exact Hrbf | apply rc_norm_ok; assumption]).
    cbv zeta. cbn [bd_set_rc bd_main bd_dest bd_t3 bd_ip bd_probs bd_state bd_range bd_code].
    unfold sb_full in Hmfull. pose proof (zlen_nonneg (sb_live (bd_main d))) as Hnn.
    replace (sb_avail (bd_main d) <? 0) with false by (symmetry; apply Z.ltb_ge; lia).
    destruct (Z.eqb_spec (sb_avail (bd_main d)) 0) as [Hav0|Hav0].
    + (* the MAIN buffer is empty *)
      exists (bd_set_state (bd_set_rc d rb r cc) BCJ2_STREAM_MAIN), (mkCfg PhScan its prev pos e t), [].
      cbn [rev app]. split; [reflexivity|]. split.
      { split; [apply b2core_set_state, b2core_set_rc; exact Hcore|]. split.
        - cbn [bd_set_state bd_state c_ph g_state]. unfold BCJ2_STREAM_MAIN. auto.
        - exact Hrc1. }
      split; [reflexivity|]. cbn [bd_set_state bd_set_rc bd_dest]. split; [unfold zlen; cbn; lia|]. split; [lia|].
      unfold exit_ok. cbn [c_ph bd_set_state bd_set_rc bd_state bd_main bd_range]. left. unfold BCJ2_STREAM_MAIN. msplit; [reflexivity | exact Hav0 | lia].
    + replace (lim <? bd_dest d) with false by (symmetry; apply Z.ltb_ge; lia).
      set (room := lim - bd_dest d) in *.
      set (num := if room <? sb_avail (bd_main d) then room else sb_avail (bd_main d)) in *.
      assert (Hnum : 0 <= num /\ num <= room /\ num <= sb_avail (bd_main d) /\ (num < sb_avail (bd_main d) -> num = room)).
      { unfold num. destruct (Z.ltb_spec room (sb_avail (bd_main d))); lia. }
      destruct (Z.eqb_spec num 0) as [Hnum0|Hnum0].
      * (* no room *)
        exists (bd_set_state (bd_set_rc d rb r cc) BCJ2_DEC_STATE_ORIG), (mkCfg PhScan its prev pos e t), [].
        cbn [rev app]. split; [reflexivity|]. split.
        { split; [apply b2core_set_state, b2core_set_rc; exact Hcore|]. split.
          - cbn [bd_set_state bd_state c_ph g_state]. unfold BCJ2_DEC_STATE_ORIG. auto.
          - exact Hrc1. }
        split; [reflexivity|]. cbn [bd_set_state bd_set_rc bd_dest]. split; [unfold zlen; cbn; lia|]. split; [lia|].
        unfold exit_ok. cbn [c_ph c_its bd_set_state bd_set_rc bd_state bd_dest]. right. right.
        unfold BCJ2_DEC_STATE_ORIG. split; [reflexivity|]. split; [lia|].
        intros ->. unfold b2_main in Hm. cbn [map] in Hm. apply app_eq_nil in Hm as [Hm _].
        rewrite Hm in Hmfull. unfold zlen in Hmfull. cbn in Hmfull. lia.
      * destruct (sb_live (bd_main d)) as [|b tl] eqn:Elive; [unfold zlen in Hmfull; cbn in Hmfull; lia|].
        assert (Hnlen : (Z.to_nat num <= length (b :: tl))%nat) by (unfold zlen in Hmfull; lia).
        pose proof (main_length _ _ _ Hm) as Hlen.
        rewrite Ht3.
        rewrite (scanned_spec (Z.to_nat num) its prev pos (b :: tl) b tl); try assumption; try lia; try reflexivity.
        2: { apply (main_firstn _ _ _ _ Hm Hnlen). }
        set (n := Z.to_nat num) in *.
        set (j := lits_len n its) in *.
        assert (Hjn : (j <= n)%nat) by apply lits_len_le.
        assert (Hnn' : Z.of_nat n = num) by (unfold n; lia).
        assert (Hjlen : (j <= length its)%nat) by apply lits_len_le_length.
        destruct (lits_facts n its prev pos Hwf Hprev) as (Hwf' & Hisb' & _).
        destruct (split_lits n its prev pos Hwf Hprev) as (Sorig & Sev & Scall & Sjump).
        fold j in Hwf', Hisb', Sorig, Sev, Scall, Sjump.
        set (delta := b2_main (firstn j its)) in *.
        assert (Hdl : zlen delta = Z.of_nat j) by (apply zlen_main_firstn; exact Hjlen).
        pose proof (main_skipn _ _ _ j Hm ltac:(lia)) as Hmj.
        destruct (n - j)%nat as [|mm] eqn:Enj.
        -- (* all n bytes are literals *)
           assert (Hj : j = n) by lia.
           destruct (rev delta) as [|lastb revtl] eqn:Erev.
           { apply (f_equal (@length Z)) in Erev. rewrite rev_length in Erev. unfold zlen in Hdl. cbn [length] in Erev. lia. }
           pose proof (rev_hd_last_byte prev delta) as Hlast. rewrite Erev in Hlast.
           cbn [Z.of_nat]. rewrite Z.sub_0_r. cbn [sb_avail].
           eexists _, (mkCfg PhScan (skipn j its) (last_byte prev delta) (pos + Z.of_nat j) e t), delta.
           split; [rewrite <- Erev; reflexivity|].
           assert (Hfull' : sb_avail (bd_main d) - num = zlen (skipn j (b :: tl))).
           { rewrite zlen_skipn by lia. rewrite Hmfull. lia. }
           split.
           { split.
             - unfold b2core. cbn [bd_set_main bd_set_rc bd_main bd_call bd_jump bd_probs c_ph c_its c_prev c_pos c_e c_t].
               msplit; try assumption.
               + unfold g_main. cbn [sb_live sb_avail]. split; [exact Hmj | exact Hfull'].
               + unfold g_cj in *. cbn [pend_word app] in *. rewrite <- Scall, <- Sjump. exact Hcj.
               + unfold g_enc. rewrite <- Sev. msplit; assumption.
               + unfold g_regs. cbn [c_ph c_prev c_pos bd_set_main bd_t3 bd_ip]. split; [exact Hlast|].
                 rewrite Hip, wrap32_add_both. f_equal. lia.
             - split.
               + cbn [bd_set_main bd_state c_ph g_state]. unfold BCJ2_STREAM_MAIN, BCJ2_DEC_STATE_ORIG.
                 destruct (sb_avail (bd_main d) - num =? 0); auto.
               + unfold g_rcph. cbn [c_ph c_e bd_set_main bd_set_rc bd_rc bd_range bd_code]. exact Hrc1. }
           split; [unfold rem_out; cbn [c_ph c_its]; exact Sorig|].
           cbn [bd_set_main bd_dest]. split; [lia|]. split; [lia|].
           unfold exit_ok. cbn [c_ph c_its bd_set_main bd_set_rc bd_state bd_main bd_dest bd_range sb_avail].
           destruct (Z.eqb_spec (sb_avail (bd_main d) - num) 0) as [Hz|Hz].
           ++ left. unfold BCJ2_STREAM_MAIN. msplit; [reflexivity | exact Hz | lia].
           ++ right. right. unfold BCJ2_DEC_STATE_ORIG. msplit; [reflexivity | lia |].
              intros Hnil. rewrite Hnil in Hmj. unfold b2_main in Hmj. cbn [map] in Hmj.
              apply app_eq_nil in Hmj as [Hmj _]. rewrite Hmj in Hfull'. unfold zlen in Hfull'. cbn in Hfull'. lia.
        -- assert (Hjlt : (j < n)%nat) by lia.
           destruct (lits_stop n its ltac:(fold j; lia) ltac:(lia)) as (it & rest & Hskip & Hnl). fold j in Hskip.
           rewrite Hskip in Hwf', Hmj, Sorig, Sev, Scall, Sjump.
           assert (Hskl : zlen (skipn j (b :: tl)) = zlen (b :: tl) - Z.of_nat j) by (apply zlen_skipn; lia).
           destruct (skipn j (b :: tl)) as [|b0 rest'] eqn:Esk.
           { unfold zlen in Hskl. cbn [length] in Hskl, Hnlen. cbn [length]. lia. }
           cbn [app] in Hmj. unfold b2_main in Hmj. cbn [map] in Hmj. injection Hmj as Hb0 Hmrest. fold (b2_main rest) in Hmrest.
           replace (num - Z.of_nat (S mm)) with (Z.of_nat j) by lia.
           rewrite rev_hd_last_byte. set (prevj := last_byte prev delta) in *.
           cbn [bd_set_main bd_set_rc bd_probs bd_range bd_code bd_state bd_main bd_dest].
           rewrite zlen_cons in Hskl.
           assert (Hfull' : sb_avail (bd_main d) - (Z.of_nat j + 1) = zlen rest') by lia.
           rewrite prob_index_eq.
           pose proof (spec_index_range prevj b0 Hisb') as Hidx.
           rewrite (proj2 Htab _ Hidx).
           set (idx := bcj2_spec_index prevj b0) in *.
           assert (Hav' : Z.of_nat j + 1 <= num) by lia.
           destruct it as [bl|b1 idx0|b1 idx0 ic r0 r1 r2 r3 a]; [discriminate Hnl| |].
           ++ (* an unconverted candidate: bit 0 *)
              cbn [b2_main1] in Hb0. subst b0.
              cbn [items_wf] in Hwf'. destruct Hwf' as (Hb1 & Hcand & Hidx0 & Hwf2). fold idx in Hidx0. subst idx0.
              assert (Sev' : b2_events its = EBit idx 0 :: b2_events rest) by (rewrite Sev; reflexivity).
              assert (Scall' : b2_call its = b2_call rest) by (rewrite Scall; reflexivity).
              assert (Sjump' : b2_jump its = b2_jump rest) by (rewrite Sjump; reflexivity).
              assert (Sorig' : b2_orig its = delta ++ b1 :: b2_orig rest) by (rewrite Sorig; reflexivity).
              clear Sev Scall Sjump Sorig.
              rewrite Sev' in Hout, Hsize. cbn [renc_events] in Hout. cbn [events_bits ev_bits] in Hsize.
              pose proof (events_bits_nonneg (b2_events rest)) as Hebn.
              destruct (encode_bit_ok e t idx 0 HI Ht (or_introl eq_refl) ltac:(lia)) as (I1 & T1 & S1 & _).
              pose proof (fun Hf => b2_bit_ok rc_out e t idx 0 r cc (sb_live rb ++ f_rc F) HI Ht (or_introl eq_refl) ltac:(lia) Hbytes Hnorm Hf) as Hbit.
              destruct (encode_bit e t idx 0) as [e1 t1] eqn:Eenc. cbn [fst snd] in *.
              assert (Hfut : renc_fut rc_out e1).
              { rewrite Hout. apply renc_output_fut; [exact I1 | exact T1 | apply b2_events_ok | lia]. }
              destruct (Hbit Hfut) as (r' & c' & p' & Hbb & Ht1 & Hp' & Hok'). clear Hbit.
              rewrite Hbb. cbn [obind Z.eqb].
              set (d3 := bd_set_bit _ r' c' _).
              set (c3 := mkCfg PhScan rest b1 (pos + Z.of_nat j + 1) e1 t1).
              assert (Hcore3 : b2core rc_out d3 F c3).
              { unfold b2core, d3, c3. cbn [bd_set_bit bd_set_main bd_set_rc bd_main bd_call bd_jump bd_probs c_ph c_its c_prev c_pos c_e c_t].
                msplit; try assumption.
                - unfold g_main. cbn [sb_live sb_avail]. split; [exact Hmrest | exact Hfull'].
                - unfold g_cj in *. cbn [pend_word app] in *. rewrite <- Scall', <- Sjump'. exact Hcj.
                - unfold g_enc. msplit; try assumption; [|lia]. rewrite Ht1. apply ptab_rel_upd; assumption.
                - unfold g_regs. cbn [c_ph c_prev c_pos bd_set_bit bd_set_main bd_t3 bd_ip]. split; [reflexivity|].
                  rewrite Hip, wrap32_add_both. f_equal. lia. }
              assert (Hrc3 : g_rc rc_out (bd_rc d3) (bd_range d3) (bd_code d3) (f_rc F) (c_e c3)).
              { unfold d3, c3. cbn [bd_set_bit bd_set_main bd_set_rc bd_rc bd_range bd_code c_e]. split; assumption. }
              assert (Hpre3 : loop_pre f d3 c3).
              { unfold loop_pre, d3, c3. cbn [c_ph bd_set_bit bd_set_main bd_set_rc bd_state bd_main sb_avail]. split; [exact Hst | lia]. }
              destruct (IH lim d3 c3 (b1 :: rev delta ++ o) Hcore3 Hrc3 Hpre3)
                as (d2 & c2 & delta2 & Hres & Hinv & Hrem2 & Hd2 & Hle & Hex).
              { unfold d3. cbn [bd_set_bit bd_set_main bd_dest]. lia. }
              exists d2, c2, (delta ++ [b1] ++ delta2).
              split.
              { rewrite Hres. rewrite !rev_app_distr. cbn [rev app]. rewrite <- !app_assoc. reflexivity. }
              split; [exact Hinv|]. split.
              { unfold rem_out at 1. cbn [c_ph c_its]. rewrite Sorig'. unfold rem_out at 1 in Hrem2. cbn [c3 c_ph c_its] in Hrem2.
                rewrite Hrem2. rewrite <- !app_assoc. reflexivity. }
              rewrite !zlen_app. change (zlen [b1]) with 1.
              unfold d3 in Hd2. cbn [bd_set_bit bd_set_main bd_dest] in Hd2.
              split; [lia|]. split; assumption.
           ++ (* a converted candidate: bit 1 *)
              cbn [b2_main1] in Hb0. subst b0.
              cbn [items_wf] in Hwf'. destruct Hwf' as (Hb1 & J0 & J1 & J2 & J3 & Hcand & Hidx0 & Hic & Ha & Hwf2). fold idx in Hidx0. subst idx0.
              assert (Sev' : b2_events its = EBit idx 1 :: b2_events rest) by (rewrite Sev; reflexivity).
              assert (Scall' : b2_call its = (if ic then be32 a else []) ++ b2_call rest) by (rewrite Scall; destruct ic; reflexivity).
              assert (Sjump' : b2_jump its = (if ic then [] else be32 a) ++ b2_jump rest) by (rewrite Sjump; destruct ic; reflexivity).
              assert (Sorig' : b2_orig its = delta ++ [b1; r0; r1; r2; r3] ++ b2_orig rest) by (rewrite Sorig; reflexivity).
              clear Sev Scall Sjump Sorig.
              rewrite Sev' in Hout, Hsize. cbn [renc_events] in Hout. cbn [events_bits ev_bits] in Hsize.
              pose proof (events_bits_nonneg (b2_events rest)) as Hebn.
              destruct (encode_bit_ok e t idx 1 HI Ht (or_intror eq_refl) ltac:(lia)) as (I1 & T1 & S1 & _).
              pose proof (fun Hf => b2_bit_ok rc_out e t idx 1 r cc (sb_live rb ++ f_rc F) HI Ht (or_intror eq_refl) ltac:(lia) Hbytes Hnorm Hf) as Hbit.
              destruct (encode_bit e t idx 1) as [e1 t1] eqn:Eenc. cbn [fst snd] in *.
              assert (Hfut : renc_fut rc_out e1).
              { rewrite Hout. apply renc_output_fut; [exact I1 | exact T1 | apply b2_events_ok | lia]. }
              destruct (Hbit Hfut) as (r' & c' & p' & Hbb & Ht1 & Hp' & Hok'). clear Hbit.
              rewrite Hbb. cbn [obind Z.eqb].
              set (d3 := bd_set_bit _ r' c' _).
              set (cW := mkCfg (PhWord ic r0 r1 r2 r3) rest r3 (pos + Z.of_nat j + 5) e1 t1).
              assert (Hcore3 : b2core rc_out d3 F cW).
              { unfold b2core, d3, cW. cbn [bd_set_bit bd_set_main bd_set_rc bd_main bd_call bd_jump bd_probs c_ph c_its c_prev c_pos c_e c_t].
                msplit; try assumption.
                - unfold g_main. cbn [sb_live sb_avail]. split; [exact Hmrest | exact Hfull'].
                - unfold g_cj in *. cbn [pend_word app] in Hcj. destruct Hcj as (C1 & C2 & C3 & C4).
                  rewrite Scall' in C1. rewrite Sjump' in C3. subst a.
                  destruct ic; cbn [pend_word Bool.eqb app] in *; msplit; assumption.
                - unfold g_enc. msplit; try assumption; [|lia]. rewrite Ht1. apply ptab_rel_upd; assumption.
                - unfold g_regs. cbn [c_ph c_prev c_pos bd_set_bit bd_set_main bd_t3 bd_ip].
                  msplit; try assumption; try reflexivity; [symmetry; exact Hic|].
                  rewrite Hip, wrap32_add_both. f_equal. lia. }
              assert (Hrc3 : g_rc rc_out (bd_rc d3) (bd_range d3) (bd_code d3) (f_rc F) e1).
              { unfold d3. cbn [bd_set_bit bd_set_main bd_set_rc bd_rc bd_range bd_code]. split; assumption. }
              destruct (after_conv rc_out F f lim d3 (b1 :: rev delta ++ o) ic r0 r1 r2 r3 rest r3 (pos + Z.of_nat j + 5) e1 t1 IH Hcore3 Hrc3)
                as (d2 & c2 & delta2 & Hres & Hinv & Hrem2 & Hd2 & Hle & Hex).
              { unfold d3. cbn [bd_set_bit bd_set_main bd_state]. exact Hst. }
              { unfold d3. cbn [bd_set_bit bd_set_main bd_set_rc bd_main sb_avail]. lia. }
              { unfold d3. cbn [bd_set_bit bd_set_main bd_dest]. lia. }
              exists d2, c2, (delta ++ [b1] ++ delta2).
              split.
              { rewrite Hres. rewrite !rev_app_distr. cbn [rev app]. rewrite <- !app_assoc. reflexivity. }
              split; [exact Hinv|]. split.
              { unfold rem_out at 1. cbn [c_ph c_its]. rewrite Sorig'. unfold rem_out at 1 in Hrem2. cbn [c_ph c_its] in Hrem2.
                rewrite <- !app_assoc. cbn [app]. cbn [app] in Hrem2. rewrite Hrem2. reflexivity. }
              rewrite !zlen_app. change (zlen [b1]) with 1.
              unfold d3 in Hd2. cbn [bd_set_bit bd_set_main bd_dest] in Hd2.
              split; [lia|]. split; assumption.
Qed.

(* ---------------------------------------------------------------------------------------------
   the loop *)
Theorem loop_spec rc_out F : forall fuel, loop_prop rc_out F fuel.
Proof.
  induction fuel as [|f IH]; intros lim d c o Hcore Hrc Hpre Hdest.
  - unfold loop_pre in Hpre. destruct (c_ph c); try contradiction; destruct Hpre as [_ H]; lia.
  - destruct c as [ph its prev pos e t]. unfold loop_pre in Hpre. cbn [c_ph c_e] in *.
    destruct ph as [k| |ic r0 r1 r2 r3|k r0 r1 r2 r3]; try contradiction.
    + destruct Hpre as [Hst Hf]. apply loop_scan; assumption.
    + destruct Hpre as [Hst Hf].
      cbn [bcj2_loop]. rewrite Hst.
      replace (bcj2_is_32bit_stream (if ic then 1 else 2)) with true by (destruct ic; reflexivity).
      assert (Hcore' : b2core rc_out (bd_set_state d BCJ2_DEC_STATE_OK) F (mkCfg (PhWord ic r0 r1 r2 r3) its prev pos e t))
        by (apply b2core_set_state; exact Hcore).
      destruct (after_conv rc_out F f lim (bd_set_state d BCJ2_DEC_STATE_OK) o ic r0 r1 r2 r3 its prev pos e t IH Hcore')
        as (d2 & c2 & delta2 & Hres & Hrest); try assumption.
      { reflexivity. }
      { cbn [bd_set_state bd_main]. lia. }
      exists d2, c2, delta2. split; [exact Hres | exact Hrest].
Qed.
