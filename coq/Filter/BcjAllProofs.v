(* Filter/BcjAllProofs.v — the stream theorems for all eight architectures. *)
From LzVerif Require Import Base.Bytes Filter.Bcj Filter.BcjStream Filter.BcjArithProofs
  Filter.BcjWordProofs Filter.BcjCodeProofs Filter.BcjStreamProofs Filter.BcjInstProofs
  Filter.BcjWinProofs Filter.BcjRiscvProofs Filter.BcjIa64Proofs Filter.BcjX86Proofs Filter.BcjX86InvProofs Filter.BcjRiscvInvProofs.
Ltac Zify.zify_post_hook ::= Z.div_mod_to_equations.

Theorem code_facts_all a enc : code_facts a enc.
Proof.
  destruct a.
  - apply code_facts_x86.
  - apply code_facts_arm.
  - apply code_facts_armthumb.
  - apply code_facts_arm64.
  - apply code_facts_ppc.
  - apply code_facts_sparc.
  - apply code_facts_ia64.
  - apply code_facts_riscv.
Qed.

(* a freshly constructed filter given no data does nothing *)
Lemma init_nil a enc start : bcj_code a enc (bcj_init a start) [] = Ok (bcj_init a start, [], []).
Proof.
  assert (E : u64 (f_pos (bcj_init a start) + 0) = f_pos (bcj_init a start)).
  { unfold bcj_init. cbn [f_pos]. rewrite Z.add_0_r. unfold u64. apply Z.mod_mod. lia. }
  destruct a; cbn [bcj_code]; unfold pure_code, out_code, x86_code; cbn [go4 thumb_go ia64_go riscv_go zlen length Z.of_nat Z.ltb Z.compare obind];
    try reflexivity; rewrite E; reflexivity.
Qed.

(* C07, BCJReader: every inner chunking, every history of destination sizes (zeros included) *)
Theorem bcj_reader_any_sizes : forall a start parts sizes,
  bytes_ok (concat parts) = true -> Forall (fun n => 0 <= n) sizes ->
  exists F rs' inner',
    bcj_stream a false start (concat parts) = Ok F /\
    bcj_read_calls (bcj_read_fuel (data_script parts)) a (bcj_reader_new a start) (data_script parts) sizes =
      Ok (firstn (Z.to_nat (fold_right Z.add 0 sizes)) F, [], rs', inner').
Proof.
  intros a start parts sizes Hb Hs.
  destruct (code_facts_all a false) as (Htot & Hresp & Hchunk).
  destruct (Htot (bcj_init a start) (concat parts) Hb) as (stS & oS & rS & HS & _).
  destruct (reader_any_sizes a (conj Htot (conj Hresp Hchunk)) (bcj_init a start) (init_nil a false start)
              parts sizes stS oS rS Hb Hs HS) as (rs' & inner' & E).
  exists (oS ++ rS), rs', inner'. split; [|exact E].
  unfold bcj_stream. rewrite HS. reflexivity.
Qed.

(* a zero-length read changes nothing *)
Theorem bcj_reader_zero_read : forall fuel a st inner, bcj_read fuel a st inner 0 = Ok ([], None, st, inner).
Proof. reflexivity. Qed.

(* BCJReader over an inner reader that fails now and then, read by a loop that repeats a call
   failing with Interrupted *)
Theorem bcj_reader_retry : forall a start inner sizes,
  script_ok inner -> bytes_ok (script_data inner) = true -> Forall (fun s => 0 < s) sizes ->
  exists F out e,
    bcj_stream a false start (script_data inner) = Ok F /\
    bcj_dec_script a start inner sizes = Ok (out, e) /\
    (exists Y, F = out ++ Y) /\
    (e = None -> out = F) /\
    (forall c, e = Some c -> c <> E_INTERRUPTED /\ In c (script_errs inner)) /\
    (Forall (fun c => c = E_INTERRUPTED) (script_errs inner) -> e = None /\ out = F).
Proof.
  intros a start inner sizes Hok Hb Hs.
  destruct (code_facts_all a false) as (Htot & Hresp & Hchunk).
  destruct (Htot (bcj_init a start) (script_data inner) Hb) as (stS & oS & rS & HS & _).
  destruct (reader_drive a (conj Htot (conj Hresp Hchunk)) (bcj_init a start) (init_nil a false start)
              inner sizes stS oS rS Hok Hb Hs HS) as (out & e & E & H1 & H2 & H3 & H4).
  exists (oS ++ rS), out, e. split; [unfold bcj_stream; rewrite HS; reflexivity|].
  split; [exact E|]. auto.
Qed.

(* C07, BCJWriter, outside the known finding: if no write call leaves an unconverted tail while
   more data follows, the bytes that reach the sink are the stream-level result *)
Theorem bcj_writer_partition_known : forall a start parts,
  bytes_ok (concat parts) = true -> no_midstream_tail a (bcj_init a start) parts ->
  exists F, bcj_stream a true start (concat parts) = Ok F /\ bcj_enc_parts a start parts = Ok F.
Proof.
  intros a start parts Hb Hn.
  destruct (code_facts_all a true) as (Htot & _ & Hchunk).
  destruct (writer_partition_known a Htot Hchunk parts (bcj_init a start) Hb Hn) as (f1 & f2 & o & r & Ew & Ec).
  exists (o ++ r). unfold bcj_stream, bcj_enc_parts. rewrite Ec, Ew. split; reflexivity.
Qed.

(* ------------------------------------------------------------------------------------------ *)
(* From the inverse at the level of `code` to the round trip BCJWriter (one write) -> BCJReader
   (any chunking of the filtered stream, any history of reads). *)
Definition code_inverse (a : arch) : Prop :=
  forall start buf, start mod bcj_align a = 0 -> bytes_ok buf = true ->
  exists st' out rest,
    bcj_code a true (bcj_init a start) buf = Ok (st', out, rest) /\
    bcj_code a false (bcj_init a start) (out ++ rest) = Ok (st', firstn (length out) buf, rest) /\
    firstn (length out) buf ++ rest = buf /\ bytes_ok out = true.

Lemma stream_inverse a : code_inverse a ->
  forall start data, start mod bcj_align a = 0 -> bytes_ok data = true ->
  exists enc, bcj_stream a true start data = Ok enc /\ bcj_stream a false start enc = Ok data /\
              bytes_ok enc = true /\ length enc = length data.
Proof.
  intros Hinv start data Hal Hb.
  destruct (Hinv start data Hal Hb) as (st' & out & rest & E1 & E2 & E3 & Hbo).
  exists (out ++ rest). unfold bcj_stream. rewrite E1, E2. cbn [obind]. split; [reflexivity|]. split; [rewrite E3; reflexivity|].
  assert (Hbr : bytes_ok rest = true).
  { rewrite <- E3 in Hb. apply bytes_ok_app in Hb. tauto. }
  split; [apply bytes_ok_app; auto|].
  assert (Hlo : (length out <= length data)%nat).
  { destruct (code_facts_all a true) as (Htot & _).
    destruct (Htot (bcj_init a start) data Hb) as (s & o & r & E & _ & Hl & _).
    rewrite E1 in E. injection E as <- <- <-. lia. }
  transitivity (length (firstn (length out) data ++ rest)); [|rewrite E3; reflexivity].
  rewrite !app_length, firstn_length. lia.
Qed.

Theorem bcj_roundtrip a : code_inverse a ->
  forall start data, start mod bcj_align a = 0 -> bytes_ok data = true ->
  exists enc,
    bcj_enc_parts a start [data] = Ok enc /\ length enc = length data /\
    forall parts sizes, concat parts = enc -> Forall (fun n => 0 <= n) sizes ->
      Z.of_nat (length data) <= fold_right Z.add 0 sizes ->
      exists rs' inner',
        bcj_read_calls (bcj_read_fuel (data_script parts)) a (bcj_reader_new a start) (data_script parts) sizes =
          Ok (data, [], rs', inner').
Proof.
  intros Hinv start data Hal Hb.
  destruct (stream_inverse a Hinv start data Hal Hb) as (enc & Ee & Ed & Hbe & Hl).
  exists enc. split.
  { unfold bcj_enc_parts, bcj_stream in *. cbn [bcj_write_calls]. unfold bcj_write.
    destruct (bcj_code a true (bcj_init a start) data) as [[[f' o] r]| | |]; cbn [obind] in *; try discriminate.
    rewrite app_nil_r. exact Ee. }
  split; [exact Hl|].
  intros parts sizes Hc Hs Hsum.
  destruct (bcj_reader_any_sizes a start parts sizes ltac:(rewrite Hc; exact Hbe) Hs) as (F & rs' & inner' & EF & Er).
  rewrite Hc, Ed in EF. injection EF as <-.
  exists rs', inner'. rewrite Er. rewrite firstn_all2 by lia. reflexivity.
Qed.

Lemma code_inverse_arm : code_inverse ARM.
Proof. intros start buf. apply bcj_inverse_arm. Qed.
Lemma code_inverse_armthumb : code_inverse ARMT.
Proof. intros start buf. apply bcj_inverse_armthumb. Qed.
Lemma code_inverse_arm64 : code_inverse ARM64.
Proof. intros start buf. apply bcj_inverse_arm64. Qed.
Lemma code_inverse_ppc : code_inverse PPC.
Proof. intros start buf. apply bcj_inverse_ppc. Qed.
Lemma code_inverse_sparc : code_inverse SPARC.
Proof. intros start buf. apply bcj_inverse_sparc. Qed.
Lemma code_inverse_ia64 : code_inverse IA64.
Proof. intros start buf. apply bcj_inverse_ia64. Qed.
Lemma code_inverse_x86 : code_inverse X86.
Proof. intros start buf _. apply bcj_inverse_x86. Qed.

Lemma code_inverse_riscv : code_inverse RISCV.
Proof. intros start buf. apply bcj_inverse_riscv. Qed.

Lemma code_inverse_all a : code_inverse a.
Proof.
  destruct a.
  - exact code_inverse_x86.
  - exact code_inverse_arm.
  - exact code_inverse_armthumb.
  - exact code_inverse_arm64.
  - exact code_inverse_ppc.
  - exact code_inverse_sparc.
  - exact code_inverse_ia64.
  - exact code_inverse_riscv.
Qed.

(* all eight architectures *)
Theorem bcj_inverse_all : forall a start buf, start mod bcj_align a = 0 -> bytes_ok buf = true ->
  exists st' out rest,
    bcj_code a true (bcj_init a start) buf = Ok (st', out, rest) /\
    bcj_code a false (bcj_init a start) (out ++ rest) = Ok (st', firstn (length out) buf, rest) /\
    firstn (length out) buf ++ rest = buf /\ bytes_ok out = true.
Proof. exact code_inverse_all. Qed.

Theorem bcj_roundtrip_all : forall a start data, start mod bcj_align a = 0 -> bytes_ok data = true ->
  exists enc,
    bcj_enc_parts a start [data] = Ok enc /\ length enc = length data /\
    forall parts sizes, concat parts = enc -> Forall (fun n => 0 <= n) sizes ->
      Z.of_nat (length data) <= fold_right Z.add 0 sizes ->
      exists rs' inner',
        bcj_read_calls (bcj_read_fuel (data_script parts)) a (bcj_reader_new a start) (data_script parts) sizes =
          Ok (data, [], rs', inner').
Proof. intros a. apply bcj_roundtrip. apply code_inverse_all. Qed.
