(* Filter/BcjWinProofs.v — loops of the shape "while at least K bytes are left: look at the next K
   bytes and the position, rewrite and step over 1..K of them" (RISC-V: K = 8, IA-64: K = 16):
   the facts of Filter/BcjStreamProofs.v once and for all, from a one-step unfolding of the loop. *)
From LzVerif Require Import Base.Bytes Filter.Bcj Filter.BcjStream Filter.BcjArithProofs
  Filter.BcjWordProofs Filter.BcjCodeProofs Filter.BcjStreamProofs.
Ltac Zify.zify_post_hook ::= Z.div_mod_to_equations.

Section Win.
Variable K : nat.
Hypothesis HK : (0 < K <= 16)%nat.
Variable step : Z -> list Z -> outcome (nat * list Z).
Variable go : Z -> Z -> list Z -> outcome (list Z * list Z).

Hypothesis go_short : forall pos i l, (length l < K)%nat -> go pos i l = Ok ([], l).
Hypothesis go_step : forall pos i l, (K <= length l)%nat ->
  go pos i l =
  (do s <- step (pc32 pos i) (firstn K l);
   let '(n, e) := s in
   do r <- go pos (i + Z.of_nat n) (skipn n l);
   let '(o, rest) := r in Ok (e ++ o, rest)).
Hypothesis step_ok : forall pc w, length w = K -> bytes_ok w = true ->
  exists n e, step pc w = Ok (n, e) /\ (1 <= n <= K)%nat /\ length e = n /\ bytes_ok e = true.

Lemma win_total : forall m l pos i, (length l <= m)%nat -> bytes_ok l = true ->
  exists o r, go pos i l = Ok (o, r) /\ skipn (length o) l = r /\
              (length o + length r = length l)%nat /\ (length r < K)%nat /\ bytes_ok o = true.
Proof.
  induction m as [|m IH]; intros l pos i Hm Hb.
  - exists [], l. rewrite go_short by lia. repeat split; auto; lia.
  - destruct (Nat.lt_ge_cases (length l) K) as [Hs|Hs].
    + exists [], l. rewrite go_short by assumption. repeat split; auto.
    + rewrite go_step by assumption.
      destruct (step_ok (pc32 pos i) (firstn K l)) as (n & e & Es & Hn & He & Hbe).
      { rewrite firstn_length. lia. }
      { apply bytes_ok_firstn. assumption. }
      rewrite Es. cbn [obind].
      destruct (IH (skipn n l) pos (i + Z.of_nat n)) as (o & r & Eg & Hr & Hl & Hrk & Hbo).
      { rewrite skipn_length. lia. }
      { apply bytes_ok_skipn. assumption. }
      rewrite Eg. cbn [obind]. exists (e ++ o), r. split; [reflexivity|].
      rewrite skipn_length in Hl.
      split; [rewrite app_length, He, <- skipn_skipn'; exact Hr|].
      split; [rewrite app_length; lia|]. split; [assumption|].
      apply bytes_ok_app. split; assumption.
Qed.

Lemma win_ext : forall m l pos1 i1 pos2 i2, (length l <= m)%nat -> bytes_ok l = true ->
  (forall j, pc32 pos1 (i1 + j) = pc32 pos2 (i2 + j)) -> go pos1 i1 l = go pos2 i2 l.
Proof.
  induction m as [|m IH]; intros l pos1 i1 pos2 i2 Hm Hb H.
  - rewrite !go_short by lia. reflexivity.
  - destruct (Nat.lt_ge_cases (length l) K) as [Hs|Hs].
    + rewrite !go_short by assumption. reflexivity.
    + rewrite !go_step by assumption.
      pose proof (H 0) as H0. rewrite !Z.add_0_r in H0. rewrite H0.
      destruct (step_ok (pc32 pos2 i2) (firstn K l)) as (n & e & Es & Hn & He & Hbe).
      { rewrite firstn_length. lia. }
      { apply bytes_ok_firstn. assumption. }
      rewrite Es. cbn [obind].
      rewrite (IH (skipn n l) pos1 (i1 + Z.of_nat n) pos2 (i2 + Z.of_nat n)); [reflexivity| | |].
      * rewrite skipn_length. lia.
      * apply bytes_ok_skipn. assumption.
      * intros j. replace (i1 + Z.of_nat n + j) with (i1 + (Z.of_nat n + j)) by lia.
        replace (i2 + Z.of_nat n + j) with (i2 + (Z.of_nat n + j)) by lia. apply H.
Qed.

Lemma win_app : forall m A B pos i oA rA, (length A <= m)%nat -> bytes_ok A = true ->
  go pos i A = Ok (oA, rA) ->
  go pos i (A ++ B) =
  (do r <- go pos (i + zlen oA) (rA ++ B); let '(oB, rB) := r in Ok (oA ++ oB, rB)).
Proof.
  induction m as [|m IH]; intros A B pos i oA rA Hm Hb HA.
  - rewrite go_short in HA by lia. injection HA as <- <-.
    rewrite zlen_nil, Z.add_0_r. destruct (go pos i (A ++ B)) as [[o r]| | |]; reflexivity.
  - destruct (Nat.lt_ge_cases (length A) K) as [Hs|Hs].
    + rewrite go_short in HA by assumption. injection HA as <- <-.
      rewrite zlen_nil, Z.add_0_r. destruct (go pos i (A ++ B)) as [[o r]| | |]; reflexivity.
    + rewrite go_step in HA by assumption.
      rewrite go_step by (rewrite app_length; lia).
      rewrite firstn_app. replace (K - length A)%nat with 0%nat by lia. cbn [firstn]. rewrite app_nil_r.
      destruct (step_ok (pc32 pos i) (firstn K A)) as (n & e & Es & Hn & He & Hbe).
      { rewrite firstn_length. lia. }
      { apply bytes_ok_firstn. assumption. }
      rewrite Es in HA |- *. cbn [obind] in HA |- *.
      destruct (go pos (i + Z.of_nat n) (skipn n A)) as [[o' r']| | |] eqn:Eg; try discriminate.
      cbn [obind] in HA. injection HA as <- <-.
      rewrite skipn_app. replace (n - length A)%nat with 0%nat by lia. cbn [skipn].
      rewrite (IH (skipn n A) B pos (i + Z.of_nat n) o' r'); [| |apply bytes_ok_skipn; assumption|exact Eg].
      2:{ rewrite skipn_length. lia. }
      replace (i + Z.of_nat n + zlen o') with (i + zlen (e ++ o')) by (rewrite zlen_app; unfold zlen; lia).
      destruct (go pos (i + zlen (e ++ o')) (r' ++ B)) as [[oB rB]| | |]; cbn [obind]; try reflexivity.
      rewrite app_assoc. reflexivity.
Qed.

End Win.

(* the facts for a filter whose `code` is [out_code go] with such a loop *)
Lemma win_code_facts a enc K step go :
  (0 < K <= 16)%nat ->
  (forall pos i l, (length l < K)%nat -> go pos i l = Ok ([], l)) ->
  (forall pos i l, (K <= length l)%nat ->
     go pos i l =
     (do s <- step (pc32 pos i) (firstn K l);
      let '(n, e) := s in
      do r <- go pos (i + Z.of_nat n) (skipn n l);
      let '(o, rest) := r in Ok (e ++ o, rest))) ->
  (forall pc w, length w = K -> bytes_ok w = true ->
     exists n e, step pc w = Ok (n, e) /\ (1 <= n <= K)%nat /\ length e = n /\ bytes_ok e = true) ->
  (forall st buf, bcj_code a enc st buf = out_code go st buf) ->
  code_facts a enc.
Proof.
  intros HK Hshort Hstep Hok Hc. split; [|split].
  - intros st buf Hb. rewrite Hc. unfold out_code.
    destruct (win_total K HK step go Hshort Hstep Hok (length buf) buf (f_pos st) 0 (le_n _) Hb)
      as (o & r & Eg & Hr & Hl & Hrk & Hbo).
    rewrite Eg. cbn [obind]. eexists _, o, r. split; [reflexivity|].
    split; [exact Hr|]. split; [exact Hl|]. split; [lia|exact Hbo].
  - intros st1 st2 buf s1' o r [Hp Hm] Hb. rewrite !Hc. unfold out_code. rewrite <- Hp.
    destruct (go (f_pos st1) 0 buf) as [[o' r']| | |]; cbn [obind]; try discriminate.
    intros E. injection E as <- <- <-.
    eexists. split; [reflexivity|]. unfold feq. cbn [f_pos f_mask]. split; [reflexivity|exact Hm].
  - intros st A B st1 oA rA st2 oB rB HbA HbB. rewrite !Hc. unfold out_code.
    destruct (go (f_pos st) 0 A) as [[oA' rA']| | |] eqn:EA; cbn [obind]; try discriminate.
    intros E. injection E as <- <- <-. cbn [f_pos f_mask].
    destruct (go (u64 (f_pos st + zlen oA')) 0 (rA' ++ B)) as [[oB' rB']| | |] eqn:EB; cbn [obind]; try discriminate.
    intros E. injection E as <- <- <-.
    rewrite (win_app K HK step go Hshort Hstep Hok (length A) A B (f_pos st) 0 oA' rA' (le_n _) HbA EA).
    destruct (win_total K HK step go Hshort Hstep Hok (length A) A (f_pos st) 0 (le_n _) HbA)
      as (o & r & Eg & Hr & _).
    rewrite EA in Eg. injection Eg as <- <-.
    assert (HbR : bytes_ok (rA' ++ B) = true).
    { apply bytes_ok_app. split; [rewrite <- Hr; apply bytes_ok_skipn; assumption|assumption]. }
    assert (Eext : go (f_pos st) (0 + zlen oA') (rA' ++ B) = go (u64 (f_pos st + zlen oA')) 0 (rA' ++ B)).
    { apply (win_ext K HK step go Hshort Hstep Hok (length (rA' ++ B))); [lia|exact HbR|].
      intros j. rewrite pc32_shift. f_equal; lia. }
    rewrite Eext, EB. cbn [obind].
    eexists. split; [reflexivity|]. unfold feq. cbn [f_pos f_mask]. split; [|reflexivity].
    rewrite zlen_app. unfold u64. rewrite Zplus_mod_idemp_l. f_equal. lia.
Qed.
