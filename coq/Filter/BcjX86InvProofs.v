(* Filter/BcjX86InvProofs.v — the x86 filter is its own inverse.
   * The decoder's conversion loop undoes the encoder's, modulo 2^25 (the operand is stored as a
     sign-extended 25-bit number), and the byte protected by the mask is not 00/FF before nor after.
   * Lookahead: a byte within the next four keeps its 00/FF class through all later conversions of
     the encoder as long as the mask records the opcode it is tested for - so when the encoder only
     steps over an opcode, the decoder, looking at the already converted bytes, takes the same
     decision.
   * With these, decoder and encoder run in lockstep (same position, same prev_pos, same
     prev_mask at every step). *)
From LzVerif Require Import Base.Bytes Filter.Bcj Filter.BcjStream Filter.BcjArithProofs
  Filter.BcjWordProofs Filter.BcjCodeProofs Filter.BcjStreamProofs Filter.BcjX86Proofs.
Ltac Zify.zify_post_hook ::= Z.div_mod_to_equations.

Lemma is_zf_true b : is_zf b = true <-> b = 0 \/ b = 255.
Proof. unfold is_zf. rewrite orb_true_iff, !Z.eqb_eq. tauto. Qed.
Lemma is_zf_false b : is_zf b = false <-> b <> 0 /\ b <> 255.
Proof. unfold is_zf. rewrite orb_false_iff, !Z.eqb_neq. tauto. Qed.

(* the conversion loop of the decoder undoes that of the encoder, modulo 2^25 (all that is stored) *)
Lemma conv_val_inverse p k src S :
  (k = 8 \/ k = 16 \/ k = 24) -> is_zf (tb k src) = false ->
  S mod 33554432 = x86_conv_val true p k src mod 33554432 ->
  x86_conv_val false p k S mod 33554432 = src mod 33554432.
Proof.
  intros Hk Hsrc HS. apply is_zf_false in Hsrc. unfold x86_conv_val in *. cbv zeta in *.
  destruct (is_zf (tb k (addsub true src p))) eqn:E1;
    destruct (is_zf (tb k (addsub false S p))) eqn:E2.
  all: try apply is_zf_true in E1; try apply is_zf_false in E1; try apply is_zf_true in E2; try apply is_zf_false in E2.
  all: unfold tb, addsub, s32 in *.
  all: destruct Hk as [-> | [-> | ->]].
  all: try change (2 ^ (8 - 8)) with 1 in *; try change (2 ^ (16 - 8)) with 256 in *; try change (2 ^ (24 - 8)) with 65536 in *.
  all: try change (2 ^ 8) with 256 in *; try change (2 ^ 16) with 65536 in *; try change (2 ^ 24) with 16777216 in *.
  all: lia.
Qed.

(* the stored operand as a signed 25-bit number *)
Lemma x86_src_facts b1 b2 b3 b4 : byte b1 -> byte b2 -> byte b3 -> byte b4 -> is_zf b4 = true ->
  let src := x86_src b1 b2 b3 b4 in
  -16777216 <= src < 16777216 /\ src mod 256 = b1 /\ (src / 256) mod 256 = b2 /\
  (src / 65536) mod 256 = b3 /\ 255 * ((src / 16777216) mod 2) = b4.
Proof.
  unfold byte. intros H1 H2 H3 H4 Hz. apply is_zf_true in Hz. cbv zeta. unfold x86_src, s32.
  destruct Hz as [-> | ->]; repeat split; lia.
Qed.

Lemma x86_stored d :
  let c1 := d mod 256 in let c2 := (d / 256) mod 256 in let c3 := (d / 65536) mod 256 in
  let c4 := 255 * ((d / 16777216) mod 2) in
  byte c1 /\ byte c2 /\ byte c3 /\ byte c4 /\ is_zf c4 = true /\
  x86_src c1 c2 c3 c4 mod 33554432 = d mod 33554432.
Proof.
  cbv zeta. unfold byte, x86_src, s32. repeat split; try lia.
  apply is_zf_true. lia.
Qed.

Lemma x86_blocked_tb m d : (m = 0 \/ m = 1 \/ m = 2 \/ m = 4) ->
  x86_blocked m (d mod 256) ((d / 256) mod 256) ((d / 65536) mod 256) =
  if m =? 0 then false else is_zf (tb (mask_k m) d).
Proof.
  intros Hm. unfold x86_blocked, mask_k, tb.
  destruct Hm as [-> | [-> | [-> | ->]]]; cbn [Z.eqb Pos.eqb]; try reflexivity.
  change (2 ^ (8 - 8)) with 1. rewrite Z.div_1_r. reflexivity.
Qed.

Lemma x86_conv_step_inverse p m b1 b2 b3 b4 :
  byte b1 -> byte b2 -> byte b3 -> byte b4 -> is_zf b4 = true ->
  (m = 0 \/ m = 1 \/ m = 2 \/ m = 4) -> x86_blocked m b1 b2 b3 = false ->
  let dest := x86_dest true p m (x86_src b1 b2 b3 b4) in
  let c1 := dest mod 256 in let c2 := (dest / 256) mod 256 in let c3 := (dest / 65536) mod 256 in
  let c4 := 255 * ((dest / 16777216) mod 2) in
  byte c1 /\ byte c2 /\ byte c3 /\ byte c4 /\ is_zf c4 = true /\ x86_blocked m c1 c2 c3 = false /\
  let dest' := x86_dest false p m (x86_src c1 c2 c3 c4) in
  dest' mod 256 = b1 /\ (dest' / 256) mod 256 = b2 /\ (dest' / 65536) mod 256 = b3 /\
  255 * ((dest' / 16777216) mod 2) = b4.
Proof.
  intros H1 H2 H3 H4 Hz Hm Hbl. cbv zeta.
  pose proof (x86_src_facts b1 b2 b3 b4 H1 H2 H3 H4 Hz) as Hs. cbv zeta in Hs.
  destruct Hs as (Hr & S1 & S2 & S3 & S4).
  set (src := x86_src b1 b2 b3 b4) in *.
  set (dest := x86_dest true p m src).
  pose proof (x86_stored dest) as Hst. cbv zeta in Hst. destruct Hst as (C1 & C2 & C3 & C4 & Cz & CS).
  set (S := x86_src (dest mod 256) ((dest / 256) mod 256) ((dest / 65536) mod 256) (255 * ((dest / 16777216) mod 2))) in *.
  (* the byte protected by the mask is not 00/FF, before and after *)
  assert (Hsrcblk : x86_blocked m b1 b2 b3 = (if m =? 0 then false else is_zf (tb (mask_k m) src))).
  { rewrite <- S1, <- S2, <- S3. apply x86_blocked_tb. assumption. }
  rewrite Hbl in Hsrcblk.
  assert (Hcore : (m = 0 /\ dest = addsub true src p) \/
                  (m <> 0 /\ is_zf (tb (mask_k m) src) = false /\ dest = x86_conv_val true p (mask_k m) src /\
                   is_zf (tb (mask_k m) dest) = false)).
  { unfold dest, x86_dest. destruct (Z.eqb_spec m 0) as [->|Hn0]; [left; auto|right].
    split; [assumption|]. split; [auto|]. split; [reflexivity|].
    destruct (x86_conv_ok true p m src ltac:(lia) ltac:(auto)) as [_ Hok]. exact Hok. }
  split; [assumption|]. split; [assumption|]. split; [assumption|]. split; [assumption|]. split; [assumption|].
  split.
  { rewrite x86_blocked_tb by assumption. destruct Hcore as [[-> _]|(Hn0 & _ & _ & Hok)]; [reflexivity|].
    destruct (Z.eqb_spec m 0); [contradiction|exact Hok]. }
  assert (HD : x86_dest false p m S mod 33554432 = src mod 33554432).
  { unfold x86_dest. destruct Hcore as [[-> Ed]|(Hn0 & Hsz & Ed & _)].
    - cbn [Z.eqb]. rewrite Ed in CS. unfold addsub, s32 in *. lia.
    - destruct (Z.eqb_spec m 0); [contradiction|].
      apply conv_val_inverse; [unfold mask_k; destruct Hm as [-> | [-> | [-> | ->]]]; cbn [Z.eqb Pos.eqb]; auto; lia|assumption|].
      rewrite <- Ed. exact CS. }
  set (D := x86_dest false p m S) in *. clearbody D dest S. lia.
Qed.

(* ------------------------------------------------------------------------------------------ *)
(* the effective mask only depends on prev_mask mod 8 and takes values 0..7 *)
Lemma x86_eff_mod8 d pm : 1 <= d -> x86_eff d pm = x86_eff d (pm mod 8).
Proof.
  intros Hd. rewrite !eff_cases by assumption.
  destruct (d =? 1); [lia|]. destruct (d =? 2); [lia|]. destruct (d =? 3); [lia|reflexivity].
Qed.
Lemma x86_eff_range d pm : 0 <= x86_eff d pm < 8.
Proof. unfold x86_eff. destruct (3 <? d); lia. Qed.

(* finite sweeps over masks 0..7, distances 1..3, bit numbers 0..2 *)
Lemma sweep3 (P : Z -> Z -> Z -> bool) :
  forallb (fun q => forallb (fun a => forallb (fun b => P q a b) (zrange 0 4)) (zrange 0 8)) (zrange 0 8) = true ->
  forall q a b, 0 <= q < 8 -> 0 <= a < 8 -> 0 <= b < 4 -> P q a b = true.
Proof.
  intros H q a b Hq Ha Hb. rewrite forallb_forall in H.
  specialize (H q (zrange_in 0 8 q ltac:(cbn; lia))). rewrite forallb_forall in H.
  specialize (H a (zrange_in 0 8 a ltac:(cbn; lia))). rewrite forallb_forall in H.
  exact (H b (zrange_in 0 4 b ltac:(cbn; lia))).
Qed.

(* a recorded opcode stays recorded when another opcode is skipped in between *)
Lemma x86_eff_persist i pp pm x c : pp < i -> i < x -> 0 <= c <= 2 ->
  Z.testbit (x86_eff (x - pp) pm) c = true ->
  Z.testbit (x86_eff (x - i) (2 * x86_eff (i - pp) pm + 1)) c = true.
Proof.
  intros H1 H2 Hc Hb.
  rewrite (x86_eff_mod8 (x - pp)) in Hb by lia. rewrite (x86_eff_mod8 (i - pp)) by lia.
  set (q := pm mod 8) in *. assert (Hq : 0 <= q < 8) by (unfold q; lia).
  destruct (Z.ltb_spec 3 (x - pp)) as [Hbig|Hsm].
  { unfold x86_eff in Hb. destruct (Z.ltb_spec 3 (x - pp)); [|lia]. rewrite Z.bits_0 in Hb. discriminate. }
  assert (Hd : (i - pp = 1 /\ x - i = 1) \/ (i - pp = 1 /\ x - i = 2) \/ (i - pp = 2 /\ x - i = 1)) by lia.
  assert (Hcc : c = 0 \/ c = 1 \/ c = 2) by lia.
  assert (Hqq : q = 0 \/ q = 1 \/ q = 2 \/ q = 3 \/ q = 4 \/ q = 5 \/ q = 6 \/ q = 7) by lia.
  clearbody q.
  destruct Hd as [[E1 E2]|[[E1 E2]|[E1 E2]]]; rewrite E1, E2;
    replace (x - pp) with (i - pp + (x - i)) in Hb by lia; rewrite E1, E2 in Hb;
    destruct Hcc as [-> | [-> | ->]];
    destruct Hqq as [-> | [-> | [-> | [-> | [-> | [-> | [-> | ->]]]]]]];
    revert Hb; vm_compute; auto.
Qed.

(* which later bytes a run may change without changing their 00/FF class *)
Definition x86_safe (i pp pm t : Z) : Prop :=
  forall u, 0 <= u < t -> Z.testbit (x86_eff (i + u - pp) pm) (3 - t + u) = true.

Lemma x86_safe_after_skip i pp pm t : pp < i -> 1 <= t <= 3 -> x86_safe i pp pm t ->
  x86_safe (i + 1) i (2 * x86_eff (i - pp) pm + 1) (t - 1).
Proof.
  intros Hpp Ht Hs u Hu.
  replace (i + 1 + u - i) with (i + 1 + u - i) by lia.
  replace (3 - (t - 1) + u) with (3 - t + (u + 1)) by lia.
  replace (i + 1 + u - i) with ((i + (u + 1)) - i) by lia.
  apply x86_eff_persist; try lia. apply Hs. lia.
Qed.

Lemma x86_safe_after_nonop i pp pm t : 1 <= t -> x86_safe i pp pm t -> x86_safe (i + 1) pp pm (t - 1).
Proof.
  intros Ht Hs u Hu. replace (i + 1 + u - pp) with (i + (u + 1) - pp) by lia.
  replace (3 - (t - 1) + u) with (3 - t + (u + 1)) by lia. apply Hs. lia.
Qed.

Lemma x86_blocked_cases m b1 b2 b3 : 0 <= m < 8 -> x86_blocked m b1 b2 b3 = false ->
  m = 0 \/ (m = 1 /\ is_zf b3 = false) \/ (m = 2 /\ is_zf b2 = false) \/ (m = 4 /\ is_zf b1 = false).
Proof.
  intros Hm. unfold x86_blocked.
  assert (H : m = 0 \/ m = 1 \/ m = 2 \/ m = 3 \/ m = 4 \/ m = 5 \/ m = 6 \/ m = 7) by lia.
  destruct H as [-> | [-> | [-> | [-> | [-> | [-> | [-> | ->]]]]]]]; cbn [Z.eqb Pos.eqb]; intros E; auto; discriminate.
Qed.

(* The lookahead property of the encoder: the byte at offset t (t <= 3) of the remaining buffer
   keeps its 00/FF class through everything the loop does later, provided the current state
   records, for every position a conversion could start at, the opcode that byte belongs to. *)
Lemma x86_lookahead pos n : forall X i pp pm (t : nat), (length X <= n)%nat -> bytes_ok X = true -> pp < i ->
  (t <= 3)%nat -> x86_safe i pp pm (Z.of_nat t) ->
  let '(_, _, _, ol, rl) := x86_gop true pos i pp pm X in
  forall a, nth_opt X t = Some a -> exists b, nth_opt (ol ++ rl) t = Some b /\ is_zf b = is_zf a.
Proof.
  induction n as [|n IH]; intros X i pp pm t Hn Hb Hpp Ht Hsafe.
  - destruct X; [|cbn [length] in Hn; lia]. cbn [x86_gop app]. intros a Ha. destruct t; discriminate.
  - destruct (Nat.lt_ge_cases (length X) 5) as [Hs|Hs].
    + rewrite x86_gop_short by assumption. cbn [app]. intros a Ha. exists a. auto.
    + destruct X as [|b0 [|b1 [|b2 [|b3 [|b4 tl]]]]]; try (cbn [length] in Hs; lia).
      rewrite x86_gop_step.
      pose proof Hb as Hb'.
      apply bytes_ok_cons in Hb; destruct Hb as [H0 Hb1]. pose proof Hb1 as Hb.
      apply bytes_ok_cons in Hb; destruct Hb as [H1 Hb].
      apply bytes_ok_cons in Hb; destruct Hb as [H2 Hb].
      apply bytes_ok_cons in Hb; destruct Hb as [H3 Hb].
      apply bytes_ok_cons in Hb; destruct Hb as [H4 Hb].
      destruct t as [|t'].
      { (* the byte at the current position is never rewritten *)
        destruct (x86_step_spec true pos i pp pm b0 b1 b2 b3 b4) as [pp' pm'|pp' pm' c1 c2 c3 c4].
        - destruct (x86_gop true pos (i + 1) pp' pm' (b1 :: b2 :: b3 :: b4 :: tl)) as [[[[i2 pp2] pm2] o2] r2].
          cbn [x86_push app nth_opt]. intros a Ha. exists a. auto.
        - destruct (x86_gop true pos (i + 5) pp' pm' tl) as [[[[i2 pp2] pm2] o2] r2].
          cbn [x86_push app nth_opt]. intros a Ha. exists a. auto. }
      unfold x86_step_spec.
      destruct (is_op b0) eqn:Eop.
      * cbv zeta. set (m := x86_eff (i - pp) pm).
        pose proof (x86_eff_range (i - pp) pm) as Hm. fold m in Hm.
        assert (Hskip :
                  let '(_, _, _, ol, rl) := x86_push [b0] (x86_gop true pos (i + 1) i (2 * m + 1) (b1 :: b2 :: b3 :: b4 :: tl)) in
                  forall a, nth_opt (b0 :: b1 :: b2 :: b3 :: b4 :: tl) (S t') = Some a ->
                  exists b, nth_opt (ol ++ rl) (S t') = Some b /\ is_zf b = is_zf a).
        { specialize (IH (b1 :: b2 :: b3 :: b4 :: tl) (i + 1) i (2 * m + 1) t' ltac:(cbn [length] in *; lia) Hb1 ltac:(lia) ltac:(lia)).
          assert (Hs' : x86_safe (i + 1) i (2 * m + 1) (Z.of_nat t')).
          { replace (Z.of_nat t') with (Z.of_nat (S t') - 1) by lia. apply x86_safe_after_skip; try lia. exact Hsafe. }
          specialize (IH Hs').
          destruct (x86_gop true pos (i + 1) i (2 * m + 1) (b1 :: b2 :: b3 :: b4 :: tl)) as [[[[i2 pp2] pm2] o2] r2].
          cbn [x86_push app nth_opt]. exact IH. }
        destruct (x86_blocked m b1 b2 b3) eqn:Ebl; [exact Hskip|].
        destruct (is_zf b4) eqn:Ez4; [|exact Hskip].
        (* a conversion starts here: the mask has exactly the bit that protects offset t *)
        pose proof (Hsafe 0 ltac:(lia)) as Hbit. rewrite Z.add_0_r in Hbit. fold m in Hbit.
        replace (3 - Z.of_nat (S t') + 0) with (2 - Z.of_nat t') in Hbit by lia.
        pose proof (x86_conv_step_inverse (pc32 pos i) m b1 b2 b3 b4 H1 H2 H3 H4 Ez4) as Hc.
        pose proof (x86_blocked_cases m b1 b2 b3 Hm Ebl) as Hcases.
        assert (Hm4 : m = 0 \/ m = 1 \/ m = 2 \/ m = 4) by (destruct Hcases as [?|[[? _]|[[? _]|[? _]]]]; auto).
        specialize (Hc Hm4 Ebl). cbv zeta in Hc. destruct Hc as (_ & _ & _ & _ & _ & Hbl' & _).
        apply (x86_blocked_cases m _ _ _ Hm) in Hbl'.
        unfold x86_out.
        destruct (x86_gop true pos (i + 5) i m tl) as [[[[i2 pp2] pm2] o2] r2].
        cbn [x86_push app].
        set (dest := x86_dest true (pc32 pos i) m (x86_src b1 b2 b3 b4)) in *.
        destruct Hcases as [E0|[[E1 Ez]|[[E2 Ez]|[E4 Ez]]]].
        -- rewrite E0, Z.bits_0 in Hbit. discriminate.
        -- (* m = 1: bit 0, so t = 3 *)
           assert (t' = 2%nat) by (rewrite E1 in Hbit; destruct t' as [|[|[|?]]]; try (cbn in Hbit; discriminate); try lia; reflexivity).
           subst t'. cbn [nth_opt]. intros a Ha. injection Ha as <-.
           eexists. split; [reflexivity|].
           destruct Hbl' as [?|[[_ Hz]|[[? _]|[? _]]]]; try lia. rewrite Hz, Ez. reflexivity.
        -- assert (t' = 1%nat) by (rewrite E2 in Hbit; destruct t' as [|[|[|?]]]; try (cbn in Hbit; discriminate); try lia; reflexivity).
           subst t'. cbn [nth_opt]. intros a Ha. injection Ha as <-.
           eexists. split; [reflexivity|].
           destruct Hbl' as [?|[[? _]|[[_ Hz]|[? _]]]]; try lia. rewrite Hz, Ez. reflexivity.
        -- assert (t' = 0%nat) by (rewrite E4 in Hbit; destruct t' as [|[|[|?]]]; try (cbn in Hbit; discriminate); try lia; reflexivity).
           subst t'. cbn [nth_opt]. intros a Ha. injection Ha as <-.
           eexists. split; [reflexivity|].
           destruct Hbl' as [?|[[? _]|[[? _]|[_ Hz]]]]; try lia. rewrite Hz, Ez. reflexivity.
      * (* not an opcode *)
        specialize (IH (b1 :: b2 :: b3 :: b4 :: tl) (i + 1) pp pm t' ltac:(cbn [length] in *; lia) Hb1 ltac:(lia) ltac:(lia)).
        assert (Hs' : x86_safe (i + 1) pp pm (Z.of_nat t')).
        { replace (Z.of_nat t') with (Z.of_nat (S t') - 1) by lia. apply x86_safe_after_nonop; try lia. exact Hsafe. }
        specialize (IH Hs').
        destruct (x86_gop true pos (i + 1) pp pm (b1 :: b2 :: b3 :: b4 :: tl)) as [[[[i2 pp2] pm2] o2] r2].
        cbn [x86_push app nth_opt]. exact IH.
Qed.

(* masks recorded right after skipping an opcode protect the byte the skipped opcode's tests
   looked at *)
Lemma x86_safe_b4 i m : 0 <= m < 8 -> x86_safe (i + 1) i (2 * m + 1) 3.
Proof.
  intros Hm u Hu. replace (i + 1 + u - i) with (u + 1) by lia. replace (3 - 3 + u) with u by lia.
  assert (Hu3 : u = 0 \/ u = 1 \/ u = 2) by lia.
  assert (Hm8 : m = 0 \/ m = 1 \/ m = 2 \/ m = 3 \/ m = 4 \/ m = 5 \/ m = 6 \/ m = 7) by lia.
  destruct Hu3 as [-> | [-> | ->]];
    destruct Hm8 as [-> | [-> | [-> | [-> | [-> | [-> | [-> | ->]]]]]]]; reflexivity.
Qed.
Lemma x86_safe_m1 i : x86_safe (i + 1) i 3 2.
Proof.
  intros u Hu. replace (i + 1 + u - i) with (u + 1) by lia.
  assert (Hu3 : u = 0 \/ u = 1) by lia. destruct Hu3 as [-> | ->]; reflexivity.
Qed.
Lemma x86_safe_m2 i : x86_safe (i + 1) i 5 1.
Proof.
  intros u Hu. replace (i + 1 + u - i) with (u + 1) by lia.
  assert (u = 0) by lia. subst u. reflexivity.
Qed.
Lemma x86_safe_0 i pp pm : x86_safe i pp pm 0.
Proof. intros u Hu. lia. Qed.

Lemma x86_gop_inverse pos n : forall X i pp pm, (length X <= n)%nat -> bytes_ok X = true -> pp < i ->
  let '(i', pp', pm', ol, rl) := x86_gop true pos i pp pm X in
  x86_gop false pos i pp pm (ol ++ rl) = (i', pp', pm', firstn (length ol) X, rl).
Proof.
  induction n as [|n IH]; intros X i pp pm Hn Hb Hpp.
  - destruct X; [|cbn [length] in Hn; lia]. reflexivity.
  - destruct (Nat.lt_ge_cases (length X) 5) as [Hs|Hs].
    + rewrite x86_gop_short by assumption. cbn [app length firstn]. apply x86_gop_short. assumption.
    + destruct X as [|b0 [|b1 [|b2 [|b3 [|b4 tl]]]]]; try (cbn [length] in Hs; lia).
      rewrite x86_gop_step.
      pose proof Hb as Hb'.
      apply bytes_ok_cons in Hb; destruct Hb as [H0 Hb1]. pose proof Hb1 as Hb.
      apply bytes_ok_cons in Hb; destruct Hb as [H1 Hb].
      apply bytes_ok_cons in Hb; destruct Hb as [H2 Hb].
      apply bytes_ok_cons in Hb; destruct Hb as [H3 Hb].
      apply bytes_ok_cons in Hb; destruct Hb as [H4 Hb].
      set (X' := b1 :: b2 :: b3 :: b4 :: tl) in *.
      assert (HlenX' : length X' = (4 + length tl)%nat) by reflexivity.
      cbn [length] in Hn.
      (* what happens when the step at i only skips one byte, with new state (ppn, pmn) *)
      assert (Hskipcase : forall ppn pmn, ppn < i + 1 ->
                (forall y1 y2 y3 y4 tl', 
                    (let '(_, _, _, ol, rl) := x86_gop true pos (i + 1) ppn pmn X' in ol ++ rl = y1 :: y2 :: y3 :: y4 :: tl') ->
                    x86_step_spec false pos i pp pm b0 y1 y2 y3 y4 = XSkip ppn pmn) ->
                let '(i', pp', pm', ol, rl) := x86_push [b0] (x86_gop true pos (i + 1) ppn pmn X') in
                x86_gop false pos i pp pm (ol ++ rl) = (i', pp', pm', firstn (length ol) (b0 :: X'), rl)).
      { intros ppn pmn Hppn Hdec.
        specialize (IH X' (i + 1) ppn pmn ltac:(lia) Hb1 Hppn).
        pose proof (x86_gop_shape true pos (length X') X' (i + 1) ppn pmn (le_n _) Hb1 Hppn) as Hsh.
        destruct (x86_gop true pos (i + 1) ppn pmn X') as [[[[i2 pp2] pm2] o2] r2].
        destruct Hsh as (_ & _ & _ & Hlen & _).
        cbn [x86_push app length firstn].
        assert (Hl4 : (4 <= length (o2 ++ r2))%nat) by (rewrite app_length, Hlen; lia).
        destruct (o2 ++ r2) as [|y1 [|y2 [|y3 [|y4 tl']]]] eqn:EY; try (cbn [length] in Hl4; lia).
        rewrite x86_gop_step. rewrite (Hdec y1 y2 y3 y4 tl' eq_refl).
        rewrite IH. reflexivity. }
      unfold x86_step_spec at 1.
      destruct (is_op b0) eqn:Eop.
      * cbv zeta. set (m := x86_eff (i - pp) pm).
        pose proof (x86_eff_range (i - pp) pm) as Hm. fold m in Hm.
        (* the decoder's tests on the bytes after a skipped opcode give the encoder's answers *)
        assert (Hsame : forall y1 y2 y3 y4 tl',
                  (let '(_, _, _, ol, rl) := x86_gop true pos (i + 1) i (2 * m + 1) X' in ol ++ rl = y1 :: y2 :: y3 :: y4 :: tl') ->
                  x86_blocked m y1 y2 y3 = x86_blocked m b1 b2 b3 /\ is_zf y4 = is_zf b4).
        { intros y1 y2 y3 y4 tl' HY.
          pose proof (x86_lookahead pos (length X') X' (i + 1) i (2 * m + 1) 3 (le_n _) Hb1 ltac:(lia) ltac:(lia) (x86_safe_b4 i m Hm)) as L3.
          pose proof (x86_lookahead pos (length X') X' (i + 1) i (2 * m + 1) 0 (le_n _) Hb1 ltac:(lia) ltac:(lia) (x86_safe_0 _ _ _)) as L0.
          destruct (x86_gop true pos (i + 1) i (2 * m + 1) X') as [[[[i2 pp2] pm2] o2] r2] eqn:Eg.
          rewrite HY in L3, L0.
          destruct (L3 b4 eq_refl) as (y & Ey & Hy). cbn [nth_opt] in Ey. injection Ey as <-.
          destruct (L0 b1 eq_refl) as (y & Ey & Hy1). cbn [nth_opt] in Ey. injection Ey as <-.
          split; [|exact Hy].
          unfold x86_blocked.
          destruct (Z.eqb_spec m 0); [reflexivity|].
          destruct (Z.eqb_spec m 1) as [E1|_].
          { pose proof (x86_lookahead pos (length X') X' (i + 1) i (2 * m + 1) 2 (le_n _) Hb1 ltac:(lia) ltac:(lia)) as L2.
            rewrite E1 in L2. specialize (L2 (x86_safe_m1 i)). rewrite E1 in Eg. rewrite Eg, HY in L2.
            destruct (L2 b3 eq_refl) as (y & Ey & Hy3). cbn [nth_opt] in Ey. injection Ey as <-. exact Hy3. }
          destruct (Z.eqb_spec m 2) as [E2|_].
          { pose proof (x86_lookahead pos (length X') X' (i + 1) i (2 * m + 1) 1 (le_n _) Hb1 ltac:(lia) ltac:(lia)) as L1.
            rewrite E2 in L1. specialize (L1 (x86_safe_m2 i)). rewrite E2 in Eg. rewrite Eg, HY in L1.
            destruct (L1 b2 eq_refl) as (y & Ey & Hy2). cbn [nth_opt] in Ey. injection Ey as <-. exact Hy2. }
          destruct (Z.eqb_spec m 4); [exact Hy1|reflexivity]. }
        destruct (x86_blocked m b1 b2 b3) eqn:Ebl.
        { apply Hskipcase; [lia|]. intros y1 y2 y3 y4 tl' HY.
          destruct (Hsame y1 y2 y3 y4 tl' HY) as [Eb Ez].
          unfold x86_step_spec. rewrite Eop. cbv zeta. fold m. rewrite Eb. reflexivity. }
        destruct (is_zf b4) eqn:Ez4.
        2:{ apply Hskipcase; [lia|]. intros y1 y2 y3 y4 tl' HY.
            destruct (Hsame y1 y2 y3 y4 tl' HY) as [Eb Ez].
            unfold x86_step_spec. rewrite Eop. cbv zeta. fold m. rewrite Eb, Ez. reflexivity. }
        (* conversion *)
        pose proof (x86_blocked_cases m b1 b2 b3 Hm Ebl) as Hcases.
        assert (Hm4 : m = 0 \/ m = 1 \/ m = 2 \/ m = 4) by (destruct Hcases as [?|[[? _]|[[? _]|[? _]]]]; auto).
        pose proof (x86_conv_step_inverse (pc32 pos i) m b1 b2 b3 b4 H1 H2 H3 H4 Ez4 Hm4 Ebl) as Hc.
        cbv zeta in Hc. destruct Hc as (C1 & C2 & C3 & C4 & Cz & Cbl & D1 & D2 & D3 & D4).
        unfold x86_out.
        set (dest := x86_dest true (pc32 pos i) m (x86_src b1 b2 b3 b4)) in *.
        specialize (IH tl (i + 5) i m ltac:(lia) Hb ltac:(lia)).
        destruct (x86_gop true pos (i + 5) i m tl) as [[[[i2 pp2] pm2] o2] r2].
        cbn [x86_push app length firstn].
        rewrite x86_gop_step. unfold x86_step_spec. rewrite Eop. cbv zeta. fold m.
        rewrite Cbl, Cz. unfold x86_out. rewrite D1, D2, D3, D4. rewrite IH. reflexivity.
      * (* not an opcode: the decoder sees the same byte *)
        apply Hskipcase; [lia|]. intros y1 y2 y3 y4 tl' _. unfold x86_step_spec. rewrite Eop. reflexivity.
Qed.

Theorem bcj_inverse_x86_state : forall st buf, bytes_ok buf = true ->
  exists st' out rest,
    bcj_code X86 true st buf = Ok (st', out, rest) /\
    bcj_code X86 false st (out ++ rest) = Ok (st', firstn (length out) buf, rest) /\
    firstn (length out) buf ++ rest = buf /\ bytes_ok out = true.
Proof.
  intros st buf Hb.
  change (bcj_code X86 true st buf) with (x86_code true st buf).
  rewrite x86_code_eq by assumption.
  destruct (zlen buf <? 5) eqn:E5.
  - exists st, [], buf. split; [reflexivity|]. cbn [app length firstn].
    change (bcj_code X86 false st buf) with (x86_code false st buf).
    rewrite x86_code_eq by assumption. rewrite E5. auto.
  - pose proof (x86_gop_shape true (f_pos st) (length buf) buf 0 (-1) (f_mask st) (le_n _) Hb ltac:(lia)) as Hsh.
    pose proof (x86_gop_inverse (f_pos st) (length buf) buf 0 (-1) (f_mask st) (le_n _) Hb ltac:(lia)) as Hinv.
    destruct (x86_gop true (f_pos st) 0 (-1) (f_mask st) buf) as [[[[i' pp'] pm'] ol] rl].
    destruct Hsh as (Hi & Hpp & Hr & Hl & H5 & Hbo).
    eexists _, ol, rl. split; [reflexivity|].
    assert (Hbr : bytes_ok rl = true) by (rewrite <- Hr; apply bytes_ok_skipn; assumption).
    assert (Hby : bytes_ok (ol ++ rl) = true) by (apply bytes_ok_app; auto).
    change (bcj_code X86 false st (ol ++ rl)) with (x86_code false st (ol ++ rl)).
    rewrite x86_code_eq by assumption.
    assert (E5' : (zlen (ol ++ rl) <? 5) = false).
    { apply Z.ltb_ge. apply Z.ltb_ge in E5. unfold zlen in *. rewrite app_length. lia. }
    rewrite E5', Hinv. split; [reflexivity|]. split; [|assumption].
    rewrite <- Hr. apply firstn_skipn.
Qed.

Theorem bcj_inverse_x86 : forall start buf, bytes_ok buf = true ->
  exists st' out rest,
    bcj_code X86 true (bcj_init X86 start) buf = Ok (st', out, rest) /\
    bcj_code X86 false (bcj_init X86 start) (out ++ rest) = Ok (st', firstn (length out) buf, rest) /\
    firstn (length out) buf ++ rest = buf /\ bytes_ok out = true.
Proof. intros start buf. apply bcj_inverse_x86_state. Qed.
