(* Filter/BcjWordProofs.v — the filters that look at aligned words (ARM, ARM-Thumb, ARM64, PowerPC,
   SPARC): per-word inverse lemmas (each conversion is "unpack a bit field, add or subtract the
   position modulo the field width, repack"), the loop-level inverse, and the chunking lemma
   (running the loop over A ++ B = running it over A, then over the unconverted rest of A
   followed by B). *)
From LzVerif Require Import Base.Bytes Filter.Bcj Filter.BcjArithProofs.
Ltac Zify.zify_post_hook ::= Z.div_mod_to_equations.

Lemma list_ind4 (P : list Z -> Prop) :
  (forall l, (length l < 4)%nat -> P l) ->
  (forall b0 b1 b2 b3 t, P t -> P (b0 :: b1 :: b2 :: b3 :: t)) ->
  forall l, P l.
Proof.
  intros Hs Hc.
  fix IH 1. intros l.
  destruct l as [|b0 [|b1 [|b2 [|b3 t]]]]; try (apply Hs; cbn; lia).
  apply Hc. apply IH.
Qed.

Lemma go4_short f pos i l : (length l < 4)%nat -> go4 f pos i l = ([], l).
Proof.
  destruct l as [|b0 [|b1 [|b2 [|b3 t]]]]; cbn [length]; intros H; try reflexivity. lia.
Qed.

Definition byte (x : Z) : Prop := 0 <= x < 256.

Definition word4_inv (fe fd : word4) : Prop :=
  forall p b0 b1 b2 b3, p mod 4 = 0 -> -2147483648 <= p < 2147483648 ->
    byte b0 -> byte b1 -> byte b2 -> byte b3 ->
    forall c0 c1 c2 c3, fe p b0 b1 b2 b3 = (c0, c1, c2, c3) ->
    fd p c0 c1 c2 c3 = (b0, b1, b2, b3) /\ byte c0 /\ byte c1 /\ byte c2 /\ byte c3.

Lemma bytes_ok_cons x l : bytes_ok (x :: l) = true <-> byte x /\ bytes_ok l = true.
Proof. unfold bytes_ok, byte. cbn [forallb]. rewrite andb_true_iff, is_byte_iff. tauto. Qed.

Lemma go4_inverse fe fd : word4_inv fe fd ->
  forall l pos i o r, go4 fe pos i l = (o, r) -> bytes_ok l = true -> (pos + i) mod 4 = 0 ->
    go4 fd pos i (o ++ r) = (firstn (length o) l, r) /\ firstn (length o) l ++ r = l /\ bytes_ok o = true.
Proof.
  intros Hinv l. induction l as [l Hl | b0 b1 b2 b3 t IH] using list_ind4; intros pos i o r Hgo Hb Hal.
  - rewrite go4_short in Hgo by assumption. inversion Hgo; subst. cbn [app length firstn].
    rewrite go4_short by assumption. auto.
  - cbn [go4] in Hgo.
    destruct (fe (pc32 pos i) b0 b1 b2 b3) as [[[c0 c1] c2] c3] eqn:Ef.
    destruct (go4 fe pos (i + 4) t) as [o' r'] eqn:Eg.
    inversion Hgo; subst; clear Hgo.
    apply bytes_ok_cons in Hb; destruct Hb as [H0 Hb].
    apply bytes_ok_cons in Hb; destruct Hb as [H1 Hb].
    apply bytes_ok_cons in Hb; destruct Hb as [H2 Hb].
    apply bytes_ok_cons in Hb; destruct Hb as [H3 Hb].
    assert (Hp : pc32 pos i mod 4 = 0) by (rewrite pc32_mod4; assumption).
    destruct (Hinv _ _ _ _ _ Hp (pc32_range pos i) H0 H1 H2 H3 _ _ _ _ Ef) as (Ed & G0 & G1 & G2 & G3).
    destruct (IH pos (i + 4) o' r Eg Hb ltac:(lia)) as (E1 & E2 & E3).
    cbn [app go4 length firstn]. rewrite Ed, E1. cbn [app]. rewrite E2.
    repeat split. repeat (apply bytes_ok_cons; split; [assumption|]). assumption.
Qed.

Ltac tuple_inj H :=
  match type of H with
  | (?a, ?b, ?c, ?d) = (?a', ?b', ?c', ?d') =>
      let E0 := fresh "E" in let E1 := fresh "E" in let E2 := fresh "E" in let E3 := fresh "E" in
      assert (E0 : a' = a) by congruence; assert (E1 : b' = b) by congruence;
      assert (E2 : c' = c) by congruence; assert (E3 : d' = d) by congruence;
      clear H; subst a' b' c' d'
  end.
Ltac tuple_eq := repeat match goal with |- (_, _) = (_, _) => f_equal end.


(* ---------------- ARM ---------------- *)
Definition arm_field (enc : bool) (p v : Z) : Z := (addsub enc (4 * v) p / 4) mod 16777216.

Lemma arm_word_spec enc p b0 b1 b2 :
  byte b0 -> byte b1 -> byte b2 ->
  arm_word enc p b0 b1 b2 235 =
  let v := arm_field enc p (b2 * 65536 + b1 * 256 + b0) in
  (v mod 256, (v / 256) mod 256, (v / 65536) mod 256, 235).
Proof.
  unfold byte; intros H0 H1 H2. unfold arm_word. change (235 =? 235) with true. cbv iota.
  shift_lits. lor_plus 16. lor_plus 8. land_lits.
  unfold arm_field. cbv zeta.
  rewrite s32_small by lia.
  replace ((b2 * 65536 + b1 * 256 + b0) * 4) with (4 * (b2 * 65536 + b1 * 256 + b0)) by lia.
  set (d := addsub enc _ p / 4).
  unfold u8. tuple_eq; lia.
Qed.

Lemma arm_field_inv p v : p mod 4 = 0 -> 0 <= v < 16777216 ->
  arm_field false p (arm_field true p v) = v.
Proof. intros Hp Hv. unfold arm_field, addsub, s32. lia. Qed.

Lemma arm_field_range enc p v : 0 <= arm_field enc p v < 16777216.
Proof. unfold arm_field. lia. Qed.

Lemma arm_word_inv : word4_inv (arm_word true) (arm_word false).
Proof.
  intros p b0 b1 b2 b3 Hp Hr H0 H1 H2 H3 c0 c1 c2 c3 He.
  destruct (b3 =? 235) eqn:E.
  - apply Z.eqb_eq in E; subst b3. rewrite arm_word_spec in He by assumption. cbv zeta in He.
    pose proof (arm_field_range true p (b2 * 65536 + b1 * 256 + b0)) as Hv.
    pose proof (arm_field_inv p (b2 * 65536 + b1 * 256 + b0) Hp ltac:(unfold byte in *; lia)) as Hi.
    set (v := arm_field true p _) in *.
    tuple_inj He.
    assert (B0 : byte (v mod 256)) by (unfold byte; lia).
    assert (B1 : byte ((v / 256) mod 256)) by (unfold byte; lia).
    assert (B2 : byte ((v / 65536) mod 256)) by (unfold byte; lia).
    split; [|auto].
    rewrite arm_word_spec by assumption. cbv zeta.
    replace ((v / 65536) mod 256 * 65536 + (v / 256) mod 256 * 256 + v mod 256) with v by lia.
    rewrite Hi. unfold byte in *. tuple_eq; lia.
  - unfold arm_word in He. rewrite E in He. inversion He; subst.
    split; [|auto]. unfold arm_word. rewrite E. reflexivity.
Qed.

(* ---------------- PPC ---------------- *)
Definition ppc_cond (b0 b3 : Z) : bool := (Z.land b0 252 =? 72) && (Z.land b3 3 =? 1).

Lemma ppc_cond_spec b0 b3 : byte b0 -> byte b3 ->
  ppc_cond b0 b3 = true -> b0 / 4 = 18 /\ b3 mod 4 = 1.
Proof.
  unfold byte, ppc_cond. intros H0 H3 H. apply andb_true_iff in H. destruct H as [Ha Hb].
  apply Z.eqb_eq in Ha, Hb. revert Ha Hb. land_lits. lia.
Qed.

Lemma ppc_cond_intro b0 b3 : byte b0 -> byte b3 -> b0 / 4 = 18 -> b3 mod 4 = 1 -> ppc_cond b0 b3 = true.
Proof.
  unfold byte, ppc_cond. intros H0 H3 Ha Hb. apply andb_true_iff. split; apply Z.eqb_eq; land_lits; lia.
Qed.

Definition ppc_field (b0 b1 b2 b3 : Z) : Z := (b0 mod 4) * 16777216 + b1 * 65536 + b2 * 256 + b3 / 4 * 4.

Definition ppc_out (d : Z) : Z * Z * Z * Z :=
  (72 + (d / 16777216) mod 4, (d / 65536) mod 256, (d / 256) mod 256, d mod 256 + 1).

Lemma ppc_word_spec enc p b0 b1 b2 b3 :
  byte b0 -> byte b1 -> byte b2 -> byte b3 -> ppc_cond b0 b3 = true -> p mod 4 = 0 ->
  ppc_word enc p b0 b1 b2 b3 = ppc_out (addsub enc (ppc_field b0 b1 b2 b3) p).
Proof.
  intros H0 H1 H2 H3 Hc Hp. unfold ppc_word. fold (ppc_cond b0 b3). rewrite Hc.
  destruct (ppc_cond_spec _ _ H0 H3 Hc) as [Ha Hb]. unfold byte in *.
  shift_lits. land_lits.
  lor_plus 24. lor_plus 16. lor_plus 8.
  replace ((b0 mod 4 * 16777216 + b1 mod 256 * 65536 + b2 mod 256 * 256 + b3 / 4 mod 64 * 4))
    with (ppc_field b0 b1 b2 b3) by (unfold ppc_field; lia).
  unfold ppc_out. set (d := addsub enc _ p).
  assert (Hd : d mod 4 = 0).
  { unfold d, addsub, s32, ppc_field. destruct enc; lia. }
  lor_plus 2.
  rewrite Hb. lor_plus 1.
  unfold u8. tuple_eq; lia.
Qed.

Lemma ppc_word_inv : word4_inv (ppc_word true) (ppc_word false).
Proof.
  intros p b0 b1 b2 b3 Hp Hr H0 H1 H2 H3 c0 c1 c2 c3 He.
  destruct (ppc_cond b0 b3) eqn:E.
  - rewrite ppc_word_spec in He by assumption. unfold ppc_out in He.
    destruct (ppc_cond_spec _ _ H0 H3 E) as [Ha Hb].
    set (w := ppc_field b0 b1 b2 b3) in *.
    assert (Hw : 0 <= w < 67108864 /\ w mod 4 = 0) by (unfold w, ppc_field, byte in *; lia).
    set (d := addsub true w p) in *.
    assert (Hd : d mod 4 = 0) by (unfold d, addsub, s32; lia).
    tuple_inj He.
    assert (B0 : byte (72 + (d / 16777216) mod 4)) by (unfold byte; lia).
    assert (B1 : byte ((d / 65536) mod 256)) by (unfold byte; lia).
    assert (B2 : byte ((d / 256) mod 256)) by (unfold byte; lia).
    assert (B3 : byte (d mod 256 + 1)) by (unfold byte; lia).
    split; [|auto].
    assert (Ec : ppc_cond (72 + (d / 16777216) mod 4) (d mod 256 + 1) = true)
      by (apply ppc_cond_intro; try assumption; lia).
    rewrite ppc_word_spec by assumption. unfold ppc_out.
    assert (Ef : ppc_field (72 + (d / 16777216) mod 4) ((d / 65536) mod 256) ((d / 256) mod 256) (d mod 256 + 1)
                 = d mod 67108864) by (unfold ppc_field; lia).
    rewrite Ef.
    assert (Ei : addsub false (d mod 67108864) p mod 67108864 = w)
      by (unfold d, addsub, s32; lia).
    set (e := addsub false (d mod 67108864) p) in *.
    unfold w, ppc_field, byte in *. tuple_eq; lia.
  - unfold ppc_word in He. fold (ppc_cond b0 b3) in He. rewrite E in He. inversion He; subst.
    split; [|auto]. unfold ppc_word. fold (ppc_cond c0 c3). rewrite E. reflexivity.
Qed.

(* ---------------- SPARC ---------------- *)
Definition sparc_cond (b0 b1 : Z) : bool :=
  ((b0 =? 64) && (Z.land b1 192 =? 0)) || ((b0 =? 127) && (Z.land b1 192 =? 192)).

Lemma sparc_cond_spec b0 b1 : byte b0 -> byte b1 ->
  sparc_cond b0 b1 = true <-> exists s, (s = 0 \/ s = 1) /\ b0 = 64 + 63 * s /\ b1 / 64 = 3 * s.
Proof.
  unfold byte, sparc_cond. intros H0 H1.
  rewrite orb_true_iff, !andb_true_iff, !Z.eqb_eq. land_lits. split.
  - intros [[Ha Hb]|[Ha Hb]]; [exists 0|exists 1]; lia.
  - intros (s & [Hs|Hs] & Ha & Hb); subst s; [left|right]; lia.
Qed.

Definition sparc_val (d2 : Z) : Z := 1073741824 + (d2 / 4194304) mod 2 * 1069547520 + d2 mod 4194304.
Definition sparc_out (d2 : Z) : Z * Z * Z * Z :=
  let w := sparc_val d2 in (w / 16777216, (w / 65536) mod 256, (w / 256) mod 256, w mod 256).

Lemma sparc_word_spec enc p b0 b1 b2 b3 :
  byte b0 -> byte b1 -> byte b2 -> byte b3 -> sparc_cond b0 b1 = true ->
  sparc_word enc p b0 b1 b2 b3 =
  sparc_out (addsub enc (s32 ((b0 * 16777216 + b1 * 65536 + b2 * 256 + b3) * 4)) p / 4).
Proof.
  intros H0 H1 H2 H3 Hc. unfold sparc_word. fold (sparc_cond b0 b1). rewrite Hc.
  unfold byte in *.
  shift_lits. land_lits.
  lor_plus 24. lor_plus 16. lor_plus 8.
  replace (b0 mod 256 * 16777216 + b1 mod 256 * 65536 + b2 mod 256 * 256 + b3 mod 256)
    with (b0 * 16777216 + b1 * 65536 + b2 * 256 + b3) by lia.
  set (d2 := addsub enc _ p / 4).
  rewrite (s32_small ((0 - d2 / 4194304 mod 2) * 4194304)) by lia.
  lor_plus 22. lor_plus 30.
  unfold sparc_out, sparc_val.
  set (w := 1073741824 + _ + _).
  assert (Hw : 1073741824 + (((0 - d2 / 4194304 mod 2) * 4194304) mod 1073741824 + d2 mod 4194304) = w)
    by (unfold w; lia).
  rewrite Hw. cbv zeta. unfold u8. assert (0 <= w < 2147483648) by (unfold w; lia).
  tuple_eq; lia.
Qed.

Lemma sparc_val_range d : 1073741824 <= sparc_val d < 2147483648.
Proof. unfold sparc_val. lia. Qed.

Lemma sparc_roundtrip p W s L :
  p mod 4 = 0 -> (s = 0 \/ s = 1) -> 0 <= L < 4194304 ->
  W = 1073741824 + s * 1069547520 + L ->
  sparc_val (addsub false (s32 (sparc_val (addsub true (s32 (W * 4)) p / 4) * 4)) p / 4) = W.
Proof.
  intros Hp Hs HL ->. unfold sparc_val, addsub, s32. destruct Hs; subst s; lia.
Qed.

Lemma sparc_word_inv : word4_inv (sparc_word true) (sparc_word false).
Proof.
  intros p b0 b1 b2 b3 Hp Hr H0 H1 H2 H3 c0 c1 c2 c3 He.
  destruct (sparc_cond b0 b1) eqn:E.
  - rewrite sparc_word_spec in He by assumption. unfold sparc_out in He.
    destruct (proj1 (sparc_cond_spec _ _ H0 H1) E) as (s & Hs & Ha & Hb).
    set (W := b0 * 16777216 + b1 * 65536 + b2 * 256 + b3) in *.
    assert (HW : W = 1073741824 + s * 1069547520 + W mod 4194304)
      by (unfold W, byte in *; destruct Hs; subst s; lia).
    pose proof (sparc_roundtrip p W s (W mod 4194304) Hp Hs ltac:(lia) HW) as Hrt.
    set (d2 := addsub true (s32 (W * 4)) p / 4) in *.
    pose proof (sparc_val_range d2) as Hv.
    set (w := sparc_val d2) in *.
    cbv zeta in He. tuple_inj He.
    assert (B0 : byte (w / 16777216)) by (unfold byte; lia).
    assert (B1 : byte ((w / 65536) mod 256)) by (unfold byte; lia).
    assert (B2 : byte ((w / 256) mod 256)) by (unfold byte; lia).
    assert (B3 : byte (w mod 256)) by (unfold byte; lia).
    split; [|auto].
    assert (Ec : sparc_cond (w / 16777216) ((w / 65536) mod 256) = true).
    { apply (sparc_cond_spec _ _ B0 B1). exists ((d2 / 4194304) mod 2).
      unfold w, sparc_val. split; [lia|]. split; lia. }
    rewrite sparc_word_spec by assumption.
    replace (w / 16777216 * 16777216 + (w / 65536) mod 256 * 65536 + (w / 256) mod 256 * 256 + w mod 256)
      with w by lia.
    unfold sparc_out. cbv zeta. rewrite Hrt. unfold W, byte in *. tuple_eq; lia.
  - unfold sparc_word in He. fold (sparc_cond b0 b1) in He. rewrite E in He. tuple_inj He.
    split; [|auto]. unfold sparc_word. fold (sparc_cond b0 b1). rewrite E. reflexivity.
Qed.

(* ---------------- ARM64 ---------------- *)
Definition w32 (b0 b1 b2 b3 : Z) : Z := b0 + b1 * 256 + b2 * 65536 + b3 * 16777216.
Definition bytes_of (u : Z) : Z * Z * Z * Z :=
  (u mod 256, (u / 256) mod 256, (u / 65536) mod 256, (u / 16777216) mod 256).

Lemma bytes_of_w32 b0 b1 b2 b3 : byte b0 -> byte b1 -> byte b2 -> byte b3 ->
  bytes_of (w32 b0 b1 b2 b3) = (b0, b1, b2, b3).
Proof. unfold byte, bytes_of, w32. intros. tuple_eq; lia. Qed.

Lemma arm64_src b0 b1 b2 b3 : byte b0 -> byte b1 -> byte b2 -> byte b3 ->
  s32 (Z.shiftl b3 24) + Z.shiftl b2 16 + Z.shiftl b1 8 + b0 = s32 (w32 b0 b1 b2 b3).
Proof. unfold byte, w32. intros. shift_lits. unfold s32. lia. Qed.

Lemma land_9F b : byte b -> (Z.land b 159 =? 144) = ((b mod 32 =? 16) && (b / 128 =? 1)).
Proof.
  intros Hb.
  apply (byte_sweep (fun b => Bool.eqb (Z.land b 159 =? 144) ((b mod 32 =? 16) && (b / 128 =? 1)))) in Hb.
  - apply Bool.eqb_prop in Hb. exact Hb.
  - vm_compute. reflexivity.
Qed.

Definition is_bl (b3 : Z) : bool := b3 / 4 =? 37.
Definition is_adrp (b3 : Z) : bool := (b3 mod 32 =? 16) && (b3 / 128 =? 1).
Definition adrp_addr (W : Z) : Z := (W / 536870912) mod 4 + (W / 32) mod 524288 * 4.
Definition adrp_ok (addr : Z) : bool := ((addr + 131072) / 262144) mod 8 =? 0.
Definition adrp_build (addr r : Z) : Z :=
  2415919104 + addr mod 4 * 536870912 + (addr / 131072) mod 2 * 14680064 + (addr / 4) mod 65536 * 32 + r.

Lemma arm64_word_spec enc p b0 b1 b2 b3 :
  byte b0 -> byte b1 -> byte b2 -> byte b3 ->
  arm64_word enc p b0 b1 b2 b3 =
  let W := w32 b0 b1 b2 b3 in
  if is_bl b3 then bytes_of (2483027968 + (addsub enc (s32 W) (p / 4)) mod 67108864)
  else if is_adrp b3 && adrp_ok (adrp_addr W) then
    bytes_of (adrp_build (addsub enc (adrp_addr W) (p / 4096)) (W mod 32))
  else (b0, b1, b2, b3).
Proof.
  intros H0 H1 H2 H3. unfold arm64_word. rewrite arm64_src by assumption.
  cbv zeta. set (W := w32 b0 b1 b2 b3).
  assert (HW : 0 <= W < 4294967296 /\ W / 16777216 = b3) by (unfold W, w32, byte in *; lia).
  set (src := s32 W).
  assert (Hsrc : src mod 4294967296 = W) by (unfold src, s32; lia).
  (* the two tests, on b3 *)
  assert (Ebl : (Z.land (Z.shiftr src 26) 63 =? 37) = is_bl b3).
  { unfold is_bl. shift_lits. land_lits. apply eq_true_iff_eq. rewrite !Z.eqb_eq. unfold byte in *. lia. }
  assert (Ead : (Z.land (Z.shiftr src 24) 159 =? 144) = is_adrp b3).
  { unfold is_adrp. rewrite <- land_9F by assumption. f_equal.
    rewrite (land_mod_low (Z.shiftr src 24) 159 8) by lia. f_equal. shift_lits. change (2 ^ 8) with 256. lia. }
  rewrite Ebl, Ead.
  destruct (is_bl b3) eqn:Eb.
  - (* BL; a BL word is no ADRP *)
    assert (Ena : is_adrp b3 = false).
    { unfold is_bl in Eb. apply Z.eqb_eq in Eb. unfold is_adrp.
      destruct (b3 mod 32 =? 16) eqn:E1; [|reflexivity]. apply Z.eqb_eq in E1. unfold byte in *. lia. }
    rewrite Ena. shift_lits.
    replace (s32 (148 * 16777216)) with (-1811939328) by reflexivity.
    land_lits. lor_plus 26.
    rewrite word_bytes_spec. unfold bytes_of.
    set (d := addsub enc src (p / 4) mod 67108864).
    assert (0 <= d < 67108864) by (unfold d; lia).
    tuple_eq; lia.
  - destruct (is_adrp b3) eqn:Ea; [|reflexivity].
    cbn [andb].
    (* addr *)
    assert (Eaddr : Z.lor (Z.land (Z.shiftr src 29) 3) (Z.land (Z.shiftr src 3) 2097148) = adrp_addr W).
    { shift_lits. land_lits. lor_plus 2. unfold adrp_addr. lia. }
    rewrite Eaddr.
    assert (Har : 0 <= adrp_addr W < 2097152) by (unfold adrp_addr; lia).
    assert (Eok : (0 =? Z.land (s32 (adrp_addr W + 131072)) 1835008) = adrp_ok (adrp_addr W)).
    { unfold adrp_ok. rewrite s32_small by lia. land_lits. apply eq_true_iff_eq. rewrite !Z.eqb_eq. lia. }
    rewrite Eok. destruct (adrp_ok (adrp_addr W)) eqn:Eo; [|reflexivity].
    shift_lits.
    set (a := addsub enc (adrp_addr W) (p / 4096)).
    replace (s32 (144 * 16777216)) with (-1879048192) by reflexivity.
    land_lits.
    rewrite (s32_small (a mod 4 * 536870912)) by lia.
    rewrite (s32_small (a / 4 mod 65536 * 4 * 8)) by lia.
    rewrite (s32_small (0 - a / 131072 mod 2 * 131072)) by lia.
    lor_plus 5.
    lor_field 29 2.
    lor_field 5 16.
    lor_field 21 3.
    rewrite word_bytes_spec. unfold bytes_of, adrp_build.
    assert (Er : src mod 32 = W mod 32) by lia.
    rewrite Er.
    set (r := W mod 32). assert (0 <= r < 32) by (unfold r; lia).
    set (x := a mod 4). assert (0 <= x < 4) by (unfold x; lia).
    set (y := a / 4 mod 65536). assert (0 <= y < 65536) by (unfold y; lia).
    set (t := a / 131072 mod 2). assert (0 <= t < 2) by (unfold t; lia).
    tuple_eq; lia.
Qed.

Lemma bytes_of_byte u : let '(c0, c1, c2, c3) := bytes_of u in byte c0 /\ byte c1 /\ byte c2 /\ byte c3.
Proof. unfold bytes_of, byte. repeat split; lia. Qed.

Lemma w32_bytes_of u : 0 <= u < 4294967296 ->
  w32 (u mod 256) ((u / 256) mod 256) ((u / 65536) mod 256) ((u / 16777216) mod 256) = u.
Proof. unfold w32. lia. Qed.

Lemma adrp_roundtrip p W :
  0 <= W < 4294967296 -> (W / 16777216) mod 32 = 16 -> W / 16777216 / 128 = 1 ->
  ((adrp_addr W + 131072) / 262144) mod 8 = 0 ->
  let U := adrp_build (addsub true (adrp_addr W) (p / 4096)) (W mod 32) in
  0 <= U < 4294967296 /\ (U / 16777216) mod 32 = 16 /\ U / 16777216 / 128 = 1 /\
  U / 16777216 / 4 <> 37 /\
  ((adrp_addr U + 131072) / 262144) mod 8 = 0 /\
  adrp_build (addsub false (adrp_addr U) (p / 4096)) (U mod 32) = W.
Proof.
  intros HW H1 H2 H3. cbv zeta.
  set (q := p / 4096).
  set (addr := adrp_addr W) in *.
  assert (Haddr : 0 <= addr < 2097152) by (unfold addr, adrp_addr; lia).
  assert (HWd : W = 2415919104 + addr mod 4 * 536870912 + (addr / 4) * 32 + W mod 32).
  { unfold addr, adrp_addr. lia. }
  set (a := addsub true addr q).
  assert (Ha : a mod 262144 = (addr + q) mod 262144) by (unfold a, addsub, s32; lia).
  set (U := adrp_build a (W mod 32)).
  assert (HU : U = 2415919104 + a mod 4 * 536870912 + (a / 131072) mod 2 * 14680064 + (a / 4) mod 65536 * 32 + W mod 32)
    by reflexivity.
  assert (HaU : adrp_addr U = a mod 262144 + (a / 131072) mod 2 * 1835008).
  { unfold adrp_addr. rewrite HU. lia. }
  split; [lia|]. split; [lia|]. split; [lia|]. split; [lia|]. split; [rewrite HaU; lia|].
  set (a2 := addsub false (adrp_addr U) q).
  assert (Ha2 : a2 mod 262144 = addr mod 262144).
  { unfold a2, addsub, s32. rewrite HaU. lia. }
  unfold adrp_build.
  assert (EUr : U mod 32 = W mod 32) by (rewrite HU; lia).
  rewrite EUr. rewrite HWd at 2. clear HWd HU HaU EUr. clearbody a a2 addr.
  generalize dependent (W mod 32). intros r. lia.
Qed.

Lemma bl_roundtrip p W : 0 <= W < 4294967296 -> W / 16777216 / 4 = 37 ->
  let U := 2483027968 + addsub true (s32 W) (p / 4) mod 67108864 in
  0 <= U < 4294967296 /\ U / 16777216 / 4 = 37 /\
  2483027968 + addsub false (s32 U) (p / 4) mod 67108864 = W.
Proof. intros HW H1. cbv zeta. unfold addsub, s32. lia. Qed.

Lemma arm64_word_inv : word4_inv (arm64_word true) (arm64_word false).
Proof.
  intros p b0 b1 b2 b3 Hp Hr H0 H1 H2 H3 c0 c1 c2 c3 He.
  rewrite arm64_word_spec in He by assumption. cbv zeta in He.
  set (W := w32 b0 b1 b2 b3) in *.
  assert (HW : 0 <= W < 4294967296 /\ W / 16777216 = b3) by (unfold W, w32, byte in *; lia).
  destruct HW as [HW Hb3].
  assert (Hbw : bytes_of W = (b0, b1, b2, b3)) by (apply bytes_of_w32; assumption).
  destruct (is_bl b3) eqn:Eb.
  - unfold is_bl in Eb. apply Z.eqb_eq in Eb.
    destruct (bl_roundtrip p W HW ltac:(lia)) as (HU & HUb & Hrt).
    set (U := 2483027968 + _) in *.
    pose proof (bytes_of_byte U) as HB. unfold bytes_of in He, HB. tuple_inj He.
    destruct HB as (B0 & B1 & B2 & B3). split; [|auto].
    rewrite arm64_word_spec by assumption. cbv zeta.
    rewrite w32_bytes_of by assumption.
    assert (Eb' : is_bl ((U / 16777216) mod 256) = true) by (unfold is_bl; apply Z.eqb_eq; lia).
    rewrite Eb', Hrt. exact Hbw.
  - destruct (is_adrp b3 && adrp_ok (adrp_addr W)) eqn:Ea.
    + apply andb_true_iff in Ea. destruct Ea as [Ea Eo].
      unfold is_adrp in Ea. apply andb_true_iff in Ea. destruct Ea as [Ea1 Ea2].
      apply Z.eqb_eq in Ea1, Ea2. unfold adrp_ok in Eo. apply Z.eqb_eq in Eo.
      destruct (adrp_roundtrip p W HW ltac:(lia) ltac:(lia) Eo) as (HU & HU1 & HU2 & HU3 & HU4 & Hrt).
      set (U := adrp_build _ _) in *.
      pose proof (bytes_of_byte U) as HB. unfold bytes_of in He, HB. tuple_inj He.
      destruct HB as (B0 & B1 & B2 & B3). split; [|auto].
      rewrite arm64_word_spec by assumption. cbv zeta.
      rewrite w32_bytes_of by assumption.
      assert (Eb' : is_bl ((U / 16777216) mod 256) = false) by (unfold is_bl; apply Z.eqb_neq; lia).
      assert (Ea' : is_adrp ((U / 16777216) mod 256) = true)
        by (unfold is_adrp; apply andb_true_iff; split; apply Z.eqb_eq; lia).
      assert (Eo' : adrp_ok (adrp_addr U) = true) by (unfold adrp_ok; apply Z.eqb_eq; assumption).
      rewrite Eb', Ea', Eo'. cbn [andb]. rewrite Hrt. exact Hbw.
    + tuple_inj He. split; [|auto].
      rewrite arm64_word_spec by assumption. cbv zeta. fold W. rewrite Eb, Ea. reflexivity.
Qed.

(* ---------------- ARM Thumb ---------------- *)
Lemma thumb_match_spec b1 b3 : byte b1 -> byte b3 ->
  thumb_match b1 b3 = (b3 / 8 =? 31) && (b1 / 8 =? 30).
Proof.
  unfold byte, thumb_match. intros H1 H3. land_lits.
  f_equal; apply eq_true_iff_eq; rewrite !Z.eqb_eq; lia.
Qed.

Definition thumb_field (b0 b1 b2 b3 : Z) : Z := b1 mod 8 * 524288 + b0 * 2048 + b3 mod 8 * 256 + b2.
Definition thumb_out (d : Z) : Z * Z * Z * Z :=
  ((d / 2048) mod 256, 240 + (d / 524288) mod 8, d mod 256, 248 + (d / 256) mod 8).

Lemma thumb_word_spec enc p b0 b1 b2 b3 :
  byte b0 -> byte b1 -> byte b2 -> byte b3 ->
  thumb_word enc p b0 b1 b2 b3 = thumb_out (addsub enc (2 * thumb_field b0 b1 b2 b3) p / 2).
Proof.
  unfold byte. intros H0 H1 H2 H3. unfold thumb_word.
  shift_lits. land_lits. lor_plus 19. lor_plus 11. lor_plus 8.
  replace (b1 mod 8 * 524288 + b0 mod 256 * 2048 + b3 mod 8 * 256 + b2 mod 256) with (thumb_field b0 b1 b2 b3)
    by (unfold thumb_field; lia).
  assert (Hf : 0 <= thumb_field b0 b1 b2 b3 < 4194304) by (unfold thumb_field; lia).
  rewrite s32_small by lia.
  replace (thumb_field b0 b1 b2 b3 * 2) with (2 * thumb_field b0 b1 b2 b3) by lia.
  set (d := addsub enc _ p / 2).
  lor_plus 3. lor_plus 3.
  unfold thumb_out, u8. tuple_eq; lia.
Qed.

Lemma thumb_word_inv p b0 b1 b2 b3 c0 c1 c2 c3 :
  p mod 2 = 0 -> byte b0 -> byte b1 -> byte b2 -> byte b3 -> thumb_match b1 b3 = true ->
  thumb_word true p b0 b1 b2 b3 = (c0, c1, c2, c3) ->
  thumb_word false p c0 c1 c2 c3 = (b0, b1, b2, b3) /\ thumb_match c1 c3 = true /\
  byte c0 /\ byte c1 /\ byte c2 /\ byte c3.
Proof.
  intros Hp H0 H1 H2 H3 Hm He.
  rewrite thumb_match_spec in Hm by assumption.
  apply andb_true_iff in Hm. destruct Hm as [Hm3 Hm1]. apply Z.eqb_eq in Hm1, Hm3.
  rewrite thumb_word_spec in He by assumption.
  set (v := thumb_field b0 b1 b2 b3) in *.
  assert (Hv : 0 <= v < 4194304) by (unfold v, thumb_field, byte in *; lia).
  set (d := addsub true (2 * v) p / 2) in *.
  unfold thumb_out in He. tuple_inj He.
  assert (B0 : byte ((d / 2048) mod 256)) by (unfold byte; lia).
  assert (B1 : byte (240 + (d / 524288) mod 8)) by (unfold byte; lia).
  assert (B2 : byte (d mod 256)) by (unfold byte; lia).
  assert (B3 : byte (248 + (d / 256) mod 8)) by (unfold byte; lia).
  split; [|split; [|auto]].
  - rewrite thumb_word_spec by assumption.
    assert (Ef : thumb_field ((d / 2048) mod 256) (240 + (d / 524288) mod 8) (d mod 256) (248 + (d / 256) mod 8)
                 = d mod 4194304) by (unfold thumb_field; lia).
    rewrite Ef.
    assert (Ei : (addsub false (2 * (d mod 4194304)) p / 2) mod 4194304 = v)
      by (unfold d, addsub, s32; lia).
    set (e := addsub false (2 * (d mod 4194304)) p / 2) in *.
    unfold thumb_out, v, thumb_field, byte in *. tuple_eq; lia.
  - rewrite thumb_match_spec by assumption. apply andb_true_iff. split; apply Z.eqb_eq; lia.
Qed.

(* the high five bits of the bytes at odd offsets are what the match test looks at; conversion
   keeps them *)
Lemma thumb_word_keeps enc p b0 b1 b2 b3 c0 c1 c2 c3 :
  byte b0 -> byte b1 -> byte b2 -> byte b3 -> thumb_match b1 b3 = true ->
  thumb_word enc p b0 b1 b2 b3 = (c0, c1, c2, c3) -> c1 / 8 = b1 / 8 /\ c3 / 8 = b3 / 8.
Proof.
  intros H0 H1 H2 H3 Hm He.
  rewrite thumb_match_spec in Hm by assumption.
  apply andb_true_iff in Hm. destruct Hm as [Hm3 Hm1]. apply Z.eqb_eq in Hm1, Hm3.
  rewrite thumb_word_spec in He by assumption. unfold thumb_out in He. tuple_inj He. lia.
Qed.

Lemma thumb_match_div b1 b3 b1' b3' : byte b1 -> byte b3 -> byte b1' -> byte b3' ->
  b1' / 8 = b1 / 8 -> b3' / 8 = b3 / 8 -> thumb_match b1' b3' = thumb_match b1 b3.
Proof. intros. rewrite !thumb_match_spec by assumption. congruence. Qed.

Lemma thumb_go_step enc pos i b0 b1 b2 b3 t :
  thumb_go enc pos i (b0 :: b1 :: b2 :: b3 :: t) =
  if thumb_match b1 b3 then
    let '(c0, c1, c2, c3) := thumb_word enc (pc32 pos i) b0 b1 b2 b3 in
    let '(o, r) := thumb_go enc pos (i + 4) t in (c0 :: c1 :: c2 :: c3 :: o, r)
  else
    let '(o, r) := thumb_go enc pos (i + 2) (b2 :: b3 :: t) in (b0 :: b1 :: o, r).
Proof. reflexivity. Qed.

Lemma thumb_go_second enc pos i x0 x1 t o r :
  bytes_ok (x0 :: x1 :: t) = true -> thumb_go enc pos i (x0 :: x1 :: t) = (o, r) ->
  exists y0 y1 t', o ++ r = y0 :: y1 :: t' /\ y1 / 8 = x1 / 8 /\ byte y1.
Proof.
  intros Hb Hgo.
  apply bytes_ok_cons in Hb; destruct Hb as [H0 Hb].
  apply bytes_ok_cons in Hb; destruct Hb as [H1 Hb].
  destruct t as [|x2 [|x3 t]].
  - cbn [thumb_go] in Hgo. inversion Hgo; subst. exists x0, x1, []. split; [reflexivity|split; [reflexivity|assumption]].
  - cbn [thumb_go] in Hgo. inversion Hgo; subst. exists x0, x1, [x2]. split; [reflexivity|split; [reflexivity|assumption]].
  - apply bytes_ok_cons in Hb; destruct Hb as [H2 Hb].
    apply bytes_ok_cons in Hb; destruct Hb as [H3 Hb].
    rewrite thumb_go_step in Hgo.
    destruct (thumb_match x1 x3) eqn:Em.
    + destruct (thumb_word enc (pc32 pos i) x0 x1 x2 x3) as [[[c0 c1] c2] c3] eqn:Ew.
      destruct (thumb_go enc pos (i + 4) t) as [o' r'] eqn:Eg.
      injection Hgo as <- <-.
      destruct (thumb_word_keeps _ _ _ _ _ _ _ _ _ _ H0 H1 H2 H3 Em Ew) as [K1 K3].
      exists c0, c1, (c2 :: c3 :: o' ++ r'). split; [reflexivity|]. split; [assumption|].
      rewrite thumb_word_spec in Ew by assumption. unfold thumb_out in Ew. tuple_inj Ew. unfold byte. lia.
    + destruct (thumb_go enc pos (i + 2) (x2 :: x3 :: t)) as [o' r'] eqn:Eg.
      injection Hgo as <- <-.
      exists x0, x1, (o' ++ r'). split; [reflexivity|split; [reflexivity|assumption]].
Qed.

Lemma thumb_go_short enc pos i l : (length l < 4)%nat -> thumb_go enc pos i l = ([], l).
Proof.
  destruct l as [|b0 [|b1 [|b2 [|b3 t]]]]; cbn [length]; intros H; try reflexivity. lia.
Qed.

Lemma thumb_go_inverse n : forall l pos i o r, (length l <= n)%nat ->
  thumb_go true pos i l = (o, r) -> bytes_ok l = true -> (pos + i) mod 2 = 0 ->
  thumb_go false pos i (o ++ r) = (firstn (length o) l, r) /\ firstn (length o) l ++ r = l /\ bytes_ok o = true.
Proof.
  induction n as [|n IH]; intros l pos i o r Hn Hgo Hb Hal.
  - destruct l; [|cbn [length] in Hn; lia]. rewrite thumb_go_short in Hgo by (cbn [length]; lia).
    inversion Hgo; subst. cbn [app length firstn]. rewrite thumb_go_short by (cbn [length]; lia). auto.
  - destruct (Nat.lt_ge_cases (length l) 4) as [Hs|Hs].
    { rewrite thumb_go_short in Hgo by assumption.
      inversion Hgo; subst. cbn [app length firstn]. rewrite thumb_go_short by assumption. auto. }
    destruct l as [|b0 [|b1 [|b2 [|b3 t]]]]; try (cbn [length] in Hs; lia).
    pose proof Hb as Hb0.
    apply bytes_ok_cons in Hb; destruct Hb as [H0 Hb].
    apply bytes_ok_cons in Hb; destruct Hb as [H1 Hb2].
    pose proof Hb2 as Hb.
    apply bytes_ok_cons in Hb; destruct Hb as [H2 Hb].
    apply bytes_ok_cons in Hb; destruct Hb as [H3 Hb].
    rewrite thumb_go_step in Hgo.
    destruct (thumb_match b1 b3) eqn:Em.
    + destruct (thumb_word true (pc32 pos i) b0 b1 b2 b3) as [[[c0 c1] c2] c3] eqn:Ew.
      destruct (thumb_go true pos (i + 4) t) as [o' r'] eqn:Eg.
      injection Hgo as <- <-.
      assert (Hp : pc32 pos i mod 2 = 0) by (rewrite pc32_mod2; assumption).
      destruct (thumb_word_inv _ _ _ _ _ _ _ _ _ Hp H0 H1 H2 H3 Em Ew) as (Ed & Em' & G0 & G1 & G2 & G3).
      destruct (IH t pos (i + 4) o' r' ltac:(cbn [length] in Hn; lia) Eg Hb ltac:(lia)) as (E1 & E2 & E3).
      cbn [app length firstn]. rewrite thumb_go_step. rewrite Em', Ed, E1. cbn [app]. rewrite E2.
      repeat split. repeat (apply bytes_ok_cons; split; [assumption|]). assumption.
    + destruct (thumb_go true pos (i + 2) (b2 :: b3 :: t)) as [o' r'] eqn:Eg.
      injection Hgo as <- <-.
      destruct (IH (b2 :: b3 :: t) pos (i + 2) o' r' ltac:(cbn [length] in Hn |- *; lia) Eg Hb2 ltac:(lia)) as (E1 & E2 & E3).
      destruct (thumb_go_second _ _ _ _ _ _ _ _ Hb2 Eg) as (y2 & y3 & t' & Ey & Ky & By).
      cbn [app length firstn]. rewrite Ey. rewrite thumb_go_step.
      assert (Em' : thumb_match b1 y3 = false).
      { rewrite <- Em. apply thumb_match_div; auto. }
      rewrite Em'. rewrite <- Ey, E1. cbn [app]. rewrite E2.
      repeat split. repeat (apply bytes_ok_cons; split; [assumption|]). assumption.
Qed.

