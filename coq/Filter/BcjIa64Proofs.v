(* Filter/BcjIa64Proofs.v — the IA-64 filter: one-step unfolding, shape of a bundle step, stream
   facts; the inverse theorem is at the end. *)
From LzVerif Require Import Base.Bytes Filter.Bcj Filter.BcjStream Filter.BcjArithProofs
  Filter.BcjWordProofs Filter.BcjCodeProofs Filter.BcjStreamProofs Filter.BcjWinProofs.
Ltac Zify.zify_post_hook ::= Z.div_mod_to_equations.

Lemma ia64_pc pos i : s32 (s32 pos + s32 i) = pc32 pos i.
Proof. unfold pc32, s32, u64. lia. Qed.

Lemma ia64_go_unfold enc pos i b0 b1 b2 b3 b4 b5 b6 b7 b8 b9 b10 b11 b12 b13 b14 b15 t :
  ia64_go enc pos i (b0 :: b1 :: b2 :: b3 :: b4 :: b5 :: b6 :: b7 :: b8 :: b9 :: b10 :: b11 :: b12 :: b13 :: b14 :: b15 :: t) =
  (do w <- ia64_bundle enc (s32 (s32 pos + s32 i))
             [b0; b1; b2; b3; b4; b5; b6; b7; b8; b9; b10; b11; b12; b13; b14; b15];
   do r <- ia64_go enc pos (i + 16) t;
   let '(o, rest) := r in Ok (w ++ o, rest)).
Proof. reflexivity. Qed.

Lemma ia64_go_short enc pos i l : (length l < 16)%nat -> ia64_go enc pos i l = Ok ([], l).
Proof.
  intros H. do 16 (destruct l as [|? l]; [reflexivity|]). cbn [length] in H. lia.
Qed.

Definition ia64_win (enc : bool) (pc : Z) (w : list Z) : outcome (nat * list Z) :=
  do w' <- ia64_bundle enc pc w; Ok (16%nat, w').

Lemma ia64_go_step enc pos i l : (16 <= length l)%nat ->
  ia64_go enc pos i l =
  (do s <- ia64_win enc (pc32 pos i) (firstn 16 l);
   let '(n, e) := s in
   do r <- ia64_go enc pos (i + Z.of_nat n) (skipn n l);
   let '(o, rest) := r in Ok (e ++ o, rest)).
Proof.
  intros H. do 16 (destruct l as [|? l]; [cbn [length] in H; lia|]).
  rewrite ia64_go_unfold, ia64_pc. cbn [firstn]. unfold ia64_win.
  destruct (ia64_bundle enc (pc32 pos i) _) as [w| | |]; reflexivity.
Qed.

(* a slot step keeps the bundle a 16-byte list *)
Lemma le_bytes_ok n v : bytes_ok (le_bytes n v) = true.
Proof.
  revert v; induction n as [|n IH]; intros v; [reflexivity|].
  cbn [le_bytes]. apply bytes_ok_cons. split; [unfold byte; lia|apply IH].
Qed.

Lemma ia64_slot_shape enc pi mask w slot : (slot = 0 \/ slot = 1 \/ slot = 2) ->
  length w = 16%nat -> bytes_ok w = true ->
  length (ia64_slot enc pi mask w slot) = 16%nat /\ bytes_ok (ia64_slot enc pi mask w slot) = true.
Proof.
  intros Hs Hl Hb. unfold ia64_slot.
  destruct (Z.land (Z.shiftr mask slot) 1 =? 0); [auto|].
  match goal with |- context [if ?c then _ else _] => destruct c end; [auto|].
  split.
  - rewrite !app_length, firstn_length, le_bytes_length, skipn_length, Hl.
    destruct Hs as [-> | [-> | ->]]; reflexivity.
  - apply bytes_ok_app. split; [apply bytes_ok_firstn; assumption|].
    apply bytes_ok_app. split; [apply le_bytes_ok|apply bytes_ok_skipn; assumption].
Qed.

Lemma ia64_table_some b0 : byte b0 -> exists mask, zth IA64_BRANCH_TABLE (Z.land b0 31) = Some mask.
Proof.
  intros Hb. apply zth_some. unfold byte in Hb. land_lits. cbn. lia.
Qed.

Lemma ia64_win_ok enc pc w : length w = 16%nat -> bytes_ok w = true ->
  exists n e, ia64_win enc pc w = Ok (n, e) /\ (1 <= n <= 16)%nat /\ length e = n /\ bytes_ok e = true.
Proof.
  intros Hl Hb. unfold ia64_win, ia64_bundle.
  destruct w as [|b0 w']; [cbn [length] in Hl; lia|].
  assert (Hb0 : byte b0) by (apply bytes_ok_cons in Hb; tauto).
  destruct (ia64_table_some b0 Hb0) as (mask & Em). rewrite Em. cbn [obind].
  set (w := b0 :: w') in *.
  destruct (ia64_slot_shape enc pc mask w 0 ltac:(auto) Hl Hb) as [L0 B0].
  destruct (ia64_slot_shape enc pc mask _ 1 ltac:(auto) L0 B0) as [L1 B1].
  destruct (ia64_slot_shape enc pc mask _ 2 ltac:(auto) L1 B1) as [L2 B2].
  eexists _, _. split; [reflexivity|]. split; [lia|]. split; assumption.
Qed.

Lemma code_facts_ia64 enc : code_facts IA64 enc.
Proof.
  apply (win_code_facts IA64 enc 16 (ia64_win enc) (ia64_go enc)).
  - lia.
  - intros pos i l. apply ia64_go_short.
  - intros pos i l. apply ia64_go_step.
  - apply ia64_win_ok.
  - reflexivity.
Qed.
