(* Filter/BcjIa64Proofs.v — the IA-64 filter: one-step unfolding, shape of a bundle step, stream
   facts; the inverse theorem is at the end. *)
From LzVerif Require Import Base.Bytes Filter.Bcj Filter.BcjStream Filter.BcjArithProofs
  Filter.BcjWordProofs Filter.BcjCodeProofs Filter.BcjStreamProofs Filter.BcjWinProofs.
Ltac Zify.zify_post_hook ::= Z.div_mod_to_equations.

Lemma ia64_pc pos i : s32 (s32 pos + s32 i) = pc32 pos i.
Proof. unfold pc32, s32, u64. lia. Qed.

Lemma ia64_go_unfold enc pos i b0 b1 b2 b3 b4 b5 b6 b7 b8 b9 b10 b11 b12 b13 b14 b15 t :
  ia64_go enc pos i (b0 :: b1 :: b2 :: b3 :: b4 :: b5 :: b6 :: b7 :: b8 :: b9 :: b10 :: b11 :: b12 :: b13 :: b14 :: b15 :: t) =
  (do w <- ia64_bundle enc (s32 (s32 pos + s32 i))
             [b0; b1; b2; b3; b4; b5; b6; b7; b8; b9; b10; b11; b12; b13; b14; b15];
   do r <- ia64_go enc pos (i + 16) t;
   let '(o, rest) := r in Ok (w ++ o, rest)).
Proof. reflexivity. Qed.

Lemma ia64_go_short enc pos i l : (length l < 16)%nat -> ia64_go enc pos i l = Ok ([], l).
Proof.
  intros H. do 16 (destruct l as [|? l]; [reflexivity|]). cbn [length] in H. lia.
Qed.

Definition ia64_win (enc : bool) (pc : Z) (w : list Z) : outcome (nat * list Z) :=
  do w' <- ia64_bundle enc pc w; Ok (16%nat, w').

Lemma ia64_go_step enc pos i l : (16 <= length l)%nat ->
  ia64_go enc pos i l =
  (do s <- ia64_win enc (pc32 pos i) (firstn 16 l);
   let '(n, e) := s in
   do r <- ia64_go enc pos (i + Z.of_nat n) (skipn n l);
   let '(o, rest) := r in Ok (e ++ o, rest)).
Proof.
  intros H. do 16 (destruct l as [|? l]; [cbn [length] in H; lia|]).
  rewrite ia64_go_unfold, ia64_pc. cbn [firstn]. unfold ia64_win.
  destruct (ia64_bundle enc (pc32 pos i) _) as [w| | |]; reflexivity.
Qed.

(* a slot step keeps the bundle a 16-byte list *)
Lemma le_bytes_ok n v : bytes_ok (le_bytes n v) = true.
Proof.
  revert v; induction n as [|n IH]; intros v; [reflexivity|].
  cbn [le_bytes]. apply bytes_ok_cons. split; [unfold byte; lia|apply IH].
Qed.

Lemma ia64_slot_shape enc pi mask w slot : (slot = 0 \/ slot = 1 \/ slot = 2) ->
  length w = 16%nat -> bytes_ok w = true ->
  length (ia64_slot enc pi mask w slot) = 16%nat /\ bytes_ok (ia64_slot enc pi mask w slot) = true.
Proof.
  intros Hs Hl Hb. unfold ia64_slot.
  destruct (Z.land (Z.shiftr mask slot) 1 =? 0); [auto|].
  match goal with |- context [if ?c then _ else _] => destruct c end; [auto|].
  split.
  - rewrite !app_length, firstn_length, le_bytes_length, skipn_length, Hl.
    destruct Hs as [-> | [-> | ->]]; reflexivity.
  - apply bytes_ok_app. split; [apply bytes_ok_firstn; assumption|].
    apply bytes_ok_app. split; [apply le_bytes_ok|apply bytes_ok_skipn; assumption].
Qed.

Lemma ia64_table_some b0 : byte b0 -> exists mask, zth IA64_BRANCH_TABLE (Z.land b0 31) = Some mask.
Proof.
  intros Hb. apply zth_some. unfold byte in Hb. land_lits. cbn. lia.
Qed.

Lemma ia64_win_ok enc pc w : length w = 16%nat -> bytes_ok w = true ->
  exists n e, ia64_win enc pc w = Ok (n, e) /\ (1 <= n <= 16)%nat /\ length e = n /\ bytes_ok e = true.
Proof.
  intros Hl Hb. unfold ia64_win, ia64_bundle.
  destruct w as [|b0 w']; [cbn [length] in Hl; lia|].
  assert (Hb0 : byte b0) by (apply bytes_ok_cons in Hb; tauto).
  destruct (ia64_table_some b0 Hb0) as (mask & Em). rewrite Em. cbn [obind].
  set (w := b0 :: w') in *.
  destruct (ia64_slot_shape enc pc mask w 0 ltac:(auto) Hl Hb) as [L0 B0].
  destruct (ia64_slot_shape enc pc mask _ 1 ltac:(auto) L0 B0) as [L1 B1].
  destruct (ia64_slot_shape enc pc mask _ 2 ltac:(auto) L1 B1) as [L2 B2].
  eexists _, _. split; [reflexivity|]. split; [lia|]. split; assumption.
Qed.

Lemma code_facts_ia64 enc : code_facts IA64 enc.
Proof.
  apply (win_code_facts IA64 enc 16 (ia64_win enc) (ia64_go enc)).
  - lia.
  - intros pos i l. apply ia64_go_short.
  - intros pos i l. apply ia64_go_step.
  - apply ia64_win_ok.
  - reflexivity.
Qed.

(* ========================================================================================== *)
(* The inverse.  A bundle is the 128-bit little-endian value of its 16 bytes: a 5-bit template and
   three 41-bit slots.  A slot step reads and rewrites a 6-byte window, but all it looks at and all
   it changes lies inside its own 41-bit field, where it acts as "add or subtract the position in
   the 21-bit immediate" - so the three steps of the decoder undo the three steps of the encoder
   field by field. *)
(* clearing a set of bits *)
Lemma land_lnot_sub a b : Z.land a (Z.lnot b) = a - Z.land a b.
Proof.
  rewrite <- Z.ldiff_land.
  assert (H : Z.land (Z.ldiff a b) (Z.land a b) = 0).
  { apply Z.bits_inj'; intros n Hn. rewrite !Z.land_spec, Z.ldiff_spec, Z.bits_0.
    destruct (Z.testbit a n), (Z.testbit b n); reflexivity. }
  pose proof (Z.lor_ldiff_and a b) as E.
  rewrite <- Z.lxor_lor in E by assumption. rewrite <- Z.add_nocarry_lxor in E by assumption. lia.
Qed.

Lemma land_u64_r a m : 0 <= a < 18446744073709551616 -> Z.land a (u64 m) = Z.land a m.
Proof.
  intros Ha. unfold u64. change 18446744073709551616 with (2 ^ 64) in *.
  rewrite <- (Z.land_ones m) by lia. rewrite (Z.land_comm m), Z.land_assoc.
  rewrite (Z.land_ones a) by lia. rewrite Z.mod_small by assumption. reflexivity.
Qed.

(* the slot value (instr_norm) after conversion: the 20-bit immediate at bit 13 and the sign at bit 36
   are replaced by the converted address *)
Definition ia64_imm (yn : Z) : Z := (yn / 8192) mod 1048576 + (yn / 68719476736) mod 2 * 1048576.
Definition ia64_put (yn d : Z) : Z :=
  yn - (yn / 8192) mod 1048576 * 8192 - (yn / 68719476736) mod 2 * 68719476736
     + d mod 1048576 * 8192 + (d / 1048576) mod 2 * 68719476736.
Definition ia64_test (yn : Z) : bool :=
  negb (Z.land (Z.shiftr yn 37) 15 =? 5) || negb (Z.land (Z.shiftr yn 9) 7 =? 0).

Lemma ia64_norm_new enc pi yn : 0 <= yn < 8796093022208 ->
  (let src := Z.land (Z.shiftr yn 13) 0x0FFFFF in
   let src := Z.lor src (Z.shiftl (Z.land (Z.shiftr yn 36) 1) 20) in
   let src := s32 (Z.shiftl src 4) in
   let dest := addsub enc src pi in
   let dest := Z.shiftr (u32 dest) 4 in
   let instr_norm := Z.land yn (u64 (Z.lnot (Z.shiftl 0x8FFFFF 13))) in
   let instr_norm := Z.lor instr_norm (Z.shiftl (Z.land dest 0x0FFFFF) 13) in
   Z.lor instr_norm (u64 (Z.shiftl (Z.land dest 0x100000) (36 - 20)))) =
  ia64_put yn (u32 (addsub enc (ia64_imm yn * 16) pi) / 16).
Proof.
  intros Hy. cbv zeta.
  rewrite land_u64_r by lia. rewrite land_lnot_sub.
  change (Z.shiftl 9437183 13) with (Z.lor (Z.ones 20 * 2 ^ 13) (Z.ones 1 * 2 ^ 36)).
  rewrite Z.land_lor_distr_r, !land_field by lia.
  change (36 - 20) with 16.
  shift_lits. land_lits.
  change (2 ^ 13) with 8192. change (2 ^ 20) with 1048576. change (2 ^ 36) with 68719476736. change (2 ^ 1) with 2.
  lor_plus 20.
  rewrite (s32_small ((yn / 68719476736 mod 2 * 1048576 + yn / 8192 mod 1048576) * 16)) by lia.
  replace ((yn / 68719476736 mod 2 * 1048576 + yn / 8192 mod 1048576) * 16) with (ia64_imm yn * 16)
    by (unfold ia64_imm; lia).
  set (d := u32 (addsub enc (ia64_imm yn * 16) pi) / 16).
  assert (Hd : 0 <= d < 268435456) by (unfold d, u32; lia).
  rewrite (lor_add_field (yn / 8192 mod 1048576 * 8192) (yn / 68719476736 mod 2 * 68719476736) 36 1)
    by (change (2 ^ 36) with 68719476736; change (2 ^ 1) with 2; change (2 ^ (36 + 1)) with 137438953472; lia).
  unfold u64.
  rewrite (Z.mod_small (d / 1048576 mod 2 * 1048576 * 65536)) by lia.
  rewrite (lor_add_field _ (d mod 1048576 * 8192) 13 20)
    by (change (2 ^ 13) with 8192; change (2 ^ 20) with 1048576; change (2 ^ (13 + 20)) with 8589934592; lia).
  rewrite (lor_add_field _ (d / 1048576 mod 2 * 1048576 * 65536) 36 1)
    by (change (2 ^ 36) with 68719476736; change (2 ^ 1) with 2; change (2 ^ (36 + 1)) with 137438953472; lia).
  unfold ia64_put. lia.
Qed.

Definition ia64_g (enc : bool) (pi yn : Z) : Z := ia64_put yn (u32 (addsub enc (ia64_imm yn * 16) pi) / 16).

(* the conversion only touches bits 13..32 and 36 *)
Lemma ia64_g_frame enc pi yn : 0 <= yn ->
  ia64_g enc pi yn mod 8192 = yn mod 8192 /\
  (ia64_g enc pi yn / 8589934592) mod 8 = (yn / 8589934592) mod 8 /\
  ia64_g enc pi yn / 137438953472 = yn / 137438953472 /\ 0 <= ia64_g enc pi yn.
Proof.
  intros Hy. unfold ia64_g, ia64_put.
  set (d := u32 _ / 16). assert (Hd : 0 <= d) by (unfold d, u32; lia).
  repeat split; lia.
Qed.

Lemma ia64_g_imm enc pi yn : 0 <= yn ->
  ia64_imm (ia64_g enc pi yn) = (u32 (addsub enc (ia64_imm yn * 16) pi) / 16) mod 2097152.
Proof.
  intros Hy. unfold ia64_g, ia64_put, ia64_imm at 1 2.
  set (d := u32 _ / 16). assert (Hd : 0 <= d) by (unfold d, u32; lia). lia.
Qed.

Lemma ia64_g_inv pi yn : pi mod 16 = 0 -> 0 <= yn -> ia64_g false pi (ia64_g true pi yn) = yn.
Proof.
  intros Hp Hy.
  pose proof (ia64_g_imm true pi yn Hy) as Ei.
  assert (Himm : 0 <= ia64_imm yn < 2097152) by (unfold ia64_imm; lia).
  assert (Eback : (u32 (addsub false ((u32 (addsub true (ia64_imm yn * 16) pi) / 16) mod 2097152 * 16) pi) / 16) mod 2097152
                  = ia64_imm yn).
  { unfold addsub, u32, s32. lia. }
  assert (Hy1 : ia64_g true pi yn = ia64_put yn (u32 (addsub true (ia64_imm yn * 16) pi) / 16)) by reflexivity.
  set (y1 := ia64_g true pi yn) in *.
  unfold ia64_g. rewrite Ei.
  set (e := u32 (addsub true (ia64_imm yn * 16) pi) / 16) in *.
  set (d := u32 (addsub false (e mod 2097152 * 16) pi) / 16) in *.
  assert (He : 0 <= e) by (unfold e, u32; lia).
  assert (Hd : 0 <= d) by (unfold d, u32; lia).
  clearbody y1 e d.
  unfold ia64_put in *. unfold ia64_imm in *. lia.
Qed.

(* ------------------------------------------------------------------------------------------ *)
(* little-endian values of byte lists *)
Lemma le_value_app l1 l2 : le_value (l1 ++ l2) = le_value l1 + 256 ^ Z.of_nat (length l1) * le_value l2.
Proof.
  induction l1 as [|b t IH]; [cbn [app le_value length Z.of_nat]; lia|].
  cbn [app le_value length]. rewrite IH, Nat2Z.inj_succ, Z.pow_succ_r by lia. lia.
Qed.

Lemma le_value_bound l : bytes_ok l = true -> 0 <= le_value l < 256 ^ Z.of_nat (length l).
Proof.
  induction l as [|b t IH]; intros Hb; [cbn; lia|].
  apply bytes_ok_cons in Hb. destruct Hb as [Hb0 Hb]. specialize (IH Hb).
  cbn [le_value length]. rewrite Nat2Z.inj_succ, Z.pow_succ_r by lia. unfold byte in Hb0. lia.
Qed.

Lemma le_bytes_value l : bytes_ok l = true -> le_bytes (length l) (le_value l) = l.
Proof.
  induction l as [|b t IH]; intros Hb; [reflexivity|].
  apply bytes_ok_cons in Hb. destruct Hb as [Hb0 Hb]. specialize (IH Hb).
  cbn [le_value length le_bytes]. unfold byte in Hb0.
  f_equal; [lia|]. replace ((b + 256 * le_value t) / 256) with (le_value t) by lia. exact IH.
Qed.

Lemma le_value_inj l1 l2 : bytes_ok l1 = true -> bytes_ok l2 = true -> length l1 = length l2 ->
  le_value l1 = le_value l2 -> l1 = l2.
Proof.
  intros H1 H2 Hl Hv. rewrite <- (le_bytes_value l1 H1), <- (le_bytes_value l2 H2), Hl, Hv. reflexivity.
Qed.

(* one slot step on a 16-byte bundle, in terms of the 6-byte window at byte k, bit offset r *)
Definition ia64_slot_spec (enc : bool) (pi : Z) (apply : bool) (w : list Z) (k : nat) (p2r : Z) : list Z :=
  if apply then
    let x := le_value (firstn 6 (skipn k w)) in
    let yn := x / p2r in
    if ia64_test yn then w
    else firstn k w ++ le_bytes 6 (x mod p2r + ia64_g enc pi yn * p2r) ++ skipn (k + 6) w
  else w.

Lemma ia64_slot_eq enc pi mask w slot k p2r :
  (slot = 0 /\ k = 0%nat /\ p2r = 32) \/ (slot = 1 /\ k = 5%nat /\ p2r = 64) \/ (slot = 2 /\ k = 10%nat /\ p2r = 128) ->
  length w = 16%nat -> bytes_ok w = true ->
  ia64_slot enc pi mask w slot = ia64_slot_spec enc pi (negb (Z.land (Z.shiftr mask slot) 1 =? 0)) w k p2r.
Proof.
  intros Hs Hl Hb. unfold ia64_slot, ia64_slot_spec.
  destruct (Z.land (Z.shiftr mask slot) 1 =? 0); [reflexivity|]. cbn [negb].
  assert (Hsix : bytes_ok (firstn 6 (skipn k w)) = true) by (apply bytes_ok_firstn, bytes_ok_skipn; assumption).
  pose proof (le_value_bound _ Hsix) as Hx.
  assert (Hlen6 : length (firstn 6 (skipn k w)) = 6%nat).
  { rewrite firstn_length, skipn_length, Hl. destruct Hs as [(_ & -> & _)|[(_ & -> & _)|(_ & -> & _)]]; reflexivity. }
  rewrite Hlen6 in Hx. change (256 ^ Z.of_nat 6) with 281474976710656 in Hx.
  assert (Epos : Z.to_nat (Z.shiftr (5 + slot * 41) 3) = k /\ 2 ^ Z.land (5 + slot * 41) 7 = p2r /\ 0 <= Z.land (5 + slot * 41) 7 <= 7).
  { destruct Hs as [(-> & -> & ->)|[(-> & -> & ->)|(-> & -> & ->)]]; repeat split; try reflexivity; cbn; lia. }
  destruct Epos as (Ek & Er & Hr). rewrite Ek.
  set (r := Z.land (5 + slot * 41) 7) in *.
  set (x := le_value (firstn 6 (skipn k w))) in *.
  rewrite (Z.shiftr_div_pow2 x r) by lia. rewrite Er.
  assert (Hp2r : p2r = 32 \/ p2r = 64 \/ p2r = 128) by (destruct Hs as [(_ & _ & ->)|[(_ & _ & ->)|(_ & _ & ->)]]; auto).
  set (yn := x / p2r).
  assert (Hyn : 0 <= yn < 8796093022208) by (unfold yn; destruct Hp2r as [-> | [-> | ->]]; lia).
  fold (ia64_test yn). destruct (ia64_test yn); [reflexivity|].
  pose proof (ia64_norm_new enc pi yn Hyn) as Hnn. cbv zeta in Hnn. cbv zeta. rewrite Hnn. clear Hnn.
  fold (ia64_g enc pi yn).
  pose proof (ia64_g_frame enc pi yn ltac:(lia)) as (_ & _ & F3 & F4).
  assert (Hg : 0 <= ia64_g enc pi yn < 8796093022208) by lia.
  f_equal. f_equal. f_equal.
  (* instr & ((1 << bit_res) - 1) | (instr_norm << bit_res) *)
  rewrite !Z.shiftl_mul_pow2 by lia. rewrite Er.
  replace (1 * p2r - 1) with (Z.ones r) by (rewrite Z.ones_equiv, Er; lia).
  rewrite Z.land_ones by lia. rewrite Er.
  unfold u64. rewrite (Z.mod_small (ia64_g enc pi yn * p2r)) by (destruct Hp2r as [-> | [-> | ->]]; lia).
  rewrite Z.lor_comm.
  assert (Hk : exists kk, 0 <= kk /\ p2r = 2 ^ kk) by (exists r; split; [lia|symmetry; exact Er]).
  destruct Hk as (kk & Hkk & Ekk).
  rewrite Ekk. rewrite (lor_add_low (ia64_g enc pi yn) (x mod 2 ^ kk) kk) by (try lia; apply Z.mod_pos_bound; apply Z.pow_pos_nonneg; lia).
  lia.
Qed.

(* the conversion and its test only look at the low 41 bits of the slot value *)
Lemma ia64_test_spec yn : ia64_test yn = negb ((yn / 137438953472) mod 16 =? 5) || negb ((yn / 512) mod 8 =? 0).
Proof. unfold ia64_test. shift_lits. land_lits. reflexivity. Qed.

Lemma ia64_test_low yn : 0 <= yn -> ia64_test yn = ia64_test (yn mod 2199023255552).
Proof.
  intros H. rewrite !ia64_test_spec.
  replace ((yn mod 2199023255552 / 137438953472) mod 16) with ((yn / 137438953472) mod 16) by lia.
  replace ((yn mod 2199023255552 / 512) mod 8) with ((yn / 512) mod 8) by lia. reflexivity.
Qed.

Lemma ia64_g_low enc pi yn : 0 <= yn ->
  ia64_g enc pi yn = ia64_g enc pi (yn mod 2199023255552) + yn / 2199023255552 * 2199023255552.
Proof.
  intros H. unfold ia64_g.
  assert (Ei : ia64_imm (yn mod 2199023255552) = ia64_imm yn) by (unfold ia64_imm; lia).
  rewrite Ei. set (d := u32 _ / 16). unfold ia64_put. lia.
Qed.

Lemma ia64_g_range enc pi y : 0 <= y < 2199023255552 -> 0 <= ia64_g enc pi y < 2199023255552.
Proof.
  intros H. pose proof (ia64_g_frame enc pi y ltac:(lia)) as (_ & _ & F3 & F4). lia.
Qed.

Lemma ia64_g_test enc pi y : 0 <= y -> ia64_test (ia64_g enc pi y) = ia64_test y.
Proof.
  intros H. pose proof (ia64_g_frame enc pi y H) as (F1 & F2 & F3 & F4). rewrite !ia64_test_spec.
  replace ((ia64_g enc pi y / 137438953472) mod 16) with ((y / 137438953472) mod 16) by lia.
  replace ((ia64_g enc pi y / 512) mod 8) with ((y / 512) mod 8) by lia. reflexivity.
Qed.

(* what a slot step does to its 41-bit field *)
Definition ia64_G (enc : bool) (pi : Z) (apply : bool) (y : Z) : Z :=
  if apply then if ia64_test y then y else ia64_g enc pi y else y.

Lemma ia64_G_range enc pi ap y : 0 <= y < 2199023255552 -> 0 <= ia64_G enc pi ap y < 2199023255552.
Proof.
  intros H. unfold ia64_G. destruct ap; [|assumption]. destruct (ia64_test y); [assumption|].
  apply ia64_g_range. assumption.
Qed.

Lemma ia64_G_inv pi ap y : pi mod 16 = 0 -> 0 <= y -> ia64_G false pi ap (ia64_G true pi ap y) = y.
Proof.
  intros Hp Hy. unfold ia64_G. destruct ap; [|reflexivity].
  destruct (ia64_test y) eqn:Et; [rewrite Et; reflexivity|].
  rewrite ia64_g_test, Et by assumption. apply ia64_g_inv; assumption.
Qed.

Ltac pow256 :=
  repeat match goal with
  | |- context [256 ^ Z.of_nat ?n] =>
      let v := eval vm_compute in (256 ^ Z.of_nat n) in change (256 ^ Z.of_nat n) with v
  | H : context [256 ^ Z.of_nat ?n] |- _ =>
      let v := eval vm_compute in (256 ^ Z.of_nat n) in change (256 ^ Z.of_nat n) with v in H
  end.

(* a slot step rewrites one 41-bit field of the bundle's value *)
Lemma ia64_slot_field enc pi ap w k p2r bp L y H :
  (k = 0%nat /\ p2r = 32 /\ bp = 32) \/ (k = 5%nat /\ p2r = 64 /\ bp = 70368744177664) \/
  (k = 10%nat /\ p2r = 128 /\ bp = 154742504910672534362390528) ->
  length w = 16%nat -> bytes_ok w = true ->
  le_value w = L + bp * (y + 2199023255552 * H) -> 0 <= L < bp -> 0 <= y < 2199023255552 -> 0 <= H ->
  le_value (ia64_slot_spec enc pi ap w k p2r) = L + bp * (ia64_G enc pi ap y + 2199023255552 * H) /\
  length (ia64_slot_spec enc pi ap w k p2r) = 16%nat /\ bytes_ok (ia64_slot_spec enc pi ap w k p2r) = true.
Proof.
  intros Hs Hl Hb HN HL Hy HH. unfold ia64_slot_spec, ia64_G.
  destruct ap; [|auto].
  (* the three pieces of the bundle *)
  assert (Hk : (k + 6 <= 16)%nat) by (destruct Hs as [(-> & _)|[(-> & _)|(-> & _)]]; lia).
  assert (Ew : w = firstn k w ++ firstn 6 (skipn k w) ++ skipn (k + 6) w).
  { rewrite <- (firstn_skipn k w) at 1. f_equal. rewrite <- (firstn_skipn 6 (skipn k w)) at 1. f_equal.
    rewrite skipn_skipn'. reflexivity. }
  assert (HbA : bytes_ok (firstn k w) = true) by (apply bytes_ok_firstn; assumption).
  assert (HbX : bytes_ok (firstn 6 (skipn k w)) = true) by (apply bytes_ok_firstn, bytes_ok_skipn; assumption).
  assert (HbC : bytes_ok (skipn (k + 6) w) = true) by (apply bytes_ok_skipn; assumption).
  pose proof (le_value_bound _ HbA) as HA. pose proof (le_value_bound _ HbX) as HX. pose proof (le_value_bound _ HbC) as HC.
  assert (LA : length (firstn k w) = k) by (rewrite firstn_length; lia).
  assert (LX : length (firstn 6 (skipn k w)) = 6%nat) by (rewrite firstn_length, skipn_length; lia).
  rewrite LA in HA. rewrite LX in HX. change (256 ^ Z.of_nat 6) with 281474976710656 in HX.
  assert (EN : le_value w = le_value (firstn k w) + 256 ^ Z.of_nat k *
                 (le_value (firstn 6 (skipn k w)) + 281474976710656 * le_value (skipn (k + 6) w))).
  { rewrite Ew at 1. rewrite !le_value_app, LA, LX. reflexivity. }
  set (A := le_value (firstn k w)) in *. set (x := le_value (firstn 6 (skipn k w))) in *.
  set (C := le_value (skipn (k + 6) w)) in *.
  assert (Hyn : 0 <= x / p2r) by (destruct Hs as [(_ & -> & _)|[(_ & -> & _)|(_ & -> & _)]]; lia).
  (* the slot value seen by the step is y plus high bits of the next slot *)
  assert (Eyn : (x / p2r) mod 2199023255552 = y /\
                x / p2r / 2199023255552 * (2199023255552 * p2r) + x mod p2r + y * p2r = x).
  { rewrite EN in HN. clearbody A x C.
    destruct Hs as [(-> & -> & ->)|[(-> & -> & ->)|(-> & -> & ->)]];
      pow256; lia. }
  destruct Eyn as [Eyn Ex].
  rewrite (ia64_test_low (x / p2r)) by assumption. rewrite Eyn.
  destruct (ia64_test y); [auto|].
  rewrite (ia64_g_low enc pi (x / p2r)) by assumption. rewrite Eyn.
  pose proof (ia64_g_range enc pi y Hy) as Hg.
  set (g := ia64_g enc pi y) in *.
  set (x' := x mod p2r + (g + x / p2r / 2199023255552 * 2199023255552) * p2r).
  assert (Hx' : 0 <= x' < 281474976710656 /\ x' = x + (g - y) * p2r).
  { unfold x'. clearbody g. destruct Hs as [(_ & -> & _)|[(_ & -> & _)|(_ & -> & _)]]; lia. }
  destruct Hx' as [Hx' Ex'].
  split; [|split].
  - rewrite !le_value_app, LA, le_bytes_length.
    rewrite (le_value_bytes 6 x') by (change (256 ^ Z.of_nat 6) with 281474976710656; lia).
    change (256 ^ Z.of_nat 6) with 281474976710656. fold C A.
    rewrite Ex'. rewrite EN in HN. clearbody A x C g.
    destruct Hs as [(-> & -> & ->)|[(-> & -> & ->)|(-> & -> & ->)]];
      pow256; lia.
  - rewrite !app_length, LA, le_bytes_length, skipn_length. lia.
  - apply bytes_ok_app. split; [assumption|]. apply bytes_ok_app. split; [apply le_bytes_ok|assumption].
Qed.

(* ------------------------------------------------------------------------------------------ *)
(* a whole bundle: template (5 bits) and three 41-bit slots *)
Lemma ia64_bundle_fields enc pi w mask :
  length w = 16%nat -> bytes_ok w = true ->
  let N := le_value w in
  let t := N mod 32 in
  let y0 := (N / 32) mod 2199023255552 in
  let y1 := (N / 70368744177664) mod 2199023255552 in
  let y2 := N / 154742504910672534362390528 in
  let ap s := negb (Z.land (Z.shiftr mask s) 1 =? 0) in
  let w3 := ia64_slot enc pi mask (ia64_slot enc pi mask (ia64_slot enc pi mask w 0) 1) 2 in
  le_value w3 = t + 32 * ia64_G enc pi (ap 0) y0 + 70368744177664 * ia64_G enc pi (ap 1) y1
                + 154742504910672534362390528 * ia64_G enc pi (ap 2) y2 /\
  length w3 = 16%nat /\ bytes_ok w3 = true.
Proof.
  intros Hl Hb. cbv zeta.
  pose proof (le_value_bound w Hb) as HN. rewrite Hl in HN.
  change (256 ^ Z.of_nat 16) with 340282366920938463463374607431768211456 in HN.
  set (N := le_value w) in *.
  set (t := N mod 32). set (y0 := (N / 32) mod 2199023255552).
  set (y1 := (N / 70368744177664) mod 2199023255552). set (y2 := N / 154742504910672534362390528).
  assert (Ht : 0 <= t < 32) by (unfold t; lia).
  assert (H0 : 0 <= y0 < 2199023255552) by (unfold y0; lia).
  assert (H1 : 0 <= y1 < 2199023255552) by (unfold y1; lia).
  assert (H2 : 0 <= y2 < 2199023255552) by (unfold y2; lia).
  assert (EN : N = t + 32 * y0 + 70368744177664 * y1 + 154742504910672534362390528 * y2)
    by (unfold t, y0, y1, y2; lia).
  clearbody t y0 y1 y2.
  (* slot 0 *)
  rewrite (ia64_slot_eq enc pi mask w 0 0 32) by auto.
  set (a0 := negb (Z.land (Z.shiftr mask 0) 1 =? 0)).
  destruct (ia64_slot_field enc pi a0 w 0 32 32 t y0 (y1 + 2199023255552 * y2)
              (or_introl (conj eq_refl (conj eq_refl eq_refl))) Hl Hb) as (V0 & L0 & B0); [lia|lia|lia|lia|].
  pose proof (ia64_G_range enc pi a0 y0 H0) as G0.
  set (w1 := ia64_slot_spec enc pi a0 w 0 32) in *. set (g0 := ia64_G enc pi a0 y0) in *.
  (* slot 1 *)
  rewrite (ia64_slot_eq enc pi mask w1 1 5 64) by auto.
  set (a1 := negb (Z.land (Z.shiftr mask 1) 1 =? 0)).
  destruct (ia64_slot_field enc pi a1 w1 5 64 70368744177664 (t + 32 * g0) y1 y2
              (or_intror (or_introl (conj eq_refl (conj eq_refl eq_refl)))) L0 B0) as (V1 & L1 & B1); [lia|lia|lia|lia|].
  pose proof (ia64_G_range enc pi a1 y1 H1) as G1.
  set (w2 := ia64_slot_spec enc pi a1 w1 5 64) in *. set (g1 := ia64_G enc pi a1 y1) in *.
  (* slot 2 *)
  rewrite (ia64_slot_eq enc pi mask w2 2 10 128) by auto.
  set (a2 := negb (Z.land (Z.shiftr mask 2) 1 =? 0)).
  destruct (ia64_slot_field enc pi a2 w2 10 128 154742504910672534362390528 (t + 32 * g0 + 70368744177664 * g1) y2 0
              (or_intror (or_intror (conj eq_refl (conj eq_refl eq_refl)))) L1 B1) as (V2 & L2 & B2); [lia|lia|lia|lia|].
  split; [|split; assumption]. rewrite V2. lia.
Qed.

Lemma ia64_bundle_inv pi w : pi mod 16 = 0 -> length w = 16%nat -> bytes_ok w = true ->
  exists w', ia64_bundle true pi w = Ok w' /\ length w' = 16%nat /\ bytes_ok w' = true /\
             ia64_bundle false pi w' = Ok w.
Proof.
  intros Hp Hl Hb.
  destruct w as [|b0 wt] eqn:Ew; [cbn [length] in Hl; lia|].
  assert (Hb0 : byte b0) by (apply bytes_ok_cons in Hb; tauto).
  destruct (ia64_table_some b0 Hb0) as (mask & Em).
  rewrite <- Ew in *.
  pose proof (ia64_bundle_fields true pi w mask Hl Hb) as HE. cbv zeta in HE.
  destruct HE as (V3 & L3 & B3).
  set (w3 := ia64_slot true pi mask (ia64_slot true pi mask (ia64_slot true pi mask w 0) 1) 2) in *.
  exists w3. split; [rewrite Ew at 1; unfold ia64_bundle; rewrite Em; rewrite <- Ew; reflexivity|].
  split; [assumption|]. split; [assumption|].
  (* the decoder sees the same template *)
  pose proof (le_value_bound w Hb) as HN. rewrite Hl in HN.
  change (256 ^ Z.of_nat 16) with 340282366920938463463374607431768211456 in HN.
  set (N := le_value w) in *.
  set (t := N mod 32) in *. set (y0 := (N / 32) mod 2199023255552) in *.
  set (y1 := (N / 70368744177664) mod 2199023255552) in *. set (y2 := N / 154742504910672534362390528) in *.
  assert (Ht : 0 <= t < 32) by (unfold t; lia).
  assert (H0 : 0 <= y0 < 2199023255552) by (unfold y0; lia).
  assert (H1 : 0 <= y1 < 2199023255552) by (unfold y1; lia).
  assert (H2 : 0 <= y2 < 2199023255552) by (unfold y2; lia).
  assert (EN : N = t + 32 * y0 + 70368744177664 * y1 + 154742504910672534362390528 * y2)
    by (unfold t, y0, y1, y2; lia).
  set (a0 := negb (Z.land (Z.shiftr mask 0) 1 =? 0)) in *.
  set (a1 := negb (Z.land (Z.shiftr mask 1) 1 =? 0)) in *.
  set (a2 := negb (Z.land (Z.shiftr mask 2) 1 =? 0)) in *.
  pose proof (ia64_G_range true pi a0 y0 H0) as G0. pose proof (ia64_G_range true pi a1 y1 H1) as G1.
  pose proof (ia64_G_range true pi a2 y2 H2) as G2.
  set (g0 := ia64_G true pi a0 y0) in *. set (g1 := ia64_G true pi a1 y1) in *. set (g2 := ia64_G true pi a2 y2) in *.
  assert (EN3 : le_value w3 mod 32 = t /\ (le_value w3 / 32) mod 2199023255552 = g0 /\
                (le_value w3 / 70368744177664) mod 2199023255552 = g1 /\
                le_value w3 / 154742504910672534362390528 = g2).
  { rewrite V3. clearbody t y0 y1 y2 g0 g1 g2. repeat split; lia. }
  destruct EN3 as (T3 & Y30 & Y31 & Y32).
  destruct w3 as [|c0 w3t] eqn:Ew3; [cbn [length] in L3; lia|].
  assert (Hc0 : byte c0) by (apply bytes_ok_cons in B3; tauto).
  assert (Ec0 : Z.land c0 31 = Z.land b0 31).
  { land_lits. cbn [le_value] in T3.
    assert (Eb0 : N mod 32 = b0 mod 32) by (unfold N; rewrite Ew; cbn [le_value]; unfold byte in *; lia).
    unfold byte in *. fold t in Eb0. lia. }
  unfold ia64_bundle. rewrite Ec0, Em. f_equal.
  rewrite <- Ew3 in *.
  pose proof (ia64_bundle_fields false pi w3 mask L3 B3) as HD. cbv zeta in HD.
  destruct HD as (V6 & L6 & B6).
  fold a0 a1 a2 in V6. rewrite T3, Y30, Y31, Y32 in V6.
  unfold g0, g1, g2 in V6. rewrite !ia64_G_inv in V6 by (assumption || lia).
  apply le_value_inj; try assumption; [congruence|].
  rewrite V6. fold N. lia.
Qed.

(* ------------------------------------------------------------------------------------------ *)
Lemma ia64_go_inverse n : forall l pos i, (length l <= n)%nat -> bytes_ok l = true -> (pos + i) mod 16 = 0 ->
  exists o r, ia64_go true pos i l = Ok (o, r) /\
              ia64_go false pos i (o ++ r) = Ok (firstn (length o) l, r) /\
              firstn (length o) l ++ r = l /\ bytes_ok o = true.
Proof.
  induction n as [|n IH]; intros l pos i Hn Hb Hal.
  - destruct l; [|cbn [length] in Hn; lia]. exists [], []. rewrite !ia64_go_short by (cbn; lia). auto.
  - destruct (Nat.lt_ge_cases (length l) 16) as [Hs|Hs].
    + exists [], l. rewrite ia64_go_short by assumption. cbn [app length firstn].
      rewrite ia64_go_short by assumption. auto.
    + rewrite ia64_go_step by assumption. unfold ia64_win.
      assert (Hp : pc32 pos i mod 16 = 0) by (rewrite pc32_mod16; assumption).
      destruct (ia64_bundle_inv (pc32 pos i) (firstn 16 l) Hp) as (w' & Ew & Lw & Bw & Dw).
      { rewrite firstn_length. lia. }
      { apply bytes_ok_firstn. assumption. }
      rewrite Ew. cbn [obind]. change (Z.of_nat 16) with 16.
      destruct (IH (skipn 16 l) pos (i + 16)) as (o' & r' & E1 & E2 & E3 & E4).
      { rewrite skipn_length. lia. }
      { apply bytes_ok_skipn. assumption. }
      { lia. }
      rewrite E1. cbn [obind]. exists (w' ++ o'), r'. split; [reflexivity|].
      assert (Hlen : (16 <= length ((w' ++ o') ++ r'))%nat) by (rewrite !app_length; lia).
      split.
      { rewrite ia64_go_step by assumption. unfold ia64_win.
        rewrite <- app_assoc. rewrite firstn_app, Lw, Nat.sub_diag, firstn_all2 by lia. cbn [firstn]. rewrite app_nil_r.
        rewrite Dw. cbn [obind]. change (Z.of_nat 16) with 16.
        rewrite skipn_app, Lw, Nat.sub_diag, skipn_all2 by lia. cbn [skipn app].
        rewrite E2. cbn [obind]. f_equal. f_equal. f_equal.
        rewrite app_length, Lw. rewrite firstn_add. reflexivity. }
      split.
      { rewrite app_length, Lw, firstn_add, <- app_assoc, E3. apply firstn_skipn. }
      { apply bytes_ok_app. auto. }
Qed.

Theorem bcj_inverse_ia64 : forall start buf, start mod 16 = 0 -> bytes_ok buf = true ->
  exists st' out rest,
    bcj_code IA64 true (bcj_init IA64 start) buf = Ok (st', out, rest) /\
    bcj_code IA64 false (bcj_init IA64 start) (out ++ rest) = Ok (st', firstn (length out) buf, rest) /\
    firstn (length out) buf ++ rest = buf /\ bytes_ok out = true.
Proof.
  intros start buf Hal Hb. cbn [bcj_code]. unfold out_code.
  pose proof (init_aligned IA64 start Hal) as Hpos. cbn [bcj_align] in Hpos.
  destruct (ia64_go_inverse (length buf) buf (f_pos (bcj_init IA64 start)) 0 (le_n _) Hb ltac:(rewrite Z.add_0_r; exact Hpos))
    as (o & r & E1 & E2 & E3 & E4).
  rewrite E1. cbn [obind]. eexists _, o, r. split; [reflexivity|].
  rewrite E2. cbn [obind]. split; [|auto].
  assert (EL : zlen (firstn (length o) buf) = zlen o).
  { unfold zlen. rewrite firstn_length. f_equal.
    destruct (code_facts_ia64 true) as (Htot & _).
    destruct (Htot (bcj_init IA64 start) buf Hb) as (s' & o2 & r2 & E & _ & Hl & _).
    cbn [bcj_code] in E. unfold out_code in E. rewrite E1 in E. cbn [obind] in E. injection E as _ <- <-. lia. }
  rewrite EL. reflexivity.
Qed.
