(* Filter/Bcj2.v — model of the BCJ2 decoder of the crate:
     src/filter/bcj2/decode.rs   Bcj2Decoder::{new, decode}   (the resumable four-stream state machine)
     src/filter/bcj2.rs          BCJ2Reader::{new, read}      (the four inner readers, buffers, refill)
   as they are AFTER repo-patches/15-bcj2-ip-wrapping.patch (the instruction pointer is advanced with
   wrapping additions, as in the reference implementation) and repo-patches/16-bcj2-reader-errors.patch
   (an error of an inner reader neither drops bytes already decoded in the same call nor forgets the
   bytes of an incomplete CALL/JUMP word read before it).  The reader before patch 16 is the same
   function with [old_errors = true]: see Filter/Bcj2Defects.v.   Definitions only.

   Conventions.
   * A byte is a Z in [0,256); u32/usize values are Z with the wrap written where the Rust value can
     leave its range; where the Rust code would panic (slice index, checked `-`) the model returns
     [Panic code].
   * Memory.  `Bcj2Coder.bufs` is one Vec of 4 * BUF_SIZE bytes, `decoder.bufs[i]`/`decoder.lims[i]`
     are indices into it.  Of the region of stream i only the bytes from `bufs[i]` up to the end of
     what the last refill stored are ever read again (bytes before `bufs[i]` are consumed, bytes after
     the fill end are stale).  The model keeps exactly that live region as [sb_live] together with
     [sb_avail] = lims[i] - bufs[i]:  for MAIN and RC the live region ends at lims[i]; for CALL and
     JUMP it also holds the 0..3 bytes of an incomplete 32-bit word behind lims[i]
     (`extra_read_sizes`).  Consuming a byte is dropping the head of the list.
     The only way the code could look behind a live region is `read_u32_be(&src_bufs[cur..])` with
     0 < lims - cur < 4, which BCJ2Reader never produces (lims - bufs is a multiple of 4 by
     construction); the model answers [Panic ABSTRACTION] there — a marker, not a Rust panic; it is
     proved unreachable in the theorems and would show up as a disagreement in the correspondence.
   * `dest_buf`: every byte the code stores at an index >= dest is later covered by `self.dest +=`,
     and stores happen in increasing index order, so the model appends the stored bytes to an output
     list when `dest` moves over them; the bound of every store is checked ([Panic 1]).
   * Inner readers are scripts as in Filter/BcjStream.v ([inner_event], [inner_read]). *)
From LzVerif Require Export Base.Bytes Filter.BcjStream.

Definition BUF_SIZE : Z := 262144.          (* 1 << 18 *)
Definition BCJ2_NUM_STREAMS : Z := 4.
Definition BCJ2_STREAM_MAIN : Z := 0.
Definition BCJ2_STREAM_CALL : Z := 1.
Definition BCJ2_STREAM_JUMP : Z := 2.
Definition BCJ2_STREAM_RC : Z := 3.
Definition BCJ2_DEC_STATE_ORIG_0 : Z := 4.
Definition BCJ2_DEC_STATE_ORIG_3 : Z := 7.
Definition BCJ2_DEC_STATE_ORIG : Z := 8.
Definition BCJ2_DEC_STATE_OK : Z := 9.
Definition NUM_MODEL_BITS : Z := 11.
Definition BIT_MODEL_TOTAL : Z := 2048.
Definition NUM_MOVE_BITS : Z := 5.
Definition K_TOP_VALUE : Z := 16777216.     (* 1 << 24 *)
Definition BCJ2_NUM_PROBS : Z := 258.       (* 2 + 256 *)

Definition ABSTRACTION : Z := 90.           (* see above: outside the live-region representation *)

Definition bcj2_is_32bit_stream (s : Z) : bool := (s =? BCJ2_STREAM_CALL) || (s =? BCJ2_STREAM_JUMP).

(* live region of one stream buffer, see above *)
Record sbuf := mkSb { sb_live : list Z; sb_avail : Z }.

(* struct Bcj2Decoder *)
Record bdec := mkBd {
  bd_main : sbuf; bd_call : sbuf; bd_jump : sbuf; bd_rc : sbuf;
  bd_dest : Z;          (* usize *)
  bd_state : Z;         (* usize *)
  bd_ip : Z;            (* u32 *)
  bd_t0 : Z; bd_t1 : Z; bd_t2 : Z; bd_t3 : Z;     (* temp: [u8; 4] *)
  bd_range : Z;         (* u32 *)
  bd_code : Z;          (* u32 *)
  bd_probs : list Z     (* [u16; 2 + 256] *)
}.

Definition bd_set_state (d : bdec) (s : Z) : bdec :=
  mkBd (bd_main d) (bd_call d) (bd_jump d) (bd_rc d) (bd_dest d) s (bd_ip d)
       (bd_t0 d) (bd_t1 d) (bd_t2 d) (bd_t3 d) (bd_range d) (bd_code d) (bd_probs d).
Definition bd_set_dest (d : bdec) (x : Z) : bdec :=
  mkBd (bd_main d) (bd_call d) (bd_jump d) (bd_rc d) x (bd_state d) (bd_ip d)
       (bd_t0 d) (bd_t1 d) (bd_t2 d) (bd_t3 d) (bd_range d) (bd_code d) (bd_probs d).
(* range decoder registers and the RC stream *)
Definition bd_set_rc (d : bdec) (rc : sbuf) (range code : Z) : bdec :=
  mkBd (bd_main d) (bd_call d) (bd_jump d) rc (bd_dest d) (bd_state d) (bd_ip d)
       (bd_t0 d) (bd_t1 d) (bd_t2 d) (bd_t3 d) range code (bd_probs d).
Definition bd_set_stream (d : bdec) (s : Z) (b : sbuf) : bdec :=
  mkBd (if s =? BCJ2_STREAM_MAIN then b else bd_main d) (if s =? BCJ2_STREAM_CALL then b else bd_call d)
       (if s =? BCJ2_STREAM_JUMP then b else bd_jump d) (if s =? BCJ2_STREAM_RC then b else bd_rc d)
       (bd_dest d) (bd_state d) (bd_ip d)
       (bd_t0 d) (bd_t1 d) (bd_t2 d) (bd_t3 d) (bd_range d) (bd_code d) (bd_probs d).
Definition bd_stream (d : bdec) (s : Z) : sbuf :=
  if s =? BCJ2_STREAM_MAIN then bd_main d else if s =? BCJ2_STREAM_CALL then bd_call d
  else if s =? BCJ2_STREAM_JUMP then bd_jump d else bd_rc d.

Definition sb_empty : sbuf := mkSb [] 0.

(* Bcj2Decoder::new() followed by BCJ2Reader::init (bufs[i] = lims[i] = i * BUF_SIZE) *)
Definition bdec_new : bdec :=
  mkBd sb_empty sb_empty sb_empty sb_empty 0 BCJ2_DEC_STATE_OK 0 0 0 0 0 0 0
       (repeatn (Z.shiftr BIT_MODEL_TOTAL 1) (Z.to_nat BCJ2_NUM_PROBS)).

(* ------------------------------------------------------------------------------------------ *)
(* decode(): what it returns (true / false), the decoder afterwards, and the bytes it stored into
   dest_buf[old dest .. new dest) — newest first while the call runs. *)
Definition dres := (bool * bdec * list Z)%type.

(* one byte of the RC stream:  if bufs[RC] == lims[RC] -> None;  src_bufs[bufs[RC]], bufs[RC] += 1 *)
Inductive pop_res := PopEmpty | PopByte (b : Z) (rest : sbuf) | PopOutside.
Definition sb_pop (b : sbuf) : pop_res :=
  if sb_avail b =? 0 then PopEmpty
  else match sb_live b with
       | x :: l => PopByte x (mkSb l (sb_avail b - 1))
       | [] => PopOutside
       end.

(* self.code = (self.code << 8) | byte as u32 *)
Definition code_shift_in (code b : Z) : Z := Z.lor (wrap32 (code * 256)) b.

(* the first part of decode(): `if self.range <= 5 { ... while self.range != 5 { ... } }` *)
Inductive init_res := InitDone (d : bdec) | InitRet (ok : bool) (d : bdec).
Fixpoint bcj2_init_loop (fuel : nat) (d : bdec) : outcome init_res :=
  if bd_range d =? 5 then Ok (InitDone d)
  else
    match fuel with
    | O => Fuel
    | S f =>
        if (bd_range d =? 1) && negb (bd_code d =? 0) then Ok (InitRet false d)
        else
          match sb_pop (bd_rc d) with
          | PopEmpty => Ok (InitRet true (bd_set_state d BCJ2_STREAM_RC))
          | PopOutside => Panic ABSTRACTION
          | PopByte b rc' => bcj2_init_loop f (bd_set_rc d rc' (bd_range d + 1) (code_shift_in (bd_code d) b))
          end
    end.

(* dest_buf[dest] = b with dest_lim = dest_buf.len() *)
Definition store_ok (lim dest : Z) : bool := (0 <=? dest) && (dest <? lim).

Definition bd_temp (d : bdec) (i : Z) : option Z :=
  if i =? 0 then Some (bd_t0 d) else if i =? 1 then Some (bd_t1 d)
  else if i =? 2 then Some (bd_t2 d) else if i =? 3 then Some (bd_t3 d) else None.

(* `while self.state <= BCJ2_DEC_STATE_ORIG_3 { if dest == dest_lim { return true } dest_buf[dest] =
   temp[state - ORIG_0]; state += 1; dest += 1 }`; [inl] = returned true inside the loop *)
Fixpoint bcj2_flush_temp (fuel : nat) (lim : Z) (d : bdec) (o : list Z) : outcome (bool * bdec * list Z) :=
  if BCJ2_DEC_STATE_ORIG_3 <? bd_state d then Ok (false, d, o)
  else
    match fuel with
    | O => Fuel
    | S f =>
        if bd_dest d =? lim then Ok (true, d, o)
        else if negb (store_ok lim (bd_dest d)) then Panic 1
        else
          match bd_temp d (bd_state d - BCJ2_DEC_STATE_ORIG_0) with
          | None => Panic 1
          | Some b => bcj2_flush_temp f lim (bd_set_dest (bd_set_state d (bd_state d + 1)) (bd_dest d + 1)) (b :: o)
          end
    end.

(* `if self.range < K_TOP_VALUE { if bufs[RC] == lims[RC] { state = RC; return true } range <<= 8;
   code = (code << 8) | byte }`;  NormNeed = the RC buffer is empty *)
Inductive norm_res := NormOk (d : bdec) | NormNeed | NormOutside.
Definition bcj2_normalize (d : bdec) : norm_res :=
  if bd_range d <? K_TOP_VALUE then
    match sb_pop (bd_rc d) with
    | PopEmpty => NormNeed
    | PopOutside => NormOutside
    | PopByte b rc' => NormOk (bd_set_rc d rc' (wrap32 (bd_range d * 256)) (code_shift_in (bd_code d) b))
    end
  else NormOk d.

(* The inner copy loop over at most [n] bytes (src .. src_lim) of the MAIN buffer [m]:
       loop { b = src_bufs[src]; dest_buf[dest] = b;
              if b != 0x0F { if (b & 0xFE) == 0xE8 { break } dest += 1; src += 1;
                             if src != src_lim { continue } break }
              dest += 1; src += 1; if src == src_lim { break }
              if (src_bufs[src] & 0xF0) != 0x80 { continue }
              dest_buf[dest] = src_bufs[src]; break }
   Result: the bytes stepped over (newest first), the buffer from `src` on, src_lim - src.
   None: the live region is shorter than [n] (never, [n] is at most its length). *)
Fixpoint bcj2_scan (n : nat) (m : list Z) (acc : list Z) : option (list Z * list Z * nat) :=
  match n with
  | O => Some (acc, m, O)
  | S n' =>
      match m with
      | [] => None
      | b :: tl =>
          if negb (b =? 15) then
            if Z.land b 254 =? 232 then Some (acc, m, n)
            else bcj2_scan n' tl (b :: acc)
          else
            match n' with
            | O => Some (b :: acc, tl, O)
            | S _ =>
                match tl with
                | [] => None
                | c :: _ => if negb (Z.land c 240 =? 128) then bcj2_scan n' tl (b :: acc)
                            else Some (b :: acc, tl, n')
                end
            end
      end
  end.

Definition bd_set_main (d : bdec) (m : sbuf) (t3 ip dest state : Z) : bdec :=
  mkBd m (bd_call d) (bd_jump d) (bd_rc d) dest state ip
       (bd_t0 d) (bd_t1 d) (bd_t2 d) t3 (bd_range d) (bd_code d) (bd_probs d).

(* prob index: if b == 0xE8 { 2 + prev } else if b == 0xE9 { 1 } else { 0 } *)
Definition bcj2_prob_index (b prev : Z) : Z :=
  if b =? 232 then 2 + prev else if b =? 233 then 1 else 0.

(* the range-coded bit: ttt = *prob; bound = (range >> 11) * ttt;
   code < bound: range = bound, *prob = ttt + ((2048 - ttt) >> 5)            (bit 0)
   otherwise   : range -= bound, code -= bound, *prob = ttt - (ttt >> 5)      (bit 1)
   The u32 product and the u16/u32 subtractions are checked in a build with overflow checks. *)
Definition bcj2_bit (range code ttt : Z) : outcome (Z * Z * Z * Z) :=
  let bound := Z.shiftr range NUM_MODEL_BITS * ttt in
  if 4294967296 <=? bound then Panic 2
  else if code <? bound then
    if BIT_MODEL_TOTAL <? ttt then Panic 2
    else Ok (0, bound, code, ttt + Z.shiftr (BIT_MODEL_TOTAL - ttt) NUM_MOVE_BITS)
  else
    if range <? bound then Panic 2
    else Ok (1, range - bound, code - bound, ttt - Z.shiftr ttt NUM_MOVE_BITS).

Definition bd_set_bit (d : bdec) (range code : Z) (probs : list Z) : bdec :=
  mkBd (bd_main d) (bd_call d) (bd_jump d) (bd_rc d) (bd_dest d) (bd_state d) (bd_ip d)
       (bd_t0 d) (bd_t1 d) (bd_t2 d) (bd_t3 d) range code probs.

(* The block after the bit: the 32-bit word of the CALL or JUMP stream.
   CvBreak = `break` out of the outer loop, CvCont = next round of the outer loop. *)
Inductive conv_res := CvBreak (d : bdec) (o : list Z) | CvCont (d : bdec) (o : list Z).

Definition bd_set_conv (d : bdec) (is_call : bool) (sb : sbuf) (ip dest state t0 t1 t2 t3 : Z) : bdec :=
  mkBd (bd_main d) (if is_call then sb else bd_call d) (if is_call then bd_jump d else sb) (bd_rc d)
       dest state ip t0 t1 t2 t3 (bd_range d) (bd_code d) (bd_probs d).

Definition bcj2_conv (lim : Z) (d : bdec) (o : list Z) : outcome conv_res :=
  let is_call := bd_t3 d =? 232 in
  let cj := if is_call then BCJ2_STREAM_CALL else BCJ2_STREAM_JUMP in
  let sb := if is_call then bd_call d else bd_jump d in
  if sb_avail sb =? 0 then Ok (CvBreak (bd_set_state d cj) o)        (* cur == lims[cj] *)
  else
    match sb_live sb with
    | b0 :: b1 :: b2 :: b3 :: rest =>
        let val := ((b0 * 256 + b1) * 256 + b2) * 256 + b3 in         (* read_u32_be *)
        let sb' := mkSb rest (sb_avail sb - 4) in
        let ip := wrap32 (bd_ip d + 4) in
        let val := wrap32 (val - ip) in                                (* val.wrapping_sub(self.ip) *)
        let dest := bd_dest d in
        if lim <? dest then Panic 2                                    (* dest_lim - dest *)
        else
          let rem := lim - dest in
          let v0 := val mod 256 in
          let v1 := Z.shiftr val 8 mod 256 in
          let v2 := Z.shiftr val 16 mod 256 in
          let v3 := Z.shiftr val 24 mod 256 in
          if rem <? 4 then
            (* temp = val.to_le_bytes(); the first rem bytes are stored *)
            let o' := if 2 <? rem then v2 :: v1 :: v0 :: o else if 1 <? rem then v1 :: v0 :: o
                      else if 0 <? rem then v0 :: o else o in
            Ok (CvBreak (bd_set_conv d is_call sb' ip (dest + rem) (BCJ2_DEC_STATE_ORIG_0 + rem) v0 v1 v2 v3) o')
          else
            Ok (CvCont (bd_set_conv d is_call sb' ip (dest + 4) (bd_state d) (bd_t0 d) (bd_t1 d) (bd_t2 d) v3)
                       (v3 :: v2 :: v1 :: v0 :: o))
    | _ => Panic ABSTRACTION
    end.

(* after `break`: one more normalisation if a byte is at hand; return true *)
Definition bcj2_finish (d : bdec) (o : list Z) : outcome dres :=
  match bcj2_normalize d with
  | NormOk d' => Ok (true, d', o)
  | NormNeed => Ok (true, d, o)
  | NormOutside => Panic ABSTRACTION
  end.

(* the outer `loop` *)
Fixpoint bcj2_loop (fuel : nat) (lim : Z) (d : bdec) (o : list Z) : outcome dres :=
  match fuel with
  | O => Fuel
  | S f =>
      if bcj2_is_32bit_stream (bd_state d) then
        do c <- bcj2_conv lim (bd_set_state d BCJ2_DEC_STATE_OK) o;
        match c with
        | CvBreak d' o' => bcj2_finish d' o'
        | CvCont d' o' => bcj2_loop f lim d' o'
        end
      else
        match bcj2_normalize d with
        | NormOutside => Panic ABSTRACTION
        | NormNeed => Ok (true, bd_set_state d BCJ2_STREAM_RC, o)
        | NormOk d1 =>
            let mb := bd_main d1 in
            let num := sb_avail mb in                               (* lims[MAIN] - src *)
            if num <? 0 then Panic 2
            else if num =? 0 then Ok (true, bd_set_state d1 BCJ2_STREAM_MAIN, o)
            else if lim <? bd_dest d1 then Panic 2                  (* dest_lim - dest *)
            else
              let room := lim - bd_dest d1 in
              let num := if room <? num then room else num in
              if num =? 0 then Ok (true, bd_set_state d1 BCJ2_DEC_STATE_ORIG, o)
              else
                (* if temp[3] == 0x0F && (src_bufs[src] & 0xF0) == 0x80 { dest_buf[dest] = src_bufs[src] }
                   else the copy loop *)
                let scanned :=
                  match sb_live mb with
                  | [] => None
                  | b :: _ =>
                      if (bd_t3 d1 =? 15) && (Z.land b 240 =? 128) then Some ([], sb_live mb, Z.to_nat num)
                      else bcj2_scan (Z.to_nat num) (sb_live mb) []
                  end in
                match scanned with
                | None => Panic ABSTRACTION
                | Some (copied, rest, nleft) =>
                    let k := num - Z.of_nat nleft in                 (* src - bufs[MAIN] *)
                    match nleft with
                    | O =>
                        (* src == src_lim *)
                        match copied with
                        | [] => Panic ABSTRACTION                   (* src_bufs[src - 1] with src = bufs[MAIN], a consumed byte: never, num > 0 *)
                        | last :: _ =>
                            let mb' := mkSb rest (sb_avail mb - k) in
                            let st := if sb_avail mb' =? 0 then BCJ2_STREAM_MAIN else BCJ2_DEC_STATE_ORIG in
                            Ok (true, bd_set_main d1 mb' last (wrap32 (bd_ip d1 + wrap32 k)) (bd_dest d1 + k) st, copied ++ o)
                        end
                    | S _ =>
                        match rest with
                        | [] => Panic ABSTRACTION
                        | b :: rest' =>
                            let prev := match copied with [] => bd_t3 d1 | p :: _ => p end in
                            let mb' := mkSb rest' (sb_avail mb - (k + 1)) in
                            let d2 := bd_set_main d1 mb' b (wrap32 (bd_ip d1 + wrap32 (k + 1))) (bd_dest d1 + (k + 1)) (bd_state d1) in
                            let o2 := b :: copied ++ o in
                            let idx := bcj2_prob_index b prev in
                            match zth (bd_probs d2) idx with
                            | None => Panic 1
                            | Some ttt =>
                                do r <- bcj2_bit (bd_range d2) (bd_code d2) ttt;
                                let '(bit, range, code, p') := r in
                                let d3 := bd_set_bit d2 range code (zupd (bd_probs d2) idx p') in
                                if bit =? 0 then bcj2_loop f lim d3 o2
                                else
                                  do c <- bcj2_conv lim d3 o2;
                                  match c with
                                  | CvBreak d' o' => bcj2_finish d' o'
                                  | CvCont d' o' => bcj2_loop f lim d' o'
                                  end
                            end
                        end
                    end
                end
        end
  end.

(* every round of the outer loop that does not return takes a byte of the MAIN buffer, except a
   first one that resumes in a CALL/JUMP state *)
Definition bcj2_loop_fuel (d : bdec) : nat := S (S (Z.to_nat (sb_avail (bd_main d)))).

(* Bcj2Decoder::decode(src_bufs, dest_buf) with dest_buf.len() = lim; output newest first *)
Definition bcj2_decode_rev (lim : Z) (d : bdec) : outcome dres :=
  if bd_range d <=? 5 then
    do r <- bcj2_init_loop 5 (bd_set_state d BCJ2_DEC_STATE_OK);
    match r with
    | InitRet ok d' => Ok (ok, d', [])
    | InitDone d' =>
        if bd_code d' =? 4294967295 then Ok (false, d', [])
        else
          let d2 := bd_set_rc d' (bd_rc d') 4294967295 (bd_code d') in
          bcj2_loop (bcj2_loop_fuel d2) lim d2 []
    end
  else if BCJ2_DEC_STATE_ORIG_0 <=? bd_state d then
    do r <- bcj2_flush_temp 4 lim d [];
    let '(ret, d', o) := r in
    if ret then Ok (true, d', o) else bcj2_loop (bcj2_loop_fuel d') lim d' o
  else bcj2_loop (bcj2_loop_fuel d) lim d [].

Definition bcj2_decode (lim : Z) (d : bdec) : outcome dres :=
  do r <- bcj2_decode_rev lim d;
  let '(ok, d', o) := r in Ok (ok, d', rev o).

(* ------------------------------------------------------------------------------------------ *)
(* BCJ2Reader *)
Definition inners := (list inner_event * list inner_event * list inner_event * list inner_event)%type.

Definition inner_get (ins : inners) (s : Z) : list inner_event :=
  let '(m, c, j, r) := ins in
  if s =? BCJ2_STREAM_MAIN then m else if s =? BCJ2_STREAM_CALL then c else if s =? BCJ2_STREAM_JUMP then j else r.
Definition inner_set (ins : inners) (s : Z) (x : list inner_event) : inners :=
  let '(m, c, j, r) := ins in
  if s =? BCJ2_STREAM_MAIN then (x, c, j, r) else if s =? BCJ2_STREAM_CALL then (m, x, j, r)
  else if s =? BCJ2_STREAM_JUMP then (m, c, x, r) else (m, c, j, x).

(* struct BCJ2Reader: the decoder (with the buffers, see above), extra_read_sizes (entries MAIN and
   RC are never written and stay 0), uncompressed_size.  `read_res` is always [true; 4] (never
   assigned), its test in read() is dead code. *)
Record b2reader := mkB2 {
  br_dec : bdec;
  br_extra_call : Z;
  br_extra_jump : Z;
  br_size : Z;          (* uncompressed_size: u64 *)
  br_err : option Z     (* err: a non-transient error of an inner reader, reported by the next call (patch 16) *)
}.

Definition br_extra (r : b2reader) (s : Z) : Z :=
  if s =? BCJ2_STREAM_CALL then br_extra_call r else if s =? BCJ2_STREAM_JUMP then br_extra_jump r else 0.
Definition br_set_extra (r : b2reader) (s x : Z) : b2reader :=
  mkB2 (br_dec r) (if s =? BCJ2_STREAM_CALL then x else br_extra_call r)
       (if s =? BCJ2_STREAM_JUMP then x else br_extra_jump r) (br_size r) (br_err r).
Definition br_set_dec (r : b2reader) (d : bdec) : b2reader :=
  mkB2 d (br_extra_call r) (br_extra_jump r) (br_size r) (br_err r).
Definition br_set_size (r : b2reader) (n : Z) : b2reader :=
  mkB2 (br_dec r) (br_extra_call r) (br_extra_jump r) n (br_err r).
Definition br_set_err (r : b2reader) (e : option Z) : b2reader :=
  mkB2 (br_dec r) (br_extra_call r) (br_extra_jump r) (br_size r) e.

Definition bcj2_reader_new (uncompressed_size : Z) : b2reader := mkB2 bdec_new 0 0 uncompressed_size None.

(* the inner `loop` of the refill:
     loop { cur = inputs[s].read(&mut buf[total_read .. BUF_SIZE])?; if cur == 0 { break }
            total_read += cur; if !(total_read < 4 && is_32bit(s)) { break } }
   [buf] = the bytes at the start of the stream's buffer (total_read of them) *)
Fixpoint bcj2_fill (fuel : nat) (s : Z) (ev : list inner_event) (buf : list Z) (total : Z)
  : outcome (option Z * list Z * Z * list inner_event) :=
  match fuel with
  | O => Fuel
  | S f =>
      match inner_read ev (BUF_SIZE - total) with
      | (BjErr c, ev') => Ok (Some c, buf, total, ev')
      | (BjData [], ev') => Ok (None, buf, total, ev')
      | (BjData p, ev') =>
          let total' := total + zlen p in
          if (total' <? 4) && bcj2_is_32bit_stream s then bcj2_fill f s ev' (buf ++ p) total'
          else Ok (None, buf ++ p, total', ev')
      end
  end.

(* result of one read() call: bytes handed to the caller, Some code if the call returned Err(code),
   the reader, the inner readers *)
Definition b2_result := (list Z * option Z * b2reader * inners)%type.

(* the checks after the loop *)
Definition bcj2_read_tail (r : b2reader) (ins : inners) (out : list Z) : b2_result :=
  let d := br_dec r in
  if (br_size r =? 0) && negb (bd_code d =? 0) then ([], Some E_INVALID_DATA, r, ins)
  else if (br_size r =? 0) && negb (bd_state d =? BCJ2_STREAM_MAIN) && negb (bd_state d =? BCJ2_DEC_STATE_ORIG)
  then ([], Some E_INVALID_DATA, r, ins)
  else (rev out, None, r, ins).

(* the `loop` of BCJ2Reader::read; [lim] = dest_buf.len(), [out] = bytes decoded so far in this call
   (newest first), [result_size] = their number, [offset] as in the code.
   [old_errors]: the code before repo-patches/16 (an inner error returns Err at once). *)
Fixpoint bcj2_read_loop (old_errors : bool) (fuel : nat) (lim : Z) (r : b2reader) (ins : inners)
                        (out : list Z) (result_size offset : Z) : outcome b2_result :=
  match fuel with
  | O => Fuel
  | S f =>
      do dr <- bcj2_decode_rev lim (br_dec r);
      let '(ok, d1, o) := dr in
      let r1 := br_set_dec r d1 in
      if negb ok then Ok ([], Some E_INVALID_DATA, r1, ins)
      else if bd_dest d1 <? offset then Panic 2                        (* dest() - offset *)
      else
        let cur := bd_dest d1 - offset in
        if br_size r1 <? cur then Panic 2                              (* uncompressed_size -= cur_size *)
        else
          let out := o ++ out in
          let result_size := result_size + cur in
          let r2 := br_set_size r1 (br_size r1 - cur) in
          let offset := offset + cur in
          let s := bd_state d1 in
          if BCJ2_NUM_STREAMS <=? s then Ok (bcj2_read_tail r2 ins out)
          else
            (* move the carried bytes of an incomplete word to the start of the buffer:
               for i in 0..extra { bufs[buf_index + i] = bufs[from + i] }, from = decoder.bufs[s];
               lims[s] = bufs[s] = buf_index *)
            let extra := br_extra r2 s in
            let sb := bd_stream d1 s in
            let carried := firstn (Z.to_nat extra) (sb_live sb) in
            if zlen carried <? extra then Panic ABSTRACTION
            else
              let d2 := bd_set_stream d1 s (mkSb carried 0) in
              do fr <- bcj2_fill 4 s (inner_get ins s) carried extra;
              let '(err, buf, total, ev') := fr in
              let ins' := inner_set ins s ev' in
              match err with
              | Some c =>
                  if old_errors then Ok ([], Some c, br_set_dec r2 d2, ins')
                  else
                    (* patch 16: keep what has been read of the word, hand out what has been decoded;
                       an error other than Interrupted is remembered for the next call *)
                    let r3 := br_set_dec r2 (bd_set_stream d1 s (mkSb buf 0)) in
                    let r3 := if bcj2_is_32bit_stream s then br_set_extra r3 s total else r3 in
                    if result_size =? 0 then Ok ([], Some c, r3, ins')
                    else Ok (rev out, None, (if c =? E_INTERRUPTED then r3 else br_set_err r3 (Some c)), ins')
              | None =>
                  if total =? 0 then Ok (bcj2_read_tail (br_set_dec r2 d2) ins' out)
                  else if bcj2_is_32bit_stream s then
                    let extra' := Z.land total 3 in
                    let r3 := br_set_extra r2 s extra' in
                    if total <? 4 then
                      let r4 := br_set_dec r3 (bd_set_stream d1 s (mkSb buf 0)) in
                      if result_size =? 0 then Ok ([], Some E_INVALID_DATA, r4, ins')
                      else Ok (rev out, None, r4, ins')
                    else
                      bcj2_read_loop old_errors f lim (br_set_dec r3 (bd_set_stream d1 s (mkSb buf (total - extra')))) ins'
                                     out result_size offset
                  else
                    bcj2_read_loop old_errors f lim (br_set_dec r2 (bd_set_stream d1 s (mkSb buf total))) ins'
                                   out result_size offset
              end
  end.

(* BCJ2Reader::read(buf) with buf.len() = n *)
Definition bcj2_read_gen (old_errors : bool) (fuel : nat) (r : b2reader) (ins : inners) (n : Z) : outcome b2_result :=
  match (if 0 <? n then br_err r else None) with
  | Some c => Ok ([], Some c, br_set_err r None, ins)       (* if !buf.is_empty() { if let Some(err) = self.err.take() { return Err(err) } } *)
  | None =>
      let lim := if br_size r <? n then br_size r else n in
      if lim <=? 0 then Ok ([], None, r, ins)
      else bcj2_read_loop old_errors fuel lim (br_set_dec r (bd_set_dest (br_dec r) 0)) ins [] 0 0
  end.

Definition bcj2_read := bcj2_read_gen false.

(* all the data the four scripts still hold; every round of read()'s loop that is followed by
   another one has taken at least one byte from an inner reader *)
Definition inners_data_len (ins : inners) : nat :=
  let '(m, c, j, r) := ins in
  (length (script_data m) + length (script_data c) + length (script_data j) + length (script_data r))%nat.
Definition bcj2_read_fuel (ins : inners) : nat := S (S (inners_data_len ins)).

(* a history of read calls with the given destination sizes *)
Fixpoint bcj2_read_calls (fuel : nat) (r : b2reader) (ins : inners) (sizes : list Z)
  : outcome (list Z * list Z * b2reader * inners) :=
  match sizes with
  | [] => Ok ([], [], r, ins)
  | n :: ns =>
      do x <- bcj2_read fuel r ins n;
      let '(o1, e1, r1, ins1) := x in
      do y <- bcj2_read_calls fuel r1 ins1 ns;
      let '(o2, es, r2, ins2) := y in
      Ok (o1 ++ o2, (match e1 with Some c => [c] | None => [] end) ++ es, r2, ins2)
  end.

(* The caller's loop of the correspondence (harness: a_bcj2::drive, the same as for BCJ): sizes
   cycled (4096 if none), a call failing with Interrupted is repeated, another error ends the loop,
   Ok(0) for a non-empty destination ends it normally. *)
Fixpoint bcj2_drive (old_errors : bool) (calls : nat) (fuel : nat) (r : b2reader) (ins : inners) (all cur : list Z)
  : outcome (list Z * option Z) :=
  match calls with
  | O => Fuel
  | S calls' =>
      let '(sz, next) := match cur with
                         | s :: rest => (s, rest)
                         | [] => match all with s :: rest => (s, rest) | [] => (4096, []) end
                         end in
      do x <- bcj2_read_gen old_errors fuel r ins sz;
      let '(o, e, r1, ins1) := x in
      match e with
      | Some c =>
          if c =? E_INTERRUPTED then bcj2_drive old_errors calls' fuel r1 ins1 all next
          else Ok ([], Some c)
      | None =>
          if sz <=? 0 then
            if forallb (fun s => s <=? 0) all && negb (match all with [] => true | _ => false end)
            then Ok ([], None)
            else bcj2_drive old_errors calls' fuel r1 ins1 all next
          else
            match o with
            | [] => Ok ([], None)
            | _ => do y <- bcj2_drive old_errors calls' fuel r1 ins1 all next;
                   let '(o2, e2) := y in Ok (o ++ o2, e2)
            end
      end
  end.

Definition inners_events (ins : inners) : nat :=
  let '(m, c, j, r) := ins in (length m + length c + length j + length r)%nat.
Definition bcj2_drive_calls (ins : inners) (sizes : list Z) : nat :=
  ((inners_data_len ins + inners_events ins + 2) * (length sizes + 1))%nat.

(* entry points of the driver *)
Definition bcj2_dec_script_gen (old_errors : bool) (size : Z) (ins : inners) (sizes : list Z) : outcome (list Z * option Z) :=
  bcj2_drive old_errors (bcj2_drive_calls ins sizes) (bcj2_read_fuel ins) (bcj2_reader_new size) ins sizes sizes.
Definition bcj2_dec_script := bcj2_dec_script_gen false.

(* One-shot decode: the four complete streams are in the buffers, dest_buf has room for [n] bytes,
   decode() is called once on a fresh decoder. *)
Definition bcj2_oneshot_dec (main call jump rc : list Z) : bdec :=
  mkBd (mkSb main (zlen main)) (mkSb call (zlen call)) (mkSb jump (zlen jump)) (mkSb rc (zlen rc))
       0 BCJ2_DEC_STATE_OK 0 0 0 0 0 0 0 (bd_probs bdec_new).
Definition bcj2_decode_oneshot (main call jump rc : list Z) (n : Z) : outcome dres :=
  bcj2_decode n (bcj2_oneshot_dec main call jump rc).
