(* Filter/Bcj2SlackProofs.v — decode() never changes the number of bytes of an incomplete CALL/JUMP word
   kept behind lims (zlen live - avail): a purely structural fact about the model, for every input.
   Proofs only. *)
From LzVerif Require Import Base.Bytes Codec.RangeArithProofs Filter.BcjStream Filter.Bcj2.
Ltac Zify.zify_post_hook ::= Z.div_mod_to_equations.

(* bytes of an incomplete word behind lims: untouched by decode() *)
Definition slack (b : sbuf) : Z := zlen (sb_live b) - sb_avail b.
Definition cj_slack (d d' : bdec) : Prop :=
  slack (bd_call d') = slack (bd_call d) /\ slack (bd_jump d') = slack (bd_jump d).

Lemma cj_slack_refl d : cj_slack d d.
Proof. split; reflexivity. Qed.
Lemma cj_slack_trans a b c : cj_slack a b -> cj_slack b c -> cj_slack a c.
Proof. intros [H1 H2] [H3 H4]. split; congruence. Qed.

Ltac break_in H :=
  match type of H with
  | context [match ?x with _ => _ end] =>
      lazymatch x with
      | context [match _ with _ => _ end] => fail
      | _ => destruct x eqn:?
      end
  end.

Ltac slack_leaf :=
  unfold cj_slack, slack;
  cbn [bd_set_state bd_set_dest bd_set_rc bd_set_main bd_set_bit bd_set_conv bd_call bd_jump sb_live sb_avail];
  try (split; reflexivity).
Ltac slack_done :=
  unfold cj_slack, slack;
  cbn [bd_set_state bd_set_dest bd_set_rc bd_set_main bd_set_bit bd_set_conv bd_call bd_jump sb_live sb_avail];
  split; reflexivity.

Lemma conv_slack lim d o res : bcj2_conv lim d o = Ok res ->
  match res with CvBreak d' _ => cj_slack d d' | CvCont d' _ => cj_slack d d' end.
Proof.
  unfold bcj2_conv. intros H.
  repeat break_in H; try discriminate; injection H as <-; slack_leaf.
  all: repeat match goal with E : sb_live _ = _ |- _ => rewrite E; clear E end;
       rewrite ?zlen_cons; split; try reflexivity; lia.
Qed.

Lemma normalize_slack d d' : bcj2_normalize d = NormOk d' -> cj_slack d d'.
Proof.
  unfold bcj2_normalize, sb_pop. intros H. repeat break_in H; try discriminate; injection H as <-; slack_leaf.
Qed.

Lemma finish_slack d o b d' o' : bcj2_finish d o = Ok (b, d', o') -> cj_slack d d'.
Proof.
  unfold bcj2_finish. intros H. destruct (bcj2_normalize d) eqn:En; try discriminate.
  - injection H as _ <- _. apply normalize_slack. exact En.
  - injection H as _ <- _. apply cj_slack_refl.
Qed.

Lemma loop_slack : forall fuel lim d o b d' o', bcj2_loop fuel lim d o = Ok (b, d', o') -> cj_slack d d'.
Proof.
  induction fuel as [|f IH]; intros lim d o b d' o' H; [discriminate|].
  cbn [bcj2_loop] in H.
  destruct (bcj2_is_32bit_stream (bd_state d)).
  - destruct (bcj2_conv lim (bd_set_state d BCJ2_DEC_STATE_OK) o) as [res| | |] eqn:Ec; cbn [obind] in H; try discriminate.
    pose proof (conv_slack _ _ _ _ Ec) as Hc. destruct res as [d2 o2|d2 o2].
    + apply finish_slack in H. eapply cj_slack_trans; [|exact H]. exact Hc.
    + apply IH in H. eapply cj_slack_trans; [|exact H]. exact Hc.
  - destruct (bcj2_normalize d) as [d1| |] eqn:En; try discriminate.
    2: { injection H as _ <- _. slack_leaf. }
    pose proof (normalize_slack _ _ En) as Hn.
    eapply cj_slack_trans; [exact Hn|]. clear En Hn.
    cbv zeta in H.
    repeat (break_in H; try discriminate).
    all: try (injection H as _ <- _; slack_leaf).
    all: unfold obind in H.
    all: repeat (break_in H; try discriminate).
    all: try (apply IH in H; eapply cj_slack_trans; [|exact H]; slack_done).
    all: try match goal with
         | Ec : bcj2_conv _ _ _ = Ok ?res |- _ =>
             pose proof (conv_slack _ _ _ _ Ec) as Hc; cbv beta iota in Hc;
             first [ apply finish_slack in H | apply IH in H ];
             eapply cj_slack_trans; [|exact H]; eapply cj_slack_trans; [|exact Hc]; slack_leaf
         end.
Qed.

Lemma flush_slack : forall fuel lim d o b d' o', bcj2_flush_temp fuel lim d o = Ok (b, d', o') -> cj_slack d d'.
Proof.
  induction fuel as [|f IH]; intros lim d o b d' o' H; cbn [bcj2_flush_temp] in H.
  - repeat (break_in H; try discriminate). injection H as _ <- _. apply cj_slack_refl.
  - repeat (break_in H; try discriminate).
    all: try (injection H as _ <- _; apply cj_slack_refl).
    apply IH in H. eapply cj_slack_trans; [|exact H]. slack_done.
Qed.

Lemma init_slack : forall fuel d res, bcj2_init_loop fuel d = Ok res ->
  match res with InitDone d' => cj_slack d d' | InitRet _ d' => cj_slack d d' end.
Proof.
  induction fuel as [|f IH]; intros d res H; cbn [bcj2_init_loop] in H.
  - repeat (break_in H; try discriminate). injection H as <-. apply cj_slack_refl.
  - unfold sb_pop in H. repeat (break_in H; try discriminate).
    all: try (injection H as <-; slack_done).
    apply IH in H. destruct res; (eapply cj_slack_trans; [|exact H]; slack_done).
Qed.

Theorem decode_slack lim d b d' o : bcj2_decode_rev lim d = Ok (b, d', o) -> cj_slack d d'.
Proof.
  unfold bcj2_decode_rev. intros H.
  destruct (bd_range d <=? 5).
  - destruct (bcj2_init_loop 5 (bd_set_state d BCJ2_DEC_STATE_OK)) as [res| | |] eqn:Ei; cbn [obind] in H; try discriminate.
    pose proof (init_slack _ _ _ Ei) as Hi. destruct res as [d1|ok d1].
    + destruct (bd_code d1 =? 4294967295).
      * injection H as _ <- _. eapply cj_slack_trans; [|exact Hi]. slack_done.
      * apply loop_slack in H. eapply cj_slack_trans; [|exact H]. eapply cj_slack_trans; [|slack_done].
        eapply cj_slack_trans; [|exact Hi]. slack_done.
    + injection H as _ <- _. eapply cj_slack_trans; [|exact Hi]. slack_done.
  - destruct (BCJ2_DEC_STATE_ORIG_0 <=? bd_state d).
    + destruct (bcj2_flush_temp 4 lim d []) as [[[ret d1] o1]| | |] eqn:Ef; cbn [obind] in H; try discriminate.
      pose proof (flush_slack _ _ _ _ _ _ _ Ef) as Hf. destruct ret.
      * injection H as _ <- _. exact Hf.
      * apply loop_slack in H. eapply cj_slack_trans; [exact Hf | exact H].
    + apply loop_slack in H. exact H.
Qed.
