(* Filter/DeltaProofs.v — theorems about the Delta model. *)
From LzVerif Require Import Base.Bytes Filter.Delta.

Definition delta_inv (d : delta) : Prop :=
  length (d_hist d) = 256%nat /\ 0 <= d_pos d < 256.

Lemma delta_new_inv dist : delta_inv (delta_new dist).
Proof. unfold delta_inv, delta_new; cbn [d_hist d_pos]. split; [reflexivity | lia]. Qed.

Lemma delta_idx_range d : 0 <= delta_idx d < 256.
Proof. unfold delta_idx. apply Z.mod_pos_bound; lia. Qed.

Lemma delta_hist_lookup d : delta_inv d -> exists h, zth (d_hist d) (delta_idx d) = Some h.
Proof.
  intros [Hl _]. apply zth_some. unfold zlen. rewrite Hl.
  pose proof (delta_idx_range d). lia.
Qed.

Lemma delta_enc_byte_inv d x d' y :
  delta_inv d -> delta_enc_byte d x = Some (d', y) -> delta_inv d'.
Proof.
  intros [Hl Hp] H. unfold delta_enc_byte in H.
  destruct (zth (d_hist d) (delta_idx d)) as [h|]; [|discriminate].
  inversion H; subst; clear H. unfold delta_inv; cbn [d_hist d_pos].
  rewrite zupd_length. split; [assumption|]. apply Z.mod_pos_bound; lia.
Qed.

(* Encoding a byte and decoding the result from the same state gives the byte back and the
   same successor state: encoder and decoder histories stay identical. *)
Lemma delta_byte_inverse d x d' y :
  0 <= x < 256 ->
  delta_enc_byte d x = Some (d', y) -> delta_dec_byte d y = Some (d', x).
Proof.
  intros Hx H. unfold delta_enc_byte in H. unfold delta_dec_byte.
  destruct (zth (d_hist d) (delta_idx d)) as [h|]; [|discriminate].
  inversion H; subst; clear H.
  assert (E : ((x - h) mod 256 + h) mod 256 = x).
  { rewrite Zplus_mod_idemp_l. replace (x - h + h) with x by lia. apply Z.mod_small; lia. }
  rewrite E. reflexivity.
Qed.

Lemma delta_encode_total d l : delta_inv d -> exists d' o, delta_encode d l = Some (d', o) /\ delta_inv d'.
Proof.
  revert d; induction l as [|x t IH]; intros d Hd.
  - exists d, []. split; [reflexivity | assumption].
  - unfold delta_encode in *. cbn [delta_run].
    destruct (delta_hist_lookup d Hd) as [h Hh].
    destruct (delta_enc_byte d x) as [[d1 y]|] eqn:E.
    2:{ unfold delta_enc_byte in E. rewrite Hh in E. discriminate. }
    destruct (IH d1 (delta_enc_byte_inv _ _ _ _ Hd E)) as (d2 & o & E2 & I2).
    rewrite E2. exists d2, (y :: o). split; [reflexivity | assumption].
Qed.

Lemma delta_run_inverse d l d' o :
  bytes_ok l = true ->
  delta_encode d l = Some (d', o) -> delta_decode d o = Some (d', l).
Proof.
  revert d d' o; induction l as [|x t IH]; intros d d' o Hb H.
  - inversion H; subst. reflexivity.
  - unfold delta_encode, delta_decode in *. cbn [delta_run] in H.
    cbn [bytes_ok forallb] in Hb. apply andb_true_iff in Hb as [Hx Ht].
    destruct (delta_enc_byte d x) as [[d1 y]|] eqn:E; [|discriminate].
    destruct (delta_run delta_enc_byte d1 t) as [[d2 ys]|] eqn:E2; [|discriminate].
    inversion H; subst; clear H. cbn [delta_run].
    unfold is_byte in Hx. apply andb_true_iff in Hx as [Hx0 Hx1].
    rewrite (delta_byte_inverse d x d1 y); [| lia | assumption].
    rewrite (IH d1 d' ys Ht E2). reflexivity.
Qed.

(* C11 (Delta): for every distance value whatsoever and every byte string, decoding what the
   encoder produced returns the original bytes; the encoder never panics. *)
Theorem delta_inverse : forall dist l,
  bytes_ok l = true ->
  exists o, delta_encode_bytes dist l = Some o /\ delta_decode_bytes dist o = Some l /\
            length o = length l.
Proof.
  intros dist l Hb. unfold delta_encode_bytes, delta_decode_bytes.
  destruct (delta_encode_total (delta_new dist) l (delta_new_inv dist)) as (d' & o & E & _).
  rewrite E. exists o. split; [reflexivity|].
  rewrite (delta_run_inverse _ _ _ _ Hb E). split; [reflexivity|].
  clear Hb. revert E. generalize (delta_new dist). revert d' o.
  induction l as [|x t IH]; intros d' o d E; unfold delta_encode in *; cbn [delta_run] in E.
  - inversion E; reflexivity.
  - destruct (delta_enc_byte d x) as [[d1 y]|]; [|discriminate].
    destruct (delta_run delta_enc_byte d1 t) as [[d2 ys]|] eqn:E2; [|discriminate].
    inversion E; subst. cbn [length]. f_equal. eapply IH; eassumption.
Qed.

(* Partition independence (C07): any split of the data into write() calls, empty calls included,
   yields the encoding of the concatenation. *)
Lemma delta_run_app step d a b :
  delta_run step d (a ++ b) =
  match delta_run step d a with
  | None => None
  | Some (d1, o1) =>
      match delta_run step d1 b with
      | None => None
      | Some (d2, o2) => Some (d2, o1 ++ o2)
      end
  end.
Proof.
  revert d; induction a as [|x t IH]; intros d; cbn [app delta_run].
  - destruct (delta_run step d b) as [[d2 o2]|]; reflexivity.
  - destruct (step d x) as [[d1 y]|]; [|reflexivity].
    rewrite IH. destruct (delta_run step d1 t) as [[d2 ys]|]; [|reflexivity].
    destruct (delta_run step d2 b) as [[d3 o3]|]; reflexivity.
Qed.

Theorem delta_write_partition : forall d parts,
  delta_write_calls d parts = delta_encode d (concat parts).
Proof.
  intros d parts; revert d; induction parts as [|p ps IH]; intros d; cbn [delta_write_calls concat].
  - reflexivity.
  - unfold delta_encode in *. rewrite delta_run_app.
    destruct (delta_run delta_enc_byte d p) as [[d1 o1]|]; [|reflexivity].
    rewrite IH. reflexivity.
Qed.

Theorem delta_read_partition : forall d parts,
  delta_read_calls d parts = delta_decode d (concat parts).
Proof.
  intros d parts; revert d; induction parts as [|p ps IH]; intros d; cbn [delta_read_calls concat].
  - reflexivity.
  - unfold delta_decode in *. rewrite delta_run_app.
    destruct (delta_run delta_dec_byte d p) as [[d1 o1]|]; [|reflexivity].
    rewrite IH. reflexivity.
Qed.

(* Refinement to the reference semantics out[i] = in[i] - in[i-dist] for 1 <= dist <= 256. *)
Definition hist_at (hist : list Z) (k : Z) : Z :=
  match zth hist (k - 1) with Some v => v | None => 0 end.

Definition delta_rel (d : delta) (hist : list Z) : Prop :=
  delta_inv d /\
  forall k, 1 <= k <= 256 -> zth (d_hist d) ((d_pos d + k) mod 256) = Some (hist_at hist k).

Lemma zth_repeatn_0 n i : 0 <= i < Z.of_nat n -> zth (repeatn 0 n) i = Some 0.
Proof.
  unfold zth. intros [H0 H1]. destruct (Z.ltb_spec i 0); [lia|].
  assert (Hn : (Z.to_nat i < n)%nat) by lia. clear - Hn.
  revert Hn; generalize (Z.to_nat i) as m. induction n as [|n IH]; intros m Hm; [lia|].
  destruct m; cbn; [reflexivity|]. apply IH; lia.
Qed.

Lemma delta_rel_new dist : delta_rel (delta_new dist) [].
Proof.
  split; [apply delta_new_inv|]. intros k Hk. cbn [delta_new d_hist d_pos].
  unfold hist_at. replace (zth [] (k - 1)) with (@None Z).
  2:{ unfold zth. destruct (k - 1 <? 0); [reflexivity|]. destruct (Z.to_nat (k-1)); reflexivity. }
  apply zth_repeatn_0. pose proof (Z.mod_pos_bound (0 + k) 256). lia.
Qed.

Lemma zth_zupd_same {A} (l : list A) i v : 0 <= i < zlen l -> zth (zupd l i v) i = Some v.
Proof.
  unfold zth, zupd, zlen. intros [H0 H1]. destruct (Z.ltb_spec i 0); [lia|].
  apply nth_opt_upd_same. lia.
Qed.

Lemma zth_zupd_other {A} (l : list A) i j v : 0 <= i -> 0 <= j -> i <> j -> zth (zupd l i v) j = zth l j.
Proof.
  unfold zth, zupd. intros Hi Hj Hne.
  destruct (Z.ltb_spec i 0); [lia|]. destruct (Z.ltb_spec j 0); [lia|].
  apply nth_opt_upd_other. lia.
Qed.

Lemma zth_cons {A} (x : A) l i : 1 <= i -> zth (x :: l) i = zth l (i - 1).
Proof.
  unfold zth. intros Hi. destruct (Z.ltb_spec i 0); [lia|]. destruct (Z.ltb_spec (i-1) 0); [lia|].
  replace (Z.to_nat i) with (S (Z.to_nat (i - 1))) by lia. reflexivity.
Qed.

Lemma delta_rel_step d hist x dist :
  1 <= dist <= 256 -> d_dist d = dist -> 0 <= x < 256 ->
  delta_rel d hist ->
  exists d', delta_enc_byte d x = Some (d', (x - hist_at hist dist) mod 256) /\
             d_dist d' = dist /\ delta_rel d' (x :: hist).
Proof.
  intros Hdist Hd Hx [Hinv Hrel]. pose proof Hinv as [Hl Hp].
  unfold delta_enc_byte.
  assert (Hidx : delta_idx d = (d_pos d + dist) mod 256).
  { unfold delta_idx. rewrite Hd. rewrite (Z.mod_small (dist + d_pos d)) by lia. f_equal; lia. }
  rewrite Hidx, (Hrel dist Hdist).
  eexists. split; [reflexivity|]. cbn [d_dist]. split; [assumption|].
  split.
  - split; cbn [d_hist d_pos]; [rewrite zupd_length; assumption | apply Z.mod_pos_bound; lia].
  - intros k Hk. cbn [d_hist d_pos]. rewrite (Z.mod_small (d_pos d)) by lia.
    assert (Hq : ((d_pos d - 1) mod 256 + k) mod 256 = (d_pos d + (k - 1)) mod 256).
    { rewrite Zplus_mod_idemp_l. f_equal; lia. }
    rewrite Hq. destruct (Z.eq_dec k 1) as [->|Hne].
    + replace (d_pos d + (1 - 1)) with (d_pos d) by lia. rewrite (Z.mod_small (d_pos d)) by lia.
      rewrite zth_zupd_same by (unfold zlen; lia).
      unfold hist_at. replace (1 - 1) with 0 by lia. reflexivity.
    + rewrite zth_zupd_other.
      * rewrite (Hrel (k - 1)) by lia. unfold hist_at. rewrite zth_cons by lia. reflexivity.
      * lia.
      * apply Z.mod_pos_bound; lia.
      * intro Heq.
        assert (Hm : (d_pos d + (k - 1)) mod 256 = d_pos d) by lia. clear Heq.
        pose proof (Z.div_mod (d_pos d + (k - 1)) 256 ltac:(lia)) as Hdm.
        rewrite Hm in Hdm.
        assert (256 * ((d_pos d + (k - 1)) / 256) = k - 1) by lia.
        assert (0 <= (d_pos d + (k - 1)) / 256) by (apply Z.div_pos; lia).
        assert ((d_pos d + (k - 1)) / 256 < 1) by lia.
        lia.
Qed.

Lemma delta_refines_spec_gen dist : 1 <= dist <= 256 -> forall l d hist,
  bytes_ok l = true -> d_dist d = dist -> delta_rel d hist ->
  exists d', delta_encode d l = Some (d', delta_spec_enc dist hist l).
Proof.
  intros Hdist. induction l as [|x t IH]; intros d hist Hb Hd Hrel.
  - exists d. reflexivity.
  - cbn [bytes_ok forallb] in Hb. apply andb_true_iff in Hb as [Hx Ht].
    unfold is_byte in Hx. apply andb_true_iff in Hx as [Hx0 Hx1].
    destruct (delta_rel_step d hist x dist Hdist Hd ltac:(lia) Hrel) as (d1 & E1 & Hd1 & Hrel1).
    destruct (IH d1 (x :: hist) Ht Hd1 Hrel1) as (d2 & E2).
    exists d2. unfold delta_encode in *. cbn [delta_run delta_spec_enc]. rewrite E1, E2.
    unfold hist_at. reflexivity.
Qed.

(* The crate's ring-buffer encoder computes exactly the format's definition of the Delta filter. *)
Theorem delta_refines_spec : forall dist l,
  1 <= dist <= 256 -> bytes_ok l = true ->
  delta_encode_bytes dist l = Some (delta_spec_enc dist [] l).
Proof.
  intros dist l Hdist Hb. unfold delta_encode_bytes.
  destruct (delta_refines_spec_gen dist Hdist l (delta_new dist) [] Hb eq_refl (delta_rel_new dist)) as (d' & E).
  rewrite E. reflexivity.
Qed.
