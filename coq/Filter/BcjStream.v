(* Filter/BcjStream.v — model of src/filter/bcj.rs: BCJReader::read (the 4096-byte filter buffer
   with its carry-over of the not yet convertible tail, end-of-stream handling) and BCJWriter::write.
   Definitions only. *)
From LzVerif Require Export Filter.Bcj.

Definition FILTER_BUF_SIZE : Z := 4096.

(* ------------------------------------------------------------------------------------------ *)
(* The inner reader: a source that will deliver the given non-empty chunks, one per read() call
   (a short read), cut further when the destination is smaller than the chunk; Ok(0) after the
   last one.  This is what any well-behaved `Read` looks like from the outside (harness:
   util::ChunkReader). *)
Definition inner_read (parts : list (list Z)) (n : Z) : list Z * list (list Z) :=
  if n <=? 0 then ([], parts)
  else
    match parts with
    | [] => ([], [])
    | p :: ps =>
        if zlen p <=? n then (p, ps)
        else (firstn (Z.to_nat n) p, skipn (Z.to_nat n) p :: ps)
    end.

Definition drop_empty (parts : list (list Z)) : list (list Z) :=
  filter (fun p => match p with [] => false | _ => true end) parts.

(* struct State { filter_buf, pos, filtered, unfiltered, end_reached } + the BCJFilter.
   Of the 4096-byte filter_buf only the live region filter_buf[pos .. pos+filtered+unfiltered] is
   ever read again, so the model keeps exactly that region as [r_live] (length = filtered +
   unfiltered) together with the three counters; `rotate_left(pos)` moves the live region to the
   front, i.e. sets pos = 0.  Bytes outside the live region are dead. *)
Record rstate := mkR {
  r_filter : fstate;
  r_pos : Z;
  r_filtered : Z;
  r_unfiltered : Z;
  r_live : list Z;
  r_end : bool
}.

Definition bcj_reader_new (a : arch) (start_pos : Z) : rstate :=
  mkR (bcj_init a start_pos) 0 0 0 [] false.

Definition read_result := (list Z * rstate * list (list Z))%type.

Definition push_out (o : list Z) (r : read_result) : read_result :=
  let '(o2, st, inner) := r in (o ++ o2, st, inner).

(* the `loop { ... }` of BCJReader::read; [len] = space left in the caller's buffer.  Returns the
   bytes copied to the caller in this call (so `size` = their number). *)
Fixpoint bcj_read_loop (fuel : nat) (a : arch) (st : rstate) (inner : list (list Z)) (len : Z)
  : outcome read_result :=
  match fuel with
  | O => Fuel
  | S fuel' =>
      (* if state.filtered > 0 { copy min(filtered, len) bytes out } *)
      let copy_size := if 0 <? r_filtered st then Z.min (r_filtered st) len else 0 in
      let out := firstn (Z.to_nat copy_size) (r_live st) in
      let live := skipn (Z.to_nat copy_size) (r_live st) in
      let pos := r_pos st + copy_size in
      let filtered := r_filtered st - copy_size in
      let len := len - copy_size in
      let unfiltered := r_unfiltered st in
      (* if pos + filtered + unfiltered == FILTER_BUF_SIZE { rotate_left(pos); pos = 0 } *)
      let pos := if pos + filtered + unfiltered =? FILTER_BUF_SIZE then 0 else pos in
      if (len =? 0) || r_end st then
        Ok (out, mkR (r_filter st) pos filtered unfiltered live (r_end st), inner)
      else if negb (filtered =? 0) then Panic 5                 (* assert_eq!(state.filtered, 0) *)
      else
        let start := pos + filtered + unfiltered in
        if FILTER_BUF_SIZE <? start then Panic 6                (* FILTER_BUF_SIZE - start underflows *)
        else
          let in_size := FILTER_BUF_SIZE - start in
          let '(data, inner') := inner_read inner in_size in
          let in_size := zlen data in
          if in_size =? 0 then
            (* end of the inner stream: the unfiltered tail becomes ready to be copied out *)
            do r <- bcj_read_loop fuel' a (mkR (r_filter st) pos unfiltered 0 live true) inner' len;
            Ok (push_out out r)
          else
            let unfiltered := unfiltered + in_size in
            (* self.filter.code(&mut filter_buf[pos .. pos + unfiltered]) *)
            do c <- bcj_code a false (r_filter st) (live ++ data);
            let '(f', o, rest) := c in
            let filtered := zlen o in
            if unfiltered <? filtered then Panic 7                (* assert!(filtered <= unfiltered) *)
            else
              do r <- bcj_read_loop fuel' a (mkR f' pos filtered (unfiltered - filtered) (o ++ rest) false) inner' len;
              Ok (push_out out r)
  end.

(* BCJReader::read(buf) with buf.len() = len over a fault-free inner reader *)
Definition bcj_read (fuel : nat) (a : arch) (st : rstate) (inner : list (list Z)) (len : Z)
  : outcome read_result :=
  if len <=? 0 then Ok ([], st, inner) else bcj_read_loop fuel a st inner len.

(* fuel that always suffices for one read call: every loop iteration that does not return takes
   at least one byte from the inner reader or sees its end *)
Definition bcj_read_fuel (inner : list (list Z)) : nat := S (S (S (length (concat inner)))).

(* a history of read calls with the given destination sizes; the concatenated bytes *)
Fixpoint bcj_read_calls (fuel : nat) (a : arch) (st : rstate) (inner : list (list Z)) (sizes : list Z)
  : outcome read_result :=
  match sizes with
  | [] => Ok ([], st, inner)
  | n :: ns =>
      do r <- bcj_read fuel a st inner n;
      let '(o1, st1, inner1) := r in
      do r2 <- bcj_read_calls fuel a st1 inner1 ns;
      Ok (push_out o1 r2)
  end.

(* ------------------------------------------------------------------------------------------ *)
(* BCJWriter::write(buf) over a sink that takes everything: the filter converts a prefix of the
   call's data, the converted prefix is written, then the unconverted rest of THIS call's data is
   written raw; only the converted length has been added to the filter's position. Returns the
   bytes that reached the sink. *)
Definition bcj_write (a : arch) (f : fstate) (buf : list Z) : outcome (fstate * list Z) :=
  do c <- bcj_code a true f buf;
  let '(f', o, rest) := c in
  Ok (f', o ++ rest).

Fixpoint bcj_write_calls (a : arch) (f : fstate) (parts : list (list Z)) : outcome (fstate * list Z) :=
  match parts with
  | [] => Ok (f, [])
  | p :: ps =>
      do r <- bcj_write a f p;
      let '(f1, o1) := r in
      do r2 <- bcj_write_calls a f1 ps;
      let '(f2, o2) := r2 in
      Ok (f2, o1 ++ o2)
  end.

(* ------------------------------------------------------------------------------------------ *)
(* The stream-level meaning of a filter: `code` applied to the whole stream, the tail it cannot
   convert passed through unchanged. *)
Definition bcj_stream (a : arch) (enc : bool) (start_pos : Z) (data : list Z) : outcome (list Z) :=
  do c <- bcj_code a enc (bcj_init a start_pos) data;
  let '(_, o, rest) := c in
  Ok (o ++ rest).

(* entry points of the driver *)
Definition bcj_enc_parts (a : arch) (start_pos : Z) (parts : list (list Z)) : outcome (list Z) :=
  do r <- bcj_write_calls a (bcj_init a start_pos) parts;
  let '(_, o) := r in Ok o.
