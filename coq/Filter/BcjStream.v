(* Filter/BcjStream.v — model of src/filter/bcj.rs: BCJReader::read (the 4096-byte filter buffer
   with its carry-over of the not yet convertible tail, end-of-stream handling) and BCJWriter::write.
   Definitions only. *)
From LzVerif Require Export Filter.Bcj.

Definition FILTER_BUF_SIZE : Z := 4096.

(* ------------------------------------------------------------------------------------------ *)
(* The inner reader: a script of what its successive read() calls will do.  [IData p] delivers the
   non-empty chunk p (a short read; cut further when the destination is smaller than the chunk),
   [IErr code] makes one call fail with that error kind (E_INTERRUPTED is the transient one); after
   the script the reader is at its end and returns Ok(0).  A read into an empty destination
   returns Ok(0) and consumes nothing.  (harness: util::ChunkReader / a_bcj::ScriptReader) *)
Inductive inner_event := IData (p : list Z) | IErr (code : Z).
Inductive inner_ret := BjData (data : list Z) | BjErr (code : Z).

Definition inner_read (evs : list inner_event) (n : Z) : inner_ret * list inner_event :=
  if n <=? 0 then (BjData [], evs)
  else
    match evs with
    | [] => (BjData [], [])
    | IErr c :: rest => (BjErr c, rest)
    | IData p :: rest =>
        if zlen p <=? n then (BjData p, rest)
        else (BjData (firstn (Z.to_nat n) p), IData (skipn (Z.to_nat n) p) :: rest)
    end.

(* chunks -> script; empty chunks are dropped (a reader cannot return Ok(0) before its end) *)
Fixpoint data_script (parts : list (list Z)) : list inner_event :=
  match parts with
  | [] => []
  | [] :: ps => data_script ps
  | p :: ps => IData p :: data_script ps
  end.

(* all the data a script will deliver *)
Fixpoint script_data (evs : list inner_event) : list Z :=
  match evs with
  | [] => []
  | IData p :: rest => p ++ script_data rest
  | IErr _ :: rest => script_data rest
  end.

(* struct State { filter_buf, pos, filtered, unfiltered, end_reached } + the BCJFilter + err.
   Of the 4096-byte filter_buf only the live region filter_buf[pos .. pos+filtered+unfiltered] is
   ever read again, so the model keeps exactly that region as [r_live] (length = filtered +
   unfiltered) together with the three counters; `rotate_left(pos)` moves the live region to the
   front, i.e. sets pos = 0.  Bytes outside the live region are dead.
   [r_err] is BCJReader.err: the remembered (non-transient) error of the inner reader. *)
Record rstate := mkR {
  r_filter : fstate;
  r_pos : Z;
  r_filtered : Z;
  r_unfiltered : Z;
  r_live : list Z;
  r_end : bool;
  r_err : option Z
}.

Definition bcj_reader_new (a : arch) (start_pos : Z) : rstate :=
  mkR (bcj_init a start_pos) 0 0 0 [] false None.

(* result of one read() call: the bytes copied to the caller; [Some code] if the call returned
   Err(code) (then no bytes); the new reader state; the rest of the inner script *)
Definition read_result := (list Z * option Z * rstate * list inner_event)%type.

Definition push_out (o : list Z) (r : read_result) : read_result :=
  let '(o2, e, st, inner) := r in (o ++ o2, e, st, inner).

(* the `loop { ... }` of BCJReader::read; [len] = space left in the caller's buffer, [size] = bytes
   already copied to the caller in this call (by earlier iterations). *)
Fixpoint bcj_read_loop (fuel : nat) (a : arch) (st : rstate) (inner : list inner_event) (len size : Z)
  : outcome read_result :=
  match fuel with
  | O => Fuel
  | S fuel' =>
      (* if state.filtered > 0 { copy min(filtered, len) bytes out } *)
      let copy_size := if 0 <? r_filtered st then Z.min (r_filtered st) len else 0 in
      let out := firstn (Z.to_nat copy_size) (r_live st) in
      let live := skipn (Z.to_nat copy_size) (r_live st) in
      let pos := r_pos st + copy_size in
      let filtered := r_filtered st - copy_size in
      let len := len - copy_size in
      let size := size + copy_size in
      let unfiltered := r_unfiltered st in
      (* if pos + filtered + unfiltered == FILTER_BUF_SIZE { rotate_left(pos); pos = 0 } *)
      let pos := if pos + filtered + unfiltered =? FILTER_BUF_SIZE then 0 else pos in
      if (len =? 0) || r_end st then
        Ok (out, None, mkR (r_filter st) pos filtered unfiltered live (r_end st) (r_err st), inner)
      else if negb (filtered =? 0) then Panic 5                 (* assert_eq!(state.filtered, 0) *)
      else
        let start := pos + filtered + unfiltered in
        if FILTER_BUF_SIZE <? start then Panic 6                (* FILTER_BUF_SIZE - start underflows *)
        else
          let in_size := FILTER_BUF_SIZE - start in
          match inner_read inner in_size with
          | (BjErr c, inner') =>
              (* self.state = state; a transient error is not remembered; bytes already copied are
                 handed out first *)
              let err := if c =? E_INTERRUPTED then r_err st else Some c in
              let st' := mkR (r_filter st) pos filtered unfiltered live (r_end st) err in
              if 0 <? size then Ok (out, None, st', inner') else Ok (out, Some c, st', inner')
          | (BjData data, inner') =>
              let in_size := zlen data in
              if in_size =? 0 then
                (* end of the inner stream: the unfiltered tail becomes ready to be copied out *)
                do r <- bcj_read_loop fuel' a (mkR (r_filter st) pos unfiltered 0 live true (r_err st)) inner' len size;
                Ok (push_out out r)
              else
                let unfiltered := unfiltered + in_size in
                (* self.filter.code(&mut filter_buf[pos .. pos + unfiltered]) *)
                do c <- bcj_code a false (r_filter st) (live ++ data);
                let '(f', o, rest) := c in
                let filtered := zlen o in
                if unfiltered <? filtered then Panic 7                (* assert!(filtered <= unfiltered) *)
                else
                  do r <- bcj_read_loop fuel' a (mkR f' pos filtered (unfiltered - filtered) (o ++ rest) false (r_err st)) inner' len size;
                  Ok (push_out out r)
          end
  end.

(* BCJReader::read(buf) with buf.len() = len *)
Definition bcj_read (fuel : nat) (a : arch) (st : rstate) (inner : list inner_event) (len : Z)
  : outcome read_result :=
  if len <=? 0 then Ok ([], None, st, inner)
  else
    match r_err st with
    | Some e => Ok ([], Some e, st, inner)                        (* the remembered error *)
    | None => bcj_read_loop fuel a st inner len 0
    end.

(* fuel that always suffices for one read call: every loop iteration that does not return takes
   at least one byte from the inner reader or sees its end *)
Definition bcj_read_fuel (inner : list inner_event) : nat := S (S (S (length (script_data inner)))).

(* a history of read calls with the given destination sizes: the concatenated bytes, the list of
   errors the calls returned (in order) *)
Fixpoint bcj_read_calls (fuel : nat) (a : arch) (st : rstate) (inner : list inner_event) (sizes : list Z)
  : outcome (list Z * list Z * rstate * list inner_event) :=
  match sizes with
  | [] => Ok ([], [], st, inner)
  | n :: ns =>
      do r <- bcj_read fuel a st inner n;
      let '(o1, e1, st1, inner1) := r in
      do r2 <- bcj_read_calls fuel a st1 inner1 ns;
      let '(o2, es, st2, inner2) := r2 in
      Ok (o1 ++ o2, (match e1 with Some c => [c] | None => [] end) ++ es, st2, inner2)
  end.

(* The caller's loop (harness: util::read_with_sizes extended by the retry every `Read` user
   performs): destination sizes taken cyclically from [sizes] (4096 if none); a call that fails
   with Interrupted is repeated; any other error ends the loop with that error; a read into a
   non-empty destination that returns Ok(0) ends it normally.  [calls] bounds the number of calls. *)
Fixpoint bcj_drive (calls : nat) (fuel : nat) (a : arch) (st : rstate) (inner : list inner_event)
                   (all cur : list Z) : outcome (list Z * option Z) :=
  match calls with
  | O => Fuel
  | S calls' =>
      let '(sz, next) := match cur with
                         | s :: rest => (s, rest)
                         | [] => match all with s :: rest => (s, rest) | [] => (4096, []) end
                         end in
      do r <- bcj_read fuel a st inner sz;
      let '(o, e, st1, inner1) := r in
      match e with
      | Some c =>
          if c =? E_INTERRUPTED then bcj_drive calls' fuel a st1 inner1 all next
          else Ok ([], Some c)
      | None =>
          if sz <=? 0 then
            if forallb (fun s => s <=? 0) all && negb (match all with [] => true | _ => false end)
            then Ok ([], None)
            else bcj_drive calls' fuel a st1 inner1 all next
          else
            match o with
            | [] => Ok ([], None)
            | _ => do r2 <- bcj_drive calls' fuel a st1 inner1 all next;
                   let '(o2, e2) := r2 in Ok (o ++ o2, e2)
            end
      end
  end.

(* enough calls for [bcj_drive]: every call delivers a byte, consumes an error of the script, is a
   zero-length read (at most one round of [sizes] between two others) or is the last one *)
Definition bcj_drive_calls (inner : list inner_event) (sizes : list Z) : nat :=
  ((length (script_data inner) + length inner + 2) * (length sizes + 1))%nat.

(* ------------------------------------------------------------------------------------------ *)
(* BCJWriter::write(buf) over a sink that takes everything: the filter converts a prefix of the
   call's data, the converted prefix is written, then the unconverted rest of THIS call's data is
   written raw; only the converted length has been added to the filter's position. Returns the
   bytes that reached the sink. *)
Definition bcj_write (a : arch) (f : fstate) (buf : list Z) : outcome (fstate * list Z) :=
  do c <- bcj_code a true f buf;
  let '(f', o, rest) := c in
  Ok (f', o ++ rest).

Fixpoint bcj_write_calls (a : arch) (f : fstate) (parts : list (list Z)) : outcome (fstate * list Z) :=
  match parts with
  | [] => Ok (f, [])
  | p :: ps =>
      do r <- bcj_write a f p;
      let '(f1, o1) := r in
      do r2 <- bcj_write_calls a f1 ps;
      let '(f2, o2) := r2 in
      Ok (f2, o1 ++ o2)
  end.

(* ------------------------------------------------------------------------------------------ *)
(* The stream-level meaning of a filter: `code` applied to the whole stream, the tail it cannot
   convert passed through unchanged. *)
Definition bcj_stream (a : arch) (enc : bool) (start_pos : Z) (data : list Z) : outcome (list Z) :=
  do c <- bcj_code a enc (bcj_init a start_pos) data;
  let '(_, o, rest) := c in
  Ok (o ++ rest).

(* entry points of the driver *)
Definition bcj_dec_script (a : arch) (start_pos : Z) (inner : list inner_event) (sizes : list Z)
  : outcome (list Z * option Z) :=
  bcj_drive (bcj_drive_calls inner sizes) (bcj_read_fuel inner) a (bcj_reader_new a start_pos) inner sizes sizes.

Definition bcj_enc_parts (a : arch) (start_pos : Z) (parts : list (list Z)) : outcome (list Z) :=
  do r <- bcj_write_calls a (bcj_init a start_pos) parts;
  let '(_, o) := r in Ok o.
