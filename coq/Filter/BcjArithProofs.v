(* Filter/BcjArithProofs.v — arithmetic reading of the bit operations used by the BCJ models:
   masks as [mod], shifts as [* 2^k] and [/ 2^k], disjoint [lor] as [+]; byte recombination. *)
From LzVerif Require Import Base.Bytes Filter.Bcj.

Ltac Zify.zify_post_hook ::= Z.div_mod_to_equations.

Lemma lor_add_low a b k : 0 <= k -> 0 <= b < 2 ^ k -> Z.lor (a * 2 ^ k) b = a * 2 ^ k + b.
Proof.
  intros Hk Hb.
  assert (HL : Z.land (a * 2 ^ k) b = 0).
  { apply Z.bits_inj'; intros n Hn. rewrite Z.land_spec, Z.bits_0.
    destruct (Z.lt_ge_cases n k) as [Hlt|Hge].
    - rewrite Z.mul_pow2_bits_low by lia. reflexivity.
    - rewrite <- (Z.mod_small b (2 ^ k)) by lia.
      rewrite Z.mod_pow2_bits_high by lia. apply andb_false_r. }
  rewrite <- Z.lxor_lor by assumption. symmetry. apply Z.add_nocarry_lxor. assumption.
Qed.

Lemma lor_add_low' a b k : 0 <= k -> 0 <= b < 2 ^ k -> Z.lor b (a * 2 ^ k) = a * 2 ^ k + b.
Proof. intros. rewrite Z.lor_comm. apply lor_add_low; assumption. Qed.

(* x land (2^n - 1) * 2^m : the field of n bits starting at bit m *)
Lemma land_field x n m : 0 <= n -> 0 <= m ->
  Z.land x (Z.ones n * 2 ^ m) = (x / 2 ^ m) mod 2 ^ n * 2 ^ m.
Proof.
  intros Hn Hm. apply Z.bits_inj'; intros k Hk.
  rewrite Z.land_spec.
  destruct (Z.lt_ge_cases k m) as [Hlt|Hge].
  - rewrite !Z.mul_pow2_bits_low by lia. apply andb_false_r.
  - rewrite !Z.mul_pow2_bits by lia.
    destruct (Z.lt_ge_cases (k - m) n) as [Hl2|Hg2].
    + rewrite Z.ones_spec_low by lia. rewrite Z.mod_pow2_bits_low by lia.
      rewrite Z.div_pow2_bits by lia. rewrite andb_true_r. f_equal. lia.
    + rewrite Z.ones_spec_high by lia. rewrite Z.mod_pow2_bits_high by lia. apply andb_false_r.
Qed.

Lemma land_low x n : 0 <= n -> Z.land x (Z.ones n) = x mod 2 ^ n.
Proof. intros. apply Z.land_ones. assumption. Qed.

Lemma s32_range x : -2147483648 <= s32 x < 2147483648.
Proof. unfold s32. lia. Qed.
Lemma s32_small x : -2147483648 <= x < 2147483648 -> s32 x = x.
Proof. unfold s32. lia. Qed.
Lemma u8_range x : 0 <= u8 x < 256.
Proof. unfold u8. lia. Qed.
Lemma u8_small x : 0 <= x < 256 -> u8 x = x.
Proof. unfold u8. lia. Qed.
Lemma u32_range x : 0 <= u32 x < 4294967296.
Proof. unfold u32. lia. Qed.

Lemma is_byte_iff x : is_byte x = true <-> 0 <= x < 256.
Proof. unfold is_byte. rewrite andb_true_iff, Z.leb_le, Z.ltb_lt. tauto. Qed.

(* pc32 only depends on pos + i, and modulo 2^32 at that *)
Lemma pc32_mod2 pos i : pc32 pos i mod 2 = (pos + i) mod 2.
Proof. unfold pc32, s32, u64. lia. Qed.
Lemma pc32_mod4 pos i : pc32 pos i mod 4 = (pos + i) mod 4.
Proof. unfold pc32, s32, u64. lia. Qed.
Lemma pc32_mod16 pos i : pc32 pos i mod 16 = (pos + i) mod 16.
Proof. unfold pc32, s32, u64. lia. Qed.

Lemma pc32_shift pos n i : pc32 (u64 (pos + n)) i = pc32 pos (n + i).
Proof.
  unfold pc32, u64. f_equal. rewrite Zplus_mod_idemp_l. f_equal. lia.
Qed.

Lemma pc32_range pos i : -2147483648 <= pc32 pos i < 2147483648.
Proof. apply s32_range. Qed.

(* ------------------------------------------------------------------------------------------ *)
(* Disjoint lor as +, in the form lia can discharge: one operand is a multiple of 2^k, the other
   is below 2^k. *)
Lemma lor_add_mod a b k : 0 <= k -> a mod 2 ^ k = 0 -> 0 <= b < 2 ^ k -> Z.lor a b = a + b.
Proof.
  intros Hk Ha Hb.
  assert (E : a = a / 2 ^ k * 2 ^ k).
  { pose proof (Z.div_mod a (2 ^ k) ltac:(lia)). lia. }
  rewrite E at 1. rewrite lor_add_low by assumption. lia.
Qed.
Lemma lor_add_mod' a b k : 0 <= k -> a mod 2 ^ k = 0 -> 0 <= b < 2 ^ k -> Z.lor b a = a + b.
Proof. intros. rewrite Z.lor_comm. apply lor_add_mod with k; assumption. Qed.

(* land with a literal mask made of n ones starting at bit m *)
Lemma land_mask x c n m : c = Z.ones n * 2 ^ m -> 0 <= n -> 0 <= m ->
  Z.land x c = (x / 2 ^ m) mod 2 ^ n * 2 ^ m.
Proof. intros -> Hn Hm. apply land_field; assumption. Qed.

(* a mask below 2^k only sees the low k bits *)
Lemma land_mod_low x m k : 0 <= k -> 0 <= m < 2 ^ k -> Z.land x m = Z.land (x mod 2 ^ k) m.
Proof.
  intros Hk Hm. rewrite <- (Z.land_ones x k) by assumption.
  rewrite <- Z.land_assoc. f_equal.
  rewrite Z.land_comm, Z.land_ones by assumption. symmetry. apply Z.mod_small. assumption.
Qed.

(* trailing zeros and width of a contiguous mask, for the tactic below *)
Definition mask_tz (c : Z) : Z := Z.log2 (Z.land c (- c)).
Definition mask_width (c : Z) : Z := Z.log2 (c / 2 ^ mask_tz c) + 1.

Ltac is_pos_cst p :=
  lazymatch p with
  | xH => idtac
  | xO ?q => is_pos_cst q
  | xI ?q => is_pos_cst q
  end.
Ltac is_Z_cst c :=
  lazymatch c with
  | Z0 => idtac
  | Zpos ?p => is_pos_cst p
  | Zneg ?p => is_pos_cst p
  end.

Lemma land_mask0 x c n : c = Z.ones n -> 0 <= n -> Z.land x c = x mod 2 ^ n.
Proof. intros -> Hn. apply Z.land_ones; assumption. Qed.

(* rewrite every  Z.land x <literal contiguous mask>  into (x / 2^m) mod 2^n * 2^m *)
Ltac land_lit_step :=
  match goal with
  | |- context [Z.land ?x ?c] =>
      is_Z_cst c;
      let m := eval compute in (mask_tz c) in
      let n := eval compute in (mask_width c) in
      let pm := eval compute in (2 ^ m) in
      let pn := eval compute in (2 ^ n) in
      lazymatch m with
      | 0 => rewrite (land_mask0 x c n) by (reflexivity || lia); change (2 ^ n) with pn
      | _ => rewrite (land_mask x c n m) by (reflexivity || lia);
             change (2 ^ m) with pm; change (2 ^ n) with pn
      end
  end.
Ltac land_lits := repeat land_lit_step.

Ltac shift_lit_step :=
  match goal with
  | |- context [Z.shiftl ?x ?k] =>
      is_Z_cst k; let pk := eval compute in (2 ^ k) in
      rewrite (Z.shiftl_mul_pow2 x k) by lia; change (2 ^ k) with pk
  | |- context [Z.shiftr ?x ?k] =>
      is_Z_cst k; let pk := eval compute in (2 ^ k) in
      rewrite (Z.shiftr_div_pow2 x k) by lia; change (2 ^ k) with pk
  end.
Ltac shift_lits := repeat shift_lit_step.

(* turn one  Z.lor a b  into  a + b  using bit position k as the separation *)
Ltac lor_plus k :=
  let pk := eval compute in (2 ^ k) in
  match goal with
  | |- context [Z.lor ?a ?b] =>
      first [ rewrite (lor_add_mod a b k) by (change (2 ^ k) with pk; lia)
            | rewrite (lor_add_mod' b a k) by (change (2 ^ k) with pk; lia) ]
  end.

(* every byte: a boolean property of one byte checked by computation *)
Fixpoint zrange (lo : Z) (n : nat) : list Z :=
  match n with O => [] | S k => lo :: zrange (lo + 1) k end.
Lemma zrange_in lo n x : lo <= x < lo + Z.of_nat n -> In x (zrange lo n).
Proof.
  revert lo; induction n as [|k IH]; intros lo H; [lia|].
  cbn [zrange]. destruct (Z.eq_dec lo x); [left; assumption|right]. apply IH. lia.
Qed.
Lemma byte_sweep (P : Z -> bool) :
  forallb P (zrange 0 256) = true -> forall b, 0 <= b < 256 -> P b = true.
Proof.
  intros H b Hb. rewrite forallb_forall in H. apply H. apply zrange_in. cbn. lia.
Qed.
Lemma byte2_sweep (P : Z -> Z -> bool) :
  forallb (fun a => forallb (P a) (zrange 0 256)) (zrange 0 256) = true ->
  forall a b, 0 <= a < 256 -> 0 <= b < 256 -> P a b = true.
Proof.
  intros H a b Ha Hb. rewrite forallb_forall in H.
  specialize (H a (zrange_in 0 256 a ltac:(cbn; lia))).
  rewrite forallb_forall in H. apply H. apply zrange_in. cbn. lia.
Qed.

(* the four bytes of a word and back *)
Lemma word_bytes_spec d :
  word_bytes d = (d mod 256, (d / 256) mod 256, (d / 65536) mod 256, (d / 16777216) mod 256).
Proof.
  unfold word_bytes. shift_lits. land_lits. unfold u8.
  repeat match goal with |- (_, _) = (_, _) => f_equal end; lia.
Qed.

(* disjoint lor as + when one operand lives in the bit field [m, m+n) and the other is zero there *)
Lemma lor_add_field a b m n : 0 <= m -> 0 <= n ->
  (a / 2 ^ m) mod 2 ^ n = 0 -> b mod 2 ^ m = 0 -> 0 <= b < 2 ^ (m + n) -> Z.lor a b = a + b.
Proof.
  intros Hm Hn Ha Hb Hr.
  assert (HL : Z.land a b = 0).
  { apply Z.bits_inj'; intros k Hk. rewrite Z.land_spec, Z.bits_0.
    destruct (Z.lt_ge_cases k m) as [Hlt|Hge].
    - replace b with (b / 2 ^ m * 2 ^ m) by (pose proof (Z.div_mod b (2 ^ m) ltac:(lia)); lia).
      rewrite Z.mul_pow2_bits_low by lia. apply andb_false_r.
    - destruct (Z.lt_ge_cases k (m + n)) as [Hl2|Hg2].
      + assert (E : Z.testbit a k = Z.testbit ((a / 2 ^ m) mod 2 ^ n) (k - m)).
        { rewrite Z.mod_pow2_bits_low by lia. rewrite Z.div_pow2_bits by lia. f_equal. lia. }
        rewrite E, Ha, Z.bits_0. reflexivity.
      + rewrite <- (Z.mod_small b (2 ^ (m + n))) by lia.
        rewrite Z.mod_pow2_bits_high by lia. apply andb_false_r. }
  rewrite <- Z.lxor_lor by assumption. symmetry. apply Z.add_nocarry_lxor. assumption.
Qed.

Ltac lor_field m n :=
  let pm := eval compute in (2 ^ m) in
  let pn := eval compute in (2 ^ n) in
  let pmn := eval compute in (2 ^ (m + n)) in
  match goal with
  | |- context [Z.lor ?a ?b] =>
      rewrite (lor_add_field a b m n)
        by (change (2 ^ (m + n)) with pmn; change (2 ^ m) with pm; change (2 ^ n) with pn; lia)
  end.
