(* Filter/Bcj2SpecProofs.v — the decoder model run on the output of the specification encoder: the
   initial state satisfies the invariant, how a decode() call can end (exit_analysis), and the one-shot
   theorem: one call of decode() over the four complete streams returns the data.  Proofs only. *)
From LzVerif Require Import Base.Bytes Codec.Store Codec.Range Codec.ProbProofs Codec.RangeArithProofs.
From LzVerif Require Import Codec.LzmaDec Codec.LzmaEnc Codec.RangeEncProofs Codec.RangeDecProofs Codec.RangeProofs.
From LzVerif Require Import Filter.Bcj2 Filter.Bcj2Enc Filter.Bcj2EncProofs Filter.Bcj2RcProofs Filter.Bcj2ScanProofs Filter.Bcj2InvProofs
  Filter.Bcj2LoopProofs Filter.Bcj2DecProofs.
Ltac Zify.zify_post_hook ::= Z.div_mod_to_equations.

(* ---------------------------------------------------------------------------------------------
   item lists and their streams *)
Lemma its_nil_of_main its : b2_main its = [] -> its = [].
Proof. unfold b2_main. destruct its; [reflexivity | discriminate]. Qed.

Lemma its_nil_of_orig its : b2_orig its = [] -> its = [].
Proof. unfold b2_orig. destruct its as [|[b|b idx|b idx ic r0 r1 r2 r3 a] r]; [reflexivity | discriminate ..]. Qed.

Lemma b2_call_mod4 its : zlen (b2_call its) mod 4 = 0.
Proof.
  unfold b2_call. induction its as [|it r IH]; [reflexivity|].
  cbn [flat_map]. rewrite zlen_app.
  destruct it as [b|b idx|b idx [|] r0 r1 r2 r3 a]; cbn [b2_call1]; try (change (zlen []) with 0; rewrite Z.add_0_l; exact IH).
  change (zlen (be32 a)) with 4. lia.
Qed.

Lemma b2_jump_mod4 its : zlen (b2_jump its) mod 4 = 0.
Proof.
  unfold b2_jump. induction its as [|it r IH]; [reflexivity|].
  cbn [flat_map]. rewrite zlen_app.
  destruct it as [b|b idx|b idx [|] r0 r1 r2 r3 a]; cbn [b2_jump1]; try (change (zlen []) with 0; rewrite Z.add_0_l; exact IH).
  change (zlen (be32 a)) with 4. lia.
Qed.

(* ---------------------------------------------------------------------------------------------
   the initial invariant *)
Definition cfg0 (its : list b2item) : b2cfg := mkCfg (PhInit 0) its 0 0 renc_init PLeaf.

Lemma inv_enc0 its pl : events_bits (b2_events its) <= 4294967289 -> ptab_rel pl PLeaf ->
  g_enc (bcj2_rc_bytes (b2_events its)) pl renc_init PLeaf its.
Proof.
  intros Hb Hp. unfold g_enc. msplit.
  - apply renc_inv_init.
  - apply probs_ok_empty.
  - exact Hp.
  - reflexivity.
  - cbn [renc_init re_cache_size]. lia.
  - apply renc_output_bytes_ok; [apply probs_ok_empty | apply b2_events_ok | exact Hb].
Qed.

(* how a decode() call can have ended *)
Lemma exit_analysis rc_out lim d F c :
  b2inv rc_out d F c -> exit_ok lim d c ->
  (bd_state d = 0 /\ c_ph c = PhScan /\ sb_avail (bd_main d) = 0 /\ sb_live (bd_main d) = [] /\ 16777216 <= bd_range d) \/
  (bd_state d = 3 /\ sb_avail (bd_rc d) = 0 /\ sb_live (bd_rc d) = [] /\ f_rc F <> []) \/
  (bd_state d = 1 /\ sb_avail (bd_call d) = 0 /\ 4 <= zlen (sb_live (bd_call d) ++ f_call F)) \/
  (bd_state d = 2 /\ sb_avail (bd_jump d) = 0 /\ 4 <= zlen (sb_live (bd_jump d) ++ f_jump F)) \/
  (4 <= bd_state d /\ bd_dest d = lim /\ rem_out c <> []).
Proof.
  destruct c as [ph its prev pos e t]. intros (Hcore & Hstate & Hrcph) Hex.
  pose proof Hcore as ((Hm & Hmf) & (Hc & Hcw & Hj & Hjw) & (HI & Ht & Htab & Hout & Hsize & Hbytes) & Hwf & Hprev & Hregs).
  unfold exit_ok in Hex. unfold g_rcph in Hrcph. cbn [c_ph c_its c_prev c_pos c_e c_t g_state] in *.
  destruct ph as [k| |ic r0 r1 r2 r3|k r0 r1 r2 r3]; cbn [g_state] in Hstate.
  - destruct Hex as [Hs Hav]. destruct Hrcph as (Hk & Hr & He & Hfull & Hcode & Hlive). subst e.
    right. left. pose proof (sb_full_nil_avail _ Hfull Hav) as Hnil. msplit; try assumption.
    destruct (renc_output_head t (b2_events its) Ht (b2_events_ok its)) as (b1 & b2 & b3 & b4 & rest & Hhead & _).
    { unfold RC_MAX_BITS. cbn [renc_init re_cache_size] in Hsize. lia. }
    rewrite <- Hout in Hhead. rewrite Hnil, Hhead in Hlive. cbn [app] in Hlive. intros E. rewrite E in Hlive.
    assert (Hc' : k = 0 \/ k = 1 \/ k = 2 \/ k = 3 \/ k = 4) by lia.
    destruct Hc' as [-> | [-> | [-> | [-> | ->]]]]; discriminate Hlive.
  - destruct Hrcph as [Hfull Hok].
    destruct Hex as [(Hs & Hav & Hr) | [(Hs & Hav & Hr) | (Hs & Hd & Hne)]].
    + left. msplit; try assumption; try reflexivity. apply sb_full_nil_avail; assumption.
    + right. left. pose proof (sb_full_nil_avail _ Hfull Hav) as Hnil. msplit; try assumption.
      intros E. rewrite Hnil, E in Hok. cbn [app] in Hok. exact (rc_ok_needs_byte _ _ _ _ Hok Hr).
    + right. right. right. right. msplit; [lia | exact Hd |].
      unfold rem_out. cbn [c_ph c_its]. intros E. apply its_nil_of_orig in E. contradiction.
  - destruct ic; cbn [pend_word Bool.eqb] in Hc, Hj; cbn beta iota in Hstate.
    + right. right. left. msplit; try assumption. rewrite Hc, zlen_app. change (zlen (be32 _)) with 4.
      pose proof (zlen_nonneg (b2_call its)). lia.
    + right. right. right. left. msplit; try assumption. rewrite Hj, zlen_app. change (zlen (be32 _)) with 4.
      pose proof (zlen_nonneg (b2_jump its)). lia.
  - unfold g_regs in Hregs. cbn [c_ph] in Hregs. destruct Hregs as (_ & _ & _ & _ & _ & _ & _ & _ & _ & _ & Hk).
    right. right. right. right. msplit; [lia | exact Hex |].
    unfold rem_out. cbn [c_ph c_its]. assert (Hc' : k = 0 \/ k = 1 \/ k = 2 \/ k = 3) by lia.
    destruct Hc' as [-> | [-> | [-> | ->]]]; discriminate.
Qed.

(* the state in which everything has been decoded *)
Lemma final_state rc_out d F prev pos e t :
  b2inv rc_out d F (mkCfg PhScan [] prev pos e t) -> 16777216 <= bd_range d ->
  bd_code d = 0 /\ sb_live (bd_rc d) ++ f_rc F = [].
Proof.
  intros (Hcore & _ & Hrcph) Hr.
  destruct Hcore as (_ & _ & (HI & _ & _ & Hout & Hsize & _) & _).
  unfold g_rcph in Hrcph. cbn [c_ph c_its c_e c_t] in *. destruct Hrcph as [_ Hok].
  pose proof (rc_ok_big _ _ _ _ _ Hok Hr) as Hn.
  apply (rc_norm_final _ _ _ _ _ Hn HI); [cbn [b2_events flat_map events_bits] in Hsize; lia | exact Hout].
Qed.

(* ---------------------------------------------------------------------------------------------
   one-shot decode of the specification encoder's output *)
Lemma parse_facts data ds : bytes_ok data = true -> Z.of_nat (length data) <= 4294967289 ->
  let its := bcj2_parse data 0 0 ds in
  items_wf 0 0 its /\ b2_orig its = data /\ events_bits (b2_events its) <= 4294967289.
Proof.
  intros Hb Hl its. msplit.
  - apply (bcj2_parse_wf (length data)); [lia | exact Hb | reflexivity].
  - apply (bcj2_parse_orig (length data)). lia.
  - pose proof (b2_events_bits its). pose proof (bcj2_parse_length (length data) data 0 0 ds ltac:(lia)).
    fold its in H0. unfold zlen in H. lia.
Qed.

Lemma inv_oneshot data ds : bytes_ok data = true -> Z.of_nat (length data) <= 4294967289 ->
  let its := bcj2_parse data 0 0 ds in
  let rc_out := bcj2_rc_bytes (b2_events its) in
  b2inv rc_out (bcj2_oneshot_dec (b2_main its) (b2_call its) (b2_jump its) rc_out) (mkFut [] [] [] []) (cfg0 its).
Proof.
  intros Hb Hl its rc_out. destruct (parse_facts data ds Hb Hl) as (Hwf & _ & Hbits). fold its in Hwf, Hbits.
  unfold b2inv, b2core, cfg0, bcj2_oneshot_dec.
  cbn [c_ph c_its c_prev c_pos c_e c_t bd_main bd_call bd_jump bd_rc bd_probs bd_state bd_range bd_code f_main f_call f_jump f_rc].
  msplit.
  - unfold g_main. cbn [sb_live sb_avail]. split; [apply app_nil_r | reflexivity].
  - unfold g_cj, sb_word. cbn [sb_live sb_avail pend_word app]. rewrite !app_nil_r.
    pose proof (zlen_nonneg (b2_call its)). pose proof (zlen_nonneg (b2_jump its)).
    pose proof (b2_call_mod4 its). pose proof (b2_jump_mod4 its). msplit; try reflexivity; try assumption; lia.
  - apply inv_enc0; [exact Hbits | apply ptab_rel_init].
  - exact Hwf.
  - unfold isb. lia.
  - unfold g_regs. cbn [c_ph c_prev c_pos bd_t3 bd_ip]. split; reflexivity.
  - cbn [g_state]. unfold BCJ2_DEC_STATE_OK. auto.
  - unfold g_rcph. cbn [c_ph c_e bd_range bd_rc bd_code sb_live sb_avail f_rc].
    msplit; try reflexivity; try lia. cbn [Z.to_nat skipn]. apply app_nil_r.
Qed.

Theorem bcj2_decodes_spec data ds :
  bytes_ok data = true -> Z.of_nat (length data) <= 4294967289 ->
  exists d',
    (let '(m, c, j, r) := bcj2_encode data ds in bcj2_decode_oneshot m c j r (zlen data)) = Ok (true, d', data) /\
    bd_state d' = BCJ2_STREAM_MAIN /\ bd_code d' = 0 /\
    sb_live (bd_main d') = [] /\ sb_live (bd_call d') = [] /\ sb_live (bd_jump d') = [] /\ sb_live (bd_rc d') = [].
Proof.
  intros Hb Hl. unfold bcj2_encode. cbv beta iota zeta.
  set (its := bcj2_parse data 0 0 ds). set (rc_out := bcj2_rc_bytes (b2_events its)).
  pose proof (inv_oneshot data ds Hb Hl) as Hinv. fold its rc_out in Hinv. cbv zeta in Hinv.
  destruct (parse_facts data ds Hb Hl) as (_ & Horig & _). fold its in Horig.
  unfold bcj2_decode_oneshot, bcj2_decode.
  destruct (decode_spec rc_out _ (zlen data) _ _ Hinv) as (d' & c' & delta & Hdec & Hinv' & Hrem & Hdest & Hle & Hex).
  { cbn [bcj2_oneshot_dec bd_dest]. pose proof (zlen_nonneg data). lia. }
  unfold rc_out in *. rewrite Hdec. cbn [obind]. rewrite rev_involutive.
  cbn [bcj2_oneshot_dec bd_dest] in Hdest.
  assert (Hrem0 : data = delta ++ rem_out c') by (rewrite <- Hrem; unfold rem_out, cfg0; cbn [c_ph c_its]; symmetry; exact Horig).
  assert (Hlen : zlen data = zlen delta + zlen (rem_out c')) by (rewrite Hrem0 at 1; apply zlen_app).
  pose proof Hinv' as (Hcore' & _ & Hrcph').
  destruct Hcore' as ((Hm & Hmf) & (Hc & Hcw & Hj & Hjw) & _).
  cbn [f_main f_call f_jump f_rc] in *.
  destruct (exit_analysis _ _ _ _ _ Hinv' Hex) as [(Hs & Hph & Hav & Hlm & Hr) | [(Hs & _ & _ & Hne) | [(Hs & Hav & H4) | [(Hs & Hav & H4) | (Hs & Hd & Hne)]]]].
  - destruct c' as [ph' its' prev' pos' e' t']. cbn [c_ph c_its c_pos] in *. subst ph'.
    rewrite Hlm in Hm. cbn [app] in Hm. symmetry in Hm. apply its_nil_of_main in Hm. subst its'.
    destruct (final_state _ _ _ _ _ _ _ Hinv' Hr) as [Hcode Hrc]. cbn [f_rc] in Hrc. rewrite app_nil_r in Hrc.
    cbn [pend_word app b2_call b2_jump flat_map] in Hc, Hj. rewrite app_nil_r in Hc, Hj.
    unfold rem_out in Hrem0. cbn [c_ph c_its b2_orig flat_map] in Hrem0. rewrite app_nil_r in Hrem0.
    exists d'. subst delta. msplit; try assumption; reflexivity.
  - cbn [f_rc] in Hne. contradiction.
  - rewrite app_nil_r in H4. destruct Hcw as (_ & _ & Hx). lia.
  - rewrite app_nil_r in H4. destruct Hjw as (_ & _ & Hx). lia.
  - exfalso. apply Hne. pose proof (zlen_nonneg (rem_out c')) as Hn.
    assert (Hz : zlen (rem_out c') = 0) by lia. unfold zlen in Hz. destruct (rem_out c'); [reflexivity | cbn [length] in Hz; lia].
Qed.
