(* Filter/Bcj2ScanProofs.v — the copy loop of Bcj2Decoder::decode ([bcj2_scan]) against the item list of
   the specification encoder: it steps over exactly the leading literal items among the first n and
   stops at the first candidate.  Also the bookkeeping lemmas about item lists the decoder proofs use.
   Proofs only. *)
From LzVerif Require Import Base.Bytes Codec.Range Codec.RangeArithProofs Codec.LzmaDec Codec.LzmaEnc Codec.RangeEncProofs.
From LzVerif Require Import Filter.Bcj2 Filter.Bcj2Enc Filter.Bcj2EncProofs.
Ltac Zify.zify_post_hook ::= Z.div_mod_to_equations.

(* split conjunctions without unfolding [isb] *)
Ltac msplit := repeat match goal with |- _ /\ _ => split end.

(* number of leading literal items among the first n *)
Fixpoint lits_len (n : nat) (its : list b2item) : nat :=
  match n, its with
  | S n', B2Lit _ :: r => S (lits_len n' r)
  | _, _ => O
  end.

Lemma lits_len_le n its : (lits_len n its <= n)%nat.
Proof.
  revert its; induction n as [|n IH]; intros its; [cbn; lia|].
  destruct its as [|[b|b idx|b idx ic r0 r1 r2 r3 a] r]; cbn [lits_len]; try lia.
  specialize (IH r). lia.
Qed.

Lemma lits_len_le_length n its : (lits_len n its <= length its)%nat.
Proof.
  revert its; induction n as [|n IH]; intros its; [cbn; lia|].
  destruct its as [|[b|b idx|b idx ic r0 r1 r2 r3 a] r]; cbn [lits_len length]; try lia.
  specialize (IH r). lia.
Qed.

Definition is_lit (it : b2item) : bool := match it with B2Lit _ => true | _ => false end.

(* candidate test on the byte values the decoder looks at *)
Lemma is_cand_15 prev : bcj2_is_cand prev 15 = false.
Proof. unfold bcj2_is_cand. change (Z.land 15 254) with 14. change (Z.land 15 240) with 0. cbn. apply andb_false_r. Qed.

Lemma firstn_S_cons {A} n (x : A) l : firstn (S n) (x :: l) = x :: firstn n l.
Proof. reflexivity. Qed.

(* ---------------------------------------------------------------------------------------------
   the scan *)
Lemma bcj2_scan_spec n : forall its prev pos m acc,
  items_wf prev pos its -> (n <= length its)%nat -> firstn n m = b2_main (firstn n its) ->
  (forall b m', m = b :: m' -> (0 < n)%nat -> (prev =? 15) && (Z.land b 240 =? 128) = false) ->
  bcj2_scan n m acc =
    Some (rev (b2_main (firstn (lits_len n its) its)) ++ acc, skipn (lits_len n its) m, (n - lits_len n its)%nat).
Proof.
  unfold b2_main.
  induction n as [|n IH]; intros its prev pos m acc Hwf Hn Hm Hhd.
  - cbn [bcj2_scan lits_len firstn map rev app skipn]. reflexivity.
  - destruct its as [|it r]; [cbn [length] in Hn; lia|]. cbn [length] in Hn.
    destruct m as [|b tl]; [cbn [firstn map] in Hm; discriminate|].
    rewrite !firstn_S_cons in Hm. cbn [map] in Hm. injection Hm as Hb Htl.
    specialize (Hhd b tl eq_refl ltac:(lia)).
    cbn [bcj2_scan].
    destruct (Z.eqb_spec b 15) as [Hb15|Hb15]; cbn [negb].
    + (* 0x0F: always a literal *)
      assert (Hit : it = B2Lit 15).
      { subst b. destruct it as [b|b idx|b idx ic r0 r1 r2 r3 a]; cbn [b2_main1] in Hb15; subst b.
        - reflexivity.
        - cbn [items_wf] in Hwf. destruct Hwf as (_ & Hc & _). rewrite is_cand_15 in Hc. discriminate.
        - cbn [items_wf] in Hwf. destruct Hwf as (_ & _ & _ & _ & _ & Hc & _). rewrite is_cand_15 in Hc. discriminate. }
      subst it. cbn [items_wf] in Hwf. destruct Hwf as (_ & _ & Hwf).
      cbn [lits_len].
      destruct n as [|n'].
      * cbn [lits_len firstn map rev app skipn Nat.sub]. subst b. reflexivity.
      * destruct r as [|it2 r2]; [cbn [length] in Hn; lia|].
        destruct tl as [|c tl2]; [cbn [firstn map] in Htl; discriminate|].
        pose proof Htl as Htl'. rewrite !firstn_S_cons in Htl'. cbn [map] in Htl'. injection Htl' as Hc _.
        destruct (Z.eqb_spec (Z.land c 240) 128) as [Hc8|Hc8]; cbn [negb].
        -- (* 0F 8x: the next item is a candidate *)
           assert (Hcand : bcj2_is_cand 15 c = true).
           { unfold bcj2_is_cand. rewrite Hc8. cbn. apply orb_true_r. }
           assert (Hnl : lits_len (S n') (it2 :: r2) = O).
           { destruct it2 as [b2|b2 idx|b2 idx ic r0 r1 r2' r3 a]; cbn [lits_len]; try reflexivity.
             cbn [b2_main1] in Hc. subst b2. cbn [items_wf] in Hwf. destruct Hwf as (_ & Hx & _).
             rewrite Hcand in Hx. discriminate. }
           rewrite Hnl. cbn [firstn map rev app skipn]. subst b.
           replace (S (S n') - 1)%nat with (S n') by lia. reflexivity.
        -- rewrite (IH (it2 :: r2) 15 (pos + 1) (c :: tl2) (b :: acc)); try assumption.
           ++ cbn [firstn map rev skipn]. subst b. rewrite <- app_assoc. cbn [app].
              replace (S (S n') - S (lits_len (S n') (it2 :: r2)))%nat with (S n' - lits_len (S n') (it2 :: r2))%nat by lia.
              reflexivity.
           ++ cbn [length] in *. lia.
           ++ intros b' m' Heq _. injection Heq as <- _.
              destruct (Z.eqb_spec (Z.land c 240) 128); [contradiction|]. apply andb_false_r.
    + destruct (Z.eqb_spec (Z.land b 254) 232) as [He8|He8].
      * (* E8 / E9: a candidate *)
        assert (Hcand : bcj2_is_cand prev b = true).
        { unfold bcj2_is_cand. rewrite He8. reflexivity. }
        assert (Hnl : lits_len (S n) (it :: r) = O).
        { destruct it as [b2|b2 idx|b2 idx ic r0 r1 r2' r3 a]; cbn [lits_len]; try reflexivity.
          cbn [b2_main1] in Hb. subst b2. cbn [items_wf] in Hwf. destruct Hwf as (_ & Hx & _).
          rewrite Hcand in Hx. discriminate. }
        rewrite Hnl. cbn [firstn map rev app skipn]. replace (S n - 0)%nat with (S n) by lia. reflexivity.
      * (* a literal *)
        assert (Hncand : bcj2_is_cand prev b = false).
        { unfold bcj2_is_cand. destruct (Z.eqb_spec (Z.land b 254) 232); [contradiction|]. cbn [orb]. exact Hhd. }
        assert (Hit : it = B2Lit b).
        { destruct it as [b2|b2 idx|b2 idx ic r0 r1 r2' r3 a]; cbn [b2_main1] in Hb; subst b2.
          - reflexivity.
          - cbn [items_wf] in Hwf. destruct Hwf as (_ & Hx & _). rewrite Hncand in Hx. discriminate.
          - cbn [items_wf] in Hwf. destruct Hwf as (_ & _ & _ & _ & _ & Hx & _). rewrite Hncand in Hx. discriminate. }
        subst it. cbn [items_wf] in Hwf. destruct Hwf as (_ & _ & Hwf).
        cbn [lits_len].
        rewrite (IH r b (pos + 1) tl (b :: acc)); try assumption.
        -- cbn [firstn map rev skipn]. rewrite <- app_assoc. cbn [app].
           replace (S n - S (lits_len n r))%nat with (n - lits_len n r)%nat by lia. reflexivity.
        -- lia.
        -- intros b' m' _ _. destruct (Z.eqb_spec b 15); [contradiction|]. reflexivity.
Qed.

(* ---------------------------------------------------------------------------------------------
   the literal prefix *)
Definition last_byte (prev : Z) (l : list Z) : Z := last l prev.

Lemma last_byte_rev_hd prev l : last_byte prev l = match rev l with [] => prev | p :: _ => p end.
Proof.
  unfold last_byte. destruct l as [|x l] using rev_ind; [reflexivity|].
  rewrite last_last, rev_app_distr. reflexivity.
Qed.

Lemma lits_facts n : forall its prev pos,
  items_wf prev pos its -> isb prev ->
  let j := lits_len n its in
  items_wf (last_byte prev (b2_main (firstn j its))) (pos + Z.of_nat j) (skipn j its) /\
  isb (last_byte prev (b2_main (firstn j its))) /\
  b2_orig (firstn j its) = b2_main (firstn j its) /\
  b2_events (firstn j its) = [] /\ b2_call (firstn j its) = [] /\ b2_jump (firstn j its) = [].
Proof.
  unfold b2_main, b2_orig, b2_events, b2_call, b2_jump.
  induction n as [|n IH]; intros its prev pos Hwf Hp.
  - cbn [lits_len firstn skipn map flat_map]. unfold last_byte. cbn [last].
    rewrite Z.add_0_r. msplit; try assumption; try reflexivity.
  - destruct its as [|[b|b idx|b idx ic r0 r1 r2 r3 a] r]; cbn [lits_len].
    1,3,4: cbn [firstn skipn map flat_map]; unfold last_byte; cbn [last]; rewrite Z.add_0_r;
           msplit; try assumption; try reflexivity.
    cbn [items_wf] in Hwf. destruct Hwf as (Hb & _ & Hwf).
    destruct (IH r b (pos + 1) Hwf Hb) as (H1 & H2 & H3 & H4 & H5 & H6).
    cbn [firstn skipn map flat_map b2_main1 b2_orig1 b2_event1 b2_call1 b2_jump1 app].
    rewrite H3, H4, H5, H6.
    assert (Hl : forall l x y, last_byte y (x :: l) = last_byte x l).
    { intros l. unfold last_byte. induction l as [|z l IHl]; intros x y; [reflexivity|].
      change (last (x :: z :: l) y) with (last (z :: l) y). rewrite (IHl z y), (IHl z x). reflexivity. }
    rewrite Hl. replace (pos + Z.of_nat (S (lits_len n r))) with (pos + 1 + Z.of_nat (lits_len n r)) by lia.
    msplit; try assumption; try reflexivity.
Qed.

(* where the literal prefix stops short of n there is a candidate item *)
Lemma lits_stop n : forall its, (lits_len n its < n)%nat -> (n <= length its)%nat ->
  exists it rest, skipn (lits_len n its) its = it :: rest /\ is_lit it = false.
Proof.
  induction n as [|n IH]; intros its Hlt Hn; [lia|].
  destruct its as [|[b|b idx|b idx ic r0 r1 r2 r3 a] r]; cbn [lits_len length] in *; try lia.
  - destruct (IH r ltac:(lia) ltac:(lia)) as (it & rest & H1 & H2). exists it, rest. cbn [skipn]. tauto.
  - do 2 eexists. cbn [skipn]. split; reflexivity.
  - do 2 eexists. cbn [skipn]. split; reflexivity.
Qed.

(* ---------------------------------------------------------------------------------------------
   main-stream bookkeeping: the live buffer is a prefix of the main bytes of the items *)
Lemma main_firstn live fm its n :
  live ++ fm = b2_main its -> (n <= length live)%nat -> firstn n live = b2_main (firstn n its).
Proof.
  intros H Hn. unfold b2_main in *. rewrite <- firstn_map, <- H, firstn_app.
  replace (n - length live)%nat with O by lia. cbn [firstn]. rewrite app_nil_r. reflexivity.
Qed.

Lemma main_skipn live fm its n :
  live ++ fm = b2_main its -> (n <= length live)%nat -> skipn n live ++ fm = b2_main (skipn n its).
Proof.
  intros H Hn. unfold b2_main in *. rewrite <- skipn_map, <- H, skipn_app.
  replace (n - length live)%nat with O by lia. cbn [skipn]. reflexivity.
Qed.

Lemma main_length live fm its : live ++ fm = b2_main its -> (length live <= length its)%nat.
Proof.
  intros H. apply (f_equal (@length Z)) in H. unfold b2_main in H. rewrite app_length, map_length in H. lia.
Qed.

Lemma zlen_skipn {A} (l : list A) n : (n <= length l)%nat -> zlen (skipn n l) = zlen l - Z.of_nat n.
Proof. intros H. unfold zlen. rewrite skipn_length. lia. Qed.

Lemma b2_orig_app a b : b2_orig (a ++ b) = b2_orig a ++ b2_orig b.
Proof. unfold b2_orig. apply flat_map_app. Qed.
Lemma b2_events_app a b : b2_events (a ++ b) = b2_events a ++ b2_events b.
Proof. unfold b2_events. apply flat_map_app. Qed.
Lemma b2_call_app a b : b2_call (a ++ b) = b2_call a ++ b2_call b.
Proof. unfold b2_call. apply flat_map_app. Qed.
Lemma b2_jump_app a b : b2_jump (a ++ b) = b2_jump a ++ b2_jump b.
Proof. unfold b2_jump. apply flat_map_app. Qed.
