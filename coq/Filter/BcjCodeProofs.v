(* Filter/BcjCodeProofs.v — word-aligned filters at the level of BCJFilter::code: lengths, the
   chunking lemma, and the inverse theorems bcj_inverse_{arm,armthumb,arm64,ppc,sparc}. *)
From LzVerif Require Import Base.Bytes Filter.Bcj Filter.BcjArithProofs Filter.BcjWordProofs.
Ltac Zify.zify_post_hook ::= Z.div_mod_to_equations.

(* ------------------------------------------------------------------------------------------ *)
(* Lengths, chunking, and the statements at the level of BCJFilter::code. *)

Lemma zlen_app {A} (l1 l2 : list A) : zlen (l1 ++ l2) = zlen l1 + zlen l2.
Proof. unfold zlen. rewrite app_length. lia. Qed.
Lemma zlen_cons {A} (x : A) l : zlen (x :: l) = 1 + zlen l.
Proof. unfold zlen. cbn [length]. lia. Qed.
Lemma zlen_nil {A} : zlen (@nil A) = 0.
Proof. reflexivity. Qed.
Lemma zlen_nonneg {A} (l : list A) : 0 <= zlen l.
Proof. unfold zlen. lia. Qed.

Lemma go4_length f pos i l o r : go4 f pos i l = (o, r) -> (length o + length r = length l)%nat /\ (length r < 4)%nat.
Proof.
  revert pos i o r. induction l as [l Hl | b0 b1 b2 b3 t IH] using list_ind4; intros pos i o r Hgo.
  - rewrite go4_short in Hgo by assumption. injection Hgo as <- <-. cbn [length]. lia.
  - cbn [go4] in Hgo.
    destruct (f (pc32 pos i) b0 b1 b2 b3) as [[[c0 c1] c2] c3].
    destruct (go4 f pos (i + 4) t) as [o' r'] eqn:Eg. injection Hgo as <- <-.
    destruct (IH _ _ _ _ Eg). cbn [length]. lia.
Qed.

Lemma go4_pc_ext f pos1 i1 pos2 i2 l :
  (forall j, pc32 pos1 (i1 + j) = pc32 pos2 (i2 + j)) -> go4 f pos1 i1 l = go4 f pos2 i2 l.
Proof.
  revert i1 i2. induction l as [l Hl | b0 b1 b2 b3 t IH] using list_ind4; intros i1 i2 H.
  - rewrite !go4_short by assumption. reflexivity.
  - cbn [go4]. pose proof (H 0) as H0. rewrite !Z.add_0_r in H0. rewrite H0.
    rewrite (IH (i1 + 4) (i2 + 4)); [reflexivity|].
    intros j. replace (i1 + 4 + j) with (i1 + (4 + j)) by lia. replace (i2 + 4 + j) with (i2 + (4 + j)) by lia. apply H.
Qed.

Lemma go4_app f pos i A B oA rA : go4 f pos i A = (oA, rA) ->
  go4 f pos i (A ++ B) = let '(oB, rB) := go4 f pos (i + zlen oA) (rA ++ B) in (oA ++ oB, rB).
Proof.
  revert pos i oA rA. induction A as [A Hl | b0 b1 b2 b3 t IH] using list_ind4; intros pos i oA rA Hgo.
  - rewrite go4_short in Hgo by assumption. injection Hgo as <- <-.
    rewrite zlen_nil, Z.add_0_r. cbn [app]. destruct (go4 f pos i (A ++ B)); reflexivity.
  - cbn [go4] in Hgo. cbn [app go4].
    destruct (f (pc32 pos i) b0 b1 b2 b3) as [[[c0 c1] c2] c3].
    destruct (go4 f pos (i + 4) t) as [o' r'] eqn:Eg. injection Hgo as <- <-.
    rewrite (IH _ _ _ _ Eg).
    replace (i + zlen (c0 :: c1 :: c2 :: c3 :: o')) with (i + 4 + zlen o') by (rewrite !zlen_cons; lia).
    destruct (go4 f pos (i + 4 + zlen o') (r' ++ B)); reflexivity.
Qed.

Lemma thumb_go_length enc pos i l : forall o r, thumb_go enc pos i l = (o, r) ->
  (length o + length r = length l)%nat /\ (length r < 4)%nat.
Proof.
  remember (length l) as n eqn:En. revert l pos i En.
  induction n as [n IH] using lt_wf_ind; intros l pos i En o r Hgo.
  destruct (Nat.lt_ge_cases (length l) 4) as [Hs|Hs].
  - rewrite thumb_go_short in Hgo by assumption. injection Hgo as <- <-. cbn [length]. lia.
  - destruct l as [|b0 [|b1 [|b2 [|b3 t]]]]; try (cbn [length] in Hs; lia).
    rewrite thumb_go_step in Hgo. destruct (thumb_match b1 b3).
    + destruct (thumb_word enc (pc32 pos i) b0 b1 b2 b3) as [[[c0 c1] c2] c3].
      destruct (thumb_go enc pos (i + 4) t) as [o' r'] eqn:Eg. injection Hgo as <- <-.
      destruct (IH (length t) ltac:(rewrite En; cbn [length]; lia) t _ _ eq_refl _ _ Eg). rewrite En. cbn [length]. lia.
    + destruct (thumb_go enc pos (i + 2) (b2 :: b3 :: t)) as [o' r'] eqn:Eg. injection Hgo as <- <-.
      destruct (IH (length (b2 :: b3 :: t)) ltac:(rewrite En; cbn [length]; lia) _ _ _ eq_refl _ _ Eg).
      rewrite En. cbn [length] in *. lia.
Qed.

Lemma thumb_go_pc_ext enc l : forall pos1 i1 pos2 i2,
  (forall j, pc32 pos1 (i1 + j) = pc32 pos2 (i2 + j)) -> thumb_go enc pos1 i1 l = thumb_go enc pos2 i2 l.
Proof.
  remember (length l) as n eqn:En. revert l En.
  induction n as [n IH] using lt_wf_ind; intros l En pos1 i1 pos2 i2 H.
  destruct (Nat.lt_ge_cases (length l) 4) as [Hs|Hs].
  - rewrite !thumb_go_short by assumption. reflexivity.
  - destruct l as [|b0 [|b1 [|b2 [|b3 t]]]]; try (cbn [length] in Hs; lia).
    rewrite !thumb_go_step. pose proof (H 0) as H0. rewrite !Z.add_0_r in H0. rewrite H0.
    rewrite (IH (length t) ltac:(rewrite En; cbn [length]; lia) t eq_refl pos1 (i1 + 4) pos2 (i2 + 4)).
    2:{ intros j. replace (i1 + 4 + j) with (i1 + (4 + j)) by lia. replace (i2 + 4 + j) with (i2 + (4 + j)) by lia. apply H. }
    rewrite (IH (length (b2 :: b3 :: t)) ltac:(rewrite En; cbn [length]; lia) _ eq_refl pos1 (i1 + 2) pos2 (i2 + 2)).
    2:{ intros j. replace (i1 + 2 + j) with (i1 + (2 + j)) by lia. replace (i2 + 2 + j) with (i2 + (2 + j)) by lia. apply H. }
    reflexivity.
Qed.

Lemma thumb_go_app enc A : forall pos i B oA rA, thumb_go enc pos i A = (oA, rA) ->
  thumb_go enc pos i (A ++ B) = let '(oB, rB) := thumb_go enc pos (i + zlen oA) (rA ++ B) in (oA ++ oB, rB).
Proof.
  remember (length A) as n eqn:En. revert A En.
  induction n as [n IH] using lt_wf_ind; intros A En pos i B oA rA Hgo.
  destruct (Nat.lt_ge_cases (length A) 4) as [Hs|Hs].
  - rewrite thumb_go_short in Hgo by assumption. injection Hgo as <- <-.
    rewrite zlen_nil, Z.add_0_r. cbn [app]. destruct (thumb_go enc pos i (A ++ B)); reflexivity.
  - destruct A as [|b0 [|b1 [|b2 [|b3 t]]]]; try (cbn [length] in Hs; lia).
    rewrite thumb_go_step in Hgo. cbn [app]. rewrite thumb_go_step.
    destruct (thumb_match b1 b3).
    + destruct (thumb_word enc (pc32 pos i) b0 b1 b2 b3) as [[[c0 c1] c2] c3].
      destruct (thumb_go enc pos (i + 4) t) as [o' r'] eqn:Eg. injection Hgo as <- <-.
      rewrite (IH (length t) ltac:(rewrite En; cbn [length]; lia) t eq_refl _ _ B _ _ Eg).
      replace (i + zlen (c0 :: c1 :: c2 :: c3 :: o')) with (i + 4 + zlen o') by (rewrite !zlen_cons; lia).
      destruct (thumb_go enc pos (i + 4 + zlen o') (r' ++ B)); reflexivity.
    + destruct (thumb_go enc pos (i + 2) (b2 :: b3 :: t)) as [o' r'] eqn:Eg. injection Hgo as <- <-.
      change (b2 :: b3 :: t ++ B) with ((b2 :: b3 :: t) ++ B).
      rewrite (IH (length (b2 :: b3 :: t)) ltac:(rewrite En; cbn [length]; lia) _ eq_refl _ _ B _ _ Eg).
      replace (i + zlen (b0 :: b1 :: o')) with (i + 2 + zlen o') by (rewrite !zlen_cons; lia).
      destruct (thumb_go enc pos (i + 2 + zlen o') (r' ++ B)); reflexivity.
Qed.

(* ------------------------------------------------------------------------------------------ *)
(* code-level inverse for the filters built from a pure loop *)
Definition go_inverse (goe god : Z -> Z -> list Z -> list Z * list Z) (al : Z) : Prop :=
  forall pos i l o r, goe pos i l = (o, r) -> bytes_ok l = true -> (pos + i) mod al = 0 ->
    god pos i (o ++ r) = (firstn (length o) l, r) /\ firstn (length o) l ++ r = l /\ bytes_ok o = true.

Definition go_length (go : Z -> Z -> list Z -> list Z * list Z) : Prop :=
  forall pos i l o r, go pos i l = (o, r) -> (length o + length r = length l)%nat /\ (length r < 4)%nat.

Lemma pure_code_inverse goe god al : go_inverse goe god al -> go_length goe ->
  forall st buf, f_pos st mod al = 0 -> bytes_ok buf = true ->
  exists st' out rest,
    pure_code goe st buf = Ok (st', out, rest) /\
    pure_code god st (out ++ rest) = Ok (st', firstn (length out) buf, rest) /\
    firstn (length out) buf ++ rest = buf /\ bytes_ok out = true.
Proof.
  intros Hinv Hlen st buf Hal Hb. unfold pure_code.
  destruct (goe (f_pos st) 0 buf) as [o r] eqn:Eg.
  destruct (Hinv _ _ _ _ _ Eg Hb ltac:(rewrite Z.add_0_r; assumption)) as (E1 & E2 & E3).
  destruct (Hlen _ _ _ _ _ Eg) as [L1 L2].
  exists (mkF (u64 (f_pos st + zlen o)) (f_mask st)), o, r.
  split; [reflexivity|]. rewrite E1. split; [|auto].
  assert (EL : zlen (firstn (length o) buf) = zlen o).
  { unfold zlen. rewrite firstn_length. f_equal. lia. }
  rewrite EL. reflexivity.
Qed.

Lemma go4_go_inverse fe fd : word4_inv fe fd -> go_inverse (go4 fe) (go4 fd) 4.
Proof. intros H pos i l o r. apply go4_inverse. assumption. Qed.

Lemma thumb_go_go_inverse : go_inverse (thumb_go true) (thumb_go false) 2.
Proof. intros pos i l o r Hgo. apply (thumb_go_inverse (length l)); auto. Qed.

Lemma init_aligned a start : start mod bcj_align a = 0 -> f_pos (bcj_init a start) mod bcj_align a = 0.
Proof. destruct a; unfold bcj_init, bcj_start_add, bcj_align, f_pos, u64; intros H; lia. Qed.

(* general form: any filter state whose position is aligned *)
Lemma bcj_inverse_arm_state : forall st buf, f_pos st mod 4 = 0 -> bytes_ok buf = true ->
  exists st' out rest,
    bcj_code ARM true st buf = Ok (st', out, rest) /\
    bcj_code ARM false st (out ++ rest) = Ok (st', firstn (length out) buf, rest) /\
    firstn (length out) buf ++ rest = buf /\ bytes_ok out = true.
Proof.
  apply pure_code_inverse; [apply go4_go_inverse, arm_word_inv | intros pos i l o r; apply go4_length].
Qed.

Lemma bcj_inverse_arm64_state : forall st buf, f_pos st mod 4 = 0 -> bytes_ok buf = true ->
  exists st' out rest,
    bcj_code ARM64 true st buf = Ok (st', out, rest) /\
    bcj_code ARM64 false st (out ++ rest) = Ok (st', firstn (length out) buf, rest) /\
    firstn (length out) buf ++ rest = buf /\ bytes_ok out = true.
Proof.
  apply pure_code_inverse; [apply go4_go_inverse, arm64_word_inv | intros pos i l o r; apply go4_length].
Qed.

Lemma bcj_inverse_ppc_state : forall st buf, f_pos st mod 4 = 0 -> bytes_ok buf = true ->
  exists st' out rest,
    bcj_code PPC true st buf = Ok (st', out, rest) /\
    bcj_code PPC false st (out ++ rest) = Ok (st', firstn (length out) buf, rest) /\
    firstn (length out) buf ++ rest = buf /\ bytes_ok out = true.
Proof.
  apply pure_code_inverse; [apply go4_go_inverse, ppc_word_inv | intros pos i l o r; apply go4_length].
Qed.

Lemma bcj_inverse_sparc_state : forall st buf, f_pos st mod 4 = 0 -> bytes_ok buf = true ->
  exists st' out rest,
    bcj_code SPARC true st buf = Ok (st', out, rest) /\
    bcj_code SPARC false st (out ++ rest) = Ok (st', firstn (length out) buf, rest) /\
    firstn (length out) buf ++ rest = buf /\ bytes_ok out = true.
Proof.
  apply pure_code_inverse; [apply go4_go_inverse, sparc_word_inv | intros pos i l o r; apply go4_length].
Qed.

Lemma bcj_inverse_armthumb_state : forall st buf, f_pos st mod 2 = 0 -> bytes_ok buf = true ->
  exists st' out rest,
    bcj_code ARMT true st buf = Ok (st', out, rest) /\
    bcj_code ARMT false st (out ++ rest) = Ok (st', firstn (length out) buf, rest) /\
    firstn (length out) buf ++ rest = buf /\ bytes_ok out = true.
Proof.
  apply pure_code_inverse; [apply thumb_go_go_inverse | intros pos i l o r; apply thumb_go_length].
Qed.

(* The C11 statements: from the filter as constructed by BCJWriter::new_* / BCJReader::new_* with
   an aligned start offset. *)
Theorem bcj_inverse_arm : forall start buf, start mod 4 = 0 -> bytes_ok buf = true ->
  exists st' out rest,
    bcj_code ARM true (bcj_init ARM start) buf = Ok (st', out, rest) /\
    bcj_code ARM false (bcj_init ARM start) (out ++ rest) = Ok (st', firstn (length out) buf, rest) /\
    firstn (length out) buf ++ rest = buf /\ bytes_ok out = true.
Proof. intros start buf H. apply bcj_inverse_arm_state. apply (init_aligned ARM). exact H. Qed.

Theorem bcj_inverse_armthumb : forall start buf, start mod 2 = 0 -> bytes_ok buf = true ->
  exists st' out rest,
    bcj_code ARMT true (bcj_init ARMT start) buf = Ok (st', out, rest) /\
    bcj_code ARMT false (bcj_init ARMT start) (out ++ rest) = Ok (st', firstn (length out) buf, rest) /\
    firstn (length out) buf ++ rest = buf /\ bytes_ok out = true.
Proof. intros start buf H. apply bcj_inverse_armthumb_state. apply (init_aligned ARMT). exact H. Qed.

Theorem bcj_inverse_arm64 : forall start buf, start mod 4 = 0 -> bytes_ok buf = true ->
  exists st' out rest,
    bcj_code ARM64 true (bcj_init ARM64 start) buf = Ok (st', out, rest) /\
    bcj_code ARM64 false (bcj_init ARM64 start) (out ++ rest) = Ok (st', firstn (length out) buf, rest) /\
    firstn (length out) buf ++ rest = buf /\ bytes_ok out = true.
Proof. intros start buf H. apply bcj_inverse_arm64_state. apply (init_aligned ARM64). exact H. Qed.

Theorem bcj_inverse_ppc : forall start buf, start mod 4 = 0 -> bytes_ok buf = true ->
  exists st' out rest,
    bcj_code PPC true (bcj_init PPC start) buf = Ok (st', out, rest) /\
    bcj_code PPC false (bcj_init PPC start) (out ++ rest) = Ok (st', firstn (length out) buf, rest) /\
    firstn (length out) buf ++ rest = buf /\ bytes_ok out = true.
Proof. intros start buf H. apply bcj_inverse_ppc_state. apply (init_aligned PPC). exact H. Qed.

Theorem bcj_inverse_sparc : forall start buf, start mod 4 = 0 -> bytes_ok buf = true ->
  exists st' out rest,
    bcj_code SPARC true (bcj_init SPARC start) buf = Ok (st', out, rest) /\
    bcj_code SPARC false (bcj_init SPARC start) (out ++ rest) = Ok (st', firstn (length out) buf, rest) /\
    firstn (length out) buf ++ rest = buf /\ bytes_ok out = true.
Proof. intros start buf H. apply bcj_inverse_sparc_state. apply (init_aligned SPARC). exact H. Qed.
