(* Filter/Bcj2Defects.v — the BCJ2 code BEFORE repo-patches/15 and /16, as far as the refutation lemmas
   of Filter/Bcj2DefectsProofs.v need it.  Definitions only.
   * decode.rs advanced the instruction pointer with the checked operator: `self.ip += num as u32`,
     `self.ip += 4` panic in a build with overflow checks as soon as 4 GiB have been decoded;
     a release build wraps (which is what the format wants, 7-Zip: UInt32 ip).
   * BCJ2Reader::read left with `?` when an inner reader failed: the bytes already decoded in that call
     were lost (uncompressed_size had already been reduced by them) and the bytes of an incomplete
     CALL/JUMP word read before the failure were forgotten.  That reader is [bcj2_read_gen true]. *)
From LzVerif Require Export Filter.Bcj2.

(* u32 `+=` with overflow checks *)
Definition ip_add_checked (ip n : Z) : outcome Z :=
  if 4294967296 <=? ip + n then Panic 2 else Ok (ip + n).

Definition bcj2_read_old := bcj2_read_gen true.
Definition bcj2_dec_script_old := bcj2_dec_script_gen true.
