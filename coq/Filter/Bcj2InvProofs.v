(* Filter/Bcj2InvProofs.v — the invariant that ties a state of the decoder model (Filter/Bcj2.v) to a
   position in the item list of the specification encoder (Filter/Bcj2Enc.v), and the lemmas about
   the pieces of decode(): normalisation, the word of the CALL/JUMP stream, the final normalisation.
   Proofs only. *)
From LzVerif Require Import Base.Bytes Codec.Store Codec.Range Codec.ProbProofs Codec.RangeArithProofs.
From LzVerif Require Import Codec.LzmaDec Codec.LzmaEnc Codec.RangeEncProofs Codec.RangeDecProofs Codec.RangeProofs.
From LzVerif Require Import Filter.Bcj2 Filter.Bcj2Enc Filter.Bcj2EncProofs Filter.Bcj2RcProofs Filter.Bcj2ScanProofs.
Ltac Zify.zify_post_hook ::= Z.div_mod_to_equations.

(* where the decoder stands *)
Inductive b2phase :=
| PhInit (k : Z)                        (* k bytes of the RC stream read by the start-up loop *)
| PhScan                                (* between two items *)
| PhWord (ic : bool) (r0 r1 r2 r3 : Z)  (* a converted candidate: opcode stored, bit 1 decoded, its word not yet read *)
| PhTemp (k r0 r1 r2 r3 : Z).           (* word read, operand bytes k..3 still in temp *)

(* [c_its]: the items not yet begun; [c_prev]/[c_pos]: previous original byte and offset where they
   begin; [c_e]/[c_t]: the range encoder before their events *)
Record b2cfg := mkCfg {
  c_ph : b2phase; c_its : list b2item; c_prev : Z; c_pos : Z; c_e : renc; c_t : Codec.Range.probs }.

(* what is still in the inner readers *)
Record futures := mkFut { f_main : list Z; f_call : list Z; f_jump : list Z; f_rc : list Z }.

(* the original bytes not yet delivered *)
Definition rem_out (c : b2cfg) : list Z :=
  match c_ph c with
  | PhInit _ | PhScan => b2_orig (c_its c)
  | PhWord _ r0 r1 r2 r3 => [r0; r1; r2; r3] ++ b2_orig (c_its c)
  | PhTemp k r0 r1 r2 r3 => skipn (Z.to_nat k) [r0; r1; r2; r3] ++ b2_orig (c_its c)
  end.

Definition sb_full (b : sbuf) : Prop := sb_avail b = zlen (sb_live b).
Definition sb_word (b : sbuf) : Prop :=
  0 <= sb_avail b <= zlen (sb_live b) /\ sb_avail b mod 4 = 0 /\ zlen (sb_live b) - sb_avail b < 4.

Definition g_main (mb : sbuf) (fm : list Z) (its : list b2item) : Prop :=
  sb_live mb ++ fm = b2_main its /\ sb_full mb.

(* the word a PhWord state waits for; [pos] = offset behind the operand *)
Definition pend_word (ph : b2phase) (pos : Z) (call : bool) : list Z :=
  match ph with
  | PhWord ic r0 r1 r2 r3 => if Bool.eqb ic call then be32 (wrap32 (le32 r0 r1 r2 r3 + wrap32 pos)) else []
  | _ => []
  end.

Definition g_cj (cb jb : sbuf) (fc fj : list Z) (ph : b2phase) (pos : Z) (its : list b2item) : Prop :=
  sb_live cb ++ fc = pend_word ph pos true ++ b2_call its /\ sb_word cb /\
  sb_live jb ++ fj = pend_word ph pos false ++ b2_jump its /\ sb_word jb.

Definition g_enc (rc_out : list Z) (pl : list Z) (e : renc) (t : Codec.Range.probs) (its : list b2item) : Prop :=
  renc_inv e /\ probs_ok t /\ ptab_rel pl t /\
  rc_out = renc_bytes (renc_finish (fst (renc_events e t (b2_events its)))) /\
  re_cache_size e + events_bits (b2_events its) + 5 < 4294967296 /\ bytes_ok rc_out = true.

Definition g_rc (rc_out : list Z) (rb : sbuf) (range code : Z) (fr : list Z) (e : renc) : Prop :=
  sb_full rb /\ rc_ok rc_out range code (sb_live rb ++ fr) e.

Definition g_regs (d : bdec) (c : b2cfg) : Prop :=
  match c_ph c with
  | PhInit _ | PhScan => bd_t3 d = c_prev c /\ bd_ip d = wrap32 (c_pos c)
  | PhWord ic r0 r1 r2 r3 =>
      (bd_t3 d =? 232) = ic /\ bd_ip d = wrap32 (c_pos c - 4) /\ c_prev c = r3 /\
      isb r0 /\ isb r1 /\ isb r2 /\ isb r3
  | PhTemp k r0 r1 r2 r3 =>
      bd_t0 d = r0 /\ bd_t1 d = r1 /\ bd_t2 d = r2 /\ bd_t3 d = r3 /\ bd_ip d = wrap32 (c_pos c) /\
      c_prev c = r3 /\ isb r0 /\ isb r1 /\ isb r2 /\ isb r3 /\ 0 <= k <= 3
  end.

Definition g_state (st : Z) (ph : b2phase) : Prop :=
  match ph with
  | PhInit _ => st = 9 \/ st = 3
  | PhScan => st = 0 \/ st = 3 \/ st = 8 \/ st = 9
  | PhWord ic _ _ _ _ => st = if ic then 1 else 2
  | PhTemp k _ _ _ _ => st = 4 + k
  end.

Definition b2core (rc_out : list Z) (d : bdec) (F : futures) (c : b2cfg) : Prop :=
  g_main (bd_main d) (f_main F) (c_its c) /\
  g_cj (bd_call d) (bd_jump d) (f_call F) (f_jump F) (c_ph c) (c_pos c) (c_its c) /\
  g_enc rc_out (bd_probs d) (c_e c) (c_t c) (c_its c) /\
  items_wf (c_prev c) (c_pos c) (c_its c) /\ isb (c_prev c) /\
  g_regs d c.

(* the RC side: start-up phase or running *)
Definition g_rcph (rc_out : list Z) (d : bdec) (F : futures) (c : b2cfg) : Prop :=
  match c_ph c with
  | PhInit k =>
      0 <= k <= 4 /\ bd_range d = k /\ c_e c = renc_init /\ sb_full (bd_rc d) /\
      bd_code d = be_val (firstn (Z.to_nat k) rc_out) /\
      sb_live (bd_rc d) ++ f_rc F = skipn (Z.to_nat k) rc_out
  | _ => g_rc rc_out (bd_rc d) (bd_range d) (bd_code d) (f_rc F) (c_e c)
  end.

Definition b2inv (rc_out : list Z) (d : bdec) (F : futures) (c : b2cfg) : Prop :=
  b2core rc_out d F c /\ g_state (bd_state d) (c_ph c) /\ g_rcph rc_out d F c.

(* how a decode() call may end *)
Definition exit_ok (lim : Z) (d : bdec) (c : b2cfg) : Prop :=
  match c_ph c with
  | PhInit _ => bd_state d = 3 /\ sb_avail (bd_rc d) = 0
  | PhScan =>
      (bd_state d = 0 /\ sb_avail (bd_main d) = 0 /\ 16777216 <= bd_range d) \/
      (bd_state d = 3 /\ sb_avail (bd_rc d) = 0 /\ bd_range d < 16777216) \/
      (bd_state d = 8 /\ bd_dest d = lim /\ c_its c <> [])
  | PhWord ic _ _ _ _ => sb_avail (if ic then bd_call d else bd_jump d) = 0
  | PhTemp _ _ _ _ _ => bd_dest d = lim
  end.

(* ---------------------------------------------------------------------------------------------
   small facts *)
Lemma sb_full_nil_avail b : sb_full b -> sb_avail b = 0 -> sb_live b = [].
Proof.
  unfold sb_full, zlen. intros H H0. destruct (sb_live b); [reflexivity|]. cbn [length] in H. lia.
Qed.

Lemma sb_pop_full b : sb_full b ->
  match sb_live b with
  | [] => sb_pop b = PopEmpty
  | x :: l => sb_pop b = PopByte x (mkSb l (sb_avail b - 1)) /\ sb_full (mkSb l (sb_avail b - 1))
  end.
Proof.
  unfold sb_full, sb_pop. intros H. destruct (sb_live b) as [|x l] eqn:E.
  - rewrite H. reflexivity.
  - rewrite zlen_cons in H. pose proof (zlen_nonneg l).
    destruct (Z.eqb_spec (sb_avail b) 0); [lia|]. split; [reflexivity|]. cbn [sb_avail sb_live]. lia.
Qed.

(* ---------------------------------------------------------------------------------------------
   the lazy normalisation at the top of the loop *)
Lemma normalize_spec rc_out d fr e :
  g_rc rc_out (bd_rc d) (bd_range d) (bd_code d) fr e -> renc_inv e ->
  (bcj2_normalize d = NormNeed /\ sb_avail (bd_rc d) = 0 /\ bd_range d < 16777216) \/
  (exists rb r c, bcj2_normalize d = NormOk (bd_set_rc d rb r c) /\
     sb_full rb /\ rc_norm rc_out r c (sb_live rb ++ fr) e /\
     (r = bd_range d /\ c = bd_code d /\ rb = bd_rc d \/ bd_range d < 16777216)).
Proof.
  intros [Hfull Hok] HI. unfold bcj2_normalize, K_TOP_VALUE.
  destruct (Z.ltb_spec (bd_range d) 16777216) as [Hlt|Hge].
  - pose proof (sb_pop_full _ Hfull) as Hpop.
    destruct (sb_live (bd_rc d)) as [|x l] eqn:El.
    + rewrite Hpop. left. split; [reflexivity|]. split; [|exact Hlt].
      unfold sb_full in Hfull. rewrite El in Hfull. exact Hfull.
    + destruct Hpop as [Hpop Hf']. rewrite Hpop. right.
      exists (mkSb l (sb_avail (bd_rc d) - 1)), (wrap32 (bd_range d * 256)), (code_shift_in (bd_code d) x).
      split; [reflexivity|]. split; [exact Hf'|]. split; [|right; exact Hlt].
      cbn [sb_live]. cbn [app] in Hok. apply (rc_ok_step _ _ _ _ _ _ Hok HI Hlt).
  - right. exists (bd_rc d), (bd_range d), (bd_code d).
    split.
    + f_equal. destruct d; reflexivity.
    + split; [exact Hfull|]. split; [apply (rc_ok_big _ _ _ _ _ Hok Hge) | left; auto].
Qed.

(* the opportunistic normalisation after `break` *)
Lemma finish_spec rc_out d fr e o :
  g_rc rc_out (bd_rc d) (bd_range d) (bd_code d) fr e -> renc_inv e ->
  exists rb r c, bcj2_finish d o = Ok (true, bd_set_rc d rb r c, o) /\
    g_rc rc_out rb r c fr e.
Proof.
  intros Hg HI. unfold bcj2_finish.
  destruct (normalize_spec _ _ _ _ Hg HI) as [(Hn & _) | (rb & r & c & Hn & Hf & Hm & _)].
  - rewrite Hn. exists (bd_rc d), (bd_range d), (bd_code d). split; [|exact Hg].
    do 2 f_equal. destruct d; reflexivity.
  - rewrite Hn. exists rb, r, c. split; [reflexivity|]. split; [exact Hf|].
    apply rc_norm_ok; assumption.
Qed.

(* ---------------------------------------------------------------------------------------------
   the word of the CALL / JUMP stream *)
Lemma wrap32_ip_back pos : wrap32 (wrap32 (pos - 4) + 4) = wrap32 pos.
Proof. rewrite wrap32_add_l. f_equal. lia. Qed.

Lemma sb_word_take b : sb_word b -> sb_avail b <> 0 ->
  exists b0 b1 b2 b3 rest, sb_live b = b0 :: b1 :: b2 :: b3 :: rest /\ sb_word (mkSb rest (sb_avail b - 4)).
Proof.
  unfold sb_word. intros (Ha & Hm & He) Hne.
  assert (H4 : 4 <= sb_avail b) by lia.
  destruct (sb_live b) as [|b0 [|b1 [|b2 [|b3 rest]]]] eqn:El;
    try (unfold zlen in Ha; cbn [length] in Ha; lia).
  exists b0, b1, b2, b3, rest. split; [reflexivity|]. cbn [sb_live sb_avail].
  rewrite !zlen_cons in *. pose proof (zlen_nonneg rest). lia.
Qed.

Lemma out_firstn_rev rem (v0 v1 v2 : Z) v3 (o : list Z) : 0 <= rem < 4 ->
  (if 2 <? rem then v2 :: v1 :: v0 :: o else if 1 <? rem then v1 :: v0 :: o else if 0 <? rem then v0 :: o else o) =
  rev (firstn (Z.to_nat rem) [v0; v1; v2; v3]) ++ o.
Proof.
  intros H. assert (Hc : rem = 0 \/ rem = 1 \/ rem = 2 \/ rem = 3) by lia.
  destruct Hc as [-> | [-> | [-> | ->]]]; reflexivity.
Qed.

Lemma conv_spec rc_out lim d F o ic r0 r1 r2 r3 its prev pos e t :
  b2core rc_out d F (mkCfg (PhWord ic r0 r1 r2 r3) its prev pos e t) ->
  0 <= bd_dest d <= lim ->
  (sb_avail (if ic then bd_call d else bd_jump d) = 0 /\
   bcj2_conv lim d o = Ok (CvBreak (bd_set_state d (if ic then 1 else 2)) o)) \/
  (exists d', lim - bd_dest d < 4 /\
     bcj2_conv lim d o = Ok (CvBreak d' (rev (firstn (Z.to_nat (lim - bd_dest d)) [r0; r1; r2; r3]) ++ o)) /\
     b2core rc_out d' F (mkCfg (PhTemp (lim - bd_dest d) r0 r1 r2 r3) its prev pos e t) /\
     bd_state d' = 4 + (lim - bd_dest d) /\ bd_dest d' = lim /\
     bd_rc d' = bd_rc d /\ bd_range d' = bd_range d /\ bd_code d' = bd_code d /\ bd_main d' = bd_main d) \/
  (exists d', 4 <= lim - bd_dest d /\
     bcj2_conv lim d o = Ok (CvCont d' (r3 :: r2 :: r1 :: r0 :: o)) /\
     b2core rc_out d' F (mkCfg PhScan its prev pos e t) /\
     bd_state d' = bd_state d /\ bd_dest d' = bd_dest d + 4 /\
     bd_rc d' = bd_rc d /\ bd_range d' = bd_range d /\ bd_code d' = bd_code d /\ bd_main d' = bd_main d).
Proof.
  intros (Hmain & Hcj & Henc & Hwf & Hprev & Hregs) Hdest.
  cbn [c_ph c_its c_prev c_pos c_e c_t] in *.
  unfold g_regs in Hregs. cbn [c_ph c_pos c_prev] in Hregs.
  destruct Hregs as (Ht3 & Hip & Hp3 & I0 & I1 & I2 & I3).
  destruct Hcj as (Hc & Hcw & Hj & Hjw).
  pose proof (le32_range _ _ _ _ I0 I1 I2 I3) as Hrel.
  set (abs := wrap32 (le32 r0 r1 r2 r3 + wrap32 pos)) in *.
  destruct (be32_value abs (wrap32_range _)) as (a0 & a1 & a2 & a3 & Hbe & Hval).
  pose proof (le32_bytes _ _ _ _ I0 I1 I2 I3) as Hle. cbv zeta in Hle. destruct Hle as (L0 & L1 & L2 & L3).
  assert (Hsub : wrap32 (abs - wrap32 (bd_ip d + 4)) = le32 r0 r1 r2 r3).
  { rewrite Hip, wrap32_ip_back. apply abs_rel. exact Hrel. }
  unfold bcj2_conv. rewrite Ht3.
  destruct ic; cbn [pend_word Bool.eqb] in Hc, Hj; fold abs in Hc, Hj; cbv iota.
  - (* CALL *)
    destruct (Z.eqb_spec (sb_avail (bd_call d)) 0) as [Hz|Hnz]; [left; split; [exact Hz | reflexivity]|].
    right.
    destruct (sb_word_take _ Hcw Hnz) as (b0 & b1 & b2 & b3 & rest & Hl & Hw').
    rewrite Hl in *. rewrite Hbe in Hc. cbn [app] in Hc. injection Hc as -> -> -> -> Hc.
    rewrite Hval, Hsub, L0, L1, L2, L3.
    replace (lim <? bd_dest d) with false by (symmetry; apply Z.ltb_ge; lia).
    rewrite Hip, wrap32_ip_back.
    destruct (Z.ltb_spec (lim - bd_dest d) 4) as [Hr4|Hr4].
    + left. eexists. split; [exact Hr4|]. split.
      { rewrite (out_firstn_rev _ r0 r1 r2 r3) by lia. reflexivity. }
      split.
      { unfold b2core. cbn [bd_set_conv bd_main bd_call bd_jump bd_probs c_ph c_its c_prev c_pos c_e c_t].
        msplit; try assumption.
        unfold g_cj. cbn [pend_word app]. msplit; assumption.
        unfold g_regs. cbn [c_ph c_pos c_prev bd_set_conv bd_t0 bd_t1 bd_t2 bd_t3 bd_ip].
        msplit; try reflexivity; try assumption; lia. }
      cbn [bd_set_conv bd_state bd_dest bd_rc bd_range bd_code bd_main BCJ2_DEC_STATE_ORIG_0].
      unfold BCJ2_DEC_STATE_ORIG_0. msplit; try reflexivity; lia.
    + right. eexists. split; [exact Hr4|]. split; [reflexivity|].
      split.
      { unfold b2core. cbn [bd_set_conv bd_main bd_call bd_jump bd_probs c_ph c_its c_prev c_pos c_e c_t].
        msplit; try assumption.
        unfold g_cj. cbn [pend_word app]. msplit; assumption.
        unfold g_regs. cbn [c_ph c_pos c_prev bd_set_conv bd_t3 bd_ip]. msplit; [symmetry; exact Hp3 | reflexivity]. }
      cbn [bd_set_conv bd_state bd_dest bd_rc bd_range bd_code bd_main]. msplit; reflexivity.
  - (* JUMP *)
    destruct (Z.eqb_spec (sb_avail (bd_jump d)) 0) as [Hz|Hnz]; [left; split; [exact Hz | reflexivity]|].
    right.
    destruct (sb_word_take _ Hjw Hnz) as (b0 & b1 & b2 & b3 & rest & Hl & Hw').
    rewrite Hl in *. rewrite Hbe in Hj. cbn [app] in Hj. injection Hj as -> -> -> -> Hj.
    rewrite Hval, Hsub, L0, L1, L2, L3.
    replace (lim <? bd_dest d) with false by (symmetry; apply Z.ltb_ge; lia).
    rewrite Hip, wrap32_ip_back.
    destruct (Z.ltb_spec (lim - bd_dest d) 4) as [Hr4|Hr4].
    + left. eexists. split; [exact Hr4|]. split.
      { rewrite (out_firstn_rev _ r0 r1 r2 r3) by lia. reflexivity. }
      split.
      { unfold b2core. cbn [bd_set_conv bd_main bd_call bd_jump bd_probs c_ph c_its c_prev c_pos c_e c_t].
        msplit; try assumption.
        unfold g_cj. cbn [pend_word app]. msplit; assumption.
        unfold g_regs. cbn [c_ph c_pos c_prev bd_set_conv bd_t0 bd_t1 bd_t2 bd_t3 bd_ip].
        msplit; try reflexivity; try assumption; lia. }
      cbn [bd_set_conv bd_state bd_dest bd_rc bd_range bd_code bd_main BCJ2_DEC_STATE_ORIG_0].
      unfold BCJ2_DEC_STATE_ORIG_0. msplit; try reflexivity; lia.
    + right. eexists. split; [exact Hr4|]. split; [reflexivity|].
      split.
      { unfold b2core. cbn [bd_set_conv bd_main bd_call bd_jump bd_probs c_ph c_its c_prev c_pos c_e c_t].
        msplit; try assumption.
        unfold g_cj. cbn [pend_word app]. msplit; assumption.
        unfold g_regs. cbn [c_ph c_pos c_prev bd_set_conv bd_t3 bd_ip]. msplit; [symmetry; exact Hp3 | reflexivity]. }
      cbn [bd_set_conv bd_state bd_dest bd_rc bd_range bd_code bd_main]. msplit; reflexivity.
Qed.
