(* Filter/Bcj2EncProofs.v — facts about the specification encoder of Filter/Bcj2Enc.v: the item list
   it parses the data into is well formed (every item records the candidate test, the probability
   index and the absolute address the format prescribes at its position), it covers the data exactly,
   and its range-coder events are in range.  Proofs only. *)
From LzVerif Require Import Base.Bytes Codec.Store Codec.Range Codec.ProbProofs Codec.RangeArithProofs.
From LzVerif Require Import Codec.LzmaDec Codec.LzmaEnc Codec.RangeEncProofs Codec.RangeProofs.
From LzVerif Require Import Filter.Bcj2Enc.
Ltac Zify.zify_post_hook ::= Z.div_mod_to_equations.

Definition isb (x : Z) : Prop := 0 <= x < 256.

(* well-formed item list, starting with previous byte [prev] at offset [pos] (not reduced mod 2^32) *)
Fixpoint items_wf (prev pos : Z) (its : list b2item) : Prop :=
  match its with
  | [] => True
  | B2Lit b :: r => isb b /\ bcj2_is_cand prev b = false /\ items_wf b (pos + 1) r
  | B2Cand b idx :: r =>
      isb b /\ bcj2_is_cand prev b = true /\ idx = bcj2_spec_index prev b /\ items_wf b (pos + 1) r
  | B2Conv b idx ic r0 r1 r2 r3 a :: r =>
      isb b /\ isb r0 /\ isb r1 /\ isb r2 /\ isb r3 /\
      bcj2_is_cand prev b = true /\ idx = bcj2_spec_index prev b /\ ic = (b =? 232) /\
      a = wrap32 (le32 r0 r1 r2 r3 + wrap32 (pos + 5)) /\ items_wf r3 (pos + 5) r
  end.

Lemma wrap32_add_l a b : wrap32 (wrap32 a + b) = wrap32 (a + b).
Proof. unfold wrap32. rewrite Zplus_mod_idemp_l. reflexivity. Qed.
Lemma wrap32_add_r a b : wrap32 (a + wrap32 b) = wrap32 (a + b).
Proof. unfold wrap32. rewrite Zplus_mod_idemp_r. reflexivity. Qed.
Lemma wrap32_idem a : wrap32 (wrap32 a) = wrap32 a.
Proof. unfold wrap32. rewrite Z.mod_mod by lia. reflexivity. Qed.
Lemma wrap32_range a : 0 <= wrap32 a < 4294967296.
Proof. unfold wrap32. lia. Qed.

Lemma bytes_ok_isb b l : bytes_ok (b :: l) = true -> isb b /\ bytes_ok l = true.
Proof. intros H. apply bytes_ok_cons in H. exact H. Qed.

Lemma bcj2_parse_wf n : forall data prev ip pos ds,
  (length data <= n)%nat -> bytes_ok data = true -> ip = wrap32 pos ->
  items_wf prev pos (bcj2_parse data prev ip ds).
Proof.
  induction n as [|n IH]; intros data prev ip pos ds Hn Hb Hip.
  - destruct data; [exact I | cbn [length] in Hn; lia].
  - destruct data as [|b rest]; [exact I|].
    apply bytes_ok_isb in Hb as [Hb0 Hbr]. cbn [length] in Hn.
    assert (Hip1 : wrap32 (ip + 1) = wrap32 (pos + 1)) by (subst ip; apply wrap32_add_l).
    cbn [bcj2_parse]. destruct (bcj2_is_cand prev b) eqn:Ec.
    + destruct (next_decision ds) as [dcs ds'].
      assert (Hcand : forall rest', (length rest' <= n)%nat -> bytes_ok rest' = true ->
                items_wf prev pos (B2Cand b (bcj2_spec_index prev b) :: bcj2_parse rest' b (wrap32 (ip + 1)) ds')).
      { intros rest' Hl Hb'. cbn [items_wf]. split; [exact Hb0|]. split; [exact Ec|]. split; [reflexivity|].
        apply IH; assumption. }
      destruct rest as [|r0 [|r1 [|r2 [|r3 rest4]]]].
      1-4: apply Hcand; [cbn [length] in *; lia | assumption].
      destruct dcs.
      * pose proof Hbr as Hbr'.
        apply bytes_ok_isb in Hbr' as [H0 Hbr']. apply bytes_ok_isb in Hbr' as [H1 Hbr'].
        apply bytes_ok_isb in Hbr' as [H2 Hbr']. apply bytes_ok_isb in Hbr' as [H3 Hbr'].
        assert (Hip5 : wrap32 (ip + 5) = wrap32 (pos + 5)) by (subst ip; apply wrap32_add_l).
        cbn [items_wf]. split; [exact Hb0|]. split; [exact H0|]. split; [exact H1|]. split; [exact H2|].
        split; [exact H3|]. split; [exact Ec|]. split; [reflexivity|]. split; [reflexivity|].
        split; [rewrite Hip5; reflexivity|].
        apply IH; [cbn [length] in *; lia | assumption | exact Hip5].
      * apply Hcand; [cbn [length] in *; lia | assumption].
    + cbn [items_wf]. split; [exact Hb0|]. split; [exact Ec|].
      apply IH; [lia | assumption | assumption].
Qed.

Lemma bcj2_parse_orig n : forall data prev ip ds,
  (length data <= n)%nat -> b2_orig (bcj2_parse data prev ip ds) = data.
Proof.
  unfold b2_orig.
  induction n as [|n IH]; intros data prev ip ds Hn.
  - destruct data; [reflexivity | cbn [length] in Hn; lia].
  - destruct data as [|b rest]; [reflexivity|]. cbn [length] in Hn.
    cbn [bcj2_parse]. destruct (bcj2_is_cand prev b).
    + destruct (next_decision ds) as [dcs ds'].
      destruct rest as [|r0 [|r1 [|r2 [|r3 rest4]]]].
      1-4: cbn [flat_map b2_orig1 app]; f_equal; apply IH; cbn [length] in *; lia.
      destruct dcs; cbn [flat_map b2_orig1 app]; repeat f_equal; apply IH; cbn [length] in *; lia.
    + cbn [flat_map b2_orig1 app]. f_equal. apply IH. lia.
Qed.

Lemma bcj2_parse_length n : forall data prev ip ds,
  (length data <= n)%nat -> (length (bcj2_parse data prev ip ds) <= length data)%nat.
Proof.
  induction n as [|n IH]; intros data prev ip ds Hn.
  - destruct data; [cbn; lia | cbn [length] in Hn; lia].
  - destruct data as [|b rest]; [cbn; lia|]. cbn [length] in Hn.
    cbn [bcj2_parse]. destruct (bcj2_is_cand prev b).
    + destruct (next_decision ds) as [dcs ds'].
      assert (Hcand : forall rest', (length rest' <= n)%nat ->
                (length (B2Cand b (bcj2_spec_index prev b) :: bcj2_parse rest' b (wrap32 (ip + 1)) ds') <= S (length rest'))%nat).
      { intros rest' Hl. cbn [length]. pose proof (IH rest' b (wrap32 (ip + 1)) ds' Hl). lia. }
      destruct rest as [|r0 [|r1 [|r2 [|r3 rest4]]]].
      1-4: apply Hcand; cbn [length] in *; lia.
      destruct dcs.
      * cbn [length]. pose proof (IH rest4 r3 (wrap32 (ip + 5)) ds' ltac:(cbn [length] in *; lia)). lia.
      * apply Hcand; cbn [length] in *; lia.
    + cbn [length]. pose proof (IH rest b (wrap32 (ip + 1)) ds ltac:(lia)). lia.
Qed.

(* the events of an item list *)
Lemma b2_events_ok its : forallb ev_ok (b2_events its) = true.
Proof.
  unfold b2_events. induction its as [|it r IH]; [reflexivity|].
  cbn [flat_map]. rewrite forallb_app, IH, andb_true_r.
  destruct it; reflexivity.
Qed.

Lemma b2_events_bits its : events_bits (b2_events its) <= zlen its.
Proof.
  unfold b2_events. induction its as [|it r IH]; [cbn; unfold zlen; cbn; lia|].
  cbn [flat_map]. rewrite events_bits_app, zlen_cons.
  destruct it; cbn [b2_event1 events_bits ev_bits]; lia.
Qed.

(* little/big-endian words *)
Lemma le32_range r0 r1 r2 r3 : isb r0 -> isb r1 -> isb r2 -> isb r3 -> 0 <= le32 r0 r1 r2 r3 < 4294967296.
Proof. unfold isb, le32. lia. Qed.

Lemma be32_value v : 0 <= v < 4294967296 ->
  exists b0 b1 b2 b3, be32 v = [b0; b1; b2; b3] /\ ((b0 * 256 + b1) * 256 + b2) * 256 + b3 = v.
Proof.
  intros Hv. unfold be32. rewrite !shiftr_div by lia.
  change (2 ^ 24) with 16777216. change (2 ^ 16) with 65536. change (2 ^ 8) with 256.
  do 4 eexists. split; [reflexivity|]. lia.
Qed.

Lemma le32_bytes r0 r1 r2 r3 : isb r0 -> isb r1 -> isb r2 -> isb r3 ->
  let v := le32 r0 r1 r2 r3 in
  v mod 256 = r0 /\ Z.shiftr v 8 mod 256 = r1 /\ Z.shiftr v 16 mod 256 = r2 /\ Z.shiftr v 24 mod 256 = r3.
Proof.
  unfold isb, le32. intros H0 H1 H2 H3. cbv zeta. rewrite !shiftr_div by lia.
  change (2 ^ 24) with 16777216. change (2 ^ 16) with 65536. change (2 ^ 8) with 256.
  repeat split; lia.
Qed.

(* abs - ip' = rel (mod 2^32) *)
Lemma abs_rel rel ip : 0 <= rel < 4294967296 -> wrap32 (wrap32 (rel + ip) - ip) = rel.
Proof.
  intros H. unfold wrap32. rewrite Zminus_mod_idemp_l.
  replace (rel + ip - ip) with rel by lia. apply Z.mod_small. exact H.
Qed.
