(* Filter/Bcj2RcProofs.v — the range decoder inside Bcj2Decoder::decode (Filter/Bcj2.v: bcj2_normalize,
   bcj2_bit, the probability array) follows the range ENCODER of the specification (Codec/Range.v)
   bit by bit.  Everything is reduced to the lemmas of Codec/RangeDecProofs.v about [dec_match]: the
   registers (range, code) together with the not yet consumed part of the RC stream form an [rdec];
   the BCJ2 decoder normalises lazily at the top of its loop exactly like [rdec_normalize].
   Proofs only. *)
From LzVerif Require Import Base.Bytes Codec.Store Codec.Range Codec.ProbProofs Codec.RangeArithProofs.
From LzVerif Require Import Codec.LzmaDec Codec.LzmaEnc Codec.RangeEncProofs Codec.RangeDecProofs Codec.RangeNoWrapProofs Codec.RangeProofs.
From LzVerif Require Import Filter.Bcj2 Filter.Bcj2Enc Filter.Bcj2EncProofs.
Ltac Zify.zify_post_hook ::= Z.div_mod_to_equations.

(* ---------------------------------------------------------------------------------------------
   the probability array [u16; 258] against the encoder's table *)
Definition ptab_rel (l : list Z) (t : probs) : Prop :=
  zlen l = 258 /\ forall k, 0 <= k < 258 -> zth l k = Some (prob_get t k).

Lemma nth_opt_repeatn {A} (x : A) n k : (k < n)%nat -> nth_opt (repeatn x n) k = Some x.
Proof.
  revert k; induction n as [|n IH]; intros k Hk; [lia|].
  destruct k as [|k]; cbn [repeatn nth_opt]; [reflexivity | apply IH; lia].
Qed.

Lemma repeatn_length {A} (x : A) n : length (repeatn x n) = n.
Proof. induction n; cbn [repeatn length]; auto. Qed.

Lemma ptab_rel_init : ptab_rel (bd_probs bdec_new) PLeaf.
Proof.
  cbn [bdec_new bd_probs]. change (Z.shiftr BIT_MODEL_TOTAL 1) with 1024.
  split.
  - unfold zlen. rewrite repeatn_length. reflexivity.
  - intros k Hk. unfold zth. destruct (Z.ltb_spec k 0); [lia|].
    rewrite nth_opt_repeatn by (unfold BCJ2_NUM_PROBS; lia). reflexivity.
Qed.

Lemma ptab_rel_upd l t k v : ptab_rel l t -> 0 <= k < 258 -> ptab_rel (zupd l k v) (prob_set t k v).
Proof.
  intros [Hl Hg] Hk. split.
  - unfold zlen in *. rewrite zupd_length. exact Hl.
  - intros j Hj. unfold zth, zupd, prob_get, prob_set.
    destruct (Z.ltb_spec j 0); [lia|]. destruct (Z.ltb_spec k 0); [lia|].
    destruct (Z.eq_dec j k) as [->|Hne].
    + rewrite agss. apply nth_opt_upd_same. unfold zlen in Hl. lia.
    + rewrite agso by lia. rewrite nth_opt_upd_other by lia.
      specialize (Hg j Hj). unfold zth in Hg. destruct (Z.ltb_spec j 0); [lia|]. exact Hg.
Qed.

(* ---------------------------------------------------------------------------------------------
   normalisation *)
Lemma rdec_normalize_cons r c b inp : r < 16777216 ->
  rdec_normalize (mkRdec r c (b :: inp) 0) = mkRdec (wrap32 (r * 256)) (code_shift_in c b) inp 0.
Proof.
  intros Hr. unfold rdec_normalize, rdec_read, code_shift_in. cbn [rd_range rd_in rd_code rd_over].
  replace (r <? P2_24) with true by (symmetry; apply Z.ltb_lt; exact Hr). reflexivity.
Qed.

Lemma rdec_normalize_big r c inp : 16777216 <= r ->
  rdec_normalize (mkRdec r c inp 0) = mkRdec r c inp 0.
Proof.
  intros Hr. unfold rdec_normalize. cbn [rd_range].
  replace (r <? P2_24) with false by (symmetry; apply Z.ltb_ge; exact Hr). reflexivity.
Qed.

Lemma rdec_normalize_nil_over r c : r < 16777216 -> rd_over (rdec_normalize (mkRdec r c [] 0)) = 1.
Proof.
  intros Hr. unfold rdec_normalize, rdec_read. cbn [rd_range rd_in rd_over].
  replace (r <? P2_24) with true by (symmetry; apply Z.ltb_lt; exact Hr). reflexivity.
Qed.

(* the registers are those of a normalised decoder that corresponds to encoder state e *)
Definition rc_norm (out : list Z) (r c : Z) (inp : list Z) (e : renc) : Prop :=
  dec_match out [] (mkRdec r c inp 0) e.
(* the same up to the pending normalisation *)
Definition rc_ok (out : list Z) (r c : Z) (inp : list Z) (e : renc) : Prop :=
  dec_match out [] (rdec_normalize (mkRdec r c inp 0)) e /\ 0 <= r.

Lemma rc_norm_range out r c inp e : rc_norm out r c inp e -> renc_inv e -> 16777216 <= r < 4294967296.
Proof. intros (Hr & _) [_ HR]. cbn [rd_range] in Hr. lia. Qed.

Lemma rc_norm_ok out r c inp e : rc_norm out r c inp e -> renc_inv e -> rc_ok out r c inp e.
Proof.
  intros Hm HI. pose proof (rc_norm_range _ _ _ _ _ Hm HI) as Hr.
  split; [|lia]. rewrite rdec_normalize_big by lia. exact Hm.
Qed.

(* the range is never in the flush / init region 0..5 *)
Lemma rc_ok_range out r c inp e : rc_ok out r c inp e -> renc_inv e -> 65536 <= r < 4294967296.
Proof.
  intros [(Hr & _) H0] [_ HR].
  destruct (Z.lt_ge_cases r 16777216) as [Hlt|Hge].
  - destruct inp as [|b inp].
    + unfold rdec_normalize, rdec_read in Hr. cbn [rd_range rd_in] in Hr.
      replace (r <? P2_24) with true in Hr by (symmetry; apply Z.ltb_lt; exact Hlt).
      cbn [rd_range] in Hr. unfold wrap32 in Hr. lia.
    + rewrite rdec_normalize_cons in Hr by exact Hlt. cbn [rd_range] in Hr. unfold wrap32 in Hr. lia.
  - rewrite rdec_normalize_big in Hr by exact Hge. cbn [rd_range] in Hr. lia.
Qed.

(* a pending normalisation finds its byte *)
Lemma rc_ok_needs_byte out r c e : rc_ok out r c [] e -> r < 16777216 -> False.
Proof.
  intros [(_ & Ho & _) _] Hr. rewrite rdec_normalize_nil_over in Ho by exact Hr. discriminate.
Qed.

Lemma rc_ok_step out r c b inp e : rc_ok out r c (b :: inp) e -> renc_inv e -> r < 16777216 ->
  rc_norm out (wrap32 (r * 256)) (code_shift_in c b) inp e.
Proof. intros [Hm _] _ Hr. rewrite rdec_normalize_cons in Hm by exact Hr. exact Hm. Qed.

Lemma rc_ok_big out r c inp e : rc_ok out r c inp e -> 16777216 <= r -> rc_norm out r c inp e.
Proof. intros [Hm _] Hr. rewrite rdec_normalize_big in Hm by exact Hr. exact Hm. Qed.

(* ---------------------------------------------------------------------------------------------
   one range-coded bit *)
Lemma encode_bit_snd e t k bit : snd (encode_bit e t k bit) = prob_set t k (prob_update_enc (prob_get t k) bit).
Proof. reflexivity. Qed.

Lemma b2_bit_ok out e t k bit r c inp :
  renc_inv e -> probs_ok t -> bit = 0 \/ bit = 1 -> re_cache_size e + 1 < 4294967296 ->
  bytes_ok out = true ->
  rc_norm out r c inp e ->
  renc_fut out (fst (encode_bit e t k bit)) ->
  exists r' c' p',
    bcj2_bit r c (prob_get t k) = Ok (bit, r', c', p') /\
    snd (encode_bit e t k bit) = prob_set t k p' /\ prob_ok p' = true /\
    rc_ok out r' c' inp (fst (encode_bit e t k bit)).
Proof.
  intros HI Ht Hbit Hs Hb Hm Hf. unfold rc_norm in Hm.
  set (d := mkRdec r c inp 0) in *.
  pose proof (dec_match_normalized _ _ _ _ Hm HI) as Hnorm.
  assert (Hm' : dec_match out [] (rdec_normalize d) e) by (rewrite Hnorm; exact Hm).
  destruct (decode_bit_ok out [] d e t k bit HI Ht Hbit Hs Hb Hm' Hf) as (d1 & Hdec & Hm1).
  destruct (encode_bit_ok e t k bit HI Ht Hbit Hs) as (_ & _ & _ & Hback).
  pose proof (dec_code_range _ _ _ _ Hm (Hback _ Hf) Hb) as Hc. cbn [d rd_code] in Hc.
  pose proof (rc_norm_range _ _ _ _ _ Hm HI) as Hr.
  assert (Hre : re_range e = r) by (destruct Hm as (Hx & _); cbn [d rd_range] in Hx; lia).
  pose proof (probs_ok_get t k Ht) as Hp.
  destruct (prob_update_twins _ bit Hp Hbit) as [Htw Hpok].
  rewrite (prob_update_nowrap _ _ Hp Hbit) in Htw, Hpok.
  apply prob_ok_iff in Hp.
  pose proof (bound_facts r (prob_get t k) Hr Hp) as Hbf. cbv zeta in Hbf.
  unfold decode_bit in Hdec. rewrite Hnorm in Hdec. cbn [d rd_range rd_code rd_in rd_over] in Hdec.
  rewrite shiftr_div in Hdec by lia. change (2 ^ 11) with 2048 in Hdec.
  replace (P2_32 <=? r / 2048 * prob_get t k) with false in Hdec by (symmetry; apply Z.leb_gt; unfold P2_32; lia).
  rewrite encode_bit_snd. rewrite (prob_update_nowrap _ _ (proj2 (prob_ok_iff _) Hp) Hbit).
  unfold bcj2_bit, NUM_MODEL_BITS, BIT_MODEL_TOTAL, NUM_MOVE_BITS.
  rewrite shiftr_div by lia. change (2 ^ 11) with 2048.
  replace (4294967296 <=? r / 2048 * prob_get t k) with false by (symmetry; apply Z.leb_gt; lia).
  destruct (Z.ltb_spec c (r / 2048 * prob_get t k)) as [Hlt|Hge].
  - inversion Hdec; subst bit d1. clear Hdec.
    replace (2048 <? prob_get t k) with false by (symmetry; apply Z.ltb_ge; lia).
    do 3 eexists. split; [reflexivity|]. split; [reflexivity|]. split; [exact Hpok|].
    split; [exact Hm1 | lia].
  - inversion Hdec; subst bit d1. clear Hdec.
    replace (r <? r / 2048 * prob_get t k) with false by (symmetry; apply Z.ltb_ge; lia).
    do 3 eexists. split; [reflexivity|]. split; [reflexivity|]. split; [exact Hpok|].
    unfold wrap32 in Hm1. rewrite !Z.mod_small in Hm1 by lia.
    split; [exact Hm1 | lia].
Qed.

(* ---------------------------------------------------------------------------------------------
   the start: five bytes, the first of which is 0 *)
Lemma rc_norm_init out b1 b2 b3 b4 rest :
  out = 0 :: b1 :: b2 :: b3 :: b4 :: rest ->
  rc_norm out 4294967295 (((b1 * 256 + b2) * 256 + b3) * 256 + b4) rest renc_init.
Proof.
  intros ->. unfold rc_norm.
  split; [reflexivity|]. split; [reflexivity|].
  exists [0; b1; b2; b3; b4], rest. cbn [rd_in rd_code].
  split; [reflexivity|]. split; [reflexivity|]. split; [rewrite app_nil_r; reflexivity|].
  rewrite enc_V_init. unfold be_val. cbn [rev app le_value]. lia.
Qed.

(* ---------------------------------------------------------------------------------------------
   the end: when every bit has been decoded and the decoder is normalised, the code is 0 and the
   RC stream is used up *)
Lemma rc_norm_final out r c inp e :
  rc_norm out r c inp e -> renc_inv e -> re_cache_size e + 5 < 4294967296 ->
  out = renc_bytes (renc_finish e) -> c = 0 /\ inp = [].
Proof.
  intros (_ & _ & read & unread & Hout & Hlen & Hin & Hcode) [HI _] Hs Heq.
  destruct (renc_finish_ok e _ HI Hs) as (_ & Hl & Hv & _).
  cbn [rd_in rd_code] in *. rewrite <- Heq in Hl, Hv.
  assert (Hu : unread = []).
  { rewrite Hout, zlen_app in Hl. destruct unread; [reflexivity|]. rewrite zlen_cons in Hl.
    pose proof (zlen_nonneg unread). lia. }
  subst unread. rewrite app_nil_r in Hout. subst read.
  split; [lia | rewrite Hin; reflexivity].
Qed.
