(* Filter/BcjRiscvProofs.v — the RISC-V filter: one-step unfolding of the loop, shape of a step,
   and with them the stream facts (totality, chunking). *)
From LzVerif Require Import Base.Bytes Filter.Bcj Filter.BcjStream Filter.BcjArithProofs
  Filter.BcjWordProofs Filter.BcjCodeProofs Filter.BcjStreamProofs Filter.BcjWinProofs.
Ltac Zify.zify_post_hook ::= Z.div_mod_to_equations.

Lemma riscv_go_unfold enc pos i b0 b1 b2 b3 b4 b5 b6 b7 t :
  riscv_go enc pos i (b0 :: b1 :: b2 :: b3 :: b4 :: b5 :: b6 :: b7 :: t) =
  match riscv_step enc (pc32 pos i) b0 b1 b2 b3 b4 b5 b6 b7 with
  | RSkip n =>
      if n =? 2 then do r <- riscv_go enc pos (i + 2) (b2 :: b3 :: b4 :: b5 :: b6 :: b7 :: t);
                     let '(o, rest) := r in Ok (b0 :: b1 :: o, rest)
      else if n =? 4 then do r <- riscv_go enc pos (i + 4) (b4 :: b5 :: b6 :: b7 :: t);
                          let '(o, rest) := r in Ok (b0 :: b1 :: b2 :: b3 :: o, rest)
      else if n =? 6 then do r <- riscv_go enc pos (i + 6) (b6 :: b7 :: t);
                          let '(o, rest) := r in Ok (b0 :: b1 :: b2 :: b3 :: b4 :: b5 :: o, rest)
      else Panic 9
  | RJal c1 c2 c3 =>
      do r <- riscv_go enc pos (i + 4) (b4 :: b5 :: b6 :: b7 :: t);
      let '(o, rest) := r in Ok (b0 :: c1 :: c2 :: c3 :: o, rest)
  | RAuipc c0 c1 c2 c3 c4 c5 c6 c7 =>
      do r <- riscv_go enc pos (i + 8) t;
      let '(o, rest) := r in Ok (c0 :: c1 :: c2 :: c3 :: c4 :: c5 :: c6 :: c7 :: o, rest)
  end.
Proof. reflexivity. Qed.

Lemma riscv_go_short enc pos i l : (length l < 8)%nat -> riscv_go enc pos i l = Ok ([], l).
Proof.
  intros H. do 8 (destruct l as [|? l]; [reflexivity|]). cbn [length] in H. lia.
Qed.

(* one step as a function of the 8-byte window *)
Definition riscv_win (enc : bool) (pc : Z) (w : list Z) : outcome (nat * list Z) :=
  match w with
  | [b0; b1; b2; b3; b4; b5; b6; b7] =>
      match riscv_step enc pc b0 b1 b2 b3 b4 b5 b6 b7 with
      | RSkip n =>
          if n =? 2 then Ok (2%nat, [b0; b1])
          else if n =? 4 then Ok (4%nat, [b0; b1; b2; b3])
          else if n =? 6 then Ok (6%nat, [b0; b1; b2; b3; b4; b5])
          else Panic 9
      | RJal c1 c2 c3 => Ok (4%nat, [b0; c1; c2; c3])
      | RAuipc c0 c1 c2 c3 c4 c5 c6 c7 => Ok (8%nat, [c0; c1; c2; c3; c4; c5; c6; c7])
      end
  | _ => Panic 0
  end.

Lemma riscv_go_step enc pos i l : (8 <= length l)%nat ->
  riscv_go enc pos i l =
  (do s <- riscv_win enc (pc32 pos i) (firstn 8 l);
   let '(n, e) := s in
   do r <- riscv_go enc pos (i + Z.of_nat n) (skipn n l);
   let '(o, rest) := r in Ok (e ++ o, rest)).
Proof.
  intros H. do 8 (destruct l as [|? l]; [cbn [length] in H; lia|]).
  rewrite riscv_go_unfold. cbn [firstn riscv_win].
  destruct (riscv_step enc (pc32 pos i) z z0 z1 z2 z3 z4 z5 z6) as [n|c1 c2 c3|c0 c1 c2 c3 c4 c5 c6 c7].
  - destruct (n =? 2); [reflexivity|]. destruct (n =? 4); [reflexivity|]. destruct (n =? 6); reflexivity.
  - reflexivity.
  - reflexivity.
Qed.

(* what a step can answer *)
Lemma riscv_step_shape enc pc b0 b1 b2 b3 b4 b5 b6 b7 :
  match riscv_step enc pc b0 b1 b2 b3 b4 b5 b6 b7 with
  | RSkip n => n = 2 \/ n = 4 \/ n = 6
  | RJal c1 c2 c3 => byte c1 /\ byte c2 /\ byte c3
  | RAuipc c0 c1 c2 c3 c4 c5 c6 c7 =>
      byte c0 /\ byte c1 /\ byte c2 /\ byte c3 /\ byte c4 /\ byte c5 /\ byte c6 /\ byte c7
  end.
Proof.
  unfold riscv_step. cbv zeta.
  repeat match goal with |- context [if ?c then _ else _] => destruct c end;
    try (left; reflexivity); try (right; left; reflexivity); try (right; right; reflexivity);
    unfold byte; repeat split; apply u8_range.
Qed.

Lemma riscv_win_ok enc pc w : length w = 8%nat -> bytes_ok w = true ->
  exists n e, riscv_win enc pc w = Ok (n, e) /\ (1 <= n <= 8)%nat /\ length e = n /\ bytes_ok e = true.
Proof.
  intros Hl Hb. do 8 (destruct w as [|? w]; [cbn [length] in Hl; lia|]).
  destruct w; [|cbn [length] in Hl; lia]. clear Hl.
  repeat (apply bytes_ok_cons in Hb; let H := fresh "B" in destruct Hb as [H Hb]).
  cbn [riscv_win].
  pose proof (riscv_step_shape enc pc z z0 z1 z2 z3 z4 z5 z6) as Hs.
  destruct (riscv_step enc pc z z0 z1 z2 z3 z4 z5 z6) as [n|c1 c2 c3|c0 c1 c2 c3 c4 c5 c6 c7].
  - destruct Hs as [-> | [-> | ->]]; cbn [Z.eqb Pos.eqb]; eexists _, _; (split; [reflexivity|]);
      (split; [lia|]); (split; [reflexivity|]);
      repeat (apply bytes_ok_cons; split; [assumption|]); reflexivity.
  - destruct Hs as (C1 & C2 & C3). eexists _, _. split; [reflexivity|]. split; [lia|]. split; [reflexivity|].
    repeat (apply bytes_ok_cons; split; [assumption|]); reflexivity.
  - destruct Hs as (C0 & C1 & C2 & C3 & C4 & C5 & C6 & C7).
    eexists _, _. split; [reflexivity|]. split; [lia|]. split; [reflexivity|].
    repeat (apply bytes_ok_cons; split; [assumption|]); reflexivity.
Qed.

Lemma code_facts_riscv enc : code_facts RISCV enc.
Proof.
  apply (win_code_facts RISCV enc 8 (riscv_win enc) (riscv_go enc)).
  - lia.
  - intros pos i l. apply riscv_go_short.
  - intros pos i l. apply riscv_go_step.
  - apply riscv_win_ok.
  - reflexivity.
Qed.
